"""C08 — DIRECTED families that run before the random streams, so that the detection of a default-elision bug does not
depend on the seed: for every property whose writer elides a default, the cases "value == default" and "one grid step
away from the default", each crossed with the presence / absence of every auxiliary sub-attribute of that element
(bounds, screenEdgeLock, units, coordinates), as

  * values for the handler streams (`values1/2/4`, same formats as the random generators),
  * documents for the document search and the class-level stream (`make_directed_doc`, one per element class with
    defaults-plus-extras),
  * one-deletion edits of a written tree (`deletions`: each attribute / each kind of child absent).

Everything is deterministic (no randomness at all).  The families stay inside the property's quantifier: the stated
excluded points (all-zero positionOffset, empty interaction range, jumpPosition flag false with interpolationLength,
referenceScreen None, …) are not generated here."""
import itertools
from fractions import Fraction

STEP = 1  # one unit of the 1e-5 grid


def _near(d):
    return [d, d + STEP, d - STEP]


# ---------------------------------------------------------------------------------------------
# handler values


def values1():
    """frequency, jumpPosition, DirectSpeakers position (formats of c08_codec.gen_handler_values)"""
    out = []
    for lo, hi in itertools.product([None, 0, 1, 12000000], repeat=2):
        out.append(("freq", (lo, hi)))
    for il in (None, 0, 1, 512):
        out.append(("jump", (True, il)))
    out.append(("jump", (False, None)))
    bounds = [(None, None), (50000, None), (None, 200000), (50000, 200000), (100000, 100000)]
    locks = [(None, None), ("left", None), (None, "top"), ("right", "bottom")]
    # polar: the distance is elided when it is BoundCoordinate(1.0) — value x bounds x locks
    for d in _near(100000) + [0]:
        for mn, mx in bounds:
            for h, v in locks[:2] if (mn, mx) != (None, None) else locks:
                out.append(("ds", ("P", [(3000000, None, None), (0, None, None), (d, mn, mx)], h, v)))
    for mn, mx in bounds[1:]:
        out.append(("ds", ("P", [(3000000, mn, mx), (0, None, None), (100000, None, None)], None, None)))
        out.append(("ds", ("P", [(3000000, None, None), (0, mn, mx), (100000, None, None)], None, "top")))
    # Cartesian: Z is always written; zero values, bounds, locks
    for z in _near(0):
        for mn, mx in [(None, None), (-50000, None), (None, 50000), (0, 0)]:
            for h, v in locks:
                out.append(("ds", ("C", [(0, None, None), (0, None, None), (z, mn, mx)], h, v)))
    return out


def values2():
    """Objects position, gain element / optional gain / gain attribute, channelLock, objectDivergence, zones"""
    out = []
    locks_h = [None, "left", "right"]
    locks_v = [None, "top", "bottom"]
    for d in _near(100000) + [0]:
        for h in locks_h:
            for v in locks_v:
                out.append(("opos", ("P", 0, 0, d, h, v)))
    for z in _near(0):
        for h in locks_h:
            for v in locks_v:
                out.append(("opos", ("C", 0, 0, z, h, v)))
    out.append(("opos", ("P", 18000000, -9000000, 100000, None, None)))
    out.append(("opos", ("C", 1, -1, 0, None, None)))
    for g in _near(100000) + [0]:
        out.append(("gain", g))
    for g in [None] + _near(100000) + [0]:
        out.append(("ogain", g))
        out.append(("gattr", g))
    for c in [None, (None,), (0,), (1,), (100000,)]:
        out.append(("clock", c))
    out.append(("div", None))
    for val in (0, 1, 100000):
        for az in (None, 0, 1):
            for pr in (None, 0, 1):
                out.append(("div", (val, az, pr)))
    out.append(("zones", []))
    out.append(("zones", [("C", 0, 0, 0, 0, 0, 0)]))
    out.append(("zones", [("P", 0, 0, 0, 0)]))
    out.append(("zones", [("C", -100000, -100000, -100000, 100000, 100000, 100000), ("P", 0, 9000000, -18000000, 18000000)]))
    return out


def values4():
    """positionOffset, interaction ranges, reference screen, Matrix coefficient, matrix"""
    out = [("poff", None)]
    for kind in "PC":
        for comps in itertools.product([0, 1], repeat=3):
            out.append(("poff", (kind,) + comps))       # incl. the all-zero excluded point (recorded, not asserted)
        out.append(("poff", (kind, -1, 0, 0)))
        out.append(("poff", (kind, 0, 0, -1)))
    out.append(("grange", None))
    for mn, mx in itertools.product([None, 0, 100000, 100001], repeat=2):
        out.append(("grange", (mn, mx)))
    out.append(("prange", None))
    cells = [(None, None), (0, None), (None, 0), (0, 0), (-1, 1)]
    for kind in "PC":
        for i in range(3):
            for c in cells:
                rs = [(None, None)] * 3
                rs[i] = c
                out.append(("prange", (kind, list(rs))))
        out.append(("prange", (kind, [(0, 0), (0, 0), (0, 0)])))
    # the default screen is elided by the audioProgramme handler; the screen handler itself always writes everything
    base = ("P", 178000, 0, 0, 100000, 5800000)
    out.append(("screen", base))
    for i in range(1, 6):
        for d in (STEP, -STEP):
            if i == 4 and base[i] + d < 0:
                continue
            v = list(base)
            v[i] += d
            out.append(("screen", tuple(v)))
    out.append(("screen", ("P", 178000, 18000000, -9000000, 0, 5800000)))
    out.append(("screen", ("C", 178000, 0, 0, 0, 0)))
    out.append(("screen", ("C", 178000, 0, 100000, 0, 100000)))
    for w in ("coeff1", "coeff2"):
        for g in [None] + _near(100000) + [0]:
            for ph, de in [(None, None), (0, None), (None, 0), (0, 0)]:
                out.append((w, ("AC_00010001", g, ph, de, None, None, None)))
        for gv, pv, dv in [("", None, None), (None, "", None), (None, None, ""), ("g", "p", "d")]:
            out.append((w, ("AC_00010001", None, None, None, gv, pv, dv)))
    for w in ("matrix1", "matrix2"):
        out.append((w, []))
        out.append((w, [("AC_00010001", None, None, None, None, None, None)]))
        out.append((w, [("AC_00010001", 100000, 0, 0, None, None, None), ("AC_00010002", None, None, None, "g", None, "d")]))
    return out


# ---------------------------------------------------------------------------------------------
# documents

N_DOCS = 7
DOC_NAMES = ["DirectSpeakers-blocks", "Objects-blocks", "HOA-Binaural-blocks", "Matrix-blocks", "audioObjects",
             "programmes-contents", "formats-and-trackUIDs"]


def make_directed_doc(k, version):
    """document number k (0 <= k < N_DOCS) for BS.2076-<version>: one element class with defaults-plus-extras.
    Returns (adm, features)."""
    from ear.fileio.adm.adm import ADM
    from ear.fileio.adm.elements import (
        AlternativeValueSet, AudioBlockFormatBinaural, AudioBlockFormatDirectSpeakers, AudioBlockFormatHoa,
        AudioBlockFormatMatrix, AudioBlockFormatObjects, AudioChannelFormat, AudioContent, AudioObject,
        AudioObjectInteraction, AudioPackFormat, AudioProgramme, AudioStreamFormat, AudioTrackFormat, AudioTrackUID,
        BoundCoordinate, CartesianPositionInteractionRange, CartesianPositionOffset, CartesianZone, ChannelLock,
        DirectSpeakerCartesianPosition, DirectSpeakerPolarPosition, FormatDefinition, Frequency, InteractionRange,
        JumpPosition, LoudnessMetadata, MatrixCoefficient, ObjectCartesianPosition, ObjectDivergence,
        ObjectPolarPosition, PolarPositionInteractionRange, PolarPositionOffset, PolarZone, ScreenEdgeLock,
        TypeDefinition,
    )
    from ear.fileio.adm.elements.version import BS2076Version
    from ear.common import CartesianPosition, CartesianScreen, PolarPosition, PolarScreen
    from ear.fileio.adm.generate_ids import generate_ids
    from . import c08_docs as docs

    v2 = version >= 2
    f = lambda k_: k_ / 100000.0
    adm = ADM(version=BS2076Version(version))
    cm = docs.common()
    for x in cm.audioChannelFormats: adm.addAudioChannelFormat(x)
    for x in cm.audioPackFormats: adm.addAudioPackFormat(x)
    for x in cm.audioStreamFormats: adm.addAudioStreamFormat(x)
    for x in cm.audioTrackFormats: adm.addAudioTrackFormat(x)
    feat = {"directed:" + DOC_NAMES[k]: 1}

    def v2kw(i):
        """gain / importance around their defaults (sub-elements of every block type from BS.2076-2 only)"""
        if not v2:
            return {}
        return [dict(), dict(gain=1.0), dict(gain=f(100001)), dict(gain=f(99999), importance=10), dict(importance=9),
                dict(gain=0.0, importance=0)][i % 6]

    def channel(name, t, blocks, freq=None):
        c = AudioChannelFormat(audioChannelFormatName=name, type=t, audioBlockFormats=blocks,
                               frequency=freq if freq is not None else Frequency())
        adm.addAudioChannelFormat(c)
        return c

    B = BoundCoordinate
    if k == 0:
        blocks, i = [], 0
        bounds = [(None, None), (0.5, None), (None, 2.0), (0.5, 2.0), (1.0, 1.0)]
        for d in (1.0, f(100001), f(99999), 0.0):
            for mn, mx in bounds:
                for sel in (ScreenEdgeLock(), ScreenEdgeLock(horizontal="left", vertical="top")):
                    blocks.append(AudioBlockFormatDirectSpeakers(
                        position=DirectSpeakerPolarPosition(bounded_azimuth=B(30.0), bounded_elevation=B(0.0),
                                                            bounded_distance=B(d, min=mn, max=mx), screenEdgeLock=sel),
                        speakerLabel=[["M+030"], [], ["", "a b"]][i % 3], **v2kw(i)))
                    i += 1
        for mn, mx in bounds[1:]:
            blocks.append(AudioBlockFormatDirectSpeakers(position=DirectSpeakerPolarPosition(
                bounded_azimuth=B(0.0, min=mn, max=mx), bounded_elevation=B(0.0, min=mn, max=mx)), **v2kw(i)))
            i += 1
        channel("ds-polar", TypeDefinition.DirectSpeakers, blocks)
        blocks = []
        for z in (0.0, f(1), f(-1)):
            for mn, mx in [(None, None), (-0.5, None), (None, 0.5), (0.0, 0.0)]:
                for sel in (ScreenEdgeLock(), ScreenEdgeLock(vertical="bottom"), ScreenEdgeLock(horizontal="right")):
                    blocks.append(AudioBlockFormatDirectSpeakers(
                        position=DirectSpeakerCartesianPosition(bounded_X=B(0.0), bounded_Y=B(0.0, min=mn, max=mx),
                                                                bounded_Z=B(z, min=mn, max=mx), screenEdgeLock=sel),
                        **v2kw(i)))
                    i += 1
        channel("ds-cartesian", TypeDefinition.DirectSpeakers, blocks, Frequency(lowPass=0.0))
    elif k == 1:
        blocks, i = [], 0
        for d in (1.0, f(100001), f(99999), 0.0):
            for h in (None, "left"):
                for v in (None, "bottom"):
                    blocks.append(AudioBlockFormatObjects(position=ObjectPolarPosition(
                        azimuth=0.0, elevation=0.0, distance=d, screenEdgeLock=ScreenEdgeLock(horizontal=h, vertical=v)),
                        gain=[1.0, f(100001), f(99999), 0.0][i % 4], importance=[10, 9, 0, 10][i % 4]))
                    i += 1
        for z in (0.0, f(1), f(-1)):
            for h in (None, "right"):
                for v in (None, "top", "bottom"):
                    blocks.append(AudioBlockFormatObjects(position=ObjectCartesianPosition(
                        X=0.0, Y=0.0, Z=z, screenEdgeLock=ScreenEdgeLock(horizontal=h, vertical=v)), cartesian=True))
        P0 = lambda: ObjectPolarPosition(0.0, 0.0, 1.0)
        for nm in ("width", "height", "depth", "diffuse"):
            for val in (0.0, f(1)):
                blocks.append(AudioBlockFormatObjects(position=P0(), **{nm: val}))
        for cl in (ChannelLock(), ChannelLock(maxDistance=0.0), ChannelLock(maxDistance=f(1))):
            blocks.append(AudioBlockFormatObjects(position=P0(), channelLock=cl))
        for dv in (ObjectDivergence(0.0), ObjectDivergence(0.0, azimuthRange=0.0), ObjectDivergence(0.0, positionRange=0.0),
                   ObjectDivergence(f(1), azimuthRange=0.0, positionRange=0.0)):
            blocks.append(AudioBlockFormatObjects(position=P0(), objectDivergence=dv))
        for il in (None, Fraction(0), Fraction(1, 100000)):
            blocks.append(AudioBlockFormatObjects(position=P0(), jumpPosition=JumpPosition(flag=True, interpolationLength=il)))
        blocks.append(AudioBlockFormatObjects(position=P0(), jumpPosition=JumpPosition()))
        for sr in (False, True):
            blocks.append(AudioBlockFormatObjects(position=P0(), screenRef=sr, cartesian=sr))
        blocks.append(AudioBlockFormatObjects(position=P0(), zoneExclusion=[CartesianZone(0.0, 0.0, 0.0, 0.0, 0.0, 0.0),
                                                                            PolarZone(0.0, 0.0, 0.0, 0.0)]))
        channel("objects-untimed", TypeDefinition.Objects, blocks, Frequency(highPass=0.0))
        timed = [AudioBlockFormatObjects(position=P0(), rtime=Fraction(0), duration=Fraction(0)),
                 AudioBlockFormatObjects(position=P0(), rtime=Fraction(0), duration=Fraction(1, 100000)),
                 AudioBlockFormatObjects(position=P0(), rtime=Fraction(1, 100000), duration=Fraction(0))]
        channel("objects-timed", TypeDefinition.Objects, timed, Frequency(lowPass=0.0, highPass=0.0))
    elif k == 2:
        blocks = [AudioBlockFormatHoa(**v2kw(0)), AudioBlockFormatHoa(order=0, degree=0, **v2kw(1)),
                  AudioBlockFormatHoa(equation="", normalization="", **v2kw(2)),
                  AudioBlockFormatHoa(nfcRefDist=0.0, screenRef=False, **v2kw(3)),
                  AudioBlockFormatHoa(nfcRefDist=f(1), screenRef=True, order=1, degree=-1, **v2kw(4)),
                  AudioBlockFormatHoa(equation="e", **v2kw(5))]
        channel("hoa", TypeDefinition.HOA, blocks)
        channel("binaural", TypeDefinition.Binaural, [AudioBlockFormatBinaural(**v2kw(i)) for i in range(6)])
        channel("binaural-timed", TypeDefinition.Binaural,
                [AudioBlockFormatBinaural(rtime=Fraction(0), duration=Fraction(0), **v2kw(1))])
    elif k == 3:
        inp = cm.audioChannelFormats[0]
        blocks = [AudioBlockFormatMatrix(**v2kw(0)),
                  AudioBlockFormatMatrix(outputChannelFormat=cm.audioChannelFormats[1], **v2kw(1))]
        coeffs = []
        for g in (None, 1.0, f(100001), 0.0):
            for ph, de in [(None, None), (0.0, None), (None, 0.0), (0.0, 0.0)]:
                coeffs.append(MatrixCoefficient(inputChannelFormat=inp, gain=g, phase=ph, delay=de))
        for gv, pv, dv in [("", None, None), (None, "", None), (None, None, ""), ("g", "p", "d")]:
            coeffs.append(MatrixCoefficient(inputChannelFormat=inp, gainVar=gv, phaseVar=pv, delayVar=dv))
        blocks.append(AudioBlockFormatMatrix(matrix=coeffs[:8], **v2kw(2)))
        blocks.append(AudioBlockFormatMatrix(matrix=coeffs[8:], outputChannelFormat=inp, **v2kw(3)))
        blocks.append(AudioBlockFormatMatrix(matrix=coeffs[:1], **v2kw(4)))
        channel("matrix", TypeDefinition.Matrix, blocks)
    elif k == 4:
        pack = AudioPackFormat(audioPackFormatName="p", type=TypeDefinition.Objects)
        adm.addAudioPackFormat(pack)
        uid = AudioTrackUID(trackIndex=1, audioTrackFormat=cm.audioTrackFormats[0], audioPackFormat=pack)
        adm.addAudioTrackUID(uid)
        R = InteractionRange

        def inter(i):
            return [AudioObjectInteraction(onOffInteract=False),
                    AudioObjectInteraction(onOffInteract=True, gainInteract=False, positionInteract=False),
                    AudioObjectInteraction(onOffInteract=False, gainInteract=True, gainInteractionRange=R(min=0.0)),
                    AudioObjectInteraction(onOffInteract=False, gainInteractionRange=R(max=0.0)),
                    AudioObjectInteraction(onOffInteract=True, gainInteractionRange=R(min=1.0, max=1.0)),
                    AudioObjectInteraction(onOffInteract=True, positionInteract=True,
                                           positionInteractionRange=PolarPositionInteractionRange(azimuth=R(min=0.0))),
                    AudioObjectInteraction(onOffInteract=True,
                                           positionInteractionRange=PolarPositionInteractionRange(distance=R(max=0.0))),
                    AudioObjectInteraction(onOffInteract=True, positionInteractionRange=CartesianPositionInteractionRange(
                        X=R(min=0.0, max=0.0), Z=R(max=f(1)))),
                    AudioObjectInteraction(onOffInteract=True, positionInteractionRange=CartesianPositionInteractionRange(
                        Y=R(min=f(-1))))][i % 9]

        objs = [AudioObject(audioObjectName="defaults"),
                AudioObject(audioObjectName="", importance=0, dialogue=0, interact=False, disableDucking=False,
                            start=Fraction(0), duration=Fraction(0)),
                AudioObject(audioObjectName="refs", audioPackFormats=[pack], audioTrackUIDs=[None, uid, None])]
        for i in range(9):
            objs.append(AudioObject(audioObjectName="interaction%d" % i, audioObjectInteraction=inter(i)))
        if v2:
            for g in (1.0, f(100001), f(99999), 0.0):
                for m in (False, True):
                    objs.append(AudioObject(audioObjectName="gain-mute", gain=g, mute=m))
            offs = [PolarPositionOffset(azimuth=f(1)), PolarPositionOffset(elevation=f(-1)), PolarPositionOffset(distance=f(1)),
                    PolarPositionOffset(azimuth=f(1), distance=f(1)), CartesianPositionOffset(X=f(1)),
                    CartesianPositionOffset(Y=f(1)), CartesianPositionOffset(Z=f(-1)), CartesianPositionOffset(X=f(1), Z=f(1))]
            for o in offs:
                objs.append(AudioObject(audioObjectName="offset", positionOffset=o))
            avss = [AlternativeValueSet(), AlternativeValueSet(gain=1.0), AlternativeValueSet(gain=0.0, mute=False),
                    AlternativeValueSet(gain=f(100001), mute=True), AlternativeValueSet(positionOffset=offs[0]),
                    AlternativeValueSet(positionOffset=offs[6], audioObjectInteraction=inter(2)),
                    AlternativeValueSet(mute=False, audioObjectInteraction=inter(0))]
            objs.append(AudioObject(audioObjectName="avs", alternativeValueSets=avss))
            objs.append(AudioObject(audioObjectName="avs1", alternativeValueSets=[AlternativeValueSet(gain=1.0)], gain=1.0))
        for o in objs:
            adm.addAudioObject(o)
        adm.addAudioContent(AudioContent(audioContentName="c", audioObjects=objs[:2]))
    elif k == 5:
        LM = LoudnessMetadata
        louds = [[], [LM()], [LM(loudnessMethod="", loudnessRecType="", loudnessCorrectionType="")],
                 [LM(integratedLoudness=0.0, loudnessRange=0.0, maxTruePeak=0.0, maxMomentary=0.0, maxShortTerm=0.0,
                     dialogueLoudness=0.0)],
                 [LM(integratedLoudness=-23.0), LM(loudnessMethod="m", maxTruePeak=f(-1))]]
        contents = []
        for i, ls in enumerate(louds):
            c = AudioContent(audioContentName="c%d" % i, loudnessMetadata=ls,
                             **[dict(), dict(dialogue=0), dict(audioContentLanguage=""), dict(dialogue=1, audioContentLanguage="en"),
                                dict()][i])
            contents.append(c)
            adm.addAudioContent(c)
        PS = lambda ar=1.78, az=0.0, el=0.0, d=1.0, w=58.0: PolarScreen(
            aspectRatio=ar, centrePosition=PolarPosition(az, el, d), widthAzimuth=w)
        screens = [None, PS(), PS(ar=f(178001)), PS(az=f(1)), PS(el=f(-1)), PS(d=f(100001)), PS(d=f(99999)), PS(d=0.0),
                   PS(w=f(5800001)), PS(ar=0.0, w=0.0),
                   CartesianScreen(aspectRatio=1.78, centrePosition=CartesianPosition(0.0, 0.0, 0.0), widthX=0.0),
                   CartesianScreen(aspectRatio=1.78, centrePosition=CartesianPosition(0.0, 1.0, 0.0), widthX=f(1))]
        for i, s in enumerate(screens):
            kw = dict(audioProgrammeName="p%d" % i, loudnessMetadata=[LM(**vars_) for vars_ in
                                                                       ([], [{}], [dict(integratedLoudness=0.0)])[i % 3]])
            if s is not None:  # (None = the constructor default, i.e. the default screen object itself)
                kw["referenceScreen"] = s
            if i % 4 == 1:
                kw.update(start=Fraction(0), end=Fraction(0), maxDuckingDepth=0.0, audioProgrammeLanguage="")
            if i % 4 == 2:
                kw.update(start=Fraction(0), maxDuckingDepth=f(-1), audioContents=contents[:2])
            if i % 4 == 3:
                kw.update(end=Fraction(1, 100000), audioContents=contents)
            adm.addAudioProgramme(AudioProgramme(**kw))
    elif k == 6:
        ch = channel("b", TypeDefinition.Binaural, [AudioBlockFormatBinaural()])
        packs = []
        for i, kw in enumerate([dict(), dict(importance=0), dict(absoluteDistance=0.0), dict(importance=10, absoluteDistance=f(1)),
                                dict(audioChannelFormats=[ch])]):
            p = AudioPackFormat(audioPackFormatName="p%d" % i, type=TypeDefinition.Binaural, **kw)
            packs.append(p)
            adm.addAudioPackFormat(p)
        for i, kw in enumerate([dict(), dict(normalization=""), dict(nfcRefDist=0.0, screenRef=False),
                                dict(normalization="SN3D", nfcRefDist=f(1), screenRef=True)]):
            adm.addAudioPackFormat(AudioPackFormat(audioPackFormatName="h%d" % i, type=TypeDefinition.HOA, **kw))
        m = AudioPackFormat(audioPackFormatName="m", type=TypeDefinition.Matrix, inputPackFormat=packs[0],
                            outputPackFormat=packs[1], encodePackFormats=[packs[2]], audioPackFormats=[])
        adm.addAudioPackFormat(m)
        s = AudioStreamFormat(audioStreamFormatName="s", format=FormatDefinition.PCM, audioChannelFormat=ch)
        s0 = AudioStreamFormat(audioStreamFormatName="", format=FormatDefinition.PCM, audioPackFormat=packs[0])
        adm.addAudioStreamFormat(s)
        adm.addAudioStreamFormat(s0)
        tf = AudioTrackFormat(audioTrackFormatName="t", format=FormatDefinition.PCM, audioStreamFormat=s)
        adm.addAudioTrackFormat(tf)
        adm.addAudioTrackFormat(AudioTrackFormat(audioTrackFormatName="", format=FormatDefinition.PCM, audioStreamFormat=s))
        uids = [dict(audioTrackFormat=tf), dict(audioTrackFormat=tf, audioPackFormat=packs[0]),
                dict(audioTrackFormat=tf, sampleRate=0, bitDepth=0), dict(audioTrackFormat=tf, sampleRate=48000, bitDepth=24)]
        if v2:
            uids += [dict(audioChannelFormat=ch), dict(audioChannelFormat=ch, audioPackFormat=packs[0], sampleRate=0),
                     dict(audioChannelFormat=cm.audioChannelFormats[0])]
        for i, kw in enumerate(uids):
            adm.addAudioTrackUID(AudioTrackUID(trackIndex=i + 1, **kw))
    else:
        raise ValueError("no directed document %r" % (k,))
    generate_ids(adm)
    return adm, feat


# ---------------------------------------------------------------------------------------------
# one-deletion edits of a written tree (parse side: each attribute / each kind of child absent)


def deletions(tree, max_children=12):
    """the tree with one root attribute removed, with one attribute of one direct child removed (first child of
    each distinct (name, attribute set) shape), or with the first child of each distinct shape removed"""
    ns, name, attrs, text, kids = tree
    out = []
    for i in range(len(attrs)):
        out.append((ns, name, attrs[:i] + attrs[i + 1:], text, kids))
    seen = set()
    n = 0
    for j, c in enumerate(kids):
        shape = (c[1], tuple(sorted(k for k, _ in c[2])))
        if shape in seen:
            continue
        seen.add(shape)
        n += 1
        if n > max_children:
            break
        out.append((ns, name, attrs, text, kids[:j] + kids[j + 1:]))
        for i in range(len(c[2])):
            c2 = (c[0], c[1], c[2][:i] + c[2][i + 1:], c[3], c[4])
            out.append((ns, name, attrs, text, kids[:j] + [c2] + kids[j + 1:]))
    return out
