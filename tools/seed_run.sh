#!/bin/sh
# tools/seed_run.sh <seed dir name under /verif/seeded> <property id> [tier]: run a check against the seeded change
S=$1; PID=$2; TIER=${3:-quick}; WT=/tmp/mt_${S}_$$
git -C /repo worktree add -q --detach $WT HEAD || exit 2
git -C $WT apply /verif/seeded/$S/patch.diff || { git -C /repo worktree remove --force $WT; echo "patch does not apply"; exit 2; }
cd /verif && EAR_REPO=$WT ./check $PID $TIER > /tmp/mt_${S}_${PID}.log 2>&1; RC=$?
grep -E "VIOLATION|KNOWN-FINDING|^OK|INFRA" /tmp/mt_${S}_${PID}.log | head -5
grep "failing input" /tmp/mt_${S}_${PID}.log | cut -c1-400 | head -2
git -C /repo worktree remove --force $WT
echo "seed=$S check=$PID tier=$TIER exit=$RC"
