/- Helper lemmas for C10 (DirectSpeakers): sums of squares, non-negativity and LFE-class support of the
   gain vectors built by the model, for arbitrary rule tables / layouts satisfying explicit conditions. -/
import Earverif.Model.DirectSpeakers
import Mathlib.Tactic.Ring
import Mathlib.Tactic.Linarith

namespace Earverif.DS

/-! ### definitions used in the statements -/

/-- Σ x² of a gain vector. -/
def sumSq : List Rat → Rat
  | [] => 0
  | x :: xs => x * x + sumSq xs

/-- Σ g² of a rule's gains. -/
def gainsSumSq : List (String × Rat) → Rat
  | [] => 0
  | (_, g) :: r => g * g + gainsSumSq r

/-- 1 + 2⁻⁴⁰: room for the float64 rounding of the √ table values and of the panner result. -/
def slack : Rat := 1 + mkRat 1 (2 ^ 40)

theorem slack_ge_one : (1 : Rat) ≤ slack := by decide +kernel

/-- Conditions on one mapping rule (decidable; checked over the regenerated table). -/
def ruleOk (r : MappingRule) : Bool :=
  r.gains.all (fun p => decide (0 ≤ p.2)) && decide (gainsSumSq r.gains ≤ slack)
    && r.gains.all (fun p => isLfeName p.1 == isLfeName r.label)

/-- `layout.is_lfe` is exactly "the channel is named LFE1 or LFE2". -/
def layoutOk (L : Layout) : Bool := L.isLfe == L.names.map isLfeName

/-- `pv` is zero at every position whose LFE flag differs from `v`. -/
def ZeroOff (mask : List Bool) (v : Bool) (pv : List Rat) : Prop :=
  ∀ i : Nat, mask[i]? = some (!v) → pv[i]? = some 0

/-- What the theorems assume of the captured geometric sub-results. -/
def GeoOk (L : Layout) (b : Block) (g : Geo) : Prop :=
  (∀ c, g.closest = some c → (candidates L (isLfeChannel b) g.withinBounds)[c]? = some true) ∧
  (∀ x ∈ g.psp, 0 ≤ x) ∧ sumSq g.psp ≤ slack

/-- Inside an ITU common-definition pack the LFE-ness of the block is that of its first label
    (the mapping-rule branch never looks at the frequency element). -/
def PackConsistent (ituPacks : List (String × String)) (b : Block) : Prop :=
  ∀ il, ituLayoutOf ituPacks b = .ok (some il) →
    ∀ l, b.labels.head? = some l → isLfeName (nominalSpeakerLabel l) = isLfeChannel b

/-! ### sums of squares -/

theorem sumSq_nonneg : ∀ l, 0 ≤ sumSq l
  | [] => le_refl _
  | x :: xs => by
    have := sumSq_nonneg xs
    have := mul_self_nonneg x
    simp only [sumSq]; linarith

theorem sumSq_replicate_zero : ∀ n, sumSq (List.replicate n 0) = 0
  | 0 => rfl
  | n + 1 => by simp [List.replicate_succ, sumSq, sumSq_replicate_zero n]

theorem sumSq_set_le : ∀ (l : List Rat) (i : Nat) (v : Rat), sumSq (l.set i v) ≤ sumSq l + v * v
  | [], _, v => by simp only [List.set_nil, sumSq]; have := mul_self_nonneg v; linarith
  | x :: xs, 0, v => by
    simp only [List.set_cons_zero, sumSq]; have := mul_self_nonneg x; linarith
  | x :: xs, i + 1, v => by
    simp only [List.set_cons_succ, sumSq]; have := sumSq_set_le xs i v; linarith

theorem sumSq_assign_le (names : List String) :
    ∀ (gs : List (String × Rat)) (pv : List Rat),
      sumSq (assignGains names gs pv) ≤ sumSq pv + gainsSumSq gs
  | [], pv => by simp [assignGains, gainsSumSq]
  | (nm, g) :: rest, pv => by
    simp only [assignGains, gainsSumSq]
    have h1 := sumSq_assign_le names rest (pv.set (names.idxOf nm) g)
    have h2 := sumSq_set_le pv (names.idxOf nm) g
    linarith

theorem sumSq_unitVec_le (n i : Nat) : sumSq (unitVec n i) ≤ 1 := by
  have := sumSq_set_le (zeros n) i 1
  simp only [zeros, sumSq_replicate_zero] at this
  simpa [unitVec, zeros] using this

theorem sumSq_zeros (n : Nat) : sumSq (zeros n) = 0 := sumSq_replicate_zero n

theorem sumSq_scatter : ∀ (m : List Bool) (ps pv : List Rat), scatter m ps = some pv → sumSq pv = sumSq ps
  | [], [], pv, h => by simp [scatter] at h; subst h; rfl
  | [], _ :: _, pv, h => by simp [scatter] at h
  | true :: m, ps, pv, h => by
    simp only [scatter, Option.map_eq_some_iff] at h
    obtain ⟨q, hq, rfl⟩ := h
    simp [sumSq, sumSq_scatter m ps q hq]
  | false :: m, [], pv, h => by simp [scatter] at h
  | false :: m, p :: ps, pv, h => by
    simp only [scatter, Option.map_eq_some_iff] at h
    obtain ⟨q, hq, rfl⟩ := h
    simp [sumSq, sumSq_scatter m ps q hq]

theorem sumSq_map_mul (a c : Rat) : ∀ l : List Rat,
    sumSq (l.map (fun x => x * a * c)) = sumSq l * ((a * c) * (a * c))
  | [] => by simp [sumSq]
  | x :: xs => by simp only [List.map_cons, sumSq, sumSq_map_mul a c xs]; ring

/-! ### lengths -/

theorem length_assign (names : List String) :
    ∀ (gs : List (String × Rat)) (pv : List Rat), (assignGains names gs pv).length = pv.length
  | [], pv => rfl
  | (nm, g) :: rest, pv => by simp only [assignGains, length_assign names rest, List.length_set]

theorem length_unitVec (n i : Nat) : (unitVec n i).length = n := by simp [unitVec, zeros]

theorem length_scatter : ∀ (m : List Bool) (ps pv : List Rat), scatter m ps = some pv → pv.length = m.length
  | [], [], pv, h => by simp [scatter] at h; subst h; rfl
  | [], _ :: _, pv, h => by simp [scatter] at h
  | true :: m, ps, pv, h => by
    simp only [scatter, Option.map_eq_some_iff] at h
    obtain ⟨q, hq, rfl⟩ := h
    simp [length_scatter m ps q hq]
  | false :: m, [], pv, h => by simp [scatter] at h
  | false :: m, p :: ps, pv, h => by
    simp only [scatter, Option.map_eq_some_iff] at h
    obtain ⟨q, hq, rfl⟩ := h
    simp [length_scatter m ps q hq]

/-! ### non-negativity -/

theorem nonneg_set {l : List Rat} {i : Nat} {v : Rat} (hl : ∀ x ∈ l, 0 ≤ x) (hv : 0 ≤ v) :
    ∀ x ∈ l.set i v, 0 ≤ x := by
  intro x hx
  rcases List.mem_or_eq_of_mem_set hx with h | h
  · exact hl x h
  · exact h ▸ hv

theorem nonneg_zeros (n : Nat) : ∀ x ∈ zeros n, (0 : Rat) ≤ x := by
  intro x hx
  simp only [zeros, List.mem_replicate] at hx
  exact hx.2 ▸ le_refl _

theorem nonneg_unitVec (n i : Nat) : ∀ x ∈ unitVec n i, (0 : Rat) ≤ x :=
  nonneg_set (nonneg_zeros n) (by decide)

theorem nonneg_assign (names : List String) :
    ∀ (gs : List (String × Rat)) (pv : List Rat), (∀ p ∈ gs, 0 ≤ p.2) → (∀ x ∈ pv, 0 ≤ x) →
      ∀ x ∈ assignGains names gs pv, 0 ≤ x
  | [], pv, _, hpv => by simpa [assignGains] using hpv
  | (nm, g) :: rest, pv, hgs, hpv => by
    simp only [assignGains]
    exact nonneg_assign names rest _ (fun p hp => hgs p (List.mem_cons_of_mem _ hp))
      (nonneg_set hpv (hgs (nm, g) List.mem_cons_self))

theorem nonneg_scatter : ∀ (m : List Bool) (ps pv : List Rat), scatter m ps = some pv →
    (∀ x ∈ ps, 0 ≤ x) → ∀ x ∈ pv, 0 ≤ x
  | [], [], pv, h, _ => by simp [scatter] at h; subst h; simp
  | [], _ :: _, pv, h, _ => by simp [scatter] at h
  | true :: m, ps, pv, h, hps => by
    simp only [scatter, Option.map_eq_some_iff] at h
    obtain ⟨q, hq, rfl⟩ := h
    intro x hx
    rcases List.mem_cons.mp hx with h | h
    · exact h ▸ le_refl _
    · exact nonneg_scatter m ps q hq hps x h
  | false :: m, [], pv, h, _ => by simp [scatter] at h
  | false :: m, p :: ps, pv, h, hps => by
    simp only [scatter, Option.map_eq_some_iff] at h
    obtain ⟨q, hq, rfl⟩ := h
    intro x hx
    rcases List.mem_cons.mp hx with h | h
    · exact h ▸ hps p List.mem_cons_self
    · exact nonneg_scatter m ps q hq (fun y hy => hps y (List.mem_cons_of_mem _ hy)) x h

/-! ### LFE-class support -/

theorem zeroOff_zeros (mask : List Bool) (v : Bool) : ZeroOff mask v (zeros mask.length) := by
  intro i hi
  have hlt : i < mask.length := by
    rcases Nat.lt_or_ge i mask.length with h | h
    · exact h
    · rw [List.getElem?_eq_none h] at hi; cases hi
  simp [zeros, hlt]

/-- Setting a position whose flag is `v` (or a position outside the vector) keeps `ZeroOff`. -/
theorem zeroOff_set {mask : List Bool} {v : Bool} {pv : List Rat} (h : ZeroOff mask v pv) (j : Nat) (x : Rat)
    (hj : mask[j]? = some v ∨ mask[j]? = none) : ZeroOff mask v (pv.set j x) := by
  intro i hi
  by_cases hji : j = i
  · subst hji
    rcases hj with hj | hj
    · rw [hj] at hi; cases v <;> simp at hi
    · rw [hj] at hi; cases hi
  · rw [List.getElem?_set_ne hji]; exact h i hi

theorem zeroOff_unitVec {mask : List Bool} {v : Bool} (j : Nat) (hj : mask[j]? = some v ∨ mask[j]? = none) :
    ZeroOff mask v (unitVec mask.length j) :=
  zeroOff_set (zeroOff_zeros mask v) j 1 hj

theorem zeroOff_scatter : ∀ (m : List Bool) (ps pv : List Rat), scatter m ps = some pv → ZeroOff m false pv
  | [], [], pv, h => by intro i hi; simp at hi
  | [], _ :: _, pv, h => by simp [scatter] at h
  | true :: m, ps, pv, h => by
    simp only [scatter, Option.map_eq_some_iff] at h
    obtain ⟨q, hq, rfl⟩ := h
    intro i hi
    cases i with
    | zero => simp
    | succ i => simpa using zeroOff_scatter m ps q hq i (by simpa using hi)
  | false :: m, [], pv, h => by simp [scatter] at h
  | false :: m, p :: ps, pv, h => by
    simp only [scatter, Option.map_eq_some_iff] at h
    obtain ⟨q, hq, rfl⟩ := h
    intro i hi
    cases i with
    | zero => simp at hi
    | succ i => simpa using zeroOff_scatter m ps q hq i (by simpa using hi)

theorem zeroOff_scale {mask : List Bool} {v : Bool} {pv : List Rat} (b : Block) (h : ZeroOff mask v pv) :
    ZeroOff mask v (scale b pv) := by
  intro i hi
  simp [scale, List.getElem?_map, h i hi]

/-- In a well-formed layout the flag at the position of a channel name is "the name is LFE1/LFE2". -/
theorem isLfe_at_idxOf {L : Layout} (hL : layoutOk L = true) {nm : String} (h : nm ∈ L.names) :
    L.isLfe[L.names.idxOf nm]? = some (isLfeName nm) := by
  have hl : L.isLfe = L.names.map isLfeName := by simpa [layoutOk] using hL
  have hlt : L.names.idxOf nm < L.names.length := List.idxOf_lt_length_of_mem h
  rw [hl, List.getElem?_map, List.getElem?_eq_getElem hlt, List.getElem_idxOf hlt]
  rfl

theorem isLfe_length {L : Layout} (hL : layoutOk L = true) : L.isLfe.length = L.names.length := by
  have hl : L.isLfe = L.names.map isLfeName := by simpa [layoutOk] using hL
  simp [hl]

theorem zeroOff_assign {L : Layout} (hL : layoutOk L = true) (v : Bool) :
    ∀ (gs : List (String × Rat)) (pv : List Rat),
      (∀ p ∈ gs, p.1 ∈ L.names ∧ isLfeName p.1 = v) → ZeroOff L.isLfe v pv →
      ZeroOff L.isLfe v (assignGains L.names gs pv)
  | [], pv, _, hpv => by simpa [assignGains] using hpv
  | (nm, g) :: rest, pv, hgs, hpv => by
    simp only [assignGains]
    have h0 := hgs (nm, g) List.mem_cons_self
    refine zeroOff_assign hL v rest _ (fun p hp => hgs p (List.mem_cons_of_mem _ hp)) ?_
    exact zeroOff_set hpv _ g (Or.inl (by rw [isLfe_at_idxOf hL h0.1, h0.2]))

/-! ### the rule loop and the label loop -/

theorem apply_some {r : MappingRule} {il l : String} {L : Layout} {gs : List (String × Rat)}
    (h : r.apply il l L = some gs) : r.gains = gs ∧ r.label = l ∧ ∀ p ∈ gs, p.1 ∈ L.names := by
  unfold MappingRule.apply at h
  split at h
  · cases h
  · split at h
    · cases h
    · split at h
      · cases h
      · rename_i hl
        split at h
        · rename_i hall
          cases h
          refine ⟨rfl, ?_, ?_⟩
          · have : l = r.label := by simpa using hl
            exact this.symm
          · intro p hp
            have := (List.all_eq_true.mp hall) p hp
            simpa using this
        · cases h

theorem firstRule_some {il l : String} {L : Layout} {gs : List (String × Rat)} :
    ∀ {R : List MappingRule}, firstRule il l L R = some gs →
      ∃ r ∈ R, r.gains = gs ∧ r.label = l ∧ ∀ p ∈ gs, p.1 ∈ L.names
  | [], h => by simp [firstRule] at h
  | r :: rs, h => by
    simp only [firstRule] at h
    split at h
    · rename_i g hg
      cases h
      exact ⟨r, List.mem_cons_self, apply_some hg⟩
    · obtain ⟨r', hr', h'⟩ := firstRule_some h
      exact ⟨r', List.mem_cons_of_mem _ hr', h'⟩

theorem labelMatch_some {L : Layout} {lfe : Bool} {idx : Nat} :
    ∀ {ls : List String}, labelMatch L lfe ls = some idx →
      idx < L.names.length ∧ L.isLfe.getD idx false = lfe
  | [], h => by simp [labelMatch] at h
  | l :: ls, h => by
    simp only [labelMatch] at h
    split at h
    · rename_i hc
      split at h
      · rename_i hf
        cases h
        exact ⟨List.idxOf_lt_length_of_mem (List.contains_iff_mem.mp hc), by simpa using hf⟩
      · exact labelMatch_some h
    · exact labelMatch_some h

end Earverif.DS
