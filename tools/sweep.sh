#!/bin/sh
# tools/sweep.sh <jobs> <tier> <VERIF_SEED> [property ids...]: run checks on the unchanged tree, one line per check
J=$1; T=$2; VS=$3; shift 3
[ $# -eq 0 ] && set -- C01 C02 C03 C04 C05 C06 C07 C08 C09 C10 C11 C12 C13 C14 C15 C16 C17 C18 C19 C20
mkdir -p /tmp/sweep
for P in "$@"; do echo $P; done | xargs -P $J -I{} sh -c '
  S=$(date +%s); VERIF_SEED='$VS' ./check {} '$T' > /tmp/sweep/{}_'$T'_'$VS'.log 2>&1; RC=$?
  echo "{} tier='$T' seed='$VS' exit=$RC wall=$(( $(date +%s) - S ))s $(grep -c "^KNOWN-FINDING" /tmp/sweep/{}_'$T'_'$VS'.log) known | $(grep -E "^VIOLATION|^OK" /tmp/sweep/{}_'$T'_'$VS'.log | head -1 | cut -c1-150)"'
