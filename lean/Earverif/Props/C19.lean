/-
C19 — Polar/Cartesian position conversion is invertible.

Theorems about the model `Earverif.Conv` (Model/Conversion.lean) instantiated
with the regenerated table `Earverif.Gen.C19`.
-/
import Earverif.Model.Conversion
import Earverif.Gen.C19_Tables
import Earverif.Proofs.C19Round
import Earverif.Proofs.C19Extent
import Earverif.Proofs.C19Wrap

namespace Earverif.Conv

open Earverif.Gen.C19 (mapping elTop elTopTilde)

/-! ## Table obligations (re-checked against the regenerated table on every run) -/

/-- Clockwise step (decreasing azimuth) from azimuth `a` to azimuth `b`, both
in `[-180, 180]`: a value in `(0, 360]`. -/
def cwStep (a b : Rat) : Rat := if a - b ≤ 0 then a - b + 360 else a - b

/-- Consecutive pairs of a cyclic list: `(l[i], l[(i+1) % n])`. -/
def cyc {β : Type} (l : List β) : List (β × β) := l.zip (l.rotateLeft 1)

/-- A cyclic list of azimuths is a clockwise ring of sectors that covers the
full circle exactly once: every azimuth in `[-180, 180]`, every step clockwise
with width strictly between 0 and 180 degrees (half-width < 90, so the `tan`
warp is defined on it), widths summing to 360. Consecutive sectors share their
boundary by construction (`cyc`). -/
def ringOK (azs : List Rat) : Bool :=
  azs.all (fun a => -180 ≤ a && a ≤ 180) &&
  (cyc azs).all (fun p => 0 < cwStep p.1 p.2 && cwStep p.1 p.2 < 180) &&
  ((cyc azs).map (fun p => cwStep p.1 p.2)).sum == 360

/-- Azimuth (ADM convention, `-atan2(x, y)` in degrees) of the eight points of
the unit square with coordinates in `{-1, 0, 1}`, exactly as the model's `cartAz`
computes it over `ℝ` (`octAz_is_cartAz` below; straight behind is `-180`, the
value `-degrees(atan2(0, -1))` gives — no row of the regenerated table uses it). -/
def octAz (x y : Rat) : Option Rat :=
  if x = 0 ∧ y = 1 then some 0 else if x = 1 ∧ y = 1 then some (-45)
  else if x = 1 ∧ y = 0 then some (-90) else if x = 1 ∧ y = -1 then some (-135)
  else if x = 0 ∧ y = -1 then some (-180) else if x = -1 ∧ y = -1 then some 135
  else if x = -1 ∧ y = 0 then some 90 else if x = -1 ∧ y = 1 then some 45
  else none

/-- Azimuths of the Cartesian ends of the rows (`none` if a row is not one of
the eight square points, or is off the horizontal plane). -/
def cartRing (rows : List (Rat × Rat × Rat × Rat)) : Option (List Rat) :=
  rows.mapM fun (_, x, y, z) => if z = 0 then octAz x y else none

/-- The reference loudspeaker directions and the cube corners / front edge
midpoint they stand for (property text; BS.2127-0 section 10): `(az, x, y)`. -/
def referenceRows : List (Rat × Rat × Rat × Rat) :=
  [(0, 0, 1, 0), (-30, 1, 1, 0), (30, -1, 1, 0), (-110, 1, -1, 0), (110, -1, -1, 0)]

/-- **sector_boundaries_match** (table obligation, independent of the round-trip proofs: those evaluate the
regenerated table to its five sectors by `sectors_RP` (`rfl`) and prove lookup soundness/totality on them directly;
this `decide` obligation re-states the ring structure on the rational table alone, so that a changed table is
reported by a readable obligation and not only by `sectors_RP` failing).  For the regenerated table:
the polar ends of the rows form a clockwise ring covering the full circle once
with sector half-widths `< 90°`; the Cartesian ends of the same rows are square
points in the horizontal plane whose azimuths form such a ring too (so sector
`i` of `_find_sector` and sector `i` of `_find_cart_sector` are spanned by the
same two rows, consecutive sectors share a row, and both lookups cover every
direction); the elevation split constants satisfy `0 < el_top < 90`,
`0 < el_top_tilde < 90`. -/
theorem sector_boundaries_match :
    ringOK (mapping.map (·.1)) = true ∧
    (∃ ring, cartRing mapping = some ring ∧ ringOK ring = true) ∧
    (0 < elTop ∧ elTop < 90 ∧ 0 < elTopTilde ∧ elTopTilde < 90) := by
  refine ⟨by decide +kernel, ⟨_, rfl, by decide +kernel⟩, by decide +kernel⟩

/-- **corners_exact, table part**: the table is exactly the set of reference
directions with their cube corners / edge midpoint, and the elevation split maps
elevation 30 to `el_tilde = 45` (`tan 45° = 1`, i.e. `z = d`). -/
theorem table_is_reference :
    (mapping.all (referenceRows.contains ·) && referenceRows.all (mapping.contains ·)) = true ∧
    mapping.length = referenceRows.length ∧ elTop = 30 ∧ elTopTilde = 45 := by
  decide +kernel

/-! ## Block level: decision logic of `to_polar` / `to_cartesian` (any scalar type) -/

section block
variable {α : Type} [Scalar α] {L R : Type}

/-- The coordinates a block uses. -/
def Block.isPolar (b : Block α L R) : Bool :=
  match b.position with
  | .polar .. => true
  | .cartesian .. => false

/-- `screenEdgeLock` of the position. -/
def Block.lock (b : Block α L R) : L :=
  match b.position with
  | .polar _ _ _ l => l
  | .cartesian _ _ _ l => l

/-- `to_polar` on a block with a polar position only sets the flag (it is the
identity if the flag was consistent); it never fails. -/
theorem toPolar_of_polar (P : Params α) (b : Block α L R) (h : b.isPolar = true) :
    toPolar P b = some { b with cartesian := false } := by
  unfold toPolar fixCartesianFlag
  cases b with
  | mk position width height depth cartesian rest =>
    cases position <;> simp_all [Block.isPolar]

/-- `to_cartesian` on a block with a Cartesian position only sets the flag. -/
theorem toCartesian_of_cartesian (P : Params α) (b : Block α L R) (h : b.isPolar = false) :
    toCartesian P b = some { b with cartesian := true } := by
  unfold toCartesian fixCartesianFlag
  cases b with
  | mk position width height depth cartesian rest =>
    cases position <;> simp_all [Block.isPolar]

/-- The result of `to_polar` uses polar coordinates and has `cartesian = False`. -/
theorem toPolar_result (P : Params α) (b b' : Block α L R) (h : toPolar P b = some b') :
    b'.isPolar = true ∧ b'.cartesian = false := by
  unfold toPolar fixCartesianFlag at h
  cases b with
  | mk position width height depth cartesian rest =>
    cases position with
    | polar az el d lock => simp at h; subst h; simp [Block.isPolar]
    | cartesian x y z lock =>
      simp at h
      split at h
      · simp at h
      · simp at h; subst h; simp [Block.isPolar]

/-- The result of `to_cartesian` uses Cartesian coordinates and has `cartesian = True`. -/
theorem toCartesian_result (P : Params α) (b b' : Block α L R) (h : toCartesian P b = some b') :
    b'.isPolar = false ∧ b'.cartesian = true := by
  unfold toCartesian fixCartesianFlag at h
  cases b with
  | mk position width height depth cartesian rest =>
    cases position with
    | cartesian x y z lock => simp at h; subst h; simp [Block.isPolar]
    | polar az el d lock =>
      simp at h
      split at h
      · simp at h
      · simp at h; subst h; simp [Block.isPolar]

/-- **block_conversion_idempotent**: converting a converted block again is the
identity (both directions), and a block that already uses the target
coordinates with a consistent flag is returned unchanged. -/
theorem block_conversion_idempotent (P : Params α) (b b' : Block α L R) :
    (toPolar P b = some b' → toPolar P b' = some b') ∧
    (toCartesian P b = some b' → toCartesian P b' = some b') ∧
    (b.isPolar = true → b.cartesian = false → toPolar P b = some b) ∧
    (b.isPolar = false → b.cartesian = true → toCartesian P b = some b) := by
  refine ⟨fun h => ?_, fun h => ?_, fun hp hf => ?_, fun hp hf => ?_⟩
  · have ⟨hp, hf⟩ := toPolar_result P b b' h
    rw [toPolar_of_polar P b' hp]; cases b'; simp_all
  · have ⟨hp, hf⟩ := toCartesian_result P b b' h
    rw [toCartesian_of_cartesian P b' hp]; cases b'; simp_all
  · rw [toPolar_of_polar P b hp]; cases b; simp_all
  · rw [toCartesian_of_cartesian P b hp]; cases b; simp_all

/-- **block_conversion_touches_only**: whatever the conversion returns differs
from its argument at most in position coordinates, width/height/depth and the
cartesian flag: every other attribute (`rest`) and the position's
`screenEdgeLock` are unchanged.  This is a property of the MODEL: `rest : R` is opaque, so it is true by
construction; that the real `evolve(...)` calls touch nothing else is established by the harness (comparison of all
attributes of the real result with the input + the `evolve-keywords` AST obligations + the search). -/
theorem block_conversion_touches_only (P : Params α) (b b' : Block α L R) :
    (toPolar P b = some b' → b'.rest = b.rest ∧ b'.lock = b.lock) ∧
    (toCartesian P b = some b' → b'.rest = b.rest ∧ b'.lock = b.lock) := by
  constructor
  · intro h
    unfold toPolar fixCartesianFlag at h
    cases b with
    | mk position width height depth cartesian rest =>
      cases position with
      | polar az el d lock => simp at h; subst h; simp [Block.lock]
      | cartesian x y z lock =>
        simp at h
        split at h
        · simp at h
        · simp at h; subst h; simp [Block.lock]
  · intro h
    unfold toCartesian fixCartesianFlag at h
    cases b with
    | mk position width height depth cartesian rest =>
      cases position with
      | cartesian x y z lock => simp at h; subst h; simp [Block.lock]
      | polar az el d lock =>
        simp at h
        split at h
        · simp at h
        · simp at h; subst h; simp [Block.lock]

/-! ### the conversion stage on a whole channel (`convert_objects_to_polar` / `_to_cartesian`) -/

theorem wrapDrain_eq_map {β γ : Type} (f : β → γ) : ∀ (src : List β) (n : Nat), src.length < n →
    wrapDrain f n src = src.map f
  | [], n + 1, _ => rfl
  | b :: rest, n + 1, h => by
    simp only [wrapDrain, wrapNext, List.map_cons]
    rw [wrapDrain_eq_map f rest n (by simpa using h)]
  | _, 0, h => by simp at h

/-- **convert_stage_blockwise**: pulling a channel's blocks through the wrapper that `convert_objects_to_polar`
/ `convert_objects_to_cartesian` install yields, in order, exactly `to_polar` / `to_cartesian` of each block — as
many blocks as went in, each converted independently of its position in the channel and of the blocks before it (the
model of the wrapper carries no state besides its inner source: a modelling assumption, tied to the real
`MetadataSourceModifyBlockFormat` by the channel correspondence and the `wrapper-stateless` obligation).  Hence every block-level theorem (`toPolar_result`,
`block_conversion_touches_only`, `block_conversion_idempotent`, the round trips) holds for every block of a channel
with mixed coordinate systems. -/
theorem convert_stage_blockwise (P : Params α) (blocks : List (Block α L R)) :
    convertObjectsToPolar P blocks = blocks.map (toPolar P) ∧
    convertObjectsToCartesian P blocks = blocks.map (toCartesian P) :=
  ⟨wrapDrain_eq_map _ _ _ (Nat.lt_succ_self _), wrapDrain_eq_map _ _ _ (Nat.lt_succ_self _)⟩

/-- Every block a converted channel yields is in the target coordinates, whatever the first block was. -/
theorem convert_stage_all_converted (P : Params α) (blocks : List (Block α L R)) (b' : Block α L R) :
    (some b' ∈ convertObjectsToPolar P blocks → b'.isPolar = true ∧ b'.cartesian = false) ∧
    (some b' ∈ convertObjectsToCartesian P blocks → b'.isPolar = false ∧ b'.cartesian = true) := by
  rw [(convert_stage_blockwise P blocks).1, (convert_stage_blockwise P blocks).2]
  constructor
  · intro h
    obtain ⟨b, _, hb⟩ := List.mem_map.mp h
    exact toPolar_result P b b' hb
  · intro h
    obtain ⟨b, _, hb⟩ := List.mem_map.mp h
    exact toCartesian_result P b b' hb

end block

/-! ## Over ℝ: the warps are mutually inverse

The analytic theorems are proved in `Proofs/C19Real.lean` (same namespace) for an arbitrary sector / arbitrary
elevation constants:
`az_warp_left_inv`, `az_warp_right_inv`, `el_warp_inv_low`, `el_warp_inv_high`, `el_warp_inv_cart`,
`mapAzToLinear_left/right`, `mapLinearToAz_zero/one` (warp ends), `polar_range_partial`,
`polar_cart_polar_in_sector_partial`, `cart_polar_cart_in_sector_partial` (superseded for the table model by the
full `polar_cart_polar`, `cart_polar_cart`, `polar_range_table` at the end of this file), and the azimuths of the
eight square points (`at2_*`).  Below they are instantiated with the regenerated table. -/

section real
open Real

/-- **polar_range** (partial) for the regenerated table: whatever `point_cart_to_polar` returns has azimuth
in `[-180, 180)` and `|elevation| ≤ 90`; the distance is `≥ 0` on the two on-axis branches and in the high
elevation regime, and in the low regime provided the gains of the point in the sector found sum to `≥ 0`.
Missing for the full `polar_range`: that the sector found by the `atan2` lookup always has non-negative gains
(sector geometry of `_find_cart_sector`; exercised by the correspondence and the search). -/
theorem polar_range_table_partial (n : Nat) (hn : 1 ≤ n) (x y z az el d : ℝ) (i : Option Nat)
    (h : pointCartToPolar (RP n) x y z = some ((az, el, d), i)) :
    (-180 ≤ az ∧ az < 180) ∧ |el| ≤ 90 ∧
    ((∀ s, findCartSector (RP n) (cartAz x y) = some s → 0 ≤ (gains s x y).1 + (gains s x y).2) → 0 ≤ d) := by
  obtain ⟨h1, h2, h3, h4⟩ := RP_consts n
  exact polar_range_partial (RP n) (by rw [h3]; exact hn) h4 (by rw [h1]; norm_num) (by rw [h1]; norm_num)
    (by rw [h2]; norm_num) (by rw [h2]; norm_num) x y z az el d i h

/-- Elevation warp round trip (both regimes) for the regenerated constants `el_top = 30`, `el_top_tilde = 45`. -/
theorem el_warp_inv_table (n : Nat) (el d : ℝ) (hd : 0 < d) (hel : |el| < 90) :
    elToPolar (RP n) (elToCart (RP n) el d).1 (elToCart (RP n) el d).2 = (el, d) := by
  obtain ⟨h1, h2, -, -⟩ := RP_consts n
  exact el_warp_inv (RP n) (by rw [h1]; norm_num) (by rw [h1]; norm_num)
    (by rw [h2]; norm_num) (by rw [h2]; norm_num) el d hd hel

/-- **corners_exact** (elevation part, regenerated constants): elevations 0 / ±30 map exactly to `z = 0 / ±d`
with `r_xy = d` (`tan 45° = 1`), and back. -/
theorem corners_exact_el (n : Nat) (d : ℝ) (hd : 0 < d) :
    elToCart (RP n) 0 d = (0, d) ∧ elToCart (RP n) 30 d = (d, d) ∧ elToCart (RP n) (-30) d = (-d, d) ∧
    elToPolar (RP n) 0 d = (0, d) ∧ elToPolar (RP n) d d = (30, d) ∧ elToPolar (RP n) (-d) d = (-30, d) := by
  obtain ⟨h1, h2, -, -⟩ := RP_consts n
  have e45 : (45 : ℝ) * (π / 180) = π / 4 := by ring
  have hdd : d / d = 1 := div_self hd.ne'
  have hndd : -d / d = -1 := by rw [neg_div, hdd]
  have a45 : π / 4 * (180 / π) = 45 := by field_simp; ring
  refine ⟨?_, ?_, ?_, ?_, ?_, ?_⟩
  · rw [elToCart_real, h1, h2]; norm_num
  · rw [elToCart_real, h1, h2]; norm_num [e45]
  · rw [elToCart_real, h1, h2]; norm_num [e45]
  · rw [elToPolar_real, h1, h2]; norm_num
  · rw [elToPolar_real, h1, h2, hdd, arctan_one, a45]; norm_num
  · rw [elToPolar_real, h1, h2, hndd, arctan_neg, arctan_one, neg_mul, a45]; norm_num


/-- **corners_exact** (azimuth part, any sector of half-width < 90°): the azimuth warp maps the sector's ends
exactly onto the ends of the linear coordinate (`p = 0` at the left row, `p = 1` at the right row — the point
`r_xy * (left_pos + (right_pos - left_pos) * p)` is then exactly `r_xy * left_pos` / `r_xy * right_pos`), and
back. Together with `table_is_reference` (rows = reference directions with their square points) and
`corners_exact_el` this is the exactness of the reference directions at the level of table + warp formulas. -/
theorem corners_exact_az (l r : ℝ) (hr0 : r - (l + r) / 2 ≠ 0) (hr : |r - (l + r) / 2| < 90) :
    mapAzToLinear l r l = 0 ∧ mapAzToLinear l r r = 1 ∧ mapLinearToAz l r 0 = l ∧ mapLinearToAz l r 1 = r :=
  ⟨mapAzToLinear_left l r hr0 hr, mapAzToLinear_right l r hr0 hr, mapLinearToAz_zero l r hr,
   mapLinearToAz_one l r hr⟩

/-! ### Evaluating the loops and the sector lookup on the table -/

/-- **corners_exact** on the full model for one reference direction (through `_find_sector`, `relative_angle`,
both warps, any fuel): U-030 (az = -30, el = 30) at distance `d` maps exactly to the cube corner `(d, d, d)`,
using sector 0.  The other reference directions follow the same pattern (not spelled out; they are covered at the
level of table + warp formulas by `table_is_reference`, `corners_exact_az`, `corners_exact_el`). -/
theorem corners_exact_point_m30_u30 (n : Nat) (d : ℝ) (hd : 0 < d) :
    pointPolarToCart (RP n) (-30) 30 d = some ((d, d, d), 0) := by
  rw [pointPolarToCart_eq]
  have hs : findSector (RP n) (-30) = some ⟨0, ⟨k 0, k 0, k 1, k 0⟩, ⟨k (-30), k 1, k 1, k 0⟩⟩ := by
    unfold findSector
    have : sectors (RP n) = ⟨0, ⟨k 0, k 0, k 1, k 0⟩, ⟨k (-30), k 1, k 1, k 0⟩⟩ :: (sectors (RP n)).tail := by
      rfl
    rw [this, List.find?_cons_of_pos]
    have : (RP n).fuel = n := rfl
    rw [this]
    simp only [k, Scalar.ofRat]
    rw [show (((-30 : ℚ)) : ℝ) = -30 by norm_num, show (((0 : ℚ)) : ℝ) = 0 by norm_num]
    have := insideAngleRange_plain n (-30) (-30) 0 (by norm_num) (by norm_num) (by norm_num) (by norm_num)
    simp only [k, Scalar.ofRat, Rat.cast_zero] at this
    rw [this]; simp
  rw [hs]
  simp only [Option.map_some, polarToCartIn]
  have hel := (corners_exact_el n d hd).2.1
  rw [hel]
  have hp : azToP (RP n) ⟨0, ⟨k 0, k 0, k 1, k 0⟩, ⟨k (-30), k 1, k 1, k 0⟩⟩ (-30) = 1 := by
    dsimp only [azToP]
    have : (RP n).fuel = n := rfl
    rw [this]
    simp only [k, Scalar.ofRat]
    rw [show (((-30 : ℚ)) : ℝ) = -30 by norm_num, show (((0 : ℚ)) : ℝ) = 0 by norm_num]
    rw [relativeAngle_of_mem n (-30) (-30) (by norm_num) (by norm_num),
        relativeAngle_of_mem n (-30) 0 (by norm_num) (by norm_num)]
    exact mapAzToLinear_right 0 (-30) (by norm_num) (by norm_num [abs_lt])
  rw [hp]
  simp [k, Scalar.ofRat]


/-! ### Non-vacuity: concrete inputs satisfying the hypotheses -/

/-- the sector `(rel_left_az, right_az) = (0, -30)` and azimuth `-10` satisfy the hypotheses of the azimuth
warp theorems -/
example : mapLinearToAz (0:ℝ) (-30) (mapAzToLinear 0 (-30) (-10)) = -10 :=
  az_warp_left_inv 0 (-30) (-10) (by norm_num) (by norm_num [abs_lt]) (by norm_num [abs_lt])

/-- the widest sector `(250, 110)` (half-width 70°) and `p = 1/4` -/
example : mapAzToLinear (250:ℝ) 110 (mapLinearToAz 250 110 (1/4)) = 1/4 :=
  az_warp_right_inv 250 110 (1/4) (by norm_num) (by norm_num [abs_lt]) (by norm_num) (by norm_num)

/-- elevation 60, distance 1/2 (high regime) and elevation -10 (low regime) with the regenerated constants -/
example : elToPolar (RP 8) (elToCart (RP 8) 60 (1/2)).1 (elToCart (RP 8) 60 (1/2)).2 = (60, 1/2) :=
  el_warp_inv_table 8 60 (1/2) (by norm_num) (by norm_num [abs_lt])

example : elToPolar (RP 8) (elToCart (RP 8) (-10) 1).1 (elToCart (RP 8) (-10) 1).2 = (-10, 1) :=
  el_warp_inv_table 8 (-10) 1 (by norm_num) (by norm_num [abs_lt])

/-- sector 0 of the reference table: left row (0, (0,1)), right row (-30, (1,1)) -/
noncomputable def sector0 : Sector ℝ := ⟨0, ⟨0, 0, 1, 0⟩, ⟨-30, 1, 1, 0⟩⟩

/-- Non-vacuity of `polar_cart_polar_in_sector_partial`: az = -10, el = 20, d = 1 in sector 0 of the table. -/
example :
    cartToPolarIn (RP 8) sector0 (polarToCartIn (RP 8) sector0 (-10) 20 1).1
        (polarToCartIn (RP 8) sector0 (-10) 20 1).2.1 (polarToCartIn (RP 8) sector0 (-10) 20 1).2.2 =
      (relativeAngle (RP 8).fuel (k (-180)) (relativeAngle (RP 8).fuel sector0.right.az (-10)), 20, 1) := by
  obtain ⟨h1, h2, h3, -⟩ := RP_consts 8
  have hL : relativeAngle (RP 8).fuel sector0.right.az sector0.left.az = 0 := by
    rw [h3]; exact relativeAngle_of_mem 8 (-30) 0 (by norm_num) (by norm_num)
  have hA : relativeAngle (RP 8).fuel sector0.right.az (-10) = -10 := by
    rw [h3]; exact relativeAngle_of_mem 8 (-30) (-10) (by norm_num) (by norm_num)
  apply polar_cart_polar_in_sector_partial (RP 8) (by rw [h1]; norm_num) (by rw [h1]; norm_num)
    (by rw [h2]; norm_num) (by rw [h2]; norm_num) sector0 (by norm_num [Sector.det, sector0])
    (-10) 20 1 (by norm_num) (by norm_num [abs_lt])
  · rw [hL]; norm_num [sector0]
  · rw [hL]; norm_num [sector0, abs_lt]
  · rw [hA, hL]; norm_num [sector0, abs_lt]


/-! ### The full round trips (table-instantiated model)

Built in `Proofs/C19Round.lean` from: both compositions inside one sector (`polar_in_sector`, `cart_in_sector`,
including the mod-360 bookkeeping `relativeAngle_renorm`), soundness and totality of the two sector lookups on the
table (`find_polar_sound/total`, `find_cart_sound/total` — the latter from the `atan2` geometry of the five sectors,
`cone_of_cartAz`), and independence of the sector chosen on shared boundaries (`cart_sector_indep`,
`polar_sector_indep`). -/

/-- **polar_cart_polar** (full model with the regenerated table, any fuel `≥ 1`, over ℝ): for every polar
position with azimuth in `[-180, 180]`, `d > 0`, `|el| < 90`, `point_polar_to_cart` succeeds, and unless its image
falls in the axis guard of `point_cart_to_polar` (`|x|, |y| < 1e-10`; see `polar_cart_polar_of_radius` for the
condition on the input and `cart_polar_cart_snap` for what happens inside), `point_cart_to_polar` of the image
returns exactly the original azimuth (`180` is returned as `-180`), elevation and distance.
Excluded: `d = 0` (azimuth and elevation are lost), `|el| = 90` (azimuth is lost), the guard zone. -/
theorem polar_cart_polar (m : Nat) (az el d : ℝ) (h1 : -180 ≤ az) (h2 : az ≤ 180) (hd : 0 < d)
    (hel : |el| < 90) :
    ∃ x y z i, pointPolarToCart (RP (m + 1)) az el d = some ((x, y, z), i) ∧
      (¬ (|x| < 1 / 10000000000 ∧ |y| < 1 / 10000000000) →
        ∃ j, pointCartToPolar (RP (m + 1)) x y z = some ((if az = 180 then -180 else az, el, d), some j)) := by
  obtain ⟨s, hs⟩ := find_polar_total m az h1 h2
  obtain ⟨hmem, hin⟩ := find_polar_sound m az s hs
  have g := good_of_mem hmem
  obtain ⟨c1, c2, c3, hrt⟩ := polar_in_sector m s g az el d h1 h2 hin hd hel
  refine ⟨(polarToCartIn (RP (m + 1)) s az el d).1, (polarToCartIn (RP (m + 1)) s az el d).2.1,
    (polarToCartIn (RP (m + 1)) s az el d).2.2, s.idx, ?_, ?_⟩
  · rw [pointPolarToCart_eq, hs]; rfl
  · intro hsnap
    set x := (polarToCartIn (RP (m + 1)) s az el d).1
    set y := (polarToCartIn (RP (m + 1)) s az el d).2.1
    set z := (polarToCartIn (RP (m + 1)) s az el d).2.2
    have hcone : InCone s x y := ⟨c1, c2, c3⟩
    have hxy := not_origin_of_inCone hcone
    obtain ⟨s', hs'⟩ := find_cart_total m x y
    obtain ⟨hmem', d1, d2, d3⟩ := find_cart_sound m x y hxy s' hs'
    have hind := cart_sector_indep m (m + 1) s' s hmem' hmem x y z ⟨d1, d2, d3⟩ hcone
    refine ⟨s'.idx, ?_⟩
    rw [pointCartToPolar_eq' _ _ _ _ (by rw [snap_iff]; exact hsnap), hs']
    simp only [Option.map_some]
    rw [hind, hrt]

/-- **polar_cart_polar_any_turn** — azimuths OUTSIDE `[-180, 180]`: for `az ∈ [-180, 180]` and any whole number of
turns `t` (within the model's loop fuel `m + 1`; the real `while` loops are unbounded), `point_polar_to_cart` of
`az + 360 t` is the image of `az` (`pointPolarToCart_periodic`: `relative_angle`, `inside_angle_range`, `_find_sector`
and the in-sector coordinate all see only `az mod 360`), so converting back returns the representative `az` (with `180`
as `-180`), the elevation and the distance: the round trip holds modulo whole turns for every azimuth. -/
theorem polar_cart_polar_any_turn (m : Nat) (az el d : ℝ) (t : ℤ) (h1 : -180 ≤ az) (h2 : az ≤ 180) (hd : 0 < d)
    (hel : |el| < 90)
    (hf1 : 180 - 360 * (m + 1 : ℕ) ≤ az + 360 * t) (hf2 : az + 360 * t < -180 + 360 * ((m + 1 : ℕ) + 1)) :
    ∃ x y z i, pointPolarToCart (RP (m + 1)) (az + 360 * t) el d = some ((x, y, z), i) ∧
      (¬ (|x| < 1 / 10000000000 ∧ |y| < 1 / 10000000000) →
        ∃ j, pointCartToPolar (RP (m + 1)) x y z = some ((if az = 180 then -180 else az, el, d), some j)) := by
  have hm : (0 : ℝ) ≤ ((m : ℕ) : ℝ) := Nat.cast_nonneg m
  rw [pointPolarToCart_periodic m az el d t (by push_cast; linarith) (by push_cast; linarith) hf1 hf2]
  exact polar_cart_polar m az el d h1 h2 hd hel

/-- the premises of `polar_cart_polar_any_turn` are satisfiable off the ADM range: 200° + 360° = 560° (fuel 3) -/
example : ∃ x y z i, pointPolarToCart (RP 3) ((-160 : ℝ) + 360 * (2 : ℤ)) 10 1 = some ((x, y, z), i) ∧
    (¬ (|x| < 1 / 10000000000 ∧ |y| < 1 / 10000000000) →
      ∃ j, pointCartToPolar (RP 3) x y z = some ((if (-160 : ℝ) = 180 then -180 else -160, 10, 1), some j)) := by
  apply polar_cart_polar_any_turn 2 <;> norm_num

/-- **cart_polar_cart** (full model with the regenerated table, any fuel `≥ 1`, over ℝ): for every Cartesian
point outside the axis guard (`¬(|x| < 1e-10 ∧ |y| < 1e-10)`; any `z`, inside or outside the cube),
`point_cart_to_polar` succeeds with an azimuth in `[-180, 180)`, and `point_polar_to_cart` of the result returns
exactly the original point.  (Ranges of elevation and distance: `polar_range_table`.) -/
theorem cart_polar_cart (m : Nat) (x y z : ℝ) (hsnap : ¬ (|x| < 1 / 10000000000 ∧ |y| < 1 / 10000000000)) :
    ∃ az el d i j, pointCartToPolar (RP (m + 1)) x y z = some ((az, el, d), some i) ∧
      (-180 ≤ az ∧ az < 180) ∧
      pointPolarToCart (RP (m + 1)) az el d = some ((x, y, z), j) := by
  have hxy : ¬ (x = 0 ∧ y = 0) := by
    rintro ⟨rfl, rfl⟩; apply hsnap; norm_num
  obtain ⟨s', hs'⟩ := find_cart_total m x y
  obtain ⟨hmem', d1, d2, d3⟩ := find_cart_sound m x y hxy s' hs'
  have g' := good_of_mem hmem'
  obtain ⟨⟨a1, a2⟩, hin', hrt⟩ := cart_in_sector m s' g' x y z d1 d2 d3
  set az := (cartToPolarIn (RP (m + 1)) s' x y z).1
  set el := (cartToPolarIn (RP (m + 1)) s' x y z).2.1
  set d := (cartToPolarIn (RP (m + 1)) s' x y z).2.2
  obtain ⟨s, hs⟩ := find_polar_total m az a1 a2.le
  obtain ⟨hmem, hin⟩ := find_polar_sound m az s hs
  have g := good_of_mem hmem
  have hind := polar_sector_indep m (m + 1) s s' hmem hmem' az el d a1 a2.le
    ((g.inRange_iff m az a1 a2.le).mp hin) ((g'.inRange_iff m az a1 a2.le).mp hin')
  refine ⟨az, el, d, s'.idx, s.idx, ?_, ⟨a1, a2⟩, ?_⟩
  · rw [pointCartToPolar_eq' _ _ _ _ (by rw [snap_iff]; exact hsnap), hs']; rfl
  · rw [pointPolarToCart_eq, hs]
    simp only [Option.map_some]
    rw [hind, hrt]


/-- **polar_range** for the table model (full; the gains hypothesis of `polar_range_table_partial` is discharged
by `find_cart_sound`). -/
theorem polar_range_table (m : Nat) (x y z az el d : ℝ) (i : Option Nat)
    (h : pointCartToPolar (RP (m + 1)) x y z = some ((az, el, d), i)) :
    (-180 ≤ az ∧ az < 180) ∧ |el| ≤ 90 ∧ 0 ≤ d := by
  obtain ⟨ha, he, hd⟩ := polar_range_partial (RP (m + 1)) (by show 1 ≤ m + 1; omega) (RP_consts (m + 1)).2.2.2
    (RP_el (m + 1)).1 (RP_el (m + 1)).2.1 (RP_el (m + 1)).2.2.1 (RP_el (m + 1)).2.2.2 x y z az el d i h
  refine ⟨ha, he, hd ?_⟩
  intro s hs
  by_cases hxy : x = 0 ∧ y = 0
  · obtain ⟨rfl, rfl⟩ := hxy
    rw [gains_real]; simp
  · exact (find_cart_sound m x y hxy s hs).2.2.2.le

/-- **polar_cart_polar**, excluded zone stated on the input: it suffices that the horizontal radius `r_xy` of the
image (`d` itself for `|el| ≤ 30`, `d·tan(90° − el_tilde)` above) is at least the `1e-10` of the axis guard. -/
theorem polar_cart_polar_of_radius (m : Nat) (az el d : ℝ) (h1 : -180 ≤ az) (h2 : az ≤ 180) (hd : 0 < d)
    (hel : |el| < 90) (hr : 1 / 10000000000 ≤ (elToCart (RP (m + 1)) el d).2) :
    ∃ x y z i j, pointPolarToCart (RP (m + 1)) az el d = some ((x, y, z), i) ∧
      pointCartToPolar (RP (m + 1)) x y z = some ((if az = 180 then -180 else az, el, d), some j) := by
  obtain ⟨x, y, z, i, hp, hback⟩ := polar_cart_polar m az el d h1 h2 hd hel
  have hsnap : ¬ (|x| < 1 / 10000000000 ∧ |y| < 1 / 10000000000) := by
    rw [pointPolarToCart_eq] at hp
    cases hs : findSector (RP (m + 1)) az with
    | none => rw [hs] at hp; simp at hp
    | some s =>
      rw [hs] at hp
      simp only [Option.map_some, Option.some.injEq, Prod.mk.injEq] at hp
      obtain ⟨hc, -⟩ := hp
      have hmem := (find_polar_sound m az s hs).1
      have hrad := polar_image_radius (RP (m + 1)) s (good_of_mem hmem).hdet az el d
      rw [hc] at hrad
      simp only at hrad
      rintro ⟨hx, hy⟩
      rcases cone_radius hmem x y with h | h <;> linarith
  obtain ⟨j, hj⟩ := hback hsnap
  exact ⟨x, y, z, i, j, hp, hj⟩

/-- What happens inside the excluded zone (`|x|, |y| < 1e-10`, the axis guard of `point_cart_to_polar`): the point
is snapped to the vertical axis, `(x, y, z) ↦ (0, ±90, |z|) ↦ (0, 0, z)`, or to the origin when also
`|z| < 1e-10`; the round trip is then off by less than `1e-10` in each coordinate. -/
theorem cart_polar_cart_snap (m : Nat) (x y z : ℝ) (hs : |x| < 1 / 10000000000 ∧ |y| < 1 / 10000000000) :
    (1 / 10000000000 ≤ |z| →
      pointCartToPolar (RP (m + 1)) x y z = some ((0, Conv.sign z * 90, |z|), none) ∧
      ∃ j, pointPolarToCart (RP (m + 1)) 0 (Conv.sign z * 90) |z| = some ((0, 0, z), j)) ∧
    (|z| < 1 / 10000000000 →
      pointCartToPolar (RP (m + 1)) x y z = some ((0, 0, 0), none) ∧
      ∃ j, pointPolarToCart (RP (m + 1)) 0 0 0 = some ((0, 0, 0), j)) := by
  obtain ⟨s, hsec⟩ := find_polar_total m 0 (by norm_num) (by norm_num)
  have hk0 : (k 0 : ℝ) = 0 := by simp [k, Scalar.ofRat]
  have hk90 : (k 90 : ℝ) = 90 := by simp [k, Scalar.ofRat]
  constructor
  · intro hz
    constructor
    · rw [pointCartToPolar_eq, if_pos ((snap_iff x y).mpr hs), if_neg (by rw [abs_real, k_eps]; linarith),
        hk0, hk90, abs_real]
    · refine ⟨s.idx, ?_⟩
      rw [pointPolarToCart_eq, hsec]
      simp only [Option.map_some, polarToCartIn]
      have hz0 : z ≠ 0 := by intro h; rw [h, abs_zero] at hz; norm_num at hz
      have hel : elToCart (RP (m + 1)) (Conv.sign z * 90) |z| = (z, 0) := by
        rw [elToCart_real, (RP_consts (m + 1)).1, (RP_consts (m + 1)).2.1]
        rcases lt_or_gt_of_ne hz0 with h | h
        · rw [sign_neg h]
          have : |(-1:ℝ) * 90| = 90 := by norm_num
          rw [this, if_pos (by norm_num), sign_neg (by norm_num), abs_of_neg h]
          norm_num
        · rw [sign_pos h]
          have : |(1:ℝ) * 90| = 90 := by norm_num
          rw [this, if_pos (by norm_num), sign_pos (by norm_num), abs_of_pos h]
          norm_num
      rw [hel]; simp
  · intro hz
    constructor
    · rw [pointCartToPolar_eq, if_pos ((snap_iff x y).mpr hs), if_pos (by rw [abs_real, k_eps]; exact hz), hk0]
    · refine ⟨s.idx, ?_⟩
      rw [pointPolarToCart_eq, hsec]
      simp only [Option.map_some, polarToCartIn]
      have hel : elToCart (RP (m + 1)) 0 0 = (0, 0) := by
        rw [elToCart_real, (RP_consts (m + 1)).1, (RP_consts (m + 1)).2.1]; norm_num
      rw [hel]; simp


/-- The image of a sector's right-end azimuth (a row of the table) is exactly `r_xy` times that row's square
point, whatever sector the lookup picks. -/
theorem polar_row_image (m : Nat) (s : Sector ℝ) (hs : s ∈ sectors (RP (m + 1))) (el d : ℝ) :
    ∃ j, pointPolarToCart (RP (m + 1)) s.right.az el d =
      some (((elToCart (RP (m + 1)) el d).2 * s.right.x, (elToCart (RP (m + 1)) el d).2 * s.right.y,
             (elToCart (RP (m + 1)) el d).1), j) := by
  have g := good_of_mem hs
  have h1 : -180 ≤ s.right.az := g.hR1.le
  have h2 := g.hR2
  obtain ⟨s', hs'⟩ := find_polar_total m s.right.az h1 h2
  obtain ⟨hmem', hin'⟩ := find_polar_sound m _ s' hs'
  have g' := good_of_mem hmem'
  have hrange : InRange s s.right.az := by
    unfold InRange; rw [if_neg (lt_irrefl _)]; exact g.hw1.le
  have hind := polar_sector_indep m (m + 1) s' s hmem' hs s.right.az el d h1 h2
    ((g'.inRange_iff m _ h1 h2).mp hin') hrange
  have hf : (RP (m + 1)).fuel = m + 1 := rfl
  have p1 : azToP (RP (m + 1)) s s.right.az = 1 := by
    dsimp only [azToP]
    rw [hf, g.relLeft, g.relAz m _ h1 h2, if_neg (lt_irrefl _)]
    exact mapAzToLinear_right _ _ g.mid.1 g.mid.2.1
  refine ⟨s'.idx, ?_⟩
  rw [pointPolarToCart_eq, hs']
  simp only [Option.map_some]
  rw [hind]
  unfold polarToCartIn
  rw [p1]; simp

/-- **corners_exact** (full model, all reference directions): every row of the table (by `table_is_reference`
these are the reference directions 0, ±30, ±110 with their square points; every row is the right end of one
sector) at elevation 0 / 30 / -30 and distance `d` maps exactly to `d` times the row's square point with
`z = 0 / d / -d`, i.e. to the cube corner or edge midpoint. -/
theorem corners_exact_points (m : Nat) (s : Sector ℝ) (hs : s ∈ sectors (RP (m + 1))) (d : ℝ) (hd : 0 < d) :
    (∃ j, pointPolarToCart (RP (m + 1)) s.right.az 0 d = some ((d * s.right.x, d * s.right.y, 0), j)) ∧
    (∃ j, pointPolarToCart (RP (m + 1)) s.right.az 30 d = some ((d * s.right.x, d * s.right.y, d), j)) ∧
    (∃ j, pointPolarToCart (RP (m + 1)) s.right.az (-30) d = some ((d * s.right.x, d * s.right.y, -d), j)) := by
  obtain ⟨e0, e1, e2, -⟩ := corners_exact_el (m + 1) d hd
  refine ⟨?_, ?_, ?_⟩
  · obtain ⟨j, h⟩ := polar_row_image m s hs 0 d; rw [e0] at h; exact ⟨j, h⟩
  · obtain ⟨j, h⟩ := polar_row_image m s hs 30 d; rw [e1] at h; exact ⟨j, h⟩
  · obtain ⟨j, h⟩ := polar_row_image m s hs (-30) d; rw [e2] at h; exact ⟨j, h⟩

/-- Straight behind, azimuth `+180` (only; `−180` is not proved here, it is searched and corresponded), maps to the
middle of the back edge: `(0, -r_xy)`. -/
theorem corner_back (m : Nat) (el d : ℝ) :
    ∃ j, pointPolarToCart (RP (m + 1)) 180 el d =
      some ((0, -(elToCart (RP (m + 1)) el d).2, (elToCart (RP (m + 1)) el d).1), j) := by
  obtain ⟨s', hs'⟩ := find_polar_total m 180 (by norm_num) (by norm_num)
  obtain ⟨hmem', hin'⟩ := find_polar_sound m _ s' hs'
  have g' := good_of_mem hmem'
  have hs2 : sec2 ∈ sectors (RP (m + 1)) := by rw [sectors_RP]; simp
  have hrange : InRange sec2 180 := by
    unfold InRange; rw [lrel2]; have : sec2.right.az = 110 := rfl; rw [this]; norm_num
  have hind := polar_sector_indep m (m + 1) s' sec2 hmem' hs2 180 el d (by norm_num) (by norm_num)
    ((g'.inRange_iff m _ (by norm_num) (by norm_num)).mp hin') hrange
  have hf : (RP (m + 1)).fuel = m + 1 := rfl
  have p : azToP (RP (m + 1)) sec2 180 = 1 / 2 := by
    dsimp only [azToP]
    rw [hf, good2.relLeft, lrel2, good2.relAz m 180 (by norm_num) (by norm_num)]
    have : sec2.right.az = 110 := rfl
    rw [this, if_neg (by norm_num), mapAzToLinear_real]
    have e : ((180:ℝ) - (250 + 110) / 2) * (π / 180) = 0 := by norm_num
    rw [e, tan_zero]
    norm_num
    have : at2 (1 / 2) (1 / 2) = π / 4 :=
      at2_of_polar (r := √2 / 2) (by positivity) (by linarith [pi_pos]) (by linarith [pi_pos])
        (by rw [cos_pi_div_four]; nlinarith [sqrt2_mul]) (by rw [sin_pi_div_four]; nlinarith [sqrt2_mul])
    rw [this]; field_simp; norm_num
  refine ⟨s'.idx, ?_⟩
  rw [pointPolarToCart_eq, hs']
  simp only [Option.map_some]
  rw [hind]
  unfold polarToCartIn
  rw [p]
  have a : sec2.left.x = 1 := rfl
  have b : sec2.right.x = -1 := rfl
  have c : sec2.left.y = -1 := rfl
  have e : sec2.right.y = -1 := rfl
  rw [a, b, c, e]
  have x0 : (elToCart (RP (m + 1)) el d).2 * (1 + (-1 - 1) * (1 / 2)) = 0 := by ring
  have y0 : (elToCart (RP (m + 1)) el d).2 * (-1 + (-1 - -1) * (1 / 2)) = -(elToCart (RP (m + 1)) el d).2 := by ring
  rw [x0, y0]


/-- Non-vacuity: azimuth -170 (sector 2, across the ±180 wrap), elevation 20, distance 1. -/
example : ∃ x y z i j, pointPolarToCart (RP 8) (-170) 20 1 = some ((x, y, z), i) ∧
    pointCartToPolar (RP 8) x y z = some ((if (-170:ℝ) = 180 then -180 else -170, 20, 1), some j) :=
  polar_cart_polar_of_radius 7 (-170) 20 1 (by norm_num) (by norm_num) (by norm_num) (by norm_num [abs_lt])
    (by rw [elToCart_radius_low 8 20 1 (by norm_num [abs_le])]; norm_num)

/-- Non-vacuity: a point outside the unit cube. -/
example : ∃ az el d i j, pointCartToPolar (RP 8) (-2) (1/2) 3 = some ((az, el, d), some i) ∧
    (-180 ≤ az ∧ az < 180) ∧ pointPolarToCart (RP 8) az el d = some ((-2, 1/2, 3), j) :=
  cart_polar_cart 7 (-2) (1/2) 3 (by norm_num [abs_lt])

end real

/-! ### Success of the block conversions (no sector `assert`), excluded points, reference rows, extents -/

section total
variable {L R : Type}

/-- **toPolar_total**: on the table model `to_polar` succeeds on every block (any position inside or outside the
cube, any extent, any flag): the hypothesis `= some b'` of `block_conversion_idempotent`,
`block_conversion_touches_only`, `toPolar_result` is always satisfied. -/
theorem toPolar_total (m : Nat) (b : Block ℝ L R) : ∃ b', toPolar (RP (m + 1)) b = some b' := by
  cases hp : b.isPolar with
  | true => exact ⟨_, toPolar_of_polar _ b hp⟩
  | false =>
    obtain ⟨position, width, height, depth, cartesian, rest⟩ := b
    cases position with
    | polar az el d lock => simp [Block.isPolar] at hp
    | cartesian x y z lock =>
      obtain ⟨⟨⟨az, el, d⟩, w, h, dp⟩, hr⟩ := extentCartToPolar_total m x y z width depth height
      refine ⟨⟨.polar az el d lock, w, h, dp, false, rest⟩, ?_⟩
      unfold toPolar fixCartesianFlag
      simp [hr]

/-- **toCartesian_total**: `to_cartesian` succeeds on every block whose azimuth (if its position is polar) lies in
the ADM range `[-180, 180]`; blocks with a Cartesian position always succeed (by construction: only the flag is set).
Outside that azimuth range the real code keeps looping `relative_angle` (the model's loops are on fuel); not covered. -/
theorem toCartesian_total (m : Nat) (b : Block ℝ L R)
    (haz : ∀ az el d lock, b.position = .polar az el d lock → -180 ≤ az ∧ az ≤ 180) :
    ∃ b', toCartesian (RP (m + 1)) b = some b' := by
  cases hp : b.isPolar with
  | false => exact ⟨_, toCartesian_of_cartesian _ b hp⟩
  | true =>
    obtain ⟨position, width, height, depth, cartesian, rest⟩ := b
    cases position with
    | cartesian x y z lock => simp [Block.isPolar] at hp
    | polar az el d lock =>
      obtain ⟨h1, h2⟩ := haz az el d lock rfl
      obtain ⟨⟨⟨x, y, z⟩, w, dp, h⟩, hr⟩ := extentPolarToCart_total m az el d width height depth h1 h2
      refine ⟨⟨.cartesian x y z lock, w, h, dp, true, rest⟩, ?_⟩
      unfold toCartesian fixCartesianFlag
      simp [hr]

/-- **block_conversion_idempotent**, unconditional form for the table model: `to_polar` always returns a block, and
converting that block again returns it unchanged; the same for `to_cartesian` on ADM-range azimuths. -/
theorem block_conversion_idempotent_total (m : Nat) (b : Block ℝ L R) :
    (∃ b', toPolar (RP (m + 1)) b = some b' ∧ toPolar (RP (m + 1)) b' = some b') ∧
    ((∀ az el d lock, b.position = .polar az el d lock → -180 ≤ az ∧ az ≤ 180) →
      ∃ b', toCartesian (RP (m + 1)) b = some b' ∧ toCartesian (RP (m + 1)) b' = some b') := by
  constructor
  · obtain ⟨b', h⟩ := toPolar_total m b
    exact ⟨b', h, (block_conversion_idempotent _ b b').1 h⟩
  · intro haz
    obtain ⟨b', h⟩ := toCartesian_total m b haz
    exact ⟨b', h, (block_conversion_idempotent _ b b').2.1 h⟩

/-- Non-vacuity of the `= some b'` hypotheses: a concrete Cartesian block (a cube corner with a non-zero extent and an
inconsistent flag) yields `some` polar block, and converting it again gives the same block. -/
example : ∃ b' : Block ℝ Unit Unit,
    toPolar (RP 8) ⟨.cartesian 1 (-1) 1 (), 1/10, 0, 1/5, false, ()⟩ = some b' ∧ b'.isPolar = true ∧
      toPolar (RP 8) b' = some b' := by
  obtain ⟨b', h⟩ := toPolar_total 7 (⟨.cartesian 1 (-1) 1 (), 1/10, 0, 1/5, false, ()⟩ : Block ℝ Unit Unit)
  exact ⟨b', h, (toPolar_result _ _ b' h).1, (block_conversion_idempotent _ _ b').1 h⟩

/-- a polar block at azimuth −170 (across the ±180 wrap) satisfies the hypothesis of `toCartesian_total` -/
example : ∃ b' : Block ℝ Unit Unit, toCartesian (RP 8) ⟨.polar (-170) 20 1 (), 30, 10, 0, true, ()⟩ = some b' :=
  toCartesian_total 7 _ (by
    intro az el d lock h
    simp only [Pos.polar.injEq] at h
    obtain ⟨rfl, -, -, -⟩ := h
    norm_num)

/-- **Extent ranges at block level**: a Cartesian block whose sizes lie in `[0, 1]` converts to a polar block with
width and height in `[0, 360]` and depth in `[0, 1]`; a polar block with extents in those ranges converts to a
Cartesian block with sizes in `[0, 1]` (any parameters `P`, whenever the conversion returns a block). -/
theorem block_extent_ranges (P : Params ℝ) (b b' : Block ℝ L R) :
    (toPolar P b = some b' → b.isPolar = false →
      (0 ≤ b.width ∧ b.width ≤ 1) → (0 ≤ b.height ∧ b.height ≤ 1) → (0 ≤ b.depth ∧ b.depth ≤ 1) →
      (0 ≤ b'.width ∧ b'.width ≤ 360) ∧ (0 ≤ b'.height ∧ b'.height ≤ 360) ∧ (0 ≤ b'.depth ∧ b'.depth ≤ 1)) ∧
    (toCartesian P b = some b' → b.isPolar = true →
      (0 ≤ b.width ∧ b.width ≤ 360) → (0 ≤ b.height ∧ b.height ≤ 360) → (0 ≤ b.depth ∧ b.depth ≤ 1) →
      (0 ≤ b'.width ∧ b'.width ≤ 1) ∧ (0 ≤ b'.height ∧ b'.height ≤ 1) ∧ (0 ≤ b'.depth ∧ b'.depth ≤ 1)) := by
  obtain ⟨position, width, height, depth, cartesian, rest⟩ := b
  constructor
  · intro h hp hw hh hd
    cases position with
    | polar az el d lock => simp [Block.isPolar] at hp
    | cartesian x y z lock =>
      unfold toPolar fixCartesianFlag at h
      simp only [Bool.not_true, Bool.false_eq_true, if_false] at h
      cases hr : extentCartToPolar P x y z width depth height with
      | none => rw [hr] at h; simp at h
      | some r =>
        obtain ⟨⟨az, el, d⟩, w, h', dp⟩ := r
        rw [hr] at h
        simp only [Option.some.injEq] at h
        subst h
        exact extentCartToPolar_range P x y z width depth height hw.1 hw.2 hd.1 hd.2 hh.1 hh.2 _ hr
  · intro h hp hw hh hd
    cases position with
    | cartesian x y z lock => simp [Block.isPolar] at hp
    | polar az el d lock =>
      unfold toCartesian fixCartesianFlag at h
      simp only [Bool.false_eq_true, if_false] at h
      cases hr : extentPolarToCart P az el d width height depth with
      | none => rw [hr] at h; simp at h
      | some r =>
        obtain ⟨⟨x, y, z⟩, w, dp, h'⟩ := r
        rw [hr] at h
        simp only [Option.some.injEq] at h
        subst h
        obtain ⟨a, b, c⟩ := extentPolarToCart_range P az el d width height depth hw.1 hw.2 hh.1 hh.2 hd.1 hd.2 _ hr
        exact ⟨a, c, b⟩

/-- **Zero extent ↦ zero extent, both ways**: a point source stays a point source. -/
theorem block_zero_extent (P : Params ℝ) (b b' : Block ℝ L R) (hw : b.width = 0) (hh : b.height = 0)
    (hd : b.depth = 0) :
    (toPolar P b = some b' → b'.width = 0 ∧ b'.height = 0 ∧ b'.depth = 0) ∧
    (toCartesian P b = some b' → b'.width = 0 ∧ b'.height = 0 ∧ b'.depth = 0) := by
  obtain ⟨position, width, height, depth, cartesian, rest⟩ := b
  simp only at hw hh hd
  subst hw hh hd
  constructor
  · intro h
    cases position with
    | polar az el d lock =>
      rw [toPolar_of_polar P _ rfl] at h
      simp only [Option.some.injEq] at h
      subst h; simp
    | cartesian x y z lock =>
      unfold toPolar fixCartesianFlag at h
      simp only [Bool.not_true, Bool.false_eq_true, if_false] at h
      cases hr : extentCartToPolar P x y z 0 0 0 with
      | none => rw [hr] at h; simp at h
      | some r =>
        have hz := extentCartToPolar_zero P x y z r hr
        obtain ⟨⟨az, el, d⟩, w, h', dp⟩ := r
        rw [hr] at h
        simp only [Option.some.injEq] at h
        subst h
        simp only [Prod.mk.injEq] at hz
        exact hz
  · intro h
    cases position with
    | cartesian x y z lock =>
      rw [toCartesian_of_cartesian P _ rfl] at h
      simp only [Option.some.injEq] at h
      subst h; simp
    | polar az el d lock =>
      unfold toCartesian fixCartesianFlag at h
      simp only [Bool.false_eq_true, if_false] at h
      cases hr : extentPolarToCart P az el d 0 0 0 with
      | none => rw [hr] at h; simp at h
      | some r =>
        have hz := extentPolarToCart_zero P az el d r hr
        obtain ⟨⟨x, y, z⟩, w, dp, h'⟩ := r
        rw [hr] at h
        simp only [Option.some.injEq] at h
        subst h
        simp only [Prod.mk.injEq] at hz
        exact ⟨hz.1, hz.2.2, hz.2.1⟩

end total

section excluded
open Real

/-- **polar_pole_roundtrip** — the poles are inside the property's quantifier ("wherever azimuth is defined" excludes
only the azimuth): for `|el| = 90`, any azimuth in `[-180, 180]` and `d ≥ 1e-10`, the image is exactly `(0, 0, ±d)`
and converting back returns the original elevation and distance; the azimuth (undefined at the pole) comes back
as `0`.  (For `0 < d < 1e-10` the image falls in the origin guard: `cart_polar_cart_snap`.) -/
theorem polar_pole_roundtrip (m : Nat) (az el d : ℝ) (h1 : -180 ≤ az) (h2 : az ≤ 180) (hel : |el| = 90)
    (hd : 1 / 10000000000 ≤ d) :
    ∃ i, pointPolarToCart (RP (m + 1)) az el d = some ((0, 0, d * Conv.sign el), i) ∧
      pointCartToPolar (RP (m + 1)) 0 0 (d * Conv.sign el) = some ((0, el, d), none) := by
  obtain ⟨i, hi⟩ := polarToCart_axis m az el d _ h1 h2 (elToCart_pole (m + 1) el d hel)
  refine ⟨i, hi, ?_⟩
  have hd0 : 0 < d := by linarith
  have hs : Conv.sign el = 1 ∧ el = 90 ∨ Conv.sign el = -1 ∧ el = -90 := by
    rcases abs_eq (by norm_num : (0:ℝ) ≤ 90) |>.mp hel with h | h
    · left; exact ⟨by rw [h]; exact sign_pos (by norm_num), h⟩
    · right; exact ⟨by rw [h]; exact sign_neg (by norm_num), h⟩
  have hsnap : abs (0:ℝ) < k (1 / 10000000000) ∧ abs (0:ℝ) < k (1 / 10000000000) := by
    rw [abs_real, k_eps]; norm_num
  rw [pointCartToPolar_eq, if_pos hsnap]
  rcases hs with ⟨hs, he⟩ | ⟨hs, he⟩
  · rw [hs, mul_one, if_neg (by rw [abs_real, k_eps, abs_of_pos hd0]; linarith), sign_pos hd0, abs_real,
      abs_of_pos hd0, k0, k90, he]; norm_num
  · rw [hs, mul_neg, mul_one, if_neg (by rw [abs_real, k_eps, abs_neg, abs_of_pos hd0]; linarith),
      sign_neg (by linarith), abs_real, abs_neg, abs_of_pos hd0, k0, k90, he]; norm_num

/-- **polar_zero_distance** — `d = 0` is inside the property's quantifier: every polar position at distance `0`
(any azimuth in `[-180, 180]`, any elevation) maps exactly to the origin, and the origin maps back to distance
`0`; azimuth and elevation (undefined at the origin) come back as `0`.  Together with `cart_polar_cart_snap`
(`|z| < 1e-10` case) this is the round trip of the origin in both directions. -/
theorem polar_zero_distance (m : Nat) (az el : ℝ) (h1 : -180 ≤ az) (h2 : az ≤ 180) :
    ∃ i, pointPolarToCart (RP (m + 1)) az el 0 = some ((0, 0, 0), i) ∧
      pointCartToPolar (RP (m + 1)) 0 0 0 = some ((0, 0, 0), none) := by
  obtain ⟨i, hi⟩ := polarToCart_axis m az el 0 0 h1 h2 (elToCart_zero (m + 1) el)
  refine ⟨i, hi, ?_⟩
  have hsnap : abs (0:ℝ) < k (1 / 10000000000) := by rw [abs_real, k_eps]; norm_num
  rw [pointCartToPolar_eq, if_pos ⟨hsnap, hsnap⟩, if_pos hsnap, k0]

/-- non-vacuity: straight up from azimuth 50 at distance 2 -/
example : ∃ i, pointPolarToCart (RP 8) 50 90 2 = some ((0, 0, 2 * Conv.sign 90), i) ∧
    pointCartToPolar (RP 8) 0 0 (2 * Conv.sign 90) = some ((0, 90, 2), none) :=
  polar_pole_roundtrip 7 50 90 2 (by norm_num) (by norm_num) (by norm_num) (by norm_num)

/-- `octAz` (used by the rational table obligation `sector_boundaries_match`) is what the model's `cartAz` computes
over ℝ at the eight square points, straight behind included (`-180`). -/
theorem octAz_is_cartAz (x y a : ℚ) (h : octAz x y = some a) : cartAz (x : ℝ) (y : ℝ) = (a : ℝ) := by
  obtain ⟨c1, c2, c3, c4, c5, c6, c7, c8⟩ := cartAz_octant
  unfold octAz at h
  split_ifs at h with h1 h2 h3 h4 h5 h6 h7 h8 <;> simp only [Option.some.injEq] at h <;> subst h
  · obtain ⟨rfl, rfl⟩ := h1; simpa using c1
  · obtain ⟨rfl, rfl⟩ := h2; simpa using c2
  · obtain ⟨rfl, rfl⟩ := h3; simpa using c3
  · obtain ⟨rfl, rfl⟩ := h4; simpa using c4
  · obtain ⟨rfl, rfl⟩ := h5; simpa using c5
  · obtain ⟨rfl, rfl⟩ := h6; simpa using c6
  · obtain ⟨rfl, rfl⟩ := h7; simpa using c7
  · obtain ⟨rfl, rfl⟩ := h8; simpa using c8

/-- **corners_exact over `referenceRows`**: every reference direction `(az, x, y, _)` of the property text (0, ±30,
±110 with the front edge midpoint / the four square corners) at elevation 0 / 30 / −30 and distance `d > 0` maps
exactly to `d·(x, y, 0)`, `d·(x, y, 1)`, `d·(x, y, −1)`.  "Edge midpoints" are the front one (this theorem, row
`az = 0`) and the back one (`corner_back`, `az = ±180`); the side midpoints `(±1, 0)` are not reference
directions of the table (they are the images of `az = ∓70`). -/
theorem corners_exact_reference (m : Nat) (r : ℚ × ℚ × ℚ × ℚ) (hr : r ∈ referenceRows) (d : ℝ) (hd : 0 < d) :
    (∃ j, pointPolarToCart (RP (m + 1)) (r.1 : ℝ) 0 d = some ((d * (r.2.1 : ℝ), d * (r.2.2.1 : ℝ), 0), j)) ∧
    (∃ j, pointPolarToCart (RP (m + 1)) (r.1 : ℝ) 30 d = some ((d * (r.2.1 : ℝ), d * (r.2.2.1 : ℝ), d), j)) ∧
    (∃ j, pointPolarToCart (RP (m + 1)) (r.1 : ℝ) (-30) d = some ((d * (r.2.1 : ℝ), d * (r.2.2.1 : ℝ), -d), j)) := by
  have mem : ∀ s, s ∈ [sec0, sec1, sec2, sec3, sec4] → s ∈ sectors (RP (m + 1)) := by
    intro s hs; rw [sectors_RP]; exact hs
  simp only [referenceRows, List.mem_cons, List.not_mem_nil, or_false] at hr
  rcases hr with rfl | rfl | rfl | rfl | rfl
  · have := corners_exact_points m sec4 (mem _ (by simp)) d hd
    simpa [sec4] using this
  · have := corners_exact_points m sec0 (mem _ (by simp)) d hd
    simpa [sec0] using this
  · have := corners_exact_points m sec3 (mem _ (by simp)) d hd
    simpa [sec3] using this
  · have := corners_exact_points m sec1 (mem _ (by simp)) d hd
    simpa [sec1] using this
  · have := corners_exact_points m sec2 (mem _ (by simp)) d hd
    simpa [sec2] using this

end excluded

end Earverif.Conv
