/-
C13 — zone exclusion (model).  Core Lean only.

Transliterates, from /repo/ear/core:
  * `geom.inside_angle_range`                                   -> `insideAngleRange`
  * `objectbased.gain_calc.ZoneExclusionHandler.get_excluded`   -> `getExcluded`
  * `objectbased.zone.ZoneExclusionDownmix.downmix_for_excluded`-> `downmixForExcluded`
  * `objectbased.gain_calc.ZoneExclusionHandler.handle`         -> `zoneHandle`
  * `allocentric.get_excluded`                                  -> `alloExtend`, `alloExcluded`
  * the use `GainCalc.render` makes of the masks                -> `scatter`, `powerSum`,
    `finishGains`, `renderCart`, `renderPolar`

Numeric code is written once over a scalar type: `Float` (binary64, the same IEEE
operations numpy executes: `+ - * / sqrt <  <=  ==`) for running against the real
code bit for bit, and `Rat` (exact) for `decide`-able statements and proofs.
-/
namespace Earverif.Zone

/-- Ordered arithmetic as used by the decision logic (no square root). -/
class Scalar (α : Type) where
  zero : α
  one : α
  ofNat : Nat → α
  add : α → α → α
  sub : α → α → α
  mul : α → α → α
  div : α → α → α
  abs : α → α
  lt : α → α → Bool
  le : α → α → Bool
  eq : α → α → Bool
  /-- the binary64 value of the Python literal `1e-6` (`epsilon` in `get_excluded`) -/
  eps6 : α
  /-- the binary64 value of the Python literal `1e-5` (`tol` in `ChannelLockHandlerBase.handle`) -/
  eps5 : α

/-- Scalars with the power-domain operations `np.sqrt` and `np.nan_to_num`. -/
class ScalarSqrt (α : Type) extends Scalar α where
  sqrt : α → α
  nanToNum : α → α

instance : ScalarSqrt Float where
  zero := 0.0
  one := 1.0
  ofNat := Float.ofNat
  add := (· + ·)
  sub := (· - ·)
  mul := (· * ·)
  div := (· / ·)
  abs := Float.abs
  lt a b := decide (a < b)
  le a b := decide (a ≤ b)
  eq a b := a == b
  eps6 := 1e-6
  eps5 := 1e-5
  sqrt := Float.sqrt
  -- np.nan_to_num: nan -> 0.0, +-inf -> +-largest finite double
  nanToNum x :=
    if x.isNaN then 0.0
    else if x.isInf then (if x > 0.0 then 1.7976931348623157e308 else -1.7976931348623157e308)
    else x

instance : Scalar Rat where
  zero := 0
  one := 1
  ofNat n := (n : Rat)
  add := (· + ·)
  sub := (· - ·)
  mul := (· * ·)
  div := (· / ·)
  abs x := if x < 0 then -x else x
  lt a b := decide (a < b)
  le a b := decide (a ≤ b)
  eq a b := a == b
  -- (1e-6).as_integer_ratio() and (1e-5).as_integer_ratio()
  eps6 := mkRat 4722366482869645 4722366482869645213696
  eps5 := mkRat 5902958103587057 590295810358705651712

open Scalar ScalarSqrt

/-- Exact rational value of a finite binary64 bit pattern (used by the driver so that
the `Rat` and the `Float` instance see the same inputs; `none` for inf/NaN). -/
def ratOfBits (b : Nat) : Option Rat :=
  let sign := (b / 2 ^ 63) % 2
  let e := (b / 2 ^ 52) % 2048
  let m := b % 2 ^ 52
  if e == 2047 then none
  else
    let mag : Rat :=
      if e == 0 then mkRat (Int.ofNat m) (2 ^ 1074)
      else if e ≥ 1075 then (((2 ^ 52 + m) * 2 ^ (e - 1075) : Nat) : Rat)
      else mkRat (Int.ofNat (2 ^ 52 + m)) (2 ^ (1075 - e))
    some (if sign == 1 then -mag else mag)

/-! ### `geom.inside_angle_range` -/

/-- A Python `while cond(x): x = step(x)` with fuel; `none` when the fuel runs out
(the real loop then runs for at least that many iterations; for huge floats such as
`1e17` the step `x - 360.0` is absorbed and the real loop never ends). -/
def whileLoop {α : Type} (cond : α → Bool) (step : α → α) : Nat → α → Option α
  | 0, x => if cond x then none else some x
  | f + 1, x => if cond x then whileLoop cond step f (step x) else some x

/-- `inside_angle_range(x, start, end, tol)`. -/
def insideAngleRange {α : Type} [Scalar α] (fuel : Nat) (x start end_ tol : α) : Option Bool :=
  let c360 : α := ofNat 360
  -- while end - 360.0 > start: end -= 360.0
  (whileLoop (fun e => lt start (sub e c360)) (fun e => sub e c360) fuel end_).bind fun e1 =>
  -- while end < start: end += 360.0
  (whileLoop (fun e => lt e start) (fun e => add e c360) fuel e1).bind fun e2 =>
  let startTol := sub start tol
  -- while x - 360.0 >= start_tol: x -= 360.0
  (whileLoop (fun y => le startTol (sub y c360)) (fun y => sub y c360) fuel x).bind fun x1 =>
  -- while x < start_tol: x += 360.0
  (whileLoop (fun y => lt y startTol) (fun y => add y c360) fuel x1).bind fun x2 =>
  -- return x <= end + tol
  some (le x2 (add e2 tol))

/-! ### `ZoneExclusionHandler.get_excluded` -/

/-- What `ZoneExclusionHandler.__init__` stores per channel: nominal Cartesian position,
nominal azimuth and elevation. -/
structure Spk (α : Type) where
  x : α
  y : α
  z : α
  az : α
  el : α

/-- `CartesianZone` / `PolarZone`. -/
inductive Zone (α : Type) where
  | cart (minX maxX minY maxY minZ maxZ : α)
  | polar (minAz maxAz minEl maxEl : α)

/-- One zone tested against one loudspeaker (one element of the array expression that is
or-ed into `excluded`).  `inside_angle_range` is evaluated for every channel before the
pole test is looked at (list comprehension), so its non-termination is not masked. -/
def zoneMatch {α : Type} [Scalar α] (fuel : Nat) (z : Zone α) (s : Spk α) : Option Bool :=
  let eps : α := eps6
  match z with
  | .cart minX maxX minY maxY minZ maxZ =>
    some (lt (sub s.x eps) maxX && lt (sub s.y eps) maxY && lt (sub s.z eps) maxZ &&
          lt minX (add s.x eps) && lt minY (add s.y eps) && lt minZ (add s.z eps))
  | .polar minAz maxAz minEl maxEl =>
    (insideAngleRange fuel s.az minAz maxAz eps).bind fun inside =>
    some (lt (sub s.el eps) maxEl && lt minEl (add s.el eps) &&
          (lt (sub (ofNat 90) eps) (abs s.el) || inside))

/-- `mapM` in `Option`, written out (a list comprehension whose element may fail). -/
def mapOpt {β γ : Type} (f : β → Option γ) : List β → Option (List γ)
  | [] => some []
  | x :: xs =>
    match f x, mapOpt f xs with
    | some y, some ys => some (y :: ys)
    | _, _ => none

def orMask : List Bool → List Bool → List Bool
  | a :: as, b :: bs => (a || b) :: orMask as bs
  | _, _ => []

/-- `get_excluded(zoneExclusion)`: or over the zones. -/
def getExcluded {α : Type} [Scalar α] (fuel : Nat) (spks : List (Spk α)) : List (Zone α) → Option (List Bool)
  | [] => some (spks.map fun _ => false)
  | z :: zs =>
    -- `excluded |= ...` in list order; `or` is commutative so the fold direction is immaterial
    (mapOpt (zoneMatch fuel z) spks).bind fun m =>
    (getExcluded fuel spks zs).bind fun rest => some (orMask m rest)

/-! ### `ZoneExclusionDownmix.downmix_for_excluded` -/

def isExcl (mask : List Bool) (j : Nat) : Bool := mask.getD j false

/-- The non-excluded members of a group: `group[~excluded[group]]`. -/
def notExcluded (mask : List Bool) (g : List Nat) : List Nat := g.filter fun j => !isExcl mask j

/-- Row `i` of the matrix: the first group (in priority order) that is not completely
excluded receives `1/len(not_excluded)` on its non-excluded members.  `none` is the
`assert False` of the `for … else`. -/
def downmixRow {α : Type} [Scalar α] (n : Nat) (mask : List Bool) : List (List Nat) → Option (List α)
  | [] => none
  | g :: rest =>
    if g.all (isExcl mask) then downmixRow n mask rest
    else
      let ne := notExcluded mask g
      some ((List.range n).map fun j => if ne.contains j then div one (ofNat ne.length) else zero)

def eye {α : Type} [Scalar α] (n : Nat) : List (List α) :=
  (List.range n).map fun i => (List.range n).map fun j => if i == j then one else zero

/-- `downmix_for_excluded(excluded)`; `groups` is `self.channel_groups`.  `none` stands for
the two assertions (shape of the mask; no usable group). -/
def downmixForExcluded {α : Type} [Scalar α] (n : Nat) (groups : List (List (List Nat)))
    (mask : List Bool) : Option (List (List α)) :=
  if mask.length != n then none
  else if mask.all id || mask.all (fun b => !b) then some (eye n)
  else mapOpt (downmixRow n mask) groups

/-! ### `ZoneExclusionHandler.handle` : `sqrt(dot(gains**2, downmix))` -/

def sumList {α : Type} [Scalar α] (l : List α) : α := l.foldl add zero

/-- `dot(g2, D)[j] = Σ_i g2[i] * D[i][j]`. -/
def dotCol {α : Type} [Scalar α] (g2 : List α) (D : List (List α)) (j : Nat) : α :=
  sumList (List.zipWith (fun a row => mul a (row.getD j zero)) g2 D)

def applyDownmix {α : Type} [ScalarSqrt α] (n : Nat) (gains : List α) (D : List (List α)) : List α :=
  let g2 := gains.map fun g => mul g g
  (List.range n).map fun j => sqrt (dotCol g2 D j)

/-- `handle(gains, zoneExclusion)` with the mask already computed. -/
def zoneHandle {α : Type} [ScalarSqrt α] (n : Nat) (groups : List (List (List Nat)))
    (gains : List α) (mask : List Bool) : Option (List α) :=
  (downmixForExcluded n groups mask).bind fun D => some (applyDownmix n gains D)

/-! ### `allocentric.get_excluded` -/

structure P3 (α : Type) where
  x : α
  y : α
  z : α

/-- Body of the outer loop for channel `i` at position `c`: `ex` is read from the array
being updated (numpy iteration is live), and all channels in the same row (same `y`, `z`)
are marked. -/
def extendStep {α : Type} [Scalar α] (pos : List (P3 α)) (m : List Bool) (i : Nat) (c : P3 α) : List Bool :=
  if isExcl m i && eq (abs c.x) one && !(eq (abs c.y) one) then
    List.zipWith (fun (c2 : P3 α) b => b || (eq c2.y c.y && eq c2.z c.z)) pos m
  else m

def alloExtendFrom {α : Type} [Scalar α] (pos : List (P3 α)) : List (P3 α) → Nat → List Bool → List Bool
  | [], _, m => m
  | c :: cs, i, m => alloExtendFrom pos cs (i + 1) (extendStep pos m i c)

/-- The "remove additional speakers" loop. -/
def alloExtend {α : Type} [Scalar α] (pos : List (P3 α)) (mask : List Bool) : List Bool :=
  alloExtendFrom pos pos 0 mask

/-- `allocentric.get_excluded(channel_positions, is_excluded)`. -/
def alloExcluded {α : Type} [Scalar α] (pos : List (P3 α)) (mask : List Bool) : List Bool :=
  let e := alloExtend pos mask
  if e.all id then e.map fun _ => false else e

/-! ### `GainCalc.render`: how the masks are used -/

/-- `gains_full = zeros(len(excluded)); gains_full[~excluded] = gains` (the `extent_pan`
closure on the Cartesian path).  Defined for `gains.length = #false`, which the
allocentric panners guarantee (numpy raises otherwise). -/
def scatter {α : Type} [Scalar α] : List Bool → List α → List α
  | [], _ => []
  | true :: m, g => zero :: scatter m g
  | false :: m, a :: g => a :: scatter m g
  | false :: m, [] => zero :: scatter m []

/-- `np.sqrt(np.dot(diverged_gains, gains_for_each_pos**2))`. -/
def powerSum {α : Type} [ScalarSqrt α] (n : Nat) (dg : List α) (G : List (List α)) : List α :=
  (List.range n).map fun j =>
    sqrt (sumList (List.zipWith (fun d (row : List α) => mul d (mul (row.getD j zero) (row.getD j zero))) dg G))

/-- `nan_to_num`, `gains *= gain * object_gain`, `direct_diffuse_split` (LFE rows, which
are inserted as zeros, are not represented). -/
def finishGains {α : Type} [ScalarSqrt α] (gains : List α) (gain diffuse : α) : List α × List α :=
  let g := gains.map fun x => mul (nanToNum x) gain
  (g.map fun x => mul x (sqrt (sub one diffuse)), g.map fun x => mul x (sqrt diffuse))

/-- Cartesian path: `pans` are the outputs of `allocentric_extent_pan` on the
non-excluded loudspeakers, one per diverged position (the panner itself is a parameter). -/
def renderCart {α : Type} [ScalarSqrt α] (final : List Bool) (pans : List (List α)) (dg : List α)
    (gain diffuse : α) : List α × List α :=
  finishGains (powerSum final.length dg (pans.map (scatter final))) gain diffuse

/-- Polar path: `pans` are the outputs of the polar extent panner (all loudspeakers), one
per diverged position; zone exclusion is applied after the power sum. -/
def renderPolar {α : Type} [ScalarSqrt α] (n : Nat) (groups : List (List (List Nat))) (mask : List Bool)
    (pans : List (List α)) (dg : List α) (gain diffuse : α) : Option (List α × List α) :=
  (zoneHandle n groups (powerSum n dg pans) mask).bind fun z => some (finishGains z gain diffuse)

end Earverif.Zone
