/-
C13 — `_speaker_tree` builds a sorted grid, and the allocentric panner is exact at every
loudspeaker of a sorted grid (over ℝ).
-/
import Earverif.Model.CartLock
import Earverif.Proofs.C01Real
import Mathlib.Tactic.Linarith

namespace Earverif.C13
open Earverif.Zone Earverif.CartLock
open Earverif.GainCalc (Leaf alloHandle alloWrites planeWrites rowWrites findPair findLoop
  singleBalancePan planeZ rowY applyWrites eqS)

/-! ### sorted grids -/

/-- key of a row: the y of its first leaf (`stz[yy][0][1][1]`) -/
noncomputable def rowKey (row : List (Leaf ℝ)) : ℝ :=
  match row.head? with
  | some h => h.y
  | none => 0

/-- key of a plane: the z of its first row's first leaf (`st[zz][0][0][1][2]`) -/
noncomputable def planeKey (pl : List (List (Leaf ℝ))) : ℝ :=
  match pl.head?.bind List.head? with
  | some h => h.z
  | none => 0

/-- a row: non-empty, all leaves share `y` and `z`, strictly ascending in `x` -/
structure RowS (y z : ℝ) (row : List (Leaf ℝ)) : Prop where
  ne : row ≠ []
  yz : ∀ l ∈ row, l.y = y ∧ l.z = z
  sorted : row.Pairwise fun a b => a.x < b.x

/-- a plane: rows as above with strictly ascending keys -/
structure PlaneS (z : ℝ) (pl : List (List (Leaf ℝ))) : Prop where
  rows : ∀ r ∈ pl, RowS (rowKey r) z r
  sorted : pl.Pairwise fun a b => rowKey a < rowKey b

/-- the tree: non-empty planes as above with strictly ascending keys -/
structure TreeS (st : GainCalc.Tree ℝ) : Prop where
  planes : ∀ p ∈ st, p ≠ [] ∧ PlaneS (planeKey p) p
  sorted : st.Pairwise fun a b => planeKey a < planeKey b

theorem RowS.key {y z : ℝ} {row : List (Leaf ℝ)} (h : RowS y z row) : rowKey row = y := by
  unfold rowKey
  cases row with
  | nil => exact absurd rfl h.ne
  | cons a rest => simp only [List.head?_cons]; exact (h.yz a (by simp)).1

theorem planeKey_eq {z : ℝ} {pl : List (List (Leaf ℝ))} (hne : pl ≠ []) (h : PlaneS z pl) : planeKey pl = z := by
  unfold planeKey
  cases pl with
  | nil => exact absurd rfl hne
  | cons r rest =>
    have hr := h.rows r (by simp)
    cases r with
    | nil => exact absurd rfl hr.ne
    | cons a as => simp only [List.head?_cons, Option.bind_some]; exact (hr.yz a (by simp)).2

section ins
variable [dlt : ∀ a b : ℝ, Decidable (a < b)] [dle : ∀ a b : ℝ, Decidable (a ≤ b)]

omit dlt in
theorem eqK_iff (a b : ℝ) : eqK a b = true ↔ a = b := by
  unfold eqK
  simp only [Bool.and_eq_true, decide_eq_true_eq]
  constructor
  · intro h; linarith [h.1, h.2]
  · intro h; subst h; exact ⟨le_refl _, le_refl _⟩

/-- x level -/
theorem insRow_spec (l : Leaf ℝ) : ∀ (row : List (Leaf ℝ)), (row.Pairwise fun a b => a.x < b.x) →
    (∀ a ∈ row, a.x ≠ l.x) →
    ∃ row', insRow l row = some row' ∧ (row'.Pairwise fun a b => a.x < b.x) ∧
      ∀ a, a ∈ row' ↔ a = l ∨ a ∈ row := by
  intro row
  induction row with
  | nil => intro _ _; exact ⟨[l], rfl, by simp, by simp⟩
  | cons a rest ih =>
    intro hs hd
    have hax : a.x ≠ l.x := hd a (by simp)
    have he : eqK a.x l.x = false := by
      cases h : eqK a.x l.x with
      | false => rfl
      | true => exact absurd ((eqK_iff _ _).mp h) hax
    rw [List.pairwise_cons] at hs
    simp only [insRow, he, Bool.false_eq_true, ↓reduceIte]
    by_cases hlt : l.x < a.x
    · simp only [hlt, ↓reduceIte]
      refine ⟨_, rfl, ?_, by simp⟩
      rw [List.pairwise_cons, List.pairwise_cons]
      refine ⟨?_, hs.1, hs.2⟩
      intro b hb
      simp only [List.mem_cons] at hb
      rcases hb with rfl | hb
      · exact hlt
      · exact lt_trans hlt (hs.1 b hb)
    · simp only [hlt, ↓reduceIte]
      obtain ⟨r', hr', hs', hm'⟩ := ih hs.2 (fun b hb => hd b (by simp [hb]))
      refine ⟨a :: r', by simp [hr'], ?_, ?_⟩
      · rw [List.pairwise_cons]
        refine ⟨?_, hs'⟩
        intro b hb
        rcases (hm' b).mp hb with rfl | hb
        · exact lt_of_le_of_ne (not_lt.mp hlt) hax
        · exact hs.1 b hb
      · intro b
        simp only [List.mem_cons, hm' b]
        tauto

theorem insRow_RowS (l : Leaf ℝ) (y z : ℝ) (row : List (Leaf ℝ)) (h : RowS y z row) (hy : l.y = y) (hz : l.z = z)
    (hd : ∀ a ∈ row, a.x ≠ l.x) :
    ∃ row', insRow l row = some row' ∧ RowS y z row' ∧ ∀ a, a ∈ row' ↔ a = l ∨ a ∈ row := by
  obtain ⟨r', hr', hs', hm'⟩ := insRow_spec l row h.sorted hd
  refine ⟨r', hr', ⟨?_, ?_, hs'⟩, hm'⟩
  · intro e; have := (hm' l).mpr (Or.inl rfl); rw [e] at this; simp at this
  · intro a ha
    rcases (hm' a).mp ha with rfl | ha
    · exact ⟨hy, hz⟩
    · exact h.yz a ha

/-- y level -/
theorem insPlane_spec (l : Leaf ℝ) (z : ℝ) (hz : l.z = z) : ∀ (pl : List (List (Leaf ℝ))), PlaneS z pl →
    (∀ r ∈ pl, ∀ a ∈ r, ¬(a.x = l.x ∧ a.y = l.y)) →
    ∃ pl', insPlane l pl = some pl' ∧ PlaneS z pl' ∧ pl' ≠ [] ∧
      (∀ a, a ∈ pl'.flatten ↔ a = l ∨ a ∈ pl.flatten) ∧
      (∀ r' ∈ pl', rowKey r' = l.y ∨ ∃ r ∈ pl, rowKey r' = rowKey r) := by
  intro pl
  induction pl with
  | nil =>
    intro _ _
    refine ⟨[[l]], rfl, ⟨?_, by simp⟩, by simp, by simp, ?_⟩
    · intro r hr
      simp only [List.mem_singleton] at hr
      subst hr
      exact ⟨by simp, by simp [rowKey, hz], by simp⟩
    · intro r hr
      simp only [List.mem_singleton] at hr
      subst hr
      left; simp [rowKey]
  | cons r rest ih =>
    intro hp hd
    have hr : RowS (rowKey r) z r := hp.rows r (by simp)
    have hps := hp.sorted
    rw [List.pairwise_cons] at hps
    have hrest : PlaneS z rest := ⟨fun r' h' => hp.rows r' (by simp [h']), hps.2⟩
    obtain ⟨h0, t0, hrt⟩ : ∃ h0 t0, r = h0 :: t0 := by
      cases r with
      | nil => exact absurd rfl hr.ne
      | cons a as => exact ⟨a, as, rfl⟩
    have hkey : rowKey r = h0.y := by subst hrt; simp [rowKey]
    have hhead : r.head? = some h0 := by subst hrt; rfl
    simp only [insPlane, hhead]
    by_cases he : eqK h0.y l.y = true
    · simp only [he, ↓reduceIte]
      have hy : l.y = rowKey r := by rw [hkey]; exact ((eqK_iff _ _).mp he).symm
      have hdx : ∀ a ∈ r, a.x ≠ l.x := by
        intro a ha hx
        exact hd r (by simp) a ha ⟨hx, by rw [(hr.yz a ha).1, hy]⟩
      obtain ⟨r', hr', hrs', hm'⟩ := insRow_RowS l (rowKey r) z r hr hy hz hdx
      have hk' : rowKey r' = rowKey r := hrs'.key
      refine ⟨r' :: rest, by simp [hr'], ⟨?_, ?_⟩, by simp, ?_, ?_⟩
      · intro q hq
        simp only [List.mem_cons] at hq
        rcases hq with rfl | hq
        · rw [hk']; exact hrs'
        · exact hrest.rows q hq
      · rw [List.pairwise_cons]
        exact ⟨fun b hb => by rw [hk']; exact hps.1 b hb, hps.2⟩
      · intro a
        simp only [List.flatten_cons, List.mem_append, hm' a]
        tauto
      · intro q hq
        simp only [List.mem_cons] at hq
        rcases hq with rfl | hq
        · right; exact ⟨r, by simp, hk'⟩
        · right; exact ⟨q, by simp [hq], rfl⟩
    · simp only [he, Bool.false_eq_true, ↓reduceIte]
      have hne : h0.y ≠ l.y := fun h => he ((eqK_iff _ _).mpr h)
      by_cases hlt : l.y < h0.y
      · simp only [hlt, ↓reduceIte]
        have hl1 : RowS (rowKey [l]) z [l] := ⟨by simp, by simp [rowKey, hz], by simp⟩
        refine ⟨_, rfl, ⟨?_, ?_⟩, by simp, by simp, ?_⟩
        · intro q hq
          simp only [List.mem_cons] at hq
          rcases hq with rfl | rfl | hq
          · exact hl1
          · exact hr
          · exact hrest.rows q hq
        · rw [List.pairwise_cons, List.pairwise_cons]
          refine ⟨?_, hps.1, hps.2⟩
          intro b hb
          have hkl : rowKey [l] = l.y := by simp [rowKey]
          simp only [List.mem_cons] at hb
          rcases hb with rfl | hb
          · rw [hkl, hkey]; exact hlt
          · rw [hkl]; exact lt_trans (by rw [hkey]; exact hlt) (hps.1 b hb)
        · intro q hq
          simp only [List.mem_cons] at hq
          rcases hq with rfl | rfl | hq
          · left; simp [rowKey]
          · right; exact ⟨q, by simp, rfl⟩
          · right; exact ⟨q, by simp [hq], rfl⟩
      · simp only [hlt, ↓reduceIte]
        obtain ⟨rest', hrest', hps', _, hm', hk'⟩ := ih hrest (fun q hq a ha => hd q (by simp [hq]) a ha)
        have hgt : rowKey r < l.y := by rw [hkey]; exact lt_of_le_of_ne (not_lt.mp hlt) hne
        refine ⟨r :: rest', by simp [hrest'], ⟨?_, ?_⟩, by simp, ?_, ?_⟩
        · intro q hq
          simp only [List.mem_cons] at hq
          rcases hq with rfl | hq
          · exact hr
          · exact hps'.rows q hq
        · rw [List.pairwise_cons]
          refine ⟨?_, hps'.sorted⟩
          intro b hb
          rcases hk' b hb with h | ⟨r0, hr0, h⟩
          · rw [h]; exact hgt
          · rw [h]; exact hps.1 r0 hr0
        · intro a
          simp only [List.flatten_cons, List.mem_append, hm' a]
          tauto
        · intro q hq
          simp only [List.mem_cons] at hq
          rcases hq with rfl | hq
          · right; exact ⟨q, by simp, rfl⟩
          · rcases hk' q hq with h | ⟨r0, hr0, h⟩
            · left; exact h
            · right; exact ⟨r0, by simp [hr0], h⟩

def leaves (st : GainCalc.Tree ℝ) : List (Leaf ℝ) := st.flatten.flatten

/-- z level -/
theorem insTree_spec (l : Leaf ℝ) : ∀ (st : GainCalc.Tree ℝ), TreeS st →
    (∀ a ∈ leaves st, ¬(a.x = l.x ∧ a.y = l.y ∧ a.z = l.z)) →
    ∃ st', insTree l st = some st' ∧ TreeS st' ∧
      (∀ a, a ∈ leaves st' ↔ a = l ∨ a ∈ leaves st) ∧
      (∀ p' ∈ st', planeKey p' = l.z ∨ ∃ p ∈ st, planeKey p' = planeKey p) := by
  intro st
  induction st with
  | nil =>
    intro _ _
    have hr1 : RowS (rowKey [l]) l.z [l] := ⟨by simp, by simp [rowKey], by simp⟩
    have hp1 : PlaneS l.z [[l]] := ⟨by intro r hr; simp only [List.mem_singleton] at hr; subst hr; exact hr1, by simp⟩
    refine ⟨[[[l]]], rfl, ⟨?_, by simp⟩, by simp [leaves], ?_⟩
    · intro p hp
      simp only [List.mem_singleton] at hp
      subst hp
      exact ⟨by simp, by simpa [planeKey] using hp1⟩
    · intro p hp
      simp only [List.mem_singleton] at hp
      subst hp
      left; simp [planeKey]
  | cons p rest ih =>
    intro ht hd
    have hp := ht.planes p (by simp)
    have hts := ht.sorted
    rw [List.pairwise_cons] at hts
    have hrest : TreeS rest := ⟨fun q hq => ht.planes q (by simp [hq]), hts.2⟩
    obtain ⟨h0, hhead, hkey⟩ : ∃ h0, p.head?.bind List.head? = some h0 ∧ planeKey p = h0.z := by
      cases hpe : p with
      | nil => exact absurd hpe hp.1
      | cons r rs =>
        have hr := hp.2.rows r (by simp [hpe])
        cases hre : r with
        | nil => exact absurd hre hr.ne
        | cons a as => exact ⟨a, by simp, by simp [planeKey]⟩
    have hleaves : ∀ a, a ∈ leaves (p :: rest) ↔ a ∈ p.flatten ∨ a ∈ leaves rest := by
      intro a; simp [leaves]
    have hpz : ∀ a ∈ p.flatten, a.z = planeKey p := by
      intro a ha
      rw [List.mem_flatten] at ha
      obtain ⟨r, hr, har⟩ := ha
      exact ((hp.2.rows r hr).yz a har).2
    simp only [insTree, hhead]
    by_cases he : eqK h0.z l.z = true
    · simp only [he, ↓reduceIte]
      have hz : l.z = planeKey p := by rw [hkey]; exact ((eqK_iff _ _).mp he).symm
      have hdp : ∀ r ∈ p, ∀ a ∈ r, ¬(a.x = l.x ∧ a.y = l.y) := by
        intro r hr a ha hxy
        have hamem : a ∈ p.flatten := List.mem_flatten.mpr ⟨r, hr, ha⟩
        exact hd a ((hleaves a).mpr (Or.inl hamem)) ⟨hxy.1, hxy.2, by rw [hpz a hamem, hz]⟩
      obtain ⟨p', hp', hps', hne', hm', _⟩ := insPlane_spec l (planeKey p) hz p hp.2 hdp
      have hk' : planeKey p' = planeKey p := planeKey_eq hne' hps'
      refine ⟨p' :: rest, by simp [hp'], ⟨?_, ?_⟩, ?_, ?_⟩
      · intro q hq
        simp only [List.mem_cons] at hq
        rcases hq with rfl | hq
        · exact ⟨hne', by rw [hk']; exact hps'⟩
        · exact hrest.planes q hq
      · rw [List.pairwise_cons]
        exact ⟨fun b hb => by rw [hk']; exact hts.1 b hb, hts.2⟩
      · intro a
        rw [hleaves a]
        have : a ∈ leaves (p' :: rest) ↔ a ∈ p'.flatten ∨ a ∈ leaves rest := by simp [leaves]
        rw [this, hm' a]
        tauto
      · intro q hq
        simp only [List.mem_cons] at hq
        rcases hq with rfl | hq
        · right; exact ⟨p, by simp, hk'⟩
        · right; exact ⟨q, by simp [hq], rfl⟩
    · simp only [he, Bool.false_eq_true, ↓reduceIte]
      have hne : h0.z ≠ l.z := fun h => he ((eqK_iff _ _).mpr h)
      have hr1 : RowS (rowKey [l]) l.z [l] := ⟨by simp, by simp [rowKey], by simp⟩
      have hp1 : PlaneS l.z [[l]] :=
        ⟨by intro r hr; simp only [List.mem_singleton] at hr; subst hr; exact hr1, by simp⟩
      have hk1 : planeKey [[l]] = l.z := by simp [planeKey]
      by_cases hlt : l.z < h0.z
      · simp only [hlt, ↓reduceIte]
        refine ⟨_, rfl, ⟨?_, ?_⟩, ?_, ?_⟩
        · intro q hq
          simp only [List.mem_cons] at hq
          rcases hq with rfl | rfl | hq
          · exact ⟨by simp, by rw [hk1]; exact hp1⟩
          · exact hp
          · exact hrest.planes q hq
        · rw [List.pairwise_cons, List.pairwise_cons]
          refine ⟨?_, hts.1, hts.2⟩
          intro b hb
          simp only [List.mem_cons] at hb
          rcases hb with rfl | hb
          · rw [hk1, hkey]; exact hlt
          · rw [hk1]; exact lt_trans (by rw [hkey]; exact hlt) (hts.1 b hb)
        · intro a; simp [leaves]
        · intro q hq
          simp only [List.mem_cons] at hq
          rcases hq with rfl | rfl | hq
          · left; exact hk1
          · right; exact ⟨q, by simp, rfl⟩
          · right; exact ⟨q, by simp [hq], rfl⟩
      · simp only [hlt, ↓reduceIte]
        obtain ⟨rest', hrest', hts', hm', hk'⟩ := ih hrest (fun a ha => hd a ((hleaves a).mpr (Or.inr ha)))
        have hgt : planeKey p < l.z := by rw [hkey]; exact lt_of_le_of_ne (not_lt.mp hlt) hne
        refine ⟨p :: rest', by simp [hrest'], ⟨?_, ?_⟩, ?_, ?_⟩
        · intro q hq
          simp only [List.mem_cons] at hq
          rcases hq with rfl | hq
          · exact hp
          · exact hts'.planes q hq
        · rw [List.pairwise_cons]
          refine ⟨?_, hts'.sorted⟩
          intro b hb
          rcases hk' b hb with h | ⟨r0, hr0, h⟩
          · rw [h]; exact hgt
          · rw [h]; exact hts.1 r0 hr0
        · intro a
          rw [hleaves a]
          have : a ∈ leaves (p :: rest') ↔ a ∈ p.flatten ∨ a ∈ leaves rest' := by simp [leaves]
          rw [this, hm' a]
          tauto
        · intro q hq
          simp only [List.mem_cons] at hq
          rcases hq with rfl | hq
          · right; exact ⟨q, by simp, rfl⟩
          · rcases hk' q hq with h | ⟨r0, hr0, h⟩
            · left; exact h
            · right; exact ⟨r0, by simp [hr0], h⟩

/-- pairwise distinct positions -/
def Distinct (ps : List (P3 ℝ)) : Prop := ps.Pairwise fun a b => ¬(a.x = b.x ∧ a.y = b.y ∧ a.z = b.z)

/-- **`_speaker_tree` on pairwise distinct positions** never asserts, builds a sorted grid, and
its leaves are exactly the `(index, position)` pairs of the input. -/
theorem speakerTreeFrom_spec : ∀ (cs : List (P3 ℝ)) (i : Nat) (t : GainCalc.Tree ℝ), TreeS t → Distinct cs →
    (∀ a ∈ leaves t, ∀ c ∈ cs, ¬(a.x = c.x ∧ a.y = c.y ∧ a.z = c.z)) →
    ∃ st, speakerTreeFrom i cs t = some st ∧ TreeS st ∧
      ∀ a, a ∈ leaves st ↔ a ∈ leaves t ∨ ∃ k c, cs[k]? = some c ∧ a = ⟨i + k, c.x, c.y, c.z⟩ := by
  intro cs
  induction cs with
  | nil => intro i t ht _ _; exact ⟨t, rfl, ht, by simp⟩
  | cons c cs ih =>
    intro i t ht hdist hd
    unfold Distinct at hdist
    rw [List.pairwise_cons] at hdist
    obtain ⟨t', ht', hts', hm', _⟩ := insTree_spec ⟨i, c.x, c.y, c.z⟩ t ht
      (fun a ha => hd a ha c (by simp))
    have hd' : ∀ a ∈ leaves t', ∀ c' ∈ cs, ¬(a.x = c'.x ∧ a.y = c'.y ∧ a.z = c'.z) := by
      intro a ha c' hc'
      rcases (hm' a).mp ha with rfl | ha
      · exact hdist.1 c' hc'
      · exact hd a ha c' (by simp [hc'])
    obtain ⟨st, hst, hsts, hms⟩ := ih (i + 1) t' hts' hdist.2 hd'
    refine ⟨st, by simp [speakerTreeFrom, ht', hst], hsts, ?_⟩
    intro a
    rw [hms a, hm' a]
    constructor
    · rintro ((rfl | h) | ⟨k, c', hk, rfl⟩)
      · right; exact ⟨0, c, by simp, by simp⟩
      · left; exact h
      · right; exact ⟨k + 1, c', by simpa using hk, by simp [Nat.add_assoc, Nat.add_comm 1 k]⟩
    · rintro (h | ⟨k, c', hk, rfl⟩)
      · left; right; exact h
      · cases k with
        | zero =>
          simp only [List.getElem?_cons_zero, Option.some.injEq] at hk
          subst hk
          left; left; simp
        | succ k =>
          right
          exact ⟨k, c', by simpa using hk, by simp [Nat.add_assoc, Nat.add_comm 1 k]⟩

theorem speakerTree_spec (ps : List (P3 ℝ)) (hd : Distinct ps) :
    ∃ st, speakerTree ps = some st ∧ TreeS st ∧
      ∀ a, a ∈ leaves st ↔ ∃ k c, ps[k]? = some c ∧ a = ⟨k, c.x, c.y, c.z⟩ := by
  obtain ⟨st, h1, h2, h3⟩ := speakerTreeFrom_spec ps 0 [] ⟨by simp, by simp⟩ hd (by simp [leaves])
  refine ⟨st, h1, h2, ?_⟩
  intro a
  rw [h3 a]
  simp [leaves]

end ins

end Earverif.C13
