"""Registry of the scalar kernels that are regenerated from the Python source on every run (DESIGN.md
section 1, "T — translator") and tied to the hand-written models by kernel-checked equalities.

    extract()          regenerate lean/Earverif/Gen/Kernels*.lean from `common.REPO`
    obligations(pid)   (props module of the property's kernel group, [fully qualified theorem names]) or None
    ALL                [(pid, python file, qualname, lean def name, [theorem names])]
    status()           per-theorem result of elaborating the Props/Kernels*.lean files (isolates which kernel broke)

The kernels are kept in GROUPS, one generated module + one hand-written proof module each, so that a property's check
only builds (and only depends on the models of) its own group:
    Kernels      Gen/Kernels.lean     Props/Kernels.lean      rendering / bw64 / timing kernels (C01..C05, C09..C13, C15..C20)
    KernelsSel   Gen/KernelsSel.lean  Props/KernelsSel.lean   item selection: select_items/*.py (C06, C07, C14)
    KernelsAdm   Gen/KernelsAdm.lean  Props/KernelsAdm.lean   fileio/adm: time_format.py, generate_ids.py (C08)
All kernels of one property are in one group.

`Gen/Kernels*.lean` hold one `def Earverif.Gen.<name>` per kernel, translated by `harness/translate.py`
from the function's AST, with the SHA-256 of the function's source text in a comment above it.
`Props/Kernels*.lean` (hand-written) prove `Gen.<name> = <model def>` for each.  An edit of such a
function changes the generated text; if the new text is no longer equal to the model the theorem
breaks, whether or not a test input exposes the difference.  A function that leaves the whitelisted
subset is *refused*: its def becomes a stub of type `Refused` (the reason is in the file) and the
equality theorem no longer type-checks — the obligation is reported broken, never skipped.

Floats are exact rationals/reals here, as in the models (binary64 rounding is the business of the
correspondence harnesses and of C16's `rn53`).
"""
import os
import re
import subprocess

from . import common
from .translate import KernelSpec, Optional_, Refuse, function_source, translate

GEN_PATH_REL = os.path.join("Earverif", "Gen", "Kernels.lean")  # (group "Kernels"; see GROUPS)
PROPS_MODULE = "Earverif.Props.Kernels"
THM_NS = "Earverif.Kernels."


class Kernel:
    """`pid`: property id or tuple of ids the kernel belongs to; `theorems`: the obligations (helper lemmas that the
    equality rests on are listed too, so that a broken helper is reported against this kernel)."""

    def __init__(self, pid, spec, theorems, group="Kernels"):
        self.pids = (pid,) if isinstance(pid, str) else tuple(pid)
        self.pid = "/".join(self.pids) or "no property"
        self.spec, self.theorems, self.group = spec, list(theorems), group

    @property
    def lean_name(self):
        return self.spec.lean_name


_RC = "ear/core/renderer_common.py"
_GC = "ear/core/objectbased/gain_calc.py"
_RD = "ear/fileio/bw64/reader.py"
_CURSOR_EXPRS = {
    "self._formatInfo.blockAlignment": ("k.A", "int"),
    "self._chunks[b'data'].position.data": ("k.data", "int"),
    "self._chunks[b'data'].position.end": ("k.dend", "int"),
    "self._chunks[b'data'].size": ("k.size", "int"),
    "self._buffer.tell()": ("pos", "int"),
}
_PB_EXPRS = {
    "self.first_sample": ("first_sample", "int"),
    "self.last_sample": ("last_sample", "int"),
    "self.start_sample": ("start_sample", "rat"),
    "self.end_sample": ("end_sample", "rat"),
}

KERNELS = [
    # 1 — C10
    Kernel("C10", KernelSpec(
        _RC, "is_lfe", "is_lfe", "(lowPass highPass : Option Rat)", "Bool",
        optionals=[
            Optional_("frequency.lowPass", "lowPass", "lp", {"frequency.lowPass": ("lp", "rat")}),
            Optional_("frequency.highPass", "highPass", "hp", {"frequency.highPass": ("hp", "rat")}),
        ],
        notes="warnings.warn is not part of the value"), ["is_lfe_eq_model"]),
    # 2 — C01
    Kernel("C01", KernelSpec(
        _RC, "get_object_gain", "get_object_gain", "(mute : Bool) (objectGain : α)", "α", scalar="alpha",
        exprs={"type_metadata.extra_data.object_mute": ("mute", "bool"),
               "type_metadata.extra_data.object_gain": ("objectGain", "alpha")}), ["get_object_gain_eq_model"]),
    # 3 — C01
    Kernel("C01", KernelSpec(
        _GC, "direct_diffuse_split", "direct_diffuse_split", "(gains : List α) (diffuse : α)", "List α × List α",
        scalar="alpha", names={"gains": ("gains", "vec:alpha"), "diffuse": ("diffuse", "alpha")},
        ctors={"DirectDiffuseGains": ["direct", "diffuse"]}), ["direct_diffuse_split_eq_model"]),
    # 4 — C01: the three-way gain formula inside `diverge`, with the condition under which it is reached
    Kernel("C01", KernelSpec(
        _GC, "diverge", "diverge_gains", "(value : Option α)", "Option (α × α × α)", scalar="alpha",
        optionals=[Optional_("objectDivergence", "value", "v", {"objectDivergence.value": ("v", "alpha")})],
        ret_mode="option", select=dict(targets=["g_l", "g_c", "g_r"], guard=True),
        notes="slice: assignments to g_l, g_c, g_r and the branch condition; `none` = the early return"),
        ["diverge_gains_eq_model"]),
    # 5 — C18
    Kernel("C18", KernelSpec(
        _RD, "Bw64Reader.seek", "seek", "(k : Cfg) (pos offset whence : Int)", "Option Int",
        names={"offset": ("offset", "int"), "whence": ("whence", "int")}, exprs=_CURSOR_EXPRS,
        effects={"self._buffer.seek": "result"}, ret_mode="option",
        raises=[("ValueError", "whence value", None)],
        notes="result = the argument of self._buffer.seek (new buffer position); raise ValueError = none; "
              "the default whence=0 is the caller's business"), ["seek_eq_model"]),
    Kernel("C18", KernelSpec(
        _RD, "Bw64Reader.tell", "tell", "(k : Cfg) (pos : Int)", "Int", exprs=_CURSOR_EXPRS), ["tell_eq_model"]),
    Kernel("C18", KernelSpec(
        _RD, "Bw64Reader.__len__", "len", "(k : Cfg) (ds64 : Bool) (dsSize chunkSize : Int)", "Int",
        exprs=dict(_CURSOR_EXPRS, **{"self._ds64": ("ds64", "bool"), "self._ds64.dataSize": ("dsSize", "int"),
                                     "self._chunks[b'data'].size": ("chunkSize", "int")}),
        notes="the model's Cfg.size is the ds64 dataSize for BW64 files, the data chunk size otherwise: the two sizes are "
              "separate parameters here, so that which branch reads which is part of the equality"),
        ["len_eq_model"]),
    # 6 — C20
    Kernel("C20", KernelSpec(
        "ear/core/track_processor.py", "MatrixCoefficientProcessor.init_delay", "init_delay_samples",
        "(sample_rate : Int) (delay : Rat)", "Int", names={"sample_rate": ("sample_rate", "int")},
        exprs={"self.coefficient.delay": ("delay", "rat")}, select=dict(targets=["delay_samples"], guard=False),
        notes="slice: the ms -> samples formula only"), ["init_delay_samples_eq_model"]),
    # 7 — C03 (also used by C02)
    Kernel("C03", KernelSpec(
        _RC, "ceil", "ceil", "(x : Rat)", "Int", names={"x": ("x", "rat")}, exprs={"math.isinf(x)": ("false", "false")},
        notes="on a Fraction math.isinf is False (the model passes inf through in ceilE)"), ["ceil_eq_model"]),
    Kernel("C03", KernelSpec(
        _RC, "ProcessingBlock.overlap", "overlap", "(first_sample last_sample start_sample num_samples : Int)",
        "(Int × Int) × (Int × Int)", names={"start_sample": ("start_sample", "int"), "num_samples": ("num_samples", "int")},
        exprs=_PB_EXPRS, ctors={("slice", 2): "({0}, {1})", ("slice", 1): "((0 : Int), {0})"},
        notes="slice(a, b) = (a, b); slice(0) = (0, 0); a finite last_sample (inf: see overlap_inf_eq_model)"),
        ["overlap_eq_model", "overlap_inf_eq_model"]),
    Kernel("C03", KernelSpec(
        _RC, "InterpGains.init_interp_p", "interp_p", "(start_sample end_sample : Rat) (first_sample last_sample : Int)",
        "List Rat", exprs=_PB_EXPRS), ["interp_p_eq_model"]),
    Kernel("C03", KernelSpec(
        "ear/core/objectbased/renderer.py", "InterpretObjectMetadata.interp_length", "interp_length",
        "(jump : Bool) (interpLen : Option Rat) (duration : Ext Rat)", "Ext Rat",
        names={"duration": ("duration", "ext")}, exprs={"block_format.jumpPosition.flag": ("jump", "bool")},
        optionals=[Optional_("block_format.jumpPosition.interpolationLength", "interpLen", "l",
                             {"block_format.jumpPosition.interpolationLength": ("l", "rat")})],
        ret_wrap={"rat": "(Ext.fin {})"}), ["interp_length_eq_model"]),
    # 8 — C01
    Kernel("C01", KernelSpec(
        "ear/core/point_source.py", "AllocentricPanner._single_balance_pan", "single_balance_pan",
        "(minimum maximum value : α)", "α × α", scalar="alpha",
        names={"minimum": ("minimum", "alpha"), "maximum": ("maximum", "alpha"), "value": ("value", "alpha")}),
        ["single_balance_pan_eq_model"]),
    # 9 — C16 (scalar parts: clip + scale, before float64 rounding and astype/tobytes)
    Kernel("C16", KernelSpec(
        "ear/fileio/bw64/utils.py", "encode_pcm_samples", "pcm_encode_scaled", "(samples : List Rat) (bitdepth : Nat)",
        "List Rat", names={"samples": ("samples", "vec:rat"), "bitdepth": ("bitdepth", "nat")},
        select=dict(targets=["scaledSamples"], guard=False),
        notes="slice: scaledSamples (clip, then times 2**(bitdepth-1) - 1), exact"), ["pcm_encode_scaled_eq_model", "pcm_encode_model"]),
    Kernel("C16", KernelSpec(
        "ear/fileio/bw64/utils.py", "decode_pcm_samples", "pcm_decode_scaled", "(decodedSamples : List Int) (bitdepth : Nat)",
        "List Rat", names={"decodedSamples": ("decodedSamples", "vec:int"), "bitdepth": ("bitdepth", "nat")},
        select=dict(targets=["return"], guard=False, inputs=["decodedSamples"]),
        notes="slice: the returned quotient, decodedSamples (the integer codes) taken as input"),
        ["pcm_decode_scaled_eq_model", "pcm_decode_model"]),
    # 10 — C04
    Kernel("C04", KernelSpec(
        "ear/core/monitor.py", "PeakMonitor.has_overloaded", "has_overloaded", "(peak : List Rat)", "Bool",
        exprs={"self.peak_abs_linear": ("peak", "vec")}), ["has_overloaded_eq_model"]),
]

# ---- round 2 -------------------------------------------------------------------------------------------------
_WR = "ear/fileio/bw64/writer.py"
_BUF_SEEK = {"self._buffer.seek": dict(state="self._buffer.tell()",
                                       forms={(1,): "arg", (2, 0): "arg", (2, 1): "old+arg", (2, 2): ("expr+arg", "bufLen", "nat")})}
KERNELS += [
    # C09 / C17 — chunk walk of the reader: skip formula and chunk-end test
    Kernel(("C09", "C17"), KernelSpec(
        _RD, "Bw64Reader._read_chunks", "read_chunks_step", "(pos chunkSize fileLen : Nat) (isData : Bool)", "Option Nat",
        names={"chunkSize": ("chunkSize", "nat")},
        exprs={"self._buffer.tell()": ("pos", "nat"), "self._file_len": ("fileLen", "nat"),
               "chunkId == b'data'": ("isData", "bool")},
        effects=_BUF_SEEK, ret_mode="option", select=dict(range=("self._buffer.seek(", None)), outputs=["chunk_end"],
        raises=[("ValueError", "chunk ends after the end of the file", None)], bound=("chunkId",),
        notes="range: from the skip `self._buffer.seek(chunkSize + (chunkSize & 1), 1)` to the end of the loop body; "
              "pos = buffer position after the 8-byte header; result = chunk_end (the next header position), "
              "none = the ValueError"), ["read_chunks_step_eq_model"]),
    # C09 / C17 — writer close(): data pad test, RIFF size, RIFF/BW64 decision
    Kernel(("C09", "C17"), KernelSpec(
        _WR, "Bw64Writer.close", "close_pad_test", "(dataBytes : Nat)", "Bool",
        exprs={"self._dataBytesWritten": ("dataBytes", "nat")}, select=dict(value_of="re:if .*self\\._dataBytesWritten"),
        notes="the test of `if self._dataBytesWritten & 1:`"), ["close_pad_test_eq_model"]),
    Kernel(("C09", "C17"), KernelSpec(
        _WR, "Bw64Writer.close", "close_bw64_test", "(riffChunkSize : Nat) (force : Bool)", "Bool",
        names={"riffChunkSize": ("riffChunkSize", "nat")}, exprs={"self._forceBw64": ("force", "bool")},
        select=dict(value_of="re:if .*riffChunkSize"),
        notes="the test of `if(riffChunkSize >= 2**32) or self._forceBw64:`"), ["close_bw64_test_eq_model"]),
    Kernel(("C09", "C17"), KernelSpec(
        _WR, "Bw64Writer._calc_riff_chunk_size", "calc_riff_chunk_size", "(pos bufLen : Nat)", "Int",
        exprs={"self._buffer.tell()": ("pos", "nat")}, effects=_BUF_SEEK,
        notes="bufLen = length of the buffer (what seek(0, 2) moves to)"), ["calc_riff_chunk_size_eq_model"]),
    # ACN channel numbering: belongs to NO property (`to_acn` / `from_acn` are only used by cmdline/ambix_to_bwf.py, not by
    # the HOA renderer C11 is about): the equalities are kept building with the group, but are nobody's obligation
    Kernel((), KernelSpec(
        "ear/core/hoa.py", "to_acn", "to_acn", "(n m : Int)", "Int", names={"n": ("n", "int"), "m": ("m", "int")}),
        ["to_acn_eq_model"]),
    Kernel((), KernelSpec(
        "ear/core/hoa.py", "from_acn", "from_acn", "(acn : Nat)", "Nat × Int", names={"acn": ("acn", "nat")},
        exprs={"np.sqrt(acn).astype(int)": ("(Earverif.Hoa.isqrt acn)", "nat")},
        notes="np.sqrt(acn).astype(int) is mapped to the model's integer square root (exact for acn < 2^52)"),
        ["from_acn_eq_model"]),
    # C02 — latency constants of the object renderer
    Kernel("C02", KernelSpec(
        "ear/core/objectbased/renderer.py", "ObjectRenderer.__init__", "decorrelator_delay", "(ntaps : Nat)", "Int",
        exprs={"decorrelation_filters.shape[0]": ("ntaps", "nat")},
        select=dict(targets=["decorrelator_delay"], guard=False, inputs=["decorrelation_filters"]),
        notes="slice: decorrelator_delay = (decorrelation_filters.shape[0] - 1) // 2"), ["decorrelator_delay_eq_model"]),
    Kernel("C02", KernelSpec(
        "ear/core/convolver.py", "VariableBlockSizeAdapter.delay", "vbs_delay", "(block_size process_delay : Nat)", "Nat",
        names={"process_delay": ("process_delay", "nat")}, exprs={"self.block_size": ("block_size", "nat")}),
        ["vbs_delay_eq_model"]),
    # C05 / C12 — stereo level law
    Kernel(("C05", "C12"), KernelSpec(
        "ear/core/point_source.py", "StereoPanDownmix.handle", "stereo_level", "(front back : α)", "α", scalar="PointSource",
        names={"front": ("front", "alpha"), "back": ("back", "alpha")}, select=dict(value_of="pv_dmix *= 0.5 **"),
        notes="the factor of `pv_dmix *= 0.5 ** (0.5 * back / (front + back))`"), ["stereo_level_eq_model"]),
]

_CV = "ear/core/objectbased/conversion.py"
_GEOM = "ear/core/geom.py"
_CV_EXPRS = {"self.el_top": ("P.elTop", "alpha"), "self.el_top_tilde": ("P.elTopTilde", "alpha")}
_IAR_NAMES = lambda k: {"x": ("x", k), "start": ("start", k), "end": ("end_", k), "tol": ("tol", k)}
KERNELS += [
    # C19 — polar <-> Cartesian conversion (written over the Scalar class of Model/Conversion.lean)
    Kernel("C19", KernelSpec(
        _CV, "Conversion._map_az_to_linear", "map_az_to_linear", "(left_az right_az azimuth : α)", "α", scalar="Conv",
        names={"left_az": ("left_az", "alpha"), "right_az": ("right_az", "alpha"), "azimuth": ("azimuth", "alpha")}),
        ["map_az_to_linear_eq_model"]),
    Kernel("C19", KernelSpec(
        _CV, "Conversion._map_linear_to_az", "map_linear_to_az", "(left_az right_az x : α)", "α", scalar="Conv",
        names={"left_az": ("left_az", "alpha"), "right_az": ("right_az", "alpha"), "x": ("x", "alpha")}),
        ["map_linear_to_az_eq_model"]),
    Kernel("C19", KernelSpec(
        _CV, "Conversion.point_polar_to_cart", "el_to_cart", "(P : Earverif.Conv.Params α) (el d : α)", "α × α", scalar="Conv",
        names={"el": ("el", "alpha"), "d": ("d", "alpha")}, exprs=_CV_EXPRS,
        select=dict(range=("if ", "(left_az, left_pos)")), outputs=["z", "r_xy"],
        notes="range: the elevation warp (first if/else); outputs z, r_xy"), ["el_to_cart_eq_model"]),
    Kernel("C19", KernelSpec(
        _CV, "Conversion.point_cart_to_polar", "el_to_polar", "(P : Earverif.Conv.Params α) (z r_xy : α)", "α × α", scalar="Conv",
        names={"z": ("z", "alpha"), "r_xy": ("r_xy", "alpha")}, exprs=_CV_EXPRS,
        select=dict(range=("el_tilde = np.degrees(", "return (az, el, d)")), outputs=["el", "d"],
        notes="range: from el_tilde to the end of the inverse elevation warp; outputs el, d"), ["el_to_polar_eq_model"]),
    Kernel("C19", KernelSpec(
        _GEOM, "relative_angle", "relative_angle", "(fuel : Nat) (x y : α)", "α", scalar="Conv", fuel="fuel",
        names={"x": ("x", "alpha"), "y": ("y", "alpha")},
        notes="each while loop runs on `fuel` (as the model's); when it runs out the current value is returned"),
        ["relative_angle_loop1_eq", "relative_angle_loop2_eq", "relative_angle_eq_model"]),
    Kernel("C19", KernelSpec(
        _GEOM, "inside_angle_range", "inside_angle_range", "(fuel : Nat) (x start end_ tol : α)", "Bool", scalar="Conv",
        fuel="fuel", names=_IAR_NAMES("alpha"), notes="the default tol=0.0 is the caller's business"),
        ["inside_angle_range_loops_eq", "inside_angle_range_eq_model"]),
    # C13 — the same function against Model/Zone.lean, at its exact instance (Rat)
    Kernel("C13", KernelSpec(
        _GEOM, "inside_angle_range", "inside_angle_range_rat", "(fuel : Nat) (x start end_ tol : Rat)", "Bool",
        fuel="fuel", names=_IAR_NAMES("rat")),
        ["zone_loop_agree", "inside_angle_range_rat_loops_zone", "inside_angle_range_zone_eq_model"]),
    # C10 — the same function against Model/DirectSpeakersGeom.lean (its per-loop fuel terms)
    Kernel("C10", KernelSpec(
        _GEOM, "inside_angle_range", "inside_angle_range_ds", "(x start end_ tol : Rat)", "Bool",
        fuel=["(Earverif.DS.loopFuel end_ start)", "(Earverif.DS.loopFuel end_ start)",
              "(Earverif.DS.loopFuel x start_tol)", "(Earverif.DS.loopFuel x start_tol)"],
        names=_IAR_NAMES("rat"), notes="loop fuel = the model's loopFuel of the loop variable and its bound"),
        ["inside_angle_range_ds_loops_eq", "inside_angle_range_ds_eq_model"]),
]

_TF = "ear/fileio/adm/timing_fixes.py"
_GCF = "ear/core/objectbased/gain_calc.py"


def _tf_exprs(bf):
    return {
        "fix": ("true", "true"),
        "isinstance(%s, AudioBlockFormat)" % bf: ("true", "true"),
        "isinstance(%s, AudioBlockFormatObjects)" % bf: ("isObjects", "bool"),
        "%s.jumpPosition.flag" % bf: ("jp", "bool"),
    }


def _tf_il(bf):
    t = "%s.jumpPosition.interpolationLength" % bf
    return [Optional_(t, "il", "l", {t: ("l", "rat")})]


KERNELS += [
    # C15 — timing fixes (the fix=True paths; warnings are not part of the value)
    Kernel("C15", KernelSpec(
        _TF, "_has_interpolationLength", "has_interpolationLength", "(isObjects jp : Bool) (il : Option Rat)", "Bool",
        exprs=_tf_exprs("blockFormat"), optionals=_tf_il("blockFormat")), ["has_interpolationLength_eq_model"]),
    Kernel("C15", KernelSpec(
        _TF, "_check_blockFormat_duration", "check_duration", "(ra old rb : Rat) (isObjects jp : Bool) (il : Option Rat)",
        "Rat × Option Rat",
        exprs=dict(_tf_exprs("bf_a"), **{"bf_a.rtime": ("ra", "rat"), "bf_a.duration": ("old", "rat"), "bf_b.rtime": ("rb", "rat")}),
        optionals=_tf_il("bf_a"), inline={"_has_interpolationLength": "_has_interpolationLength"},
        outputs=["bf_a.duration", "bf_a.jumpPosition.interpolationLength"],
        notes="fix=True; outputs: bf_a.duration and bf_a.jumpPosition.interpolationLength after the call"),
        ["check_duration_eq_model"]),
    Kernel("C15", KernelSpec(
        _TF, "_clamp_blockFormat_end", "clamp_end", "(D r d : Rat) (isObjects jp : Bool) (il : Option Rat)",
        "Option (Rat × Option Rat)",
        exprs=dict(_tf_exprs("blockFormat"), **{"blockFormat.rtime": ("r", "rat"), "blockFormat.duration": ("d", "rat"),
                                                "audioObject.duration": ("D", "rat")}),
        optionals=_tf_il("blockFormat"), inline={"_has_interpolationLength": "_has_interpolationLength"}, ret_mode="option",
        raises=[("ValueError", "but this would be before the block start", None)],
        outputs=["blockFormat.duration", "blockFormat.jumpPosition.interpolationLength"],
        notes="fix=True; none = the ValueError; outputs: duration and interpolationLength after the call"),
        ["clamp_end_eq_model"]),
    # C01 — more scalar helpers of the extent panners
    Kernel("C01", KernelSpec(
        _GCF, "PolarExtentHandler.extent_mod", "extent_mod", "(extent distance : α)", "α", scalar="GainCalc",
        names={"extent": ("extent", "alpha"), "distance": ("distance", "alpha")},
        notes="np.interp is the model's `interp` (numpy's C loop)"), ["extent_mod_eq_model"]),
    Kernel("C01", KernelSpec(
        "ear/core/objectbased/allo_extent.py", "get_gains", "fade_gains", "(s_eff : α)", "α × α", scalar="GainCalc",
        names={"s_eff": ("s_eff", "alpha")}, select=dict(range=("s_fade = 0.2", "g_point = ")), outputs=["alpha", "beta"],
        notes="range: s_fade and the alpha/beta if/else"), ["fade_gains_eq_model"]),
    # C13 — constants and element-wise tests of the channel lock and of zone exclusion, against the models'
    # exact (Rat) instance; float literals are their binary64 values there
    Kernel("C13", KernelSpec(
        _GCF, "ChannelLockHandlerBase.handle", "lock_tol", "", "Rat", select=dict(value_of="tol = "),
        float_literals="binary64", notes="the literal 1e-5 (binary64 value)"), ["lock_tol_eq_model"]),
    Kernel("C13", KernelSpec(
        _GCF, "ChannelLockHandlerBase.handle", "lock_possible_test", "(d tol : Rat) (maxDistance : Option Rat)", "Bool",
        names={"distances": ("d", "rat"), "tol": ("tol", "rat")},
        exprs={"np.ones(len(channel_positions), dtype=bool)": ("true", "true")},
        optionals=[Optional_("channelLock.maxDistance", "maxDistance", "m", {"channelLock.maxDistance": ("m", "rat")})],
        select=dict(value_of="possible = "), float_literals="binary64",
        notes="one element of the array expression (`distances` = that channel's distance; np.ones(...) = True)"),
        ["lock_possible_test_eq_model"]),
    Kernel("C13", KernelSpec(
        _GCF, "ChannelLockHandlerBase.handle", "lock_closest_test", "(dw min_dist tol : Rat)", "Bool",
        names={"distances_w": ("dw", "rat"), "min_dist": ("min_dist", "rat"), "tol": ("tol", "rat")},
        select=dict(value_of="all_closest = ", arg_of="np.where"), float_literals="binary64",
        notes="one element of the argument of np.where"), ["lock_closest_test_eq_model"]),
    Kernel("C13", KernelSpec(
        _GCF, "ZoneExclusionHandler.get_excluded", "zone_epsilon", "", "Rat", select=dict(value_of="epsilon = "),
        float_literals="binary64", notes="the literal 1e-6 (binary64 value)"), ["zone_epsilon_eq_model"]),
    Kernel("C13", KernelSpec(
        _GCF, "ZoneExclusionHandler.get_excluded", "zone_cart_test",
        "(x y z epsilon minX maxX minY maxY minZ maxZ : Rat)", "Bool",
        names={"epsilon": ("epsilon", "rat")},
        exprs={"self.positions[:, 0]": ("x", "rat"), "self.positions[:, 1]": ("y", "rat"), "self.positions[:, 2]": ("z", "rat"),
               "zone.minX": ("minX", "rat"), "zone.maxX": ("maxX", "rat"), "zone.minY": ("minY", "rat"),
               "zone.maxY": ("maxY", "rat"), "zone.minZ": ("minZ", "rat"), "zone.maxZ": ("maxZ", "rat")},
        select=dict(value_of="excluded |= (self.positions"), float_literals="binary64",
        notes="one element (loudspeaker) of the Cartesian zone mask"), ["zone_cart_test_eq_model"]),
    Kernel("C13", KernelSpec(
        _GCF, "ZoneExclusionHandler.get_excluded", "zone_polar_test",
        "(el epsilon minEl maxEl : Rat) (inAz : Bool)", "Bool",
        names={"epsilon": ("epsilon", "rat")},
        exprs={"self.elevations": ("el", "rat"), "zone.minElevation": ("minEl", "rat"), "zone.maxElevation": ("maxEl", "rat"),
               "[inside_angle_range(az, zone.minAzimuth, zone.maxAzimuth, tol=epsilon) for az in self.azimuths]": ("inAz", "bool")},
        select=dict(value_of="excluded |= (self.elevations"), float_literals="binary64",
        notes="one element of the polar zone mask; inAz = that loudspeaker's inside_angle_range(...) result"),
        ["zone_polar_test_eq_model"]),
]

# ---- round 4: the cursor/format/offset kernels of the bw64 reader and the two sites repaired by the latest `fix:` commits
_CH = "ear/fileio/bw64/chunks.py"
_DSP = "ear/core/direct_speakers/panner.py"
KERNELS += [
    # C18 — Bw64Reader.read: the frame-count clamp and the byte count requested from the buffer
    Kernel("C18", KernelSpec(
        _RD, "Bw64Reader.read", "read_clamp", "(k : Cfg) (pos numberOfFrames : Int)", "Int",
        names={"numberOfFrames": ("numberOfFrames", "int")},
        exprs={"self.tell()": ("(Earverif.Cursor.tell k pos)", "int"), "len(self)": ("(Earverif.Cursor.len k)", "int")},
        select=dict(range=("re:if .*numberOfFrames", "rawData = ")), outputs=["numberOfFrames"],
        notes="range: the `if(self.tell() + numberOfFrames > len(self))` clamp; self.tell() / len(self) are the model's "
              "Cursor.tell / Cursor.len (tied by tell_eq_model / len_eq_model); output numberOfFrames"),
        ["read_clamp_eq_model"]),
    Kernel("C18", KernelSpec(
        _RD, "Bw64Reader.read", "read_nbytes", "(k : Cfg) (numberOfFrames : Int)", "Int",
        names={"numberOfFrames": ("numberOfFrames", "int")}, exprs=_CURSOR_EXPRS,
        select=dict(value_of="rawData = ", arg_of="self._buffer.read"),
        notes="the argument of self._buffer.read(...)"), ["read_clamp_eq_model"]),
    # C09 / C17 — FormatInfoChunk.blockAlignment / bytesPerSecond, ChunkIndex offsets, _read_chunk_header
    Kernel(("C09", "C17", "C18"), KernelSpec(
        _CH, "FormatInfoChunk.blockAlignment", "block_alignment", "(channelCount bitsPerSample : Nat)", "Nat",
        exprs={"self.channelCount": ("channelCount", "nat"), "self.bitsPerSample": ("bitsPerSample", "nat")},
        notes="int(x / 8) of a natural x = division of naturals"), ["block_alignment_eq_model"]),
    Kernel(("C09", "C17"), KernelSpec(
        _CH, "FormatInfoChunk.bytesPerSecond", "bytes_per_second", "(sampleRate blockAlignment : Nat)", "Nat",
        exprs={"self.sampleRate": ("sampleRate", "nat"), "self.blockAlignment": ("blockAlignment", "nat")}),
        ["bytes_per_second_eq_model"]),
    Kernel(("C18", "C09", "C17"), KernelSpec(
        _CH, "ChunkIndex.__init__", "chunk_position", "(size position : Nat)", "Nat × Nat × Nat × Nat",
        names={"size": ("size", "nat"), "position": ("position", "nat")},
        ctors={("ChunkPosition", 4): "({0}, {1}, {2}, {3})"}, select=dict(value_of="self._position = "),
        notes="ChunkPosition(chunkId, size, data, end) as a 4-tuple of offsets"),
        ["chunk_position_eq_model", "chunk_position_openReader"]),
    Kernel(("C09", "C17"), KernelSpec(
        _RD, "Bw64Reader._read_chunks", "chunk_index_args", "(pos chunkSize : Nat)", "Nat × Int",
        names={"chunkSize": ("chunkSize", "nat")}, exprs={"self._buffer.tell()": ("pos", "nat")},
        ctors={("ChunkIndex", 2): "({0}, {1})"}, select=dict(value_of="self._chunks[chunkId] = "),
        notes="the arguments of ChunkIndex(chunkSize, self._buffer.tell() - 8); pos = buffer position after the header"),
        ["chunk_index_args_eq_model"]),
    Kernel(("C17", "C09"), KernelSpec(
        _RD, "Bw64Reader._read_chunk_header", "read_chunk_header_size",
        "(isBw64 : Bool) (d : Earverif.Bw64.Ds64) (id : Earverif.Bw64.Bytes) (isData : Bool) (chunkSize : Nat)", "Option Nat",
        names={"chunkSize": ("chunkSize", "nat")},
        exprs={"self.fileFormat in [b'RF64', b'BW64']": ("isBw64", "bool"), "chunkId == b'data'": ("isData", "bool"),
               "self._ds64.dataSize": ("d.dataSize", "nat"), "chunkId in self._ds64.table": ("(d.lookup id).isSome", "bool"),
               "self._ds64.table[chunkId]": ("((d.lookup id).getD 0)", "nat")},
        ret_mode="option", select=dict(range=("if self.fileFormat in [b'RF64', b'BW64']", "return (chunkId, chunkSize)")),
        raises=[("ValueError", "data chunk size has not been set", None)],
        outputs=["chunkSize"],
        notes="range: the size correction for RF64/BW64 and, in its else, the rejection of the 0xFFFFFFFF data placeholder "
              "(fix 61d37f4); none = that ValueError; output chunkSize; isBw64 = `self.fileFormat in [b'RF64', b'BW64']` "
              "(the model: a ds64 chunk was read), isData = `chunkId == b'data'`, dict lookups through Ds64.lookup"),
        ["read_chunk_header_size_eq_model", "read_chunk_header_eq_model"]),
    # C10 — the position handed to the fallback panner (fix 1404dee: unit distance for polar blocks)
    Kernel("C10", KernelSpec(
        _DSP, "DirectSpeakersPanner._handle_without_gain", "ds_pan_position",
        "(isPolar : Bool) (az el dist : α) (cartPos : Earverif.GainCalc.V3 α)", "Earverif.GainCalc.V3 α", scalar="GainCalc",
        exprs={"isinstance(shifted_position, DirectSpeakerPolarPosition)": ("isPolar", "bool"),
               "shifted_position.azimuth": ("az", "alpha"), "shifted_position.elevation": ("el", "alpha"),
               "shifted_position.distance": ("dist", "alpha"),
               "shifted_position.as_cartesian_array()": ("cartPos", "ctor")},
        ctors={("cart", 3): "(Earverif.GainCalc.cart {0} {1} {2})"},
        select=dict(range=("re:if .*isinstance\\(shifted_position, DirectSpeakerPolarPosition\\)", "pv = np.zeros(self.n_channels)")),
        outputs=["position"],
        notes="range: the if/else that chooses `position` in the final else; cart(...) is the model's GainCalc.cart, "
              "cartPos = shifted_position.as_cartesian_array() (the model's Shifted.cart)"), ["ds_pan_position_eq_model"]),
]

# ---- round 5: code that entered the models recently (C04 layout glue, C02 overlap-save / block-size adapter indices,
# C15 interpolationLength clamps, C11 LFE routing mask)
_LY = "ear/core/layout.py"
_CO = "ear/core/convolver.py"
_VBS_NAMES = {"n_input": ("n_input", "nat"), "n_done": ("n_done", "nat")}
_VBS_EXPRS = {"self.block_size": ("B", "nat"), "self.buffer_input": ("buffer_input", "nat")}
_OS_EXPRS = {"len(f)": ("L", "nat"), "self.block_size": ("B", "nat")}
KERNELS += [
    Kernel("C04", KernelSpec(
        _LY, "Layout.with_speakers", "out_channels", "(maxChannel : Int)", "Int",
        exprs={"max((speaker.channel for speaker in speakers))": ("maxChannel", "int")}, select=dict(value_of="out_channels = "),
        notes="max(speaker.channel for speaker in speakers) is the model's maxInt of the channel numbers"),
        ["out_channels_eq_model"]),
    Kernel("C04", KernelSpec(
        _LY, "Channel.check_position", "el_range_test", "(lo hi el : Rat)", "Bool",
        exprs={"self.el_range[0]": ("lo", "rat"), "self.el_range[1]": ("hi", "rat"), "self.polar_position.elevation": ("el", "rat")},
        select=dict(value_of="re:if .*self\\.el_range"),
        notes="the test of `if not self.el_range[0] <= elevation <= self.el_range[1]:` (true = warning)"),
        ["el_range_test_eq_model"]),
    Kernel("C04", KernelSpec(
        _LY, "Layout.check_upmix_matrix", "upmix_unmapped_test", "(num_outputs : Nat)", "Bool",
        names={"num_outputs": ("num_outputs", "nat")}, select=dict(value_of="re:if (num_outputs == 0|0 == num_outputs)")), ["upmix_tests_eq_model"]),
    Kernel("C04", KernelSpec(
        _LY, "Layout.check_upmix_matrix", "upmix_multi_out_test", "(num_outputs : Nat)", "Bool",
        names={"num_outputs": ("num_outputs", "nat")}, select=dict(value_of="re:if (num_outputs > 1|1 < num_outputs|num_outputs >= 2)")), ["upmix_tests_eq_model"]),
    Kernel("C04", KernelSpec(
        _LY, "Layout.check_upmix_matrix", "upmix_row_multi_test", "(num_channels : Nat)", "Bool",
        names={"num_channels": ("num_channels", "nat")}, select=dict(value_of="re:if (num_channels > 1|1 < num_channels|num_channels >= 2)")), ["upmix_tests_eq_model"]),
    Kernel("C02", KernelSpec(
        _CO, "OverlapSaveConvolver.__init__", "os_block_end", "(L B start : Nat)", "Nat",
        names={"start": ("start", "nat")}, exprs=_OS_EXPRS, select=dict(value_of="end = "),
        notes="end = min(len(f), start + self.block_size)"), ["os_block_end_eq_model"]),
    Kernel("C02", KernelSpec(
        _CO, "OverlapSaveConvolver.__init__", "os_range", "(L B : Nat)", "Int × Nat × Nat",
        exprs=_OS_EXPRS, ctors={("range", 3): "({0}, {1}, {2})"}, select=dict(value_of="for start in range("),
        notes="the three arguments of range(0, len(f), self.block_size)"), ["os_range_eq_model"]),
    Kernel("C02", KernelSpec(
        _CO, "VariableBlockSizeAdapter.process", "vbs_to_xfer", "(n_input n_done B buffer_input : Nat)", "Int",
        names=_VBS_NAMES, exprs=_VBS_EXPRS, select=dict(value_of="to_xfer = ")), ["vbs_step_eq_model"]),
    Kernel("C02", KernelSpec(
        _CO, "VariableBlockSizeAdapter.process", "vbs_full_test", "(B buffer_input : Nat)", "Bool",
        exprs=_VBS_EXPRS, select=dict(value_of="re:if .*self\\.buffer_input")), ["vbs_step_eq_model"]),
    Kernel("C02", KernelSpec(
        _CO, "VariableBlockSizeAdapter.process", "vbs_loop_test", "(n_input n_done : Nat)", "Bool",
        names=_VBS_NAMES, select=dict(value_of="re:while ")), ["vbs_step_eq_model"]),
    Kernel("C15", KernelSpec(
        _TF, "_clamp_blockFormat_interpolationLength", "clamp_il", "(D : Rat) (isObjects jp : Bool) (il : Option Rat)",
        "Option Rat", exprs=dict(_tf_exprs("blockFormat"), **{"audioObject.duration": ("D", "rat")}),
        optionals=_tf_il("blockFormat"), inline={"_has_interpolationLength": "_has_interpolationLength"},
        outputs=["blockFormat.jumpPosition.interpolationLength"],
        notes="fix=True; output: interpolationLength after the call"), ["clamp_il_eq_model"]),
    Kernel("C15", KernelSpec(
        _TF, "check_blockFormat_interpolationLengths", "il_gt_duration_test", "(il d : Rat)", "Bool",
        exprs={"blockFormat.jumpPosition.interpolationLength": ("il", "rat"), "blockFormat.duration": ("d", "rat")},
        select=dict(value_of="re:if (blockFormat\\.jumpPosition\\.interpolationLength|blockFormat\\.duration) [<>]")),
        ["il_gt_duration_test_eq_model"]),
    Kernel("C11", KernelSpec(
        "ear/core/scenebased/renderer.py", "HOARenderer.__init__", "hoa_output_channels", "(isLfe : List Bool)", "List Bool",
        exprs={"layout.is_lfe": ("isLfe", "vec:bool")}, select=dict(value_of="self._output_channels = "),
        notes="~layout.is_lfe: the boolean index FixedMatrix.process writes through"), ["hoa_output_channels_eq_model"]),
]

# ---- round 3: fileio/adm (C08) and item selection (C06, C07, C14); separate groups (generated + proof module each) ----
# Strings are `List Char` through Model/C08Digits.lean; objects of the ADM graph are identity tokens (`Nat`) or the
# models' structures; `raise AdmError(...)` is the model's error kind (the message text is not translated).
_N0 = len(KERNELS)
_TFM = "ear/fileio/adm/time_format.py"
_GI = "ear/fileio/adm/generate_ids.py"


# ---------------- C08: time_format
KERNELS += [
    Kernel("C08", KernelSpec(
        _TFM, "_unparse_whole_part", "unparse_whole_part", "(seconds : Nat)", "List Char", strings=True,
        names={"seconds": ("seconds", "nat")},
        notes="f-string through the Digits model ({x:02d} = decPad 2 x)"), ["unparse_whole_part_eq_model"]),
    Kernel("C08", KernelSpec(
        _TFM, "_unparse_fractional", "unparse_fractional_fmt", "(whole_part : List Char) (numerator denominator : Nat)",
        "List Char", strings=True,
        names={"whole_part": ("whole_part", "str"), "numerator": ("numerator", "nat"), "denominator": ("denominator", "nat")},
        select=dict(value_of="return "),
        notes="the returned f-string; whole_part, numerator, denominator as computed before it"),
        ["unparse_fractional_fmt_eq_model"]),
    Kernel("C08", KernelSpec(
        _TFM, "parse_time", "parse_time_frac", "(hour minute whole_s num den : Nat)", "Option (Rat × Nat)",
        names={"hour": ("hour", "nat"), "minute": ("minute", "nat")},
        exprs={"int(match.group('num'))": ("num", "nat"), "int(match.group('den'))": ("den", "nat"),
               "int(match.group('whole_s'))": ("whole_s", "nat")},
        ctors={("FractionalTime.from_fraction", 2): "({0}, {1})"}, ret_mode="option",
        raises=[("ValueError", "numerator must be less than denominator", None)],
        select=dict(range=("numerator = int(", None)),  outputs=[],
        notes="range: the fractional branch after the regular expression (int(match.group(..)) are the parameters); "
              "result = the arguments of FractionalTime.from_fraction; none = the ValueError"),
        ["parse_time_frac_value", "parse_time_frac_eq_model"]),
    Kernel("C08", KernelSpec(
        _TFM, "parse_time", "parse_time_dec", "(hour minute : Nat) (second : Rat)", "Rat",
        names={"hour": ("hour", "nat"), "minute": ("minute", "nat"), "second": ("second", "rat")},
        select=dict(value_of="re:return (?!FractionalTime)"),
        notes="the decimal branch: hh:mm:ss composition with second = Fraction(<ss.ddd>)"),
        ["parse_time_dec_eq_model"]),
    Kernel("C08", KernelSpec(
        _TFM, "FractionalTime.from_fraction", "from_fraction", "(fraction : Rat) (format_denominator : Nat)", "Rat × Nat",
        names={"fraction": ("fraction", "rat"), "format_denominator": ("format_denominator", "nat")},
        ctors={("cls", 2): "({0}, {1})"},
        notes="the arguments of cls(...): (numerator, denominator) of the non-normalised fraction"),
        ["from_fraction_eq_model"]),
]

# ---------------- C08: generate_ids formats and counters
_IDS = [  # lean name, statement prefix, binders, exprs, model term
    ("id_apr", "re:element\\.id = f?'APR_", "(id : Nat)", {}),
    ("id_aco", "re:element\\.id = f?'ACO_", "(id : Nat)", {}),
    ("id_ao", "re:element\\.id = f?'AO_", "(id : Nat)", {}),
    ("id_avs", "re:avs\\.id = f?'AVS_", "(id avs_id : Nat)", {}),
    ("id_ap", "re:element\\.id = f?'AP_", "(type id : Nat)", {"element.type.value": ("type", "nat")}),
    ("id_ac", "re:element\\.id = f?'AC_", "(type id : Nat)", {"element.type.value": ("type", "nat")}),
    ("id_ab", "re:block\\.id = f?'AB_", "(type id block_id : Nat)", {"element.type.value": ("type", "nat")}),
    ("id_as", "re:element\\.id = f?'AS_", "(type_id id : Nat)", {}),
    ("id_at", "re:element\\.id = f?'AT_", "(type_id id track_id : Nat)", {}),
    ("id_atu", "re:element\\.id = f?'ATU_", "(id : Nat)", {}),
]
for ln, pre, binders, ex in _IDS:
    nm = {n: (n, "nat") for n in ("id", "avs_id", "block_id", "type_id", "track_id")}
    KERNELS.append(Kernel("C08", KernelSpec(
        _GI, "generate_ids", ln, binders, "List Char", strings=True, names=nm, exprs=ex, select=dict(value_of=pre),
        notes="the right-hand side of the statement matching `%s`: str.format through the Digits model ({x:04X} = hexPad 4 x)" % pre[3:]),
        [ln + "_eq_model"]))
_STARTS = [  # lean name, `for` statement prefix
    ("ids_start_apr", "for id, element in enumerate(adm.audioProgrammes"),
    ("ids_start_aco", "for id, element in enumerate(adm.audioContents"),
    ("ids_start_ao", "for id, element in enumerate(adm.audioObjects"),
    ("ids_start_avs", "for avs_id, avs in enumerate("),
    ("ids_start_ap", "for id, element in enumerate(non_common(adm.audioPackFormats)"),
    ("ids_start_ac", "for id, element in enumerate(non_common(adm.audioChannelFormats)"),
    ("ids_start_ab", "for block_id, block in enumerate("),
    ("ids_start_as", "for id, element in enumerate(non_common(adm.audioStreamFormats)"),
    ("ids_start_at", "for track_id, element in enumerate("),
    ("ids_start_atu", "for id, element in enumerate(adm.audioTrackUIDs"),
]
for ln, pre in _STARTS:
    KERNELS.append(Kernel("C08", KernelSpec(
        _GI, "generate_ids", ln, "", "Nat", select=dict(value_of=pre, arg_of="enumerate", arg_index=1),
        ret_wrap={}, notes="the start value of `%s, <start>)`" % pre), [ln + "_eq_model", "ids_starts_generate"]))

for _k in KERNELS[_N0:]:
    _k.group = "KernelsAdm"

_N0 = len(KERNELS)
# ---------------- C07: pack_allocation
_PA = "ear/core/select_items/pack_allocation.py"
_SU = "ear/core/select_items/utils.py"
_IN_BY_ID = {"in_by_id": dict(lean="Earverif.Gen.in_by_id", args=["id", "list:id"], ret="bool")}
_PA_NS = "Earverif.PackAlloc."
KERNELS += [
    Kernel(("C07", "C06", "C14"), KernelSpec(
        _SU, "in_by_id", "in_by_id", "(element : Nat) (collection : List Nat)", "Bool",
        names={"element": ("element", "id"), "collection": ("collection", "list:id")},
        notes="objects are identity tokens (Nat), `is` is equality of tokens"), ["in_by_id_eq_model"]),
    Kernel("C07", KernelSpec(
        _PA, "_is_compatible", "is_compatible", "(track : %sTrackRef) (c : %sChannel)" % (_PA_NS, _PA_NS), "Bool",
        optionals=[Optional_("track", "track", "t", {"track.channel_format": ("t.cf", "id"), "track.pack_format": ("t.pf", "id")})],
        exprs={"alloc_channel.channel_format": ("c.cf", "id"), "alloc_channel.pack_formats": ("c.pfs", "list:id")},
        calls=_IN_BY_ID, notes="in_by_id is the translated kernel Gen.in_by_id"), ["is_compatible_eq_model"]),
    Kernel("C07", KernelSpec(
        _PA, "_allocate_packs_impl.could_possibly_allocate", "could_possibly_allocate",
        "(tracks : List %sTrackRef) (refs : Option (List Nat)) (remaining : Nat) (p : %sPack)" % (_PA_NS, _PA_NS), "Bool",
        names={"tracks": ("tracks", "list:obj:TrackRef"), "remaining_in_partial": ("remaining", "nat")},
        exprs={"pack.channels": ("p.channels", "list:obj:Channel"), "pack.root_pack": ("p.root", "id")},
        optionals=[Optional_("pack_refs", "refs", "r", {"pack_refs": ("r", "list:id")})],
        calls=dict(_IN_BY_ID, _is_compatible=dict(lean="Earverif.Gen.is_compatible", args=["obj:TrackRef", "obj:Channel"], ret="bool")),
        local_kinds={"n_found": "nat"},
        notes="nested function; closes over tracks, pack_refs, remaining_in_partial (parameters here); the counting loop is a "
              "left fold; `len(tracks) - remaining_in_partial` is an Int subtraction (the model's is truncated: see the theorem)"),
        ["could_possibly_allocate_count", "could_possibly_allocate_eq_model"]),
    Kernel("C07", KernelSpec(
        _PA, "_allocate_packs_impl", "fail_early_test", "(tracks : List %sTrackRef) (remaining : Nat)" % _PA_NS, "Bool",
        names={"tracks": ("tracks", "list:obj:TrackRef"), "remaining_in_partial": ("remaining", "nat")},
        select=dict(value_of="re:if .*remaining_in_partial"),
        notes="the test of `if len(tracks) < remaining_in_partial: return`"), ["fail_early_test_eq_model"]),
]

# ---------------- C14: validate.py / matrix.py
_VA = "ear/core/select_items/validate.py"
_MX = "ear/core/select_items/matrix.py"
_V = "Earverif.Validate."
_AV = "Earverif.AdmV."


def _adm(k):
    return "(%sErr.adm %sAdmKind.%s [])" % (_V, _V, k)  # the message (second field) is not translated: see `strip`


_TDEF = {"TypeDefinition.%s" % py: ("%sTypeDef.%s" % (_AV, ln), "tdef")
         for py, ln in (("HOA", "hoa"), ("Objects", "objects"), ("Matrix", "matrix"), ("DirectSpeakers", "directSpeakers"),
                        ("Binaural", "binaural"))}
_FREQ = "{0}.frequency.lowPass is not None or {0}.frequency.highPass is not None"
_RU = _V + "R Unit"
KERNELS += [
    Kernel(("C14", "C06"), KernelSpec(
        _MX, "type_of", "matrix_type_of", "(input output : Option Nat)", "%sR %sMType" % (_V, _V), ret_mode="except",
        exprs={"apf.inputPackFormat": ("input", "option:id"), "apf.outputPackFormat": ("output", "option:id"),
               "Type.DIRECT": (_V + "MType.direct", "mtype"), "Type.ENCODE": (_V + "MType.encode", "mtype"),
               "Type.DECODE": (_V + "MType.decode", "mtype")},
        raises=[("assert", "assert False", "(%sErr.internal %sIntKind.assert)" % (_V, _V))],
        notes="ret_mode except: `assert False` is the model's internal assert error; tied to Validate.typeOf (C14) and to the "
              "branch structure of SelectItems.wrapMatrix (C06)"), ["matrix_type_of_eq_model", "matrix_type_of_wrap_eq_model"]),
    Kernel("C14", KernelSpec(
        _VA, "_validate_non_matrix_pack", "validate_non_matrix_pack", "(p : %sPack)" % _AV, _RU, ret_mode="except", outputs=[],
        exprs={"apf.inputPackFormat": ("p.input", "option:id"), "apf.outputPackFormat": ("p.output", "option:id"),
               "apf.encodePackFormats": ("p.encodePacks", "list:id")},
        raises=[("AdmError", "has inputPackFormat reference", _adm("nmxinput")), ("AdmError", "has outputPackFormat reference", _adm("nmxoutput")),
                ("AdmError", "has encodePackFormat references", _adm("nmxencode"))]), ["validate_non_matrix_pack_eq_model"]),
    Kernel("C14", KernelSpec(
        _VA, "_validate_track_uid_track_or_channel_ref", "validate_track_or_channel", "(d : %sDoc)" % _AV, _RU,
        ret_mode="except", outputs=[], for_each=_V + "forE",
        exprs={"adm.audioTrackUIDs": ("d.trackUIDs", "list:obj:TrackUID"), "atu.audioTrackFormat": ("atu.trackFormat", "option:id"),
               "atu.audioChannelFormat": ("atu.channel", "option:id")},
        raises=[("AdmError", "is not linked to an audioTrackFormat or audioChannelFormat", _adm("tracknone")),
                ("AdmError", "is linked to both", _adm("trackboth"))]), ["forEI_strip", "validate_track_or_channel_eq_model"]),
    Kernel("C14", KernelSpec(
        _VA, "_validate_hoa_channels", "validate_hoa_channels", "(d : %sDoc)" % _AV, _RU,
        ret_mode="except", outputs=[], for_each=_V + "forE", eq_kinds=("tdef",),
        exprs=dict(_TDEF, **{"adm.audioChannelFormats": ("d.channels", "list:obj:Channel"),
                             "audioChannelFormat.type": ("audioChannelFormat.type", "tdef"),
                             "audioChannelFormat.audioBlockFormats": ("audioChannelFormat.blocks", "list:obj:Block"),
                             _FREQ.format("audioChannelFormat"): ("audioChannelFormat.freq", "bool")}),
        raises=[("AdmError", "must have exactly one block format", _adm("hoablocks")), ("AdmError", "must not have frequency information", _adm("hoafreq"))],
        notes="the model's Channel.freq is the whole test `frequency.lowPass is not None or frequency.highPass is not None`"),
        ["forEI_strip", "validate_hoa_channels_eq_model"]),
    Kernel("C14", KernelSpec(
        _VA, "_validate_objects_channels", "validate_objects_channels", "(d : %sDoc)" % _AV, _RU,
        ret_mode="except", outputs=[], for_each=_V + "forE", eq_kinds=("tdef",),
        exprs=dict(_TDEF, **{"adm.audioChannelFormats": ("d.channels", "list:obj:Channel"),
                             "audioChannelFormat.type": ("audioChannelFormat.type", "tdef"),
                             "audioChannelFormat.audioBlockFormats": ("audioChannelFormat.blocks", "list:obj:Block"),
                             _FREQ.format("audioChannelFormat"): ("audioChannelFormat.freq", "bool"),
                             "audioBlockFormat.cartesian != isinstance(audioBlockFormat.position, ObjectCartesianPosition)":
                                 ("audioBlockFormat.cartMismatch", "bool")}),
        raises=[("AdmError", "must not have frequency information", _adm("objfreq")), ("AdmError", "mismatch between cartesian element", _adm("cartesian"))],
        notes="Channel.freq / Block.cartMismatch are the whole tests (see Model/AdmV.lean)"), ["forEI_strip", "validate_objects_channels_eq_model"]),
    Kernel("C14", KernelSpec(
        _VA, "_validate_pack_channel_types", "validate_pack_channel_types", "(d : %sDoc)" % _AV, _RU,
        ret_mode="except", outputs=[], for_each=_V + "forE", eq_kinds=("tdef",),
        exprs={"adm.audioPackFormats": ("d.packs", "list:obj:Pack"), "audioPackFormat.audioChannelFormats": ("audioPackFormat.channels", "list:id"),
               "audioChannelFormat.type": ("(d.chan audioChannelFormat).type", "tdef"), "audioPackFormat.type": ("audioPackFormat.type", "tdef")},
        raises=[("AdmError", "but contains", _adm("packchtype"))],
        notes="references are indices in the model: audioChannelFormat.type is (d.chan i).type"), ["forE_strip", "forEI_strip", "validate_pack_channel_types_eq_model"]),
    Kernel("C14", KernelSpec(
        _VA, "_validate_pack_subpack_types", "validate_pack_subpack_types", "(d : %sDoc)" % _AV, _RU,
        ret_mode="except", outputs=[], for_each=_V + "forE", eq_kinds=("tdef",),
        exprs={"adm.audioPackFormats": ("d.packs", "list:obj:Pack"), "audioPackFormat.audioPackFormats": ("audioPackFormat.packs", "list:id"),
               "sub_audioPackFormat.type": ("(d.pack sub_audioPackFormat).type", "tdef"), "audioPackFormat.type": ("audioPackFormat.type", "tdef")},
        raises=[("AdmError", "but contains", _adm("subpacktype"))]), ["forE_strip", "forEI_strip", "validate_pack_subpack_types_eq_model"]),
    Kernel("C14", KernelSpec(
        _VA, "_validate_track_channel_ref_only_in_v2", "validate_v2_refs", "(d : %sDoc)" % _AV, _RU,
        ret_mode="except", outputs=[],
        exprs={"adm.version is None or version_at_least(adm.version, 2)": ("d.v2Allowed", "bool"),
               "adm.audioTrackUIDs": ("d.trackUIDs", "list:obj:TrackUID"), "atu.audioChannelFormat": ("atu.channel", "option:id")},
        raises=[("AdmError", "are not valid before BS.2076-2", _adm("v2ref"))],
        notes="Doc.v2Allowed is the whole right-hand side of `v2_allowed = ...`"), ["validate_v2_refs_eq_model"]),
    Kernel("C14", KernelSpec(
        _VA, "_validate_matrix_channel", "matrix_channel_blocks_test", "(c : %sChannel)" % _AV, "Bool",
        exprs={"acf.audioBlockFormats": ("c.blocks", "list:obj:Block")}, select=dict(value_of="re:if .*len\\(acf\\.audioBlockFormats\\)"),
        notes="the test of `if len(acf.audioBlockFormats) != 1:`"), ["matrix_channel_blocks_test_eq_model"]),
    Kernel("C14", KernelSpec(
        _VA, "validate_selected_audioTrackUID", "selected_track_checks", "(u : %sTrackUID)" % _AV, _RU, ret_mode="except", outputs=[],
        exprs={"audioTrackUID.trackIndex": ("u.trackIndex", "option:nat"), "audioTrackUID.audioPackFormat": ("u.pack", "option:id")},
        select=dict(range=("re:if .*audioTrackUID\\.trackIndex", "re:if .*audioTrackUID\\.audioTrackFormat is")),
        raises=[("AdmError", "does not have a track index", _adm("noindex")), ("AdmError", "does not have an audioPackFormat", _adm("nopack"))],
        notes="range: the first two checks (track index, pack reference)"), ["selected_track_checks_eq_model"]),
]

# ---------------- C06: select_items.py / hoa.py
_SI = "ear/core/select_items/select_items.py"
_HO = "ear/core/select_items/hoa.py"
KERNELS += [
    Kernel("C06", KernelSpec(
        _HO, "get_nfcRefDist", "get_nfcRefDist", "(v : Option Rat)", "Option Rat", names={"nfcRefDist": ("v", "option:rat")},
        select=dict(value_of="return "),
        notes="the returned conditional; nfcRefDist = the value of _get_pack_param(...) (None or a number)"),
        ["get_nfcRefDist_eq_model"]),
    Kernel("C06", KernelSpec(
        _SI, "_PackAllocator.get_track_spec", "get_track_spec", "(u : Option Nat)", "Earverif.Adm.TSpec",
        optionals=[Optional_("allocation_track_uid", "u", "ti", {"allocation_track_uid.track_uid.trackIndex": ("ti", "nat")})],
        ctors={("DirectTrackSpec", 1): "(Earverif.TrackSpec.Spec.direct {0})", ("SilentTrackSpec", 0): "Earverif.TrackSpec.Spec.silent"},
        notes="u = the track index of the allocated track UID (None: silent)"), ["get_track_spec_eq_model"]),
    Kernel("C06", KernelSpec(
        _SI, "_PackAllocator.get_selected_packs_tracks_silent", "silent_tracks", "(tracks : List (Option Nat)) (real : List Nat)", "Int",
        names={"real_track_uids": ("real", "list:id")}, exprs={"obj.audioTrackUIDs": ("tracks", "list:obj:OptNat")},
        select=dict(targets=["silent_tracks"], guard=False, inputs=["real_track_uids", "obj"]),
        notes="slice: silent_tracks = len(obj.audioTrackUIDs) - len(real_track_uids)"),
        ["silent_tracks_eq_model", "silent_tracks_allocProblem"]),
    Kernel("C06", KernelSpec(
        _SI, "_select_programme", "select_programme", "(ps : List Earverif.Adm.Programme) (given : Option Nat)", "Option Nat",
        optionals=[Optional_("audio_programme", "given", "p", {"audio_programme": ("(some p)", "option:id")})],
        exprs={"state.adm.audioProgrammes": ("ps", "list:obj:Programme"),
               "min(state.adm.audioProgrammes, key=lambda programme: programme.id)": ("(Earverif.Adm.minById ps)", "option:id"),
               "state.adm.audioProgrammes[0]": ("(some 0)", "option:id"),
               "in_by_id(audio_programme, state.adm.audioProgrammes)": ("true", "true")},
        ctors={"evolve": ("kw", "audioProgramme")},
        notes="value = the audioProgramme field of the returned state (position in adm.audioProgrammes); min(..., key=id) is "
              "the model's minById, [0] is position 0; the assert is the driver's range check (see the model)"),
        ["select_programme_eq_model"]),
    Kernel("C06", KernelSpec(
        _SI, "_select_only_selected_complementary", "only_selected_test", "(objPath : Option (List Nat)) (ign : List Nat)", "Bool",
        optionals=[Optional_("state.audioObjects", "objPath", "p", {"state.audioObjects": ("p", "list:id")})],
        names={"objects_to_ignore": ("ign", "list:id")}, calls=_IN_BY_ID, select=dict(value_of="if state.audioObjects is None or"),
        notes="the test under which the state is yielded"), ["only_selected_test_eq_model"]),
]
for _k in KERNELS[_N0:]:
    _k.group = "KernelsSel"

# What the body of a function does not show, pinned per kernel (translate.py refuses a function whose decorator list or
# parameter defaults differ from its spec: a decorator can replace the function, a default is what a caller that omits
# the argument computes).  Kernels not listed here have neither decorators nor defaults.
_CM, _WD, _CB = ["classmethod"], ["options.with_defaults"], ["callback=_print_warning"]
_PINS = {
    "seek": dict(defaults=["whence=0"]),
    "interp_p": dict(decorators=["_interp_p.default"]),  # attrs default method
    "interp_length": dict(decorators=_CM), "single_balance_pan": dict(decorators=["staticmethod"]),
    "decorrelator_delay": dict(decorators=_WD), "hoa_output_channels": dict(decorators=_WD),
    "map_az_to_linear": dict(decorators=_CM), "map_linear_to_az": dict(decorators=_CM), "extent_mod": dict(decorators=_CM),
    "from_fraction": dict(decorators=_CM), "get_track_spec": dict(decorators=_CM),
    "inside_angle_range": dict(defaults=["tol=0.0"]), "inside_angle_range_rat": dict(defaults=["tol=0.0"]),
    "inside_angle_range_ds": dict(defaults=["tol=0.0"]),
    # the timing-fix kernels are the fix=True paths (`fix` is mapped to the constant true); the default is the caller's
    "check_duration": dict(defaults=["fix=False"]), "clamp_end": dict(defaults=["fix=False"]),
    "clamp_il": dict(defaults=["fix=False"]), "il_gt_duration_test": dict(defaults=["fix=False"]),
    "lock_tol": dict(defaults=["excluded=None"]), "lock_possible_test": dict(defaults=["excluded=None"]),
    "lock_closest_test": dict(defaults=["excluded=None"]),
    "block_alignment": dict(decorators=["property"]), "bytes_per_second": dict(decorators=["property"]),
    "el_range_test": dict(defaults=_CB), "upmix_unmapped_test": dict(defaults=_CB), "upmix_multi_out_test": dict(defaults=_CB),
    "upmix_row_multi_test": dict(defaults=_CB),
    "select_programme": dict(defaults=["audio_programme=None"]),
}
for _k in KERNELS:
    _pin = _PINS.get(_k.lean_name, {})
    _k.spec.decorators = list(_pin.get("decorators", _k.spec.decorators))
    _k.spec.defaults = list(_pin.get("defaults", _k.spec.defaults))
assert set(_PINS) <= {k.lean_name for k in KERNELS}

# Looked at and not registered: the translator refuses them on the unchanged tree (kept here so that the
# self-test shows the refusal message).
NOT_REGISTERED = [
    ("C04", KernelSpec("ear/cmdline/render_file.py", "OfflineRenderDriver.output_gain_linear", "output_gain_linear",
                       "(db : Rat)", "Rat", exprs={"self.output_gain_db": ("db", "rat")}, decorators=["property"]),
     "10.0 ** (db / 20.0): exponentiation with a non-literal exponent is not rational arithmetic"),
    ("C13", KernelSpec("ear/core/objectbased/gain_calc.py", "AlloChannelLockHandler.get_weighted_distances", "weighted_distances",
                       "(p c : List Rat)", "Rat", names={"position": ("p", "vec:rat"), "channel_positions": ("c", "vec:rat")}),
     "np.array([1.0 / 16, 4, 32]) and np.sum(..., axis=1): array construction / axis reductions are outside the whitelist "
     "(the model's distW writes the three terms out by hand)"),
    ("C08", KernelSpec("ear/fileio/adm/generate_ids.py", "generate_ids", "generate_ids", "", "Unit"),
     "for loops over generator calls with attribute assignment to every element: not a kernel as a whole (its ten format "
     "expressions and ten counter start values are separate kernels)"),
    ("C08", KernelSpec("ear/fileio/adm/time_format.py", "FractionalTime.__repr__", "ft_repr", "(n d : Nat)", "List Char", strings=True,
                       exprs={"self.format_numerator": ("n", "nat"), "self.format_denominator": ("d", "nat")}),
     "f-string field `{self.__class__.__name__}`: an attribute outside the kernel's map (a string that is not a number "
     "formatted through the Digits model)"),
    ("C08", KernelSpec("ear/fileio/adm/time_format.py", "_unparse_decimal", "unparse_decimal", "(time : Rat)", "List Char", strings=True,
                       names={"time": ("time", "rat")}),
     "Decimal.as_tuple(), three-way tuple assignment, str.join over a generator: outside the whitelist"),
    ("C07", KernelSpec("ear/core/select_items/utils.py", "index_by_id", "index_by_id", "(x : Nat) (l : List Nat)", "Option Nat",
                       names={"element_to_find": ("x", "id"), "collection": ("l", "list:id")}, ret_mode="option"),
     "`for i, element in enumerate(collection)`: enumerate / a tuple loop target / `return` inside a loop are outside the whitelist"),
    ("C14", KernelSpec("ear/core/select_items/validate.py", "_find_object_for_avs", "find_object_for_avs", "(a : Nat) (objs : List Nat)",
                       "Option Nat", names={"avs": ("a", "id"), "objects": ("objs", "list:id")}, ret_mode="option"),
     "a `for` loop that returns its first match: neither a raising loop of an `except` kernel nor an accumulating fold"),
    ("C14", KernelSpec("ear/core/select_items/validate.py", "possible_audioTrackUID_errors", "possible_track_errors", "", "Bool",
                       select=dict(value_of="if not any((pack_channel is track_channel")),
     "any() over two `for` clauses"),
    ("C14", KernelSpec("ear/core/select_items/validate.py", "_validate_non_matrix_pack", "validate_non_matrix_pack_unmapped",
                       "(p : Earverif.AdmV.Pack)", "Earverif.Validate.R Unit", ret_mode="except", outputs=[],
                       exprs={"apf.inputPackFormat": ("p.input", "option:id"), "apf.outputPackFormat": ("p.output", "option:id"),
                              "apf.encodePackFormats": ("p.encodePacks", "list:id")},
                       raises=[("AdmError", "has inputPackFormat reference", "e1"), ("AdmError", "reference", "e2")]),
     "a `raise` that two (or no) entries of the kernel's `raises` match is refused (the error kind must be unambiguous)"),
    ("C06", KernelSpec("ear/core/select_items/select_items.py", "_get_alternativeValueSet", "get_avs", "", "Option Nat"),
     "bare `return`, `continue`, a loop over a tuple display: outside the whitelist"),
]

ALL = [(p, k.spec.file, k.spec.qualname, k.spec.lean_name, list(k.theorems)) for k in KERNELS for p in k.pids]

_GEN_DOC = """/-
GENERATED on every run by harness/kernels.py (translator: harness/translate.py) from the Python SOURCE of the
functions named below, read from the repository checkout with `ast`.  DO NOT EDIT; not under version control.
Each def is what the source says *now*; %s proves each equal to the hand-written model def.
A def of type `Refused` means the function left the translator's whitelist (reason in the comment).
Floats are exact rationals/reals (as in the models).
-/
"""

HEADER = _GEN_DOC % "Props/Kernels.lean" + """import Earverif.Model.GainCalc
import Earverif.Model.Bw64Cursor
import Earverif.Model.Bw64Reader
import Earverif.Model.Timeline
import Earverif.Model.Conversion
import Earverif.Model.PointSource
import Earverif.Model.DirectSpeakersGeom
import Earverif.Model.Hoa
import Earverif.Model.ChannelLock
set_option linter.unusedVariables false
namespace Earverif.Gen
open Earverif.Cursor (Cfg)
open Earverif.Timeline (Ext)

/-- Marker type of a kernel the translator refused. -/
inductive Refused where
  | refused

/-- `math.trunc` of a `Fraction` (rounds toward zero). -/
def pyTrunc (x : Rat) : Int := if 0 ≤ x then x.floor else -((-x).floor)

"""

_HEADER_SEL = _GEN_DOC % "Props/KernelsSel.lean" + """import Earverif.Model.PackAlloc
import Earverif.Model.Validate
import Earverif.Model.SelectItems
set_option linter.unusedVariables false
namespace Earverif.Gen

/-- Marker type of a kernel the translator refused. -/
inductive RefusedSel where
  | refused

"""

_HEADER_ADM = _GEN_DOC % "Props/KernelsAdm.lean" + """import Earverif.Model.TimeFormat
import Earverif.Model.GenIds
set_option linter.unusedVariables false
namespace Earverif.Gen

/-- Marker type of a kernel the translator refused. -/
inductive RefusedAdm where
  | refused

"""

# group -> generated file, proof module, header of the generated file, name of the stub type
GROUPS = {
    "Kernels": dict(gen=GEN_PATH_REL, props=PROPS_MODULE, header=HEADER, stub="Refused"),
    "KernelsSel": dict(gen=os.path.join("Earverif", "Gen", "KernelsSel.lean"), props="Earverif.Props.KernelsSel",
                       header=_HEADER_SEL, stub="RefusedSel"),
    "KernelsAdm": dict(gen=os.path.join("Earverif", "Gen", "KernelsAdm.lean"), props="Earverif.Props.KernelsAdm",
                       header=_HEADER_ADM, stub="RefusedAdm"),
}
assert all(k.group in GROUPS for k in KERNELS)
assert len({k.lean_name for k in KERNELS}) == len(KERNELS), "kernel names must be unique across the groups"


def group_of(pid):
    """the group that holds the kernels of property `pid` (None if it has none); one group per property"""
    gs = sorted({k.group for k in KERNELS if pid in k.pids})
    assert len(gs) <= 1, "kernels of %s are spread over the groups %s" % (pid, gs)
    return gs[0] if gs else None


assert all(group_of(p) for k in KERNELS for p in k.pids)
_ACTIVE = None  # the group of the property being checked (set by `obligations`); None = all groups


def _groups(groups=None):
    if groups is not None:
        return [groups] if isinstance(groups, str) else list(groups)
    return [_ACTIVE] if _ACTIVE else list(GROUPS)


def _props_rel(group):
    return os.path.join(*GROUPS[group]["props"].split(".")) + ".lean"


def _comment_safe(s):
    return s.replace("-/", "- /").replace("/-", "/ -")


def _render_one(k, repo):
    """(lean text of this kernel's block, refused reason or None)"""
    sp = k.spec
    sha = None
    try:
        sha = function_source(os.path.join(repo, sp.file), sp.qualname)[2]  # also when the translation is refused
        text, sha = translate(sp, repo)
        reason = None
    except Refuse as e:
        text, reason = None, str(e)
    except (OSError, SyntaxError) as e:
        text, reason = None, "cannot read/parse %s: %s" % (sp.file, e)
    head = "/- %s :: %s   [%s]\n   source sha256: %s%s -/\n" % (
        sp.file, sp.qualname, k.pid, sha or "unavailable", ("\n   " + _comment_safe(sp.notes)) if sp.notes else "")
    if reason is not None:
        head += "/- REFUSED by the translator: %s -/\n" % _comment_safe(reason)
        text = "def %s : %s := .refused\n" % (sp.lean_name, GROUPS[k.group]["stub"])
    return head + text + "\n", reason


def render(repo=None, overrides=None, group="Kernels"):
    """Text of one group's generated module; `overrides` = {lean_name: reason} forces a stub (used by the type-check
    pass).  Returns (text, {lean_name: refusal reason})."""
    repo = repo or common.REPO
    g = GROUPS[group]
    out, refused = [g["header"]], {}
    for k in KERNELS:
        if k.group != group:
            continue
        block, reason = _render_one(k, repo)
        if reason is None and overrides and k.lean_name in overrides:
            reason = overrides[k.lean_name]
            sp = k.spec
            block = "/- %s :: %s   [%s]\n   NOT WELL-TYPED after translation: %s -/\ndef %s : %s := .refused\n\n" % (
                sp.file, sp.qualname, k.pid, _comment_safe(reason), sp.lean_name, g["stub"])
        if reason is not None:
            refused[k.lean_name] = reason
        out.append(block)
    out.append("end Earverif.Gen\n")
    return "".join(out), refused


def _lean_errors(relpath, text=None):
    """Elaborate one file of the Lean project with `lake env lean` (imports must be built).
    Returns (list of (line, message), raw output) or (None, raw) when the tool could not run."""
    path = os.path.join(common.LEAN, relpath) if relpath else None
    tmp = None
    if text is not None:
        tmp = os.path.join(common.LEAN, ".lake", "kernels_check_%d.lean" % os.getpid())
        os.makedirs(os.path.dirname(tmp), exist_ok=True)
        with open(tmp, "w") as f:
            f.write(text)
        path = tmp
    try:
        with common.LakeLock():
            p = subprocess.run(["lake", "env", "lean", path], cwd=common.LEAN, capture_output=True, text=True, timeout=900)
    except (OSError, subprocess.TimeoutExpired) as e:
        return None, str(e)
    finally:
        if tmp and os.path.exists(tmp):
            os.remove(tmp)
    out = p.stdout + p.stderr
    errs = []
    for m in re.finditer(r"^[^\n:]*:(\d+):(\d+): error:? ?(.*(?:\n(?![^\n:]*:\d+:\d+: ).*)*)", out, re.M):
        errs.append((int(m.group(1)), m.group(3).strip()))
    if p.returncode != 0 and not errs:
        return None, out
    return errs, out


def _def_ranges(text, names, keyword="def", loops=False):
    """{name: (first line, last line)} of the top-level `def name` blocks (up to the next block comment/def)."""
    lines = text.split("\n")
    starts = []
    for i, l in enumerate(lines, 1):
        m = re.match(r"(?:private\s+|protected\s+)?(?:%s)\s+([\w.']+)" % keyword, l)
        if m:
            starts.append((i, m.group(1)))
    res = {}
    for j, (i, n) in enumerate(starts):
        end = starts[j + 1][0] - 1 if j + 1 < len(starts) else len(lines)
        if n in names or (loops and re.sub(r"_loop\d+$", "", n) in names):
            res[n] = (i, end)
    return res


def extract(typecheck=True, groups=None):
    """Regenerate the generated modules from `common.REPO` (of the active property's group when called from
    `run_check`, else of all groups).  A kernel whose translation is not well-typed Lean (e.g. the edited function now
    returns a number where a boolean was returned) is turned into a stub as well, so that the generated module always
    builds and exactly that kernel's theorem breaks."""
    for group in _groups(groups):
        mine = {k.lean_name for k in KERNELS if k.group == group}
        text, refused = render(group=group)
        allbad = {}
        path = os.path.join(common.LEAN, GROUPS[group]["gen"])
        try:
            unchanged = open(path).read() == text
        except OSError:
            unchanged = False
        # the text on disk went through this pass when it was written: only a changed translation is elaborated here
        # (should a changed *model* make the unchanged text ill-typed, the build of the generated module says so)
        if typecheck and not unchanged:
            for _ in range(3):
                errs, raw = _lean_errors(None, text)
                if not errs:  # None (tool unavailable: leave as is, the build will tell) or no errors
                    break
                ranges = _def_ranges(text, mine, loops=True)
                bad = {}
                for line, msg in errs:
                    for n, (a, b) in ranges.items():
                        if a <= line <= b:
                            n = re.sub(r"_loop\d+$", "", n)  # auxiliary loop defs belong to their kernel
                            bad.setdefault(n, " ".join(x.strip() for x in msg.split("\n"))[:300])
                if not bad:
                    break
                allbad.update(bad)
                text, refused = render(overrides=allbad, group=group)
        common.write_if_changed(path, text)
    return None


def refusals(groups=None):
    """{lean def name: reason} for the current `common.REPO` (translator level only)."""
    out = {}
    for group in _groups(groups):
        out.update(render(group=group)[1])
    return out


# The size of the obligation list is pinned: a kernel that is dropped (or a property that loses one) must be a visible edit
# of these tables, never a silently shorter list.  Per group: number of kernels; per property: number of kernels that
# carry its id and number of distinct theorems they contribute.
EXPECTED = {"Kernels": 65, "KernelsSel": 19, "KernelsAdm": 25}  # 109 kernels, two of them (to_acn, from_acn) of no property
EXPECTED_PID = {  # property: (kernels, distinct theorems)
    "C01": (6, 6), "C02": (7, 5), "C03": (4, 5), "C04": (6, 4), "C05": (1, 1), "C06": (7, 9), "C07": (4, 5), "C08": (25, 27),
    "C09": (9, 11), "C10": (3, 4), "C11": (1, 1), "C12": (1, 1), "C13": (7, 9), "C14": (11, 14), "C15": (5, 5), "C16": (2, 4),
    "C17": (9, 11), "C18": (7, 7), "C19": (6, 9), "C20": (1, 1),
}


def _counts():
    per_group = {g: sum(1 for k in KERNELS if k.group == g) for g in GROUPS}
    per_pid = {}
    for k in KERNELS:
        for p in k.pids:
            n, th = per_pid.get(p, (0, set()))
            per_pid[p] = (n + 1, th | set(k.theorems))
    return per_group, {p: (n, len(th)) for p, (n, th) in per_pid.items()}


def check_counts():
    per_group, per_pid = _counts()
    if per_group != EXPECTED:
        raise AssertionError("kernel count per group is %r, expected %r (harness/kernels.py EXPECTED)" % (per_group, EXPECTED))
    if per_pid != EXPECTED_PID:
        diff = {p: (per_pid.get(p), EXPECTED_PID.get(p)) for p in set(per_pid) | set(EXPECTED_PID) if per_pid.get(p) != EXPECTED_PID.get(p)}
        raise AssertionError("kernels/theorems per property differ from EXPECTED_PID (found, expected): %r" % (diff,))


def obligations(pid):
    """(proof module of the property's group, theorem names); the following extract()/status() calls of this process
    are then about that group only."""
    global _ACTIVE
    check_counts()
    th = [THM_NS + t for k in KERNELS if pid in k.pids for t in k.theorems]
    th = list(dict.fromkeys(th))
    if not th:
        return None
    _ACTIVE = group_of(pid)
    return (GROUPS[_ACTIVE]["props"], th)


def status(groups=None):
    """Elaborate the proof modules against the built generated modules (build `Earverif.Gen.Kernels*` first) and report
    per theorem: {theorem name (short and fully qualified): None if it checks, else first error line}.  Unlike a failed
    `lake build` this says which kernels' equalities broke and which still hold.  Returns None if a file could not be
    elaborated."""
    res = {}
    for group in _groups(groups):
        rel = _props_rel(group)
        errs, raw = _lean_errors(rel)
        if errs is None:
            return None
        text = open(os.path.join(common.LEAN, rel)).read()
        names = {t for k in KERNELS if k.group == group for t in k.theorems}
        ranges = _def_ranges(text, names, keyword="theorem|def|lemma|example")
        for n in names:
            res[n] = None if n in ranges else "theorem missing from %s" % rel
        for line, msg in errs:
            owner = None
            for n, (a, b) in ranges.items():
                if a <= line <= b:
                    owner = n
            if owner is None:
                # an import / helper definition failed: nothing after it was checked as stated
                for n, (a, b) in ranges.items():
                    if a > line and res.get(n) is None:
                        res[n] = "not checked: %s line %d failed: %s" % (rel, line, msg.split("\n")[0][:200])
                owner = "<outside the registered theorems, %s line %d>" % (rel, line)
            if res.get(owner) is None:
                res[owner] = msg.split("\n")[0][:300]
    # keys: the short theorem names and the fully qualified ones (what `obligations` returns)
    for n in list(res):
        if not n.startswith("<"):
            res[THM_NS + n] = res[n]
    return res


def check(groups=None):
    """extract + build + per-theorem status, as a dict (used by tools/kernels_selftest.py and handy by hand:
    `EAR_REPO=<checkout> /venv/bin/python -m harness.kernels check [group ...]`)."""
    import time

    gs = _groups(groups)
    t0 = time.time()
    extract(groups=gs)
    t1 = time.time()
    gen_mods = [GROUPS[g]["gen"][:-5].replace(os.sep, ".") for g in gs]
    ok_gen, out_gen = common.lake_build(gen_mods)
    ok, out = common.lake_build([GROUPS[g]["props"] for g in gs])
    t2 = time.time()
    st = status(groups=gs) if ok_gen else None
    stubs = []
    for g in gs:
        gen_text = open(os.path.join(common.LEAN, GROUPS[g]["gen"])).read()
        stubs += [k.lean_name for k in KERNELS if k.group == g
                  and re.search(r"^def %s : %s" % (re.escape(k.lean_name), GROUPS[g]["stub"]), gen_text, re.M)]
    return {
        "repo": common.REPO,
        "groups": gs,
        "gen_builds": ok_gen,
        "props_build": ok,
        "first_error": None if ok else common._first_error(out),
        "failing": None if st is None else sorted(t for t, e in st.items() if e is not None and not t.startswith(THM_NS)),
        "detail": None if st is None else {t: e for t, e in st.items() if e is not None and not t.startswith(THM_NS)},
        "refused": refusals(groups=gs),
        "stubs": sorted(stubs),
        "extract_s": round(t1 - t0, 2),
        "build_s": round(t2 - t1, 2),
    }


if __name__ == "__main__":
    import json
    import sys

    if len(sys.argv) > 1 and sys.argv[1] == "print":
        for g in (sys.argv[2:] or list(GROUPS)):
            sys.stdout.write(render(group=g)[0])
    elif len(sys.argv) > 1 and sys.argv[1] == "check":
        print(json.dumps(check(sys.argv[2:] or None), indent=1))
    else:
        extract()
        for n, r in refusals().items():
            print("REFUSED %s: %s" % (n, r))
        for g in GROUPS:
            print("wrote", os.path.join(common.LEAN, GROUPS[g]["gen"]))
