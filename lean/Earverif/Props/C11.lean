/-
C11 — HOA decoding is invariant to channel order and normalisation convention.

Property theorems about the model `Earverif/Model/Hoa.lean` (transliteration of `hoa.allrad_design`,
`HOADecoderDesign.design`, the `HOARenderer` routing and the norm/ACN helpers) over ℝ.
Two layers:
* abstract: `G` (panner on the t-design), `Y` (N3D harmonics of the pack's channels), the norm vectors, the per-order
  maxRE table and the gains are arbitrary; the hypothesis `NonDegenerate` (Proofs/C11.lean) says that every
  denominator of the computation is non-zero (over ℝ `x/0 = 0` would otherwise make the statements true where the
  `Float` model returns NaN); `nonDegenerate_of_indep` derives it from conditions on `G`, `Y` and the norm factors;
* concrete (`designPack`): `Y = sph_harm(…, norm_N3D)` from the model of `hoa.sph_harm` (closed-form Legendre
  recurrence), norm vectors from the model of `norm_N3D/SN3D/FuMa` — channels with `|degree| ≤ order`.

Not proved (searched on the real code instead): finiteness in binary64 (over ℝ every value is "finite"; the theorems
state where no division by zero happens); the panner `G_virt`, the t-design and the maxRE table are parameters; scipy's
`lpmv`/`factorial` are modelled in closed form and tied by the correspondence.
-/
import Earverif.Proofs.C11
import Earverif.Proofs.C11Sph
import Earverif.Gen.C11_Tables

namespace Earverif.Hoa

variable {L C P : Nat}

/-! ### Channel order -/

/-- **Permuting the pack's channels permutes the decoder's columns and changes nothing else.**
`permV σ` lists the channels in another order (rows of `Y`, both norm vectors, the orders used for the maxRE
table and the gains all move together); for every option set, gains and mute flag, column `c` of the new
decoder is column `σ c` of the old one, and the permuted computation divides by zero nowhere either.
(The equality itself also holds without `hnd` over ℝ — there only because `x/0 = 0`; on `Float` both sides are then
NaN.) -/
theorem design_perm (σ : Equiv.Perm (Fin C)) (o : Opts) (G : Mat ℝ L P) (Y : Mat ℝ C P)
    (nN3D nrm : Vector ℝ C) (ord : Vector Nat C) (coef : Nat → ℝ) (gains : Vector ℝ C) (og : ℝ) (mute : Bool)
    (hnd : NonDegenerate o G Y nN3D nrm ord coef) :
    NonDegenerate o G (permV σ Y) (permV σ nN3D) (permV σ nrm) (permV σ ord) coef ∧
    ∀ (l : Fin L) (c : Fin C),
      (design o G (permV σ Y) (permV σ nN3D) (permV σ nrm) (permV σ ord) coef (permV σ gains) og mute).at l c
        = (design o G Y nN3D nrm ord coef gains og mute).at l (σ c) := by
  refine ⟨hnd.perm σ, fun l c => ?_⟩
  rw [design_eq, design_eq, wOpt_perm, designW_at, designW_at, d1_perm, meanPow_perm, permV_get]

/-! ### Normalisation convention -/

/-- the non-zero-denominator conditions carry over to any other convention with non-zero factors -/
theorem NonDegenerate.change_norm {o : Opts} {G : Mat ℝ L P} {Y : Mat ℝ C P} {nN3D nrm₁ : Vector ℝ C}
    {ord : Vector Nat C} {coef : Nat → ℝ} (h : NonDegenerate o G Y nN3D nrm₁ ord coef) (nrm₂ : Vector ℝ C)
    (h₂ : ∀ c : Fin C, nrm₂[c.1] ≠ 0) : NonDegenerate o G Y nN3D nrm₂ ord coef :=
  ⟨h.points, h.fro, h.hn3d, h₂, h.sumsq, fun ho => by
    rw [← meanPow_norm_free G Y nN3D nrm₁ nrm₂ _ h.hn3d h.hnrm h₂]; exact h.meanPow ho⟩

/-- **decoder₁ · diag(nrm₁) = decoder₂ · diag(nrm₂)** for any two conventions whose per-channel factors are
non-zero, everything else equal (options incl. maxRE, gains, mute). -/
theorem design_norm_invariant (o : Opts) (G : Mat ℝ L P) (Y : Mat ℝ C P) (nN3D nrm₁ nrm₂ : Vector ℝ C)
    (ord : Vector Nat C) (coef : Nat → ℝ) (gains : Vector ℝ C) (og : ℝ) (mute : Bool)
    (hnd : NonDegenerate o G Y nN3D nrm₁ ord coef) (h₂ : ∀ c : Fin C, nrm₂[c.1] ≠ 0)
    (l : Fin L) (c : Fin C) :
    (design o G Y nN3D nrm₁ ord coef gains og mute).at l c * nrm₁[c.1]
      = (design o G Y nN3D nrm₂ ord coef gains og mute).at l c * nrm₂[c.1] := by
  have hN := hnd.hn3d
  have h₁ := hnd.hnrm
  rw [design_eq, design_eq, designW_at, designW_at, meanPow_norm_free G Y nN3D nrm₁ nrm₂ _ hN h₁ h₂]
  have e : ∀ (b : Vector ℝ C) (w : Option (Vector ℝ C)), b[c.1] ≠ 0 →
      d1 G Y nN3D b w l c * b[c.1] = d0 G Y l c * sc G Y * nN3D[c.1] * wOf w c := by
    intro b w hb
    unfold d1
    field_simp
  set W := wOpt (L := L) o coef ord with hW
  have e₁ := e nrm₁ W (h₁ c)
  have e₂ := e nrm₂ W (h₂ c)
  split
  · linear_combination
      ((gains[c.1] * (if mute then 0 else og)) / Real.sqrt (meanPow G Y nN3D nrm₂ W)) * e₁
      - ((gains[c.1] * (if mute then 0 else og)) / Real.sqrt (meanPow G Y nN3D nrm₂ W)) * e₂
  · linear_combination (gains[c.1] * (if mute then 0 else og)) * e₁ - (gains[c.1] * (if mute then 0 else og)) * e₂

/-- **The same sound field gives identical loudspeaker signals in any two conventions** (N3D, SN3D, FuMa, …):
a sound field with N3D coefficients `x` reads `x c · nrm c / nN3D c` in the pack's convention; every
loudspeaker signal `Σ_c decoder[l,c] · (that)` is the same for both conventions. -/
theorem design_same_signals (o : Opts) (G : Mat ℝ L P) (Y : Mat ℝ C P) (nN3D nrm₁ nrm₂ : Vector ℝ C)
    (ord : Vector Nat C) (coef : Nat → ℝ) (gains : Vector ℝ C) (og : ℝ) (mute : Bool)
    (hnd : NonDegenerate o G Y nN3D nrm₁ ord coef) (h₂ : ∀ c : Fin C, nrm₂[c.1] ≠ 0)
    (x : Fin C → ℝ) (l : Fin L) :
    ∑ c, (design o G Y nN3D nrm₁ ord coef gains og mute).at l c * (x c * nrm₁[c.1] / nN3D[c.1])
      = ∑ c, (design o G Y nN3D nrm₂ ord coef gains og mute).at l c * (x c * nrm₂[c.1] / nN3D[c.1]) := by
  refine Finset.sum_congr rfl fun c _ => ?_
  have h := design_norm_invariant o G Y nN3D nrm₁ nrm₂ ord coef gains og mute hnd h₂ l c
  calc _ = ((design o G Y nN3D nrm₁ ord coef gains og mute).at l c * nrm₁[c.1]) * (x c / nN3D[c.1]) := by ring
    _ = ((design o G Y nN3D nrm₂ ord coef gains og mute).at l c * nrm₂[c.1]) * (x c / nN3D[c.1]) := by rw [h]
    _ = _ := by ring

/-! ### Gains -/

/-- all-ones gain vector -/
def ones (C : Nat) : Vector ℝ C := Vector.replicate C 1

/-- **Linear in the per-channel gains and the object gain**: the decoder is the unit-gain decoder with column
`c` multiplied by `gains[c] · (0 if muted else object gain)`.  (`_hnd`: no division by zero — not needed for the
algebra over ℝ, where `x/0 = 0`, but without it the `Float` model is NaN on both sides.) -/
theorem design_linear_in_gains (o : Opts) (G : Mat ℝ L P) (Y : Mat ℝ C P) (nN3D nrm : Vector ℝ C)
    (ord : Vector Nat C) (coef : Nat → ℝ) (gains : Vector ℝ C) (og : ℝ) (mute : Bool)
    (_hnd : NonDegenerate o G Y nN3D nrm ord coef) (l : Fin L) (c : Fin C) :
    (design o G Y nN3D nrm ord coef gains og mute).at l c
      = (design o G Y nN3D nrm ord coef (ones C) 1 false).at l c * (gains[c.1] * (if mute then 0 else og)) := by
  rw [design_eq, design_eq, designW_at, designW_at]
  simp [ones]

/-- **mute ⇒ 0** wherever the computation divides by zero nowhere (`_hnd`; there the unit-gain decoder is a real
number on `Float` too, so `· 0.0 = 0.0`; in the degenerate cases the real code returns `NaN · 0.0 = NaN`). -/
theorem design_mute_zero (o : Opts) (G : Mat ℝ L P) (Y : Mat ℝ C P) (nN3D nrm : Vector ℝ C)
    (ord : Vector Nat C) (coef : Nat → ℝ) (gains : Vector ℝ C) (og : ℝ)
    (hnd : NonDegenerate o G Y nN3D nrm ord coef) (l : Fin L) (c : Fin C) :
    (design o G Y nN3D nrm ord coef gains og true).at l c = 0 := by
  rw [design_linear_in_gains o G Y nN3D nrm ord coef gains og true hnd]
  simp

/-! ### Mean power -/

/-- `np.mean(np.sum(np.dot(D, K_v) ** 2, axis=0))` for a decoder `D`, with `K_v = diag(nrm/nN3D)·Y` the unit plane
waves from the `P` t-design directions encoded in the pack's convention — the quantity the code normalises. -/
noncomputable def meanPower (D : Mat ℝ L C) (Y : Mat ℝ C P) (nN3D nrm : Vector ℝ C) : ℝ :=
  (∑ p : Fin P, ∑ l : Fin L, (∑ c : Fin C, D.at l c * (nrm[c.1] / nN3D[c.1] * Y.at c p)) ^ 2) / (P : ℝ)

/-- Unit mean power **over the code's `P` sample directions** whenever the option `norm_mean_power` is on (any
maxRE setting) and no denominator is zero: the decoder for unit gains has mean power exactly 1. -/
theorem design_unit_mean_power_nmp (o : Opts) (ho : o.normMeanPower = true) (G : Mat ℝ L P) (Y : Mat ℝ C P)
    (nN3D nrm : Vector ℝ C) (ord : Vector Nat C) (coef : Nat → ℝ)
    (hnd : NonDegenerate o G Y nN3D nrm ord coef) :
    meanPower (design o G Y nN3D nrm ord coef (ones C) 1 false) Y nN3D nrm = 1 := by
  have hden := hnd.meanPow ho
  unfold meanPower
  rw [design_eq]
  set w := wOpt (L := L) o coef ord with hw
  simp only [designW_at, ho, ones, Vector.getElem_replicate, if_true, Bool.false_eq_true, if_false, mul_one]
  have hmp : meanPow G Y nN3D nrm w = (∑ p : Fin P, ∑ l : Fin L,
      (∑ c : Fin C, d1 G Y nN3D nrm w l c * (nrm[c.1] / nN3D[c.1] * Y.at c p)) ^ 2) / (P : ℝ) := by
    unfold meanPow dk
    simp only [pow_two]
  have hpos : 0 < meanPow G Y nN3D nrm w := lt_of_le_of_ne (meanPow_nonneg _ _ _ _ _) (Ne.symm hden)
  have hs : Real.sqrt (meanPow G Y nN3D nrm w) ^ 2 = meanPow G Y nN3D nrm w := Real.sq_sqrt hpos.le
  have inner : ∀ (p : Fin P) (l : Fin L),
      (∑ c : Fin C, d1 G Y nN3D nrm w l c / Real.sqrt (meanPow G Y nN3D nrm w) * (nrm[c.1] / nN3D[c.1] * Y.at c p)) ^ 2
        = (∑ c : Fin C, d1 G Y nN3D nrm w l c * (nrm[c.1] / nN3D[c.1] * Y.at c p)) ^ 2 / meanPow G Y nN3D nrm w := by
    intro p l
    have : (∑ c : Fin C, d1 G Y nN3D nrm w l c / Real.sqrt (meanPow G Y nN3D nrm w) * (nrm[c.1] / nN3D[c.1] * Y.at c p))
        = (∑ c : Fin C, d1 G Y nN3D nrm w l c * (nrm[c.1] / nN3D[c.1] * Y.at c p)) / Real.sqrt (meanPow G Y nN3D nrm w) := by
      rw [Finset.sum_div]
      exact Finset.sum_congr rfl fun c _ => by ring
    rw [this, div_pow, hs]
  simp only [inner, ← Finset.sum_div]
  rw [div_right_comm, ← hmp]
  exact div_self hden

/-- **Unit mean power with default options** (`{}` = `HOADecoderDesign`'s defaults: mean-power normalisation on,
maxRE off): the mean **over the code's `P` sample directions** (the t-design points — a quadrature of the sphere,
not the sphere itself) of the summed squared loudspeaker signals for unit plane waves encoded in the pack's convention
is exactly 1, provided no denominator of the computation is zero. -/
theorem design_unit_mean_power (G : Mat ℝ L P) (Y : Mat ℝ C P) (nN3D nrm : Vector ℝ C) (ord : Vector Nat C)
    (coef : Nat → ℝ) (hnd : NonDegenerate {} G Y nN3D nrm ord coef) :
    meanPower (design {} G Y nN3D nrm ord coef (ones C) 1 false) Y nN3D nrm = 1 :=
  design_unit_mean_power_nmp {} rfl G Y nN3D nrm ord coef hnd

/-! ### LFE outputs (core Lean, any scalar type) -/

/-- **LFE rows are exactly zero**: whenever the routing succeeds, every output channel flagged LFE gets the
zero row. -/
theorem no_lfe_feed {α : Type} (zero : α) : ∀ (lfe : List Bool) (rows out : List (Vector α C)),
    route zero lfe rows = some out →
    ∀ j : Nat, lfe[j]? = some true → out[j]? = some (Vector.replicate C zero)
  | [], [], out, h, j, hj => by simp at hj
  | [], _ :: _, out, h, j, hj => by simp at hj
  | true :: t, rows, out, h, j, hj => by
    simp only [route, Option.map_eq_some_iff] at h
    obtain ⟨o', ho', rfl⟩ := h
    cases j with
    | zero => simp
    | succ j => simpa using no_lfe_feed zero t rows o' ho' j (by simpa using hj)
  | false :: t, [], out, h, j, hj => by simp [route] at h
  | false :: t, r :: rows, out, h, j, hj => by
    simp only [route, Option.map_eq_some_iff] at h
    obtain ⟨o', ho', rfl⟩ := h
    cases j with
    | zero => simp at hj
    | succ j => simpa using no_lfe_feed zero t rows o' ho' j (by simpa using hj)

/-- **LFE outputs of the rendered signal are exactly zero, for every input** (`renderFrame` = one sample frame
through `HOARenderer.render` / `FixedMatrix.process`): whatever the decoder rows and whatever the input samples `x`
(any scalar type: also `Float` inputs that are NaN or infinite), every output channel flagged LFE carries the `0.0`
the output block was initialised with. -/
theorem render_lfe_zero {α : Type} [Scalar α] : ∀ (lfe : List Bool) (rows : List (Vector α C)) (x : Vector α C)
    (out : List α), renderFrame lfe rows x = some out →
    ∀ j : Nat, lfe[j]? = some true → out[j]? = some (Scalar.ofNat 0)
  | [], [], x, out, h, j, hj => by simp at hj
  | [], _ :: _, x, out, h, j, hj => by simp at hj
  | true :: t, rows, x, out, h, j, hj => by
    simp only [renderFrame, Option.map_eq_some_iff] at h
    obtain ⟨o', ho', rfl⟩ := h
    cases j with
    | zero => simp
    | succ j => simpa using render_lfe_zero t rows x o' ho' j (by simpa using hj)
  | false :: t, [], x, out, h, j, hj => by simp [renderFrame] at h
  | false :: t, r :: rows, x, out, h, j, hj => by
    simp only [renderFrame, Option.map_eq_some_iff] at h
    obtain ⟨o', ho', rfl⟩ := h
    cases j with
    | zero => simp at hj
    | succ j => simpa using render_lfe_zero t rows x o' ho' j (by simpa using hj)

/-- **no LFE feed, composed**: the renderer output for the decoder `design` returns — any options, any pack, any gains,
any input frame — is `0` on every LFE channel; the non-LFE channels carry `Σ_c decoder[i,c]·x[c]` (`renderFrame`'s
definition), i.e. the rendered frame is the routed gain matrix of `no_lfe_feed` applied to the input. -/
theorem design_render_lfe_zero (o : Opts) (G : Mat ℝ L P) (Y : Mat ℝ C P) (nN3D nrm : Vector ℝ C)
    (ord : Vector Nat C) (coef : Nat → ℝ) (gains : Vector ℝ C) (og : ℝ) (mute : Bool) (lfe : List Bool)
    (x : Vector ℝ C) (out : List ℝ)
    (h : renderFrame lfe (design o G Y nN3D nrm ord coef gains og mute).toList x = some out) (j : Nat)
    (hj : lfe[j]? = some true) : out[j]? = some 0 := by
  have := render_lfe_zero lfe _ x out h j hj
  simpa using this

/-- `renderFrame` is `route` followed by the matrix–vector product: output `j` is `0 + Σ_c routed[j][c]·x[c]` on the
non-LFE channels and the untouched `0` on the LFE ones; it succeeds exactly when `route` does. -/
theorem renderFrame_eq_route (lfe : List Bool) (rows : List (Vector ℝ C)) (x : Vector ℝ C) :
    renderFrame lfe rows x = (route (0 : ℝ) lfe rows).map (·.map fun r => ∑ c : Fin C, r[c.1] * x[c.1]) := by
  induction lfe generalizing rows with
  | nil => cases rows <;> simp [renderFrame, route]
  | cons b t ih =>
    cases b with
    | true =>
      simp only [renderFrame, route, ih, Option.map_map]
      congr 1
      funext o
      simp
    | false =>
      cases rows with
      | nil => simp [renderFrame, route]
      | cons r rows =>
        simp only [renderFrame, route, ih, Option.map_map]
        congr 1
        funext o
        simp

/-- the entries of `xs` at the positions not flagged in `mask`, in order -/
def unmasked {β : Type} : List Bool → List β → List β
  | true :: bs, _ :: xs => unmasked bs xs
  | false :: bs, x :: xs => x :: unmasked bs xs
  | _, _ => []

/-- The non-LFE output channels carry the decoder rows, in order (nothing is lost or reordered). -/
theorem route_nonlfe_rows {α : Type} (zero : α) : ∀ (lfe : List Bool) (rows out : List (Vector α C)),
    route zero lfe rows = some out → unmasked lfe out = rows ∧ out.length = lfe.length
  | [], [], out, h => by simp [route] at h; subst h; simp [unmasked]
  | [], _ :: _, out, h => by simp [route] at h
  | true :: t, rows, out, h => by
    simp only [route, Option.map_eq_some_iff] at h
    obtain ⟨o', ho', rfl⟩ := h
    have := route_nonlfe_rows zero t rows o' ho'
    simp [unmasked, this]
  | false :: t, [], out, h => by simp [route] at h
  | false :: t, r :: rows, out, h => by
    simp only [route, Option.map_eq_some_iff] at h
    obtain ⟨o', ho', rfl⟩ := h
    have := route_nonlfe_rows zero t rows o' ho'
    simp [unmasked, this]

/-- The routing succeeds exactly when the decoder has one row per non-LFE channel (otherwise numpy raises). -/
theorem route_shape {α : Type} (zero : α) : ∀ (lfe : List Bool) (rows : List (Vector α C)),
    (route zero lfe rows).isSome ↔ (lfe.filter (· == false)).length = rows.length
  | [], [] => by simp [route]
  | [], _ :: _ => by simp [route]
  | true :: t, rows => by simpa [route] using route_shape zero t rows
  | false :: t, [] => by simp [route]
  | false :: t, r :: rows => by simpa [route] using route_shape zero t rows

/-! ### Normalisation factors: exact squares, positivity -/

theorem fact_pos : ∀ n, 0 < fact n
  | 0 => by simp [fact]
  | n + 1 => by simp [fact, fact_pos n]

private theorem ratio_nonneg (a b : Nat) : (0 : ℝ) ≤ (a : ℝ) / (b : ℝ) := by positivity

/-- **The model's norm factors are the square roots of the rationals `n3dSq`, `sn3dSq`, `fumaSq`** (the same
rationals the regenerated tables are compared with). -/
theorem norms_sq (n m : Nat) :
    (normN3D n m : ℝ) ^ 2 = ((n3dSq n m).1 : ℝ) / ((n3dSq n m).2 : ℝ)
    ∧ (normSN3D n m : ℝ) ^ 2 = ((sn3dSq n m).1 : ℝ) / ((sn3dSq n m).2 : ℝ)
    ∧ ∀ x : ℝ, normFuMa n m = some x →
        ∃ q, fumaSq n m = some q ∧ x ^ 2 = (q.1 : ℝ) / (q.2 : ℝ) := by
  have hS : (normSN3D n m : ℝ) ^ 2 = ((sn3dSq n m).1 : ℝ) / ((sn3dSq n m).2 : ℝ) := by
    simp only [normSN3D, sn3dSq, scalar_sqrt, scalar_ofNat]
    exact Real.sq_sqrt (ratio_nonneg _ _)
  refine ⟨?_, hS, ?_⟩
  · simp only [normN3D, n3dSq, scalar_sqrt, scalar_ofNat, Nat.cast_mul]
    exact Real.sq_sqrt (by positivity)
  · intro x hx
    simp only [normFuMa, Option.map_eq_some_iff] at hx
    obtain ⟨f, hf, rfl⟩ := hx
    have key : ∀ (a b : Nat), fumaFactorSq n m = some (a, b) → f ^ 2 = (a : ℝ) / (b : ℝ) →
        ∃ q, fumaSq n m = some q ∧ (normSN3D n m * f) ^ 2 = (q.1 : ℝ) / (q.2 : ℝ) := by
      intro a b hq hf2
      refine ⟨((sn3dSq n m).1 * a, (sn3dSq n m).2 * b), by simp [fumaSq, hq], ?_⟩
      rw [mul_pow, hS, hf2]
      push_cast
      rw [div_mul_div_comm]
    have s2 : Real.sqrt 2 ^ 2 = 2 := Real.sq_sqrt (by norm_num)
    have s3 : Real.sqrt 3 ^ 2 = 3 := Real.sq_sqrt (by norm_num)
    have s5 : Real.sqrt 5 ^ 2 = 5 := Real.sq_sqrt (by norm_num)
    have s45 : Real.sqrt (45 / 32) ^ 2 = 45 / 32 := Real.sq_sqrt (by norm_num)
    have s85 : Real.sqrt (8 / 5) ^ 2 = 8 / 5 := Real.sq_sqrt (by norm_num)
    unfold fumaFactor at hf
    split at hf <;> simp only [Option.some.injEq, reduceCtorEq] at hf <;> subst hf
    · exact key 1 2 rfl (by simp only [scalar_sqrt, scalar_ofNat, Nat.cast_ofNat, Nat.cast_one, div_pow, s2]; norm_num)
    · exact key 1 1 rfl (by simp)
    · exact key 1 1 rfl (by simp)
    · exact key 1 1 rfl (by simp)
    · exact key 4 3 rfl (by simp only [scalar_sqrt, scalar_ofNat, Nat.cast_ofNat, div_pow, s3]; norm_num)
    · exact key 4 3 rfl (by simp only [scalar_sqrt, scalar_ofNat, Nat.cast_ofNat, div_pow, s3]; norm_num)
    · exact key 1 1 rfl (by simp)
    · exact key 45 32 rfl (by simp only [scalar_sqrt, scalar_ofNat, Nat.cast_ofNat, s45])
    · exact key 9 5 rfl (by simp only [scalar_sqrt, scalar_ofNat, Nat.cast_ofNat, div_pow, s5]; norm_num)
    · exact key 8 5 rfl (by simp only [scalar_sqrt, scalar_ofNat, Nat.cast_ofNat, s85])

theorem factSub_of_le {n m : Nat} (h : m ≤ n) : factSub n m = fact (n - m) := by
  unfold factSub
  rw [if_neg (by omega)]

theorem factSub_of_gt {n m : Nat} (h : n < m) : factSub n m = 0 := by
  unfold factSub
  rw [if_pos h]

/-- **All norm factors are positive for `|m| ≤ n`** (so the non-zero hypotheses of `design_norm_invariant` hold for
N3D, SN3D and, where defined, FuMa). -/
theorem norms_pos (n m : Nat) (h : m ≤ n) :
    (0 : ℝ) < normN3D n m ∧ (0 : ℝ) < normSN3D n m ∧ ∀ x : ℝ, normFuMa n m = some x → 0 < x := by
  have h1 : (0 : ℝ) < (factSub n m : ℝ) := by rw [factSub_of_le h]; exact_mod_cast fact_pos _
  have h2 : (0 : ℝ) < (fact (n + m) : ℝ) := by exact_mod_cast fact_pos _
  have hS : (0 : ℝ) < normSN3D n m := by
    simp only [normSN3D, scalar_sqrt, scalar_ofNat]
    exact Real.sqrt_pos.mpr (by positivity)
  refine ⟨?_, hS, ?_⟩
  · simp only [normN3D, scalar_sqrt, scalar_ofNat]
    exact Real.sqrt_pos.mpr (by positivity)
  · intro x hx
    simp only [normFuMa, Option.map_eq_some_iff] at hx
    obtain ⟨f, hf, rfl⟩ := hx
    apply mul_pos hS
    unfold fumaFactor at hf
    split at hf <;> simp only [Option.some.injEq, reduceCtorEq] at hf <;> subst hf <;>
      simp only [scalar_sqrt, scalar_ofNat] <;> positivity

/-- **`|degree| > order`: what the code computes** (`scipy.special.factorial` of a negative number is `0`):
`norm_N3D = norm_SN3D = 0` and `norm_FuMa` raises `KeyError`.  Nothing in the real code rejects such a channel
(no validator compares `degree` with `order`); `allrad_design` then evaluates `norm_N3D/norm = 0/0` and the whole
decoder is NaN (the Frobenius norm is taken over all channels).  Such a pack violates `NonDegenerate.hn3d`, so none
of the `design_*` theorems speaks about it. -/
theorem norms_zero_of_gt (n m : Nat) (h : n < m) :
    (normN3D n m : ℝ) = 0 ∧ (normSN3D n m : ℝ) = 0 ∧ (normFuMa n m : Option ℝ) = none ∧
    n3dSq n m = (0, fact (n + m)) ∧ sn3dSq n m = (0, fact (n + m)) ∧ fumaSq n m = none := by
  have hf : fumaFactorSq n m = none := by
    unfold fumaFactorSq
    split <;> first | rfl | omega
  have hf' : (fumaFactor n m : Option ℝ) = none := by
    unfold fumaFactor
    split <;> first | rfl | omega
  refine ⟨?_, ?_, ?_, ?_, ?_, ?_⟩
  · simp [normN3D, factSub_of_gt h]
  · simp [normSN3D, factSub_of_gt h]
  · simp [normFuMa, hf']
  · simp [n3dSq, factSub_of_gt h]
  · simp [sn3dSq, factSub_of_gt h]
  · simp [fumaSq, hf]

/-! ### The concrete conventions and `sph_harm` inside the theorems (`designPack`) -/

theorem fumaFactor_isSome (n m : Nat) : (fumaFactor n m : Option ℝ).isSome = (fumaFactorSq n m).isSome := by
  unfold fumaFactor fumaFactorSq
  split <;> simp

/-- **`sph_harm` is linear in its `norm` argument**: `K_v = sph_harm(…, norm=norm)` is `diag(norm/norm_N3D)·Y_virt`
(what `designW` uses for `K_v`), whenever the N3D factor is non-zero. -/
theorem sphHarm_rescale (nf nN : ℝ) (hN : nN ≠ 0) (n : Nat) (m : Int) (az el : ℝ) :
    sphHarm nf n m az el = nf / nN * sphHarm nN n m az el := by
  unfold sphHarm
  field_simp

/-- the FuMa harmonics are the SN3D harmonics times the conversion factor of the `convert` table -/
theorem sphHarm_fuma (n mm : Nat) (f x : ℝ) (hf : fumaFactor n mm = some f) (hx : normFuMa n mm = some x) (m : Int)
    (az el : ℝ) : sphHarm x n m az el = f * sphHarm (normSN3D n mm) n m az el := by
  simp only [normFuMa, hf, Option.map_some, Option.some.injEq] at hx
  subst hx
  unfold sphHarm
  ring

/-- `normDefined` says exactly when the model's `normBy` (= the code's `norm(n, |m|)`) returns a value. -/
theorem normDefined_iff (conv n m : Nat) :
    normDefined conv n m = true ↔ ∃ x : ℝ, normBy conv n m = some x := by
  unfold normDefined normBy
  split
  · simp
  · simp
  · rw [← fumaFactor_isSome, Option.isSome_iff_exists]
    simp [normFuMa]
  · simp

/-- every factor the three conventions return for a channel with `|m| ≤ n` is positive -/
theorem normBy_pos (conv n m : Nat) (h : m ≤ n) (x : ℝ) (hx : normBy conv n m = some x) : 0 < x := by
  obtain ⟨h0, h1, h2⟩ := norms_pos n m h
  unfold normBy at hx
  split at hx
  · simp only [Option.some.injEq] at hx; subst hx; exact h0
  · simp only [Option.some.injEq] at hx; subst hx; exact h1
  · exact h2 x hx
  · simp at hx

/-- `normVec` returns the element-wise `normBy` values -/
theorem normVec_spec (conv : Nat) (ord : Vector Nat C) (deg : Vector Int C) (v : Vector ℝ C)
    (h : normVec conv ord deg = some v) (c : Fin C) : normBy conv ord[c.1] deg[c.1].natAbs = some v[c.1] := by
  unfold normVec at h
  split at h
  · rename_i hall
    simp only [Option.some.injEq] at h
    subst h
    rw [List.all_eq_true] at hall
    obtain ⟨x, hx⟩ := (normDefined_iff _ _ _).mp (hall c (List.mem_finRange c))
    simp [hx]
  · simp at h

theorem normVec_pos (conv : Nat) (ord : Vector Nat C) (deg : Vector Int C) (v : Vector ℝ C)
    (h : normVec conv ord deg = some v) (hdeg : ∀ c : Fin C, deg[c.1].natAbs ≤ ord[c.1]) (c : Fin C) :
    0 < v[c.1] :=
  normBy_pos conv _ _ (hdeg c) _ (normVec_spec conv ord deg v h c)

theorem n3dVec_pos (ord : Vector Nat C) (deg : Vector Int C) (hdeg : ∀ c : Fin C, deg[c.1].natAbs ≤ ord[c.1])
    (c : Fin C) : (0 : ℝ) < (n3dVec ord deg)[c.1] := by
  simp only [n3dVec, Vector.getElem_ofFn]
  exact (norms_pos _ _ (hdeg c)).1

/-- **a channel with `|degree| > order` makes `NonDegenerate` fail** (its N3D factor is `0`): such packs are outside
every `design_*` theorem; the real code returns NaN for them (see `norms_zero_of_gt`). -/
theorem degree_gt_order_degenerate (o : Opts) (G : Mat ℝ L P) (az el : Vector ℝ P) (nrm : Vector ℝ C)
    (ord : Vector Nat C) (deg : Vector Int C) (coef : Nat → ℝ) (c : Fin C) (h : ord[c.1] < deg[c.1].natAbs) :
    ¬ NonDegenerate o G (yVirt ord deg az el) (n3dVec ord deg) nrm ord coef := by
  intro hnd
  apply hnd.hn3d c
  simp only [n3dVec, Vector.getElem_ofFn]
  exact (norms_zero_of_gt _ _ h).1

theorem finRange_all_perm (σ : Equiv.Perm (Fin C)) (f : Fin C → Bool) :
    (List.finRange C).all (fun c => f (σ c)) = (List.finRange C).all f := by
  rw [Bool.eq_iff_iff, List.all_eq_true, List.all_eq_true]
  constructor
  · intro h c _
    have := h (σ.symm c) (List.mem_finRange _)
    simpa using this
  · intro h c _
    exact h (σ c) (List.mem_finRange _)

theorem normVec_perm (σ : Equiv.Perm (Fin C)) (conv : Nat) (ord : Vector Nat C) (deg : Vector Int C) :
    (normVec conv (permV σ ord) (permV σ deg) : Option (Vector ℝ C)) = (normVec conv ord deg).map (permV σ) := by
  unfold normVec
  simp only [permV_get]
  rw [finRange_all_perm σ (fun c => normDefined conv ord[c.1] deg[c.1].natAbs)]
  split
  · simp only [Option.map_some, Option.some.injEq]
    apply Vector.ext
    intro i hi
    simp [permV]
  · rfl

theorem n3dVec_perm (σ : Equiv.Perm (Fin C)) (ord : Vector Nat C) (deg : Vector Int C) :
    (n3dVec (permV σ ord) (permV σ deg) : Vector ℝ C) = permV σ (n3dVec ord deg) := by
  apply Vector.ext
  intro i hi
  simp [n3dVec, permV]

theorem yVirt_perm (σ : Equiv.Perm (Fin C)) (ord : Vector Nat C) (deg : Vector Int C) (az el : Vector ℝ P) :
    yVirt (permV σ ord) (permV σ deg) az el = permV σ (yVirt ord deg az el) := by
  apply Vector.ext
  intro i hi
  simp [yVirt, Mat.ofFn, permV]

/-- **Channel order, concrete**: `designPack` computes everything between the pack's `(orders, degrees,
normalisation)` and the decoder — `norm_*`, `sph_harm` (→ `Y_virt`, `K_v`), `allrad_design`, maxRE, mean power, gains.
Listing the pack's channels in another order (orders, degrees and gains move together) permutes the decoder's columns
and changes nothing else; the element-wise evaluation of `norm_*` / `sph_harm` on the reordered arrays is part of the
statement, not a parameter. -/
theorem designPack_perm (σ : Equiv.Perm (Fin C)) (o : Opts) (G : Mat ℝ L P) (az el : Vector ℝ P) (conv : Nat)
    (ord : Vector Nat C) (deg : Vector Int C) (coef : Nat → ℝ) (gains : Vector ℝ C) (og : ℝ) (mute : Bool)
    (D : Mat ℝ L C) (hD : designPack o G az el conv ord deg coef gains og mute = some D)
    (hnd : ∀ nrm, normVec conv ord deg = some nrm →
      NonDegenerate o G (yVirt ord deg az el) (n3dVec ord deg) nrm ord coef) :
    ∃ D', designPack o G az el conv (permV σ ord) (permV σ deg) coef (permV σ gains) og mute = some D' ∧
      ∀ (l : Fin L) (c : Fin C), D'.at l c = D.at l (σ c) := by
  unfold designPack at hD ⊢
  rw [Option.map_eq_some_iff] at hD
  obtain ⟨nrm, hn, rfl⟩ := hD
  rw [normVec_perm, hn, yVirt_perm, n3dVec_perm]
  exact ⟨_, rfl, (design_perm σ o G _ _ nrm ord coef gains og mute (hnd nrm hn)).2⟩

/-- a sound field with N3D coefficients `x`, written in the pack's convention `conv` (`0` N3D, `1` SN3D, `2` FuMa):
coefficient `c` is `x c · norm_conv(n_c, |m_c|) / norm_N3D(n_c, |m_c|)` -/
noncomputable def encode (conv : Nat) (ord : Vector Nat C) (deg : Vector Int C) (x : Fin C → ℝ) (c : Fin C) : ℝ :=
  x c * ((normBy conv ord[c.1] deg[c.1].natAbs : Option ℝ).getD 0) / normN3D ord[c.1] deg[c.1].natAbs

/-- **Normalisation convention, concrete**: for a pack whose channels satisfy `|degree| ≤ order`, the decoders
`designPack` designs for any two conventions for which the code's `norm` returns (N3D, SN3D; FuMa up to order 3)
give identical loudspeaker signals for the same sound field — with the model's own `norm_N3D`, `norm_SN3D`,
`norm_FuMa` (tied to the code's values by `tables_match_model` / `tables_normBy_sq`) and `sph_harm` inside. -/
theorem designPack_same_signals (o : Opts) (G : Mat ℝ L P) (az el : Vector ℝ P) (conv₁ conv₂ : Nat)
    (ord : Vector Nat C) (deg : Vector Int C) (coef : Nat → ℝ) (gains : Vector ℝ C) (og : ℝ) (mute : Bool)
    (hdeg : ∀ c : Fin C, deg[c.1].natAbs ≤ ord[c.1])
    (D₁ D₂ : Mat ℝ L C) (h₁ : designPack o G az el conv₁ ord deg coef gains og mute = some D₁)
    (h₂ : designPack o G az el conv₂ ord deg coef gains og mute = some D₂)
    (hnd : ∀ nrm, normVec conv₁ ord deg = some nrm →
      NonDegenerate o G (yVirt ord deg az el) (n3dVec ord deg) nrm ord coef)
    (x : Fin C → ℝ) (l : Fin L) :
    ∑ c, D₁.at l c * encode conv₁ ord deg x c = ∑ c, D₂.at l c * encode conv₂ ord deg x c := by
  unfold designPack at h₁ h₂
  rw [Option.map_eq_some_iff] at h₁ h₂
  obtain ⟨n₁, hn₁, rfl⟩ := h₁
  obtain ⟨n₂, hn₂, rfl⟩ := h₂
  have key := design_same_signals o G (yVirt ord deg az el) (n3dVec ord deg) n₁ n₂ ord coef gains og mute
    (hnd n₁ hn₁) (fun c => (normVec_pos conv₂ ord deg n₂ hn₂ hdeg c).ne') x l
  have e : ∀ (conv : Nat) (n : Vector ℝ C), normVec conv ord deg = some n → ∀ c : Fin C,
      encode conv ord deg x c = x c * n[c.1] / (n3dVec ord deg)[c.1] := by
    intro conv n hn c
    simp [encode, normVec_spec conv ord deg n hn c, n3dVec]
  simp only [e conv₁ n₁ hn₁, e conv₂ n₂ hn₂]
  exact key

/-- `NonDegenerate` for a concrete pack from conditions on `G` and the sampled harmonics only: `|degree| ≤ order`
takes care of the norm factors. -/
theorem nonDegenerate_pack (o : Opts) (G : Mat ℝ L P) (az el : Vector ℝ P) (conv : Nat) (ord : Vector Nat C)
    (deg : Vector Int C) (coef : Nat → ℝ) (nrm : Vector ℝ C) (hn : normVec conv ord deg = some nrm)
    (hdeg : ∀ c : Fin C, deg[c.1].natAbs ≤ ord[c.1]) (hP : P ≠ 0) (hY : RowsIndependent (yVirt ord deg az el))
    (hD : ∃ l c, d0 G (yVirt ord deg az el) l c ≠ 0 ∧ wOf (wOpt (L := L) o coef ord) c ≠ 0)
    (hs : o.maxRE = true → o.maxREScale ≠ .none → (∑ c : Fin C, coef ord[c.1] * coef ord[c.1]) ≠ 0) :
    NonDegenerate o G (yVirt ord deg az el) (n3dVec ord deg) nrm ord coef :=
  nonDegenerate_of_indep o G _ _ nrm ord coef hP hY (fun c => (n3dVec_pos ord deg hdeg c).ne')
    (fun c => (normVec_pos conv ord deg nrm hn hdeg c).ne') hD hs

/-! ### Regenerated tables (re-checked against what `ear.core.hoa` returns now) -/

/-- every squared norm factor extracted from the code is a positive rational -/
theorem tables_norms_positive :
    (Gen.n3dTable ++ Gen.sn3dTable ++ Gen.fumaTable ++ Gen.fumaFactorTable).all
      (fun e => decide (0 < e.2.2.1) && decide (0 < e.2.2.2)) = true := by
  decide +kernel

/-- `(n, |m|)` for `n ≤ N` -/
def keys (N : Nat) : List (Nat × Nat) :=
  (List.range (N + 1)).flatMap fun n => (List.range (n + 1)).map fun m => (n, m)

/-- the code's `norm_N3D`, `norm_SN3D` (orders 0..5) and `norm_FuMa` (orders 0..3) squared are exactly the model's
rationals, for every `(n, |m|)` -/
theorem tables_match_model :
    (Gen.n3dTable.map (fun e => (e.1, e.2.1)) = keys 5
      ∧ Gen.n3dTable.all (fun e => e.2.2.1 * (n3dSq e.1 e.2.1).2 == e.2.2.2 * (n3dSq e.1 e.2.1).1) = true)
    ∧ (Gen.sn3dTable.map (fun e => (e.1, e.2.1)) = keys 5
      ∧ Gen.sn3dTable.all (fun e => e.2.2.1 * (sn3dSq e.1 e.2.1).2 == e.2.2.2 * (sn3dSq e.1 e.2.1).1) = true)
    ∧ (Gen.fumaTable.map (fun e => (e.1, e.2.1)) = keys 3
      ∧ Gen.fumaTable.all (fun e => match fumaSq e.1 e.2.1 with
          | some q => e.2.2.1 * q.2 == e.2.2.2 * q.1
          | none => false) = true) := by
  decide +kernel

/-- look up `(n, |m|)` in a table -/
def lookup (t : List (Nat × Nat × Nat × Nat)) (n m : Nat) : Option (Nat × Nat) :=
  (t.find? fun e => e.1 == n && e.2.1 == m).map fun e => (e.2.2.1, e.2.2.2)

/-- the code's FuMa factors are its SN3D factors times the standard FuMa conversion factors
(1/√2, 1, 1, 1, 2/√3, 2/√3, 1, √(45/32), 3/√5, √(8/5)), squared -/
theorem table_fuma_is_sn3d_times_factor :
    Gen.fumaFactorTable.all (fun e => fumaFactorSq e.1 e.2.1 == some (e.2.2.1, e.2.2.2)) = true
    ∧ Gen.fumaTable.all (fun e =>
        match lookup Gen.sn3dTable e.1 e.2.1, fumaFactorSq e.1 e.2.1 with
        | some s, some f => e.2.2.1 * (s.2 * f.2) == e.2.2.2 * (s.1 * f.1)
        | _, _ => false) = true := by
  decide +kernel

/-- `to_acn` / `from_acn` as the code computes them on 0..35 agree with the model and are inverse to each other -/
theorem table_acn_inverse :
    Gen.fromAcnTable.map (fun e => e.1) = List.range 36
    ∧ Gen.fromAcnTable.all (fun e =>
        fromAcn e.1 == (e.2.1, e.2.2) && toAcn e.2.1 e.2.2 == (e.1 : Int)
          && Gen.toAcnTable.contains ((e.2.1 : Int), e.2.2, (e.1 : Int))) = true
    ∧ Gen.toAcnTable.all (fun e =>
        toAcn e.1 e.2.1 == e.2.2 && fromAcn e.2.2.toNat == (e.1.toNat, e.2.1) && decide (0 ≤ e.2.2 ∧ e.2.2 < 36)) = true
    ∧ Gen.toAcnTable.length = 36 := by
  decide +kernel

theorem mem_keys {N n m : Nat} (h : (n, m) ∈ keys N) : m ≤ n ∧ n ≤ N := by
  simp only [keys, List.mem_flatMap, List.mem_map, List.mem_range, Prod.mk.injEq] at h
  obtain ⟨a, ha, b, hb, rfl, rfl⟩ := h
  omega

theorem cross_div {a b c d : Nat} (hb : 0 < b) (hd : 0 < d) (h : a * d = b * c) : (c : ℝ) / d = (a : ℝ) / b := by
  have hb' : (b : ℝ) ≠ 0 := by exact_mod_cast hb.ne'
  have hd' : (d : ℝ) ≠ 0 := by exact_mod_cast hd.ne'
  rw [div_eq_div_iff hd' hb']
  have : ((a * d : Nat) : ℝ) = ((b * c : Nat) : ℝ) := by rw [h]
  push_cast at this
  linarith

/-- **The regenerated tables are the squares of the model's `normBy`**: for every `(n, |m|)` with `n ≤ 5` (FuMa
`n ≤ 3`) the value the code's `norm_N3D` / `norm_SN3D` / `norm_FuMa` returned at extraction time, squared, is exactly
the square of what `normBy` (the function inside `designPack` and run by the driver) returns over ℝ, and it is positive —
the concrete conventions of the theorems are the code's. -/
theorem tables_normBy_sq :
    (∀ e ∈ Gen.n3dTable, ∃ x : ℝ, normBy 0 e.1 e.2.1 = some x ∧ 0 < x ∧ x ^ 2 = (e.2.2.1 : ℝ) / (e.2.2.2 : ℝ)) ∧
    (∀ e ∈ Gen.sn3dTable, ∃ x : ℝ, normBy 1 e.1 e.2.1 = some x ∧ 0 < x ∧ x ^ 2 = (e.2.2.1 : ℝ) / (e.2.2.2 : ℝ)) ∧
    (∀ e ∈ Gen.fumaTable, ∃ x : ℝ, normBy 2 e.1 e.2.1 = some x ∧ 0 < x ∧ x ^ 2 = (e.2.2.1 : ℝ) / (e.2.2.2 : ℝ)) := by
  obtain ⟨⟨k1, a1⟩, ⟨k2, a2⟩, ⟨k3, a3⟩⟩ := tables_match_model
  have pos := tables_norms_positive
  rw [List.all_eq_true] at pos a1 a2 a3
  have hpos : ∀ e, e ∈ Gen.n3dTable ∨ e ∈ Gen.sn3dTable ∨ e ∈ Gen.fumaTable → 0 < e.2.2.2 := by
    intro e he
    have := pos e (by simp only [List.mem_append]; tauto)
    simp only [Bool.and_eq_true, decide_eq_true_eq] at this
    exact this.2
  have hkey : ∀ (t : List (Nat × Nat × Nat × Nat)) (N : Nat), t.map (fun e => (e.1, e.2.1)) = keys N →
      ∀ e ∈ t, e.2.1 ≤ e.1 := by
    intro t N hk e he
    have : (e.1, e.2.1) ∈ keys N := by rw [← hk]; exact List.mem_map.mpr ⟨e, he, rfl⟩
    exact (mem_keys this).1
  refine ⟨fun e he => ?_, fun e he => ?_, fun e he => ?_⟩
  · have hm := hkey _ _ k1 e he
    have h := a1 e he
    simp only [beq_iff_eq] at h
    refine ⟨normN3D e.1 e.2.1, rfl, (norms_pos _ _ hm).1, ?_⟩
    rw [(norms_sq e.1 e.2.1).1]
    exact cross_div (hpos e (Or.inl he)) (by simp [n3dSq, fact_pos]) h
  · have hm := hkey _ _ k2 e he
    have h := a2 e he
    simp only [beq_iff_eq] at h
    refine ⟨normSN3D e.1 e.2.1, rfl, (norms_pos _ _ hm).2.1, ?_⟩
    rw [(norms_sq e.1 e.2.1).2.1]
    exact cross_div (hpos e (Or.inr (Or.inl he))) (by simp [sn3dSq, fact_pos]) h
  · have hm := hkey _ _ k3 e he
    have h := a3 e he
    cases hq : fumaSq e.1 e.2.1 with
    | none => rw [hq] at h; simp at h
    | some q =>
      rw [hq] at h
      simp only [beq_iff_eq] at h
      have hd : (normDefined 2 e.1 e.2.1) = true := by
        simp only [normDefined]
        simp only [fumaSq, Option.map_eq_some_iff] at hq
        obtain ⟨f, hf, _⟩ := hq
        simp [hf]
      obtain ⟨x, hx⟩ := (normDefined_iff 2 _ _).mp hd
      obtain ⟨q', hq', hx2⟩ := (norms_sq e.1 e.2.1).2.2 x hx
      rw [hq] at hq'
      simp only [Option.some.injEq] at hq'
      subst hq'
      have hq2 : 0 < q.2 := by
        simp only [fumaSq, Option.map_eq_some_iff] at hq
        obtain ⟨f, hf, rfl⟩ := hq
        have : 0 < f.2 := by
          unfold fumaFactorSq at hf
          split at hf <;> simp at hf <;> subst hf <;> simp
        simp [sn3dSq, fact_pos, this]
      exact ⟨x, hx, normBy_pos 2 _ _ hm x hx, by rw [hx2]; exact cross_div (hpos e (Or.inr (Or.inr he))) hq2 h⟩

/-! ### Non-vacuity: small concrete inputs satisfying the hypotheses -/

section examples

/-- 2 loudspeakers, 2 channels, 2 virtual points -/
def exG : Mat ℝ 2 2 := #v[#v[1, 0], #v[0, 1]]
def exY : Mat ℝ 2 2 := #v[#v[1, 1], #v[1, -1]]
def exN : Vector ℝ 2 := #v[1, 3]
def exS : Vector ℝ 2 := #v[1, 2]

/-- the hypotheses of `design_norm_invariant` / `design_same_signals` hold for concrete factors -/
example : (∀ c : Fin 2, exN[c.1] ≠ 0) ∧ (∀ c : Fin 2, exS[c.1] ≠ 0) := by
  constructor <;> intro c <;> fin_cases c <;> simp [exN, exS]

/-- a non-trivial permutation exists (swap of the two channels) and `permV` really reorders -/
example : permV (Equiv.swap (0 : Fin 2) 1) exS = #v[2, 1] := by
  apply Vector.ext
  intro i hi
  have : i = 0 ∨ i = 1 := by omega
  rcases this with rfl | rfl <;> simp [permV, exS, Equiv.swap_apply_def]

/-- the routing model on a 3-channel output with the middle channel LFE: succeeds, LFE row zero -/
example : route (0 : Int) [false, true, false] [#v[1, 2], #v[3, 4]] = some [#v[1, 2], #v[0, 0], #v[3, 4]] := by
  decide

def exOne : Vector ℝ 2 := #v[1, 1]

/-- the rows `(1, 1)`, `(1, −1)` of `exY` are linearly independent -/
theorem exY_indep : RowsIndependent exY := by
  intro a h c
  have h0 := h 0
  have h1 := h 1
  simp [Fin.sum_univ_two, Mat.at, exY] at h0 h1
  fin_cases c
  · show a 0 = 0; linarith
  · show a 1 = 0; linarith

/-- **Non-vacuity of `NonDegenerate`** (hypothesis of every `design_*` theorem): the concrete 2×2×2 design
`G = I`, `Y = [[1,1],[1,-1]]`, unit norm factors, default options satisfies it — via `nonDegenerate_of_indep`
(`G·Yᵀ/P` has the non-zero entry `1/2` at `(0,0)`). -/
example : NonDegenerate {} exG exY exOne exOne #v[0, 1] (fun _ => 1) := by
  refine nonDegenerate_of_indep {} exG exY exOne exOne _ _ (by norm_num) exY_indep ?_ ?_ ⟨0, 0, ?_, ?_⟩ ?_
  · intro c; fin_cases c <;> simp [exOne]
  · intro c; fin_cases c <;> simp [exOne]
  · simp [d0, Fin.sum_univ_two, Mat.at, exG, exY]
  · simp [wOpt, wOf]
  · intro h; simp at h

/-- … and with maxRE weights rescaled by `components` (the `sumsq` field is then a real condition) -/
example : NonDegenerate { maxRE := true, maxREScale := .components } exG exY exOne exOne #v[0, 1] (fun _ => 1) := by
  refine nonDegenerate_of_indep _ exG exY exOne exOne _ _ (by norm_num) exY_indep ?_ ?_ ⟨0, 0, ?_, ?_⟩ ?_
  · intro c; fin_cases c <;> simp [exOne]
  · intro c; fin_cases c <;> simp [exOne]
  · simp [d0, Fin.sum_univ_two, Mat.at, exG, exY]
  · simp [wOpt, wOf, maxREWeights]
  · intro _ _; simp

/-- the routing / rendering model on a 3-channel output with the middle channel LFE: one frame `(1, 1)` -/
example : renderFrame [false, true, false] [(#v[1, 2] : Vector ℝ 2), #v[3, 4]] #v[1, 1] = some [3, 0, 7] := by
  simp [renderFrame, Fin.sum_univ_two]
  norm_num

noncomputable def pkAz : Vector ℝ 2 := #v[0, 0]
noncomputable def pkEl : Vector ℝ 2 := #v[0, Real.pi / 2]
def pkOrd : Vector Nat 2 := #v[0, 1]
def pkDeg : Vector Int 2 := #v[0, 0]

/-- the sampled harmonics of the pack `W, Z` (orders 0, 1; degrees 0, 0) at the horizon and at the zenith:
`Y_virt = [[1, 1], [0, √3]]` — `sph_harm` evaluated inside the model -/
theorem pkY : yVirt pkOrd pkDeg pkAz pkEl = #v[#v[1, 1], #v[0, Real.sqrt 3]] := by
  apply Vector.ext
  intro i hi
  have : i = 0 ∨ i = 1 := by omega
  rcases this with rfl | rfl
  · apply Vector.ext
    intro j hj
    have : j = 0 ∨ j = 1 := by omega
    rcases this with rfl | rfl <;>
      simp [yVirt, Mat.ofFn, sphHarm, normN3D, alegendre, legUp, legDiag, azScale, factSub, fact, pkAz, pkEl, pkOrd, pkDeg]
  · apply Vector.ext
    intro j hj
    have : j = 0 ∨ j = 1 := by omega
    rcases this with rfl | rfl <;>
      simp [yVirt, Mat.ofFn, sphHarm, normN3D, alegendre, legUp, legDiag, azScale, factSub, fact, pkAz, pkEl, pkOrd, pkDeg]
    norm_num

theorem pk_hyps (conv : Nat) (hc : conv = 0 ∨ conv = 1) :
    (∃ D, designPack {} exG pkAz pkEl conv pkOrd pkDeg (fun _ => 1) (ones 2) 1 false = some D) ∧
    (∀ c : Fin 2, pkDeg[c.1].natAbs ≤ pkOrd[c.1]) ∧
    ∀ nrm, normVec conv pkOrd pkDeg = some nrm →
      NonDegenerate {} exG (yVirt pkOrd pkDeg pkAz pkEl) (n3dVec pkOrd pkDeg) nrm pkOrd (fun _ => 1) := by
  have hdeg : ∀ c : Fin 2, pkDeg[c.1].natAbs ≤ pkOrd[c.1] := by
    intro c; fin_cases c <;> simp [pkDeg, pkOrd]
  have hdef : (List.finRange 2).all (fun c => normDefined conv pkOrd[c.1] pkDeg[c.1].natAbs) = true := by
    rcases hc with rfl | rfl <;> decide
  refine ⟨?_, hdeg, fun nrm hn => ?_⟩
  · unfold designPack normVec
    rw [if_pos hdef]
    exact ⟨_, rfl⟩
  · refine nonDegenerate_pack {} exG pkAz pkEl conv pkOrd pkDeg _ nrm hn hdeg (by norm_num) ?_ ⟨0, 0, ?_, ?_⟩ ?_
    · rw [pkY]
      intro a h c
      have h0 := h 0
      have h1 := h 1
      simp [Fin.sum_univ_two, Mat.at] at h0 h1
      have h3 : (Real.sqrt 3 : ℝ) ≠ 0 := by positivity
      have ha0 : a 0 = 0 := h0
      have ha1 : a 1 = 0 := by
        rw [ha0] at h1
        simpa [h3] using h1
      fin_cases c
      · exact ha0
      · exact ha1
    · rw [pkY]; simp [d0, Fin.sum_univ_two, Mat.at, exG]
    · simp [wOpt, wOf]
    · intro h; simp at h

/-- Non-vacuity of `designPack_same_signals` and `designPack_perm`: the pack `W, Z` sampled at the horizon and the
zenith, `G = I`, in SN3D (`1`) and N3D (`0`). -/
example (x : Fin 2 → ℝ) (l : Fin 2) : ∃ D₁ D₂ : Mat ℝ 2 2,
    designPack {} exG pkAz pkEl 1 pkOrd pkDeg (fun _ => 1) (ones 2) 1 false = some D₁ ∧
    designPack {} exG pkAz pkEl 0 pkOrd pkDeg (fun _ => 1) (ones 2) 1 false = some D₂ ∧
    ∑ c, D₁.at l c * encode 1 pkOrd pkDeg x c = ∑ c, D₂.at l c * encode 0 pkOrd pkDeg x c := by
  obtain ⟨⟨D₁, h₁⟩, hdeg, hnd⟩ := pk_hyps 1 (Or.inr rfl)
  obtain ⟨⟨D₂, h₂⟩, -, -⟩ := pk_hyps 0 (Or.inl rfl)
  exact ⟨D₁, D₂, h₁, h₂, designPack_same_signals {} exG pkAz pkEl 1 0 pkOrd pkDeg _ _ 1 false hdeg D₁ D₂ h₁ h₂ hnd x l⟩

section firstOrder
open Real

noncomputable def foAz : Vector ℝ 6 := #v[0, π / 2, π, -(π / 2), 0, 0]
noncomputable def foEl : Vector ℝ 6 := #v[0, 0, 0, 0, π / 2, -(π / 2)]
def foOrd : Vector Nat 4 := #v[0, 1, 1, 1]
def foDeg : Vector Int 4 := #v[0, -1, 0, 1]
def foG : Mat ℝ 2 6 := #v[#v[1, 0, 0, 0, 0, 0], #v[0, 1, 0, 0, 0, 0]]

/-- `Y_virt` of the first-order pack on the octahedron, N3D (`design` always builds it with `norm_N3D`) -/
theorem foY : yVirt foOrd foDeg foAz foEl =
    #v[#v[1, 1, 1, 1, 1, 1], #v[0, √3, 0, -√3, 0, 0], #v[0, 0, 0, 0, √3, -√3], #v[√3, 0, -√3, 0, 0, 0]] := by
  apply Vector.ext
  intro i hi
  have : i = 0 ∨ i = 1 ∨ i = 2 ∨ i = 3 := by omega
  rcases this with rfl | rfl | rfl | rfl <;>
  · apply Vector.ext
    intro j hj
    have : j = 0 ∨ j = 1 ∨ j = 2 ∨ j = 3 ∨ j = 4 ∨ j = 5 := by omega
    rcases this with rfl | rfl | rfl | rfl | rfl | rfl <;>
      simp [yVirt, Mat.ofFn, sphHarm, normN3D, alegendre, legUp, legDiag, azScale, factSub, fact, foAz, foEl, foOrd, foDeg] <;>
      norm_num

theorem foY_indep : RowsIndependent (yVirt foOrd foDeg foAz foEl) := by
  rw [foY]
  intro a h c
  have h0 := h 0
  have h1 := h 1
  have h2 := h 2
  have h4 := h 4
  simp [Fin.sum_univ_four, Mat.at] at h0 h1 h2 h4
  have h3 : (√3 : ℝ) ≠ 0 := by positivity
  have a0 : a 0 = 0 := by linarith
  have a3 : a 3 = 0 := by
    have : a 3 * √3 = 0 := by linarith
    simpa [h3] using this
  have a1 : a 1 = 0 := by
    have : a 1 * √3 = 0 := by linarith
    simpa [h3] using this
  have a2 : a 2 = 0 := by
    have : a 2 * √3 = 0 := by linarith
    simpa [h3] using this
  fin_cases c
  · exact a0
  · exact a1
  · exact a2
  · exact a3

theorem foDeg_le : ∀ c : Fin 4, foDeg[c.1].natAbs ≤ foOrd[c.1] := by
  intro c; fin_cases c <;> simp [foDeg, foOrd]

/-- **`NonDegenerate` on a real first-order pack** (beyond the 2×2×2 toys): the pack `W, Y, Z, X` = (0,0), (1,−1), (1,0),
(1,1) sampled at the six octahedron directions (front, left, back, right, up, down; `sph_harm` evaluated inside the
model: `foY`), a 2×6 panner matrix, default options, in ANY convention whose norm vector is defined — via
`nonDegenerate_pack` (rows of `Y_virt` independent: `foY_indep`; `G·Yᵀ/6` has the entry `1/6` at `(0,0)`).  On the
real data (5200-point t-design, the layouts' `G_virt`) `NonDegenerate` is evidenced by the finiteness search only. -/
theorem fo_nonDegenerate (conv : Nat) (nrm : Vector ℝ 4) (hn : normVec conv foOrd foDeg = some nrm) :
    NonDegenerate {} foG (yVirt foOrd foDeg foAz foEl) (n3dVec foOrd foDeg) nrm foOrd (fun _ => 1) := by
  refine nonDegenerate_pack {} foG foAz foEl conv foOrd foDeg _ nrm hn foDeg_le (by norm_num) foY_indep ⟨0, 0, ?_, ?_⟩ ?_
  · rw [foY]; simp [d0, Fin.sum_univ_six, Mat.at, foG]
  · simp [wOpt, wOf]
  · intro h; simp at h

/-- … for each of N3D (`0`), SN3D (`1`), FuMa (`2`) the norm vector exists and the design is non-degenerate -/
example (conv : Nat) (hc : conv = 0 ∨ conv = 1 ∨ conv = 2) :
    ∃ nrm : Vector ℝ 4, normVec conv foOrd foDeg = some nrm ∧
      NonDegenerate {} foG (yVirt foOrd foDeg foAz foEl) (n3dVec foOrd foDeg) nrm foOrd (fun _ => 1) := by
  have hdef : (List.finRange 4).all (fun c => normDefined conv foOrd[c.1] foDeg[c.1].natAbs) = true := by
    rcases hc with rfl | rfl | rfl <;> decide
  have : ∃ nrm : Vector ℝ 4, normVec conv foOrd foDeg = some nrm := by
    unfold normVec; rw [if_pos hdef]; exact ⟨_, rfl⟩
  obtain ⟨nrm, hn⟩ := this
  exact ⟨nrm, hn, fo_nonDegenerate conv nrm hn⟩

/-- … and with maxRE weights (per-order table `1, 1/2`) and mean-power normalisation -/
example (conv : Nat) (nrm : Vector ℝ 4) (hn : normVec conv foOrd foDeg = some nrm) :
    NonDegenerate { maxRE := true, normMeanPower := true } foG (yVirt foOrd foDeg foAz foEl) (n3dVec foOrd foDeg) nrm
      foOrd (fun n => if n = 0 then 1 else 1 / 2) := by
  refine nonDegenerate_pack _ foG foAz foEl conv foOrd foDeg _ nrm hn foDeg_le (by norm_num) foY_indep ⟨0, 0, ?_, ?_⟩ ?_
  · rw [foY]; simp [d0, Fin.sum_univ_six, Mat.at, foG]
  · simp [wOpt, wOf, maxREWeights, foOrd]
  · intro _ h; simp at h

end firstOrder

/-- `|degree| > order` (order 1, degree 2 — accepted by every validator of the real code): both factors are `0` -/
example : (normN3D 1 2 : ℝ) = 0 ∧ (normSN3D 1 2 : ℝ) = 0 ∧ n3dSq 1 2 = (0, 6) :=
  ⟨(norms_zero_of_gt 1 2 (by norm_num)).1, (norms_zero_of_gt 1 2 (by norm_num)).2.1, by decide⟩

/-- norm factors of the first channels: N3D(1,1)² = 3/2, FuMa(0,0)² = 1/2 -/
example : n3dSq 1 1 = (3, 2) ∧ fumaSq 0 0 = some (1, 2) ∧ fumaSq 4 0 = none := by decide

end examples

end Earverif.Hoa
