/- C12, the topological half: pasting the region handlers along the first-accept loop.

   `PointSourcePanner.handle` (and `VirtualNgon.handle`) return the value of the FIRST region whose handler is not
   `None` (`firstAccept` in Model/PointSource.lean).  Here:

   * `firstAccept_eq_of_agree` — if the accepting handlers agree at a point, the first-accept value there is the value
     of ANY accepting region (the key lemma);
   * `firstAccept_continuousOn` — finitely many regions, acceptance sets closed in `S`, handlers continuous on their
     acceptance sets, pairwise agreement on intersections ⟹ the first-accept function is continuous on the union;
   * `firstAccept_jump_bound_aux` — the quantitative version: handlers agreeing only up to `η` on the overlaps ⟹ the
     first-accept function varies by at most `η + δ` near every point (jumps bounded by `η`);
   * `Triplet.acceptsE` / `handleE`: the triplet handler with the acceptance slack as a parameter (`tripletEps`, the
     code's −1e-11, gives back `Triplet.handle` by `rfl`; `0` is the idealisation "exact acceptance");
     `triplet_accept_isClosed`: the acceptance set is closed for every slack and every (even singular) matrix;
   * linear algebra of two triplets sharing an edge with the third loudspeakers on opposite sides of it, and the
     Lipschitz estimate for normalise-and-clip, used for the quantitative sliver bound in Props/C12.lean. -/
import Earverif.Props.C05
import Mathlib.Analysis.SpecialFunctions.Pow.Continuity
import Mathlib.Tactic.IntervalCases
import Mathlib.Topology.ContinuousOn
import Mathlib.Topology.MetricSpace.Pseudo.Basic
import Mathlib.Topology.Algebra.Order.Field
import Mathlib.Topology.Order.OrderClosed
import Mathlib.Tactic.FunProp
import Mathlib.Tactic.FinCases
import Mathlib.Algebra.Order.Group.MinMax

namespace Earverif.PointSource

open Set Filter Topology

/-! ### the first-accept loop over regions given as (acceptance set, handler) -/

section Paste
variable {X Y : Type}

open Classical in
/-- the list of candidate answers at `p`: region `r` answers `some (r.2 p)` on its acceptance set `r.1`, else `None` -/
noncomputable def candidates (rs : List (Set X × (X → Y))) (p : X) : List (Option Y) :=
  rs.map fun r => if p ∈ r.1 then some (r.2 p) else none

/-- union of the acceptance sets -/
def accUnion (rs : List (Set X × (X → Y))) : Set X := {p | ∃ r ∈ rs, p ∈ r.1}

theorem firstAccept_candidates_none (rs : List (Set X × (X → Y))) (p : X) (h : p ∉ accUnion rs) :
    firstAccept (candidates rs p) = none := by
  rw [firstAccept_eq_none]
  intro x hx
  obtain ⟨r, hr, rfl⟩ := List.mem_map.mp hx
  have : p ∉ r.1 := fun hp => h ⟨r, hr, hp⟩
  simp [this]

/-- KEY LEMMA.  If every region accepting `p` gives the value `y` there, the first-accept loop returns `y` as soon
    as some region accepts: with pairwise agreement the loop's answer is ANY accepting region's answer. -/
theorem firstAccept_eq_of_agree : ∀ (rs : List (Set X × (X → Y))) (p : X) (y : Y),
    (∃ r ∈ rs, p ∈ r.1) → (∀ r ∈ rs, p ∈ r.1 → r.2 p = y) → firstAccept (candidates rs p) = some y
  | [], _, _, h, _ => by obtain ⟨r, hr, _⟩ := h; simp at hr
  | a :: rest, p, y, h, hy => by
    by_cases ha : p ∈ a.1
    · have := hy a (by simp) ha
      simp [candidates, ha, firstAccept, this]
    · obtain ⟨r, hr, hp⟩ := h
      have hr' : r ∈ rest := by
        rcases List.mem_cons.mp hr with rfl | h'
        · exact absurd hp ha
        · exact h'
      have ih := firstAccept_eq_of_agree rest p y ⟨r, hr', hp⟩ (fun r' h' => hy r' (List.mem_cons_of_mem _ h'))
      simpa [candidates, ha, firstAccept] using ih

variable [TopologicalSpace X] [TopologicalSpace Y]

theorem continuousWithinAt_accUnion {G : X → Y} {S : Set X} {x : X} (hx : x ∈ S) :
    ∀ (rs : List (Set X × (X → Y))), (∀ r ∈ rs, ∃ C, IsClosed C ∧ r.1 = C ∩ S) → (∀ r ∈ rs, ContinuousOn G r.1) →
      ContinuousWithinAt G (accUnion rs) x
  | [], _, _ => by
    have : accUnion ([] : List (Set X × (X → Y))) = ∅ := by ext p; simp [accUnion]
    rw [this]; exact continuousWithinAt_of_notMem_closure (by simp)
  | a :: rest, hcl, hc => by
    have hU : accUnion (a :: rest) = a.1 ∪ accUnion rest := by
      ext p; simp [accUnion]
    rw [hU]
    refine ContinuousWithinAt.union ?_ ?_
    · by_cases hxa : x ∈ a.1
      · exact hc a (by simp) x hxa
      · obtain ⟨C, hC, hCe⟩ := hcl a (by simp)
        apply continuousWithinAt_of_notMem_closure
        intro hmem
        have h1 : closure a.1 ⊆ C := by
          rw [hCe]; exact closure_minimal inter_subset_left hC
        exact hxa (by rw [hCe]; exact ⟨h1 hmem, hx⟩)
    · exact continuousWithinAt_accUnion hx rest (fun r hr => hcl r (List.mem_cons_of_mem _ hr))
        (fun r hr => hc r (List.mem_cons_of_mem _ hr))

/-- PASTING along the first-accept loop.  Finitely many regions `(A_i, g_i)`; every `A_i` is closed in `S`
    (`A_i = C_i ∩ S`, `C_i` closed); `g_i` is continuous on `A_i`; `g_i = g_j` on `A_i ∩ A_j`.  Then the function
    "value of the first region whose acceptance set contains `p`" is continuous on `⋃ A_i`, it is `some _` exactly
    on `⋃ A_i`, and on each `A_i` it IS `g_i`.  (`d` is only the value outside the union.) -/
theorem firstAccept_continuousOn_aux (S : Set X) (rs : List (Set X × (X → Y))) (d : Y)
    (hcl : ∀ r ∈ rs, ∃ C, IsClosed C ∧ r.1 = C ∩ S)
    (hc : ∀ r ∈ rs, ContinuousOn r.2 r.1)
    (hag : ∀ r ∈ rs, ∀ r' ∈ rs, ∀ p, p ∈ r.1 → p ∈ r'.1 → r.2 p = r'.2 p) :
    ContinuousOn (fun p => (firstAccept (candidates rs p)).getD d) (accUnion rs) ∧
      (∀ r ∈ rs, ∀ p ∈ r.1, firstAccept (candidates rs p) = some (r.2 p)) ∧
      (∀ p, p ∉ accUnion rs → firstAccept (candidates rs p) = none) := by
  have hval : ∀ r ∈ rs, ∀ p ∈ r.1, firstAccept (candidates rs p) = some (r.2 p) := fun r hr p hp =>
    firstAccept_eq_of_agree rs p (r.2 p) ⟨r, hr, hp⟩ (fun r' hr' hp' => hag r' hr' r hr p hp' hp)
  refine ⟨?_, hval, firstAccept_candidates_none rs⟩
  intro x hx
  obtain ⟨r0, hr0, hx0⟩ := hx
  have hxS : x ∈ S := by
    obtain ⟨C, _, hCe⟩ := hcl r0 hr0
    rw [hCe] at hx0; exact hx0.2
  refine continuousWithinAt_accUnion hxS rs hcl (fun r hr => ?_)
  refine (hc r hr).congr (fun p hp => ?_)
  simp [hval r hr p hp]

end Paste

/-! ### quantitative pasting: agreement up to η gives jumps bounded by η -/

section Jump
variable {X Y : Type}

/-- the first-accept loop returns the value of SOME accepting region -/
theorem firstAccept_candidates_some (rs : List (Set X × (X → Y))) (p : X) (h : p ∈ accUnion rs) :
    ∃ r ∈ rs, p ∈ r.1 ∧ firstAccept (candidates rs p) = some (r.2 p) := by
  cases hf : firstAccept (candidates rs p) with
  | none =>
    rw [firstAccept_eq_none] at hf
    obtain ⟨r, hr, hp⟩ := h
    have := hf _ (List.mem_map.mpr ⟨r, hr, rfl⟩)
    simp [hp] at this
  | some y =>
    obtain ⟨r, hr, he⟩ := List.mem_map.mp (firstAccept_mem hf)
    by_cases hp : p ∈ r.1
    · simp only [hp, if_true, Option.some.injEq] at he
      exact ⟨r, hr, hp, by rw [he]⟩
    · simp [hp] at he

theorem eventually_forall_mem_list {ι : Type} {f : Filter X} {P : ι → X → Prop} :
    ∀ l : List ι, (∀ r ∈ l, ∀ᶠ y in f, P r y) → ∀ᶠ y in f, ∀ r ∈ l, P r y
  | [], _ => by simp
  | a :: rest, h => by
    have h1 := h a (by simp)
    have h2 := eventually_forall_mem_list rest (fun r hr => h r (List.mem_cons_of_mem _ hr))
    filter_upwards [h1, h2] with y hy1 hy2 r hr
    rcases List.mem_cons.mp hr with rfl | hr'
    · exact hy1
    · exact hy2 r hr'

variable [TopologicalSpace X] [PseudoMetricSpace Y]

/-- QUANTITATIVE PASTING ("continuous up to jumps of η").  As `firstAccept_continuousOn`, but the handlers only agree
    up to `η` on the overlaps: `dist (g_i p) (g_j p) ≤ η` on `A_i ∩ A_j`.  Then around every point `x` of the union the
    first-accept function varies by at most `η + δ` for every `δ > 0`: its jumps are bounded by `η`.  (`η = 0` is
    continuity.) -/
theorem firstAccept_jump_bound_aux (S : Set X) (rs : List (Set X × (X → Y))) (d : Y) (η : ℝ)
    (hcl : ∀ r ∈ rs, ∃ C, IsClosed C ∧ r.1 = C ∩ S)
    (hc : ∀ r ∈ rs, ContinuousOn r.2 r.1)
    (hη : ∀ r ∈ rs, ∀ r' ∈ rs, ∀ p, p ∈ r.1 → p ∈ r'.1 → dist (r.2 p) (r'.2 p) ≤ η) :
    ∀ x ∈ accUnion rs, ∀ δ > 0, ∀ᶠ y in 𝓝[accUnion rs] x,
      dist ((firstAccept (candidates rs y)).getD d) ((firstAccept (candidates rs x)).getD d) ≤ η + δ := by
  intro x hx δ hδ
  obtain ⟨r0, hr0, hx0, hFx⟩ := firstAccept_candidates_some rs x hx
  have hxS : x ∈ S := by
    obtain ⟨C, _, hCe⟩ := hcl r0 hr0
    rw [hCe] at hx0; exact hx0.2
  have hev : ∀ r ∈ rs, ∀ᶠ y in 𝓝[accUnion rs] x, y ∈ r.1 → (x ∈ r.1 ∧ dist (r.2 y) (r.2 x) < δ) := by
    intro r hr
    by_cases hxr : x ∈ r.1
    · have hcont := hc r hr x hxr
      have h1 : ∀ᶠ y in 𝓝[r.1] x, dist (r.2 y) (r.2 x) < δ := hcont (Metric.ball_mem_nhds _ hδ)
      rw [eventually_nhdsWithin_iff] at h1
      refine nhdsWithin_le_nhds ?_
      filter_upwards [h1] with y hy hyr
      exact ⟨hxr, hy hyr⟩
    · obtain ⟨C, hC, hCe⟩ := hcl r hr
      have hxC : x ∉ C := fun h => hxr (by rw [hCe]; exact ⟨h, hxS⟩)
      refine nhdsWithin_le_nhds ?_
      filter_upwards [hC.isOpen_compl.mem_nhds hxC] with y hy hyr
      rw [hCe] at hyr
      exact absurd hyr.1 hy
  have hall := eventually_forall_mem_list rs hev
  filter_upwards [hall, self_mem_nhdsWithin] with y hy hyU
  obtain ⟨r, hr, hyr, hFy⟩ := firstAccept_candidates_some rs y hyU
  obtain ⟨hxr, hd⟩ := hy r hr hyr
  rw [hFy, hFx]
  simp only [Option.getD_some]
  calc dist (r.2 y) (r0.2 x) ≤ dist (r.2 y) (r.2 x) + dist (r.2 x) (r0.2 x) := dist_triangle _ _ _
    _ ≤ δ + η := add_le_add hd.le (hη r hr r0 hr0 x hxr hx0)
    _ = η + δ := add_comm _ _

end Jump
/-! ### list plumbing: `results`, `remap`, `scatter` -/

theorem zipWith_eq_map_of_forall {α β γ : Type} (F : α → β → γ) (f : β → γ) :
    ∀ (ks : List α) (l : List β), l.length ≤ ks.length → (∀ k, ∀ r ∈ l, F k r = f r) → List.zipWith F ks l = l.map f
  | _, [], _, _ => by simp
  | [], _ :: _, h, _ => by simp at h
  | k :: ks, x :: xs, h, hF => by
    simp only [List.zipWith_cons_cons, List.map_cons, hF k x (by simp), List.cons.injEq, true_and]
    exact zipWith_eq_map_of_forall F f ks xs (by simpa using h) (fun k r hr => hF k r (List.mem_cons_of_mem _ hr))

theorem firstAccept_map {γ δ : Type} (f : γ → δ) : ∀ rs : List (Option γ),
    (firstAccept rs).map f = firstAccept (rs.map (Option.map f))
  | [] => rfl
  | some _ :: _ => rfl
  | none :: rest => by simpa [firstAccept] using firstAccept_map f rest

theorem getD_set_real (l : List ℝ) (i c : Nat) (a : ℝ) :
    (l.set i a).getD c 0 = if c = i ∧ i < l.length then a else l.getD c 0 := by
  simp only [List.getD_eq_getElem?_getD, List.getElem?_set]
  by_cases h : i = c
  · subst h
    by_cases h2 : i < l.length
    · simp [h2]
    · simp [h2]
  · have : ¬ c = i := fun e => h e.symm
    simp [h, this]

theorem getD_zeros (n c : Nat) : (zeros n : List ℝ).getD c 0 = 0 := by
  simp only [zeros, zero_real, List.getD_eq_getElem?_getD, List.getElem?_replicate]
  split <;> simp

theorem scatter_length : ∀ (is : List Nat) (vs out : List ℝ), (scatter out is vs).length = out.length
  | [], _, _ => by simp [scatter]
  | _ :: _, [], _ => by simp [scatter]
  | i :: is, v :: vs, out => by simp [scatter, scatter_length is vs]

/-- every coordinate of `out[idx] = vals` depends continuously on the values (the indices are fixed) -/
theorem continuous_scatter_getD {Z : Type} [TopologicalSpace Z] :
    ∀ (is : List Nat) (fs : List (Z → ℝ)) (out : Z → List ℝ) (m : Nat),
      (∀ z, (out z).length = m) → (∀ c, Continuous fun z => (out z).getD c 0) → (∀ f ∈ fs, Continuous f) →
      ∀ c, Continuous fun z => (scatter (out z) is (fs.map (· z))).getD c 0
  | [], _, _, _, _, ho, _ => by simpa [scatter] using ho
  | _ :: _, [], _, _, _, ho, _ => by simpa [scatter] using ho
  | i :: is, f :: fs, out, m, hm, ho, hf => by
    intro c
    simp only [List.map_cons, scatter]
    refine continuous_scatter_getD is fs (fun z => (out z).set i (f z)) m (by simp [hm]) ?_
      (fun g hg => hf g (List.mem_cons_of_mem _ hg)) c
    intro c'
    by_cases h : c' = i ∧ i < m
    · have : (fun z => ((out z).set i (f z)).getD c' 0) = f := by
        funext z; rw [getD_set_real, hm z, if_pos h]
      rw [this]; exact hf f (by simp)
    · have : (fun z => ((out z).set i (f z)).getD c' 0) = fun z => (out z).getD c' 0 := by
        funext z; rw [getD_set_real, hm z, if_neg h]
      rw [this]; exact ho c'

/-- one coordinate of a remapped triple of gains as a continuous function of the triple -/
theorem continuous_remap3 (ch : List Nat) (n c : Nat) :
    Continuous fun v : Vec3 ℝ => (scatter (zeros n) ch (vecList v)).getD c 0 := by
  have := continuous_scatter_getD (Z := Vec3 ℝ) ch [fun v => v.1, fun v => v.2.1, fun v => v.2.2]
    (fun _ => zeros n) n (by simp [zeros]) (fun c => by simp only [getD_zeros]; exact continuous_const)
    (by
      intro f hf
      simp only [List.mem_cons, List.mem_nil_iff, or_false] at hf
      rcases hf with rfl | rfl | rfl <;> fun_prop) c
  simpa [vecList] using this

/-- `out = zeros(n); out[[c0, c1, c2]] = [v0, v1, v2]` read at channel `c` -/
theorem scatter3_getD (n c0 c1 c2 c : Nat) (v0 v1 v2 : ℝ) :
    (scatter (zeros n) [c0, c1, c2] [v0, v1, v2]).getD c 0 =
      if c = c2 ∧ c2 < n then v2 else if c = c1 ∧ c1 < n then v1 else if c = c0 ∧ c0 < n then v0 else 0 := by
  simp only [scatter, getD_set_real, getD_zeros, List.length_set]
  simp [zeros]

/-! ### the triplet handler with the acceptance slack as a parameter -/

/-- `Triplet.accepts` with the threshold `ε` in place of `-1e-11` -/
def Triplet.acceptsE (ε : ℝ) (P : Mat3 ℝ) (p : Vec3 ℝ) : Prop :=
  ε ≤ (Triplet.pv P p).1 ∧ ε ≤ (Triplet.pv P p).2.1 ∧ ε ≤ (Triplet.pv P p).2.2

theorem acceptsE_eps (P : Mat3 ℝ) (p : Vec3 ℝ) : Triplet.acceptsE tripletEps P p ↔ Triplet.accepts P p := Iff.rfl

open Classical in
/-- `Triplet.handle` with the threshold `ε` in place of `-1e-11` -/
noncomputable def Triplet.handleE (ε : ℝ) (P : Mat3 ℝ) (p : Vec3 ℝ) : Option (Vec3 ℝ) :=
  if Triplet.acceptsE ε P p then some (Triplet.gains P p) else none

/-- with the code's threshold this IS the model's `Triplet.handle` -/
theorem handleE_eps (P : Mat3 ℝ) (p : Vec3 ℝ) : Triplet.handleE tripletEps P p = Triplet.handle P p := by
  unfold Triplet.handleE Triplet.handle
  by_cases h : Triplet.accepts P p
  · rw [if_pos ((acceptsE_eps P p).mpr h), if_pos h]
  · rw [if_neg (fun h' => h ((acceptsE_eps P p).mp h')), if_neg h]

/-- a panner all of whose regions are triplets `(output channels, positions)`, threshold `ε` -/
noncomputable def tripletPannerE (ε : ℝ) (regions : List (List Nat × Mat3 ℝ)) (n : Nat) (p : Vec3 ℝ) :
    Option (List ℝ) :=
  firstAccept (regions.map fun r => remap r.1 n ((Triplet.handleE ε r.2 p).map vecList))

/-- with the code's threshold this IS the model's `PointSourcePanner.handle` on the triplet regions (the quad roots
    are irrelevant) -/
theorem tripletPannerE_eps (regions : List (List Nat × Mat3 ℝ)) (n : Nat) (roots : Nat → Option ℝ × Option ℝ)
    (p : Vec3 ℝ) :
    tripletPannerE tripletEps regions n p =
      PointSourcePanner.handle (regions.map fun r => Region.triplet r.1 r.2) n roots p := by
  unfold tripletPannerE PointSourcePanner.handle PointSourcePanner.results
  rw [zipWith_eq_map_of_forall _ (fun r : Region ℝ => remap r.channels n (r.handle (none, none) p))]
  · rw [List.map_map]
    congr 1
    apply List.map_congr_left
    intro r _
    simp [Region.channels, Region.handle, handleE_eps]
  · simp
  · intro k r hr
    obtain ⟨r', _, rfl⟩ := List.mem_map.mp hr
    simp [Region.handle]

/-! ### `pv · P = p` -/

/-- for an invertible position matrix the un-normalised gains reproduce the direction: `pv · P = p` -/
theorem comb3_pv (P : Mat3 ℝ) (hd : det3 P ≠ 0) (p : Vec3 ℝ) :
    comb3 (Triplet.pv P p).1 (Triplet.pv P p).2.1 (Triplet.pv P p).2.2 P = p := by
  obtain ⟨⟨a0, a1, a2⟩, ⟨b0, b1, b2⟩, ⟨c0, c1, c2⟩⟩ := P
  obtain ⟨p0, p1, p2⟩ := p
  simp only [det3] at hd
  simp only [Triplet.pv, vecMat, inv3, det3, comb3, add3, smul3]
  generalize hdef : (a0 * (b1 * c2 - b2 * c1) - a1 * (b0 * c2 - b2 * c0) + a2 * (b0 * c1 - b1 * c0)) = d at hd ⊢
  refine Prod.ext ?_ (Prod.ext ?_ ?_) <;> simp only <;> field_simp <;> rw [← hdef] <;> ring

theorem pv_ne_zero (P : Mat3 ℝ) (hd : det3 P ≠ 0) (p : Vec3 ℝ) (hp : p ≠ (0, 0, 0)) : Triplet.pv P p ≠ (0, 0, 0) := by
  intro h
  apply hp
  have := comb3_pv P hd p
  rw [h] at this
  rw [← this]
  simp [comb3, add3, smul3]

theorem list_ext_getD {a b : List ℝ} (hl : a.length = b.length) (h : ∀ c, a.getD c 0 = b.getD c 0) : a = b := by
  apply List.ext_getElem hl
  intro i h1 h2
  have := h i
  simpa [List.getD_eq_getElem?_getD, List.getElem?_eq_getElem h1, List.getElem?_eq_getElem h2] using this

/-! ### Lipschitz estimates for normalise-and-clip -/

/-- `clip(0, 1)` is 1-Lipschitz -/
theorem clip01_lipschitz (u v : ℝ) : |clip01 u - clip01 v| ≤ |u - v| := by
  simp only [clip01, min_real, max_real, zero_real, one_real]
  calc |min (max u 0) 1 - min (max v 0) 1| ≤ max |max u 0 - max v 0| |(1 : ℝ) - 1| := abs_min_sub_min_le_max _ _ _ _
    _ = |max u 0 - max v 0| := by simp
    _ ≤ |u - v| := abs_max_sub_max_le_abs _ _ _

theorem clip01_le_abs (u : ℝ) : clip01 u ≤ |u| := by
  have := clip01_lipschitz u 0
  have h0 : clip01 (0 : ℝ) = 0 := by simp [clip01]
  rw [h0, sub_zero, sub_zero] at this
  exact le_trans (le_abs_self _) this

/-- Cauchy–Schwarz for triples, in the form used below -/
theorem dot_le_mul_norm (x0 x1 x2 y0 y1 y2 a b : ℝ) (ha : 0 ≤ a) (hb : 0 ≤ b)
    (haa : a * a = x0 * x0 + x1 * x1 + x2 * x2) (hbb : b * b = y0 * y0 + y1 * y1 + y2 * y2) :
    x0 * y0 + x1 * y1 + x2 * y2 ≤ a * b := by
  by_contra h
  rw [not_le] at h
  have hab : 0 ≤ a * b := mul_nonneg ha hb
  have : (a * b) * (a * b) < (x0 * y0 + x1 * y1 + x2 * y2) * (x0 * y0 + x1 * y1 + x2 * y2) := by nlinarith
  have e : (a * b) * (a * b) = (x0 * x0 + x1 * x1 + x2 * x2) * (y0 * y0 + y1 * y1 + y2 * y2) := by
    rw [← haa, ← hbb]; ring
  nlinarith [mul_self_nonneg (x0 * y1 - x1 * y0), mul_self_nonneg (x0 * y2 - x2 * y0), mul_self_nonneg (x1 * y2 - x2 * y1)]

/-- normalisation is Lipschitz away from 0: if two triples differ by at most `δ` in every coordinate, their
    normalised coordinates differ by at most `3δ/‖x‖`. (`a = ‖x‖`, `b = ‖y‖`.) -/
theorem normalise_lipschitz (x0 x1 x2 y0 y1 y2 a b δ : ℝ) (ha : 0 < a) (hb : 0 < b)
    (haa : a * a = x0 * x0 + x1 * x1 + x2 * x2) (hbb : b * b = y0 * y0 + y1 * y1 + y2 * y2)
    (h0 : |x0 - y0| ≤ δ) (h1 : |x1 - y1| ≤ δ) (h2 : |x2 - y2| ≤ δ) :
    |x0 / a - y0 / b| ≤ 3 * δ / a ∧ |x1 / a - y1 / b| ≤ 3 * δ / a ∧ |x2 / a - y2 / b| ≤ 3 * δ / a := by
  have hδ : 0 ≤ δ := le_trans (abs_nonneg _) h0
  have cs := dot_le_mul_norm x0 x1 x2 y0 y1 y2 a b ha.le hb.le haa hbb
  have sq : ∀ d : ℝ, |d| ≤ δ → d * d ≤ δ * δ := fun d hd => by
    rw [← abs_mul_abs_self d]; exact mul_self_le_mul_self (abs_nonneg d) hd
  have q0 := sq _ h0
  have q1 := sq _ h1
  have q2 := sq _ h2
  have hsq : (a - b) ^ 2 ≤ (2 * δ) ^ 2 := by
    have e1 : (a - b) ^ 2 = a * a + b * b - 2 * (a * b) := by ring
    have e2 : (x0 - y0) * (x0 - y0) + (x1 - y1) * (x1 - y1) + (x2 - y2) * (x2 - y2) =
        (x0 * x0 + x1 * x1 + x2 * x2) + (y0 * y0 + y1 * y1 + y2 * y2) - 2 * (x0 * y0 + x1 * y1 + x2 * y2) := by ring
    have e3 : (2 * δ) ^ 2 = 4 * (δ * δ) := by ring
    have : 0 ≤ δ * δ := mul_self_nonneg δ
    rw [e1, e3]; linarith
  have hab : |a - b| ≤ 2 * δ := abs_le_of_sq_le_sq hsq (by linarith)
  have hy : ∀ y : ℝ, y * y ≤ b * b → |y| ≤ b := fun y hy =>
    abs_le_of_sq_le_sq (by rw [pow_two, pow_two]; exact hy) hb.le
  have key : ∀ x y : ℝ, |x - y| ≤ δ → |y| ≤ b → |x / a - y / b| ≤ 3 * δ / a := by
    intro x y hxy hyb
    have e : x / a - y / b = ((x - y) * b + y * (b - a)) / (a * b) := by field_simp; ring
    rw [e, abs_div, abs_of_pos (mul_pos ha hb), div_le_div_iff₀ (mul_pos ha hb) ha]
    have t1 : |(x - y) * b| ≤ δ * b := by rw [abs_mul, abs_of_pos hb]; exact mul_le_mul_of_nonneg_right hxy hb.le
    have t2 : |y * (b - a)| ≤ b * (2 * δ) := by
      rw [abs_mul]
      have : |b - a| ≤ 2 * δ := by rw [abs_sub_comm]; exact hab
      exact mul_le_mul hyb this (abs_nonneg _) hb.le
    have t3 := abs_add_le ((x - y) * b) (y * (b - a))
    calc |(x - y) * b + y * (b - a)| * a ≤ (3 * δ * b) * a := mul_le_mul_of_nonneg_right (by linarith) ha.le
      _ = 3 * δ * (a * b) := by ring
  have n0 := mul_self_nonneg y0
  have n1 := mul_self_nonneg y1
  have n2 := mul_self_nonneg y2
  exact ⟨key x0 y0 h0 (hy y0 (by linarith)), key x1 y1 h1 (hy y1 (by linarith)), key x2 y2 h2 (hy y2 (by linarith))⟩

/-! ### two triplets sharing an edge, third loudspeakers on opposite sides -/

/-- the neighbour of `P = (u, v, w)` across the edge `u v`: `(u, v, w')` with `w' = α·u + β·v − γ·w` -/
noncomputable def oppositeTriplet (P : Mat3 ℝ) (α β γ : ℝ) : Mat3 ℝ := (P.1, P.2.1, comb3 α β (-γ) P)

theorem det3_opposite (P : Mat3 ℝ) (α β γ : ℝ) : det3 (oppositeTriplet P α β γ) = -γ * det3 P := by
  obtain ⟨⟨a0, a1, a2⟩, ⟨b0, b1, b2⟩, ⟨c0, c1, c2⟩⟩ := P
  simp only [oppositeTriplet, det3, comb3, add3, smul3]
  ring

theorem comb3_opposite (P : Mat3 ℝ) (α β γ t0 t1 t2 : ℝ) :
    comb3 t0 t1 t2 (oppositeTriplet P α β γ) = comb3 (t0 + α * t2) (t1 + β * t2) (-γ * t2) P := by
  obtain ⟨⟨a0, a1, a2⟩, ⟨b0, b1, b2⟩, ⟨c0, c1, c2⟩⟩ := P
  simp only [oppositeTriplet, comb3, add3, smul3]
  refine Prod.ext ?_ (Prod.ext ?_ ?_) <;> simp only <;> ring

/-- the un-normalised gains of `P` in terms of those of its neighbour `Q` across the shared edge:
    `s = (t₀ + α t₂, t₁ + β t₂, −γ t₂)` -/
theorem pv_opposite (P : Mat3 ℝ) (hd : det3 P ≠ 0) (α β γ : ℝ) (hγ : γ ≠ 0) (p : Vec3 ℝ) :
    let t := Triplet.pv (oppositeTriplet P α β γ) p
    Triplet.pv P p = (t.1 + α * t.2.2, t.2.1 + β * t.2.2, -γ * t.2.2) := by
  intro t
  have hdQ : det3 (oppositeTriplet P α β γ) ≠ 0 := by
    rw [det3_opposite]; exact mul_ne_zero (neg_ne_zero.mpr hγ) hd
  have hp := comb3_pv (oppositeTriplet P α β γ) hdQ p
  rw [comb3_opposite] at hp
  conv_lhs => rw [← hp]
  exact pv_comb3 P hd _ _ _

/-- on the sliver (both triplets accept with slack `e`) the coefficient of the far loudspeaker is `O(e)` -/
theorem sliver_coeff (γ e t2 : ℝ) (hγ : 0 < γ) (he : 0 ≤ e) (h1 : -e ≤ t2) (h2 : -e ≤ -γ * t2) :
    |t2| ≤ max 1 (1 / γ) * e := by
  rw [abs_le]
  constructor
  · have : e ≤ max 1 (1 / γ) * e := le_mul_of_one_le_left he (le_max_left _ _)
    linarith
  · have h3 : t2 ≤ 1 / γ * e := by
      rw [one_div, inv_mul_eq_div, le_div_iff₀ hγ]; linarith
    have : 1 / γ * e ≤ max 1 (1 / γ) * e := mul_le_mul_of_nonneg_right (le_max_right _ _) he
    linarith

/-- squared Euclidean norm of a triple -/
def nsq (v : Vec3 ℝ) : ℝ := v.1 * v.1 + v.2.1 * v.2.1 + v.2.2 * v.2.2

theorem gains_eq (P : Mat3 ℝ) (p : Vec3 ℝ) :
    Triplet.gains P p = (clip01 ((Triplet.pv P p).1 / Real.sqrt (nsq (Triplet.pv P p))),
      clip01 ((Triplet.pv P p).2.1 / Real.sqrt (nsq (Triplet.pv P p))),
      clip01 ((Triplet.pv P p).2.2 / Real.sqrt (nsq (Triplet.pv P p)))) := rfl

/-- THE SLIVER BOUND (general slack `e ≥ 0`, i.e. threshold `−e`).  `P = (u, v, w)` invertible, its neighbour
    `Q = (u, v, w')` across the edge `u v` with `w' = α·u + β·v − γ·w`, `γ > 0` (third loudspeakers on opposite sides
    of the plane of the edge).  At a direction `p` that BOTH accept, with `‖pv‖ ≥ m > 0` for both, the two answers
    differ by at most `C·e` on each of the four loudspeakers `u, v, w, w'`:
    `C = 3 · max(|α|, |β|, γ + 1) · max(1, 1/γ) / m`. -/
theorem triplet_sliver_bound_general (P : Mat3 ℝ) (hd : det3 P ≠ 0) (α β γ e m : ℝ) (hγ : 0 < γ) (he : 0 ≤ e) (hm : 0 < m)
    (p : Vec3 ℝ) (hacc : Triplet.acceptsE (-e) P p) (hacc' : Triplet.acceptsE (-e) (oppositeTriplet P α β γ) p)
    (hmP : m * m ≤ nsq (Triplet.pv P p)) (hmQ : m * m ≤ nsq (Triplet.pv (oppositeTriplet P α β γ) p)) :
    let C := 3 * (max (max |α| |β|) (γ + 1) * max 1 (1 / γ)) / m
    let gP := Triplet.gains P p
    let gQ := Triplet.gains (oppositeTriplet P α β γ) p
    |gP.1 - gQ.1| ≤ C * e ∧ |gP.2.1 - gQ.2.1| ≤ C * e ∧ gP.2.2 ≤ C * e ∧ gQ.2.2 ≤ C * e := by
  intro C gP gQ
  have hs := pv_opposite P hd α β γ hγ.ne' p
  simp only at hs
  simp only [gP, gQ, gains_eq]
  simp only [Triplet.acceptsE] at hacc hacc'
  revert hacc hacc' hmP hmQ
  rw [hs]
  generalize Triplet.pv (oppositeTriplet P α β γ) p = t
  obtain ⟨t0, t1, t2⟩ := t
  intro hacc hacc' hmP hmQ
  simp only at hacc hacc' hmP hmQ ⊢
  set s0 := t0 + α * t2 with hs0
  set s1 := t1 + β * t2 with hs1
  set s2 := -γ * t2 with hs2
  set K := max 1 (1 / γ) with hK
  set M := max (max |α| |β|) (γ + 1) with hM
  have hK1 : 1 ≤ K := le_max_left _ _
  have hM1 : 1 ≤ M := le_trans (by linarith) (le_max_right _ _)
  have hMα : |α| ≤ M := le_trans (le_max_left _ _) (le_max_left _ _)
  have hMβ : |β| ≤ M := le_trans (le_max_right _ _) (le_max_left _ _)
  have hMγ : γ + 1 ≤ M := le_max_right _ _
  have hτ : |t2| ≤ K * e := sliver_coeff γ e t2 hγ he hacc'.2.2 hacc.2.2
  have hτ0 : 0 ≤ |t2| := abs_nonneg _
  have hKe : 0 ≤ K * e := mul_nonneg (by linarith) he
  set δ := M * (K * e) with hδ
  have hδ0 : 0 ≤ δ := mul_nonneg (by linarith) hKe
  have hmul : ∀ k : ℝ, |k| ≤ M → |k * t2| ≤ δ := by
    intro k hk
    rw [abs_mul]
    exact mul_le_mul hk hτ hτ0 (by linarith)
  have d0 : |s0 - t0| ≤ δ := by
    have : s0 - t0 = α * t2 := by rw [hs0]; ring
    rw [this]; exact hmul α hMα
  have d1 : |s1 - t1| ≤ δ := by
    have : s1 - t1 = β * t2 := by rw [hs1]; ring
    rw [this]; exact hmul β hMβ
  have d2 : |s2 - t2| ≤ δ := by
    have : s2 - t2 = (-(γ + 1)) * t2 := by rw [hs2]; ring
    rw [this]; apply hmul
    rw [abs_neg, abs_of_pos (by linarith)]; exact hMγ
  -- the two norms
  have hnP : 0 ≤ nsq (s0, s1, s2) := by simp only [nsq]; nlinarith [mul_self_nonneg s0, mul_self_nonneg s1, mul_self_nonneg s2]
  have hnQ : 0 ≤ nsq (t0, t1, t2) := by simp only [nsq]; nlinarith [mul_self_nonneg t0, mul_self_nonneg t1, mul_self_nonneg t2]
  set a := Real.sqrt (nsq (s0, s1, s2)) with ha
  set b := Real.sqrt (nsq (t0, t1, t2)) with hb
  have hma : m ≤ a := Real.le_sqrt_of_sq_le (by rw [pow_two]; exact hmP)
  have hmb : m ≤ b := Real.le_sqrt_of_sq_le (by rw [pow_two]; exact hmQ)
  have hapos : 0 < a := lt_of_lt_of_le hm hma
  have hbpos : 0 < b := lt_of_lt_of_le hm hmb
  have haa : a * a = s0 * s0 + s1 * s1 + s2 * s2 := Real.mul_self_sqrt hnP
  have hbb : b * b = t0 * t0 + t1 * t1 + t2 * t2 := Real.mul_self_sqrt hnQ
  obtain ⟨l0, l1, _⟩ := normalise_lipschitz s0 s1 s2 t0 t1 t2 a b δ hapos hbpos haa hbb d0 d1 d2
  have hCe : C * e = 3 * δ / m := by simp only [C, hδ]; ring
  have h3 : 3 * δ / a ≤ C * e := by
    rw [hCe]; exact div_le_div_of_nonneg_left (by linarith) hm hma
  have hδm : δ / m ≤ C * e := by
    rw [hCe]; exact div_le_div_of_nonneg_right (by linarith) hm.le
  refine ⟨?_, ?_, ?_, ?_⟩
  · exact le_trans (clip01_lipschitz _ _) (le_trans l0 h3)
  · exact le_trans (clip01_lipschitz _ _) (le_trans l1 h3)
  · refine le_trans (clip01_le_abs _) ?_
    rw [abs_div, abs_of_pos hapos]
    have : |s2| ≤ δ := by
      rw [hs2]; apply hmul
      rw [abs_neg, abs_of_pos hγ]; linarith
    calc |s2| / a ≤ δ / a := div_le_div_of_nonneg_right this hapos.le
      _ ≤ δ / m := div_le_div_of_nonneg_left hδ0 hm hma
      _ ≤ C * e := hδm
  · refine le_trans (clip01_le_abs _) ?_
    rw [abs_div, abs_of_pos hbpos]
    have : |t2| ≤ δ := by
      have := hmul 1 (by rw [abs_one]; exact hM1)
      rwa [one_mul] at this
    calc |t2| / b ≤ δ / b := div_le_div_of_nonneg_right this hbpos.le
      _ ≤ δ / m := div_le_div_of_nonneg_left hδ0 hm hmb
      _ ≤ C * e := hδm

/-- `‖p‖² ≤ (‖u‖² + ‖v‖² + ‖w‖²) · ‖pv‖²` for an invertible triplet (Cauchy–Schwarz on `p = pv · P`) -/
theorem pv_norm_lower (P : Mat3 ℝ) (hd : det3 P ≠ 0) (p : Vec3 ℝ) :
    nsq p ≤ (nsq P.1 + nsq P.2.1 + nsq P.2.2) * nsq (Triplet.pv P p) := by
  have hp := comb3_pv P hd p
  generalize Triplet.pv P p = s at hp ⊢
  obtain ⟨s0, s1, s2⟩ := s
  obtain ⟨⟨a0, a1, a2⟩, ⟨b0, b1, b2⟩, ⟨c0, c1, c2⟩⟩ := P
  simp only [comb3, add3, smul3] at hp
  rw [← hp]
  simp only [nsq]
  nlinarith [mul_self_nonneg (s0 * b0 - s1 * a0), mul_self_nonneg (s0 * c0 - s2 * a0), mul_self_nonneg (s1 * c0 - s2 * b0),
    mul_self_nonneg (s0 * b1 - s1 * a1), mul_self_nonneg (s0 * c1 - s2 * a1), mul_self_nonneg (s1 * c1 - s2 * b1),
    mul_self_nonneg (s0 * b2 - s1 * a2), mul_self_nonneg (s0 * c2 - s2 * a2), mul_self_nonneg (s1 * c2 - s2 * b2)]

theorem handle_some_iff {P : Mat3 ℝ} {p g : Vec3 ℝ} (h : Triplet.handle P p = some g) :
    Triplet.acceptsE (-(1 / 100000000000)) P p ∧ g = Triplet.gains P p := by
  unfold Triplet.handle at h
  split at h
  · rename_i hacc
    refine ⟨?_, (Option.some.inj h).symm⟩
    have := (acceptsE_eps P p).mpr hacc
    rwa [tripletEps_real] at this
  · simp at h

/-- THE SLIVER BOUND for the code's threshold −1e-11.  Loudspeaker positions of norm about 1 (`‖u‖² + ‖v‖² + ‖w‖² ≤ 4`
    for both triplets) and a direction of norm about 1 (`‖p‖² ≥ 3/4`).  If `Triplet.handle` of BOTH neighbours
    `P = (u, v, w)` and `Q = (u, v, w')`, `w' = α·u + β·v − γ·w`, `γ > 0`, returns a result at `p`, the two results differ
    on each of the four loudspeakers by at most `C · 1e-11`, `C = 15/2 · max(|α|, |β|, γ + 1) · max(1, 1/γ)`:
    whichever of the two regions the first-accept loop picks on the overlap, the gains change by at most that. -/
theorem triplet_sliver_bound (P : Mat3 ℝ) (hd : det3 P ≠ 0) (α β γ : ℝ) (hγ : 0 < γ) (p g g' : Vec3 ℝ)
    (hrows : nsq P.1 + nsq P.2.1 + nsq P.2.2 ≤ 4)
    (hrows' : nsq P.1 + nsq P.2.1 + nsq (comb3 α β (-γ) P) ≤ 4) (hp : 3 / 4 ≤ nsq p)
    (hg : Triplet.handle P p = some g) (hg' : Triplet.handle (oppositeTriplet P α β γ) p = some g') :
    let C := 15 / 2 * (max (max |α| |β|) (γ + 1) * max 1 (1 / γ))
    |g.1 - g'.1| ≤ C * (1 / 100000000000) ∧ |g.2.1 - g'.2.1| ≤ C * (1 / 100000000000) ∧
      |g.2.2 - 0| ≤ C * (1 / 100000000000) ∧ |0 - g'.2.2| ≤ C * (1 / 100000000000) := by
  intro C
  obtain ⟨hacc, rfl⟩ := handle_some_iff hg
  obtain ⟨hacc', rfl⟩ := handle_some_iff hg'
  have hdQ : det3 (oppositeTriplet P α β γ) ≠ 0 := by
    rw [det3_opposite]; exact mul_ne_zero (neg_ne_zero.mpr hγ.ne') hd
  have lower : ∀ R : Mat3 ℝ, det3 R ≠ 0 → nsq R.1 + nsq R.2.1 + nsq R.2.2 ≤ 4 → (2 / 5 : ℝ) * (2 / 5) ≤ nsq (Triplet.pv R p) := by
    intro R hR h4
    have h1 := pv_norm_lower R hR p
    have hn : 0 ≤ nsq (Triplet.pv R p) := by
      simp only [nsq]
      nlinarith [mul_self_nonneg (Triplet.pv R p).1, mul_self_nonneg (Triplet.pv R p).2.1, mul_self_nonneg (Triplet.pv R p).2.2]
    nlinarith
  have main := triplet_sliver_bound_general P hd α β γ (1 / 100000000000) (2 / 5) hγ (by norm_num) (by norm_num) p hacc hacc'
    (lower P hd hrows) (lower _ hdQ hrows')
  simp only at main
  have hC : 3 * (max (max |α| |β|) (γ + 1) * max 1 (1 / γ)) / (2 / 5) = C := by simp only [C]; ring
  rw [hC] at main
  obtain ⟨m0, m1, m2, m3⟩ := main
  have n2 : 0 ≤ (Triplet.gains P p).2.2 := clip01_nonneg _
  have n3 : 0 ≤ (Triplet.gains (oppositeTriplet P α β γ) p).2.2 := clip01_nonneg _
  refine ⟨m0, m1, ?_, ?_⟩
  · rw [sub_zero, abs_of_nonneg n2]; exact m2
  · rw [zero_sub, abs_neg, abs_of_nonneg n3]; exact m3


/-! ## Region-level material (moved here from Props/C12.lean so that Proofs/C12Ngon.lean and Proofs/C12Faces.lean can use it):
    uniqueness/agreement on edges, the quad and n-gon on their edges, piecewise continuity, closedness of the acceptance sets,
    `MeetInSharedFace`, `shared_face_agreement`, the all-triplet panner at slack 0. -/

/-! ### uniqueness of the gains on an edge -/

/-- the point `s·a + t·b` on the arc between loudspeakers `a` and `b` -/
noncomputable def edgePoint (s t : ℝ) (a b : Vec3 ℝ) : Vec3 ℝ := add3 (smul3 s a) (smul3 t b)

theorem cross_edge (α β s t : ℝ) (a b : Vec3 ℝ) :
    cross3 (edgePoint α β a b) (edgePoint s t a b) = smul3 (α * t - β * s) (cross3 a b) := by
  obtain ⟨a0, a1, a2⟩ := a
  obtain ⟨b0, b1, b2⟩ := b
  simp only [edgePoint, cross3, add3, smul3]
  refine Prod.ext ?_ (Prod.ext ?_ ?_) <;> simp only <;> ring

theorem smul3_eq_zero {k : ℝ} {v : Vec3 ℝ} (h : smul3 k v = (0, 0, 0)) (hv : v ≠ (0, 0, 0)) : k = 0 := by
  obtain ⟨v0, v1, v2⟩ := v
  simp only [smul3, Prod.mk.injEq] at h
  by_contra hk
  apply hv
  rcases h with ⟨h0, h1, h2⟩
  rw [(mul_eq_zero.mp h0).resolve_left hk, (mul_eq_zero.mp h1).resolve_left hk, (mul_eq_zero.mp h2).resolve_left hk]

/-- For independent `a`, `b` and a direction in their open cone there is at most one pair of non-negative gains
    of unit power whose velocity vector `α·a + β·b` is parallel to the direction. -/
theorem edge_unique (a b : Vec3 ℝ) (hab : cross3 a b ≠ (0, 0, 0)) (s t : ℝ) (hs : 0 < s) (ht : 0 < t)
    (α β α' β' : ℝ) (hα : 0 ≤ α) (hβ : 0 ≤ β) (hα' : 0 ≤ α') (hβ' : 0 ≤ β')
    (h1 : α * α + β * β = 1) (h1' : α' * α' + β' * β' = 1)
    (hp : cross3 (edgePoint α β a b) (edgePoint s t a b) = (0, 0, 0))
    (hp' : cross3 (edgePoint α' β' a b) (edgePoint s t a b) = (0, 0, 0)) :
    α = α' ∧ β = β' := by
  rw [cross_edge] at hp hp'
  have e := smul3_eq_zero hp hab
  have e' := smul3_eq_zero hp' hab
  have hst : 0 < s * t := mul_pos hs ht
  have hpar : α * β' = α' * β := by
    have : s * t * (α * β' - α' * β) = 0 := by
      have h3 : α * t = β * s := by linarith
      have h4 : α' * t = β' * s := by linarith
      calc s * t * (α * β' - α' * β) = (α * t) * (β' * s) - (α' * t) * (β * s) := by ring
        _ = (β * s) * (α' * t) - (α' * t) * (β * s) := by rw [h3, ← h4]
        _ = 0 := by ring
    rcases mul_eq_zero.mp this with h | h
    · exact absurd h hst.ne'
    · linarith
  have hαα : α * α = α' * α' := by
    calc α * α = α * α * (α' * α' + β' * β') := by rw [h1', mul_one]
      _ = α * α * (α' * α') + (α * β') * (α * β') := by ring
      _ = α * α * (α' * α') + (α' * β) * (α' * β) := by rw [hpar]
      _ = α' * α' * (α * α + β * β) := by ring
      _ = α' * α' := by rw [h1, mul_one]
  have hββ : β * β = β' * β' := by linarith
  exact ⟨(mul_self_inj hα hα').mp hαα, (mul_self_inj hβ hβ').mp hββ⟩

/-- ... and `(s, t)/‖(s, t)‖` is such a pair. -/
theorem edge_exists (a b : Vec3 ℝ) (s t : ℝ) (hs : 0 < s) (ht : 0 < t) :
    let r := Real.sqrt (s * s + t * t)
    0 ≤ s / r ∧ 0 ≤ t / r ∧ s / r * (s / r) + t / r * (t / r) = 1 ∧
      cross3 (edgePoint (s / r) (t / r) a b) (edgePoint s t a b) = (0, 0, 0) := by
  intro r
  have hpos : 0 < s * s + t * t := by positivity
  have hr : 0 < r := Real.sqrt_pos.mpr hpos
  have hrr : r * r = s * s + t * t := Real.mul_self_sqrt hpos.le
  refine ⟨by positivity, by positivity, ?_, ?_⟩
  · field_simp
    have : r ^ 2 = s ^ 2 + t ^ 2 := by rw [pow_two, hrr]; ring
    linarith
  · rw [cross_edge]
    have : s / r * t - t / r * s = 0 := by field_simp; ring
    rw [this]; simp [smul3]

/-! ### a triplet on one of its edges -/

def row (P : Mat3 ℝ) : Fin 3 → Vec3 ℝ
  | 0 => P.1
  | 1 => P.2.1
  | 2 => P.2.2

def coord (v : Vec3 ℝ) : Fin 3 → ℝ
  | 0 => v.1
  | 1 => v.2.1
  | 2 => v.2.2

theorem comb3_edge (P : Mat3 ℝ) (s t : ℝ) :
    edgePoint s t (row P 0) (row P 1) = comb3 s t 0 P ∧ edgePoint s t (row P 1) (row P 0) = comb3 t s 0 P ∧
    edgePoint s t (row P 0) (row P 2) = comb3 s 0 t P ∧ edgePoint s t (row P 2) (row P 0) = comb3 t 0 s P ∧
    edgePoint s t (row P 1) (row P 2) = comb3 0 s t P ∧ edgePoint s t (row P 2) (row P 1) = comb3 0 t s P := by
  obtain ⟨⟨a0, a1, a2⟩, ⟨b0, b1, b2⟩, ⟨c0, c1, c2⟩⟩ := P
  simp only [edgePoint, comb3, add3, smul3, row]
  refine ⟨?_, ?_, ?_, ?_, ?_, ?_⟩ <;> refine Prod.ext ?_ (Prod.ext ?_ ?_) <;> simp only <;> ring

/-- An invertible triplet with loudspeakers `i ≠ j`: every direction `s·P_i + t·P_j` (s, t ≥ 0, not both 0) is
    accepted and gets the gains `s/√(s²+t²)` on `i`, `t/√(s²+t²)` on `j` and exactly 0 on the third loudspeaker. -/
theorem triplet_on_edge (P : Mat3 ℝ) (hd : det3 P ≠ 0) (i j : Fin 3) (hij : i ≠ j) (s t : ℝ) (hs : 0 ≤ s)
    (ht : 0 ≤ t) (hne : s * s + t * t ≠ 0) :
    ∃ g, Triplet.handle P (edgePoint s t (row P i) (row P j)) = some g ∧
      coord g i = s / Real.sqrt (s * s + t * t) ∧ coord g j = t / Real.sqrt (s * s + t * t) ∧
      ∀ k, k ≠ i → k ≠ j → coord g k = 0 := by
  obtain ⟨e01, e10, e02, e20, e12, e21⟩ := comb3_edge P s t
  have z : (0 : ℝ) ≤ 0 := le_refl _
  fin_cases i <;> fin_cases j <;> simp only [ne_eq, not_true_eq_false, Fin.zero_eta, Fin.mk_one, Fin.reduceFinMk] at hij ⊢
  · have h := triplet_of_comb P hd s t 0 hs ht z (by simpa using hne)
    rw [e01, h]
    refine ⟨_, rfl, by simp [coord], by simp [coord], ?_⟩
    intro k hk0 hk1; fin_cases k <;> simp_all [coord]
  · have h := triplet_of_comb P hd s 0 t hs z ht (by simpa using hne)
    rw [e02, h]
    refine ⟨_, rfl, by simp [coord], by simp [coord], ?_⟩
    intro k hk0 hk1; fin_cases k <;> simp_all [coord]
  · have h := triplet_of_comb P hd t s 0 ht hs z (by simpa [add_comm] using hne)
    rw [e10, h]
    refine ⟨_, rfl, by simp [coord, add_comm], by simp [coord, add_comm], ?_⟩
    intro k hk0 hk1; fin_cases k <;> simp_all [coord]
  · have h := triplet_of_comb P hd 0 s t z hs ht (by simpa using hne)
    rw [e12, h]
    refine ⟨_, rfl, by simp [coord], by simp [coord], ?_⟩
    intro k hk0 hk1; fin_cases k <;> simp_all [coord]
  · have h := triplet_of_comb P hd t 0 s ht z hs (by simpa [add_comm] using hne)
    rw [e20, h]
    refine ⟨_, rfl, by simp [coord, add_comm], by simp [coord, add_comm], ?_⟩
    intro k hk0 hk1; fin_cases k <;> simp_all [coord]
  · have h := triplet_of_comb P hd 0 t s z ht hs (by simpa [add_comm] using hne)
    rw [e21, h]
    refine ⟨_, rfl, by simp [coord, add_comm], by simp [coord, add_comm], ?_⟩
    intro k hk0 hk1; fin_cases k <;> simp_all [coord]

/-- Two invertible triplets sharing the edge `a b` (at any row positions) both accept every direction of that
    edge and return the same gain for `a`, the same gain for `b`, and 0 for their respective third loudspeaker:
    crossing from one triplet into the other never changes the gains. -/
theorem edge_agreement (P Q : Mat3 ℝ) (hP : det3 P ≠ 0) (hQ : det3 Q ≠ 0) (i j i' j' : Fin 3) (hij : i ≠ j)
    (hij' : i' ≠ j') (ha : row P i = row Q i') (hb : row P j = row Q j') (s t : ℝ) (hs : 0 ≤ s) (ht : 0 ≤ t)
    (hne : s * s + t * t ≠ 0) :
    ∃ g g', Triplet.handle P (edgePoint s t (row P i) (row P j)) = some g ∧
      Triplet.handle Q (edgePoint s t (row P i) (row P j)) = some g' ∧
      coord g i = coord g' i' ∧ coord g j = coord g' j' ∧
      (∀ k, k ≠ i → k ≠ j → coord g k = 0) ∧ (∀ k, k ≠ i' → k ≠ j' → coord g' k = 0) := by
  obtain ⟨g, hg, gi, gj, gk⟩ := triplet_on_edge P hP i j hij s t hs ht hne
  obtain ⟨g', hg', gi', gj', gk'⟩ := triplet_on_edge Q hQ i' j' hij' s t hs ht hne
  rw [← ha, ← hb] at hg'
  exact ⟨g, g', hg, hg', by rw [gi, gi'], by rw [gj, gj'], gk, gk'⟩

/-! ### the bilinear quad on its edges (given the roots) -/

/-- `QuadRegion.handle` in closed form: the bilinear weights divided by their norm, scattered by `order`. -/
theorem quad_out_eq (q : QuadRegion ℝ) (p : Vec3 ℝ) (x y : ℝ) (out : List ℝ) (ho : isPermOfRange q.order 4 = true)
    (h : q.handle (some x) (some y) p = some out) :
    out = scatter (zeros 4) q.order ((QuadRegion.weights x y).map (· / Real.sqrt (sumsq (QuadRegion.weights x y)))) := by
  simp only [QuadRegion.handle] at h
  split at h
  · simp at h
  · simp only [Option.some.injEq] at h
    subst h
    unfold normalise norm
    have hs : sumsq (scatter (zeros 4) q.order (QuadRegion.weights x y)) = sumsq (QuadRegion.weights x y) := by
      simp only [QuadRegion.weights]
      rw [scatter4_sumsq ho]; simp [sumsq]; ring
    rw [hs, sqrt_real]
    generalize Real.sqrt (sumsq (QuadRegion.weights x y)) = m
    have hm := perm4_mem ho
    generalize q.order = o at hm ⊢
    simp only [List.mem_cons, List.mem_nil_iff, or_false] at hm
    rcases hm with rfl | rfl | rfl | rfl | rfl | rfl | rfl | rfl | rfl | rfl | rfl | rfl | rfl | rfl | rfl | rfl
        | rfl | rfl | rfl | rfl | rfl | rfl | rfl | rfl <;>
      simp [scatter, zeros, QuadRegion.weights, List.replicate]

/-- corner number `k` of the ordered quad (the `a, b, c, d` of `pan_axis`) -/
noncomputable def QuadRegion.corner (q : QuadRegion ℝ) (k : Nat) : Vec3 ℝ :=
  q.positions.getD (q.order.getD k 0) zero3

/-- On each of its four edges (one pan value 0 or 1) a quad gives `(1-w, w)/‖(1-w, w)‖` to the edge's two corners
    and exactly 0 to the other two. Corner order: 0-1 (y=0), 1-2 (x=1), 3-2 (y=1), 0-3 (x=0). -/
theorem quad_on_edge (q : QuadRegion ℝ) (p : Vec3 ℝ) (w : ℝ) (out : List ℝ) (ho : isPermOfRange q.order 4 = true) :
    let n := Real.sqrt ((1 - w) * (1 - w) + w * w)
    (q.handle (some w) (some 0) p = some out → out = scatter (zeros 4) q.order [(1 - w) / n, w / n, 0, 0]) ∧
    (q.handle (some 1) (some w) p = some out → out = scatter (zeros 4) q.order [0, (1 - w) / n, w / n, 0]) ∧
    (q.handle (some w) (some 1) p = some out → out = scatter (zeros 4) q.order [0, 0, w / n, (1 - w) / n]) ∧
    (q.handle (some 0) (some w) p = some out → out = scatter (zeros 4) q.order [(1 - w) / n, 0, 0, w / n]) := by
  intro n
  refine ⟨fun h => ?_, fun h => ?_, fun h => ?_, fun h => ?_⟩
  · rw [quad_out_eq q p w 0 out ho h]
    have : sumsq (QuadRegion.weights w (0 : ℝ)) = (1 - w) * (1 - w) + w * w := by simp [QuadRegion.weights, sumsq]
    rw [this]; simp [QuadRegion.weights, n]
  · rw [quad_out_eq q p 1 w out ho h]
    have : sumsq (QuadRegion.weights (1 : ℝ) w) = (1 - w) * (1 - w) + w * w := by simp [QuadRegion.weights, sumsq]
    rw [this]; simp [QuadRegion.weights, n]
  · rw [quad_out_eq q p w 1 out ho h]
    have : sumsq (QuadRegion.weights w (1 : ℝ)) = (1 - w) * (1 - w) + w * w := by
      simp [QuadRegion.weights, sumsq]; ring
    rw [this]; simp [QuadRegion.weights, n]
  · rw [quad_out_eq q p 0 w out ho h]
    have : sumsq (QuadRegion.weights (0 : ℝ) w) = (1 - w) * (1 - w) + w * w := by simp [QuadRegion.weights, sumsq]
    rw [this]; simp [QuadRegion.weights, n]

/-- A non-negative pair whose velocity vector is parallel to a direction of the open cone of `a`, `b` is, after
    normalisation, the VBAP pair of that direction. -/
theorem pair_agree (a b : Vec3 ℝ) (hab : cross3 a b ≠ (0, 0, 0)) (s t u v : ℝ) (hs : 0 < s) (ht : 0 < t)
    (hu : 0 ≤ u) (hv : 0 ≤ v) (huv : 0 < u * u + v * v)
    (hcol : cross3 (edgePoint u v a b) (edgePoint s t a b) = (0, 0, 0)) :
    u / Real.sqrt (u * u + v * v) = s / Real.sqrt (s * s + t * t) ∧
      v / Real.sqrt (u * u + v * v) = t / Real.sqrt (s * s + t * t) := by
  set m := Real.sqrt (u * u + v * v) with hm
  have hmpos : 0 < m := Real.sqrt_pos.mpr huv
  have hmm : m * m = u * u + v * v := Real.mul_self_sqrt huv.le
  rw [cross_edge] at hcol
  have hk := smul3_eq_zero hcol hab
  obtain ⟨e1, e2, e3, e4⟩ := edge_exists a b s t hs ht
  exact edge_unique a b hab s t hs ht (u / m) (v / m) _ _
    (div_nonneg hu hmpos.le) (div_nonneg hv hmpos.le) e1 e2 (by field_simp; nlinarith [hmm]) e3
    (by
      rw [cross_edge]
      have : u / m * t - v / m * s = (u * t - v * s) / m := by field_simp
      rw [this, hk]; simp [smul3])
    e4

/-- Agreement of the bilinear quad with VBAP on a shared edge (stated for the edge between corners 0 and 1,
    `y = 0`): if the direction lies in the open cone of the two corners and the quad's velocity vector
    `(1-x)·a + x·b` is parallel to the direction (which is what the selected root `x` stands for — the root selection
    of np.roots is a parameter of the model), then the quad returns exactly the pair `(s, t)/‖(s, t)‖` on those two
    corners — the pair every invertible triplet with the same edge returns (`triplet_on_edge`) — and 0 elsewhere. -/
theorem quad_edge_agreement (q : QuadRegion ℝ) (x s t : ℝ) (out : List ℝ) (ho : isPermOfRange q.order 4 = true)
    (hx0 : 0 ≤ x) (hx1 : x ≤ 1) (hs : 0 < s) (ht : 0 < t) (hab : cross3 (q.corner 0) (q.corner 1) ≠ (0, 0, 0))
    (hcol : cross3 (edgePoint (1 - x) x (q.corner 0) (q.corner 1)) (edgePoint s t (q.corner 0) (q.corner 1)) = (0, 0, 0))
    (h : q.handle (some x) (some 0) (edgePoint s t (q.corner 0) (q.corner 1)) = some out) :
    out = scatter (zeros 4) q.order [s / Real.sqrt (s * s + t * t), t / Real.sqrt (s * s + t * t), 0, 0] := by
  rw [(quad_on_edge q _ x out ho).1 h]
  have hpos : 0 < (1 - x) * (1 - x) + x * x := by nlinarith [mul_self_nonneg (1 - x), mul_self_nonneg x]
  obtain ⟨h1, h2⟩ := pair_agree _ _ hab s t (1 - x) x hs ht (by linarith) hx0 hpos hcol
  simp only [h1, h2]

/-- The same on the other three edges: corners 1-2 (`x = 1`), 3-2 (`y = 1`), 0-3 (`x = 0`). -/
theorem quad_edge_agreement' (q : QuadRegion ℝ) (w s t : ℝ) (out : List ℝ) (ho : isPermOfRange q.order 4 = true)
    (hw0 : 0 ≤ w) (hw1 : w ≤ 1) (hs : 0 < s) (ht : 0 < t) :
    (cross3 (q.corner 1) (q.corner 2) ≠ (0, 0, 0) →
      cross3 (edgePoint (1 - w) w (q.corner 1) (q.corner 2)) (edgePoint s t (q.corner 1) (q.corner 2)) = (0, 0, 0) →
      q.handle (some 1) (some w) (edgePoint s t (q.corner 1) (q.corner 2)) = some out →
      out = scatter (zeros 4) q.order [0, s / Real.sqrt (s * s + t * t), t / Real.sqrt (s * s + t * t), 0]) ∧
    (cross3 (q.corner 3) (q.corner 2) ≠ (0, 0, 0) →
      cross3 (edgePoint (1 - w) w (q.corner 3) (q.corner 2)) (edgePoint s t (q.corner 3) (q.corner 2)) = (0, 0, 0) →
      q.handle (some w) (some 1) (edgePoint s t (q.corner 3) (q.corner 2)) = some out →
      out = scatter (zeros 4) q.order [0, 0, t / Real.sqrt (s * s + t * t), s / Real.sqrt (s * s + t * t)]) ∧
    (cross3 (q.corner 0) (q.corner 3) ≠ (0, 0, 0) →
      cross3 (edgePoint (1 - w) w (q.corner 0) (q.corner 3)) (edgePoint s t (q.corner 0) (q.corner 3)) = (0, 0, 0) →
      q.handle (some 0) (some w) (edgePoint s t (q.corner 0) (q.corner 3)) = some out →
      out = scatter (zeros 4) q.order [s / Real.sqrt (s * s + t * t), 0, 0, t / Real.sqrt (s * s + t * t)]) := by
  have hpos : 0 < (1 - w) * (1 - w) + w * w := by nlinarith [mul_self_nonneg (1 - w), mul_self_nonneg w]
  refine ⟨fun hab hcol h => ?_, fun hab hcol h => ?_, fun hab hcol h => ?_⟩
  · rw [(quad_on_edge q _ w out ho).2.1 h]
    obtain ⟨h1, h2⟩ := pair_agree _ _ hab s t (1 - w) w hs ht (by linarith) hw0 hpos hcol
    simp only [h1, h2]
  · rw [(quad_on_edge q _ w out ho).2.2.1 h]
    obtain ⟨h1, h2⟩ := pair_agree _ _ hab s t (1 - w) w hs ht (by linarith) hw0 hpos hcol
    simp only [h1, h2]
  · rw [(quad_on_edge q _ w out ho).2.2.2 h]
    obtain ⟨h1, h2⟩ := pair_agree _ _ hab s t (1 - w) w hs ht (by linarith) hw0 hpos hcol
    simp only [h1, h2]

/-! ### the virtual n-gon on its outer edges -/

theorem sumsq_replicate_zero (n : Nat) : sumsq (List.replicate n (0 : ℝ)) = 0 := by
  induction n with
  | zero => simp [sumsq]
  | succ k ih => simp [List.replicate_succ, sumsq, ih]

theorem sumsq_set : ∀ (l : List ℝ) (i : Nat) (x : ℝ), i < l.length →
    sumsq (l.set i x) = sumsq l - l.getD i 0 * l.getD i 0 + x * x
  | [], i, x, h => by simp at h
  | y :: ys, 0, x, _ => by simp [sumsq]; ring
  | y :: ys, i + 1, x, h => by
    have := sumsq_set ys i x (by simpa using h)
    simp only [List.set_cons_succ, sumsq, this, List.getD_cons_succ]
    ring

theorem zipWith_add_zero : ∀ (v cd : List ℝ), v.length ≤ cd.length →
    List.zipWith (fun x d => x + 0 * d) v cd = v
  | [], _, _ => by simp
  | x :: xs, [], h => by simp at h
  | x :: xs, d :: ds, h => by
    simp only [List.zipWith_cons_cons, zero_mul, add_zero, List.cons.injEq, true_and]
    have := zipWith_add_zero xs ds (by simpa using h)
    simpa using this

/-- the candidate answer of one inner triplet `r` of a virtual n-gon -/
noncomputable def VirtualNgon.candidate (g : VirtualNgon ℝ) (r : List Nat × Mat3 ℝ) (p : Vec3 ℝ) : Option (List ℝ) :=
  (remap r.1 (g.centreDownmix.length + 1) ((Triplet.handle r.2 p).map vecList)).map (VirtualNgon.mix g.centreDownmix)

theorem ngon_handle_eq (g : VirtualNgon ℝ) (p : Vec3 ℝ) :
    g.handle p = firstAccept (g.regions.map fun r => g.candidate r p) := rfl

/-- On the outer edge between two consecutive vertices `oi`, `oj` of a virtual n-gon, the inner triplet
    `(oi, oj, centre)` answers with exactly the VBAP pair `(s, t)/‖(s, t)‖` on `oi`, `oj` and 0 on every other
    loudspeaker: nothing is sent to the virtual centre, so the centre downmix and the renormalisation change
    nothing. -/
theorem ngon_candidate_on_edge (g : VirtualNgon ℝ) (oi oj : Nat) (P : Mat3 ℝ) (hd : det3 P ≠ 0)
    (hij : oi ≠ oj) (hi : oi < g.centreDownmix.length) (hj : oj < g.centreDownmix.length)
    (s t : ℝ) (hs : 0 ≤ s) (ht : 0 ≤ t) (hne : s * s + t * t ≠ 0) :
    g.candidate ([oi, oj, g.centreDownmix.length], P) (edgePoint s t P.1 P.2.1) =
      some (((zeros g.centreDownmix.length).set oi (s / Real.sqrt (s * s + t * t))).set oj
        (t / Real.sqrt (s * s + t * t))) := by
  set n := g.centreDownmix.length with hn
  set r := Real.sqrt (s * s + t * t) with hr
  have hpos : 0 < s * s + t * t := lt_of_le_of_ne (by nlinarith [mul_self_nonneg s, mul_self_nonneg t]) (Ne.symm hne)
  have hrpos : 0 < r := Real.sqrt_pos.mpr hpos
  have hrr : r * r = s * s + t * t := Real.mul_self_sqrt hpos.le
  have hp : edgePoint s t P.1 P.2.1 = comb3 s t 0 P := (comb3_edge P s t).1
  have hh := triplet_of_comb P hd s t 0 hs ht (le_refl _) (by simpa using hne)
  simp only [mul_zero, add_zero] at hh
  unfold VirtualNgon.candidate
  simp only [hp, hh, Option.map_some, remap, vecList, scatter, zero_div]
  congr 1
  unfold VirtualNgon.mix
  simp only [← hn]
  have hlen : ∀ (l : List ℝ) a b c, (((l.set oi a).set oj b).set n c).length = l.length := by simp
  have hlast : ((((zeros (n + 1) : List ℝ).set oi (s / r)).set oj (t / r)).set n 0).getD n zero = 0 := by
    simp [zeros, List.getD_eq_getElem?_getD]
  rw [hlast]
  have htake : ((((zeros (n + 1) : List ℝ).set oi (s / r)).set oj (t / r)).set n 0).take n
      = ((zeros n : List ℝ).set oi (s / r)).set oj (t / r) := by
    simp only [List.take_set, zeros, List.take_replicate]
    have : min n (n + 1) = n := by omega
    rw [this]
    apply List.set_eq_of_length_le; simp
  rw [htake, zipWith_add_zero _ _ (by simp [zeros, hn])]
  have hss : sumsq (((zeros n : List ℝ).set oi (s / r)).set oj (t / r)) = 1 := by
    rw [sumsq_set _ _ _ (by simp [zeros]; exact hj), sumsq_set _ _ _ (by simp [zeros]; exact hi)]
    have h0 : ((zeros n : List ℝ).set oi (s / r)).getD oj 0 = 0 := by
      simp [zeros, List.getD_eq_getElem?_getD, hij, hj]
    have h1 : (zeros n : List ℝ).getD oi 0 = 0 := by simp [zeros, List.getD_eq_getElem?_getD, hi]
    rw [h0, h1]
    simp only [zeros, zero_real, sumsq_replicate_zero]
    field_simp
    nlinarith [hrr]
  unfold normalise norm
  rw [hss, sqrt_real, Real.sqrt_one]
  simp

theorem firstAccept_skip {γ : Type} : ∀ (pre : List (Option γ)) (rest : List (Option γ)),
    (∀ r ∈ pre, r = none) → firstAccept (pre ++ rest) = firstAccept rest
  | [], _, _ => rfl
  | x :: xs, rest, h => by
    have hx : x = none := h x (by simp)
    subst hx
    simp only [List.cons_append, firstAccept]
    exact firstAccept_skip xs rest (fun r hr => h r (by simp [hr]))

/-- n-gon version of edge agreement: if the inner triplets tried before `(oi, oj, centre)` reject the direction,
    the virtual n-gon returns on its outer edge `oi`-`oj` exactly the pair `(s, t)/‖(s, t)‖` that every invertible
    triplet with the same edge returns (`triplet_on_edge`), and 0 on its other loudspeakers.  (Without the hypothesis
    on the earlier triplets the statement is false in exact arithmetic: within 1e-11 of a vertex a neighbouring inner
    triplet may accept first and differ by O(1e-11) — the acceptance slack; that is searched, not proved.) -/
theorem ngon_on_edge (g : VirtualNgon ℝ) (oi oj : Nat) (P : Mat3 ℝ) (pre post : List (List Nat × Mat3 ℝ))
    (hreg : g.regions = pre ++ ([oi, oj, g.centreDownmix.length], P) :: post) (hd : det3 P ≠ 0)
    (hij : oi ≠ oj) (hi : oi < g.centreDownmix.length) (hj : oj < g.centreDownmix.length)
    (s t : ℝ) (hs : 0 ≤ s) (ht : 0 ≤ t) (hne : s * s + t * t ≠ 0)
    (hpre : ∀ r ∈ pre, g.candidate r (edgePoint s t P.1 P.2.1) = none) :
    g.handle (edgePoint s t P.1 P.2.1) =
      some (((zeros g.centreDownmix.length).set oi (s / Real.sqrt (s * s + t * t))).set oj
        (t / Real.sqrt (s * s + t * t))) := by
  rw [ngon_handle_eq, hreg, List.map_append, firstAccept_skip _ _ (by
    intro r hr
    obtain ⟨r', hr', rfl⟩ := List.mem_map.mp hr
    exact hpre r' hr')]
  simp only [List.map_cons, ngon_candidate_on_edge g oi oj P hd hij hi hj s t hs ht hne, firstAccept]

/-! ### why edge agreement cannot extend to global continuity: a non-planar quad is two-valued

    Kernel-checked counter-example inside the model.  For a non-planar quad the ray of a direction can meet the bilinear
    surface twice inside the patch: both quadratics of `pan_axis` then have two roots in [0, 1], both root pairs pass the
    acceptance test of `QuadRegion.handle`, and the two answers differ.  The real code takes "the first root in range"
    in the order np.roots returns them, so which answer is given can change between neighbouring directions
    (known finding `quad-two-in-range-roots`, reproduced on the real code by harness/c12.py). -/

/-- a non-planar ("twisted") quad with rational corners: z alternates 1, -1/2, 1, -1/2 around the square -/
noncomputable def twistedQuad : QuadRegion ℝ :=
  ⟨[(-1/2, -1/2, 1), (1/2, -1/2, -1/2), (1/2, 1/2, 1), (-1/2, 1/2, -1/2)], [0, 1, 2, 3]⟩

/-- ... and a direction whose ray meets the quad's bilinear surface twice -/
noncomputable def twistedDir : Vec3 ℝ := (1, 1, 7/4)

theorem quad_two_valued_witness :
    -- both pan_axis quadratics at this direction are genuine quadratics with the two roots 3/4 and 5/6, both inside [0, 1]
    (let P := (twistedQuad.polys twistedDir).1
     P.1 ≠ 0 ∧ P.1 * (3/4) ^ 2 + P.2.1 * (3/4) + P.2.2 = 0 ∧ P.1 * (5/6) ^ 2 + P.2.1 * (5/6) + P.2.2 = 0) ∧
    (let P := (twistedQuad.polys twistedDir).2
     P.1 ≠ 0 ∧ P.1 * (3/4) ^ 2 + P.2.1 * (3/4) + P.2.2 = 0 ∧ P.1 * (5/6) ^ 2 + P.2.1 * (5/6) + P.2.2 = 0) ∧
    -- both root pairs give bilinear weights whose velocity vector is a POSITIVE multiple of the direction
    comb (QuadRegion.weights (3/4 : ℝ) (3/4)) twistedQuad.positions = smul3 (1/4) twistedDir ∧
    comb (QuadRegion.weights (5/6 : ℝ) (5/6)) twistedQuad.positions = smul3 (1/3) twistedDir ∧
    -- so `QuadRegion.handle` accepts the direction with either pair, and the two answers differ
    ∃ g1 g2, twistedQuad.handle (some (3/4)) (some (3/4)) twistedDir = some g1 ∧
      twistedQuad.handle (some (5/6)) (some (5/6)) twistedDir = some g2 ∧
      g1.getD 2 0 = 9 * g1.getD 0 0 ∧ g2.getD 2 0 = 25 * g2.getD 0 0 ∧ 0 < g1.getD 0 0 ∧ 0 < g2.getD 0 0 ∧ g1 ≠ g2 := by
  refine ⟨?_, ?_, ?_, ?_, ?_⟩
  · simp only [QuadRegion.polys, QuadRegion.panPoly, twistedQuad, twistedDir, List.getD_cons_zero, List.getD_cons_succ,
      dot3, cross3, sub3, add3]
    norm_num
  · simp only [QuadRegion.polys, QuadRegion.panPoly, twistedQuad, twistedDir, List.getD_cons_zero, List.getD_cons_succ,
      dot3, cross3, sub3, add3]
    norm_num
  · simp only [comb, QuadRegion.weights, twistedQuad, twistedDir, add3, smul3, zero3, one_real, zero_real]
    norm_num
  · simp only [comb, QuadRegion.weights, twistedQuad, twistedDir, add3, smul3, zero3, one_real, zero_real]
    norm_num
  · have hs1 : scatter (zeros 4) twistedQuad.order (QuadRegion.weights (3/4 : ℝ) (3/4)) = [1/16, 3/16, 9/16, 3/16] := by
      simp only [twistedQuad, scatter, zeros, QuadRegion.weights, one_real, zero_real, List.replicate, List.set]
      norm_num
    have hs2 : scatter (zeros 4) twistedQuad.order (QuadRegion.weights (5/6 : ℝ) (5/6)) = [1/36, 5/36, 25/36, 5/36] := by
      simp only [twistedQuad, scatter, zeros, QuadRegion.weights, one_real, zero_real, List.replicate, List.set]
      norm_num
    have ha1 : ¬ dot3 (comb ([1/16, 3/16, 9/16, 3/16] : List ℝ) twistedQuad.positions) twistedDir ≤ zero := by
      simp only [comb, twistedQuad, twistedDir, add3, smul3, zero3, dot3, zero_real]
      norm_num
    have ha2 : ¬ dot3 (comb ([1/36, 5/36, 25/36, 5/36] : List ℝ) twistedQuad.positions) twistedDir ≤ zero := by
      simp only [comb, twistedQuad, twistedDir, add3, smul3, zero3, dot3, zero_real]
      norm_num
    have hn1 : 0 < norm ([1/16, 3/16, 9/16, 3/16] : List ℝ) := by
      simp only [norm, sqrt_real, sumsq, zero_real]; apply Real.sqrt_pos.mpr; norm_num
    have hn2 : 0 < norm ([1/36, 5/36, 25/36, 5/36] : List ℝ) := by
      simp only [norm, sqrt_real, sumsq, zero_real]; apply Real.sqrt_pos.mpr; norm_num
    refine ⟨normalise [1/16, 3/16, 9/16, 3/16], normalise [1/36, 5/36, 25/36, 5/36], ?_, ?_, ?_, ?_, ?_, ?_, ?_⟩
    · simp only [QuadRegion.handle, hs1, if_neg ha1]
    · simp only [QuadRegion.handle, hs2, if_neg ha2]
    · simp only [normalise, List.map_cons, List.map_nil, List.getD_cons_zero, List.getD_cons_succ]; ring
    · simp only [normalise, List.map_cons, List.map_nil, List.getD_cons_zero, List.getD_cons_succ]; ring
    · simp only [normalise, List.map_cons, List.getD_cons_zero]; positivity
    · simp only [normalise, List.map_cons, List.getD_cons_zero]; positivity
    · intro h
      have h0 : (normalise ([1/16, 3/16, 9/16, 3/16] : List ℝ)).getD 0 0 = (normalise ([1/36, 5/36, 25/36, 5/36] : List ℝ)).getD 0 0 := by rw [h]
      have h2 : (normalise ([1/16, 3/16, 9/16, 3/16] : List ℝ)).getD 2 0 = (normalise ([1/36, 5/36, 25/36, 5/36] : List ℝ)).getD 2 0 := by rw [h]
      simp only [normalise, List.map_cons, List.map_nil, List.getD_cons_zero, List.getD_cons_succ] at h0 h2
      have p1 : (0 : ℝ) < 1 / 16 / norm ([1/16, 3/16, 9/16, 3/16] : List ℝ) := by positivity
      have e1 : (9 / 16 : ℝ) / norm ([1/16, 3/16, 9/16, 3/16] : List ℝ) = 9 * (1 / 16 / norm ([1/16, 3/16, 9/16, 3/16] : List ℝ)) := by ring
      have e2 : (25 / 36 : ℝ) / norm ([1/36, 5/36, 25/36, 5/36] : List ℝ) = 25 * (1 / 36 / norm ([1/36, 5/36, 25/36, 5/36] : List ℝ)) := by ring
      rw [e1, e2, ← h0] at h2
      linarith

/-! ### piecewise continuity -/

theorem continuous_clip01 : Continuous (clip01 : ℝ → ℝ) := by
  have : (clip01 : ℝ → ℝ) = fun x => min (max x 0) 1 := by
    funext x; simp [clip01]
  rw [this]
  exact (continuous_id.max continuous_const).min continuous_const

theorem continuous_pv (P : Mat3 ℝ) : Continuous (fun p : Vec3 ℝ => Triplet.pv P p) := by
  obtain ⟨⟨a0, a1, a2⟩, ⟨b0, b1, b2⟩, ⟨c0, c1, c2⟩⟩ := P
  simp only [Triplet.pv, vecMat, inv3]
  fun_prop

/-- normalise-and-clip as a function of the un-normalised gains -/
noncomputable def normClip (v : Vec3 ℝ) : Vec3 ℝ :=
  (clip01 (v.1 / Real.sqrt (v.1 * v.1 + v.2.1 * v.2.1 + v.2.2 * v.2.2)),
   clip01 (v.2.1 / Real.sqrt (v.1 * v.1 + v.2.1 * v.2.1 + v.2.2 * v.2.2)),
   clip01 (v.2.2 / Real.sqrt (v.1 * v.1 + v.2.1 * v.2.1 + v.2.2 * v.2.2)))

theorem gains_eq_normClip (P : Mat3 ℝ) (p : Vec3 ℝ) : Triplet.gains P p = normClip (Triplet.pv P p) := rfl

theorem sqrt_ne_zero_of_ne {v : Vec3 ℝ} (hv : v ≠ (0, 0, 0)) :
    Real.sqrt (v.1 * v.1 + v.2.1 * v.2.1 + v.2.2 * v.2.2) ≠ 0 := by
  obtain ⟨x, y, z⟩ := v
  simp only
  have h0 : 0 ≤ x * x + y * y + z * z := by nlinarith [mul_self_nonneg x, mul_self_nonneg y, mul_self_nonneg z]
  intro h
  have hz := (Real.sqrt_eq_zero h0).mp h
  apply hv
  have hx : x * x = 0 := by nlinarith [mul_self_nonneg x, mul_self_nonneg y, mul_self_nonneg z]
  have hy : y * y = 0 := by nlinarith [mul_self_nonneg x, mul_self_nonneg y, mul_self_nonneg z]
  have hz' : z * z = 0 := by nlinarith [mul_self_nonneg x, mul_self_nonneg y, mul_self_nonneg z]
  rw [mul_self_eq_zero.mp hx, mul_self_eq_zero.mp hy, mul_self_eq_zero.mp hz']

theorem continuousOn_normClip : ContinuousOn normClip {v : Vec3 ℝ | v ≠ (0, 0, 0)} := by
  have hn : ContinuousOn (fun v : Vec3 ℝ => Real.sqrt (v.1 * v.1 + v.2.1 * v.2.1 + v.2.2 * v.2.2))
      {v : Vec3 ℝ | v ≠ (0, 0, 0)} := by
    apply Continuous.continuousOn; fun_prop
  have hne : ∀ v ∈ {v : Vec3 ℝ | v ≠ (0, 0, 0)},
      Real.sqrt (v.1 * v.1 + v.2.1 * v.2.1 + v.2.2 * v.2.2) ≠ 0 := fun v hv => sqrt_ne_zero_of_ne hv
  unfold normClip
  refine ContinuousOn.prodMk ?_ (ContinuousOn.prodMk ?_ ?_)
  · exact continuous_clip01.comp_continuousOn ((continuous_fst.continuousOn).div hn hne)
  · exact continuous_clip01.comp_continuousOn (((continuous_fst.comp continuous_snd).continuousOn).div hn hne)
  · exact continuous_clip01.comp_continuousOn (((continuous_snd.comp continuous_snd).continuousOn).div hn hne)

/-- The gains of a triplet are a continuous function of the direction wherever the un-normalised gains are not
    the zero vector (for an invertible `P`: for every `p ≠ 0`). -/
theorem triplet_continuousOn (P : Mat3 ℝ) :
    ContinuousOn (fun p : Vec3 ℝ => Triplet.gains P p) {p | Triplet.pv P p ≠ (0, 0, 0)} := by
  have h : (fun p : Vec3 ℝ => Triplet.gains P p) = normClip ∘ (fun p => Triplet.pv P p) := by
    funext p; exact gains_eq_normClip P p
  rw [h]
  exact continuousOn_normClip.comp (continuous_pv P).continuousOn (fun p hp => hp)

/-- On its acceptance set the triplet's answer IS that continuous function (and outside it is "no result"). -/
theorem triplet_handle_continuousOn (P : Mat3 ℝ) :
    ∃ G : Vec3 ℝ → Vec3 ℝ, ContinuousOn G {p | Triplet.pv P p ≠ (0, 0, 0)} ∧
      (∀ p, Triplet.accepts P p → Triplet.handle P p = some (G p)) ∧
      (∀ p, ¬ Triplet.accepts P p → Triplet.handle P p = none) :=
  ⟨fun p => Triplet.gains P p, triplet_continuousOn P,
    fun p hp => by simp [Triplet.handle, hp], fun p hp => by simp [Triplet.handle, hp]⟩

/-! ### stereo wrapper -/

/-- the two outputs of `StereoPanDownmix.handle` as explicit real functions of the five inner gains -/
noncomputable def stereoL (g : ℝ × ℝ × ℝ × ℝ × ℝ) : ℝ :=
  let A := g.1 + Real.sqrt 3 / 3 * g.2.2.1 + Real.sqrt (1 / 2) * g.2.2.2.1
  let B := g.2.1 + Real.sqrt 3 / 3 * g.2.2.1 + Real.sqrt (1 / 2) * g.2.2.2.2
  A / Real.sqrt (A * A + (B * B + 0)) *
    (1 / 2 : ℝ) ^ (1 / 2 * max g.2.2.2.1 g.2.2.2.2 / (max (max g.1 g.2.1) g.2.2.1 + max g.2.2.2.1 g.2.2.2.2))

noncomputable def stereoR (g : ℝ × ℝ × ℝ × ℝ × ℝ) : ℝ :=
  let A := g.1 + Real.sqrt 3 / 3 * g.2.2.1 + Real.sqrt (1 / 2) * g.2.2.2.1
  let B := g.2.1 + Real.sqrt 3 / 3 * g.2.2.1 + Real.sqrt (1 / 2) * g.2.2.2.2
  B / Real.sqrt (A * A + (B * B + 0)) *
    (1 / 2 : ℝ) ^ (1 / 2 * max g.2.2.2.1 g.2.2.2.2 / (max (max g.1 g.2.1) g.2.2.1 + max g.2.2.2.1 g.2.2.2.2))

theorem stereo_handle_eq (g0 g1 g2 g3 g4 : ℝ) :
    StereoPanDownmix.handle (some [g0, g1, g2, g3, g4]) =
      some [stereoL (g0, g1, g2, g3, g4), stereoR (g0, g1, g2, g3, g4)] := by
  have hcast : (((1 / 2 : Rat)) : ℝ) = 1 / 2 := by push_cast; rfl
  simp only [StereoPanDownmix.handle, stereo_matVec, normalise, norm, sumsq, List.map_cons, List.map_nil,
    sqrt_real, zero_real, powHalf_real, max_real, ofRat_real, hcast, stereoL, stereoR]

/-- the set of non-negative, not all zero inner gain vectors -/
def stereoDomain : Set (ℝ × ℝ × ℝ × ℝ × ℝ) :=
  {g | 0 ≤ g.1 ∧ 0 ≤ g.2.1 ∧ 0 ≤ g.2.2.1 ∧ 0 ≤ g.2.2.2.1 ∧ 0 ≤ g.2.2.2.2 ∧ g ≠ (0, 0, 0, 0, 0)}

theorem stereo_aux {g : ℝ × ℝ × ℝ × ℝ × ℝ} (hg : g ∈ stereoDomain) :
    let A := g.1 + Real.sqrt 3 / 3 * g.2.2.1 + Real.sqrt (1 / 2) * g.2.2.2.1
    let B := g.2.1 + Real.sqrt 3 / 3 * g.2.2.1 + Real.sqrt (1 / 2) * g.2.2.2.2
    Real.sqrt (A * A + (B * B + 0)) ≠ 0 ∧ max (max g.1 g.2.1) g.2.2.1 + max g.2.2.2.1 g.2.2.2.2 ≠ 0 := by
  obtain ⟨g0, g1, g2, g3, g4⟩ := g
  obtain ⟨h0, h1, h2, h3, h4, hne⟩ := hg
  simp only at h0 h1 h2 h3 h4 ⊢
  have hcpos : (0 : ℝ) < Real.sqrt 3 / 3 := div_pos (Real.sqrt_pos.mpr (by norm_num)) (by norm_num)
  have hspos : (0 : ℝ) < Real.sqrt (1 / 2) := Real.sqrt_pos.mpr (by norm_num)
  -- some gain is positive
  have hsum : 0 < g0 + g1 + g2 + g3 + g4 := by
    rcases (lt_or_eq_of_le (by linarith : 0 ≤ g0 + g1 + g2 + g3 + g4)) with h | h
    · exact h
    · exfalso; apply hne
      have e0 : g0 = 0 := by linarith
      have e1 : g1 = 0 := by linarith
      have e2 : g2 = 0 := by linarith
      have e3 : g3 = 0 := by linarith
      have e4 : g4 = 0 := by linarith
      rw [e0, e1, e2, e3, e4]
  constructor
  · set c := Real.sqrt 3 / 3
    set s := Real.sqrt (1 / 2)
    have hA : 0 ≤ g0 + c * g2 + s * g3 := by have := mul_nonneg hcpos.le h2; have := mul_nonneg hspos.le h3; linarith
    have hB : 0 ≤ g1 + c * g2 + s * g4 := by have := mul_nonneg hcpos.le h2; have := mul_nonneg hspos.le h4; linarith
    have hAB : 0 < (g0 + c * g2 + s * g3) + (g1 + c * g2 + s * g4) := by
      by_contra hle
      have hz : (g0 + c * g2 + s * g3) + (g1 + c * g2 + s * g4) = 0 := by linarith
      have := mul_nonneg hcpos.le h2; have := mul_nonneg hspos.le h3; have := mul_nonneg hspos.le h4
      have e0 : g0 = 0 := by linarith
      have e1 : g1 = 0 := by linarith
      have e2 : c * g2 = 0 := by linarith
      have e3 : s * g3 = 0 := by linarith
      have e4 : s * g4 = 0 := by linarith
      have e2' : g2 = 0 := (mul_eq_zero.mp e2).resolve_left hcpos.ne'
      have e3' : g3 = 0 := (mul_eq_zero.mp e3).resolve_left hspos.ne'
      have e4' : g4 = 0 := (mul_eq_zero.mp e4).resolve_left hspos.ne'
      rw [e0, e1, e2', e3', e4'] at hsum
      norm_num at hsum
    apply (Real.sqrt_pos.mpr _).ne'
    have key : ∀ X Y : ℝ, 0 ≤ X → 0 ≤ Y → 0 < X + Y → 0 < X * X + (Y * Y + 0) := by
      intro X Y hX hY hXY
      rcases lt_or_eq_of_le hX with h | h
      · have := mul_pos h h; nlinarith [mul_self_nonneg Y]
      · have hY' : 0 < Y := by linarith
        have := mul_pos hY' hY'; nlinarith [mul_self_nonneg X]
    exact key _ _ hA hB hAB
  · have hf : 0 ≤ max (max g0 g1) g2 := le_trans h2 (le_max_right _ _)
    have hb : 0 ≤ max g3 g4 := le_trans h4 (le_max_right _ _)
    intro hz
    have hf0 : max (max g0 g1) g2 = 0 := by linarith
    have hb0 : max g3 g4 = 0 := by linarith
    have : g0 ≤ 0 := le_trans (le_trans (le_max_left _ _) (le_max_left _ _)) hf0.le
    have : g1 ≤ 0 := le_trans (le_trans (le_max_right _ _) (le_max_left _ _)) hf0.le
    have : g2 ≤ 0 := le_trans (le_max_right _ _) hf0.le
    have : g3 ≤ 0 := le_trans (le_max_left _ _) hb0.le
    have : g4 ≤ 0 := le_trans (le_max_right _ _) hb0.le
    linarith

/-- The stereo wrapper's two outputs are continuous functions of the (non-negative, non-zero) inner gains: the
    level law `0.5^(0.5·back/(front+back))` depends continuously on the front/back balance. -/
theorem stereo_continuousOn :
    (∀ g0 g1 g2 g3 g4 : ℝ, StereoPanDownmix.handle (some [g0, g1, g2, g3, g4]) =
      some [stereoL (g0, g1, g2, g3, g4), stereoR (g0, g1, g2, g3, g4)]) ∧
    ContinuousOn stereoL stereoDomain ∧ ContinuousOn stereoR stereoDomain := by
  refine ⟨stereo_handle_eq, ?_, ?_⟩
  · unfold stereoL
    refine ContinuousOn.mul (ContinuousOn.div (by fun_prop) (by fun_prop) (fun g hg => (stereo_aux hg).1)) ?_
    refine (Real.continuous_const_rpow (by norm_num)).comp_continuousOn ?_
    exact ContinuousOn.div (by fun_prop) (by fun_prop) (fun g hg => (stereo_aux hg).2)
  · unfold stereoR
    refine ContinuousOn.mul (ContinuousOn.div (by fun_prop) (by fun_prop) (fun g hg => (stereo_aux hg).1)) ?_
    refine (Real.continuous_const_rpow (by norm_num)).comp_continuousOn ?_
    exact ContinuousOn.div (by fun_prop) (by fun_prop) (fun g hg => (stereo_aux hg).2)

/-! ### downmix wrapper -/

theorem continuous_dot_ofFn {m : Nat} : ∀ (row : List ℝ), Continuous (fun v : Fin m → ℝ => dot row (List.ofFn v)) := by
  induction m with
  | zero => intro row; cases row <;> simp [dot] <;> exact continuous_const
  | succ k ih =>
    intro row
    cases row with
    | nil => simp only [dot]; exact continuous_const
    | cons x xs =>
      simp only [List.ofFn_succ, dot]
      refine (continuous_const.mul (continuous_apply 0)).add ?_
      exact (ih xs).comp (continuous_pi fun i => continuous_apply (Fin.succ i))

theorem continuous_sumsq_matVec {m : Nat} : ∀ (D : List (List ℝ)),
    Continuous (fun v : Fin m → ℝ => sumsq (matVec D (List.ofFn v)))
  | [] => by simp only [matVec, List.map_nil, sumsq]; exact continuous_const
  | row :: rest => by
    have ih := continuous_sumsq_matVec (m := m) rest
    simp only [matVec, List.map_cons, sumsq] at ih ⊢
    exact ((continuous_dot_ofFn row).mul (continuous_dot_ofFn row)).add ih

/-- PointSourcePannerDownmix: every output coordinate is a continuous function of the inner gain vector wherever
    the downmixed vector is not zero. (Lists carry no topology: the inner vector is `List.ofFn v`, `v : Fin m → ℝ`.) -/
theorem downmix_continuousOn {m : Nat} (D : List (List ℝ)) (i : Nat) :
    (∀ v : Fin m → ℝ, PointSourcePannerDownmix.handle D (some (List.ofFn v)) =
      some ((matVec D (List.ofFn v)).map (· / Real.sqrt (sumsq (matVec D (List.ofFn v)))))) ∧
    ContinuousOn (fun v : Fin m → ℝ => dot (D.getD i []) (List.ofFn v) / Real.sqrt (sumsq (matVec D (List.ofFn v))))
      {v | sumsq (matVec D (List.ofFn v)) ≠ 0} := by
  refine ⟨fun v => by simp [PointSourcePannerDownmix.handle, normalise, norm], ?_⟩
  refine ContinuousOn.div (continuous_dot_ofFn _).continuousOn (continuous_sumsq_matVec D).sqrt.continuousOn ?_
  intro v hv
  have h0 := sumsq_nonneg (matVec D (List.ofFn v))
  exact (Real.sqrt_pos.mpr (lt_of_le_of_ne h0 (Ne.symm hv))).ne'

/-! ### closedness of the acceptance sets -/

/-- The acceptance set of a triplet, `{p | ε ≤ every component of p·P⁻¹}`, is closed — for every threshold `ε` (the
    code's −1e-11, the idealised 0) and every matrix (for a singular `P` the model's `inv3` divides by 0 = 0 over ℝ and
    `pv` is still linear).  A fortiori it is closed in the set of directions ≠ 0. -/
theorem triplet_accept_isClosed (ε : ℝ) (P : Mat3 ℝ) : IsClosed {p : Vec3 ℝ | Triplet.acceptsE ε P p} := by
  have hc := continuous_pv P
  have h1 : IsClosed {p : Vec3 ℝ | ε ≤ (Triplet.pv P p).1} := isClosed_le continuous_const (continuous_fst.comp hc)
  have h2 : IsClosed {p : Vec3 ℝ | ε ≤ (Triplet.pv P p).2.1} :=
    isClosed_le continuous_const ((continuous_fst.comp continuous_snd).comp hc)
  have h3 : IsClosed {p : Vec3 ℝ | ε ≤ (Triplet.pv P p).2.2} :=
    isClosed_le continuous_const ((continuous_snd.comp continuous_snd).comp hc)
  exact h1.inter (h2.inter h3)

/-- ... in particular the set of directions for which the model's `Triplet.handle` returns a result -/
theorem triplet_accept_isClosed_code (P : Mat3 ℝ) : IsClosed {p : Vec3 ℝ | Triplet.handle P p ≠ none} := by
  have : {p : Vec3 ℝ | Triplet.handle P p ≠ none} = {p | Triplet.acceptsE tripletEps P p} := by
    ext p
    simp only [mem_ofPred_eq, Triplet.handle, acceptsE_eps]
    by_cases h : Triplet.accepts P p <;> simp [h]
  rw [this]; exact triplet_accept_isClosed _ P

theorem isClosed_exists_mem {ι : Type} (A : ι → Set (Vec3 ℝ)) : ∀ l : List ι, (∀ r ∈ l, IsClosed (A r)) →
    IsClosed {p | ∃ r ∈ l, p ∈ A r}
  | [], _ => by simp
  | a :: rest, h => by
    have : {p | ∃ r ∈ a :: rest, p ∈ A r} = A a ∪ {p | ∃ r ∈ rest, p ∈ A r} := by
      ext p; simp
    rw [this]
    exact (h a (by simp)).union (isClosed_exists_mem A rest (fun r hr => h r (List.mem_cons_of_mem _ hr)))

/-- the acceptance set of a virtual n-gon (union of its inner triplets' acceptance sets) is closed -/
theorem ngon_accept_isClosed (g : VirtualNgon ℝ) : IsClosed {p : Vec3 ℝ | g.handle p ≠ none} := by
  have : {p : Vec3 ℝ | g.handle p ≠ none} = {p | ∃ r ∈ g.regions, p ∈ {p | Triplet.acceptsE tripletEps r.2 p}} := by
    ext p
    simp only [mem_ofPred_eq, ne_eq, ngon_handle_eq, firstAccept_eq_none, not_forall, List.mem_map]
    constructor
    · rintro ⟨x, ⟨r, hr, rfl⟩, hx⟩
      refine ⟨r, hr, ?_⟩
      by_contra hacc
      apply hx
      have : Triplet.handle r.2 p = none := by
        rw [← handleE_eps]; simp [Triplet.handleE, hacc]
      simp [VirtualNgon.candidate, this, remap]
    · rintro ⟨r, hr, hacc⟩
      refine ⟨_, ⟨r, hr, rfl⟩, ?_⟩
      have : Triplet.handle r.2 p = some (Triplet.gains r.2 p) := by
        rw [← handleE_eps]; simp [Triplet.handleE, hacc]
      simp [VirtualNgon.candidate, this, remap]
  rw [this]
  exact isClosed_exists_mem _ _ (fun r _ => triplet_accept_isClosed _ r.2)


/-! ### an all-triplet panner at acceptance slack 0 -/

/-- output channel of row `a` of a triplet -/
def chanAt (ch : List Nat) (a : Fin 3) : Nat := ch.getD a.1 0

/-- a three-channel remap of gains supported on rows `i`, `j`, read at channel `c` -/
theorem remap3_supported (n c c0 c1 c2 : Nat) (h01 : c0 ≠ c1) (h02 : c0 ≠ c2) (h12 : c1 ≠ c2) (g : Vec3 ℝ)
    (i j : Fin 3) (hij : i ≠ j) (hk : ∀ k, k ≠ i → k ≠ j → coord g k = 0) :
    (scatter (zeros n) [c0, c1, c2] (vecList g)).getD c 0 =
      (if c = chanAt [c0, c1, c2] i ∧ c < n then coord g i else 0) +
        (if c = chanAt [c0, c1, c2] j ∧ c < n then coord g j else 0) := by
  obtain ⟨g0, g1, g2⟩ := g
  simp only [vecList]
  rw [scatter3_getD]
  fin_cases i <;> fin_cases j <;> simp only [ne_eq, not_true_eq_false, Fin.zero_eta, Fin.mk_one, Fin.reduceFinMk] at hij
  all_goals simp only [chanAt, coord, List.getD_cons_zero, List.getD_cons_succ]
  · have h2 := hk 2 (by decide) (by decide); simp only [coord] at h2; subst h2
    split_ifs <;> first | rfl | (simp; done) | omega
  · have h2 := hk 1 (by decide) (by decide); simp only [coord] at h2; subst h2
    split_ifs <;> first | rfl | (simp; done) | omega
  · have h2 := hk 2 (by decide) (by decide); simp only [coord] at h2; subst h2
    split_ifs <;> first | rfl | (simp; done) | omega
  · have h2 := hk 0 (by decide) (by decide); simp only [coord] at h2; subst h2
    split_ifs <;> first | rfl | (simp; done) | omega
  · have h2 := hk 1 (by decide) (by decide); simp only [coord] at h2; subst h2
    split_ifs <;> first | rfl | (simp; done) | omega
  · have h2 := hk 0 (by decide) (by decide); simp only [coord] at h2; subst h2
    split_ifs <;> first | rfl | (simp; done) | omega

/-- a region of an all-triplet panner: (output channels, positions) -/
abbrev TRegion := List Nat × Mat3 ℝ

/-- three distinct output channels -/
def TRegion.chOk (r : TRegion) : Prop := ∃ c0 c1 c2, r.1 = [c0, c1, c2] ∧ c0 ≠ c1 ∧ c0 ≠ c2 ∧ c1 ≠ c2

/-- THE COMBINATORIAL HYPOTHESIS on a pair of triplets: their exact (slack 0) acceptance cones meet only in a shared
    face.  Every common direction `p ≠ 0` lies on the arc `s·a + t·b` (`s, t ≥ 0`) between two loudspeakers `a`, `b`
    of the first triplet such that `a` is also a loudspeaker of the second triplet, on the same output channel, and
    either `t = 0` (the direction IS the shared loudspeaker `a`: shared vertex) or the same holds for `b` (shared
    edge). -/
def MeetInSharedFace (r r' : TRegion) : Prop :=
  ∀ p : Vec3 ℝ, p ≠ (0, 0, 0) → Triplet.acceptsE 0 r.2 p → Triplet.acceptsE 0 r'.2 p →
    ∃ (i j i' j' : Fin 3) (s t : ℝ), i ≠ j ∧ i' ≠ j' ∧ 0 ≤ s ∧ 0 ≤ t ∧
      p = edgePoint s t (row r.2 i) (row r.2 j) ∧
      row r.2 i = row r'.2 i' ∧ chanAt r.1 i = chanAt r'.1 i' ∧
      (t = 0 ∨ (row r.2 j = row r'.2 j' ∧ chanAt r.1 j = chanAt r'.1 j'))

theorem edgePoint_zero_right (s : ℝ) (a b b' : Vec3 ℝ) : edgePoint s 0 a b = edgePoint s 0 a b' := by
  simp [edgePoint, add3, smul3]

theorem handle_some_eq_gains {P : Mat3 ℝ} {p g : Vec3 ℝ} (h : Triplet.handle P p = some g) : g = Triplet.gains P p := by
  unfold Triplet.handle at h
  split at h
  · exact (Option.some.inj h).symm
  · simp at h

/-- the remapped output of one triplet, read at channel `c` -/
noncomputable def tripletOut (n : Nat) (r : TRegion) (p : Vec3 ℝ) : List ℝ :=
  scatter (zeros n) r.1 (vecList (Triplet.gains r.2 p))

/-- AGREEMENT, discharged from the combinatorial hypothesis by `triplet_on_edge`: two invertible triplets whose exact
    cones meet only in a shared face give every output channel the same gain at every common direction. -/
theorem shared_face_agreement (r r' : TRegion) (hd : det3 r.2 ≠ 0) (hd' : det3 r'.2 ≠ 0) (hch : r.chOk)
    (hch' : r'.chOk) (h : MeetInSharedFace r r') (n c : Nat) (p : Vec3 ℝ) (hp : p ≠ (0, 0, 0))
    (ha : Triplet.acceptsE 0 r.2 p) (ha' : Triplet.acceptsE 0 r'.2 p) :
    (tripletOut n r p).getD c 0 = (tripletOut n r' p).getD c 0 := by
  obtain ⟨i, j, i', j', s, t, hij, hij', hs, ht, hpe, hri, hci, hj⟩ := h p hp ha ha'
  have hne : s * s + t * t ≠ 0 := by
    intro h0
    have hs0 : s = 0 := by nlinarith [mul_self_nonneg s, mul_self_nonneg t]
    have ht0 : t = 0 := by nlinarith [mul_self_nonneg s, mul_self_nonneg t]
    apply hp; rw [hpe, hs0, ht0]; simp [edgePoint, add3, smul3]
  obtain ⟨g, hg, gi, gj, gk⟩ := triplet_on_edge r.2 hd i j hij s t hs ht hne
  have hpe' : p = edgePoint s t (row r'.2 i') (row r'.2 j') := by
    rcases hj with rfl | ⟨hrj, _⟩
    · rw [hpe, hri]; exact edgePoint_zero_right _ _ _ _
    · rw [hpe, hri, hrj]
  obtain ⟨g', hg', gi', gj', gk'⟩ := triplet_on_edge r'.2 hd' i' j' hij' s t hs ht hne
  rw [← hpe] at hg
  rw [← hpe'] at hg'
  obtain ⟨c0, c1, c2, hc, h01, h02, h12⟩ := hch
  obtain ⟨d0, d1, d2, hc', k01, k02, k12⟩ := hch'
  unfold tripletOut
  rw [← handle_some_eq_gains hg, ← handle_some_eq_gains hg', hc, hc',
    remap3_supported n c c0 c1 c2 h01 h02 h12 g i j hij gk, remap3_supported n c d0 d1 d2 k01 k02 k12 g' i' j' hij' gk',
    gi, gj, gi', gj', ← hc, ← hc', hci]
  congr 1
  rcases hj with rfl | ⟨_, hcj⟩
  · simp
  · rw [hcj]

theorem tripletOut_length (n : Nat) (r : TRegion) (p : Vec3 ℝ) : (tripletOut n r p).length = n := by
  simp [tripletOut, scatter_length, zeros]

/-- the acceptance set of a triplet region at slack 0, without the origin -/
def TRegion.cone (r : TRegion) : Set (Vec3 ℝ) := {p | Triplet.acceptsE 0 r.2 p} ∩ {p | p ≠ (0, 0, 0)}

/-- every output channel of an invertible triplet is continuous in the direction away from the origin -/
theorem tripletOut_continuousOn_ne (n c : Nat) (r : TRegion) (hd : det3 r.2 ≠ 0) :
    ContinuousOn (fun p => (tripletOut n r p).getD c 0) {p | p ≠ (0, 0, 0)} := by
  have h1 : ContinuousOn (fun p : Vec3 ℝ => Triplet.gains r.2 p) {p | p ≠ (0, 0, 0)} :=
    (triplet_continuousOn r.2).mono (fun p hp => pv_ne_zero r.2 hd p hp)
  exact (continuous_remap3 r.1 n c).comp_continuousOn h1

theorem tripletOut_continuousOn (n c : Nat) (r : TRegion) (hd : det3 r.2 ≠ 0) :
    ContinuousOn (fun p => (tripletOut n r p).getD c 0) r.cone :=
  (tripletOut_continuousOn_ne n c r hd).mono (fun _ hp => hp.2)

/-- IDEALISED (acceptance slack 0 instead of the code's −1e-11) and for triplet regions only.
    A panner whose regions are invertible triplets with three distinct output channels each, any two of which meet
    only in a shared face: every output channel's gain is a continuous function of the direction on the union of the
    cones (origin removed), and there the panner's answer is the answer of ANY triplet containing the direction.
    Missing for the property: (1) the code's slack −1e-11 makes neighbouring acceptance sets overlap in slivers on
    which the answers differ by O(1e-11) (`triplet_sliver_bound`), so the code's function is continuous only up to
    jumps of that size; (2) quad and n-gon regions; (3) that the cones cover the sphere (C05). -/
theorem panner_continuousOn_triplets_partial (regions : List TRegion) (n : Nat)
    (hdet : ∀ r ∈ regions, det3 r.2 ≠ 0) (hch : ∀ r ∈ regions, r.chOk)
    (hface : ∀ r ∈ regions, ∀ r' ∈ regions, r ≠ r' → MeetInSharedFace r r') :
    (∀ c, ContinuousOn (fun p => ((tripletPannerE 0 regions n p).map (·.getD c 0)).getD 0)
      {p | ∃ r ∈ regions, p ∈ r.cone}) ∧
    (∀ r ∈ regions, ∀ p ∈ r.cone, tripletPannerE 0 regions n p = some (tripletOut n r p)) ∧
    (∀ p, p ≠ (0, 0, 0) → (¬ ∃ r ∈ regions, p ∈ r.cone) → tripletPannerE 0 regions n p = none) := by
  -- the candidate list of the panner at p ≠ 0, per output coordinate, is the abstract candidate list
  have hagree : ∀ r ∈ regions, ∀ r' ∈ regions, ∀ p, p ∈ r.cone → p ∈ r'.cone → ∀ c,
      (tripletOut n r p).getD c 0 = (tripletOut n r' p).getD c 0 := by
    intro r hr r' hr' p hp hp' c
    by_cases e : r = r'
    · rw [e]
    · exact shared_face_agreement r r' (hdet r hr) (hdet r' hr') (hch r hr) (hch r' hr') (hface r hr r' hr' e) n c p
        hp.2 hp.1 hp'.1
  have hcand : ∀ p, p ≠ (0, 0, 0) → ∀ (f : List ℝ → ℝ) (l : List TRegion),
      (l.map fun r => remap r.1 n ((Triplet.handleE 0 r.2 p).map vecList)).map (Option.map f) =
        candidates (l.map fun r => (r.cone, fun q => f (tripletOut n r q))) p := by
    intro p hp f l
    simp only [candidates, List.map_map]
    apply List.map_congr_left
    intro r _
    by_cases hacc : Triplet.acceptsE 0 r.2 p
    · have : p ∈ r.cone := ⟨hacc, hp⟩
      simp [Triplet.handleE, hacc, remap, this, tripletOut]
    · have : p ∉ r.cone := fun h => hacc h.1
      simp [Triplet.handleE, hacc, remap, this]
  have hU : ∀ f : List ℝ → ℝ, accUnion (regions.map fun r => (r.cone, fun q => f (tripletOut n r q))) =
      {p | ∃ r ∈ regions, p ∈ r.cone} := by
    intro f; ext p; simp [accUnion]
  refine ⟨fun c => ?_, ?_, ?_⟩
  · set rs : List (Set (Vec3 ℝ) × (Vec3 ℝ → ℝ)) := regions.map fun r => (r.cone, fun q => (tripletOut n r q).getD c 0)
      with hrs
    have main := firstAccept_continuousOn_aux {p : Vec3 ℝ | p ≠ (0, 0, 0)} rs 0
      (by
        intro x hx
        obtain ⟨r, _, rfl⟩ := List.mem_map.mp hx
        exact ⟨_, triplet_accept_isClosed 0 r.2, rfl⟩)
      (by
        intro x hx
        obtain ⟨r, hr, rfl⟩ := List.mem_map.mp hx
        exact tripletOut_continuousOn n c r (hdet r hr))
      (by
        intro x hx x' hx' p hp hp'
        obtain ⟨r, hr, rfl⟩ := List.mem_map.mp hx
        obtain ⟨r', hr', rfl⟩ := List.mem_map.mp hx'
        exact hagree r hr r' hr' p hp hp' c)
    rw [hrs, hU (fun l => l.getD c 0)] at main
    refine main.1.congr ?_
    intro p hp
    obtain ⟨r, _, hpr⟩ := hp
    simp only [tripletPannerE, firstAccept_map, hcand p hpr.2 (fun l => l.getD c 0) regions]
  · intro r hr p hp
    have hsome : ∀ c, (tripletPannerE 0 regions n p).map (·.getD c 0) = some ((tripletOut n r p).getD c 0) := by
      intro c
      simp only [tripletPannerE, firstAccept_map, hcand p hp.2 (fun l => l.getD c 0) regions]
      exact firstAccept_eq_of_agree _ p _ ⟨_, List.mem_map.mpr ⟨r, hr, rfl⟩, hp⟩ (by
        intro x hx hpx
        obtain ⟨r', hr', rfl⟩ := List.mem_map.mp hx
        exact hagree r' hr' r hr p hpx hp c)
    cases hres : tripletPannerE 0 regions n p with
    | none => have := hsome 0; rw [hres] at this; simp at this
    | some out =>
      congr 1
      have hmem := firstAccept_mem hres
      obtain ⟨r', hr', he⟩ := List.mem_map.mp hmem
      have hlen : out.length = n := by
        cases hh : Triplet.handleE 0 r'.2 p with
        | none => rw [hh] at he; simp [remap] at he
        | some g =>
          rw [hh] at he
          simp only [remap, Option.map_some, Option.some.injEq] at he
          rw [← he]; simp [scatter_length, zeros]
      apply list_ext_getD (by rw [hlen, tripletOut_length])
      intro c
      have := hsome c
      rw [hres] at this
      simpa using this
  · intro p hp hnone
    unfold tripletPannerE
    rw [firstAccept_eq_none]
    intro x hx
    obtain ⟨r, hr, rfl⟩ := List.mem_map.mp hx
    have : ¬ Triplet.acceptsE 0 r.2 p := fun h => hnone ⟨r, hr, h, hp⟩
    simp [Triplet.handleE, this, remap]


end Earverif.PointSource
