/-
Minimal ADM document graph for the C14 model (`ear.fileio.adm.adm.ADM` and the element classes of
`ear.fileio.adm.elements.main_elements`, reduced to what item selection looks at).

A document is a tuple of element lists; every reference is a `Nat` index into the list of the
referenced kind (`Option Nat` where Python allows `None`).  In Python references are object
pointers, so a dangling reference cannot exist; here that is the predicate `Doc.wellScoped`.
Lookups use `getD` with an inert default element: on well-scoped documents the default is never
returned.  Core Lean only.
-/
namespace Earverif.AdmV

/-- `TypeDefinition` (values 1..5). -/
inductive TypeDef | directSpeakers | matrix | objects | hoa | binaural
  deriving DecidableEq, Repr, Inhabited

/-- One `MatrixCoefficient` of a Matrix audioBlockFormat. `badVar`: one of gainVar/delayVar/phaseVar/phase is
set; `negDelay`: `delay is not None and delay < 0` (the two things `_validate_matrix_channel` rejects, in that order). -/
structure Coeff where
  input : Option Nat := none
  badVar : Bool := false
  negDelay : Bool := false
  deriving Repr, Inhabited, DecidableEq

/-- One audioBlockFormat, reduced to the fields the validators read.
`cartMismatch`: `cartesian != isinstance(position, ObjectCartesianPosition)` (Objects);
`equation/order/degree/norm/scr`: HOA block attributes (`normalization`, `screenRef` as tokens);
`outCh/coeffs`: Matrix block `outputChannelFormat` and `matrix`;
`rtime/duration`: the block's `rtime` / `duration` (any block type) and `nfc`: the HOA block's `nfcRefDist`, as value
tokens (equal values = equal tokens; token 0 of `nfc` is the value `0.0`, which `hoa.get_nfcRefDist` maps to `None`). -/
structure Block where
  cartMismatch : Bool := false
  equation : Bool := false
  order : Option Int := none
  degree : Option Int := none
  norm : Option Nat := none
  scr : Option Nat := none
  outCh : Option Nat := none
  coeffs : List Coeff := []
  rtime : Option Nat := none
  duration : Option Nat := none
  nfc : Option Nat := none
  deriving Repr, Inhabited, DecidableEq

/-- audioChannelFormat; `freq` = `frequency.lowPass is not None or frequency.highPass is not None`. -/
structure Channel where
  type : TypeDef
  freq : Bool := false
  blocks : List Block := []
  deriving Repr, Inhabited

/-- audioPackFormat. `norm/scr/nfc/absDist`: `normalization`, `screenRef`, `nfcRefDist`, `absoluteDistance` as value
tokens (`norm` 0 = "SN3D", `scr` 0 = False: the defaults of `hoa.get_normalization/get_screenRef`; `nfc` 0 = 0.0). -/
structure Pack where
  type : TypeDef
  channels : List Nat := []
  packs : List Nat := []
  encodePacks : List Nat := []
  input : Option Nat := none
  output : Option Nat := none
  norm : Option Nat := none
  scr : Option Nat := none
  nfc : Option Nat := none
  absDist : Option Nat := none
  deriving Repr, Inhabited

/-- audioStreamFormat. -/
structure Stream where
  channel : Option Nat := none
  pack : Option Nat := none
  deriving Repr, Inhabited

/-- audioTrackFormat. -/
structure TrackFormat where
  stream : Option Nat := none
  deriving Repr, Inhabited

/-- audioTrackUID. -/
structure TrackUID where
  trackIndex : Option Nat := none
  pack : Option Nat := none
  trackFormat : Option Nat := none
  channel : Option Nat := none
  deriving Repr, Inhabited

/-- audioObject. `tracks` entries `none` are silent tracks (`ATU_00000000`).
`pstart/pdur/pgain/pmute/poffset` = `start is not None`, `duration is not None`, `gain != 1.0`, `mute`,
`positionOffset is not None` (what `_validate_object_parameters_in_leaves` tests, in that order, before
`alternativeValueSets` non-empty);
`avs` = the object's alternativeValueSet child elements, as tokens (an AVS element is identified by its token). -/
structure Obj where
  objects : List Nat := []
  packs : List Nat := []
  tracks : List (Option Nat) := []
  comps : List Nat := []
  pstart : Bool := false
  pdur : Bool := false
  pgain : Bool := false
  pmute : Bool := false
  poffset : Bool := false
  avs : List Nat := []
  deriving Repr, Inhabited

/-- audioContent. -/
structure Content where
  objects : List Nat := []
  avs : List Nat := []     -- referenced alternativeValueSets (tokens)
  deriving Repr, Inhabited

/-- audioProgramme (ids are assumed to increase with the list position, as `generate_ids` makes them). -/
structure Programme where
  contents : List Nat := []
  avs : List Nat := []     -- referenced alternativeValueSets (tokens)
  deriving Repr, Inhabited

/-- The document. `v2Allowed` = `adm.version is None or version_at_least(adm.version, 2)`. -/
structure Doc where
  v2Allowed : Bool := false
  programmes : List Programme := []
  contents : List Content := []
  objects : List Obj := []
  packs : List Pack := []
  channels : List Channel := []
  streams : List Stream := []
  trackFormats : List TrackFormat := []
  trackUIDs : List TrackUID := []
  deriving Repr, Inhabited

namespace Doc
variable (d : Doc)
def programme (i : Nat) : Programme := d.programmes.getD i default
def content (i : Nat) : Content := d.contents.getD i default
def obj (i : Nat) : Obj := d.objects.getD i default
def pack (i : Nat) : Pack := d.packs.getD i default
def chan (i : Nat) : Channel := d.channels.getD i default
def stream (i : Nat) : Stream := d.streams.getD i default
def tf (i : Nat) : TrackFormat := d.trackFormats.getD i default
def atu (i : Nat) : TrackUID := d.trackUIDs.getD i default
end Doc

def optLt (o : Option Nat) (n : Nat) : Bool :=
  match o with
  | none => true
  | some i => decide (i < n)

def allLt (l : List Nat) (n : Nat) : Bool := l.all (fun i => decide (i < n))

/-- Every reference points at an element of the document (always true of Python object graphs
whose elements are all registered in the ADM). -/
def Doc.wellScoped (d : Doc) : Bool :=
  d.programmes.all (fun p => allLt p.contents d.contents.length) &&
  d.contents.all (fun c => allLt c.objects d.objects.length) &&
  d.objects.all (fun o =>
    allLt o.objects d.objects.length && allLt o.packs d.packs.length &&
    o.tracks.all (fun t => optLt t d.trackUIDs.length) && allLt o.comps d.objects.length) &&
  d.packs.all (fun p =>
    allLt p.channels d.channels.length && allLt p.packs d.packs.length &&
    allLt p.encodePacks d.packs.length && optLt p.input d.packs.length && optLt p.output d.packs.length) &&
  d.channels.all (fun c => c.blocks.all (fun b =>
    optLt b.outCh d.channels.length && b.coeffs.all (fun co => optLt co.input d.channels.length))) &&
  d.streams.all (fun s => optLt s.channel d.channels.length && optLt s.pack d.packs.length) &&
  d.trackFormats.all (fun t => optLt t.stream d.streams.length) &&
  d.trackUIDs.all (fun t =>
    optLt t.pack d.packs.length && optLt t.trackFormat d.trackFormats.length &&
    optLt t.channel d.channels.length)

/-- An alternativeValueSet is a child element of one audioObject: no token occurs in two different objects
(structural, like `wellScoped`: always true of parsed documents, where AVS elements are nested in their
audioObject and duplicate AVS ids are rejected). -/
def Doc.avsOwned (d : Doc) : Bool :=
  (List.range d.objects.length).all (fun i => (List.range d.objects.length).all (fun j =>
    i == j || (d.obj i).avs.all (fun a => !(d.obj j).avs.contains a)))

end Earverif.AdmV
