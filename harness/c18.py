"""C18 — Bw64Reader seek/read/tell/iter vs the Lean cursor model and the list-plus-cursor spec."""
import io
import itertools

import numpy as np

from .common import Spec, Driver


def make_file(bitdepth, channels, frames, forceBw64=False, axml=None):
    from ear.fileio.bw64 import Bw64Reader, Bw64Writer
    from ear.fileio.bw64.chunks import FormatInfoChunk

    f = io.BytesIO()
    fmt = FormatInfoChunk(formatTag=1, channelCount=channels, sampleRate=48000, bitsPerSample=bitdepth)
    w = Bw64Writer(f, fmt, axml=axml, forceBw64=forceBw64)
    scale = float(2 ** (bitdepth - 1) - 1)
    # frame i, channel j holds code i*channels + j + 1 (unique, small)
    codes = np.arange(1, frames * channels + 1, dtype=float).reshape(frames, channels)
    if frames:
        w.write(codes / scale)
    w.close()
    return f.getvalue()


class Real:
    """The real reader on a generated file, observed only through its public API."""

    def __init__(self, data, bitdepth, channels, frames):
        from ear.fileio.bw64 import Bw64Reader

        self.r = Bw64Reader(io.BytesIO(data))
        self.bitdepth, self.channels, self.frames = bitdepth, channels, frames
        self.scale = float(2 ** (bitdepth - 1) - 1)
        # the constants the cursor methods consult, read from the opened reader itself (not recomputed here)
        ci = self.r._chunks[b"data"]
        self.A = int(self.r._formatInfo.blockAlignment)
        self.data_off = int(ci.position.data)
        self.cfg = (self.data_off, self.A, int(ci.size), int(self.r._file_len))
        # `__len__` divides ds64.dataSize when there is a ds64 chunk; the model has one `size` for both uses
        self.len_bytes = int(self.r._ds64.dataSize) if self.r._ds64 else int(ci.size)
        self.end_ok = int(ci.position.end) == self.data_off + int(ci.size)
        self.gens = []
        # every array the reader handed out, with what it contained when it was handed out: a caller may keep blocks
        # (`list(reader.iter_sample_blocks(n))`) and look at them later, so they must not change under later calls
        self.kept = []

    def _keep(self, block):
        rng = self._range(block)
        self.kept.append((block, rng))
        return rng

    def late_mismatches(self):
        """Indices (in hand-out order) of returned blocks whose content changed after they were returned."""
        return [(i, was, self._range(b)) for i, (b, was) in enumerate(self.kept) if self._range(b) != was]

    def _range(self, block):
        block = np.asarray(block)
        k = block.shape[0]
        if k == 0:
            return ("-", 0)
        codes = np.rint(block * self.scale).astype(int)
        first = (codes[0, 0] - 1) // self.channels
        exp = np.arange(first * self.channels + 1, (first + k) * self.channels + 1).reshape(k, self.channels)
        if block.shape[1] != self.channels or not np.array_equal(codes, exp):
            return ("garbled", k)
        return (first, k)

    def op(self, op):
        """Return canonical output: ('u',) ('E',) ('p',c) ('b',first,count) ('B',[(first,count)..]) ('m',i) ('k',first,count)
        ('S',) or ('X',exc type)."""
        try:
            if op[0] == "s":
                try:
                    self.r.seek(op[1], op[2])
                except ValueError:
                    return ("E",)
                return ("u",)
            if op[0] == "t":
                return ("p", int(self.r.tell()))
            if op[0] == "r":
                return ("b",) + self._keep(self.r.read(op[1]))
            if op[0] == "i":
                out = []
                for n, b in enumerate(self.r.iter_sample_blocks(op[1])):
                    out.append(self._keep(b))
                    if n > self.frames + 2:
                        return ("X", "iter-does-not-terminate")
                return ("B", out)
            if op[0] == "g":
                self.gens.append(self.r.iter_sample_blocks(op[1]))
                return ("m", len(self.gens) - 1)
            if op[0] == "n":
                try:
                    b = next(self.gens[op[1]])
                except StopIteration:
                    return ("S",)
                return ("k",) + self._keep(b)
        except Exception as e:  # anything else escaping is an observable failure
            return ("X", type(e).__name__)
        raise AssertionError(op)


def spec_run(N, ops):
    """Independent list-plus-cursor specification (written from the property text)."""
    c, outs = 0, []
    gens = []  # [block size, finished]
    clamp = lambda x: max(0, min(N, x))
    for op in ops:
        if op[0] == "g":
            gens.append([op[1], False]); outs.append(("m", len(gens) - 1)); continue
        if op[0] == "n":
            g = gens[op[1]]
            if g[1] or c == N:      # a finished generator stays finished wherever the cursor goes afterwards
                g[1] = True; outs.append(("S",))
            else:
                e = min(c + g[0], N)
                outs.append(("k", c if e > c else "-", e - c)); c = e
            continue
        if op[0] == "s":
            if op[2] == 0:
                c = clamp(op[1]); outs.append(("u",))
            elif op[2] == 1:
                c = clamp(c + op[1]); outs.append(("u",))
            elif op[2] == 2:
                c = clamp(N + op[1]); outs.append(("u",))
            else:
                outs.append(("E",))
        elif op[0] == "t":
            outs.append(("p", c))
        elif op[0] == "r":
            e = min(c + op[1], N)
            outs.append(("b", c if e > c else "-", e - c)); c = e
        elif op[0] == "i":
            blocks = []
            while c != N:
                e = min(c + op[1], N)
                blocks.append((c, e - c)); c = e
            outs.append(("B", blocks))
    return outs, c


def op_line(cfg, ops):
    parts = ["%d %d %d %d" % cfg]
    for op in ops:
        parts.append(" ".join(str(x) for x in op))
    return " ; ".join(parts)


def parse_model(line, data_off, A):
    """Model output (byte ranges) -> canonical frame-level outputs."""
    body, pos = line.rsplit("|", 1)
    outs = []
    def fr(s, g):
        s, g = int(s), int(g)
        if g == 0:
            return ("-", 0)
        if (s - data_off) % A or g % A:
            return ("unaligned:%d,%d" % (s, g), 0)
        return ((s - data_off) // A, g // A)
    for tok in body.split(";"):
        w = tok.split()
        if not w:
            continue
        if w[0] == "u": outs.append(("u",))
        elif w[0] == "E": outs.append(("E",))
        elif w[0] == "p": outs.append(("p", int(w[1])))
        elif w[0] == "b": outs.append(("b",) + fr(w[1], w[2]))
        elif w[0] == "B": outs.append(("B", [fr(*x.split(",")) for x in w[1:]]))
        elif w[0] == "m": outs.append(("m", int(w[1])))
        elif w[0] == "k": outs.append(("k",) + fr(w[1], w[2]))
        elif w[0] == "S": outs.append(("S",))
        else: outs.append(("unparsed", tok))
    return outs, int(pos)


def alphabet(N):
    offs = sorted({-N - 1, -1, 0, 1, N, N + 1})
    ops = [("s", o, w) for o in offs for w in (0, 1, 2)] + [("s", 0, 3)]
    ops += [("t",)]
    ops += [("r", n) for n in sorted({0, 1, 2, N + 1})]
    ops += [("i", b) for b in sorted({1, 2, N + 1})]
    return ops


# every exhaustive sequence starts by making two generators (no effect on the cursor) so that `next` on either can
# be interleaved with everything else
GEN_PREFIX = (("g", 2), ("g", 1))
GEN_ALPHA = [("n", 0), ("n", 1)]


def random_ops(rng, N, length):
    ops = []
    ngen = 0
    for _ in range(length):
        k = rng.random()
        if k < 0.12:
            ops.append(("g", rng.choice([0, 1, 1, 2, 3, N + 1])))   # block size 0 is fine for next(), only exhausting it hangs
            ngen += 1
        elif k < 0.3 and ngen:
            ops.append(("n", rng.randrange(ngen)))
        elif k < 0.45:
            ops.append(("s", rng.randint(-N - 3, N + 3), rng.choice([0, 0, 1, 1, 2, 2, rng.randint(3, 9)])))
        elif k < 0.65:
            ops.append(("t",))
        elif k < 0.9:
            ops.append(("r", rng.choice([0, 1, 2, 3, rng.randint(0, N + 2)])))
        else:
            ops.append(("i", rng.randint(1, N + 2)))
        ops.append(("t",))
    return ops


def make_ragged(fp, r):
    """A file whose data chunk holds the frames of make_file(fp) followed by r stray bytes (0 < r < blockAlign): the
    chunk size is not a whole number of frames. The writer never produces this; the reader accepts it."""
    import struct
    bd, ch, n, bw = fp
    data = bytearray(make_file(bd, ch, n, bw))
    A = ch * bd // 8
    i = data.find(b"data", 12)
    body = bytes(data[i + 8:i + 8 + n * A]) + bytes(0xE1 + j for j in range(r))
    new = bytearray(data[:i + 8]) + body + (b"\0" if len(body) & 1 else b"")
    if new[:4] == b"BW64":
        new[20:28] = struct.pack("<Q", len(new) - 8)
        new[28:36] = struct.pack("<Q", len(body))
    else:
        new[4:8] = struct.pack("<I", len(new) - 8)
        new[i + 4:i + 8] = struct.pack("<I", len(body))
    return bytes(new)


class RealBytes(Real):
    """As Real, but a returned block is identified by the BYTES it was decoded from (re-encoded from the sample codes),
    so that reads that do not start on a frame boundary can be compared with the model's byte ranges."""

    def _range(self, block):
        from .c16 import codes_to_bytes
        block = np.asarray(block)
        if block.shape[0] == 0:
            return ("", 0)
        codes = np.rint(block * self.scale).astype(np.int64).reshape(-1)
        return (codes_to_bytes(codes, self.bitdepth).hex(), int(block.shape[0]))


def parse_model_bytes(line, data, A):
    body, pos = line.rsplit("|", 1)
    outs = []
    def fr(s, g):
        s, g = int(s), int(g)
        if g == 0:
            return ("", 0)
        if g % A:
            return ("partial-frame:%d,%d" % (s, g), 0)
        return (data[s:s + g].hex(), g // A)
    for tok in body.split(";"):
        w = tok.split()
        if not w:
            continue
        if w[0] == "u": outs.append(("u",))
        elif w[0] == "E": outs.append(("E",))
        elif w[0] == "p": outs.append(("p", int(w[1])))
        elif w[0] == "b": outs.append(("b",) + fr(w[1], w[2]))
        elif w[0] == "B": outs.append(("B", [fr(*x.split(",")) for x in w[1:]]))
        elif w[0] == "m": outs.append(("m", int(w[1])))
        elif w[0] == "k": outs.append(("k",) + fr(w[1], w[2]))
        elif w[0] == "S": outs.append(("S",))
        else: outs.append(("unparsed", tok))
    return outs, int(pos)


THEOREMS = ("tell_spec", "seek_spec", "read_spec", "iter_refines", "specIter_tiles", "ops_refine", "open_at_zero",
            "iter_model_tiles", "step_iter_tiles", "gnext_refines", "gops_refine", "drain_eq_iter",
            "ragged_len", "ragged_not_cursor")


class C18(Spec):
    pid = "C18"
    lean_targets = ("Earverif.Props.C18", "c18driver")
    props_module = "Earverif.Props.C18"
    theorems = tuple("Earverif.Cursor." + t for t in THEOREMS)
    trusted_base = (
        "model Earverif/Model/Bw64Cursor.lean is a hand transliteration of Bw64Reader.seek/tell/read/__len__/"
        "iter_sample_blocks (eager `iter` and the resumable generator `gnext`); BytesIO.seek/read/tell semantics are "
        "assumed as modelled by bufRead",
        "the model's file constants (data offset, block alignment, data chunk size, file length) are read on every run "
        "from the opened real reader (_chunks[b'data'].position.data/.size, formatInfo.blockAlignment, _file_len; "
        "ds64.dataSize and position.end are checked to coincide with them), not recomputed by the harness",
        "PCM decoding of the bytes read is C16's subject; here a read is identified with the byte range handed to the "
        "decoder (C09's C09_samples_roundtrip composes the two for files the writer produced)",
    )
    assumptions = (
        "operations within the quantifier: read(n) with n >= 0, list(iter_sample_blocks(bs)) with bs >= 1 "
        "(exhausting a generator with bs = 0 does not terminate in the real code; negative n reads to the end of the "
        "file); generators consumed with next() may have bs >= 0",
        "WF.hsize: the data chunk size is a whole number of frames (k.size = k.A * N) -- true of every file the writer "
        "produces (C09_samples_roundtrip proves WF for them); for a ragged data chunk (size = A*N + r, 0 < r < A) the "
        "cursor abstraction FAILS after any seek that lands on the chunk end: theorem ragged_not_cursor; such files are "
        "kept out of the property's generators and run in a separate counted stream (model vs real reader at byte level)",
        "WF.hfile: the data chunk lies inside the file (the reader's constructor rejects anything else, C17)",
    )
    rule = (
        "op sequences over generated files (bit depth x channels x frame count x RIFF/BW64): exhaustive over a "
        "boundary alphabet (incl. next() on two generators made up front) up to a length bound, then seeded random "
        "longer sequences that also create generators at random points and interleave next() with everything else; "
        "a case is one (file, op sequence); non-trivial = contains at least one seek and one read/iter/next; "
        "distinct by (file params, ops); ragged-data-chunk files: separate stream, byte-level model-vs-real only"
    )

    def files(self, ctx):
        fs = []
        for bd, ch, n, bw in [(16, 1, 0, False), (16, 2, 3, False), (24, 1, 1, False), (24, 3, 2, True),
                              (32, 2, 4, False), (16, 1, 2, True)]:
            fs.append((bd, ch, n, bw))
        return fs

    def _compare(self, ctx, driver, batch):
        """batch: list of (fileparams, data, ops)."""
        lines, metas = [], []
        for (bd, ch, n, bw), data, ops in batch:
            real = Real(data, bd, ch, n)
            cfg = real.cfg          # from the opened reader
            if real.len_bytes != cfg[2] or not real.end_ok:
                ctx.disagree("reader constants: ds64.dataSize / position.end differ from _chunks[b'data'].size",
                             {"file": (bd, ch, n, bw)}, cfg, (real.len_bytes, real.end_ok))
            if cfg[2] != n * cfg[1]:
                ctx.count("cfg:size-not-whole-frames")   # outside WF; never the case for writer-made files
            ctx.count("cfg:from-reader")
            lines.append(op_line(cfg, ops))
            metas.append((real, cfg))
        outs = driver.run(lines)
        for ((fp, data, ops), (real, cfg), line) in zip(batch, metas, outs):
            if line == "bad-op":
                ctx.disagree("model rejects the request", {"file": fp, "ops": ops}, line, None)
                continue
            model_outs, model_pos = parse_model(line, cfg[0], cfg[1])
            real_outs = [real.op(op) for op in ops]
            real_pos = cfg[0] + cfg[1] * int(real.r.tell())
            late = real.late_mismatches()
            ctx.count("late-observation:blocks-kept", len(real.kept))
            if late:
                ctx.hit("a block returned by read/iteration changed after it was returned (frames are not yielded "
                        "exactly once to a caller that keeps the blocks)", {"file": fp, "ops": ops},
                        {"block_index": late[0][0], "when_returned": late[0][1], "after_later_calls": late[0][2]},
                        ["returned-block-aliased"])
            nontriv = any(o[0] == "s" for o in ops) and any(o[0] in "rin" for o in ops)
            ctx.case((fp, ops), nontriv, sample={"file": fp, "cfg": cfg, "ops": ops[:12], "outputs": real_outs[:12]} if nontriv else None)
            for o in ops:
                ctx.count("op:" + o[0])
            if any(o[0] == "n" for o in ops):
                ctx.count("case:with-lazy-next")
            if model_outs != real_outs or model_pos != real_pos:
                ctx.disagree("Bw64Reader vs Earverif.Cursor.grun", {"file": fp, "ops": ops},
                             (model_outs, model_pos), (real_outs, real_pos))
            else:
                ctx.validated()
            # the direct predicate (spec written from the property text) on the real outputs
            self._predicate(ctx, fp, ops, real_outs)

    def _predicate(self, ctx, fp, ops, real_outs):
        ok_ops = all(not (o[0] == "r" and o[1] < 0) and not (o[0] == "i" and o[1] < 1) and not (o[0] == "g" and o[1] < 0)
                     for o in ops)
        if not ok_ops:
            return
        want, _ = spec_run(fp[2], ops)
        if want != real_outs:
            i = next(i for i, (a, b) in enumerate(zip(want, real_outs)) if a != b)
            tags = []
            if real_outs[i] == ("X", "AttributeError") and ops[i][0] == "s":
                tags.append("seek-past-end-attributeerror")
            ctx.hit("reader output differs from cursor spec", {"file": fp, "ops": ops[: i + 1]},
                    {"expected": want[i], "got": real_outs[i], "op_index": i}, tags)

    def _ragged(self, ctx, driver):
        """Files whose data chunk is not a whole number of frames (outside WF.hsize / outside the property): the Lean
        model (an exact transliteration whatever the size) against the real reader at BYTE level, and a count of how
        often the real reader then deviates from the frame-cursor specification (what `ragged_not_cursor` proves)."""
        rng = ctx.rng
        files = [((16, 2, 3, False), 2), ((24, 1, 2, False), 1), ((24, 2, 2, True), 5), ((32, 1, 3, False), 3),
                 ((16, 1, 4, True), 1)]
        batch = []
        for fp, r in files:
            data = make_ragged(fp, r)
            alpha = alphabet(fp[2]) + GEN_ALPHA
            seqs = [GEN_PREFIX + ops for ops in itertools.product(alpha, repeat=2)] if not ctx.quick else []
            seqs += [GEN_PREFIX + tuple(rng.choice(alpha) for _ in range(rng.randint(2, 6))) for _ in range(60 if ctx.quick else 400)]
            seqs.append(GEN_PREFIX + (("s", 0, 2), ("s", -1, 1), ("t",), ("r", 1)))     # the sequence of ragged_not_cursor
            for ops in seqs:
                ops = tuple(o for o in ops if not (o[0] == "r" and o[1] < 0)) + (("t",),)
                batch.append((fp, r, data, ops))
        lines, metas = [], []
        for fp, r, data, ops in batch:
            real = RealBytes(data, fp[0], fp[1], fp[2])
            lines.append(op_line(real.cfg, ops))
            metas.append(real)
        outs = driver.run(lines)
        for (fp, r, data, ops), real, line in zip(batch, metas, outs):
            cfg = real.cfg
            ctx.count("ragged:case")
            if cfg[2] != fp[2] * cfg[1] + r:
                ctx.disagree("ragged file: reader's data size", {"file": fp, "stray": r}, fp[2] * cfg[1] + r, cfg[2])
                continue
            model_outs, model_pos = parse_model_bytes(line, data, cfg[1])
            real_outs = [real.op(op) for op in ops]
            real_pos = int(real.r._buffer.tell())
            ctx.case(("ragged", fp, r, ops), True)
            if model_outs != real_outs or model_pos != real_pos:
                ctx.disagree("Bw64Reader vs Earverif.Cursor.grun on a ragged data chunk (byte level)",
                             {"file": fp, "stray_bytes": r, "ops": ops}, (model_outs, model_pos), (real_outs, real_pos))
            else:
                ctx.validated()
            # informational: does the real reader still look like a cursor over the N whole frames?
            fr = Real(data, fp[0], fp[1], fp[2])
            want, _ = spec_run(fp[2], ops)
            got = [fr.op(op) for op in ops]
            ctx.count("ragged:real-reader-%s-cursor-spec" % ("agrees-with" if want == got else "DEVIATES-from"))

    def correspond(self, ctx):
        driver = Driver("c18driver", "Earverif.Driver.C18")
        maxlen = 2 if ctx.quick else 3
        batch = []
        for fp in self.files(ctx):
            data = make_file(*fp)
            alpha = alphabet(fp[2]) + GEN_ALPHA
            for L in range(1, maxlen + 1):
                for ops in itertools.product(alpha, repeat=L):
                    # two generators exist from the start; observe the cursor after every sequence
                    batch.append((fp, data, GEN_PREFIX + tuple(ops) + (("t",),)))
        nrand = 300 if ctx.quick else 6000
        for i in range(nrand):
            bd = ctx.rng.choice([16, 24, 32]); ch = ctx.rng.randint(1, 4); n = ctx.rng.randint(0, 40)
            fp = (bd, ch, n, ctx.rng.random() < 0.3)
            data = make_file(*fp)
            batch.append((fp, data, tuple(random_ops(ctx.rng, n, ctx.rng.randint(3, 40 if ctx.quick else 400)))))
        # large files and large requests (more than one 8192-frame library block per read / iteration block)
        big = [(16, 1, 20000, False), (24, 2, 17000, True), (32, 3, 8193, False), (24, 2, 16384, False)]
        sizes = [8191, 8192, 8193, 11000, 12000, 16384, 16385, 20000]
        for fp in (big if not ctx.quick else [big[ctx.seed % len(big)], big[(ctx.seed + 1) % len(big)]]):
            data = make_file(*fp)
            N = fp[2]
            for _ in range(12 if ctx.quick else 80):
                ops = [("g", ctx.rng.choice(sizes))]
                for _ in range(ctx.rng.randint(2, 6)):
                    k = ctx.rng.random()
                    if k < 0.35:
                        ops.append(("s", ctx.rng.choice([0, 500, 5000, N - 9000, N - 1, -3, -8193, -9000]), ctx.rng.choice([0, 1, 2])))
                    elif k < 0.65:
                        ops.append(("r", ctx.rng.choice(sizes + [1, 100])))
                    elif k < 0.8:
                        ops.append(("n", 0))
                    else:
                        ops.append(("i", ctx.rng.choice(sizes)))
                    ops.append(("t",))
                batch.append((fp, data, tuple(ops)))
                ctx.count("large-file-case")
        for i in range(0, len(batch), 20000):
            self._compare(ctx, driver, batch[i:i + 20000])
        self._ragged(ctx, driver)

    def search(self, ctx, deep):
        # the predicate already ran on every correspondence case; when something broke (or thorough),
        # run it on a further boundary-directed stream that does not need the Lean driver
        if not deep:
            return
        for fp in self.files(ctx):
            data = make_file(*fp)
            alpha = alphabet(fp[2]) + GEN_ALPHA
            for ops in itertools.product(alpha, repeat=2):
                ops = GEN_PREFIX + tuple(ops) + (("t",),)
                real = Real(data, fp[0], fp[1], fp[2])
                outs = [real.op(o) for o in ops]
                ctx.case(("search", fp, ops), True)
                self._predicate(ctx, fp, ops, outs)
                late = real.late_mismatches()
                if late:
                    ctx.hit("a block returned by read/iteration changed after it was returned (frames are not yielded "
                            "exactly once to a caller that keeps the blocks)", {"file": fp, "ops": ops},
                            {"block_index": late[0][0], "when_returned": late[0][1], "after_later_calls": late[0][2]},
                            ["returned-block-aliased"])


SPEC = C18()

REGISTRY = dict(
    text="FULL: Lean theorems (Earverif.Cursor.ops_refine, gops_refine, seek_spec, read_spec, tell_spec, iter_refines, "
    "gnext_refines, specIter_tiles, iter_model_tiles) prove for every operation sequence, file size and cursor that the "
    "byte-level model of Bw64Reader.seek/tell/read/iter_sample_blocks refines a list-plus-cursor specification: "
    "ops_refine for seek/tell/read/eager block iteration, gops_refine additionally for any number of lazily consumed "
    "generators (iter_sample_blocks objects) whose next() calls are interleaved with every other operation (a next() "
    "yields frames [cursor, min(cursor+bs, N)) of the cursor at that moment or stops for good at N; drain_eq_iter: a for "
    "loop over a fresh generator is the eager iteration); iter_model_tiles composes ops_refine with specIter_tiles into a "
    "statement about the MODEL run: block iteration from cursor c leaves the buffer at the end of the data and returns "
    "byte ranges that are a gap-free, overlap-free chain of non-empty frame ranges from c to N, each at most bs long. "
    "The model is tied to the code on every run by driving the real reader and the Lean model with the same generated "
    "operation sequences (exhaustive over a boundary alphabet incl. next() on two generators up to a length bound, then "
    "random with generators created at random points) and diffing outputs; the model's file constants are read from "
    "the opened real reader (data position/size, blockAlignment, file length).",
    note="Trusted: Lean kernel, hand transliteration of the reader's cursor arithmetic + correspondence harness, "
    "BytesIO semantics as modelled. Quantifier limits: read(n>=0); exhausting iteration needs block size >= 1 (0 hangs "
    "in the real code; next() on a block-size-0 generator is inside). Hypothesis WF of every theorem: data chunk size = "
    "blockAlign * N (whole frames, WF.hsize) and the chunk lies inside the file; both hold for every writer-made file "
    "(proved: C09_samples_roundtrip). EXCLUDED POINT: a hand-made file whose data chunk is ragged (size = A*N + r) is "
    "accepted by the reader with len = N, but a seek that lands on the chunk end leaves the buffer between frames and "
    "the next read returns bytes straddling two frames (theorem ragged_not_cursor; the model still matches the real "
    "reader there byte for byte -- separate counted stream 'ragged:*' in the evidence, not part of the property).",
    technique="Lean 4 refinement proof (induction over operation sequences, generator table as state) + differential "
    "correspondence with the real reader",
    design_ref="DESIGN.md section 4, C18",
)
