"""C08 — round 4: correspondence for the remaining hand-written handlers (positionOffset, reference screen,
gain / position interaction ranges, Matrix coefficient and matrix element) and for the class-level parsers
(`rt`: parse + construct + to_xml of a whole element with every handler concrete, real code vs Lean model on the
same abstract tree)."""
import types
import warnings

from . import c08_codec as codec
from .c08_codec import DEFAULT_NS, NAMESPACES, enc, grid, opt, to_k, to_lxml, from_lxml, tree_tokens

NS = types.SimpleNamespace
fl = lambda k: None if k is None else k / 100000.0


def _handler(version):
    from ear.fileio.adm import xml as X
    from ear.fileio.adm.elements.version import BS2076Version

    return X.MainElementHandler(BS2076Version(version))


_H = {}


def H(version):
    if version not in _H:
        h = _handler(version)
        bh = h.make_block_format_matrix_handler()
        from ear.fileio.adm import xml as X
        _H[version] = dict(
            h=h, grange=h.make_gainInteractionRange_handler(), prange=h.make_positionInteractionRange_handler(),
            coeff=h.make_matrix_coefficient_handler(),
            matrix=[p for p in bh.properties if isinstance(p, X.CustomElement) and p.adm_name == "matrix"][0])
    return _H[version]


# ---------------------------------------------------------------------------------------------
# values -> xml (real code), and the line sent to the driver


def coeff_obj(c):
    from ear.fileio.adm.elements import MatrixCoefficient

    ref, g, ph, de, gv, pv, dv = c
    m = MatrixCoefficient(gain=fl(g), phase=fl(ph), delay=fl(de), gainVar=gv, phaseVar=pv, delayVar=dv)
    m.inputChannelFormat = NS(id=ref)
    return m


def py4_to_xml(which, value):
    import lxml.etree as ET
    from ear.fileio.adm import xml as X
    from ear.fileio.adm.elements import (CartesianPositionInteractionRange, CartesianPositionOffset, InteractionRange,
                                         PolarPositionInteractionRange, PolarPositionOffset)
    from ear.common import CartesianPosition, CartesianScreen, PolarPosition, PolarScreen

    parent = ET.Element("parent")
    if which == "poff":
        if value is None:
            pos = None
        elif value[0] == "P":
            pos = PolarPositionOffset(azimuth=fl(value[1]), elevation=fl(value[2]), distance=fl(value[3]))
        else:
            pos = CartesianPositionOffset(X=fl(value[1]), Y=fl(value[2]), Z=fl(value[3]))
        X.position_offset_to_xml(parent, NS(positionOffset=pos))
    elif which == "grange":
        r = None if value is None else InteractionRange(min=fl(value[0]), max=fl(value[1]))
        H(2)["grange"].to_xml(parent, NS(gainInteractionRange=r))
    elif which == "prange":
        if value is None:
            r = None
        else:
            rs = [InteractionRange(min=fl(a), max=fl(b)) for a, b in value[1]]
            r = (PolarPositionInteractionRange if value[0] == "P" else CartesianPositionInteractionRange)(*rs)
        H(2)["prange"].to_xml(parent, NS(positionInteractionRange=r))
    elif which == "screen":
        kind, ar, a, b, c, w = value
        if kind == "P":
            s = PolarScreen(aspectRatio=fl(ar), centrePosition=PolarPosition(fl(a), fl(b), fl(c)), widthAzimuth=fl(w))
        else:
            s = CartesianScreen(aspectRatio=fl(ar), centrePosition=CartesianPosition(fl(a), fl(b), fl(c)), widthX=fl(w))
        return from_lxml(X.screen_handler.to_xml(parent, s))
    elif which in ("coeff1", "coeff2"):
        return from_lxml(H(int(which[-1]))["coeff"].to_xml(parent, coeff_obj(value)))
    elif which in ("matrix1", "matrix2"):
        H(int(which[-1]))["matrix"].to_xml(parent, NS(matrix=[coeff_obj(c) for c in value]))
    return from_lxml(parent)


def ostr(s):
    return "~" if s is None else enc(s)


def coeff_tokens(c):
    ref, g, ph, de, gv, pv, dv = c
    return "%s %s %s %s %s %s %s" % (enc(ref), opt(g), opt(ph), opt(de), ostr(gv), ostr(pv), ostr(dv))


def value4_line(which, value):
    if which in ("poff", "grange", "prange") and value is None:
        return "hx %s ~" % which
    if which == "poff":
        return "hx poff %s %d %d %d" % value
    if which == "grange":
        return "hx grange %s %s" % (opt(value[0]), opt(value[1]))
    if which == "prange":
        return "hx prange %s %s" % (value[0], " ".join("%s %s" % (opt(a), opt(b)) for a, b in value[1]))
    if which == "screen":
        return "hx screen %s %d %d %d %d %d" % value
    if which in ("coeff1", "coeff2"):
        return "hx %s %s" % (which, coeff_tokens(value))
    if which in ("matrix1", "matrix2"):
        return "hx %s %d %s" % (which, len(value), " ".join(coeff_tokens(c) for c in value))


# ---------------------------------------------------------------------------------------------
# xml -> values (real code), canonicalised like the driver's answers


def gain_tok(g):
    """python float from parse_gain -> comparable token (exact value kept for gain_matches)"""
    return "~" if g is None else g


def coeff_value(m):
    ref = m.inputChannelFormatIDRef
    return (ref, m.gain, to_k(m.phase), to_k(m.delay), m.gainVar, m.phaseVar, m.delayVar)


def py4_parse(which, tree):
    from ear.fileio.adm.elements import PolarPositionInteractionRange, PolarPositionOffset

    el = to_lxml(tree)
    try:
        with warnings.catch_warnings():
            warnings.simplefilter("ignore")
            from ear.fileio.adm import xml as X
            if which == "poff":
                kw = {}
                X.handle_position_offset(kw, el)
                p = kw.get("positionOffset")
                if p is None:
                    return "~"
                if isinstance(p, PolarPositionOffset):
                    return "P %d %d %d" % (to_k(p.azimuth), to_k(p.elevation), to_k(p.distance))
                return "C %d %d %d" % (to_k(p.X), to_k(p.Y), to_k(p.Z))
            if which in ("grange1", "grange2"):
                kw = {}
                H(int(which[-1]))["grange"].handler(kw, el)
                r = kw.get("gainInteractionRange")
                return "~" if r is None else ("G", gain_tok(r.min), gain_tok(r.max))
            if which == "prange":
                kw = {}
                H(2)["prange"].handler(kw, el)
                r = kw.get("positionInteractionRange")
                if r is None:
                    return "~"
                if isinstance(r, PolarPositionInteractionRange):
                    rs, k = (r.azimuth, r.elevation, r.distance), "P"
                else:
                    rs, k = (r.X, r.Y, r.Z), "C"
                return "%s %s" % (k, " ".join("%s %s" % (opt(to_k(x.min)), opt(to_k(x.max))) for x in rs))
            if which in ("matrix1", "matrix2"):
                kw = {}
                prop = H(int(which[-1]))["matrix"]
                for c in el:
                    if c.tag in X.qnames("matrix"):
                        prop.handler(kw, c)
                if "matrix" not in kw:
                    return "~"
                return ("M", [coeff_value(m) for m in kw["matrix"]])
    except Exception:
        return "E"


def model_gain(tok):
    if tok == "~":
        return "~"
    kind, k = tok.split(":")
    return "%s %s" % (kind, k)


def matches4(which, model, py):
    """compare the driver's answer with the canonical python result (gains in dB up to rounding)"""
    if which in ("grange1", "grange2"):
        if isinstance(py, str):
            return model == py
        ws = model.split()
        if len(ws) != 2:
            return False
        return all(codec.gain_matches(model_gain(m), p) for m, p in zip(ws, py[1:]))
    if which in ("matrix1", "matrix2"):
        if isinstance(py, str):
            return model == py
        ws = model.split()
        if not ws or ws[0] != "M" or int(ws[1]) != len(py[1]) or len(ws) != 2 + 7 * len(py[1]):
            return False
        for i, c in enumerate(py[1]):
            r, g, ph, de, gv, pv, dv = ws[2 + 7 * i: 9 + 7 * i]
            ref, pg, pph, pde, pgv, ppv, pdv = c
            if r != enc(ref) or ph != opt(pph) or de != opt(pde) or gv != ostr(pgv) or pv != ostr(ppv) or dv != ostr(pdv):
                return False
            if pg is None:
                if g != "~":
                    return False
            elif g == "~" or int(g) / 100000.0 != pg:
                return False
        return True
    return model == py


def expected4(which, value):
    """(parse mode, expected canonical python result) of reading back what was written, or None when the value is
    one of the stated excluded points (nothing is written for it)"""
    if which == "poff":
        if value is None:
            return ("poff", "~")
        if not any(value[1:]):
            return None
        return ("poff", "%s %d %d %d" % value)
    if which == "grange":
        if value is None:
            return ("grange2", "~")
        if value[0] is None and value[1] is None:
            return None
        return ("grange2", ("G", gain_tok(fl(value[0])), gain_tok(fl(value[1]))))
    if which == "prange":
        if value is None:
            return ("prange", "~")
        if all(a is None and b is None for a, b in value[1]):
            return None
        return ("prange", "%s %s" % (value[0], " ".join("%s %s" % (opt(a), opt(b)) for a, b in value[1])))
    if which in ("matrix1", "matrix2"):
        return (which, ("M", [(c[0], fl(c[1]), c[2], c[3], c[4], c[5], c[6]) for c in value]))
    return None


# ---------------------------------------------------------------------------------------------
# generators


def gen_coeff(rng):
    o = lambda lo, hi, p=0.4: rng.randint(lo, hi) if rng.random() < p else None
    s = lambda p=0.3: rng.choice(["g", "phi", "d 1", "", "é"]) if rng.random() < p else None
    return ("AC_%08X" % rng.randint(0x00010001, 0x00051FFF), o(-200000, 200000, 0.5), o(-18000000, 18000000),
            o(0, 10000000), s(), s(), s())


def gen_values4(rng, n):
    out = []
    z = lambda lo, hi: rng.choice([0, 0, rng.randint(lo, hi)])
    o = lambda lo, hi, p=0.6: rng.randint(lo, hi) if rng.random() < p else None
    for _ in range(n):
        k = rng.random()
        if k < 0.1:
            out.append(("poff", None))
        elif k < 0.55:
            out.append(("poff", ("P", z(-18000000, 18000000), z(-9000000, 9000000), z(-100000, 100000))))
        else:
            out.append(("poff", ("C", z(-100000, 100000), z(-100000, 100000), z(-100000, 100000))))
        out.append(("grange", None if rng.random() < 0.1 else (o(-1000000, 1000000), o(-1000000, 1000000))))
        if rng.random() < 0.1:
            out.append(("prange", None))
        else:
            kind = rng.choice("PC")
            out.append(("prange", (kind, [(o(-3000000, 3000000, 0.45), o(-3000000, 3000000, 0.45)) for _ in range(3)])))
        if rng.random() < 0.5:
            out.append(("screen", ("P", rng.randint(100000, 300000), rng.randint(-18000000, 18000000),
                                   rng.randint(-9000000, 9000000), rng.randint(0, 200000), rng.randint(100000, 18000000))))
        else:
            out.append(("screen", ("C", rng.randint(100000, 300000), rng.randint(-100000, 100000),
                                   rng.randint(-100000, 100000), rng.randint(-100000, 100000), rng.randint(0, 200000))))
        out.append((rng.choice(["coeff1", "coeff2"]), gen_coeff(rng)))
        out.append((rng.choice(["matrix1", "matrix2"]), [gen_coeff(rng) for _ in range(rng.choice([0, 1, 2, 3]))]))
    return out


def gen_trees4(rng, n):
    out = []
    bad = lambda p=0.05: rng.random() < p
    num = lambda lo=-2 * 10 ** 7, hi=2 * 10 ** 7: rng.choice(["x", "", grid(0)]) if bad() else grid(rng.randint(lo, hi))
    nsr = lambda: rng.choice([DEFAULT_NS, DEFAULT_NS, DEFAULT_NS, None, "urn:ebu:metadata-schema:ebuCore_2014"])
    for _ in range(n):
        # positionOffset
        coords = rng.choice([["azimuth"], ["elevation", "distance"], ["azimuth", "elevation", "distance"], ["X"], ["X", "Y", "Z"],
                             ["Z", "Y"], [], ["azimuth", "X"], ["azimuth", "azimuth"], ["bogus"]])
        kids = []
        for c in coords:
            a = [("coordinate", c)] if not bad(0.03) else []
            if bad(0.05):
                a.append(("bound", "max"))
            kids.append((nsr(), "positionOffset", a, num(-3000000, 3000000), []))
        if bad(0.2):
            kids.append((DEFAULT_NS, "position", [("coordinate", "azimuth")], num(), []))
        rng.shuffle(kids)
        out.append(("poff", (None, "parent", [], "", kids)))
        # gainInteractionRange
        kids = []
        for b in rng.choice([["min"], ["max"], ["min", "max"], ["max", "min"], [], ["min", "min"], ["mid"], [None]]):
            a = [("bound", b)] if b is not None else []
            if rng.random() < 0.3:
                a.append(("gainUnit", rng.choice(["linear", "dB", "dB", "x"])))
            kids.append((nsr(), "gainInteractionRange", a, num(-2000000, 2000000), []))
        out.append((rng.choice(["grange1", "grange2"]), (None, "parent", [], "", kids)))
        # positionInteractionRange
        kids = []
        cs = rng.choice([["azimuth", "elevation", "distance"], ["X", "Y", "Z"], ["azimuth"], ["X", "Z"], ["azimuth", "X"], [],
                         ["elevation", "elevation"], ["bogus"]])
        for c in cs:
            for b in rng.choice([["min"], ["max"], ["min", "max"], ["max", "min"], ["min", "min"] if bad(0.3) else ["min"],
                                 ["mid"] if bad(0.3) else ["max"], [None] if bad(0.3) else ["min", "max"]]):
                a = []
                if b is not None:
                    a.append(("bound", b))
                if not bad(0.03):
                    a.append(("coordinate", c))
                rng.shuffle(a)
                kids.append((nsr(), "positionInteractionRange", a, num(-3000000, 3000000), []))
        if bad(0.15):
            rng.shuffle(kids)
        out.append(("prange", (None, "parent", [], "", kids)))
        # matrix element(s) with coefficients
        mk = []
        for _ in range(rng.choice([1, 1, 1, 0, 2])):
            ck = []
            for _ in range(rng.choice([0, 1, 2, 3])):
                a = []
                if rng.random() < 0.6:
                    a.append(("gain", num(-400000, 400000)))
                if rng.random() < 0.15:
                    a.append(("gainUnit", rng.choice(["linear", "linear", "x"])))
                if rng.random() < 0.3:
                    a.append(("phase", num()))
                if rng.random() < 0.3:
                    a.append(("delay", num(0, 10 ** 7)))
                for nm in ("gainVar", "phaseVar", "delayVar", "other"):
                    if rng.random() < 0.2:
                        a.append((nm, rng.choice(["v", "", "a b"])))
                rng.shuffle(a)
                ck.append((rng.choice([DEFAULT_NS, DEFAULT_NS, None]), rng.choice(["coefficient", "coefficient", "coefficient", "other"]),
                           a, rng.choice(["AC_00010001", "AC_00031001", ""]), []))
            mk.append((rng.choice([DEFAULT_NS, DEFAULT_NS, None, "urn:unknown"]), "matrix", [], "", ck))
        out.append((rng.choice(["matrix1", "matrix2"]), (None, "parent", [], "", mk)))
    return out


# ---------------------------------------------------------------------------------------------
# class level: parse + construct + to_xml of one element (`rt`)


def resolve(table, nm, obj):
    """what `lazy_lookup_references` does, as far as `to_xml` needs it: referenced elements become stand-ins that carry
    the id found in the XML (reference resolution itself is outside the model). Returns the object to hand to to_xml."""
    from ear.fileio.adm import xml as X
    from ear.fileio.adm.elements import AudioBlockFormatMatrix, AudioChannelFormat, AudioStreamFormat

    p, rows = table[nm]
    ver = nm.split("/")[0] if "/" in nm else None
    target = obj
    if isinstance(obj, AudioStreamFormat):
        target = X.AudioStreamFormatWrapper(obj)
    for r in rows:
        kind, adm, arg, att, ty = r[:5]
        if r[8]:
            continue
        if ty in ("RefType", "TrackUIDRefType") and kind == "ListElement":
            v = getattr(obj, arg, None) or []
            lst = [None if s is None else NS(id=s) for s in v]
            if isinstance(target, X.AudioStreamFormatWrapper) and att == "audioTrackFormats":
                target.audioTrackFormats = lst
            else:
                setattr(obj, att, lst)
        elif ty == "RefType" and kind in ("AttrElement", "HandleText"):
            v = getattr(obj, arg, None)
            setattr(obj, att, None if v is None else NS(id=v))
    if isinstance(obj, AudioChannelFormat):
        for bf in obj.audioBlockFormats:
            resolve(table, "%s/audioBlockFormat:%s" % (ver, obj.type.name), bf)
    if isinstance(obj, AudioBlockFormatMatrix):
        for c in obj.matrix:
            resolve(table, "%s/coefficient" % ver, c)
    return target


def py_rt(table, nm, tree):
    import lxml.etree as ET
    from ear.fileio.adm.xml import ParseError

    p, rows = table[nm]
    with warnings.catch_warnings():
        warnings.simplefilter("ignore")
        try:
            obj = p.parse(to_lxml(tree))
        except ParseError:
            return "E"
        except Exception as e:
            return "X-parse:" + type(e).__name__
        try:
            target = resolve(table, nm, obj)
            return from_lxml(p.to_xml(ET.Element("parent"), target))
        except Exception as e:
            return "X-to_xml:%s: %s" % (type(e).__name__, e)


def rt_line(nm, tree):
    if "/" in nm:
        ver, cls = nm.split("/")
        v = ver[1:]
    else:
        v, cls = "2", nm
    return "rt %s %s %s" % (cls, v, " ".join(tree_tokens(tree)))


def has_db(tree):
    ns, name, attrs, text, kids = tree
    return any(k == "gainUnit" and v == "dB" for k, v in attrs) or any(has_db(c) for c in kids)


def paths(tree, pre=()):
    """all node paths (tuples of child indices)"""
    out = [pre]
    for i, c in enumerate(tree[4]):
        out += paths(c, pre + (i,))
    return out


def edit(tree, path, fn):
    ns, name, attrs, text, kids = tree
    if not path:
        return fn(tree)
    kids = list(kids)
    kids[path[0]] = edit(kids[path[0]], path[1:], fn)
    return (ns, name, attrs, text, kids)


EXPLICIT_DEFAULTS = [("gain", "1.00000"), ("importance", "10"), ("mute", "0"), ("cartesian", "0"), ("width", "0.00000"),
                     ("jumpPosition", "0"), ("channelLock", "0"), ("screenRef", "0"), ("diffuse", "0.00000"),
                     ("gain", "0.50000"), ("importance", "3"), ("mute", "1"), ("dialogue", "1"), ("headLocked", "1")]


def mutate(rng, tree):
    """one random edit that keeps to spellings on which the model's leaf codecs and Python's agree"""
    ps = paths(tree)
    path = rng.choice(ps)
    k = rng.random()

    def at(t):
        ns, name, attrs, text, kids = t
        kids = list(kids)
        attrs = list(attrs)
        if k < 0.12 and kids:
            rng.shuffle(kids)
        elif k < 0.27:
            ns = rng.choice([None, "urn:ebu:metadata-schema:ebuCore_2014", "urn:metadata-schema:adm", "urn:unknown", DEFAULT_NS])
        elif k < 0.37 and kids:
            del kids[rng.randrange(len(kids))]
        elif k < 0.45 and attrs:
            del attrs[rng.randrange(len(attrs))]
        elif k < 0.55 and kids:
            i = rng.randrange(len(kids))
            kids.insert(rng.randint(0, len(kids)), kids[i])
        elif k < 0.62:
            if not any(a == "unknownAttr" for a, _ in attrs):
                attrs.append(("unknownAttr", "v"))
        elif k < 0.7:
            kids.insert(rng.randint(0, len(kids)), (DEFAULT_NS, "unknownElement", [], "t", []))
        elif k < 0.85:
            nm, tx = rng.choice(EXPLICIT_DEFAULTS)
            kids.insert(rng.randint(0, len(kids)), (DEFAULT_NS, nm, [], tx, []))
        elif k < 0.9 and name in ("gain", "gainInteractionRange", "coefficient"):
            if not any(a == "gainUnit" for a, _ in attrs):
                attrs.append(("gainUnit", rng.choice(["linear", "linear", "dB", "x"])))
        elif k < 0.95:
            text = rng.choice(["x", "", grid(rng.randint(-300000, 300000))])
        elif attrs:
            i = rng.randrange(len(attrs))
            attrs[i] = (attrs[i][0], rng.choice(["x", "", grid(rng.randint(-300000, 300000)), "left", "min", "Objects"]))
        return (ns, name, attrs, text, kids)

    return edit(tree, path, at)
