/- Line protocol for the C19 conversion model, run over `Float` with the regenerated table.
   Floats travel as the decimal value of their IEEE-754 bit pattern (UInt64), both ways.
   in :  p2c <az> <el> <d>            out: ok <x> <y> <z> <sector>            | assert
         c2p <x> <y> <z>              out: ok <az> <el> <d> <sector or -1>    | assert
         a2l <left> <right> <az>      out: ok <p>          (_map_az_to_linear)
         l2a <left> <right> <p>       out: ok <az>         (_map_linear_to_az)
         fs <az> / fcs <az>           out: ok <sector>     | assert   (_find_sector / _find_cart_sector)
         ra <x> <y>                   out: ok <angle>      (relative_angle)
         tp|tc <kind 0=polar 1=cart> <a> <b> <c> <width> <height> <depth> <flag 0/1>
                                      out: ok <kind> <a> <b> <c> <width> <height> <depth> <flag> | assert
         tps|tcs <block> | <block> | …   (block = the 8 fields of tp/tc; at least one block)
                                      out: <answer of block 1> | <answer of block 2> | …   — the blocks one Objects
                                      rendering item yields after convert_objects_to_polar / _to_cartesian
                                      (model of the MetadataSourceModifyBlockFormat wrapper, drained)
   `bad-op` for a malformed line. -/
import Earverif.Model.Conversion
import Earverif.Gen.C19_Tables
import Earverif.Driver.Util
open Earverif.Conv Earverif.Driver

def P : Params Float :=
  Params.ofTable Earverif.Gen.C19.mapping Earverif.Gen.C19.elTop Earverif.Gen.C19.elTopTilde 4096

def parseF (s : String) : Option Float := do
  let n ← s.toNat?
  if n < 18446744073709551616 then some (Float.ofBits n.toUInt64) else none

def showF (x : Float) : String := toString x.toBits.toNat

def showFs (xs : List Float) : String := String.intercalate " " (xs.map showF)

def blockOf (kind : Nat) (a b c w h d : Float) (flag : Nat) : Block Float Unit Unit :=
  { position := if kind = 0 then .polar a b c () else .cartesian a b c ()
    width := w, height := h, depth := d, cartesian := flag != 0, rest := () }

def showBlock (b : Block Float Unit Unit) : String :=
  let (kind, a, b', c) := match b.position with
    | .polar a e d _ => ("0", a, e, d)
    | .cartesian x y z _ => ("1", x, y, z)
  s!"ok {kind} {showFs [a, b', c, b.width, b.height, b.depth]} {if b.cartesian then 1 else 0}"

def parseBlock (args : List String) : Option (Block Float Unit Unit) :=
  match args with
  | [kind, a, b, c, w, h, d, flag] =>
    match kind.toNat?, [a, b, c, w, h, d].mapM parseF, flag.toNat? with
    | some kind, some [a, b, c, w, h, d], some flag =>
      if kind > 1 || flag > 1 then none else some (blockOf kind a b c w h d flag)
    | _, _, _ => none
  | _ => none

def answerStream (polar : Bool) (rest : String) : String :=
  match (rest.splitOn "|").mapM (fun part => parseBlock (words part)) with
  | none => "bad-op"
  | some [] => "bad-op"
  | some blocks =>
    let outs := if polar then convertObjectsToPolar P blocks else convertObjectsToCartesian P blocks
    String.intercalate " | " (outs.map fun
      | some r => showBlock r
      | none => "assert")

def answer (line : String) : String :=
  match words line with
  | mode :: args =>
    if mode == "tps" || mode == "tcs" then
      answerStream (mode == "tps") (String.intercalate " " args)
    else
    if mode == "tp" || mode == "tc" then
      match args with
      | [kind, a, b, c, w, h, d, flag] =>
        match kind.toNat?, [a, b, c, w, h, d].mapM parseF, flag.toNat? with
        | some kind, some [a, b, c, w, h, d], some flag =>
          if kind > 1 || flag > 1 then "bad-op" else
          let blk := blockOf kind a b c w h d flag
          match (if mode == "tp" then toPolar P blk else toCartesian P blk) with
          | some r => showBlock r
          | none => "assert"
        | _, _, _ => "bad-op"
      | _ => "bad-op"
    else
    match mode, args.mapM parseF with
    | "p2c", some [az, el, d] =>
      match pointPolarToCart P az el d with
      | some ((x, y, z), i) => s!"ok {showFs [x, y, z]} {i}"
      | none => "assert"
    | "c2p", some [x, y, z] =>
      match pointCartToPolar P x y z with
      | some ((az, el, d), i) =>
        s!"ok {showFs [az, el, d]} {match i with | some i => toString i | none => "-1"}"
      | none => "assert"
    | "a2l", some [l, r, a] => s!"ok {showF (mapAzToLinear l r a)}"
    | "l2a", some [l, r, x] => s!"ok {showF (mapLinearToAz l r x)}"
    | "fs", some [az] =>
      match findSector P az with | some s => s!"ok {s.idx}" | none => "assert"
    | "fcs", some [az] =>
      match findCartSector P az with | some s => s!"ok {s.idx}" | none => "assert"
    | "ra", some [x, y] => s!"ok {showF (relativeAngle P.fuel x y)}"
    | _, _ => "bad-op"
  | [] => "bad-op"

def main : IO Unit := lineLoop answer
