/-
C15 — Timing repair makes rounded metadata renderable and is idempotent.

Model: `Earverif/Model/TimingFix.lean` (transliteration of `ear/fileio/adm/timing_fixes.py` and of
the metadata interpreters' timing checks).  Helper lemmas: `Earverif/Proofs/C15.lean`.

Hypotheses (`Hyp`), worked out from the code:
* either the channel is one block without rtime and duration, or every block has both;
* rtimes are *weakly* increasing.  Strictness is not needed: when rounding makes two rtimes equal
  the repair turns the first block into a zero-length block, which the interpreters accept
  (run on the real code: harness counter `feature:equal-rtimes-after-rounding`);
* the last rtime is strictly before the duration of every audioObject that has one.  At equality
  or beyond, `_clamp_blockFormat_end` raises `ValueError` (`excluded_start_at_object_end`).
Durations need not be positive for the repair itself (durations of all blocks but the last are
overwritten); acceptance by the renderer needs the last duration to be `≥ 0` (`HypAccept`,
`excluded_negative_last_duration`).  `audioObject.start` plays no role in the repair.

Excluded points, each run on the real code by `harness/c15.py` (distribution keys
`excluded-point:<hypothesis> => <what the code did>`):
* last rtime ≥ object duration            ⇒ `ValueError` from `fix_blockFormat_timings`
                                             (unless that block has duration ≤ 0 and ends inside)
* rtime xor duration                       ⇒ `AssertionError("not validated")` when the object has a
                                             duration (document validation rejects it earlier with
                                             `ValueError`), else untouched and rejected by the renderer
* several untimed / mixed timed+untimed    ⇒ repair runs, renderer: "overlapping blocks"
                                             (or its `assert not math.isinf` fails)
* decreasing rtimes                        ⇒ repair produces negative durations
* negative last duration, jumpPosition set ⇒ repair runs, renderer: "interpolation length is longer"
* ROUNDED TIMELINES WITH A SHORT BLOCK (inside the property's quantifier, recorded finding
  `rounded-short-block-collapse`): every `…_meets_hypotheses` theorem below needs exact durations
  longer than the rounding unit (`ExactValid.long`: `10^-k` for nearest, `2·10^-k` for floor / ceil /
  mixed).  A shorter last block can round onto the object's end; then the repair raises `ValueError`:
  `excluded_rounded_short_block` (k = 2: (0, 0.9951), (0.9951, 0.0098), object 1.0049), general form
  `fix_raises_when_last_block_outside_object` / `fix_raises_rounded` (`Proofs/C15Raise.lean`).

Further sections:
* the deprecated reader option (`fix_blockFormat_durations`, duration pass only): `fixDurationsOnly_spec`
  and the two counter-examples showing what it does not repair;
* the rounding functions the generator really applies (Python `round` = half-even, floor, ceil, and any
  per-value mixture) are instances of `Rounding` / `Near`: `roundHalfEven_meets_hypotheses`, …,
  `mixed_rounding_meets_hypotheses`;
* whole documents (`Model/TimingFixDoc.lean`, `Proofs/C15Doc.lean`): the pairing of audioObjects and
  audioChannelFormats in `check_blockFormat_times_for_audioObjects` is computed by the pack-allocator
  model instead of being an input: `doc_fix_post`, `doc_fix_idempotent_silent`, excluded point
  `excluded_doc_conflicting_refs` (`AdmFormatRefError` escapes from the repair).
-/
import Earverif.Proofs.C15
import Earverif.Proofs.C15Doc
import Earverif.Proofs.C15Raise
import Earverif.Proofs.C15Timeline

set_option linter.unusedSimpArgs false

namespace Earverif.TimingFix

/-- Inputs covered by the theorems. -/
inductive Hyp (objs : List Obj) (bs : List Block) : Prop
  /-- every block has rtime and duration, rtimes weakly increasing, last rtime before the end of
  every object that has a duration -/
  | timed (ht : AllTimed bs) (hm : Mono bs)
      (hl : ∀ o ∈ objs, ∀ D, o.duration = some D → LastBelow D bs)
  /-- a single block without rtime and duration -/
  | untimed (b : Block) (hb : bs = [b]) (hu : Untimed b)

/-- Extra hypothesis for acceptance by the renderer: the last duration is not negative and, for
an untimed block, no object has a negative duration. -/
def HypAccept (objs : List Obj) (bs : List Block) : Prop :=
  LastNonneg bs ∧ ((∃ b ∈ bs, Untimed b) → ∀ o ∈ objs, ∀ D, o.duration = some D → 0 ≤ D)

/-- "no interpolation length exceeds its block": for a timed block its duration, for an untimed
block (which lasts as long as the object) the duration of every object. -/
def InterpOK (objs : List Obj) (b : Block) : Prop :=
  ∀ il, hasIL b = true → b.il = some il →
    match b.duration with
    | some d => il ≤ d
    | none => ∀ o ∈ objs, ∀ D, o.duration = some D → il ≤ D

/-- Everything the proofs establish about a successful repair, in one place. -/
structure Post (objs : List Obj) (bs out : List Block) : Prop where
  rel : RelP Same bs out
  contig : Contig out
  interp : ∀ b ∈ out, InterpOK objs b
  within : ∀ o ∈ objs, ∀ D, o.duration = some D → Within D out
  stable : Stable objs out
  accept : HypAccept objs bs → ∀ o ∈ objs, accepted o out = .ok

theorem timed_not_untimed {b : Block} (h : Timed b) : ¬ Untimed b := by
  simp only [Timed, Untimed] at *; intro hu; simp [hu.1] at h

theorem fix_post (objs : List Obj) (bs : List Block) (h : Hyp objs bs) :
    ∃ out ws, fixTimings objs bs = .ok (out, ws) ∧ Post objs bs out := by
  cases h with
  | timed ht hm hl =>
    obtain ⟨out, ws, h1, h2, h3, h4, h5, h6⟩ := fix_timed objs bs ht hm hl
    have tout := rel_allTimed h2 ht
    refine ⟨out, ws, h1, h2, h3, ?_, h5, ⟨fun b hb => Or.inl (tout b hb), h3, fun b hb _ => h4 b hb, ?_⟩, ?_⟩
    · intro b hb il hil hs
      have tb := tout b hb
      have := h4 b hb il hil hs
      rcases b with ⟨r, _|d, o, j, il'⟩
      · simp [Timed] at tb
      · simpa [Block.d] using this
    · intro o ho D hD
      exact ⟨h5 o ho D hD, fun b hb hu => (timed_not_untimed (tout b hb) hu).elim⟩
    · intro ha o ho
      exact accept_timed o out none tout h3 (rel_mono h2 hm) (h6 ha.1) h4 (fun D hD => h5 o ho D hD)
        (by cases out <;> trivial)
  | untimed b hb hu =>
    subst hb
    obtain ⟨b', ws, h1, h2, h3, h4⟩ := fix_untimed objs b hu
    refine ⟨[b'], ws, h1, ⟨h2, trivial⟩, trivial, ?_, ?_, ⟨?_, trivial, ?_, ?_⟩, ?_⟩
    · intro x hx il hil hs
      simp only [List.mem_singleton] at hx; subst hx
      rw [h3.2]
      intro o ho D hD
      exact h4 o ho D hD il hil hs
    · intro o ho D hD x hx tx
      simp only [List.mem_singleton] at hx; subst hx
      exact (timed_not_untimed tx h3).elim
    · intro x hx; simp only [List.mem_singleton] at hx; subst hx; exact Or.inr h3
    · intro x hx tx; simp only [List.mem_singleton] at hx; subst hx
      exact (timed_not_untimed tx h3).elim
    · intro o ho D hD
      refine ⟨?_, ?_⟩
      · intro x hx tx; simp only [List.mem_singleton] at hx; subst hx
        exact (timed_not_untimed tx h3).elim
      · intro x hx _; simp only [List.mem_singleton] at hx; subst hx; exact h4 o ho D hD
    · intro ha o ho
      exact accept_untimed o b' h3 (fun D hD => ⟨h4 o ho D hD, ha.2 ⟨b, by simp, hu⟩ o ho D hD⟩)

/-- a successful run is the one described by `fix_post` -/
theorem post_of_ok {objs : List Obj} {bs out : List Block} {ws : List Warn} (h : Hyp objs bs)
    (hf : fixTimings objs bs = .ok (out, ws)) : Post objs bs out := by
  obtain ⟨out', ws', h1, h2⟩ := fix_post objs bs h
  rw [h1] at hf
  cases hf
  exact h2

/-! ## The property -/

/-- The repair does not raise on inputs meeting the hypotheses. -/
theorem fix_ok (objs : List Obj) (bs : List Block) (h : Hyp objs bs) :
    ∃ out ws, fixTimings objs bs = .ok (out, ws) := by
  obtain ⟨out, ws, h1, _⟩ := fix_post objs bs h
  exact ⟨out, ws, h1⟩

/-- Block start times are unchanged (and so are block count, types, jumpPosition flags and the
presence of durations / interpolation lengths: `RelP Same`). -/
theorem fix_rtime_unchanged (objs : List Obj) (bs out : List Block) (ws : List Warn) (h : Hyp objs bs)
    (hf : fixTimings objs bs = .ok (out, ws)) :
    out.map (·.rtime) = bs.map (·.rtime) ∧ RelP Same bs out :=
  ⟨rel_rtimes (post_of_ok h hf).rel, (post_of_ok h hf).rel⟩

/-- Every channel's blocks are contiguous: each block ends where the next one starts
(`Contig`: `a.r + a.d = b.r` for neighbours; all blocks keep rtime and duration). -/
theorem fix_contiguous (objs : List Obj) (bs out : List Block) (ws : List Warn) (h : Hyp objs bs)
    (hf : fixTimings objs bs = .ok (out, ws)) :
    Contig out ∧ (AllTimed bs → AllTimed out) :=
  ⟨(post_of_ok h hf).contig, rel_allTimed (post_of_ok h hf).rel⟩

/-- No interpolation length exceeds its block. -/
theorem fix_interp_le_duration (objs : List Obj) (bs out : List Block) (ws : List Warn) (h : Hyp objs bs)
    (hf : fixTimings objs bs = .ok (out, ws)) : ∀ b ∈ out, InterpOK objs b :=
  (post_of_ok h hf).interp

/-- No block extends past the duration of any object referencing the channel. -/
theorem fix_within_object (objs : List Obj) (bs out : List Block) (ws : List Warn) (h : Hyp objs bs)
    (hf : fixTimings objs bs = .ok (out, ws)) :
    ∀ o ∈ objs, ∀ D, o.duration = some D → ∀ b ∈ out, Timed b → b.r + b.d ≤ D :=
  (post_of_ok h hf).within

/-- The renderer's timing checks (`block_start_end` + the interpolation checks of
`InterpretObjectMetadata`) accept the repaired channel for every object referencing it.  `accepted` is
the compact per-channel transliteration in `Model/TimingFix.lean`; it is PROVED equal to the outcome of
the interpreter models C02/C03 use (`accepted_eq_interpreters`), see the next theorem. -/
theorem fix_accepted_by_renderer (objs : List Obj) (bs out : List Block) (ws : List Warn)
    (h : Hyp objs bs) (ha : HypAccept objs bs) (hf : fixTimings objs bs = .ok (out, ws)) :
    ∀ o ∈ objs, accepted o out = .ok :=
  (post_of_ok h hf).accept ha

/-- The same clause stated on the interpreter models C02/C03 render with (`Model/Timeline.lean`), through
`accepted_eq_interpreters` (`Proofs/C15Timeline.lean`): fed block by block to a fresh
`InterpretObjectMetadata` (Objects channel) resp. `InterpretDirectSpeakersMetadata` (DirectSpeakers
channel) with the object's start / duration as `extra_data`, at any sample rate, no block of the
repaired channel raises. -/
theorem fix_accepted_by_timeline_interpreters (sr : Nat) (objs : List Obj) (bs out : List Block)
    (ws : List Warn) (h : Hyp objs bs) (ha : HypAccept objs bs) (hf : fixTimings objs bs = .ok (out, ws)) :
    ∀ o ∈ objs,
      ((∀ b ∈ out, b.isObjects = true) → runObject sr {} (out.map (toMeta o)) = .ok) ∧
      ((∀ b ∈ out, b.isObjects = false) → runFixed sr {} (out.map (toMeta o)) = .ok) := by
  intro o ho
  have hacc := fix_accepted_by_renderer objs bs out ws h ha hf o ho
  exact ⟨fun hb => by rw [(accepted_eq_interpreters sr o out).1 hb]; exact hacc,
         fun hb => by rw [(accepted_eq_interpreters sr o out).2 hb]; exact hacc⟩

/-- Repairing again changes nothing: `fix (fix b) = fix b` … -/
theorem fix_idempotent (objs : List Obj) (bs out : List Block) (ws : List Warn) (h : Hyp objs bs)
    (hf : fixTimings objs bs = .ok (out, ws)) :
    ∃ ws', fixTimings objs out = .ok (out, ws') :=
  ⟨[], stable_fix objs out (post_of_ok h hf).stable⟩

/-- … and warns about nothing. -/
theorem fix_second_run_silent (objs : List Obj) (bs out out' : List Block) (ws ws' : List Warn)
    (h : Hyp objs bs) (hf : fixTimings objs bs = .ok (out, ws))
    (hf' : fixTimings objs out = .ok (out', ws')) : ws' = [] ∧ out' = out := by
  rw [stable_fix objs out (post_of_ok h hf).stable] at hf'
  cases hf'
  exact ⟨rfl, rfl⟩

/-! ## The deprecated reader option: `fix_blockFormat_durations` (duration pass only) -/

/-- `fix_blockFormat_timings` is the duration pass (= everything the reader option
`load_axml_doc(fix_block_format_durations=True)` runs), followed by the interpolationLength pass and
the clamp to the objects. -/
theorem fixTimings_eq_stages (objs : List Obj) (bs : List Block) :
    fixTimings objs bs =
      (match checkTimesForObjects objs (checkILs 0 (fixDurationsOnly bs).1).1 with
       | .error e => .error e
       | .ok r => .ok (r.1, (fixDurationsOnly bs).2 ++ (checkILs 0 (fixDurationsOnly bs).1).2 ++ r.2)) := rfl

/-- **fixDurationsOnly_spec.**  On a channel whose blocks all have rtime and duration (no
monotonicity or object hypothesis needed) the reader option's repair keeps every rtime (and block
count, types, flags, presence of durations / interpolation lengths), makes the blocks contiguous,
keeps the last duration, is idempotent and silent the second time, and is the first stage of
`fix_blockFormat_timings`.  It does not look at interpolation lengths (except the silent
"contracted below the interpolation length" case) nor at audioObjects: see
`durationsOnly_leaves_interp_too_long`, `durationsOnly_leaves_block_past_object`. -/
theorem fixDurationsOnly_spec (bs : List Block) (ht : AllTimed bs) :
    RelP Same bs (fixDurationsOnly bs).1 ∧
    (fixDurationsOnly bs).1.map (·.rtime) = bs.map (·.rtime) ∧
    Contig (fixDurationsOnly bs).1 ∧
    (LastNonneg bs → LastNonneg (fixDurationsOnly bs).1) ∧
    fixDurationsOnly (fixDurationsOnly bs).1 = ((fixDurationsOnly bs).1, []) := by
  obtain ⟨r1, c1, n1⟩ := checkDurations_spec bs 0 ht
  refine ⟨r1, rel_rtimes r1, c1, n1, ?_⟩
  exact checkDurations_stable _ 0 (fun b hb => Or.inl (rel_allTimed r1 ht b hb)) c1

/-- the same under the property's hypotheses `Hyp` (timed channel or a single untimed block) -/
theorem fixDurationsOnly_hyp (objs : List Obj) (bs : List Block) (h : Hyp objs bs) :
    (fixDurationsOnly bs).1.map (·.rtime) = bs.map (·.rtime) ∧ Contig (fixDurationsOnly bs).1 ∧
    fixDurationsOnly (fixDurationsOnly bs).1 = ((fixDurationsOnly bs).1, []) := by
  cases h with
  | timed ht _ _ =>
    obtain ⟨_, h2, h3, _, h5⟩ := fixDurationsOnly_spec bs ht
    exact ⟨h2, h3, h5⟩
  | untimed b hb _ => subst hb; exact ⟨rfl, trivial, rfl⟩

/-- after the reader option's repair the full repair has nothing left to do in its first pass: its
result is the interpolationLength pass and the clamp applied to the reader option's result -/
theorem fixTimings_after_durationsOnly (objs : List Obj) (bs : List Block) (ht : AllTimed bs) :
    fixTimings objs (fixDurationsOnly bs).1 =
      (match fixTimings objs bs with
       | .error e => .error e
       | .ok r => .ok (r.1, (checkILs 0 (fixDurationsOnly bs).1).2 ++
           (match checkTimesForObjects objs (checkILs 0 (fixDurationsOnly bs).1).1 with
            | .ok r' => r'.2 | .error _ => []))) := by
  have h := (fixDurationsOnly_spec bs ht).2.2.2.2
  rw [fixTimings_eq_stages objs (fixDurationsOnly bs).1, h, fixTimings_eq_stages objs bs]
  cases checkTimesForObjects objs (checkILs 0 (fixDurationsOnly bs).1).1 with
  | error e => rfl
  | ok r => simp

private def qq (n : Int) (d : Nat) : Rat := mkRat n d
private def obb (r d : Option Rat) (jp : Bool := false) (il : Option Rat := none) : Block := ⟨r, d, true, jp, il⟩

/-- verdict of the renderer on the fully repaired channel (`none`: the repair raised) -/
def acceptedAfterFix (o : Obj) (bs : List Block) : Option Verdict :=
  match fixTimings [o] bs with
  | .ok r => some (accepted o r.1)
  | .error _ => none

private def exIl : List Block :=
  [obb (some 0) (some (qq 33 100)) true (some (qq 1 2)), obb (some (qq 34 100)) (some (qq 33 100))]
private def exPast : List Block := [obb (some 0) (some (qq 1 2)), obb (some (qq 1 2)) (some (qq 51 100))]

/-- **What the reader option does not repair (1).**  Inside `Hyp`/`HypAccept`: the first block is
expanded from 0.33 to 0.34 but its interpolationLength 0.5 stays; the renderer rejects the channel
("interpolation length is longer than block"), while after the full repair it is accepted. -/
theorem durationsOnly_leaves_interp_too_long :
    fixDurationsOnly exIl =
      ([obb (some 0) (some (qq 34 100)) true (some (qq 1 2)), obb (some (qq 34 100)) (some (qq 33 100))],
       [⟨.expanded, 0⟩]) ∧
    accepted ⟨none, none⟩ (fixDurationsOnly exIl).1 = .interpTooLong ∧
    acceptedAfterFix ⟨none, none⟩ exIl = some .ok := by decide +kernel

/-- **What the reader option does not repair (2).**  The last block (0.5 + 0.51) ends after its
object (duration 1): untouched by the reader option, rejected by the renderer ("ends after object");
the full repair clamps it. -/
theorem durationsOnly_leaves_block_past_object :
    fixDurationsOnly exPast = (exPast, []) ∧
    accepted ⟨none, some 1⟩ (fixDurationsOnly exPast).1 = .endsAfterObject ∧
    acceptedAfterFix ⟨none, some 1⟩ exPast = some .ok := by decide +kernel

/-- both examples are inside the hypotheses of the headline theorems -/
example : Hyp [⟨none, none⟩] exIl ∧ HypAccept [⟨none, none⟩] exIl := by
  refine ⟨Hyp.timed ?_ ?_ ?_, ?_, ?_⟩
  · intro b hb; simp [exIl, obb] at hb; rcases hb with rfl | rfl <;> simp [Timed]
  · refine ⟨?_, trivial⟩; simp [exIl, obb, Block.r]; decide +kernel
  · intro o ho D hD; simp at ho; subst ho; simp at hD
  · simp [exIl, obb, LastNonneg, Block.d]; decide +kernel
  · intro ⟨b, hb, hu⟩; simp [exIl, obb] at hb; rcases hb with rfl | rfl <;> simp [Untimed] at hu
example : Hyp [⟨none, some 1⟩] exPast ∧ HypAccept [⟨none, some 1⟩] exPast := by
  refine ⟨Hyp.timed ?_ ?_ ?_, ?_, ?_⟩
  · intro b hb; simp [exPast, obb] at hb; rcases hb with rfl | rfl <;> simp [Timed]
  · refine ⟨?_, trivial⟩; simp [exPast, obb, Block.r]; decide +kernel
  · intro o ho D hD; simp at ho; subst ho; simp at hD; subst hD
    simp [exPast, obb, LastBelow, Block.r]; decide +kernel
  · simp [exPast, obb, LastNonneg, Block.d]; decide +kernel
  · intro ⟨b, hb, hu⟩; simp [exPast, obb] at hb; rcases hb with rfl | rfl <;> simp [Untimed] at hu

/-! ## Rounded timelines meet the hypotheses -/

/-- Round to `k` decimals: nearest multiple of `10^-k` (ties upwards).  The generator uses Python's
`round` (ties to even): `roundHalfEven` below; both are instances of `Rounding`. -/
def roundDec (k : Nat) (x : Rat) : Rat :=
  ((x * (10 : Rat) ^ k + 1 / 2).floor : Rat) * ((10 : Rat) ^ k)⁻¹

theorem pow10_pos (k : Nat) : (0 : Rat) < (10 : Rat) ^ k := by
  induction k with
  | zero => decide
  | succ k ih => rw [Rat.pow_succ]; grind

theorem roundDec_mono (k : Nat) (x y : Rat) (h : x ≤ y) : roundDec k x ≤ roundDec k y := by
  have hp := pow10_pos k
  have hi : (0 : Rat) ≤ ((10 : Rat) ^ k)⁻¹ := by
    have := Rat.inv_pos.2 hp; grind
  unfold roundDec
  apply Rat.mul_le_mul_of_nonneg_right _ hi
  apply Rat.intCast_le_intCast.2
  apply Rat.floor_monotone
  have := Rat.mul_le_mul_of_nonneg_right h (Rat.le_of_lt hp)
  grind

theorem roundDec_err (k : Nat) (x : Rat) :
    roundDec k x - x ≤ ((10 : Rat) ^ k)⁻¹ / 2 ∧ x - roundDec k x ≤ ((10 : Rat) ^ k)⁻¹ / 2 := by
  have hp := pow10_pos k
  have hi : (0 : Rat) < ((10 : Rat) ^ k)⁻¹ := Rat.inv_pos.2 hp
  have hpe : (10 : Rat) ^ k * ((10 : Rat) ^ k)⁻¹ = 1 := Rat.mul_inv_cancel _ (by grind)
  unfold roundDec
  generalize (10 : Rat) ^ k = p at *
  generalize p⁻¹ = e at *
  have h1 := Rat.floor_le (x * p + 1 / 2)
  have h2 := Rat.lt_floor_add_one (x * p + 1 / 2)
  generalize (x * p + 1 / 2).floor = n at *
  have h1' := Rat.mul_le_mul_of_nonneg_right h1 (Rat.le_of_lt hi)
  have h2' := Rat.mul_le_mul_of_nonneg_right (Rat.le_of_lt h2) (Rat.le_of_lt hi)
  have c : ((n + 1 : Int) : Rat) = (n : Rat) + 1 := by simp [Rat.intCast_add]
  rw [c] at h2'
  have e1 : (x * p + 1 / 2) * e = x + e / 2 := by grind
  constructor <;> grind

/-- A rounding function with unit `e`: monotone, error at most `e/2`. -/
structure Rounding (rnd : Rat → Rat) (e : Rat) : Prop where
  mono : ∀ x y, x ≤ y → rnd x ≤ rnd y
  err : ∀ x, rnd x - x ≤ e / 2 ∧ x - rnd x ≤ e / 2

theorem roundDec_rounding (k : Nat) : Rounding (roundDec k) ((10 : Rat) ^ k)⁻¹ :=
  ⟨roundDec_mono k, roundDec_err k⟩

/-- round every time of a block / an object -/
def roundBlock (rnd : Rat → Rat) (b : Block) : Block :=
  { b with rtime := b.rtime.map rnd, duration := b.duration.map rnd, il := b.il.map rnd }
def roundObj (rnd : Rat → Rat) (o : Obj) : Obj := ⟨o.start.map rnd, o.duration.map rnd⟩

/-- A valid exact timeline whose durations exceed the rounding unit `e`: all blocks timed,
contiguous, longer than `e`, and inside every object that has a duration. -/
structure ExactValid (e : Rat) (objs : List Obj) (bs : List Block) : Prop where
  timed : AllTimed bs
  contig : Contig bs
  long : ∀ b ∈ bs, e < b.d
  inside : ∀ o ∈ objs, ∀ D, o.duration = some D → Within D bs

theorem roundBlock_r {rnd : Rat → Rat} {b : Block} (h : Timed b) : (roundBlock rnd b).r = rnd b.r := by
  rcases b with ⟨_|r, _|d, o, j, il⟩ <;> simp [Timed] at h
  simp [roundBlock, Block.r]

theorem roundBlock_d {rnd : Rat → Rat} {b : Block} (h : Timed b) : (roundBlock rnd b).d = rnd b.d := by
  rcases b with ⟨_|r, _|d, o, j, il⟩ <;> simp [Timed] at h
  simp [roundBlock, Block.d]

theorem roundBlock_timed {rnd : Rat → Rat} {b : Block} (h : Timed b) : Timed (roundBlock rnd b) := by
  rcases b with ⟨_|r, _|d, o, j, il⟩ <;> simp [Timed] at h
  simp [roundBlock, Timed]

theorem rounded_mono {rnd : Rat → Rat} {e : Rat} (hr : Rounding rnd e) :
    ∀ (bs : List Block), AllTimed bs → Contig bs → (∀ b ∈ bs, e < b.d) → Mono (bs.map (roundBlock rnd))
  | [], _, _, _ => trivial
  | [_], _, _, _ => trivial
  | a :: b :: rest, ht, hc, hl => by
    have ih := rounded_mono hr (b :: rest) (fun x hx => ht x (by simp [hx])) hc.2
      (fun x hx => hl x (by simp [hx]))
    refine ⟨?_, ih⟩
    rw [roundBlock_r (ht a (by simp)), roundBlock_r (ht b (by simp))]
    apply hr.mono
    have := hc.1; have := hl a (by simp); have := hr.err 0
    grind

theorem rounded_last {rnd : Rat → Rat} {e : Rat} (hr : Rounding rnd e) (D : Rat) :
    ∀ (bs : List Block), AllTimed bs → (∀ b ∈ bs, e < b.d) → Within D bs →
      LastBelow (rnd D) (bs.map (roundBlock rnd)) ∧ LastNonneg (bs.map (roundBlock rnd))
  | [], _, _, _ => ⟨trivial, trivial⟩
  | [b], ht, hl, hw => by
    have tb := ht b (by simp)
    simp only [List.map, LastBelow, LastNonneg]
    rw [roundBlock_r tb, roundBlock_d tb]
    have := hw b (by simp) tb; have := hl b (by simp)
    have := hr.err D; have := hr.err b.r; have := hr.err b.d
    constructor <;> grind
  | a :: b :: rest, ht, hl, hw =>
    rounded_last hr D (b :: rest) (fun x hx => ht x (by simp [hx])) (fun x hx => hl x (by simp [hx]))
      (fun x hx => hw x (by simp [hx]))

theorem rounded_lastNonneg {rnd : Rat → Rat} {e : Rat} (hr : Rounding rnd e) :
    ∀ (bs : List Block), AllTimed bs → (∀ b ∈ bs, e < b.d) → LastNonneg (bs.map (roundBlock rnd))
  | [], _, _ => trivial
  | [b], ht, hl => by
    have tb := ht b (by simp)
    simp only [List.map, LastNonneg]
    rw [roundBlock_d tb]
    have := hl b (by simp); have := hr.err b.d; have := hr.err 0
    grind
  | a :: b :: rest, ht, hl =>
    rounded_lastNonneg hr (b :: rest) (fun x hx => ht x (by simp [hx])) (fun x hx => hl x (by simp [hx]))

/-- **Rounding lands inside the hypotheses.**  Rounding every time (rtimes, durations,
interpolation lengths, object starts and durations) of a valid exact timeline whose durations
exceed the rounding unit yields a channel meeting `Hyp` and `HypAccept`; in particular for
`rnd = roundDec k` with unit `10^-k`, `k ∈ {2,…,5}` or any other. -/
theorem rounding_meets_hypotheses (rnd : Rat → Rat) (e : Rat) (hr : Rounding rnd e)
    (objs : List Obj) (bs : List Block) (h : ExactValid e objs bs) :
    Hyp (objs.map (roundObj rnd)) (bs.map (roundBlock rnd)) ∧
    HypAccept (objs.map (roundObj rnd)) (bs.map (roundBlock rnd)) := by
  have tm : AllTimed (bs.map (roundBlock rnd)) := by
    intro x hx
    simp only [List.mem_map] at hx
    obtain ⟨b, hb, rfl⟩ := hx
    exact roundBlock_timed (h.timed b hb)
  refine ⟨Hyp.timed tm (rounded_mono hr bs h.timed h.contig h.long) ?_, rounded_lastNonneg hr bs h.timed h.long, ?_⟩
  · intro o ho D hD
    simp only [List.mem_map] at ho
    obtain ⟨o', ho', rfl⟩ := ho
    cases hd : o'.duration with
    | none => simp [roundObj, hd] at hD
    | some D' =>
      simp only [roundObj, hd, Option.map_some, Option.some.injEq] at hD
      subst hD
      exact (rounded_last hr D' bs h.timed h.long (h.inside o' ho' D' hd)).1
  · intro ⟨x, hx, hu⟩
    exact (timed_not_untimed (tm x hx) hu).elim

/-- the instance the property talks about: decimal rounding to `k` digits -/
theorem rounding_meets_hypotheses_dec (k : Nat) (objs : List Obj) (bs : List Block)
    (h : ExactValid ((10 : Rat) ^ k)⁻¹ objs bs) :
    Hyp (objs.map (roundObj (roundDec k))) (bs.map (roundBlock (roundDec k))) ∧
    HypAccept (objs.map (roundObj (roundDec k))) (bs.map (roundBlock (roundDec k))) :=
  rounding_meets_hypotheses _ _ (roundDec_rounding k) objs bs h

/-! ### Mixed rounding conventions (nearest / truncation / rounding up, chosen per value)

`rounding_meets_hypotheses` needs one monotone rounding function.  Different tools round
differently, and one document may mix conventions; then every written value is still within
`δ` (= the unit for floor/ceil, half a unit for nearest) of the exact one.  That alone suffices
when the exact durations exceed `2δ`. -/

/-- `b` is the timed block `a` with rtime and duration each moved by at most `δ`
(type, jumpPosition and interpolationLength are unconstrained). -/
def Near (δ : Rat) (a b : Block) : Prop :=
  Timed a ∧ Timed b ∧ b.r - a.r ≤ δ ∧ a.r - b.r ≤ δ ∧ b.d - a.d ≤ δ ∧ a.d - b.d ≤ δ

/-- `o'` is `o` with its duration (if any) moved by at most `δ`; the start is unconstrained. -/
def NearObj (δ : Rat) (o o' : Obj) : Prop :=
  match o.duration, o'.duration with
  | some D, some D' => D' - D ≤ δ ∧ D - D' ≤ δ
  | none, none => True
  | _, _ => False

def RelO (δ : Rat) : List Obj → List Obj → Prop
  | [], [] => True
  | o :: os, o' :: os' => NearObj δ o o' ∧ RelO δ os os'
  | _, _ => False

theorem relO_back (δ : Rat) : ∀ {objs objs' : List Obj}, RelO δ objs objs' →
    ∀ o' ∈ objs', ∀ D', o'.duration = some D' → ∃ o ∈ objs, ∃ D, o.duration = some D ∧ D - D' ≤ δ
  | [], [], _, o', ho', _, _ => by simp at ho'
  | _ :: _, [], h, _, _, _, _ => h.elim
  | [], _ :: _, h, _, _, _, _ => h.elim
  | o :: os, p :: ps, h, o', ho', D', hD' => by
    simp only [List.mem_cons] at ho'
    rcases ho' with rfl | ho'
    · have hn := h.1
      simp only [NearObj, hD'] at hn
      cases hd : o.duration with
      | none => simp [hd] at hn
      | some D => simp only [hd] at hn; exact ⟨o, by simp, D, hd, hn.2⟩
    · obtain ⟨o, ho, D, hD, hle⟩ := relO_back δ h.2 o' ho' D' hD'
      exact ⟨o, by simp [ho], D, hD, hle⟩

theorem near_allTimed (δ : Rat) : ∀ {bs bs' : List Block}, RelP (Near δ) bs bs' → AllTimed bs'
  | [], [], _ => by simp [AllTimed]
  | _ :: _, [], h => h.elim
  | [], _ :: _, h => h.elim
  | a :: as, b :: bs, h => by
    have ih := near_allTimed δ h.2
    intro x hx
    simp only [List.mem_cons] at hx
    rcases hx with rfl | hx
    · exact h.1.2.1
    · exact ih x hx

theorem near_mono (δ : Rat) : ∀ {bs bs' : List Block}, RelP (Near δ) bs bs' → Contig bs →
    (∀ b ∈ bs, 2 * δ < b.d) → Mono bs'
  | [], [], _, _, _ => trivial
  | _ :: _, [], h, _, _ => h.elim
  | [], _ :: _, h, _, _ => h.elim
  | [_], [_], _, _, _ => trivial
  | [_], _ :: _ :: _, h, _, _ => h.2.elim
  | _ :: _ :: _, [_], h, _, _ => h.2.elim
  | a :: a' :: as, b :: b' :: bs, h, hc, hl => by
    refine ⟨?_, near_mono δ h.2 hc.2 (fun x hx => hl x (by simp [hx]))⟩
    obtain ⟨_, _, h1, h2, _, _⟩ := h.1
    obtain ⟨_, _, h3, h4, _, _⟩ := h.2.1
    have := hc.1; have := hl a (by simp)
    grind

theorem near_last (δ : Rat) (hδ : 0 ≤ δ) (D D' : Rat) (hD : D - D' ≤ δ) :
    ∀ {bs bs' : List Block}, RelP (Near δ) bs bs' → (∀ b ∈ bs, 2 * δ < b.d) → Within D bs →
      LastBelow D' bs'
  | [], [], _, _, _ => trivial
  | _ :: _, [], h, _, _ => h.elim
  | [], _ :: _, h, _, _ => h.elim
  | [a], [b], h, hl, hw => by
    obtain ⟨ta, _, h1, h2, h3, h4⟩ := h.1
    have := hw a (by simp) ta; have := hl a (by simp)
    simp only [LastBelow]; grind
  | [_], _ :: _ :: _, h, _, _ => h.2.elim
  | _ :: _ :: _, [_], h, _, _ => h.2.elim
  | _ :: a' :: as, _ :: b' :: bs, h, hl, hw =>
    near_last δ hδ D D' hD (bs := a' :: as) (bs' := b' :: bs) h.2 (fun x hx => hl x (by simp [hx]))
      (fun x hx => hw x (by simp [hx]))

theorem near_lastNonneg (δ : Rat) (hδ : 0 ≤ δ) :
    ∀ {bs bs' : List Block}, RelP (Near δ) bs bs' → (∀ b ∈ bs, 2 * δ < b.d) → LastNonneg bs'
  | [], [], _, _ => trivial
  | _ :: _, [], h, _ => h.elim
  | [], _ :: _, h, _ => h.elim
  | [a], [b], h, hl => by
    obtain ⟨_, _, h1, h2, h3, h4⟩ := h.1
    have := hl a (by simp)
    simp only [LastNonneg]; grind
  | [_], _ :: _ :: _, h, _ => h.2.elim
  | _ :: _ :: _, [_], h, _ => h.2.elim
  | _ :: a' :: as, _ :: b' :: bs, h, hl =>
    near_lastNonneg δ hδ (bs := a' :: as) (bs' := b' :: bs) h.2 (fun x hx => hl x (by simp [hx]))

/-- **Any perturbation by at most `δ` per value lands inside the hypotheses** when the exact
timeline is contiguous, inside its objects and has durations above `2δ` — whatever mixture of
nearest / floor / ceil produced the written values (`δ` = one unit covers all three). -/
theorem perturbation_meets_hypotheses (δ : Rat) (hδ : 0 ≤ δ) (objs objs' : List Obj)
    (bs bs' : List Block) (hb : RelP (Near δ) bs bs') (ho : RelO δ objs objs') (hc : Contig bs)
    (hlong : ∀ b ∈ bs, 2 * δ < b.d) (hin : ∀ o ∈ objs, ∀ D, o.duration = some D → Within D bs) :
    Hyp objs' bs' ∧ HypAccept objs' bs' := by
  have tm := near_allTimed δ hb
  refine ⟨Hyp.timed tm (near_mono δ hb hc hlong) ?_, near_lastNonneg δ hδ hb hlong, ?_⟩
  · intro o' ho' D' hD'
    obtain ⟨o, hmem, D, hD, hle⟩ := relO_back δ ho o' ho' D' hD'
    exact near_last δ hδ D D' hle hb hlong (hin o hmem D hD)
  · intro ⟨x, hx, hu⟩
    exact (timed_not_untimed (tm x hx) hu).elim

/-! ## The rounding functions the generator uses (half-even, floor, ceil) are instances -/

/- `roundHalfEvenInt`, `decWith`, `roundHalfEven`, `floorDec`, `ceilDec` are defined in
`Model/TimingFix.lean` (the driver runs them against `harness/c15.py: rnd`). -/

theorem intCast_succ (n : Int) : ((n + 1 : Int) : Rat) = (n : Rat) + 1 := by simp [Rat.intCast_add]

theorem roundHalfEvenInt_err (y : Rat) :
    (roundHalfEvenInt y : Rat) - y ≤ 1 / 2 ∧ y - (roundHalfEvenInt y : Rat) ≤ 1 / 2 := by
  have h1 := Rat.floor_le y
  have h2 := Rat.lt_floor_add_one y
  rw [intCast_succ] at h2
  unfold roundHalfEvenInt
  simp only
  generalize y.floor = f at *
  split
  · constructor <;> grind
  · split
    · rw [intCast_succ]; constructor <;> grind
    · split
      · constructor <;> grind
      · rw [intCast_succ]; constructor <;> grind

theorem floor_err (y : Rat) : ((y.floor : Int) : Rat) - y ≤ 0 ∧ y - ((y.floor : Int) : Rat) ≤ 1 := by
  have h1 := Rat.floor_le y
  have h2 := Rat.lt_floor_add_one y
  rw [intCast_succ] at h2
  constructor <;> grind

theorem ceil_err (y : Rat) : ((y.ceil : Int) : Rat) - y ≤ 1 ∧ y - ((y.ceil : Int) : Rat) ≤ 0 := by
  have h1 : y ≤ ((y.ceil : Int) : Rat) := Rat.le_ceil
  have h2 : ((y.ceil : Int) : Rat) < y + 1 := Rat.ceil_lt
  constructor <;> grind

theorem ceil_monotone {a b : Rat} (h : a ≤ b) : a.ceil ≤ b.ceil := by
  apply Rat.ceil_le_iff.mpr
  have : b ≤ ((b.ceil : Int) : Rat) := Rat.le_ceil
  grind

/-- any integer rounding with error at most `c ≤ 1/2`… is monotone -/
theorem rint_mono_of_half (rint : Rat → Int)
    (h : ∀ y, (rint y : Rat) - y ≤ 1 / 2 ∧ y - (rint y : Rat) ≤ 1 / 2) (a b : Rat) (hab : a ≤ b) :
    rint a ≤ rint b := by
  by_cases e : a = b
  · subst e; exact Int.le_refl _
  · have hlt : a < b := by grind
    apply Int.not_lt.mp
    intro hc
    have h3 : rint b + 1 ≤ rint a := hc
    have h4 : ((rint b + 1 : Int) : Rat) ≤ (rint a : Rat) := Rat.intCast_le_intCast.2 h3
    rw [intCast_succ] at h4
    have := h a; have := h b
    grind

theorem decWith_mono (rint : Rat → Int) (hm : ∀ a b, a ≤ b → rint a ≤ rint b) (k : Nat) (x y : Rat)
    (h : x ≤ y) : decWith rint k x ≤ decWith rint k y := by
  have hp := pow10_pos k
  have hi : (0 : Rat) ≤ ((10 : Rat) ^ k)⁻¹ := by
    have := Rat.inv_pos.2 hp; grind
  unfold decWith
  apply Rat.mul_le_mul_of_nonneg_right _ hi
  apply Rat.intCast_le_intCast.2
  apply hm
  exact Rat.mul_le_mul_of_nonneg_right h (Rat.le_of_lt hp)

/-- an integer rounding with `-lo ≤ rint y - y ≤ hi` gives a decimal rounding with the same bounds
in units of `10^-k` -/
theorem decWith_err (rint : Rat → Int) (lo hi : Rat)
    (he : ∀ y, (rint y : Rat) - y ≤ hi ∧ y - (rint y : Rat) ≤ lo) (k : Nat) (x : Rat) :
    decWith rint k x - x ≤ hi * ((10 : Rat) ^ k)⁻¹ ∧ x - decWith rint k x ≤ lo * ((10 : Rat) ^ k)⁻¹ := by
  have hp := pow10_pos k
  have hi' : (0 : Rat) < ((10 : Rat) ^ k)⁻¹ := Rat.inv_pos.2 hp
  have hpe : (10 : Rat) ^ k * ((10 : Rat) ^ k)⁻¹ = 1 := Rat.mul_inv_cancel _ (by grind)
  unfold decWith
  generalize (10 : Rat) ^ k = p at *
  generalize p⁻¹ = e at *
  obtain ⟨h1, h2⟩ := he (x * p)
  generalize (rint (x * p) : Rat) = n at *
  have h1' := Rat.mul_le_mul_of_nonneg_right h1 (Rat.le_of_lt hi')
  have h2' := Rat.mul_le_mul_of_nonneg_right h2 (Rat.le_of_lt hi')
  have e1 : x * p * e = x := by rw [Rat.mul_assoc, hpe, Rat.mul_one]
  constructor <;> grind


theorem half_mul (e : Rat) : 1 / 2 * e = e / 2 := by grind
theorem one_mul_two (e : Rat) : 1 * e = 2 * e / 2 := by grind

/-- **Python's `round` (half-even) to `k` decimals is a `Rounding` with unit `10^-k`.**  This is the
function `harness/c15.py: rnd(x, k, "n")` applies (`round(Fraction)`), tied by the driver op `round`. -/
theorem roundHalfEven_rounding (k : Nat) : Rounding (roundHalfEven k) ((10 : Rat) ^ k)⁻¹ := by
  refine ⟨decWith_mono _ (rint_mono_of_half _ roundHalfEvenInt_err) k, fun x => ?_⟩
  have := decWith_err roundHalfEvenInt (1 / 2) (1 / 2) roundHalfEvenInt_err k x
  rw [half_mul] at this
  exact this

/-- truncation (`math.floor`) to `k` decimals: a `Rounding` with unit `2·10^-k` (error up to one
decimal unit, always downwards) -/
theorem floorDec_rounding (k : Nat) : Rounding (floorDec k) (2 * ((10 : Rat) ^ k)⁻¹) := by
  have hi : (0 : Rat) < ((10 : Rat) ^ k)⁻¹ := Rat.inv_pos.2 (pow10_pos k)
  refine ⟨decWith_mono _ (fun a b h => Rat.floor_monotone h) k, fun x => ?_⟩
  have := decWith_err Rat.floor 1 0 floor_err k x
  unfold floorDec
  generalize decWith Rat.floor k x = y at *
  constructor <;> grind

/-- rounding up (`math.ceil`) to `k` decimals: a `Rounding` with unit `2·10^-k` -/
theorem ceilDec_rounding (k : Nat) : Rounding (ceilDec k) (2 * ((10 : Rat) ^ k)⁻¹) := by
  have hi : (0 : Rat) < ((10 : Rat) ^ k)⁻¹ := Rat.inv_pos.2 (pow10_pos k)
  refine ⟨decWith_mono _ (fun a b h => ceil_monotone h) k, fun x => ?_⟩
  have := decWith_err Rat.ceil 0 1 ceil_err k x
  unfold ceilDec
  generalize decWith Rat.ceil k x = y at *
  constructor <;> grind

/-- **roundHalfEven_meets_hypotheses.**  The instance of `rounding_meets_hypotheses` for what the
generator's "nearest" convention does: every time of a valid exact timeline with durations above
`10^-k` written with Python's `round(x·10^k)/10^k` meets `Hyp` and `HypAccept`. -/
theorem roundHalfEven_meets_hypotheses (k : Nat) (objs : List Obj) (bs : List Block)
    (h : ExactValid ((10 : Rat) ^ k)⁻¹ objs bs) :
    Hyp (objs.map (roundObj (roundHalfEven k))) (bs.map (roundBlock (roundHalfEven k))) ∧
    HypAccept (objs.map (roundObj (roundHalfEven k))) (bs.map (roundBlock (roundHalfEven k))) :=
  rounding_meets_hypotheses _ _ (roundHalfEven_rounding k) objs bs h

/-- all values truncated: durations above two decimal units suffice -/
theorem floorDec_meets_hypotheses (k : Nat) (objs : List Obj) (bs : List Block)
    (h : ExactValid (2 * ((10 : Rat) ^ k)⁻¹) objs bs) :
    Hyp (objs.map (roundObj (floorDec k))) (bs.map (roundBlock (floorDec k))) ∧
    HypAccept (objs.map (roundObj (floorDec k))) (bs.map (roundBlock (floorDec k))) :=
  rounding_meets_hypotheses _ _ (floorDec_rounding k) objs bs h

/-- all values rounded up: durations above two decimal units suffice -/
theorem ceilDec_meets_hypotheses (k : Nat) (objs : List Obj) (bs : List Block)
    (h : ExactValid (2 * ((10 : Rat) ^ k)⁻¹) objs bs) :
    Hyp (objs.map (roundObj (ceilDec k))) (bs.map (roundBlock (ceilDec k))) ∧
    HypAccept (objs.map (roundObj (ceilDec k))) (bs.map (roundBlock (ceilDec k))) :=
  rounding_meets_hypotheses _ _ (ceilDec_rounding k) objs bs h

/-! ### the generator's mixed convention: each value independently nearest / truncated / rounded up -/

/-- `y` is `x` written with `k` decimals by one of the three conventions of `harness/c15.py: rnd`
(`"n"`: Python `round`, half-even; `"f"`: `math.floor`; `"c"`: `math.ceil`) -/
def DecWritten (k : Nat) (x y : Rat) : Prop :=
  y = roundHalfEven k x ∨ y = floorDec k x ∨ y = ceilDec k x

theorem decWritten_near (k : Nat) (x y : Rat) (h : DecWritten k x y) :
    y - x ≤ ((10 : Rat) ^ k)⁻¹ ∧ x - y ≤ ((10 : Rat) ^ k)⁻¹ := by
  have hi : (0 : Rat) < ((10 : Rat) ^ k)⁻¹ := Rat.inv_pos.2 (pow10_pos k)
  rcases h with rfl | rfl | rfl
  · have := (roundHalfEven_rounding k).err x; constructor <;> grind
  · have := (floorDec_rounding k).err x; constructor <;> grind
  · have := (ceilDec_rounding k).err x; constructor <;> grind

/-- block `b` is the timed block `a` with rtime and duration each written with `k` decimals by any
of the three conventions (type, jumpPosition, interpolationLength unconstrained) -/
def WrittenBlock (k : Nat) (a b : Block) : Prop :=
  Timed a ∧ Timed b ∧ DecWritten k a.r b.r ∧ DecWritten k a.d b.d

/-- object `o'` is `o` with its duration (if any) written with `k` decimals by any convention -/
def WrittenObj (k : Nat) (o o' : Obj) : Prop :=
  match o.duration, o'.duration with
  | some D, some D' => DecWritten k D D'
  | none, none => True
  | _, _ => False

def RelW (k : Nat) : List Obj → List Obj → Prop
  | [], [] => True
  | o :: os, o' :: os' => WrittenObj k o o' ∧ RelW k os os'
  | _, _ => False

theorem writtenBlock_near (k : Nat) (a b : Block) (h : WrittenBlock k a b) :
    Near ((10 : Rat) ^ k)⁻¹ a b := by
  obtain ⟨ta, tb, hr, hd⟩ := h
  have := decWritten_near k _ _ hr; have := decWritten_near k _ _ hd
  exact ⟨ta, tb, by grind, by grind, by grind, by grind⟩

theorem relW_relO (k : Nat) : ∀ {os os' : List Obj}, RelW k os os' → RelO ((10 : Rat) ^ k)⁻¹ os os'
  | [], [], _ => trivial
  | _ :: _, [], h => h.elim
  | [], _ :: _, h => h.elim
  | o :: os, o' :: os', h => by
    refine ⟨?_, relW_relO k h.2⟩
    have h1 := h.1
    simp only [WrittenObj, NearObj] at h1 ⊢
    cases hd : o.duration <;> cases hd' : o'.duration <;> simp only [hd, hd'] at h1 ⊢ <;> try trivial
    exact decWritten_near k _ _ h1

/-- **mixed_rounding_meets_hypotheses.**  A valid exact timeline (contiguous, inside its objects)
whose durations exceed two decimal units, every rtime / duration / object duration written with `k`
decimals by *any* per-value choice of nearest (half-even), truncation or rounding up, meets `Hyp`
and `HypAccept`.  This is the generator's `conv = "mixed"` / `"ilceil"` class. -/
theorem mixed_rounding_meets_hypotheses (k : Nat) (objs objs' : List Obj) (bs bs' : List Block)
    (hb : RelP (WrittenBlock k) bs bs') (ho : RelW k objs objs') (hc : Contig bs)
    (hlong : ∀ b ∈ bs, 2 * ((10 : Rat) ^ k)⁻¹ < b.d)
    (hin : ∀ o ∈ objs, ∀ D, o.duration = some D → Within D bs) :
    Hyp objs' bs' ∧ HypAccept objs' bs' :=
  perturbation_meets_hypotheses _ (Rat.le_of_lt (Rat.inv_pos.2 (pow10_pos k))) objs objs' bs bs'
    (RelP.mono (writtenBlock_near k) hb) (relW_relO k ho) hc hlong hin

/-- the three conventions evaluated: 0.125 to two decimals is 0.12 (half-even; `roundDec` gives 0.13),
0.12 truncated, 0.13 rounded up; 0.135 → 0.14 (even); −0.125 → −0.12 -/
example : roundHalfEven 2 (mkRat 1 8) = mkRat 12 100 ∧ roundDec 2 (mkRat 1 8) = mkRat 13 100 ∧
    floorDec 2 (mkRat 1 8) = mkRat 12 100 ∧ ceilDec 2 (mkRat 1 8) = mkRat 13 100 ∧
    roundHalfEven 2 (mkRat 135 1000) = mkRat 14 100 ∧ roundHalfEven 2 (mkRat (-1) 8) = mkRat (-12) 100 := by
  decide +kernel

/-- Non-vacuity of `WrittenBlock`: thirds of a second, second rtime rounded up and its duration
truncated. -/
example : WrittenBlock 2 ⟨some (mkRat 1 3), some (mkRat 1 3), true, false, none⟩
    ⟨some (mkRat 34 100), some (mkRat 33 100), true, true, some (mkRat 34 100)⟩ := by
  refine ⟨by simp [Timed], by simp [Timed], Or.inr (Or.inr ?_), Or.inr (Or.inl ?_)⟩ <;>
    simp [Block.r, Block.d] <;> decide +kernel

/-! ## Excluded points (the hypotheses cannot be dropped) and non-vacuity -/

deriving instance DecidableEq for Except

private def q (n : Int) (d : Nat) : Rat := mkRat n d
private def ob (r d : Option Rat) (jp : Bool := false) (il : Option Rat := none) : Block := ⟨r, d, true, jp, il⟩

/-- Last block starts exactly at the object's end (`last rtime = D`, not `<`): `ValueError`. -/
theorem excluded_start_at_object_end :
    fixTimings [⟨none, some (q 1 2)⟩] [ob (some 0) (some (q 1 2)), ob (some (q 1 2)) (some (q 1 2))]
      = .error .valueError := by decide +kernel

/-! ### Rounded timelines with a block not longer than the rounding unit: the repair raises

`ExactValid.long` (`e < b.d` for every block; `e = 10^-k` for nearest, `2·10^-k` for floor / ceil /
mixed) cannot be dropped from any `…_meets_hypotheses` theorem. -/

/-- the exact timeline of `excluded_rounded_short_block`: blocks (0, 0.9951), (0.9951, 0.0098) in an
object of duration 1.0049 -/
def shortExact : List Block := [ob (some 0) (some (q 9951 10000)), ob (some (q 9951 10000)) (some (q 98 10000))]
def shortObjs : List Obj := [⟨none, some (q 10049 10000)⟩]

/-- **excluded_rounded_short_block** (recorded finding `rounded-short-block-collapse`).  A valid exact
timeline — all timed, contiguous, inside its object, durations positive, repaired without any change
by the model — whose last duration 0.0098 is not longer than the rounding unit 0.01.  Written with two
decimals by Python's `round` it becomes (0, 1.00), (1.00, 0.01) in an object of duration 1.00: the
last block starts at the object's end and `fix_blockFormat_timings` raises `ValueError` ("tried to
advance end … before the block start").  Run on the real code on every check
(`harness/c15.py: witness_case`). -/
theorem excluded_rounded_short_block :
    fixTimings shortObjs shortExact = .ok (shortExact, []) ∧
    accepted ⟨none, some (q 10049 10000)⟩ shortExact = .ok ∧
    shortExact.map (roundBlock (roundHalfEven 2)) = [ob (some 0) (some 1), ob (some 1) (some (q 1 100))] ∧
    shortObjs.map (roundObj (roundHalfEven 2)) = [⟨none, some 1⟩] ∧
    fixTimings (shortObjs.map (roundObj (roundHalfEven 2))) (shortExact.map (roundBlock (roundHalfEven 2)))
      = .error .valueError := by decide +kernel

/-- the exact timeline meets every clause of `ExactValid (10^-2)` except `long`: its last duration
0.0098 is positive but not above 0.01 -/
theorem shortExact_valid_but_short :
    AllTimed shortExact ∧ Contig shortExact ∧ (∀ b ∈ shortExact, 0 < b.d) ∧
    (∀ o ∈ shortObjs, ∀ D, o.duration = some D → Within D shortExact) ∧
    ¬ (∀ b ∈ shortExact, ((10 : Rat) ^ 2)⁻¹ < b.d) := by
  refine ⟨?_, ?_, ?_, ?_, ?_⟩
  · intro b hb; simp [shortExact, ob] at hb; rcases hb with rfl | rfl <;> simp [Timed]
  · refine ⟨?_, trivial⟩; simp [shortExact, ob, Block.r, Block.d]; decide +kernel
  · intro b hb; simp [shortExact, ob] at hb; rcases hb with rfl | rfl <;> simp [Block.d] <;> decide +kernel
  · intro o ho D hD b hb _
    simp [shortObjs] at ho; subst ho; simp at hD; subst hD
    simp [shortExact, ob] at hb; rcases hb with rfl | rfl <;> simp [Block.r, Block.d] <;> decide +kernel
  · intro h
    have := h (ob (some (q 9951 10000)) (some (q 98 10000))) (by simp [shortExact])
    revert this; simp [ob, Block.d]; decide +kernel

/-- **fix_raises_rounded.**  The general form of the finding, for any way `rnd` of writing the
times: if the written last block starts at or after the written end of some object referencing the
channel and its written duration is positive, the repair of the written document raises `ValueError`
(instance of `fix_raises_when_last_block_outside_object`). -/
theorem fix_raises_rounded (rnd : Rat → Rat) (objs : List Obj) (bs : List Block) (ht : AllTimed bs)
    (o : Obj) (ho : o ∈ objs) (D : Rat) (hD : o.duration = some D)
    (hl : LastOutside (rnd D) (bs.map (roundBlock rnd))) :
    fixTimings (objs.map (roundObj rnd)) (bs.map (roundBlock rnd)) = .error .valueError := by
  refine fix_raises_when_last_block_outside_object _ _ ?_ (roundObj rnd o) (List.mem_map.2 ⟨o, ho, rfl⟩)
    (rnd D) (by simp [roundObj, hD]) hl
  intro x hx
  simp only [List.mem_map] at hx
  obtain ⟨b, hb, rfl⟩ := hx
  exact roundBlock_timed (ht b hb)

/-- non-vacuity: the hypotheses of `fix_raises_rounded` hold on the witness -/
example : AllTimed shortExact ∧ (⟨none, some (q 10049 10000)⟩ : Obj) ∈ shortObjs ∧
    LastOutside (roundHalfEven 2 (q 10049 10000)) (shortExact.map (roundBlock (roundHalfEven 2))) := by
  refine ⟨shortExact_valid_but_short.1, by simp [shortObjs], ?_⟩
  simp [shortExact, ob, roundBlock, LastOutside, Block.r, Block.d]; decide +kernel

/-- Negative last duration with a jumpPosition: the repair succeeds and changes nothing, the
interpreter rejects ("specified interpolation length is longer than block"). -/
theorem excluded_negative_last_duration :
    fixTimings [⟨none, none⟩] [ob (some 0) (some (q 1 2)), ob (some (q 1 2)) (some (q (-1) 2)) true]
      = .ok ([ob (some 0) (some (q 1 2)), ob (some (q 1 2)) (some (q (-1) 2)) true], []) ∧
    accepted ⟨none, none⟩ [ob (some 0) (some (q 1 2)), ob (some (q 1 2)) (some (q (-1) 2)) true]
      = .interpTooLong := by decide +kernel

/-- rtime without duration: `assert False, "not validated"`. -/
theorem excluded_rtime_xor_duration :
    fixTimings [⟨none, some 1⟩] [ob (some 0) none] = .error .assertion := by decide +kernel

/-- Two untimed blocks: untouched by the repair, rejected by the interpreter ("overlapping blocks"). -/
theorem excluded_two_untimed :
    fixTimings [⟨none, some 1⟩] [ob none none, ob none none] = .ok ([ob none none, ob none none], []) ∧
    accepted ⟨none, some 1⟩ [ob none none, ob none none] = .overlap := by decide +kernel

/-- Decreasing rtimes (0, 10, 5 with an object of duration 7): the first block is clamped to the
object and no longer meets the second one — contiguity is lost. -/
theorem excluded_decreasing_rtimes :
    fixTimings [⟨none, some 7⟩] [ob (some 0) (some 1), ob (some 10) (some 1), ob (some 5) (some 1)]
      = .ok ([ob (some 0) (some 7), ob (some 10) (some (-5)), ob (some 5) (some 1)],
             [⟨.expanded, 0⟩, ⟨.contracted, 1⟩, ⟨.endAdvanced, 0⟩]) := by decide +kernel

/-- Non-vacuity: a channel rounded to two decimals (thirds of a second) shared by two objects
meets `Hyp` and `HypAccept`; the model evaluates on it: the first block is expanded and its
interpolation length contracted, the last block is clamped twice. -/
private def exBlocks : List Block :=
  [ob (some 0) (some (q 33 100)) true (some (q 1 2)), ob (some (q 34 100)) (some (q 33 100)),
   ob (some (q 67 100)) (some (q 33 100))]
private def exObjs : List Obj := [⟨some 1, some (q 99 100)⟩, ⟨none, some (q 98 100)⟩]

example : Hyp exObjs exBlocks := by
  refine Hyp.timed ?_ ?_ ?_
  · intro b hb; simp [exBlocks, ob] at hb; rcases hb with rfl | rfl | rfl <;> simp [Timed]
  · refine ⟨?_, ?_, trivial⟩ <;> simp [exBlocks, ob, Block.r] <;> decide +kernel
  · intro o ho D hD
    simp [exObjs] at ho
    rcases ho with rfl | rfl <;> simp at hD <;> subst hD <;>
      simp [exBlocks, ob, LastBelow, Block.r] <;> decide +kernel

example : HypAccept exObjs exBlocks := by
  refine ⟨?_, ?_⟩
  · simp [exBlocks, ob, LastNonneg, Block.d]; decide +kernel
  · intro ⟨b, hb, hu⟩
    simp [exBlocks, ob] at hb; rcases hb with rfl | rfl | rfl <;> simp [Untimed] at hu

example : fixTimings exObjs exBlocks =
    .ok ([ob (some 0) (some (q 34 100)) true (some (q 34 100)), ob (some (q 34 100)) (some (q 33 100)),
          ob (some (q 67 100)) (some (q 31 100))],
         [⟨.expanded, 0⟩, ⟨.ilContracted, 0⟩, ⟨.endAdvanced, 2⟩, ⟨.endAdvanced, 2⟩]) := by decide +kernel

example : accepted ⟨some 1, some (q 99 100)⟩ exBlocks = .interpTooLong := by decide +kernel

/-- the Timeline interpreter model evaluated (48 kHz): the unrepaired channel raises "interpolation
length is longer than block", the repaired one (see the example above) raises nothing -/
example : runObject 48000 {} (exBlocks.map (toMeta ⟨some 1, some (q 99 100)⟩)) = .interpTooLong ∧
    runObject 48000 {}
      ([ob (some 0) (some (q 34 100)) true (some (q 34 100)), ob (some (q 34 100)) (some (q 33 100)),
        ob (some (q 67 100)) (some (q 31 100))].map (toMeta ⟨some 1, some (q 99 100)⟩)) = .ok ∧
    (∀ b ∈ exBlocks, b.isObjects = true) := by decide +kernel

/-- Non-vacuity of the untimed case. -/
example : Hyp [⟨some 1, some 1⟩] [ob none none true (some 2)] :=
  Hyp.untimed _ rfl ⟨rfl, rfl⟩
example : fixTimings [⟨some 1, some 1⟩] [ob none none true (some 2)] =
    .ok ([ob none none true (some 1)], [⟨.ilReducedToObject, 0⟩]) := by decide +kernel

/-- Non-vacuity of `ExactValid`/`Rounding`: thirds of a second are a valid exact timeline for
the unit 1/100. -/
example : ExactValid (q 1 100) [⟨none, some 1⟩]
    [ob (some 0) (some (q 1 3)), ob (some (q 1 3)) (some (q 1 3)), ob (some (q 2 3)) (some (q 1 3))] := by
  refine ⟨?_, ?_, ?_, ?_⟩
  · intro b hb; simp [ob] at hb; rcases hb with rfl | rfl | rfl <;> simp [Timed]
  · refine ⟨?_, ?_, trivial⟩ <;> simp [ob, Block.r, Block.d] <;> decide +kernel
  · intro b hb; simp [ob] at hb; rcases hb with rfl | rfl | rfl <;> simp [Block.d] <;> decide +kernel
  · intro o ho D hD b hb _
    simp at ho; subst ho; simp at hD; subst hD
    simp [ob] at hb; rcases hb with rfl | rfl | rfl <;> simp [Block.r, Block.d] <;> decide +kernel

/-- Non-vacuity of `Near`: thirds of a second written with mixed conventions (second rtime
rounded up, its duration truncated; third rtime truncated, its duration rounded up). -/
example : RelP (Near (q 1 100))
    [ob (some 0) (some (q 1 3)), ob (some (q 1 3)) (some (q 1 3)), ob (some (q 2 3)) (some (q 1 3))]
    [ob (some 0) (some (q 33 100)), ob (some (q 34 100)) (some (q 33 100)) true (some (q 34 100)),
     ob (some (q 66 100)) (some (q 34 100))] := by
  refine ⟨?_, ?_, ?_, trivial⟩ <;> simp [Near, ob, Timed, Block.r, Block.d] <;> decide +kernel

/-! ## The whole document: which audioObjects clamp which audioChannelFormats

`Model/TimingFixDoc.lean` transliterates the three passes over all audioChannelFormats and the
traversal of `check_blockFormat_times_for_audioObjects` (`ObjectChannelMatcher` = the pack allocator
on each audioObject's own references; `Proofs/C15Doc.lean`: `docFix_channel`, `docFix_ok`,
`docFix_stable`). -/

/-- Hypotheses on a document: the pack allocator finds a unique allocation for every audioObject
that has a duration (otherwise `AdmFormatRefError` escapes, `excluded_doc_conflicting_refs`), and
every audioChannelFormat meets `Hyp` for the audioObjects whose allocation contains it. -/
structure DocHyp (pairs : List (Obj × Option (List Nat))) (t : Table) : Prop where
  matcher : ∀ p ∈ pairs, p.1.duration.isSome = true → p.2.isSome = true
  chan : ∀ c, c < t.length → Hyp (objsFor pairs c) (Table.get t c)

/-- **doc_fix_post.**  `fix_blockFormat_timings(adm)` on a document meeting `DocHyp` does not raise
and leaves every audioChannelFormat `c` in the state `Post` describes (rtimes unchanged, contiguous,
interpolation lengths inside their blocks, blocks inside every audioObject whose allocation contains
`c`, stable; and — `Post.accept` — accepted by the renderer's timing checks for each of these
audioObjects PROVIDED the channel also meets `HypAccept` (last duration not negative), which is not
part of `DocHyp`: `doc_fix_accepted` states that clause with its hypothesis) — `objs` is no longer an
input but computed by the model of `ObjectChannelMatcher` / the pack allocator. -/
theorem doc_fix_post (pairs : List (Obj × Option (List Nat))) (t : Table) (h : DocHyp pairs t) :
    ∃ t' ws, docFix pairs t = .ok (t', ws) ∧ t'.length = t.length ∧
      ∀ c, c < t.length → Post (objsFor pairs c) (Table.get t c) (Table.get t' c) := by
  obtain ⟨r, hr⟩ := docFix_ok pairs t h.matcher (fun c hc => by
    obtain ⟨out, ws, h1, _⟩ := fix_post _ _ (h.chan c hc)
    exact ⟨_, h1⟩)
  refine ⟨r.1, r.2, hr, docFix_length pairs t r hr, ?_⟩
  intro c hc
  obtain ⟨ws, hw⟩ := docFix_channel pairs t r hr c
  exact post_of_ok (h.chan c hc) hw

/-- **doc_fix_accepted.**  The acceptance clause for whole documents, with its extra hypothesis made
explicit: if every audioChannelFormat additionally meets `HypAccept` (last duration ≥ 0; rounded
timelines do: `…_meets_hypotheses`), then after the repair the renderer's timing checks accept every
audioChannelFormat for every audioObject whose allocation contains it. -/
theorem doc_fix_accepted (pairs : List (Obj × Option (List Nat))) (t : Table) (h : DocHyp pairs t)
    (ha : ∀ c, c < t.length → HypAccept (objsFor pairs c) (Table.get t c)) :
    ∃ t' ws, docFix pairs t = .ok (t', ws) ∧
      ∀ c, c < t.length → ∀ o ∈ objsFor pairs c, accepted o (Table.get t' c) = .ok := by
  obtain ⟨t', ws, h1, _, h3⟩ := doc_fix_post pairs t h
  exact ⟨t', ws, h1, fun c hc => (h3 c hc).accept (ha c hc)⟩

/-- **doc_fix_idempotent_silent.**  Repairing the repaired document again returns it unchanged and
warns about nothing. -/
theorem doc_fix_idempotent_silent (pairs : List (Obj × Option (List Nat))) (t t' : Table) (ws : List DWarn)
    (h : DocHyp pairs t) (hf : docFix pairs t = .ok (t', ws)) : docFix pairs t' = .ok (t', []) := by
  have hl := docFix_length pairs t (t', ws) hf
  apply docFix_stable pairs t' h.matcher
  intro c hc
  obtain ⟨ws', hw⟩ := docFix_channel pairs t (t', ws) hf c
  exact (post_of_ok (h.chan c (by simp only at hl; omega)) hw).stable

/-- the same statements for the small document type, with the pairs computed by the allocator
model (`Doc.pairs`: `Model/SelectItems.lean: selectPackMapping` on the audioObject's own
audioPackFormat / audioTrackUID references) -/
theorem smallDoc_fix_post (d : Doc) (h : DocHyp d.pairs d.channels) :
    ∃ t' ws, d.fix = .ok (t', ws) ∧ t'.length = d.channels.length ∧
      (∀ c, c < d.channels.length → Post (objsFor d.pairs c) (Table.get d.channels c) (Table.get t' c)) ∧
      docFix d.pairs t' = .ok (t', []) := by
  obtain ⟨t', ws, h1, h2, h3⟩ := doc_fix_post d.pairs d.channels h
  exact ⟨t', ws, h1, h2, h3, doc_fix_idempotent_silent d.pairs d.channels t' ws h h1⟩

/-- The pack allocation of a selection state depends on the state only through the *last*
audioObject of its path: the renderer (`select_rendering_items`, object path `p`) pairs the leaf
audioObject with exactly the channels the repair's `ObjectChannelMatcher` (path `[leaf]`) clamps
against it. -/
theorem selectPackMapping_leaf (a : Adm.Adm) (st : Adm.State) (p : List Nat) (hp : st.objPath = some p) :
    Adm.selectPackMapping a st =
      Adm.selectPackMapping a { programme := none, content := none, objPath := some [p.getLastD 0] } := by
  simp [Adm.selectPackMapping, Adm.allocProblem, hp]

/-! ### examples: the model evaluates, `DocHyp` is inhabited, the excluded point -/

private def tb (r d : Rat) : Block := ⟨some r, some d, true, false, none⟩
/-- audioObject 0 (duration 1) references pack 0, which nests pack 1: channels 0 and 1; audioObject 1
(duration 0.9) references pack 1 only: channel 1; audioObject 2 has no duration and inconsistent
references (one track for a two-channel pack): the allocator is never asked about it. -/
private def exDoc : Doc :=
  ⟨[⟨none, some 1, [0], [some 0, some 1]⟩, ⟨some 5, some (mkRat 9 10), [1], [some 2]⟩, ⟨none, none, [0], [some 0]⟩],
   [⟨3, [0], [1]⟩, ⟨3, [1], []⟩], [⟨0, 0⟩, ⟨1, 1⟩, ⟨1, 1⟩],
   [[tb 0 (mkRat 1 2), tb (mkRat 1 2) (mkRat 6 10)], [tb 0 2]]⟩

example : exDoc.pairs.map (·.2) = [some [0, 1], some [1], none] := by decide +kernel
example : objsFor exDoc.pairs 0 = [⟨none, some 1⟩] ∧
    objsFor exDoc.pairs 1 = [⟨none, some 1⟩, ⟨some 5, some (mkRat 9 10)⟩] := by decide +kernel
/-- channel 0 is clamped to audioObject 0 (0.5 + 0.6 → 0.5 + 0.5), channel 1 to both (2 → 1 → 0.9) -/
example : exDoc.fix = .ok ([[tb 0 (mkRat 1 2), tb (mkRat 1 2) (mkRat 1 2)], [tb 0 (mkRat 9 10)]],
    [⟨0, ⟨.endAdvanced, 1⟩⟩, ⟨1, ⟨.endAdvanced, 0⟩⟩, ⟨1, ⟨.endAdvanced, 0⟩⟩]) := by decide +kernel

example : DocHyp exDoc.pairs exDoc.channels := by
  have e : objsFor exDoc.pairs 0 = [⟨none, some 1⟩] ∧
      objsFor exDoc.pairs 1 = [⟨none, some 1⟩, ⟨some 5, some (mkRat 9 10)⟩] := by decide +kernel
  refine ⟨by decide +kernel, ?_⟩
  intro c hc
  have hc' : c = 0 ∨ c = 1 := by simp [exDoc] at hc; omega
  rcases hc' with rfl | rfl
  · rw [e.1]
    refine Hyp.timed ?_ ?_ ?_
    · intro b hb; simp [exDoc, Table.get, tb] at hb; rcases hb with rfl | rfl <;> simp [Timed]
    · refine ⟨?_, trivial⟩; simp [exDoc, Table.get, tb, Block.r]; decide +kernel
    · intro o ho D hD; simp at ho; subst ho; simp at hD; subst hD
      simp [exDoc, Table.get, tb, LastBelow, Block.r]; decide +kernel
  · rw [e.2]
    refine Hyp.timed ?_ ?_ ?_
    · intro b hb; simp [exDoc, Table.get, tb] at hb; subst hb; simp [Timed]
    · trivial
    · intro o ho D hD; simp at ho
      rcases ho with rfl | rfl <;> simp at hD <;> subst hD <;>
        simp [exDoc, Table.get, tb, LastBelow, Block.r] <;> decide +kernel

/-- a document whose blocks have jumpPosition and interpolationLength: the first block is expanded
(0.33 → 0.34) and its interpolationLength 0.5 contracted to it; the last block (0.34 + 0.67) is
advanced to the end of its audioObject (start 2, duration 1) together with its interpolationLength -/
private def jb (r d il : Rat) : Block := ⟨some r, some d, true, true, some il⟩
private def exDoc2 : Doc :=
  ⟨[⟨some 2, some 1, [0], [some 0]⟩], [⟨3, [0], []⟩], [⟨0, 0⟩],
   [[jb 0 (mkRat 33 100) (mkRat 1 2), jb (mkRat 34 100) (mkRat 67 100) (mkRat 67 100)]]⟩

example : exDoc2.fix = .ok ([[jb 0 (mkRat 34 100) (mkRat 34 100), jb (mkRat 34 100) (mkRat 66 100) (mkRat 66 100)]],
    [⟨0, ⟨.expanded, 0⟩⟩, ⟨0, ⟨.ilContracted, 0⟩⟩, ⟨0, ⟨.endAdvanced, 1⟩⟩, ⟨0, ⟨.endAdvancedIl, 1⟩⟩]) ∧
    accepted ⟨some 2, some 1⟩ (Table.get exDoc2.channels 0) = .interpTooLong ∧
    accepted ⟨some 2, some 1⟩
      [jb 0 (mkRat 34 100) (mkRat 34 100), jb (mkRat 34 100) (mkRat 66 100) (mkRat 66 100)] = .ok := by
  decide +kernel

/-- it meets `DocHyp` and the extra hypothesis of `doc_fix_accepted` -/
example : DocHyp exDoc2.pairs exDoc2.channels ∧
    ∀ c, c < exDoc2.channels.length → HypAccept (objsFor exDoc2.pairs c) (Table.get exDoc2.channels c) := by
  have e : objsFor exDoc2.pairs 0 = [⟨some 2, some 1⟩] := by decide +kernel
  refine ⟨⟨by decide +kernel, ?_⟩, ?_⟩
  · intro c hc
    have hc' : c = 0 := by simp [exDoc2] at hc; omega
    subst hc'
    rw [e]
    refine Hyp.timed ?_ ?_ ?_
    · intro b hb; simp [exDoc2, Table.get, jb] at hb; rcases hb with rfl | rfl <;> simp [Timed]
    · refine ⟨?_, trivial⟩; simp [exDoc2, Table.get, jb, Block.r]; decide +kernel
    · intro o ho D hD; simp at ho; subst ho; simp at hD; subst hD
      simp [exDoc2, Table.get, jb, LastBelow, Block.r]; decide +kernel
  · intro c hc
    have hc' : c = 0 := by simp [exDoc2] at hc; omega
    subst hc'
    refine ⟨?_, ?_⟩
    · simp [exDoc2, Table.get, jb, LastNonneg, Block.d]; decide +kernel
    · intro ⟨b, hb, hu⟩
      simp [exDoc2, Table.get, jb] at hb; rcases hb with rfl | rfl <;> simp [Untimed] at hu

/-- **Excluded point of `DocHyp.matcher`.**  An audioObject *with* a duration whose references are
inconsistent (one audioTrackUID for a two-channel pack): `AdmFormatRefError` escapes from
`fix_blockFormat_timings` (run on the real code by the harness, outcome `error formatRef`). -/
theorem excluded_doc_conflicting_refs :
    (⟨[⟨none, some 1, [0], [some 0]⟩], [⟨3, [0, 1], []⟩], [⟨0, 0⟩], [[tb 0 1], [tb 0 1]]⟩ : Doc).fix
      = .error .formatRef := by decide +kernel

end Earverif.TimingFix
