/-
C03 — rendered audio equals the metadata-defined time-varying gains, zero latency.

Property theorems about the models in `Model/{Stream,Timeline,Renderer,RenderSpec}.lean`; long helper
lemmas are in `Proofs/C03{Bpc,Ceil,Gain}.lean`.
-/
import Earverif.Proofs.C03Gain
namespace Earverif.Timeline
open Earverif.Stream Earverif.RenderSpec

section
variable {V : Type} [RMod V] [LawfulRMod V]

omit [RMod V] [LawfulRMod V] in
theorem runSpec_lengths {K ι : Type} (upd : K → Nat → ι → V → V) (all : List (PBlock K)) :
    ∀ (ios : List (List ι × List V)) (S0 : Int),
      (runSpec upd all S0 ios).map List.length = ios.map (·.2.length) := by
  intro ios
  induction ios with
  | nil => intro _; rfl
  | cons io ios ih =>
    intro S0
    obtain ⟨inp, out⟩ := io
    simp only [runSpec, List.map_cons, mapRows_length, ih]

/-- A timeline in the property's quantifier: the interpreter accepts all of it (no overlapping /
out-of-order blocks, rtime and duration paired, block inside the object, interpolationLength not
longer than the block); durations and interpolation lengths are not negative; the first block does
not start before time zero (otherwise the real code raises "metadata underrun"). -/
structure ObjAccepted (sr : Nat) (blocks : List (MetaBlock V)) : Prop where
  interp_ok : ∃ all, interpAll (interpObject sr) {} blocks = .ok all
  nonneg : ∀ m ∈ blocks, NonNegBlock m
  start_nonneg : ∀ m ms, blocks = m :: ms → 0 ≤ (blockTimes m).1

/-- **`bpc_eq_gainAt`** — `BlockProcessingChannel` with `InterpretObjectMetadata`, fed the item's
sample stream in ANY partition (`ios` = the successive `(input block, rows to add into)` pairs,
empty blocks allowed), for an accepted timeline: no exception is raised (in particular no
"metadata underrun"), and the concatenated result adds `x[s] · gainAt(s)` to row `s` — a function
of the concatenated stream only.  `gainAt` is the sample-by-sample specification of
`Model/RenderSpec.lean` (constant / linear ramp / silence). -/
theorem bpc_eq_gainAt (sr : Nat) (blocks : List (MetaBlock V)) (hacc : ObjAccepted sr blocks)
    (ios : List (List Rat × List V)) (hlen : ∀ io ∈ ios, io.2.length = io.1.length) :
    ∃ b' outs, Bpc.run (interpObject sr) GainKern.upd ⟨blocks, {}, []⟩ 0 ios = .ok (b', outs) ∧
      outs.map List.length = ios.map (·.2.length) ∧
      outs.flatten =
        mapRows (fun j x o => o + RMod.smul x (gainAt sr (objTimeline none blocks) j).row)
          (ios.map (·.1)).flatten (ios.map (·.2)).flatten := by
  obtain ⟨all, hall⟩ := hacc.interp_ok
  have hst : StOK ({} : IState V) := ⟨rfl, Or.inl rfl⟩
  obtain ⟨h1, h2, _⟩ := obj_all_spec blocks {} all hall hst hacc.nonneg
  have hch : ChainLB 0 all := by
    apply h2
    intro m ms hm
    have := hacc.start_nonneg m ms hm
    have h0 : (0 : Rat) ≤ (blockTimes m).1 * sr := mul_nonneg this (by positivity)
    have := ceil_mono h0
    have hc0 : ceil 0 = 0 := by
      apply Int.le_antisymm
      · exact (ceil_le_iff 0 0).mpr (by norm_num)
      · have := (lt_ceil_iff 0 (-1)).mpr (by norm_num); omega
    omega
  obtain ⟨b', hrun, _⟩ := bpc_run_spec (interpObject sr) interpObject_yield_le_two GainKern.upd hch ios
    ⟨blocks, {}, []⟩ 0 (bpcInv_init _ _ _ hall hch)
  refine ⟨b', _, hrun, ?_, ?_⟩
  · exact runSpec_lengths _ _ _ _
  · rw [runSpec_flatten _ _ _ _ hlen]
    apply mapRows_congr
    intro j x o _
    rw [h1]
    simp only [statePrev, Int.zero_add]

/-- **`C03_gain_timeline`** (per item; = `bpc_eq_gainAt` read at one row): for any partition, row `s` of the
concatenated result is the old row plus `x[s] · gainAt(s)` — the sample `x[s]` itself, i.e. zero latency on
the gain path (`C03_direct_zero_latency` at the level of one channel). -/
theorem C03_gain_timeline (sr : Nat) (blocks : List (MetaBlock V)) (hacc : ObjAccepted sr blocks)
    (ios : List (List Rat × List V)) (hlen : ∀ io ∈ ios, io.2.length = io.1.length) (s : Nat) (x : Rat) (o : V)
    (hx : (ios.map (·.1)).flatten[s]? = some x) (ho : (ios.map (·.2)).flatten[s]? = some o) :
    ∃ b' outs, Bpc.run (interpObject sr) GainKern.upd ⟨blocks, {}, []⟩ 0 ios = .ok (b', outs) ∧
      outs.flatten[s]? = some (o + RMod.smul x (gainAt sr (objTimeline none blocks) s).row) := by
  obtain ⟨b', outs, h1, _, h3⟩ := bpc_eq_gainAt sr blocks hacc ios hlen
  refine ⟨b', outs, h1, ?_⟩
  rw [h3]
  simp only [mapRows, List.getElem?_mapIdx, ho, hx, Option.map_some]

omit [RMod V] [LawfulRMod V] in
/-- Silence is specified exactly where no block of the timeline covers the sample. -/
theorem gainAt_silent_iff {G : Type} (sr : Nat) (tl : List (SpecBlock G)) (s : Int) :
    (∃ g, gainAt sr tl s = g ∧ (match g with | .silent => True | _ => False)) ↔
      ∀ b ∈ tl, b.covers sr s = false := by
  induction tl with
  | nil => simp [gainAt]
  | cons b tl ih =>
    rw [gainAt_cons]
    by_cases hc : b.covers sr s = true
    · rw [if_pos hc]
      constructor
      · rintro ⟨g, hg, hm⟩
        unfold gainAt at hg
        simp only [List.find?, hc] at hg
        split at hg <;> (try split at hg) <;> subst hg <;> simp at hm
      · intro h; have := h b List.mem_cons_self; rw [hc] at this; cases this
    · rw [if_neg hc]
      simp only [Bool.not_eq_true] at hc
      rw [ih]
      simp [hc]

/-- **`C03_silence_outside_blocks`**: where no block covers sample `s`, the channel leaves row `s` unchanged. -/
theorem C03_silence_outside_blocks (sr : Nat) (tl : List (SpecBlock V)) (s : Int) (x : Rat) (o : V)
    (h : ∀ b ∈ tl, b.covers sr s = false) : o + RMod.smul x (gainAt sr tl s).row = o := by
  obtain ⟨g, hg, hm⟩ := (gainAt_silent_iff sr tl s).mpr h
  rw [hg]
  cases g with
  | silent => exact silent_row x o
  | const _ => cases hm
  | ramp _ _ _ => cases hm

omit [LawfulRMod V] in
/-- **`C03_sum_of_items_linear`** (two channels sharing the output rows, as in `ObjectRenderer.render`): the
second channel adds to what the first produced; row `s` ends up as `o + x_a·g_a + x_b·g_b`. -/
theorem C03_sum_of_items_linear (ga gb : Nat → V) (xa xb : List Rat) (os : List V) (s : Nat) (a b : Rat) (o : V)
    (ha : xa[s]? = some a) (hb : xb[s]? = some b) (ho : os[s]? = some o) :
    (mapRows (fun j x o => o + RMod.smul x (gb j)) xb (mapRows (fun j x o => o + RMod.smul x (ga j)) xa os))[s]? =
      some (o + RMod.smul a (ga s) + RMod.smul b (gb s)) := by
  simp only [mapRows, List.getElem?_mapIdx, ho, ha, hb, Option.map_some]

end

/-! ### Non-vacuity: a concrete accepted timeline (gap, jumpPosition with interpolationLength) -/

/-- Sample rate 10: `[0, 3/10)` gain 1; gap; `[1/2, 4/5)` gain 2; contiguous `[4/5, 13/10)` gain 3 with
jumpPosition and interpolationLength 1/4 (ramp 2→3 over samples 8..10, not aligned to samples). -/
def exBlocks : List (MetaBlock Rat) :=
  [ ⟨none, none, some 0, some (3/10), false, none, 1⟩,
    ⟨none, none, some (1/2), some (3/10), false, none, 2⟩,
    ⟨none, none, some (4/5), some (1/2), true, some (1/4), 3⟩ ]

theorem ok_of_toBool {ε α : Type} (e : Except ε α) (h : e.toBool = true) : ∃ a, e = .ok a := by
  cases e with
  | error _ => simp [Except.toBool] at h
  | ok a => exact ⟨a, rfl⟩

theorem exBlocks_accepted : ObjAccepted 10 exBlocks where
  interp_ok := ok_of_toBool _ (by decide +kernel)
  nonneg := by
    intro m hm
    simp only [exBlocks, List.mem_cons, List.not_mem_nil, or_false] at hm
    rcases hm with rfl | rfl | rfl <;>
      refine ⟨?_, ?_, ?_⟩ <;> intro d hd <;> cases hd <;> decide +kernel
  start_nonneg := by
    intro m ms h
    simp only [exBlocks] at h
    cases h
    decide +kernel

/-- The specified gains of the example at samples 0..13: constant, silence in the gap, ramp, constant, silence. -/
example : (List.range 14).map (fun s => (gainAt 10 (objTimeline none exBlocks) s).row) =
    [1, 1, 1, 0, 0, 2, 2, 2, 2, 12/5, 14/5, 3, 3, 0] := by decide +kernel

end Earverif.Timeline
