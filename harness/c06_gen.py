"""C06 helpers: scene-model generator, real-ADM builder, index serialiser for the Lean driver,
canonicalisers for real rendering items, and the independent oracle (written from the property text).

A *scene* is plain JSON-able data (replayable).  `build(scene)` makes a real `ear.fileio.adm.adm.ADM`;
`redeclare(adm, rng, children)` re-declares it in another order; `serialise(adm, ...)` walks the REAL document
and writes it by index for the driver (so the model sees what the code sees, not the scene)."""
import copy
from collections import Counter
from fractions import Fraction

_COMMON = None

SCREENS = [None, ("polar", 1.5, 10.0, 5.0, 1.0, 40.0), ("polar", 1.78, 0.0, 0.0, 1.0, 30.0)]  # index 0 = default
OFFSETS = [("polar", 10.0, 0.0, 0.0), ("polar", -20.0, 5.0, 0.25), ("cart", 0.5, 0.0, -0.5)]
NORMS = ["SN3D", "N3D", "FuMa"]
COMMON_PACKS = {  # common-definition packs the generator may use: id -> (type, usable in CHNA-only mode)
    "AP_00010001": ("ds", True), "AP_00010002": ("ds", True), "AP_00010003": ("ds", True),
    "AP_00040001": ("hoa", False), "AP_00040002": ("hoa", False),
}


def frac(x):
    return None if x is None else Fraction(x)


def rs(x):
    """exact rational string of a float / int / Fraction (or '-')"""
    if x is None:
        return "-"
    f = Fraction(x)
    return "%d/%d" % (f.numerator, f.denominator)


# --------------------------------------------------------------------------------------
# scene generator


def _gen_channel(rng, typ, name, k):
    ch = {"name": name, "type": typ, "freq": [None, None], "timed": rng.random() < 0.5}
    if typ == "objects":
        ch["blocks"] = rng.choice([1, 1, 2, 3])
    elif typ == "ds":
        ch["blocks"] = rng.choice([1, 1, 2])
        if rng.random() < 0.3:
            ch["freq"] = [rng.choice([120.0, 200.0]), None]
        elif rng.random() < 0.1:
            ch["freq"] = [None, 80.0]
    else:
        ch["blocks"] = 1
        # distinct (order, degree) per channel of the format: ACN k
        order = int(k ** 0.5)
        ch["hoa"] = {"order": order, "degree": k - order * order - order,
                     "gain": rng.choice([1.0, 1.0, 0.5]), "importance": rng.choice([10, 10, 3])}
    return ch


def _gen_format(rng, fi):
    typ = rng.choice(["objects", "objects", "ds", "ds", "hoa"])
    shape = rng.choice(["mono", "mono", "multi", "multi", "nested", "nested2"])
    if typ == "hoa" and shape == "mono":
        shape = "multi"
    counter = [0]

    def chans(n, prefix):
        out = []
        for _ in range(n):
            out.append(_gen_channel(rng, typ, "%s_c%d" % (prefix, counter[0]), counter[0]))
            counter[0] += 1
        return out

    def pack(name, nch, subs):
        return {"name": name, "type": typ, "channels": chans(nch, name), "subs": subs,
                "importance": rng.choice([None, None, 0, 3, 7, 10]), "absDist": None,
                "norm": None, "nfc": None, "sref": None}

    base = "f%d" % fi
    if shape == "mono":
        root = pack(base, 1, [])
    elif shape == "multi":
        root = pack(base, rng.choice([2, 3, 4] if typ == "hoa" else [2, 2, 3]), [])
    elif shape == "nested":
        subs = [pack("%s_s%d" % (base, j), rng.choice([1, 2]), []) for j in range(rng.choice([1, 2]))]
        root = pack(base, rng.choice([0, 1, 2]), subs)
    else:
        inner = pack(base + "_s0_s0", rng.choice([1, 2]), [])
        mid = pack(base + "_s0", rng.choice([0, 1]), [inner])
        root = pack(base, rng.choice([0, 1]), [mid])
    allp = []

    def walk(p):
        allp.append(p)
        for s in p["subs"]:
            walk(s)
    walk(root)
    # path parameters: one value for the whole format, placed on a random subset of packs (consistent)
    if rng.random() < 0.4:
        v = rng.choice([0.5, 2.0, 3.5])
        for p in allp:
            # an HOA pack must have one absoluteDistance for all its channels (get_single_param): root pack only
            if rng.random() < 0.6 and (typ != "hoa" or p is root):
                p["absDist"] = v
    if typ == "hoa":
        norm = rng.choice([None, None, "SN3D", "N3D", "FuMa"])
        nfc = rng.choice([None, None, 0.0, 1.5, 2.0])
        sref = rng.choice([None, None, True, False])
        rt = rng.choice([None, None, ["0", "1"], ["1/2", "3"]])
        # by validation the whole pack tree must agree: put the value on the root pack and/or on every block
        where = rng.choice(["root", "blocks", "both"])
        for p in allp:
            for c in p["channels"]:
                c["hoa"]["rtime"], c["hoa"]["duration"] = (rt if rt else [None, None])
                c["hoa"]["norm"] = norm if where in ("blocks", "both") else None
                c["hoa"]["nfc"] = nfc if where in ("blocks", "both") else None
                c["hoa"]["sref"] = sref if where in ("blocks", "both") else None
        if where in ("root", "both"):
            root["norm"], root["nfc"], root["sref"] = norm, nfc, sref
    return {"root": root}


def scene_slots(fmt_root):
    """(pack-name path, channel name) of a scene format, own channels first then sub-packs."""
    out = []

    def walk(p, path):
        path = path + [p["name"]]
        for c in p["channels"]:
            out.append((path, c["name"]))
        for s in p["subs"]:
            walk(s, path)
    walk(fmt_root, [])
    return out


def gen_scene(rng, mode=None, inject=None):
    sc = {}
    mode = mode or rng.choices(["programme", "noprog", "chna"], [0.72, 0.18, 0.10])[0]
    sc["mode"] = mode
    v2 = rng.random() < 0.45
    sc["version"] = (rng.choice([2, 2, None]) if v2 else rng.choice([1, 1, None, "noversion"]))
    sc["common"] = rng.random() < 0.2
    nf = rng.choice([1, 2, 2, 3, 4])
    sc["formats"] = [_gen_format(rng, i) for i in range(nf)]
    if sc["common"]:
        ids = [k for k, (_t, chna_ok) in COMMON_PACKS.items() if chna_ok or mode != "chna"]
        for cid in rng.sample(ids, rng.choice([1, 2])):
            sc["formats"].append({"common": cid})
    # matrix formats on top of the others: a direct matrix (input pack -> output pack) or an encode/decode pair
    base = len(sc["formats"])
    if mode != "chna" and rng.random() < 0.3:
        for _ in range(rng.choice([1, 1, 2])):
            sc["formats"].append({"matrix": {"kind": rng.choice(["direct", "encdec"]),
                                             "input": rng.randrange(base), "output": rng.randrange(base),
                                             "nenc": rng.choice([1, 2, 3]), "seed": rng.getrandbits(30)}})
    sc["inject"] = inject

    objs = []
    if mode != "chna":
        n_obj = rng.choice([0, 1, 2, 3, 3, 4, 5, 6, 8])
        for i in range(n_obj):
            objs.append({"name": "o%d" % i, "uses": [], "tracks": [], "subs": [], "comps": [],
                         "start": None, "duration": None, "gain": 1.0, "mute": False, "posOff": None,
                         "importance": rng.choice([None, None, 0, 2, 5, 9, 10]), "avs": []})
        for i, o in enumerate(objs):
            later = list(range(i + 1, n_obj))
            k = min(len(later), rng.choice([0, 0, 0, 1, 1, 2, 3]))
            o["subs"] = rng.sample(later, k)
        for i, o in enumerate(objs):
            leaf = not o["subs"]
            if rng.random() < (0.92 if leaf else 0.3):
                nuse = rng.choice([1, 1, 1, 2])
                o["uses"] = rng.sample(range(len(sc["formats"])), min(nuse, len(sc["formats"])))
                # AP_00040002 nests AP_00040001: tracks referencing the inner pack could go to either -> the real
                # document would be genuinely ambiguous (AdmFormatRefError); keep one of the two
                ids = [sc["formats"][u].get("common") for u in o["uses"]]
                if "AP_00040001" in ids and "AP_00040002" in ids:
                    o["uses"] = [u for u, i in zip(o["uses"], ids) if i != "AP_00040001"]
            if leaf:
                if rng.random() < 0.5:
                    o["start"] = rng.choice(["0", "1/2", "3", "7/3"])
                if rng.random() < 0.4:
                    o["duration"] = rng.choice(["1", "5/2", "10"])
                o["gain"] = rng.choice([1.0, 1.0, 0.5, 2.0, 0.1, 1.25])
                o["mute"] = rng.random() < 0.2
                o["posOff"] = rng.choice([None, None, 0, 1, 2])
                for _ in range(rng.choice([0, 0, 1, 2])):
                    o["avs"].append({"gain": rng.choice([None, 0.25, 3.0]), "mute": rng.choice([None, True, False]),
                                     "posOff": rng.choice([None, 0, 1, 2])})
        # complementary groups (disjoint)
        free = list(range(n_obj))
        rng.shuffle(free)
        sc["groups"] = []
        for _ in range(rng.choice([0, 0, 1, 1, 2])):
            if len(free) >= 2:
                k = min(len(free), rng.choice([2, 2, 3]))
                g, free = free[:k], free[k:]
                objs[g[0]]["comps"] = g[1:]
                sc["groups"].append(g)
        sel = []
        for g in sc["groups"]:
            r = rng.random()
            if r < 0.35:
                pass
            elif r < 0.55:
                sel.append(g[0])
            else:
                sel.append(rng.choice(g[1:]))
        rng.shuffle(sel)
        sc["selected"] = sel
    else:
        sc["groups"], sc["selected"] = [], []
    sc["objects"] = objs

    # audioTrackUIDs (which slots are silent, which pack of the slot's path a track references, track indices,
    # reference style) are drawn in build() from this seed once the slots of common-definition packs are known
    sc["track_seed"] = rng.getrandbits(32)

    contents, programmes = [], []
    if mode == "programme" or (mode == "noprog" and objs and rng.random() < 0.5):
        roots = [i for i in range(len(objs)) if not any(i in o["subs"] for o in objs)]
        for ci in range(rng.choice([1, 2, 2, 3])):
            pool = roots if rng.random() < 0.6 and roots else list(range(len(objs)))
            k = min(len(pool), rng.choice([0, 1, 1, 2, 3]))
            contents.append({"name": "c%d" % ci, "objects": rng.sample(pool, k), "avs": []})
    if mode == "programme":
        ids = rng.sample(range(1, 0xfff), 3)
        for pi in range(rng.choice([1, 1, 2, 2, 3])):
            k = rng.choice([0, 1, 1, 2, len(contents)])
            programmes.append({"name": "pr%d" % pi, "id": "APR_1%03X" % ids[pi],
                               "contents": rng.sample(range(len(contents)), min(k, len(contents))),
                               "screen": rng.choice([0, 0, None, 1, 2]), "avs": []})
    sc["contents"], sc["programmes"] = contents, programmes
    sc["given"] = (rng.randrange(len(programmes)) if programmes and rng.random() < 0.4 else None)

    # alternativeValueSet references (valid by construction: at most one per object per programme)
    def reach(oi, acc):
        acc.add(oi)
        for s in objs[oi]["subs"]:
            reach(s, acc)
        return acc
    for pi, p in enumerate(programmes):
        chosen = set()
        for ci in p["contents"]:
            exclusive = sum(1 for q in programmes if ci in q["contents"]) == 1 and p["contents"].count(ci) == 1
            r = set()
            for oi in contents[ci]["objects"]:
                reach(oi, r)
            for oi in sorted(r):
                if objs[oi]["avs"] and oi not in chosen and rng.random() < 0.5:
                    chosen.add(oi)
                    ref = [oi, rng.randrange(len(objs[oi]["avs"]))]
                    if exclusive and rng.random() < 0.5:
                        contents[ci]["avs"].append(ref)
                    else:
                        p["avs"].append(ref)
    # an AVS may be referenced from one place only per programme, and a content-level reference counts for every
    # programme containing the content: contents used by a single programme only (ensured above)

    if inject == "alloc-stress":
        # allocations that need the full search: the same format twice in one object (interchangeable tracks ->
        # "Ambiguous" unless mono), silent tracks in matrix usages; the result may be items or an error
        for o in objs:
            if o["uses"] and rng.random() < 0.7:
                o["uses"] = o["uses"] + [rng.choice(o["uses"])]
    if inject == "multi-selected" and sc["groups"]:
        g = sc["groups"][0]
        sc["selected"] = [g[0], g[1]]
    elif inject == "non-complementary" and objs:
        grouped = {i for g in sc["groups"] for i in g}
        cand = [i for i in range(len(objs)) if i not in grouped]
        if cand:
            sc["selected"] = sc["selected"] + [rng.choice(cand)]
    return sc


# --------------------------------------------------------------------------------------
# real document


class Built(object):
    pass


def _mk_screen(k):
    from ear.common import PolarScreen, PolarPosition, default_screen
    if k is None:
        return None
    if k == 0:
        return default_screen
    _t, ar, az, el, d, w = SCREENS[k]
    return PolarScreen(aspectRatio=ar, centrePosition=PolarPosition(az, el, d), widthAzimuth=w)


def _mk_offset(k):
    from ear.fileio.adm.elements.geom import PolarPositionOffset, CartesianPositionOffset
    if k is None:
        return None
    o = OFFSETS[k]
    if o[0] == "polar":
        return PolarPositionOffset(azimuth=o[1], elevation=o[2], distance=o[3])
    return CartesianPositionOffset(X=o[1], Y=o[2], Z=o[3])


def real_slots(pack):
    """(pack path, channel) of a real pack: generator-side slot naming (own channels, then sub-packs)."""
    out = []

    def walk(p, path):
        path = path + [p]
        for c in p.audioChannelFormats:
            out.append((path, c))
        for s in p.audioPackFormats:
            walk(s, path)
    walk(pack, [])
    return out


def build(scene):
    """scene -> real ADM (+ handles).  Element names are stable labels."""
    import random
    from ear.fileio.adm.adm import ADM
    from ear.fileio.adm.builder import ADMBuilder
    from ear.fileio.adm.elements import (AudioProgramme, AudioContent, AudioObject, AudioPackFormat,
                                         AudioChannelFormat, AudioStreamFormat, AudioTrackFormat, AudioTrackUID,
                                         AudioBlockFormatObjects, AudioBlockFormatDirectSpeakers, AudioBlockFormatHoa,
                                         TypeDefinition, FormatDefinition, Frequency, AlternativeValueSet)
    from ear.fileio.adm.elements.geom import (ObjectPolarPosition, DirectSpeakerPolarPosition, BoundCoordinate)
    from ear.fileio.adm.elements.version import BS2076Version, NoVersion

    v = scene["version"]
    if isinstance(v, int):
        builder = ADMBuilder.for_version(v)
    elif v == "noversion":
        builder = ADMBuilder(ADM(version=NoVersion()))
    else:
        builder = ADMBuilder()
    if scene["common"]:
        # parsed once, deep-copied per document (load_common_definitions costs ~60 ms)
        global _COMMON
        if _COMMON is None:
            cb = ADMBuilder()
            cb.load_common_definitions()
            _COMMON = cb.adm
        version = builder.adm.version
        builder.adm = copy.deepcopy(_COMMON)
        builder.adm.version = version
    adm = builder.adm
    T = {"objects": TypeDefinition.Objects, "ds": TypeDefinition.DirectSpeakers, "hoa": TypeDefinition.HOA}
    b = Built()
    b.adm = adm
    b.avs = {}

    def mk_channel(c):
        typ = c["type"]
        blocks = []
        for k in range(c["blocks"]):
            rt, du = (None, None) if c["blocks"] == 1 and not c["timed"] else (Fraction(k), Fraction(1))
            if typ == "objects":
                blocks.append(AudioBlockFormatObjects(position=ObjectPolarPosition(float(10 * k), 0.0, 1.0),
                                                      rtime=rt, duration=du))
            elif typ == "ds":
                blocks.append(AudioBlockFormatDirectSpeakers(
                    position=DirectSpeakerPolarPosition(bounded_azimuth=BoundCoordinate(float(30 * k)),
                                                        bounded_elevation=BoundCoordinate(0.0)),
                    speakerLabel=["M+0%d0" % k], rtime=rt, duration=du))
            else:
                h = c["hoa"]
                blocks.append(AudioBlockFormatHoa(order=h["order"], degree=h["degree"], gain=h["gain"],
                                                  importance=h["importance"], rtime=frac(h["rtime"]),
                                                  duration=frac(h["duration"]), normalization=h["norm"],
                                                  nfcRefDist=h["nfc"], screenRef=h["sref"]))
        ch = AudioChannelFormat(audioChannelFormatName=c["name"], type=T[typ], audioBlockFormats=blocks,
                                frequency=Frequency(lowPass=c["freq"][0], highPass=c["freq"][1]))
        adm.addAudioChannelFormat(ch)
        sf = AudioStreamFormat(audioStreamFormatName=c["name"], format=FormatDefinition.PCM, audioChannelFormat=ch)
        adm.addAudioStreamFormat(sf)
        tf = AudioTrackFormat(audioTrackFormatName=c["name"], audioStreamFormat=sf, format=FormatDefinition.PCM)
        adm.addAudioTrackFormat(tf)
        b.track_format_for[id(ch)] = tf
        return ch

    def mk_pack(p):
        pk = AudioPackFormat(audioPackFormatName=p["name"], type=T[p["type"]],
                             audioChannelFormats=[mk_channel(c) for c in p["channels"]],
                             audioPackFormats=[mk_pack(s) for s in p["subs"]],
                             importance=p["importance"], absoluteDistance=p["absDist"],
                             normalization=p["norm"], nfcRefDist=p["nfc"], screenRef=p["sref"])
        adm.addAudioPackFormat(pk)
        return pk

    b.track_format_for = {}
    if scene["common"]:
        for tf in adm.audioTrackFormats:
            b.track_format_for.setdefault(id(tf.audioStreamFormat.audioChannelFormat), tf)
    from ear.fileio.adm.elements import AudioBlockFormatMatrix, MatrixCoefficient
    roots = []
    b.matrix_info = {}

    def flat_channels(p):
        return [c for _path, c in real_slots(p)]

    def mk_matrix_channel(name, inputs, out, mrng):
        coeffs = [MatrixCoefficient(inputChannelFormat=mrng.choice(inputs),
                                    gain=mrng.choice([None, 0.5, 1.0, -0.25, 2.0]),
                                    delay=mrng.choice([None, None, 0.0, 2.5]))
                  for _ in range(mrng.choice([0, 1, 1, 2, 3]))]
        ch = AudioChannelFormat(audioChannelFormatName=name, type=TypeDefinition.Matrix, audioBlockFormats=[
            AudioBlockFormatMatrix(matrix=coeffs, gain=mrng.choice([1.0, 1.0, 0.5, 3.5]), outputChannelFormat=out)])
        adm.addAudioChannelFormat(ch)
        sf = AudioStreamFormat(audioStreamFormatName=name, format=FormatDefinition.PCM, audioChannelFormat=ch)
        adm.addAudioStreamFormat(sf)
        tf = AudioTrackFormat(audioTrackFormatName=name, audioStreamFormat=sf, format=FormatDefinition.PCM)
        adm.addAudioTrackFormat(tf)
        b.track_format_for[id(ch)] = tf
        return ch

    for fi, f in enumerate(scene["formats"]):
        if "matrix" in f:
            m = f["matrix"]
            mrng = random.Random(m["seed"])
            ipk, opk = roots[m["input"]], roots[m["output"]]
            name = "f%d" % fi
            if m["kind"] == "direct":
                chans = [mk_matrix_channel("%s_m%d" % (name, k), flat_channels(ipk), oc, mrng)
                         for k, oc in enumerate(flat_channels(opk))]
                pk = AudioPackFormat(audioPackFormatName=name, type=TypeDefinition.Matrix, audioChannelFormats=chans,
                                     inputPackFormat=ipk, outputPackFormat=opk,
                                     importance=mrng.choice([None, 4]))
                adm.addAudioPackFormat(pk)
                b.matrix_info[id(pk)] = ("direct", None)
            else:
                ech = [mk_matrix_channel("%s_e%d" % (name, k), flat_channels(ipk), None, mrng) for k in range(m["nenc"])]
                epk = AudioPackFormat(audioPackFormatName=name + "_enc", type=TypeDefinition.Matrix,
                                      audioChannelFormats=ech, inputPackFormat=ipk)
                adm.addAudioPackFormat(epk)
                chans = [mk_matrix_channel("%s_m%d" % (name, k), ech, oc, mrng)
                         for k, oc in enumerate(flat_channels(opk))]
                pk = AudioPackFormat(audioPackFormatName=name, type=TypeDefinition.Matrix, audioChannelFormats=chans,
                                     outputPackFormat=opk, encodePackFormats=[epk])
                adm.addAudioPackFormat(pk)
                b.matrix_info[id(pk)] = ("encdec", epk)
            roots.append(pk)
        else:
            roots.append(adm[f["common"]] if "common" in f else mk_pack(f["root"]))
    if scene.get("inject") == "absdist-conflict":
        for r in roots:
            if r.audioPackFormats and not r.is_common_definition:
                r.absoluteDistance = 1.0
                r.audioPackFormats[0].absoluteDistance = 9.0
    b.format_roots = roots
    slots = [real_slots(r) for r in roots]

    trng = random.Random(scene["track_seed"])
    v2 = scene["version"] in (2, None)
    n_uid = [0]

    b.matrix_usages = []

    def mk_tracks(fi, allow_silent, depth_free):
        out = []
        use_slots = slots[fi]
        if id(roots[fi]) in b.matrix_info:
            # usages of a matrix pack: which channels the tracks carry, and the pack they reference
            kind, epk = b.matrix_info[id(roots[fi])]
            pk = roots[fi]
            if kind == "direct":
                usage = trng.choice(["direct", "pre_applied"])
                chans, ref = (flat_channels(pk.inputPackFormat), pk) if usage == "direct" else (list(pk.audioChannelFormats), pk)
            else:
                usage = trng.choice(["decode", "pre_decoded", "encode_decode"])
                if usage == "decode":
                    chans, ref = list(epk.audioChannelFormats), pk
                elif usage == "pre_decoded":
                    chans, ref = list(pk.audioChannelFormats), pk
                else:
                    chans, ref = flat_channels(epk.inputPackFormat), epk
            b.matrix_usages.append(usage)
            use_slots = [([ref], c) for c in chans]
            allow_silent, depth_free = scene.get("inject") == "alloc-stress", False
        for path, ch in use_slots:
            if allow_silent and trng.random() < 0.2:
                out.append(None)
                continue
            pk = path[trng.randrange(len(path))] if depth_free else path[0]
            direct = v2 and trng.random() < 0.75
            u = AudioTrackUID(trackIndex=trng.randint(1, 12), audioPackFormat=pk)
            u.id = "ATU_%08X" % (n_uid[0] + 1)
            n_uid[0] += 1
            if direct:
                u.audioChannelFormat = ch
            else:
                u.audioTrackFormat = b.track_format_for[id(ch)]
            adm.addAudioTrackUID(u)
            out.append(u)
        return out

    objs = []
    for o in scene["objects"]:
        tracks = []
        for fi in o["uses"]:
            tracks += mk_tracks(fi, True, True)
        trng.shuffle(tracks)
        if scene.get("inject") == "extra-silent" and o["uses"] and o is scene["objects"][0]:
            tracks.append(None)
        avs = []
        for k, a in enumerate(o["avs"]):
            x = AlternativeValueSet(gain=a["gain"], mute=a["mute"], positionOffset=_mk_offset(a["posOff"]))
            avs.append(x)
        ob = AudioObject(audioObjectName=o["name"], audioPackFormats=[roots[fi] for fi in o["uses"]],
                         audioTrackUIDs=tracks, start=frac(o["start"]), duration=frac(o["duration"]),
                         gain=o["gain"], mute=o["mute"], positionOffset=_mk_offset(o["posOff"]),
                         importance=o["importance"], alternativeValueSets=avs)
        adm.addAudioObject(ob)
        objs.append(ob)
        for k, x in enumerate(avs):
            b.avs[id(x)] = "%s/avs%d" % (o["name"], k)
    for o, ob in zip(scene["objects"], objs):
        ob.audioObjects = [objs[i] for i in o["subs"]]
        ob.audioComplementaryObjects = [objs[i] for i in o["comps"]]
    if scene["mode"] == "chna":
        # tracks only: one use of every format (several of mono formats)
        for fi in range(len(roots)):
            for _ in range(trng.choice([1, 2, 3]) if len(slots[fi]) == 1 else 1):
                mk_tracks(fi, False, False)
    conts = []
    for c in scene["contents"]:
        co = AudioContent(audioContentName=c["name"], audioObjects=[objs[i] for i in c["objects"]],
                          alternativeValueSets=[objs[oi].alternativeValueSets[k] for oi, k in c["avs"]])
        adm.addAudioContent(co)
        conts.append(co)
    progs = []
    for p in scene["programmes"]:
        pr = AudioProgramme(audioProgrammeName=p["name"], id=p["id"],
                            audioContents=[conts[i] for i in p["contents"]], referenceScreen=_mk_screen(p["screen"]),
                            alternativeValueSets=[objs[oi].alternativeValueSets[k] for oi, k in p["avs"]])
        adm.addAudioProgramme(pr)
        progs.append(pr)
    b.objects, b.contents, b.programmes = objs, conts, progs
    b.given = progs[scene["given"]] if scene["given"] is not None else None
    b.selected = [objs[i] for i in scene["selected"]]
    _inject_structure(scene, b, roots)
    return b


STRUCTURE_INJECTIONS = ("diamond", "pack-loop", "empty-pack", "object-loop", "avs-dup", "hoa-attr")


def _inject_structure(scene, b, roots):
    """Documents that validate_structure rejects in _validate_pack_channel_multitree (a node reachable twice, a
    pack loop) and a document with a channel-less pack (accepted): only the validation predicates of these are
    compared with the model (`W` request), done last so that nothing above walks a looping pack graph."""
    import random
    from ear.fileio.adm.elements import AudioPackFormat, TypeDefinition
    inj = scene.get("inject")
    if inj not in STRUCTURE_INJECTIONS:
        return
    irng = random.Random(scene["track_seed"] ^ 0x5A5A5A)
    own = [r for r in roots if not r.is_common_definition and r.type != TypeDefinition.Matrix]
    if inj == "empty-pack":
        pk = AudioPackFormat(audioPackFormatName="empty", type=TypeDefinition.Objects)
        b.adm.addAudioPackFormat(pk)
        return
    if inj == "object-loop":
        # an audioObject that (transitively) contains itself: rejected by _validate_object_loops
        objs = list(b.adm.audioObjects)
        for i, x in enumerate(objs):
            # the loop message joins the audioObject ids: with ids left None (this generator does not assign them)
            # the real code ends in TypeError instead of AdmError -- None ids are outside the quantifier (C14)
            if x.id is None:
                x.id = "AO_%04X" % (0x1001 + i)
        if objs:
            o = irng.choice(objs)

            def leaves(x, seen):
                if id(x) in seen:
                    return []
                seen.add(id(x))
                return [x] if not x.audioObjects else [l for y in x.audioObjects for l in leaves(y, seen)]
            irng.choice(leaves(o, set()) or [o]).audioObjects.append(o)
        return
    if inj == "avs-dup":
        # the same alternativeValueSet referenced twice / from programme and content: _validate_avs_references
        refs = [r for r in list(b.adm.audioProgrammes) + list(b.adm.audioContents) if r.alternativeValueSets]
        if refs:
            r = irng.choice(refs)
            r.alternativeValueSets.append(r.alternativeValueSets[0])
        return
    if inj == "hoa-attr":
        # one HOA channel of a pack with another normalization: _validate_hoa_parameters_consistent
        hoa = [c for c in b.adm.audioChannelFormats
               if c.type == TypeDefinition.HOA and not c.is_common_definition and c.audioBlockFormats]
        if hoa:
            bf = irng.choice(hoa).audioBlockFormats[0]
            bf.normalization = "N3D" if bf.normalization != "N3D" else "FuMa"
        return
    if not own:
        return
    r = irng.choice(own)

    def descend(p):
        out = [p]
        for s_ in p.audioPackFormats:
            out += descend(s_)
        return out
    packs = descend(r)
    if inj == "pack-loop":
        packs[-1].audioPackFormats.append(r)  # deepest pack refers back to the root (a self-loop if there is none)
        return
    variants = []
    if r.audioChannelFormats:
        variants.append("channel-twice")
    if r.audioPackFormats:
        variants.append("subpack-twice")
    sub_ch = [c for p in packs[1:] for c in p.audioChannelFormats]
    if sub_ch:
        variants.append("channel-via-two-paths")
    v = irng.choice(variants) if variants else None
    if v == "channel-twice":
        r.audioChannelFormats.append(r.audioChannelFormats[0])
    elif v == "subpack-twice":
        r.audioPackFormats.append(r.audioPackFormats[0])
    elif v == "channel-via-two-paths":
        r.audioChannelFormats.append(irng.choice(sub_ch))


def redeclare(b, rng, children):
    """Re-declare the document in another order: shuffle the ADM's element lists (declaration order) and, when
    `children`, also every reference list whose order is only declaration order (contents of a programme, objects of
    a content, sub-objects / pack refs / track refs / complementary refs of an object, sub-packs of a pack).
    Elements keep their ids and names."""
    adm = b.adm
    for lst in adm._object_lists:
        rng.shuffle(lst)
    if children:
        for p in adm.audioProgrammes:
            rng.shuffle(p.audioContents)
        for c in adm.audioContents:
            rng.shuffle(c.audioObjects)
        for o in adm.audioObjects:
            rng.shuffle(o.audioObjects)
            rng.shuffle(o.audioPackFormats)
            rng.shuffle(o.audioTrackUIDs)
            if o.audioComplementaryObjects:
                # the group stays the same set with the same root
                rng.shuffle(o.audioComplementaryObjects)
        for p in adm.audioPackFormats:
            if not p.is_common_definition:
                rng.shuffle(p.audioPackFormats)


# --------------------------------------------------------------------------------------
# labels and canonical forms


def label(el):
    from ear.fileio.adm import elements as E
    if el is None:
        return None
    if getattr(el, "is_common_definition", False):
        return el.id
    for a in ("audioProgrammeName", "audioContentName", "audioObjectName", "audioPackFormatName",
              "audioChannelFormatName"):
        if hasattr(el, a):
            return getattr(el, a)
    raise TypeError(el)


def _screen_label(s):
    from ear.common import default_screen
    if s is None:
        return None
    if s == default_screen:
        return 0
    for k in range(1, len(SCREENS)):
        if s == _mk_screen(k):
            return k
    raise ValueError("unknown screen %r" % (s,))


def _offset_label(o):
    if o is None:
        return None
    for k in range(len(OFFSETS)):
        if o == _mk_offset(k):
            return k
    raise ValueError("unknown offset %r" % (o,))


def _blocks(ms):
    out = []
    while True:
        blk = ms.get_next_block()
        if blk is None:
            return out
        out.append(blk)


def item_records(items):
    """Real rendering items -> list of neutral dict records (objects still as Python references)."""
    from ear.core.metadata_input import (ObjectRenderingItem, DirectSpeakersRenderingItem, HOARenderingItem,
                                         DirectTrackSpec, SilentTrackSpec)

    from ear.core.metadata_input import MatrixCoefficientTrackSpec, MixTrackSpec, GainTrackSpec

    def ts(t):
        if isinstance(t, DirectTrackSpec):
            return "D%d" % t.track_index
        if isinstance(t, SilentTrackSpec):
            return "S"
        if isinstance(t, MatrixCoefficientTrackSpec):
            return "M(%s|%s|%s)" % (ts(t.input_track), rs(t.coefficient.gain), rs(t.coefficient.delay))
        if isinstance(t, MixTrackSpec):
            return "X[%s]" % "+".join(ts(x) for x in t.input_tracks)
        if isinstance(t, GainTrackSpec):
            return "G(%s|%s)" % (ts(t.input_track), rs(t.gain))
        return "other:" + type(t).__name__

    recs = []
    for it in items:
        if isinstance(it, HOARenderingItem):
            [tm] = _blocks(it.metadata_source)
            paths = it.adm_paths
            recs.append(dict(kind=4, tracks=[ts(t) for t in it.track_specs], paths=paths,
                             importances=[(i.audio_object, i.audio_pack_format) for i in it.importances],
                             extra=tm.extra_data, blocks=[], hoa=tm, ds_packs=None))
        else:
            kind = 3 if isinstance(it, ObjectRenderingItem) else 1 if isinstance(it, DirectSpeakersRenderingItem) else 0
            tms = _blocks(it.metadata_source)
            extra = tms[0].extra_data if tms else None
            for tm in tms:
                if tm.extra_data != extra:
                    raise AssertionError("blocks of one item disagree on extra data")
            ds_packs = [tm.audioPackFormats for tm in tms] if kind == 1 else None
            recs.append(dict(kind=kind, tracks=[ts(it.track_spec)], paths=[it.adm_path],
                             importances=[(it.importance.audio_object, it.importance.audio_pack_format)],
                             extra=extra, blocks=[tm.block_format for tm in tms], hoa=None, ds_packs=ds_packs))
    return recs


def _ol(f, sep, l):
    return "_" if not l else sep.join(f(x) for x in l)


def _o(f, x):
    return "-" if x is None else f(x)


def canon_index(recs, maps):
    """records -> the driver's item strings (index form)."""
    out = []
    for r in recs:
        p0 = r["paths"][0]
        e = r["extra"]
        n = lambda el, kind: str(maps[kind][id(el)])
        path = lambda els, kind: _ol(lambda x: n(x, kind), ".", els)
        s = "k=%d t=%s ch=%s" % (r["kind"], _ol(str, ",", r["tracks"]),
                                 _ol(lambda p: n(p.audioChannelFormat, "ch"), ",", r["paths"]))
        s += " pr=%s co=%s op=%s" % (_o(lambda x: n(x, "pr"), p0.audioProgramme), _o(lambda x: n(x, "co"), p0.audioContent),
                                     _o(lambda x: path(x, "ob"), p0.audioObjects))
        s += " pp=%s" % _ol(lambda p: path(p.audioPackFormats, "pk"), ",", r["paths"])
        s += " st=%s du=%s sc=%s" % (rs(e.object_start), rs(e.object_duration), _o(str, _screen_label(e.reference_screen)))
        s += " lo=%s hi=%s ad=%s" % (rs(e.channel_frequency.lowPass), rs(e.channel_frequency.highPass),
                                     rs(e.pack_absoluteDistance))
        s += " g=%s m=%d po=%s" % (rs(e.object_gain), int(e.object_mute), _o(str, _offset_label(e.object_positionOffset)))
        s += " im=%s" % _ol(lambda x: "%s:%s" % (_o(str, x[0]), _o(str, x[1])), ",", r["importances"])
        s += " b=%s" % _ol(lambda x: str(maps["blk"][id(x)]), ",", r["blocks"])
        h = r["hoa"]
        if h is not None:
            s += " rt=%s hd=%s or=%s de=%s" % (rs(h.rtime), rs(h.duration), _ol(str, ",", h.orders), _ol(str, ",", h.degrees))
            s += " hg=%s hi2=%s no=%d nf=%s sr=%d" % (_ol(rs, ",", h.gains), _ol(str, ",", h.importances),
                                                     NORMS.index(h.normalization), rs(h.nfcRefDist), int(h.screenRef))
        out.append(s)
    return out


def canon_label(recs, blk_label):
    """records -> hashable tuples that only use stable labels (for the oracle and cross-order comparison).
    Per-channel data of an HOA item is sorted (the order of channels inside one HOA item is not part of the
    property)."""
    out = []
    for r in recs:
        p0 = r["paths"][0]
        e = r["extra"]
        per_ch = []
        for i, p in enumerate(r["paths"]):
            h = r["hoa"]
            hx = (h.orders[i], h.degrees[i], rs(h.gains[i]), h.importances[i]) if h is not None else ()
            per_ch.append((label(p.audioChannelFormat), tuple(label(x) for x in p.audioPackFormats),
                           r["tracks"][i], r["importances"][i]) + hx)
            if (p.audioProgramme is not p0.audioProgramme or p.audioContent is not p0.audioContent
                    or p.audioObjects != p0.audioObjects):
                raise AssertionError("channels of one item disagree on programme/content/object path")
        if r["ds_packs"] is not None:
            for dp in r["ds_packs"]:
                if [id(x) for x in dp] != [id(x) for x in p0.audioPackFormats]:
                    raise AssertionError("DirectSpeakers metadata pack path differs from adm_path")
        h = r["hoa"]
        hm = (rs(h.rtime), rs(h.duration), h.normalization, rs(h.nfcRefDist), h.screenRef) if h is not None else ()
        out.append((r["kind"], tuple(sorted(per_ch, key=repr)), label(p0.audioProgramme), label(p0.audioContent),
                    None if p0.audioObjects is None else tuple(label(x) for x in p0.audioObjects),
                    rs(e.object_start), rs(e.object_duration), _screen_label(e.reference_screen),
                    rs(e.channel_frequency.lowPass), rs(e.channel_frequency.highPass), rs(e.pack_absoluteDistance),
                    rs(e.object_gain), bool(e.object_mute), _offset_label(e.object_positionOffset),
                    tuple(blk_label[id(x)] for x in r["blocks"]), hm))
    return out


# --------------------------------------------------------------------------------------
# index serialisation of the real document for the Lean driver


def serialise(b):
    """Walk the REAL document and write it by index.  Packs/channels that are not connected to any pack referenced
    from an audioObject or audioTrackUID (unused common definitions) are pruned; relative order is kept."""
    adm = b.adm
    maps = {"pr": {}, "co": {}, "ob": {}, "pk": {}, "ch": {}, "sf": {}, "tf": {}, "tu": {}, "blk": {}, "avs": {}}
    for i, x in enumerate(adm.audioProgrammes):
        maps["pr"][id(x)] = i
    for i, x in enumerate(adm.audioContents):
        maps["co"][id(x)] = i
    for i, x in enumerate(adm.audioObjects):
        maps["ob"][id(x)] = i
    for i, x in enumerate(adm.audioTrackUIDs):
        maps["tu"][id(x)] = i
    # connected packs
    parents = {}
    for p in adm.audioPackFormats:
        for s in p.audioPackFormats:
            parents.setdefault(id(s), []).append(p)
    keep = {}
    todo = [p for o in adm.audioObjects for p in o.audioPackFormats] + \
           [u.audioPackFormat for u in adm.audioTrackUIDs if u.audioPackFormat is not None] + \
           [p for p in adm.audioPackFormats if not p.is_common_definition]
    while todo:
        p = todo.pop()
        if id(p) in keep:
            continue
        keep[id(p)] = p
        todo += list(p.audioPackFormats) + parents.get(id(p), []) + list(p.encodePackFormats)
        todo += [q for q in (p.inputPackFormat, p.outputPackFormat) if q is not None]
    packs = [p for p in adm.audioPackFormats if id(p) in keep]
    for i, p in enumerate(packs):
        maps["pk"][id(p)] = i
    used_tf = {id(u.audioTrackFormat): u.audioTrackFormat for u in adm.audioTrackUIDs if u.audioTrackFormat is not None}
    tfs = [t for t in adm.audioTrackFormats if id(t) in used_tf]
    used_sf = {id(t.audioStreamFormat) for t in tfs}
    sfs = [s for s in adm.audioStreamFormats if id(s) in used_sf]
    chan_keep = {id(c) for p in packs for c in p.audioChannelFormats}
    chan_keep |= {id(s.audioChannelFormat) for s in sfs}
    chan_keep |= {id(u.audioChannelFormat) for u in adm.audioTrackUIDs if u.audioChannelFormat is not None}
    for c in adm.audioChannelFormats:
        if id(c) in chan_keep and c.type.value == 2:
            for bf in c.audioBlockFormats:
                if bf.outputChannelFormat is not None:
                    chan_keep.add(id(bf.outputChannelFormat))
                chan_keep |= {id(m.inputChannelFormat) for m in bf.matrix}
    chans = [c for c in adm.audioChannelFormats if id(c) in chan_keep]
    for i, c in enumerate(chans):
        maps["ch"][id(c)] = i
    for i, s in enumerate(sfs):
        maps["sf"][id(s)] = i
    for i, t in enumerate(tfs):
        maps["tf"][id(t)] = i
    nblk = 0
    blk_label = {}
    for c in chans:
        for k, bf in enumerate(c.audioBlockFormats):
            maps["blk"][id(bf)] = nblk
            blk_label[id(bf)] = (label(c), k)
            nblk += 1
    navs = 0
    for o in adm.audioObjects:
        for a in o.alternativeValueSets:
            maps["avs"][id(a)] = navs
            navs += 1

    L = lambda kind, els: _ol(lambda x: str(maps[kind][id(x)]), ",", els)
    segs = ["R %s %s" % (_o(lambda x: str(maps["pr"][id(x)]), b.given), L("ob", b.selected))]
    for p in adm.audioProgrammes:
        segs.append("P %d %s %s %s" % (int(p.id[4:], 16), L("co", p.audioContents),
                                       _o(str, _screen_label(p.referenceScreen)), L("avs", p.alternativeValueSets)))
    for c in adm.audioContents:
        segs.append("C %s %s" % (L("ob", c.audioObjects), L("avs", c.alternativeValueSets)))
    for o in adm.audioObjects:
        tr = _ol(lambda t: "s" if t is None else str(maps["tu"][id(t)]), ",", o.audioTrackUIDs)
        avs = _ol(lambda a: "%d:%s:%s:%s" % (maps["avs"][id(a)], rs(a.gain), _o(lambda m: str(int(m)), a.mute),
                                             _o(str, _offset_label(a.positionOffset))), ",", o.alternativeValueSets)
        segs.append("O %s %s %s %s %s %s %s %d %s %s %s" % (
            L("pk", o.audioPackFormats), tr, L("ob", o.audioObjects), L("ob", o.audioComplementaryObjects),
            rs(o.start), rs(o.duration), rs(o.gain), int(o.mute), _o(str, _offset_label(o.positionOffset)),
            _o(str, o.importance), avs))
    for p in packs:
        segs.append("K %d %s %s %s %s %s %s %s %s %s %s" % (
            p.type.value, L("ch", p.audioChannelFormats), L("pk", p.audioPackFormats), _o(str, p.importance),
            rs(p.absoluteDistance), _o(lambda s: str(NORMS.index(s)), p.normalization), rs(p.nfcRefDist),
            _o(lambda x: str(int(x)), p.screenRef), _o(lambda q: str(maps["pk"][id(q)]), p.inputPackFormat),
            _o(lambda q: str(maps["pk"][id(q)]), p.outputPackFormat), L("pk", p.encodePackFormats)))
    for c in chans:
        if c.type.value == 4 and len(c.audioBlockFormats) == 1:
            h = c.audioBlockFormats[0]
            hs = "%d %d %s %s %s %d %s %s %s" % (h.order, h.degree, rs(h.rtime), rs(h.duration), rs(h.gain), h.importance,
                                                 _o(lambda s: str(NORMS.index(s)), h.normalization), rs(h.nfcRefDist),
                                                 _o(lambda x: str(int(x)), h.screenRef))
        else:
            hs = "0 0 - - 1/1 10 - - -"
        if c.type.value == 2 and len(c.audioBlockFormats) == 1:
            m = c.audioBlockFormats[0]
            ms = "%s %s %s" % (_o(lambda q: str(maps["ch"][id(q)]), m.outputChannelFormat), rs(m.gain),
                               _ol(lambda k: "%d:%s:%s" % (maps["ch"][id(k.inputChannelFormat)], rs(k.gain), rs(k.delay)),
                                   ",", m.matrix))
        else:
            ms = "- 1/1 _"
        segs.append("H %d %s %s %s %s %s" % (c.type.value, rs(c.frequency.lowPass), rs(c.frequency.highPass),
                                             L("blk", c.audioBlockFormats), hs, ms))
    for s in sfs:
        segs.append("S %d" % maps["ch"][id(s.audioChannelFormat)])
    for t in tfs:
        segs.append("F %d" % maps["sf"][id(t.audioStreamFormat)])
    for u in adm.audioTrackUIDs:
        ref = ("t%d" % maps["tf"][id(u.audioTrackFormat)]) if u.audioTrackFormat is not None else \
              ("c%d" % maps["ch"][id(u.audioChannelFormat)])
        segs.append("U %d %s %d" % (u.trackIndex, ref, maps["pk"][id(u.audioPackFormat)]))
    return " ; ".join(segs), maps, blk_label


# --------------------------------------------------------------------------------------
# the oracle: written from the property text (C06 statement), as a multiset comprehension


def oracle(b, blk_label):
    """Expected items as a Counter of `canon_label` tuples.

    items = one per channel (one per pack for HOA) of every audioObject reachable from the chosen programme's
    contents (all root objects when there are no programmes; all CHNA tracks when there are no objects either),
    once per distinct object path, excluding paths through non-selected members of complementary groups; each with
    its track (or silence), block formats and the data derived from its own object path / pack path / programme."""
    adm = b.adm
    INF = float("inf")

    # programme: the given one, else the only one, else the one with the lowest id
    if b.given is not None:
        prog = b.given
    elif adm.audioProgrammes:
        prog = sorted(adm.audioProgrammes, key=lambda p: p.id)[0]
    else:
        prog = None

    # complementary groups: exactly one member of each group is selected (the root unless one was asked for)
    ignored = set()
    for root in adm.audioObjects:
        if root.audioComplementaryObjects:
            group = [root] + list(root.audioComplementaryObjects)
            asked = [o for o in group if any(o is s for s in b.selected)]
            chosen = asked[0] if asked else root
            ignored |= {id(o) for o in group if o is not chosen}

    def chains(o):  # every distinct object path starting at o
        yield (o,)
        for s in o.audioObjects:
            for c in chains(s):
                yield (o,) + c

    if prog is not None:
        starts = [(prog, c, r) for c in prog.audioContents for r in c.audioObjects]
    elif adm.audioObjects:
        children = {id(s) for o in adm.audioObjects for s in o.audioObjects}
        starts = [(None, None, r) for r in adm.audioObjects if id(r) not in children]
    else:
        starts = None

    def pack_channels(p, path=()):  # every channel of a pack with the chain of packs leading to it
        path = path + (p,)
        for c in p.audioChannelFormats:
            yield path, c
        for s in p.audioPackFormats:
            for x in pack_channels(s, path):
                yield x

    def chan_of(u):
        return u.audioChannelFormat if u.audioChannelFormat is not None else u.audioTrackFormat.audioStreamFormat.audioChannelFormat

    def lowest(vals):
        vals = [v for v in vals if v is not None]
        return min(vals) if vals else None

    def the(vals):  # the value set somewhere along a path (None if nowhere)
        vals = [v for v in vals if v is not None]
        return vals[0] if vals else None

    out = Counter()

    def emit(prog, cont, opath, pack, tracks):
        """items of one pack used by one object path (or by the CHNA)"""
        leaf = opath[-1] if opath else None
        per_ch = []
        if pack.type.name == "Matrix":
            # a matrix pack renders the channels of its outputPackFormat; each is fed by the matrix channel that
            # names it as outputChannelFormat: the track carrying that matrix channel if there is one (matrix
            # already applied), else gain * sum of coefficient * (signal of the coefficient's input channel)
            mtracks = [u for u in tracks if u.audioPackFormat is pack or
                       any(u.audioPackFormat is e for e in pack.encodePackFormats)]

            def signal(ch):
                mine = [u for u in mtracks if chan_of(u) is ch]
                if mine:
                    return "D%d" % (mine[0].trackIndex - 1)
                [blk] = ch.audioBlockFormats
                return "G(X[%s]|%s)" % ("+".join("M(%s|%s|%s)" % (signal(k.inputChannelFormat), rs(k.gain), rs(k.delay))
                                                 for k in blk.matrix), rs(blk.gain))
            where = {id(c): pp for pp, c in pack_channels(pack.outputPackFormat)}
            for mc in pack.audioChannelFormats:
                [blk] = mc.audioBlockFormats
                per_ch.append((where[id(blk.outputChannelFormat)], blk.outputChannelFormat, signal(mc)))
        else:
            for ppath, ch in pack_channels(pack):
                mine = [u for u in tracks if chan_of(u) is ch and any(u.audioPackFormat is q for q in ppath)]
                per_ch.append((ppath, ch, mine))
        # object-level data: the object holding the audio, overridden by its alternativeValueSet referenced from
        # the item's programme or content
        start = dur = None
        gain, mute, off = 1.0, False, None
        if leaf is not None:
            start, dur, gain, mute, off = leaf.start, leaf.duration, leaf.gain, leaf.mute, leaf.positionOffset
            refs = (list(prog.alternativeValueSets) if prog is not None else []) + \
                   (list(cont.alternativeValueSets) if cont is not None else [])
            for a in refs:
                if any(a is x for x in leaf.alternativeValueSets):
                    gain = a.gain if a.gain is not None else gain
                    mute = a.mute if a.mute is not None else mute
                    off = a.positionOffset if a.positionOffset is not None else off
        from ear.common import default_screen
        screen = prog.referenceScreen if prog is not None else default_screen
        obj_imp = lowest(o.importance for o in opath) if opath else None
        common = (label(prog), label(cont), None if not opath else tuple(label(o) for o in opath),
                  rs(start), rs(dur), _screen_label(screen))
        tail = (rs(gain), bool(mute), _offset_label(off))
        return per_ch, common, tail, obj_imp

    def items_for(prog, cont, opath, pack, tracks):
        per_ch, common, tail, obj_imp = emit(prog, cont, opath, pack, tracks)
        kind = {"Objects": 3, "DirectSpeakers": 1, "HOA": 4}[
            (pack.outputPackFormat if pack.type.name == "Matrix" else pack).type.name]
        # a mono pack used by several CHNA tracks is used once per track
        if not opath and len(per_ch) == 1:
            reps = [[(per_ch[0][0], per_ch[0][1], [u])] for u in per_ch[0][2]]
        else:
            reps = [per_ch]
        for rep in reps:
            chs = []
            for ppath, ch, mine in rep:
                t = mine if isinstance(mine, str) else ("D%d" % (mine[0].trackIndex - 1)) if mine else "S"
                imp = (obj_imp, lowest(p.importance for p in ppath))
                if kind == 4:
                    [blk] = ch.audioBlockFormats
                    chs.append((label(ch), tuple(label(p) for p in ppath), t, imp,
                                blk.order, blk.degree, rs(blk.gain), blk.importance))
                else:
                    chs.append((label(ch), tuple(label(p) for p in ppath), t, imp))
            if kind == 4:
                ppath, ch, _ = rep[0]
                [blk] = ch.audioBlockFormats
                along = list(ppath) + [blk]
                nfc = the(x.nfcRefDist for x in along)
                sref = the(x.screenRef for x in along)
                hm = (rs(blk.rtime), rs(blk.duration), the(x.normalization for x in along) or "SN3D",
                      rs(None if nfc == 0.0 else nfc), bool(sref))
                ad = the(p.absoluteDistance for p in ppath)
                out[(4, tuple(sorted(chs, key=repr))) + common + ("-", "-", rs(ad)) + tail + ((), hm)] += 1
            else:
                for (ppath, ch, _), c in zip(rep, chs):
                    ad = the(p.absoluteDistance for p in ppath)
                    out[(kind, (c,)) + common + (rs(ch.frequency.lowPass), rs(ch.frequency.highPass), rs(ad)) + tail +
                        (tuple(blk_label[id(x)] for x in ch.audioBlockFormats), ())] += 1

    if starts is None:
        by_pack = {}
        for u in adm.audioTrackUIDs:
            by_pack.setdefault(id(u.audioPackFormat), (u.audioPackFormat, []))[1].append(u)
        for pack, tracks in by_pack.values():
            items_for(None, None, (), pack, tracks)
    else:
        for prog_, cont, root in starts:
            for opath in chains(root):
                if any(id(o) in ignored for o in opath):
                    continue
                leaf = opath[-1]
                tracks = [u for u in leaf.audioTrackUIDs if u is not None]
                for pack in leaf.audioPackFormats:
                    items_for(prog_, cont, opath, pack, tracks)
    return out
