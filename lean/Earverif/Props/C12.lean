/- C12 — loudspeaker gains vary continuously with source direction.

   Over ℝ, for every loudspeaker position matrix:
   * piecewise continuity: a triplet's gains are a continuous function of the direction on its acceptance set
     (`triplet_continuousOn`, `triplet_handle_continuousOn`); the stereo wrapper's two outputs are continuous
     functions of the inner gains (`stereo_continuousOn`); the downmix wrapper is continuous in the inner gains
     (`downmix_continuousOn`);
   * agreement on shared edges: on the open arc between two loudspeakers the pair of gains is uniquely determined
     (`edge_unique`, `edge_exists`), a triplet having the two loudspeakers as vertices returns exactly that pair and 0
     for its third loudspeaker (`triplet_on_edge`), hence two triplets sharing an edge agree on it (`edge_agreement`);
   * THE TOPOLOGICAL HALF (pasting; proofs in Proofs/C12Paste.lean):
     - `firstAccept_eq_of_agree`, `firstAccept_continuousOn`: finitely many regions whose acceptance sets are closed
       in `S`, handlers continuous on them, pairwise agreement on the overlaps ⟹ the first-accept function (the loop
       of `PointSourcePanner.handle`, `firstAccept` in the model) is continuous on the union and equals ANY accepting
       region's value; `panner_continuousOn_of_regions` is the same statement on the model's
       `PointSourcePanner.handle` itself (any region types, the code's thresholds, hypotheses per region);
     - closedness: `triplet_accept_isClosed` (every threshold, every matrix), `triplet_accept_isClosed_code`,
       `ngon_accept_isClosed`; for the quad only `quad_accept_isOpen_of_roots` (given the roots the test on the
       direction is a strict inequality; closedness depends on np.roots' root selection — not proved);
     - `panner_continuousOn_triplets_partial`: an all-triplet panner in the IDEALISATION "acceptance slack 0"
       (`tripletPannerE 0`; `tripletPannerE_eps`: with the code's −1e-11 it is `PointSourcePanner.handle`) is
       continuous on the union of its cones, the agreement hypothesis being discharged (`shared_face_agreement`, from
       `triplet_on_edge`) under the explicit combinatorial hypothesis `MeetInSharedFace` on every pair of regions
       (decided by the kernel on the regenerated tables: `tables_triplet_pairs_meet_in_faces`);
     - the quantitative statement the real code satisfies: `triplet_sliver_bound` (and `_general`): on the sliver
       where two neighbouring triplets both accept (slack 1e-11) their answers differ by at most `C·1e-11`,
       `C = 15/2 · max(|α|, |β|, γ+1) · max(1, 1/γ)` for `w' = α u + β v − γ w`;
     - quantitative pasting: `firstAccept_jump_bound`, `panner_jump_bound_of_regions` (handlers agreeing only up to `η`
       on the overlaps ⟹ the first-accept function / the model's panner varies by at most `η + δ` near every point:
       jumps bounded by `η`), and END TO END for the code's threshold `two_triplet_panner_jump_bound`: the model's
       `PointSourcePanner.handle` on two edge-sharing triplets is continuous up to jumps of `C·1e-11` on every channel.

   * THE VIRTUAL N-GON AND PANNERS OF TRIPLETS AND N-GONS, slack 0 (proofs in Proofs/C12Ngon.lean):
     - `VirtualNgon.handleE` / `ngon_handleE_eps`: the n-gon handler with the acceptance slack as a parameter;
       `ngon_handle_continuousOn`: at slack 0 every output coordinate is continuous on the handler's acceptance set (the
       union of the cones of the inner triplets, pasted along their shared edges outer vertex – centre; `mix` is
       continuous because the mixed vector never vanishes) and equals the mixed answer of ANY accepting inner triplet;
     - `pannerTNE` / `pannerTNE_eps`, `panner_continuousOn_tri_ngon_partial`: `panner_continuousOn_triplets_partial`
       extended to panners of Triplet AND VirtualNgon regions; combinatorial hypothesis `MeetInOuterFace` for cells of
       different regions (shared faces consist of real loudspeakers on the same output channels).
   * TWO TRIPLETS IN ANY ARRANGEMENT, QUANTITATIVELY (proofs in Proofs/C12Faces.lean): `pair_gain_bound`: rows of the two
     triplets matched by any permutation, zero, one (slivers around a shared VERTEX) or two (a shared edge) shared rows, a
     separating plane with constants `κ`, `α` ⟹ where both accept with slack `e` matched gains differ by at most
     `3(3α+1)κe/m`; `pair_out_bound`: for the code's 1e-11 every output channel differs by at most `45(3α+1)κ·1e-11`;
     `panner_jump_bound_triplets`: the model's `PointSourcePanner.handle` over ANY list of triplets with such pairwise
     bounds is continuous up to jumps of `η` on every channel (end to end, the code's threshold).
   * THE REGENERATED TABLES (certificate `Gen/C12_Faces.lean`, checker `Model/PointSourceFaces.lean`, soundness
     `Faces.faces_sound`): `faces_tables_ok` — the kernel decides, in exact integer arithmetic, that every pair of triplet cells
     (Triplet regions, inner triplets of the n-gons) of each nominal layout is separated strictly by a plane through its
     shared positions, and the constants `alpha`, `kappa`.  Hence `tables_triplet_pairs_meet_in_faces` (`MeetInSharedFace` for
     all pairs of Triplet regions — formerly checked by the harness), `tables_triplet_panner_continuousOn` (slack 0),
     `tables_triplet_panner_jump_bound` (the code's slack: the Triplet regions of every nominal layout as a panner are
     continuous up to jumps of `45(3·alpha+1)·kappa·1e-11 < 2.2e-7`), `tables_ngon_continuousOn` (every n-gon of the tables,
     slack 0).
   * THE QUAD ON THE CONE OF ITS CORNERS: `continuousOn_of_unique_zero` (tube lemma), `unit_root_unique`,
     `axis_unique_root`: under the sign certificate of C05 (`QuadSigns`, decided on the tables by `quad_tables_ok`) the pan
     value `GainCalc.quadRoot` selects is THE root in [0, 1], hence continuous in the direction;
     `quad_cone_continuousOn_partial`, `quad_handle_continuousOn_cone_partial`, `tables_quad_continuousOn_cone_partial`:
     `QuadRegion.handle` with the closed-form root selection is continuous on the cone of its four corners (no jump inside a
     quad's own cell), for every QuadRegion of the ten tables.

   PARTIAL: `C12_partial` is the conjunction.  Still NOT proved: (a) the GLOBAL statement for a whole layout's panner:
   every nominal layout has QuadRegions, and the quad is only shown continuous on its corner cone — its acceptance set under
   the code's tolerances (roots in (−1e-10, 1+1e-10), strict sign test) is larger and not closed, and the agreement of a quad
   with its neighbours on shared edges is proved only given the roots (`quad_edge_agreement`), so quads are not inside the
   pasted panner; (b) for n-gons the code's slack −1e-11 (the n-gon theorems, and `tables_tri_ngon_continuousOn` — the Triplet and
   VirtualNgon regions of every nominal layout as one panner — are at slack 0; the sliver bound is proved for Triplet regions
   only); (c) coverage is C05's (`cover_layouts`), not repeated here.  These
   are searched by harness/c12.py (bisection to 1e-9 rad on the real panner). -/
import Earverif.Props.C05
import Earverif.Proofs.C12Paste
import Earverif.Proofs.C12Ngon
import Earverif.Proofs.C12Faces
import Earverif.Gen.C12_Faces
import Mathlib.Analysis.SpecialFunctions.Pow.Continuity
import Mathlib.Topology.Algebra.Order.Field
import Mathlib.Tactic.FinCases
import Mathlib.Tactic.FunProp
import Mathlib.Tactic.IntervalCases
import Mathlib.Topology.Order.Compact
import Mathlib.Topology.Compactness.Compact

namespace Earverif.PointSource

open Set Filter

/-! ### the pasting theorem (headline; proof in Proofs/C12Paste.lean) -/

/-- PASTING along `PointSourcePanner.handle`'s loop (`firstAccept`).  Finitely many regions `(A_i, g_i)`; every
    acceptance set `A_i` is closed in `S` (`A_i = C_i ∩ S`, `C_i` closed; for the panner `S` = directions ≠ 0);
    `g_i` is continuous on `A_i`; `g_i = g_j` on `A_i ∩ A_j`.  Then "the value of the first region whose acceptance
    set contains `p`" is continuous on `⋃ A_i`; on each `A_i` it is `g_i` (with pairwise agreement the first accepting
    region's value is ANY accepting region's value), and outside `⋃ A_i` the loop returns `None`. -/
theorem firstAccept_continuousOn {X Y : Type} [TopologicalSpace X] [TopologicalSpace Y] (S : Set X)
    (rs : List (Set X × (X → Y))) (d : Y)
    (hcl : ∀ r ∈ rs, ∃ C, IsClosed C ∧ r.1 = C ∩ S)
    (hc : ∀ r ∈ rs, ContinuousOn r.2 r.1)
    (hag : ∀ r ∈ rs, ∀ r' ∈ rs, ∀ p, p ∈ r.1 → p ∈ r'.1 → r.2 p = r'.2 p) :
    ContinuousOn (fun p => (firstAccept (candidates rs p)).getD d) (accUnion rs) ∧
      (∀ r ∈ rs, ∀ p ∈ r.1, firstAccept (candidates rs p) = some (r.2 p)) ∧
      (∀ p, p ∉ accUnion rs → firstAccept (candidates rs p) = none) :=
  firstAccept_continuousOn_aux S rs d hcl hc hag

/-- QUANTITATIVE PASTING (headline; proof in Proofs/C12Paste.lean).  As `firstAccept_continuousOn`, but the handlers only
    agree up to `η` on the overlaps (`dist (g_i p) (g_j p) ≤ η` on `A_i ∩ A_j`) — the situation of the real code, whose
    acceptance slack −1e-11 makes neighbouring regions overlap in slivers.  Then around every point `x` of the union the
    first-accept function varies by at most `η + δ`, for every `δ > 0`: its jumps are bounded by `η`. -/
theorem firstAccept_jump_bound {X Y : Type} [TopologicalSpace X] [PseudoMetricSpace Y] (S : Set X)
    (rs : List (Set X × (X → Y))) (d : Y) (η : ℝ)
    (hcl : ∀ r ∈ rs, ∃ C, IsClosed C ∧ r.1 = C ∩ S)
    (hc : ∀ r ∈ rs, ContinuousOn r.2 r.1)
    (hη : ∀ r ∈ rs, ∀ r' ∈ rs, ∀ p, p ∈ r.1 → p ∈ r'.1 → dist (r.2 p) (r'.2 p) ≤ η) :
    ∀ x ∈ accUnion rs, ∀ δ > 0, ∀ᶠ y in nhdsWithin x (accUnion rs),
      dist ((firstAccept (candidates rs y)).getD d) ((firstAccept (candidates rs x)).getD d) ≤ η + δ :=
  firstAccept_jump_bound_aux S rs d η hcl hc hη

/-- non-vacuity of the pasting hypotheses: `x ↦ max x 0` pasted from `0` on `(-∞, 0]` and `x` on `[0, ∞)` -/
example : let rs : List (Set ℝ × (ℝ → ℝ)) := [(Iic 0, fun _ => 0), (Ici 0, fun x => x)]
    (∀ r ∈ rs, ∃ C, IsClosed C ∧ r.1 = C ∩ univ) ∧ (∀ r ∈ rs, ContinuousOn r.2 r.1) ∧
      (∀ r ∈ rs, ∀ r' ∈ rs, ∀ p, p ∈ r.1 → p ∈ r'.1 → r.2 p = r'.2 p) ∧
      firstAccept (candidates rs 2) = some 2 := by
  intro rs
  refine ⟨?_, ?_, ?_, ?_⟩
  · intro r hr
    simp only [rs, List.mem_cons, List.mem_nil_iff, or_false] at hr
    rcases hr with rfl | rfl
    · exact ⟨Iic 0, isClosed_Iic, by simp⟩
    · exact ⟨Ici 0, isClosed_Ici, by simp⟩
  · intro r hr
    simp only [rs, List.mem_cons, List.mem_nil_iff, or_false] at hr
    rcases hr with rfl | rfl
    · exact continuousOn_const
    · exact continuousOn_id
  · intro r hr r' hr' p hp hp'
    simp only [rs, List.mem_cons, List.mem_nil_iff, or_false] at hr hr'
    rcases hr with rfl | rfl <;> rcases hr' with rfl | rfl <;> simp only [mem_Iic, mem_Ici] at hp hp' ⊢ <;> linarith
  · have h : ¬ ((2 : ℝ) ≤ 0) := by norm_num
    simp [rs, candidates, firstAccept, h]

/-! ### the quad: what can and what cannot be said about its acceptance set -/

/-- For GIVEN pan values `x`, `y` the only test `QuadRegion.handle` makes on the direction is the strict inequality
    `pvs·positions·p > 0`: an OPEN half-space.  Whether the quad's true acceptance set (directions for which
    `pan_axis` finds a root in `[−1e-10, 1+1e-10]` on both axes, with the roots `np.roots` happens to select, and the
    sign test passes) is closed in the directions ≠ 0 depends on that root selection, which is a parameter of the model:
    NOT proved (and for non-planar quads the selected root is not even a continuous function of the direction:
    `quad_two_valued_witness`). -/
theorem quad_accept_isOpen_of_roots (q : QuadRegion ℝ) (x y : ℝ) :
    IsOpen {p : Vec3 ℝ | q.handle (some x) (some y) p ≠ none} := by
  set v := comb (scatter (zeros 4) q.order (QuadRegion.weights x y)) q.positions with hv
  have : {p : Vec3 ℝ | q.handle (some x) (some y) p ≠ none} = {p | 0 < dot3 v p} := by
    ext p
    simp only [mem_ofPred_eq, QuadRegion.handle, ← hv, zero_real]
    by_cases h : dot3 v p ≤ 0
    · simp [h, not_lt.mpr h]
    · simp [h, not_le.mp h]
  rw [this]
  obtain ⟨v0, v1, v2⟩ := v
  simp only [dot3]
  exact isOpen_lt continuous_const (by fun_prop)


/-! ### the pasting theorems on the model's `PointSourcePanner.handle` (any region types, the code's threshold) -/

/-- answer of region number `k` of a panner at `p` (`None` if it rejects); `ρ p` = the quad roots at `p` -/
noncomputable def regionAnswer (regions : List (Region ℝ)) (n : Nat) (ρ : Vec3 ℝ → Nat → Option ℝ × Option ℝ) (k : Nat)
    (p : Vec3 ℝ) : Option (List ℝ) :=
  (PointSourcePanner.results regions n (ρ p) p).getD k none

theorem results_eq_range (regions : List (Region ℝ)) (n : Nat) (ρ : Vec3 ℝ → Nat → Option ℝ × Option ℝ) (p : Vec3 ℝ) :
    PointSourcePanner.results regions n (ρ p) p = (List.range regions.length).map fun k => regionAnswer regions n ρ k p := by
  have hlen : (PointSourcePanner.results regions n (ρ p) p).length = regions.length := by
    simp [PointSourcePanner.results]
  apply List.ext_getElem (by simp [hlen])
  intro i h1 h2
  simp [regionAnswer, List.getD_eq_getElem?_getD, List.getElem?_eq_getElem h1]

/-- the regions of a panner as (acceptance set inside `S`, gain of output channel `c`) -/
noncomputable def pannerRegions (regions : List (Region ℝ)) (n : Nat) (ρ : Vec3 ℝ → Nat → Option ℝ × Option ℝ)
    (S : Set (Vec3 ℝ)) (c : Nat) : List (Set (Vec3 ℝ) × (Vec3 ℝ → ℝ)) :=
  (List.range regions.length).map fun k =>
    ({p | regionAnswer regions n ρ k p ≠ none} ∩ S, fun p => ((regionAnswer regions n ρ k p).map (·.getD c 0)).getD 0)

theorem pannerRegions_union (regions : List (Region ℝ)) (n : Nat) (ρ : Vec3 ℝ → Nat → Option ℝ × Option ℝ)
    (S : Set (Vec3 ℝ)) (c : Nat) :
    accUnion (pannerRegions regions n ρ S c) = {p | p ∈ S ∧ ∃ k < regions.length, regionAnswer regions n ρ k p ≠ none} := by
  ext p
  simp only [accUnion, pannerRegions, List.mem_map, List.mem_range, mem_ofPred_eq]
  constructor
  · rintro ⟨r, ⟨k, hk, rfl⟩, hp⟩; exact ⟨hp.2, k, hk, hp.1⟩
  · rintro ⟨hS, k, hk, hp⟩; exact ⟨_, ⟨k, hk, rfl⟩, hp, hS⟩

/-- on `S`, channel `c` of the model's `PointSourcePanner.handle` IS the abstract first-accept loop over `pannerRegions` -/
theorem panner_eq_candidates (regions : List (Region ℝ)) (n : Nat) (ρ : Vec3 ℝ → Nat → Option ℝ × Option ℝ)
    (S : Set (Vec3 ℝ)) (c : Nat) (p : Vec3 ℝ) (hS : p ∈ S) :
    (PointSourcePanner.handle regions n (ρ p) p).map (·.getD c 0) =
      firstAccept (candidates (pannerRegions regions n ρ S c) p) := by
  simp only [PointSourcePanner.handle, firstAccept_map, results_eq_range, List.map_map]
  congr 1
  simp only [pannerRegions, candidates, List.map_map]
  apply List.map_congr_left
  intro k _
  simp only [Function.comp]
  by_cases hk : regionAnswer regions n ρ k p = none
  · have : p ∉ ({p | regionAnswer regions n ρ k p ≠ none} ∩ S) := fun hm => hm.1 hk
    rw [if_neg this, hk]; rfl
  · have : p ∈ ({p | regionAnswer regions n ρ k p ≠ none} ∩ S) := ⟨hk, hS⟩
    rw [if_pos this]
    obtain ⟨v, hv⟩ := Option.ne_none_iff_exists'.mp hk
    rw [hv]; rfl

/-- `firstAccept_continuousOn` transported to the model of `PointSourcePanner.handle`, for ANY list of regions
    (triplets, n-gons, quads with root selection `ρ`) and the code's own thresholds.  Hypotheses, per output channel `c`
    and on the set `S` of admissible directions: every region's acceptance set is closed in `S`, its answer is
    continuous on it, and any two regions that both accept give channel `c` the same gain.  Conclusion: the panner's
    gain for channel `c` is continuous on the union of the acceptance sets.
    (For triplets the first two hypotheses are `triplet_accept_isClosed` / `triplet_continuousOn`; the third holds
    exactly only for slack 0 — `shared_face_agreement` — and up to `C·1e-11` for the code — `triplet_sliver_bound`,
    for which see `panner_jump_bound_of_regions`.) -/
theorem panner_continuousOn_of_regions (regions : List (Region ℝ)) (n : Nat)
    (ρ : Vec3 ℝ → Nat → Option ℝ × Option ℝ) (S : Set (Vec3 ℝ)) (c : Nat)
    (hcl : ∀ k < regions.length, ∃ C, IsClosed C ∧ {p | regionAnswer regions n ρ k p ≠ none} ∩ S = C ∩ S)
    (hc : ∀ k < regions.length, ContinuousOn (fun p => ((regionAnswer regions n ρ k p).map (·.getD c 0)).getD 0)
      ({p | regionAnswer regions n ρ k p ≠ none} ∩ S))
    (hag : ∀ k < regions.length, ∀ j < regions.length, ∀ p ∈ S, regionAnswer regions n ρ k p ≠ none →
      regionAnswer regions n ρ j p ≠ none →
      (regionAnswer regions n ρ k p).map (·.getD c 0) = (regionAnswer regions n ρ j p).map (·.getD c 0)) :
    ContinuousOn (fun p => ((PointSourcePanner.handle regions n (ρ p) p).map (·.getD c 0)).getD 0)
      {p | p ∈ S ∧ ∃ k < regions.length, regionAnswer regions n ρ k p ≠ none} := by
  have main := firstAccept_continuousOn_aux S (pannerRegions regions n ρ S c) 0
    (by
      intro x hx
      obtain ⟨k, hk, rfl⟩ := List.mem_map.mp hx
      exact hcl k (List.mem_range.mp hk))
    (by
      intro x hx
      obtain ⟨k, hk, rfl⟩ := List.mem_map.mp hx
      exact hc k (List.mem_range.mp hk))
    (by
      intro x hx x' hx' p hp hp'
      obtain ⟨k, hk, rfl⟩ := List.mem_map.mp hx
      obtain ⟨j, hj, rfl⟩ := List.mem_map.mp hx'
      have := hag k (List.mem_range.mp hk) j (List.mem_range.mp hj) p hp.2 hp.1 hp'.1
      simp only [this])
  rw [pannerRegions_union] at main
  refine main.1.congr ?_
  intro p hp
  simp only [panner_eq_candidates regions n ρ S c p hp.1]

/-- QUANTITATIVE version ("continuous up to jumps of η"): as `panner_continuousOn_of_regions`, but two regions that both
    accept may differ by up to `η` on channel `c` (for the code's slack: `η = C·1e-11` on the slivers between edge-sharing
    triplets, `triplet_sliver_bound`).  Then around every direction `x` of the union, channel `c` of the panner's answer
    varies by at most `η + δ`, for every `δ > 0`: the jumps of the composed panner are bounded by `η`. -/
theorem panner_jump_bound_of_regions (regions : List (Region ℝ)) (n : Nat)
    (ρ : Vec3 ℝ → Nat → Option ℝ × Option ℝ) (S : Set (Vec3 ℝ)) (c : Nat) (η : ℝ)
    (hcl : ∀ k < regions.length, ∃ C, IsClosed C ∧ {p | regionAnswer regions n ρ k p ≠ none} ∩ S = C ∩ S)
    (hc : ∀ k < regions.length, ContinuousOn (fun p => ((regionAnswer regions n ρ k p).map (·.getD c 0)).getD 0)
      ({p | regionAnswer regions n ρ k p ≠ none} ∩ S))
    (hη : ∀ k < regions.length, ∀ j < regions.length, ∀ p ∈ S, regionAnswer regions n ρ k p ≠ none →
      regionAnswer regions n ρ j p ≠ none →
      |((regionAnswer regions n ρ k p).map (·.getD c 0)).getD 0 - ((regionAnswer regions n ρ j p).map (·.getD c 0)).getD 0| ≤ η) :
    let U := {p | p ∈ S ∧ ∃ k < regions.length, regionAnswer regions n ρ k p ≠ none}
    let G := fun p => ((PointSourcePanner.handle regions n (ρ p) p).map (·.getD c 0)).getD 0
    ∀ x ∈ U, ∀ δ > 0, ∀ᶠ y in nhdsWithin x U, |G y - G x| ≤ η + δ := by
  intro U G x hx δ hδ
  have main := firstAccept_jump_bound_aux S (pannerRegions regions n ρ S c) 0 η
    (by
      intro x hx
      obtain ⟨k, hk, rfl⟩ := List.mem_map.mp hx
      exact hcl k (List.mem_range.mp hk))
    (by
      intro x hx
      obtain ⟨k, hk, rfl⟩ := List.mem_map.mp hx
      exact hc k (List.mem_range.mp hk))
    (by
      intro r hr r' hr' p hp hp'
      obtain ⟨k, hk, rfl⟩ := List.mem_map.mp hr
      obtain ⟨j, hj, rfl⟩ := List.mem_map.mp hr'
      rw [Real.dist_eq]
      exact hη k (List.mem_range.mp hk) j (List.mem_range.mp hj) p hp.2 hp.1 hp'.1)
  rw [pannerRegions_union] at main
  have hx' := main x hx δ hδ
  filter_upwards [hx', self_mem_nhdsWithin] with y hy hyU
  rw [Real.dist_eq] at hy
  simp only [G, panner_eq_candidates regions n ρ S c y hyU.1, panner_eq_candidates regions n ρ S c x hx.1]
  exact hy


/-! ### non-vacuity of the hypotheses of the all-triplet panner theorem and of the sliver bound -/

/-- the standard basis triplet ... -/
def exP : Mat3 ℝ := ((1, 0, 0), (0, 1, 0), (0, 0, 1))
/-- ... and its neighbour across the edge e₁ e₂ (third loudspeaker mirrored: α = β = 0, γ = 1) -/
def exQ : Mat3 ℝ := ((1, 0, 0), (0, 1, 0), (0, 0, -1))

theorem pv_exP (p : Vec3 ℝ) : Triplet.pv exP p = p := by
  obtain ⟨x, y, z⟩ := p
  simp [Triplet.pv, vecMat, inv3, det3, exP]

theorem pv_exQ (p : Vec3 ℝ) : Triplet.pv exQ p = (p.1, p.2.1, -p.2.2) := by
  obtain ⟨x, y, z⟩ := p
  simp [Triplet.pv, vecMat, inv3, det3, exQ]

theorem ex_meet : MeetInSharedFace ([0, 1, 2], exP) ([0, 1, 3], exQ) ∧
    MeetInSharedFace ([0, 1, 3], exQ) ([0, 1, 2], exP) := by
  constructor
  · intro p hp ha ha'
    simp only [Triplet.acceptsE, pv_exP, pv_exQ] at ha ha'
    obtain ⟨x, y, z⟩ := p
    simp only at ha ha'
    have hz : z = 0 := by linarith [ha.2.2, ha'.2.2]
    subst hz
    exact ⟨0, 1, 0, 1, x, y, by decide, by decide, ha.1, ha.2.1, by simp [edgePoint, row, exP, add3, smul3],
      by simp [row, exP, exQ], by simp [chanAt], Or.inr ⟨by simp [row, exP, exQ], by simp [chanAt]⟩⟩
  · intro p hp ha ha'
    simp only [Triplet.acceptsE, pv_exP, pv_exQ] at ha ha'
    obtain ⟨x, y, z⟩ := p
    simp only at ha ha'
    have hz : z = 0 := by linarith [ha.2.2, ha'.2.2]
    subst hz
    exact ⟨0, 1, 0, 1, x, y, by decide, by decide, ha.1, ha.2.1, by simp [edgePoint, row, exQ, add3, smul3],
      by simp [row, exP, exQ], by simp [chanAt], Or.inr ⟨by simp [row, exP, exQ], by simp [chanAt]⟩⟩

/-- a two-triplet panner satisfying every hypothesis of `panner_continuousOn_triplets_partial`; the direction
    `(1, 1, 0)` lies on the shared edge, in both cones -/
example : let regions : List TRegion := [([0, 1, 2], exP), ([0, 1, 3], exQ)]
    (∀ r ∈ regions, det3 r.2 ≠ 0) ∧ (∀ r ∈ regions, r.chOk) ∧
      (∀ r ∈ regions, ∀ r' ∈ regions, r ≠ r' → MeetInSharedFace r r') ∧
      ((1 : ℝ), (1 : ℝ), (0 : ℝ)) ∈ TRegion.cone ([0, 1, 2], exP) ∧ ((1 : ℝ), (1 : ℝ), (0 : ℝ)) ∈ TRegion.cone ([0, 1, 3], exQ) := by
  intro regions
  refine ⟨?_, ?_, ?_, ?_, ?_⟩
  · intro r hr
    simp only [regions, List.mem_cons, List.mem_nil_iff, or_false] at hr
    rcases hr with rfl | rfl <;> norm_num [det3, exP, exQ]
  · intro r hr
    simp only [regions, List.mem_cons, List.mem_nil_iff, or_false] at hr
    rcases hr with rfl | rfl
    · exact ⟨0, 1, 2, rfl, by decide, by decide, by decide⟩
    · exact ⟨0, 1, 3, rfl, by decide, by decide, by decide⟩
  · intro r hr r' hr' hne
    simp only [regions, List.mem_cons, List.mem_nil_iff, or_false] at hr hr'
    rcases hr with rfl | rfl <;> rcases hr' with rfl | rfl
    · exact absurd rfl hne
    · exact ex_meet.1
    · exact ex_meet.2
    · exact absurd rfl hne
  · refine ⟨?_, by simp⟩
    simp only [mem_ofPred_eq, Triplet.acceptsE, pv_exP]; norm_num
  · refine ⟨?_, by simp⟩
    simp only [mem_ofPred_eq, Triplet.acceptsE, pv_exQ]; norm_num

theorem exQ_opposite : oppositeTriplet exP 0 0 1 = exQ := by
  simp [oppositeTriplet, exP, exQ, comb3, add3, smul3]

/-- a direction INSIDE the sliver (5e-12 below the shared edge: outside the exact cone of `exP`, inside the slack)
    satisfies every hypothesis of `triplet_sliver_bound`: both triplets answer -/
example : let p : Vec3 ℝ := (1, 0, -(5 / 1000000000000))
    det3 exP ≠ 0 ∧ nsq exP.1 + nsq exP.2.1 + nsq exP.2.2 ≤ 4 ∧
      nsq exP.1 + nsq exP.2.1 + nsq (comb3 0 0 (-1) exP) ≤ 4 ∧ 3 / 4 ≤ nsq p ∧
      (∃ g, Triplet.handle exP p = some g) ∧ (∃ g', Triplet.handle (oppositeTriplet exP 0 0 1) p = some g') ∧
      ¬ Triplet.acceptsE 0 exP p := by
  intro p
  have hP : Triplet.accepts exP p := by
    rw [← acceptsE_eps]; simp only [Triplet.acceptsE, pv_exP, tripletEps_real, p]; norm_num
  have hQ : Triplet.accepts exQ p := by
    rw [← acceptsE_eps]; simp only [Triplet.acceptsE, pv_exQ, tripletEps_real, p]; norm_num
  refine ⟨by norm_num [det3, exP], by norm_num [nsq, exP], by norm_num [nsq, exP, comb3, add3, smul3],
    by norm_num [nsq, p], ⟨Triplet.gains exP p, by simp [Triplet.handle, hP]⟩,
    ⟨Triplet.gains exQ p, by rw [exQ_opposite]; simp [Triplet.handle, hQ]⟩, ?_⟩
  simp only [Triplet.acceptsE, pv_exP, p]; norm_num


/-! ### end to end for the code's threshold: the model's panner on two edge-sharing triplets -/

theorem nsq_ne_zero {p : Vec3 ℝ} (h : 3 / 4 ≤ nsq p) : p ≠ (0, 0, 0) := by
  rintro rfl
  simp [nsq] at h
  linarith

theorem isClosed_nsq_ge : IsClosed {p : Vec3 ℝ | 3 / 4 ≤ nsq p} := by
  simp only [nsq]
  exact isClosed_le continuous_const (by fun_prop)

theorem regionAnswer_two (r0 r1 : Region ℝ) (n : Nat) (ρ : Vec3 ℝ → Nat → Option ℝ × Option ℝ) (p : Vec3 ℝ) :
    regionAnswer [r0, r1] n ρ 0 p = remap r0.channels n (r0.handle (ρ p 0) p) ∧
      regionAnswer [r0, r1] n ρ 1 p = remap r1.channels n (r1.handle (ρ p 1) p) := by
  simp [regionAnswer, PointSourcePanner.results, List.range_succ]

/-- answer of a triplet region inside a panner: `None` iff `Triplet.handle` is, else the remapped gains -/
theorem triplet_answer (ch : List Nat) (P : Mat3 ℝ) (n : Nat) (roots : Option ℝ × Option ℝ) (p : Vec3 ℝ) :
    (remap (Region.triplet ch P).channels n ((Region.triplet ch P).handle roots p) ≠ none ↔ Triplet.handle P p ≠ none) ∧
      (Triplet.handle P p ≠ none → remap (Region.triplet ch P).channels n ((Region.triplet ch P).handle roots p) =
        some (tripletOut n (ch, P) p)) := by
  simp only [Region.channels, Region.handle, remap, tripletOut]
  cases h : Triplet.handle P p with
  | none => simp
  | some g => simp [handle_some_eq_gains h]

/-- END TO END, for the code's own threshold −1e-11, on the model's `PointSourcePanner.handle`: a panner made of two
    invertible triplets sharing the edge `u v` (`P = (u, v, w)` on channels `cu cv cw`, `Q = (u, v, w')` on `cu cv cw'`,
    `w' = α·u + β·v − γ·w`, `γ > 0`; four distinct channels; loudspeaker positions of norm about 1).  On directions of
    norm about 1 (`‖p‖² ≥ 3/4`) every output channel's gain varies, near every direction accepted by one of the
    triplets, by at most `η + δ` for every `δ > 0`, where `η = 15/2 · max(|α|, |β|, γ+1) · max(1, 1/γ) · 1e-11`:
    the composed function is continuous up to jumps of `η`. -/
theorem two_triplet_panner_jump_bound (P : Mat3 ℝ) (hd : det3 P ≠ 0) (α β γ : ℝ) (hγ : 0 < γ)
    (hrows : nsq P.1 + nsq P.2.1 + nsq P.2.2 ≤ 4)
    (hrows' : nsq P.1 + nsq P.2.1 + nsq (comb3 α β (-γ) P) ≤ 4)
    (cu cv cw cw' n c : Nat) (huw : cu ≠ cw) (huw' : cu ≠ cw') (hvw : cv ≠ cw) (hvw' : cv ≠ cw')
    (hww' : cw ≠ cw') (ρ : Vec3 ℝ → Nat → Option ℝ × Option ℝ) :
    let regions := [Region.triplet [cu, cv, cw] P, Region.triplet [cu, cv, cw'] (oppositeTriplet P α β γ)]
    let S := {p : Vec3 ℝ | 3 / 4 ≤ nsq p}
    let η := 15 / 2 * (max (max |α| |β|) (γ + 1) * max 1 (1 / γ)) * (1 / 100000000000)
    let U := {p | p ∈ S ∧ ∃ k < regions.length, regionAnswer regions n ρ k p ≠ none}
    let G := fun p => ((PointSourcePanner.handle regions n (ρ p) p).map (·.getD c 0)).getD 0
    ∀ x ∈ U, ∀ δ > 0, ∀ᶠ y in nhdsWithin x U, |G y - G x| ≤ η + δ := by
  intro regions S η
  set Q := oppositeTriplet P α β γ with hQ
  have hdQ : det3 Q ≠ 0 := by
    rw [hQ, det3_opposite]; exact mul_ne_zero (neg_ne_zero.mpr hγ.ne') hd
  have hη0 : 0 ≤ η := by
    have h1 : (1 : ℝ) ≤ max (max |α| |β|) (γ + 1) := le_trans (by linarith) (le_max_right _ _)
    have h2 : (1 : ℝ) ≤ max 1 (1 / γ) := le_max_left _ _
    have : 0 ≤ max (max |α| |β|) (γ + 1) * max 1 (1 / γ) := mul_nonneg (by linarith) (by linarith)
    simp only [η]; positivity
  -- the two answers
  have hans : ∀ p, regionAnswer regions n ρ 0 p = remap (Region.triplet [cu, cv, cw] P).channels n
        ((Region.triplet [cu, cv, cw] P).handle (ρ p 0) p) ∧
      regionAnswer regions n ρ 1 p = remap (Region.triplet [cu, cv, cw'] Q).channels n
        ((Region.triplet [cu, cv, cw'] Q).handle (ρ p 1) p) := fun p => regionAnswer_two _ _ n ρ p
  have hlen : regions.length = 2 := rfl
  -- per region: data (channels, matrix)
  have key : ∀ k < regions.length, ∃ ch R, det3 R ≠ 0 ∧
      (∀ p, (regionAnswer regions n ρ k p ≠ none ↔ Triplet.handle R p ≠ none) ∧
        (Triplet.handle R p ≠ none → regionAnswer regions n ρ k p = some (tripletOut n (ch, R) p))) := by
    intro k hk
    rw [hlen] at hk
    interval_cases k
    · refine ⟨[cu, cv, cw], P, hd, fun p => ?_⟩
      rw [(hans p).1]; exact triplet_answer _ _ _ _ _
    · refine ⟨[cu, cv, cw'], Q, hdQ, fun p => ?_⟩
      rw [(hans p).2]; exact triplet_answer _ _ _ _ _
  apply panner_jump_bound_of_regions regions n ρ S c η
  · intro k hk
    obtain ⟨ch, R, _, hR⟩ := key k hk
    refine ⟨{p | Triplet.handle R p ≠ none}, triplet_accept_isClosed_code R, ?_⟩
    ext p
    simp only [mem_inter_iff, mem_ofPred_eq, (hR p).1]
  · intro k hk
    obtain ⟨ch, R, hdR, hR⟩ := key k hk
    refine ((tripletOut_continuousOn_ne n c (ch, R) hdR).mono ?_).congr ?_
    · intro p hp; exact nsq_ne_zero hp.2
    · intro p hp
      have := (hR p).2 ((hR p).1.mp hp.1)
      simp only [this, Option.map_some, Option.getD_some]
  · intro k hk j hj p hpS hk' hj'
    rw [hlen] at hk hj
    -- both triplets accept p
    have hP : ∀ p, regionAnswer regions n ρ 0 p ≠ none → Triplet.handle P p ≠ none := fun p h => by
      rw [(hans p).1] at h; exact (triplet_answer _ _ _ _ _).1.mp h
    have hQ' : ∀ p, regionAnswer regions n ρ 1 p ≠ none → Triplet.handle Q p ≠ none := fun p h => by
      rw [(hans p).2] at h; exact (triplet_answer _ _ _ _ _).1.mp h
    have cross : ∀ p ∈ S, regionAnswer regions n ρ 0 p ≠ none → regionAnswer regions n ρ 1 p ≠ none →
        |((regionAnswer regions n ρ 0 p).map (·.getD c 0)).getD 0 - ((regionAnswer regions n ρ 1 p).map (·.getD c 0)).getD 0| ≤ η := by
      intro p hpS h0 h1
      have a0 := hP p h0
      have a1 := hQ' p h1
      obtain ⟨g, hg⟩ := Option.ne_none_iff_exists'.mp a0
      obtain ⟨g', hg'⟩ := Option.ne_none_iff_exists'.mp a1
      obtain ⟨m0, m1, m2, m3⟩ := triplet_sliver_bound P hd α β γ hγ p g g' hrows hrows' hpS hg hg'
      rw [(hans p).1, (hans p).2, (triplet_answer _ _ n (ρ p 0) p).2 a0, (triplet_answer _ _ n (ρ p 1) p).2 a1]
      simp only [Option.map_some, Option.getD_some, tripletOut, ← handle_some_eq_gains hg, ← handle_some_eq_gains hg',
        vecList, scatter3_getD]
      have z : |(0 : ℝ) - 0| ≤ η := by simpa using hη0
      split_ifs <;> first | exact m0 | exact m1 | exact m2 | exact m3 | exact z | (exfalso; omega)
    interval_cases k <;> interval_cases j
    · simpa using hη0
    · exact cross p hpS hk' hj'
    · rw [abs_sub_comm]; exact cross p hpS hj' hk'
    · simpa using hη0

/-- the hypotheses of `two_triplet_panner_jump_bound` are satisfiable: the standard basis triplet and its mirror image
    across the edge e₁ e₂, on channels 0 1 2 / 0 1 3 (a direction inside the sliver, accepted by both, is exhibited in
    the example above) -/
example (ρ : Vec3 ℝ → Nat → Option ℝ × Option ℝ) (c : Nat) :=
  two_triplet_panner_jump_bound exP (by norm_num [det3, exP]) 0 0 1 (by norm_num) (by norm_num [nsq, exP])
    (by norm_num [nsq, exP, comb3, add3, smul3]) 0 1 2 3 4 c (by decide) (by decide) (by decide) (by decide) (by decide) ρ


/-! ### the virtual n-gon and panners of triplets and n-gons at slack 0 (headlines; proofs in Proofs/C12Ngon.lean) -/

/-- **THE N-GON HANDLER IS CONTINUOUS ON ITS ACCEPTANCE SET (slack 0).**  `VirtualNgon.handleE 0` (`ngon_handleE_eps`: with
    the code's −1e-11 it is `VirtualNgon.handle`).  Inner triplets `(o_i, o_{i+1}, centre)` invertible, local channels
    `[o_i, o_{i+1}, m]`, positive centre downmix, any two inner triplets meet only in a shared face: every output coordinate
    is continuous on the union of the inner cones, where the answer is the mixed answer of ANY accepting inner triplet. -/
theorem ngon_handle_continuousOn (g : VirtualNgon ℝ)
    (hdet : ∀ r ∈ g.regions, det3 r.2 ≠ 0) (hch : ∀ r ∈ g.regions, InnerChOk g.centreDownmix.length r)
    (hcd : ∀ d ∈ g.centreDownmix, 0 < d)
    (hface : ∀ r ∈ g.regions, ∀ r' ∈ g.regions, r ≠ r' → MeetInSharedFace r r') :
    (∀ c, ContinuousOn (fun p => ((g.handleE 0 p).map (·.getD c 0)).getD 0) {p | ∃ r ∈ g.regions, p ∈ TRegion.cone r}) ∧
    (∀ r ∈ g.regions, ∀ p ∈ TRegion.cone r, g.handleE 0 p =
      some (VirtualNgon.mix g.centreDownmix (tripletOut (g.centreDownmix.length + 1) r p))) ∧
    (∀ p, p ≠ (0, 0, 0) → (¬ ∃ r ∈ g.regions, p ∈ TRegion.cone r) → g.handleE 0 p = none) :=
  ngon_handle_continuousOn_aux g hdet hch hcd hface

/-- **A PANNER OF TRIPLETS AND N-GONS AT SLACK 0** — `panner_continuousOn_triplets_partial` extended to VirtualNgon regions.
    PARTIAL for the same reasons: slack 0 instead of the code's −1e-11, no QuadRegions, coverage not included. -/
theorem panner_continuousOn_tri_ngon_partial (regions : List (Region ℝ)) (n : Nat)
    (hok : ∀ R ∈ regions, R.tnOk)
    (hcross : ∀ R ∈ regions, ∀ R' ∈ regions, R ≠ R' → ∀ X ∈ R.tcells, ∀ Y ∈ R'.tcells, MeetInOuterFace R X R' Y) :
    (∀ c, ContinuousOn (fun p => ((pannerTNE 0 regions n p).map (·.getD c 0)).getD 0)
      {p | ∃ R ∈ regions, ∃ X ∈ R.tcells, p ∈ TRegion.cone X}) ∧
    (∀ R ∈ regions, ∀ X ∈ R.tcells, ∀ p ∈ TRegion.cone X,
      pannerTNE 0 regions n p = some (R.outMap n X.1 (Triplet.gains X.2 p))) ∧
    (∀ p, p ≠ (0, 0, 0) → (¬ ∃ R ∈ regions, ∃ X ∈ R.tcells, p ∈ TRegion.cone X) → pannerTNE 0 regions n p = none) :=
  panner_continuousOn_tri_ngon_aux regions n hok hcross

/-! ### the whole all-triplet panner with the code's threshold -/

theorem regionAnswer_getElem (regs : List (Region ℝ)) (n : Nat) (ρ : Vec3 ℝ → Nat → Option ℝ × Option ℝ) (k : Nat)
    (hk : k < regs.length) (p : Vec3 ℝ) :
    regionAnswer regs n ρ k p = remap regs[k].channels n (regs[k].handle (ρ p k) p) := by
  simp [regionAnswer, PointSourcePanner.results, List.getD_eq_getElem?_getD, hk]

/-- **END TO END FOR A WHOLE LIST OF TRIPLETS, the code's own threshold −1e-11**, on the model's
    `PointSourcePanner.handle`: invertible triplets any two of which, where both return a result at a direction of norm about
    1, differ by at most `η` on every output channel (`pair_out_bound`: `η = 45·(3α+1)·κ·1e-11` from a separating plane).
    Then every output channel's gain varies, near every direction accepted by some triplet, by at most `η + δ` for every
    `δ > 0`: the composed function is continuous up to jumps of `η`. -/
theorem panner_jump_bound_triplets (regions : List TRegion) (n : Nat) (η : ℝ)
    (hdet : ∀ r ∈ regions, det3 r.2 ≠ 0)
    (hpair : ∀ r ∈ regions, ∀ r' ∈ regions, ∀ p, 3 / 4 ≤ nsq p → Triplet.handle r.2 p ≠ none →
      Triplet.handle r'.2 p ≠ none → ∀ c, |(tripletOut n r p).getD c 0 - (tripletOut n r' p).getD c 0| ≤ η)
    (ρ : Vec3 ℝ → Nat → Option ℝ × Option ℝ) (c : Nat) :
    let regs := regions.map fun r => Region.triplet r.1 r.2
    let S := {p : Vec3 ℝ | 3 / 4 ≤ nsq p}
    let U := {p | p ∈ S ∧ ∃ k < regs.length, regionAnswer regs n ρ k p ≠ none}
    let G := fun p => ((PointSourcePanner.handle regs n (ρ p) p).map (·.getD c 0)).getD 0
    ∀ x ∈ U, ∀ δ > 0, ∀ᶠ y in nhdsWithin x U, |G y - G x| ≤ η + δ := by
  intro regs S
  have hlen : regs.length = regions.length := by simp [regs]
  have key : ∀ k (hk : k < regions.length), ∀ p,
      (regionAnswer regs n ρ k p ≠ none ↔ Triplet.handle regions[k].2 p ≠ none) ∧
        (Triplet.handle regions[k].2 p ≠ none → regionAnswer regs n ρ k p = some (tripletOut n regions[k] p)) := by
    intro k hk p
    have hk' : k < regs.length := by rw [hlen]; exact hk
    rw [regionAnswer_getElem regs n ρ k hk' p]
    have : regs[k] = Region.triplet regions[k].1 regions[k].2 := by simp [regs]
    rw [this]
    exact triplet_answer _ _ _ _ _
  apply panner_jump_bound_of_regions regs n ρ S c η
  · intro k hk
    rw [hlen] at hk
    have hcl := triplet_accept_isClosed_code (regions[k]).2
    refine ⟨_, hcl, ?_⟩
    ext p
    have := (key k hk p).1
    simp only [mem_inter_iff, mem_ofPred_eq, this]
  · intro k hk
    rw [hlen] at hk
    refine ((tripletOut_continuousOn_ne n c regions[k] (hdet _ (List.getElem_mem hk))).mono ?_).congr ?_
    · intro p hp; exact nsq_ne_zero hp.2
    · intro p hp
      have := (key k hk p).2 ((key k hk p).1.mp hp.1)
      simp only [this, Option.map_some, Option.getD_some]
  · intro k hk j hj p hpS hk' hj'
    rw [hlen] at hk hj
    have a0 := (key k hk p).1.mp hk'
    have a1 := (key j hj p).1.mp hj'
    rw [(key k hk p).2 a0, (key j hj p).2 a1]
    simp only [Option.map_some, Option.getD_some]
    exact hpair _ (List.getElem_mem hk) _ (List.getElem_mem hj) p hpS a0 a1 c

/-! ### the regenerated tables: "regions meet only in shared faces", decided by the kernel -/

open Faces in
theorem faces_ok_0 : facesCertOk Earverif.Gen.C05Cover.scaleExp Earverif.Gen.C05.L0 Earverif.Gen.C12Faces.F0 = true := by decide +kernel
open Faces in
theorem faces_ok_1 : facesCertOk Earverif.Gen.C05Cover.scaleExp Earverif.Gen.C05.L1 Earverif.Gen.C12Faces.F1 = true := by decide +kernel
open Faces in
theorem faces_ok_2 : facesCertOk Earverif.Gen.C05Cover.scaleExp Earverif.Gen.C05.L2 Earverif.Gen.C12Faces.F2 = true := by decide +kernel
open Faces in
theorem faces_ok_3 : facesCertOk Earverif.Gen.C05Cover.scaleExp Earverif.Gen.C05.L3 Earverif.Gen.C12Faces.F3 = true := by decide +kernel
open Faces in
theorem faces_ok_4 : facesCertOk Earverif.Gen.C05Cover.scaleExp Earverif.Gen.C05.L4 Earverif.Gen.C12Faces.F4 = true := by decide +kernel
open Faces in
theorem faces_ok_5 : facesCertOk Earverif.Gen.C05Cover.scaleExp Earverif.Gen.C05.L5 Earverif.Gen.C12Faces.F5 = true := by decide +kernel
open Faces in
theorem faces_ok_6 : facesCertOk Earverif.Gen.C05Cover.scaleExp Earverif.Gen.C05.L6 Earverif.Gen.C12Faces.F6 = true := by decide +kernel
open Faces in
theorem faces_ok_7 : facesCertOk Earverif.Gen.C05Cover.scaleExp Earverif.Gen.C05.L7 Earverif.Gen.C12Faces.F7 = true := by decide +kernel
open Faces in
theorem faces_ok_8 : facesCertOk Earverif.Gen.C05Cover.scaleExp Earverif.Gen.C05.L8 Earverif.Gen.C12Faces.F8 = true := by decide +kernel
open Faces in
theorem faces_ok_9 : facesCertOk Earverif.Gen.C05Cover.scaleExp Earverif.Gen.C05.L9 Earverif.Gen.C12Faces.F9 = true := by decide +kernel

open Faces in
/-- Table obligation: for each of the ten nominal layouts the regenerated certificate (`Gen/C12_Faces.lean`, from the real
    configured panner) passes `Faces.facesCertOk` against the regenerated region table: every pair of triplet cells
    (Triplet regions, inner triplets of the n-gons) is separated strictly by a plane through their shared positions
    (exact integer arithmetic on the binary64 coordinates), with the constants `alpha`, `kappa` of the sliver bound. -/
theorem faces_tables_ok :
    facesTablesOk Earverif.Gen.C05Cover.scaleExp Earverif.Gen.C05.layouts Earverif.Gen.C12Faces.faces = true := by
  simp only [facesTablesOk, Earverif.Gen.C05.layouts, Earverif.Gen.C12Faces.faces, List.length_cons, List.length_nil,
    List.zip_cons_cons, List.zip_nil_right, List.all_cons, List.all_nil, faces_ok_0, faces_ok_1, faces_ok_2, faces_ok_3,
    faces_ok_4, faces_ok_5, faces_ok_6, faces_ok_7, faces_ok_8, faces_ok_9, Bool.and_true, beq_self_eq_true]

open Faces in
theorem faces_spec_of_tables (l : RawLayout) (hl : l ∈ Earverif.Gen.C05.layouts) :
    ∃ cert ∈ Earverif.Gen.C12Faces.faces, CertSpec Earverif.Gen.C05Cover.scaleExp l cert := by
  have h := faces_tables_ok
  unfold facesTablesOk at h
  simp only [Bool.and_eq_true, beq_iff_eq, List.all_eq_true] at h
  obtain ⟨i, hi, rfl⟩ := List.mem_iff_getElem.mp hl
  have hi' : i < Earverif.Gen.C12Faces.faces.length := h.1 ▸ hi
  refine ⟨Earverif.Gen.C12Faces.faces[i], List.getElem_mem hi', facesCertOk_spec _ _ _ (h.2 (_, _) ?_)⟩
  rw [List.mem_iff_getElem]
  exact ⟨i, by simp [hi, hi'], by simp⟩

/-- the Triplet regions of a table as (output channels, positions) -/
noncomputable def tripletTR1 (r : RawRegion) : Option TRegion :=
  if r.kind == 0 then
    match r.pos with
    | [a, b, d] => some (r.ch, ((p3 a : Vec3 ℝ), p3 b, p3 d))
    | _ => none
  else none

noncomputable def tripletTR (l : RawLayout) : List TRegion := l.regions.filterMap tripletTR1

/-- ... they ARE the Triplet regions of the modelled panner (`RawRegion.toRegion`), in evaluation order -/
theorem tripletTR_regions (l : RawLayout) :
    (tripletTR l).map (fun r => Region.triplet r.1 r.2) =
      l.regions.filterMap (fun r => if r.kind == 0 then RawRegion.toRegion (α := ℝ) r else none) := by
  unfold tripletTR
  rw [List.map_filterMap]
  apply List.filterMap_congr
  intro r _
  unfold tripletTR1 RawRegion.toRegion
  by_cases k0 : r.kind = 0
  · have k0' : (r.kind == 0) = true := by simpa using k0
    simp only [k0]
    match r.pos with
    | [] => rfl
    | [_] => rfl
    | [_, _] => rfl
    | [_, _, _] => rfl
    | _ :: _ :: _ :: _ :: _ => rfl
  · have k0' : (r.kind == 0) = false := by simpa using k0
    simp only [k0', Bool.false_eq_true, if_false, Option.map_none]

open Faces in
theorem tripletTR_cell {l : RawLayout} {X : TRegion} (hX : X ∈ tripletTR l) :
    ∃ k r, l.regions[k]? = some r ∧ r.kind = 0 ∧ tableCell l k 0 = some X := by
  unfold tripletTR at hX
  rw [List.mem_filterMap] at hX
  obtain ⟨r, hr, hX⟩ := hX
  obtain ⟨k, hk⟩ := List.mem_iff_getElem?.mp hr
  unfold tripletTR1 at hX
  by_cases k0 : r.kind = 0
  · have k0' : (r.kind == 0) = true := by simpa using k0
    simp only [k0', if_true] at hX
    split at hX
    · rename_i a b d hpos
      rw [← Option.some.inj hX]
      exact ⟨k, r, hk, k0, triplet_table hk k0 hpos⟩
    · exact absurd hX (by simp)
  · have k0' : (r.kind == 0) = false := by simpa using k0
    simp [k0'] at hX

open Faces in
/-- what the certificate gives for two Triplet regions of a nominal layout -/
theorem tables_triplet_pair (l : RawLayout) (hl : l ∈ Earverif.Gen.C05.layouts) :
    ∃ cert ∈ Earverif.Gen.C12Faces.faces, 1 ≤ cert.kappa ∧
      (∀ X ∈ tripletTR l, det3 X.2 ≠ 0 ∧ X.chOk ∧ X.rowsOk) ∧
      (∀ X ∈ tripletTR l, ∀ Y ∈ tripletTR l, X ≠ Y →
        MeetInSharedFace X Y ∧ (PairData X Y cert.alpha cert.kappa ∨ PairData Y X cert.alpha cert.kappa)) := by
  obtain ⟨cert, hcert, hs⟩ := faces_spec_of_tables l hl
  refine ⟨cert, hcert, hs.kappa1, ?_, ?_⟩
  · intro X hX
    obtain ⟨k, r, _, _, ht⟩ := tripletTR_cell hX
    obtain ⟨c, hc, _, _, rfl⟩ := cell_of_table hs ht
    exact ⟨(hs.cellsOk c hc).det, (hs.cellsOk c hc).chOk, (hs.cellsOk c hc).rowsOk⟩
  · intro X hX Y hY hne
    obtain ⟨k, r, hr, k0, ht⟩ := tripletTR_cell hX
    obtain ⟨k', r', hr', k0', ht'⟩ := tripletTR_cell hY
    have hkk : k ≠ k' := by
      intro e; subst e
      rw [ht] at ht'
      exact hne (Option.some.inj ht')
    obtain ⟨c, c', hc, hc', rfl, rfl, ⟨hck, _⟩, ⟨hck', _⟩, _, m2, m3⟩ := faces_sound hs ht ht' (Or.inl hkk)
    have kc : c.kind = 0 := by
      obtain ⟨_, _, _, r2, hr2, hkind⟩ := derive_table _ l c.region c.fan c (hs.matches_ c hc)
      rw [hck, hr] at hr2
      have : r2 = r := (Option.some.inj hr2).symm
      subst this
      rcases hkind with ⟨_, h, _⟩ | ⟨h, _, _, _⟩
      · exact h
      · rw [k0] at h; exact absurd h (by decide)
    have kc' : c'.kind = 0 := by
      obtain ⟨_, _, _, r2, hr2, hkind⟩ := derive_table _ l c'.region c'.fan c' (hs.matches_ c' hc')
      rw [hck', hr'] at hr2
      have : r2 = r' := (Option.some.inj hr2).symm
      subst this
      rcases hkind with ⟨_, h, _⟩ | ⟨h, _, _, _⟩
      · exact h
      · rw [k0'] at h; exact absurd h (by decide)
    exact ⟨meet_of_outer (hs.cellsOk c hc) (hs.cellsOk c' hc') kc kc' (m2 hkk), m3 kc kc'⟩

/-- **THE TRIPLET REGIONS OF THE TEN NOMINAL LAYOUTS MEET ONLY IN SHARED FACES** (the hypothesis of
    `panner_continuousOn_triplets_partial`, until now checked by harness/c12.py, now decided by the kernel on the regenerated
    tables): every Triplet region is invertible with three distinct channels, and the exact cones of any two Triplet regions
    of one layout have only a shared loudspeaker / a shared edge (or nothing) in common, on the same output channels. -/
theorem tables_triplet_pairs_meet_in_faces (l : RawLayout) (hl : l ∈ Earverif.Gen.C05.layouts) :
    (∀ X ∈ tripletTR l, det3 X.2 ≠ 0 ∧ X.chOk) ∧
    (∀ X ∈ tripletTR l, ∀ Y ∈ tripletTR l, X ≠ Y → MeetInSharedFace X Y) := by
  obtain ⟨cert, _, _, h1, h2⟩ := tables_triplet_pair l hl
  exact ⟨fun X hX => ⟨(h1 X hX).1, (h1 X hX).2.1⟩, fun X hX Y hY hne => (h2 X hX Y hY hne).1⟩

/-- ... hence the Triplet regions of every nominal layout, as a panner at slack 0, are continuous on the union of their
    cones (instance of `panner_continuousOn_triplets_partial` with every hypothesis discharged from the tables) -/
theorem tables_triplet_panner_continuousOn (l : RawLayout) (hl : l ∈ Earverif.Gen.C05.layouts) (c : Nat) :
    ContinuousOn (fun p => ((tripletPannerE 0 (tripletTR l) l.nInner p).map (·.getD c 0)).getD 0)
      {p | ∃ r ∈ tripletTR l, p ∈ r.cone} := by
  obtain ⟨h1, h2⟩ := tables_triplet_pairs_meet_in_faces l hl
  exact (panner_continuousOn_triplets_partial (tripletTR l) l.nInner (fun r hr => (h1 r hr).1) (fun r hr => (h1 r hr).2) h2).1 c

/-- **THE TRIPLET REGIONS OF A NOMINAL LAYOUT WITH THE CODE'S THRESHOLD −1e-11**: on the model's `PointSourcePanner.handle`
    over the Triplet regions of the regenerated table (`tripletTR_regions`: they are the modelled panner's Triplet regions),
    every output channel is continuous up to jumps of `η = 45·(3·alpha+1)·kappa·1e-11`, `alpha`, `kappa` the kernel-checked
    constants of the layout's certificate (at most `45·16·30·1e-11 < 2.2e-7` on the ten tables) — whatever the row order
    of the triplets, and including the slivers around shared vertices.  QuadRegions and n-gons are not in this panner. -/
theorem tables_triplet_panner_jump_bound (l : RawLayout) (hl : l ∈ Earverif.Gen.C05.layouts)
    (ρ : Vec3 ℝ → Nat → Option ℝ × Option ℝ) (c : Nat) :
    ∃ cert ∈ Earverif.Gen.C12Faces.faces,
      let η : ℝ := 45 * ((3 * (cert.alpha : ℝ) + 1) * (cert.kappa : ℝ)) * (1 / 100000000000)
      let regs := (tripletTR l).map fun r => Region.triplet r.1 r.2
      let S := {p : Vec3 ℝ | 3 / 4 ≤ nsq p}
      let U := {p | p ∈ S ∧ ∃ k < regs.length, regionAnswer regs l.nInner ρ k p ≠ none}
      let G := fun p => ((PointSourcePanner.handle regs l.nInner (ρ p) p).map (·.getD c 0)).getD 0
      ∀ x ∈ U, ∀ δ > 0, ∀ᶠ y in nhdsWithin x U, |G y - G x| ≤ η + δ := by
  obtain ⟨cert, hcert, hk1, h1, h2⟩ := tables_triplet_pair l hl
  refine ⟨cert, hcert, ?_⟩
  intro η
  have hκ1 : (1 : ℝ) ≤ (cert.kappa : ℝ) := by exact_mod_cast hk1
  have hα0 : (0 : ℝ) ≤ (cert.alpha : ℝ) := Nat.cast_nonneg _
  have hη0 : 0 ≤ η := by
    simp only [η]; positivity
  apply panner_jump_bound_triplets (tripletTR l) l.nInner η (fun r hr => (h1 r hr).1)
  intro X hX Y hY p hp hx hy c'
  by_cases e : X = Y
  · rw [e]; simpa using hη0
  · obtain ⟨_, hd⟩ := h2 X hX Y hY e
    rcases hd with hd | hd
    · exact pair_out_bound l.nInner X Y (h1 X hX).2.1 (h1 Y hY).2.1 (h1 X hX).2.2 (h1 Y hY).2.2 _ _ hκ1 hα0 hd p hp hx hy c'
    · rw [abs_sub_comm]
      exact pair_out_bound l.nInner Y X (h1 Y hY).2.1 (h1 X hX).2.1 (h1 Y hY).2.2 (h1 X hX).2.2 _ _ hκ1 hα0 hd p hp hy hx c'

open Faces in
/-- **EVERY VIRTUAL N-GON OF THE TEN NOMINAL LAYOUTS IS CONTINUOUS ON ITS ACCEPTANCE SET (slack 0)**: instance of
    `ngon_handle_continuousOn` with every hypothesis discharged from the regenerated tables (`ngonOf r` is the VirtualNgon
    `RawRegion.toRegion` builds). -/
theorem tables_ngon_continuousOn (l : RawLayout) (hl : l ∈ Earverif.Gen.C05.layouts) (r : RawRegion) (hr : r ∈ l.regions)
    (k1 : r.kind = 1) (c : Nat) :
    ContinuousOn (fun p => (((ngonOf r).handleE 0 p).map (·.getD c 0)).getD 0)
      {p | ∃ X ∈ (ngonOf r).regions, p ∈ TRegion.cone X} := by
  obtain ⟨cert, _, hs⟩ := faces_spec_of_tables l hl
  obtain ⟨k, hk⟩ := List.mem_iff_getElem?.mp hr
  obtain ⟨_, h2, h3, h4, h5, _, _⟩ := ngon_table hs hk k1
  exact (ngon_handle_continuousOn (ngonOf r) h2 h3 h4 h5).1 c



open Faces in
/-- **THE TRIPLET AND N-GON REGIONS OF EVERY NOMINAL LAYOUT, AS A PANNER AT SLACK 0, ARE CONTINUOUS** on the union of their
    cones: instance of `panner_continuousOn_tri_ngon_partial` on the modelled panner's own Triplet and VirtualNgon regions
    (`Faces.tnRegions`: `RawRegion.toRegion` of the regenerated table, QuadRegions left out; `pannerTNE_eps` +
    `Faces.tnRegions_noQuad`: with the code's slack this panner is the model's `PointSourcePanner.handle` on them), every
    hypothesis — including `MeetInOuterFace` for every triplet cell against every n-gon cell — discharged from the
    kernel-checked certificate. -/
theorem tables_tri_ngon_continuousOn (l : RawLayout) (hl : l ∈ Earverif.Gen.C05.layouts) (c : Nat) :
    ContinuousOn (fun p => ((pannerTNE 0 (tnRegions l) l.nInner p).map (·.getD c 0)).getD 0)
      {p | ∃ R ∈ tnRegions l, ∃ X ∈ R.tcells, p ∈ TRegion.cone X} := by
  obtain ⟨cert, _, hs⟩ := faces_spec_of_tables l hl
  obtain ⟨hok, hcross⟩ := tnRegions_ok hs
  exact (panner_continuousOn_tri_ngon_partial (tnRegions l) l.nInner hok hcross).1 c

section QuadCone
open Cover Topology

/-! ### the quad on the cone of its corners (closed-form root selection `GainCalc.quadRoot`, sign certificate) -/

/-- a function selected as THE zero in `[0, 1]` of a jointly continuous family is continuous -/
theorem continuousOn_of_unique_zero {X : Type} [TopologicalSpace X] (K : Set X) (F : X → ℝ → ℝ)
    (hF : Continuous fun z : X × ℝ => F z.1 z.2) (x : X → ℝ)
    (hx : ∀ p ∈ K, x p ∈ Icc (0 : ℝ) 1 ∧ F p (x p) = 0)
    (huniq : ∀ p ∈ K, ∀ t ∈ Icc (0 : ℝ) 1, F p t = 0 → t = x p) : ContinuousOn x K := by
  intro p0 hp0
  rw [ContinuousWithinAt, tendsto_nhds]
  intro U hU hxU
  -- the compact set of parameters away from U
  set C : Set ℝ := Icc 0 1 \ U with hC
  have hCc : IsCompact C := isCompact_Icc.diff hU
  set N : Set (X × ℝ) := {z | F z.1 z.2 ≠ 0} with hN
  have hNo : IsOpen N := isOpen_ne_fun hF continuous_const
  have hsub : ({p0} : Set X) ×ˢ C ⊆ N := by
    rintro ⟨p, t⟩ ⟨hp, ht⟩
    simp only [mem_singleton_iff] at hp
    subst hp
    intro h0
    have := huniq p hp0 t ht.1 h0
    exact ht.2 (this ▸ hxU)
  obtain ⟨u, v, hu, _, hpu, hCv, huv⟩ := generalized_tube_lemma isCompact_singleton hCc hNo hsub
  have hmem : u ∈ 𝓝 p0 := hu.mem_nhds (hpu rfl)
  filter_upwards [nhdsWithin_le_nhds hmem, self_mem_nhdsWithin] with p hpu' hpK
  by_contra hnot
  have hxp := hx p hpK
  have : x p ∈ C := ⟨hxp.1, hnot⟩
  exact huv (mk_mem_prod hpu' (hCv this)) hxp.2

/-- under the sign conditions of `roots_in_unit_pos` the root in `[0, 1]` is unique -/
theorem unit_root_unique (A B C : ℝ) (hm : A * eps ^ 2 - B * eps + C ≤ 0)
    (hp : 0 ≤ A * (1 + eps) ^ 2 + B * (1 + eps) + C) (hne : ¬(A = 0 ∧ B = 0 ∧ C = 0))
    (t1 t2 : ℝ) (h1 : 0 ≤ t1) (h1' : t1 ≤ 1) (h2 : 0 ≤ t2) (h2' : t2 ≤ 1)
    (hf1 : A * t1 ^ 2 + B * t1 + C = 0) (hf2 : A * t2 ^ 2 + B * t2 + C = 0) : t1 = t2 := by
  by_contra hne12
  have he := eps_pos
  have hd : t1 - t2 ≠ 0 := sub_ne_zero.mpr hne12
  -- B = −A (t1 + t2), C = A t1 t2
  have hB : B = -A * (t1 + t2) := by
    have : (t1 - t2) * (A * (t1 + t2) + B) = 0 := by linear_combination hf1 - hf2
    have := (mul_eq_zero.mp this).resolve_left hd
    linarith
  have hCc : C = A * (t1 * t2) := by
    rw [hB] at hf1; linear_combination hf1
  have e1 : A * eps ^ 2 - B * eps + C = A * ((eps + t1) * (eps + t2)) := by rw [hB, hCc]; ring
  have e2 : A * (1 + eps) ^ 2 + B * (1 + eps) + C = A * ((1 + eps - t1) * (1 + eps - t2)) := by rw [hB, hCc]; ring
  rw [e1] at hm
  rw [e2] at hp
  have p1 : 0 < (eps + t1) * (eps + t2) := mul_pos (by linarith) (by linarith)
  have p2 : 0 < (1 + eps - t1) * (1 + eps - t2) := mul_pos (by linarith) (by linarith)
  have hA1 : A ≤ 0 := by
    by_contra h; rw [not_le] at h
    have := mul_pos h p1; linarith
  have hA2 : 0 ≤ A := by
    by_contra h; rw [not_le] at h
    have := mul_neg_of_neg_of_pos h p2; linarith
  have hA : A = 0 := le_antisymm hA1 hA2
  exact hne ⟨hA, by rw [hB, hA]; ring, by rw [hCc, hA]; ring⟩

/-- the corner cone of ordered corners `a b c d`, origin removed -/
def cornerCone (a b c d : Vec3 ℝ) : Set (Vec3 ℝ) :=
  {p | p ≠ (0, 0, 0) ∧ ∃ ga gb gc gd : ℝ, 0 ≤ ga ∧ 0 ≤ gb ∧ 0 ≤ gc ∧ 0 ≤ gd ∧ p = comb4 ga gb gc gd a b c d}

/-- the pan quadratic of the axis with ordered corners `a b c d` at direction `p`, evaluated at `t` -/
noncomputable def panEval (a b c d p : Vec3 ℝ) (t : ℝ) : ℝ :=
  (QuadRegion.panPoly a b c d p).1 * t ^ 2 + (QuadRegion.panPoly a b c d p).2.1 * t + (QuadRegion.panPoly a b c d p).2.2

theorem continuous_panEval (a b c d : Vec3 ℝ) : Continuous fun z : Vec3 ℝ × ℝ => panEval a b c d z.1 z.2 := by
  obtain ⟨a0, a1, a2⟩ := a
  obtain ⟨b0, b1, b2⟩ := b
  obtain ⟨c0, c1, c2⟩ := c
  obtain ⟨d0, d1, d2⟩ := d
  simp only [panEval, QuadRegion.panPoly, dot3, cross3, add3, sub3]
  fun_prop

/-- **One pan axis on the corner cone**: the pan value `quadRoot` selects is THE root in `[0, 1]` of the axis' quadratic. -/
theorem axis_unique_root (a b c d : Vec3 ℝ) (s : ℝ) (hs : s = 1 ∨ s = -1)
    (hD1 : 0 < s * det3 (a, b, c)) (hD2 : 0 < s * det3 (a, b, d)) (hD3 : 0 < s * det3 (a, c, d))
    (hD4 : 0 < s * det3 (b, c, d)) (hax : AxisSigns s a b c d) (p : Vec3 ℝ) (hp : p ∈ cornerCone a b c d) :
    ∃ x, GainCalc.quadRoot (QuadRegion.panPoly a b c d p) = some x ∧ x ∈ Icc (0 : ℝ) 1 ∧ panEval a b c d p x = 0 ∧
      ∀ t ∈ Icc (0 : ℝ) 1, panEval a b c d p t = 0 → t = x := by
  obtain ⟨hp0, ga, gb, gc, gd, ha, hb, hc, hd, rfl⟩ := hp
  have hg : ¬(ga = 0 ∧ gb = 0 ∧ gc = 0 ∧ gd = 0) := by
    rintro ⟨rfl, rfl, rfl, rfl⟩; exact hp0 (comb4_zero a b c d)
  obtain ⟨x, hx, hx0, hx1, hfx⟩ := axis_root a b c d s hs ga gb gc gd ha hb hc hd hg hD1 hD2 hD3 hD4 hax
  set p := comb4 ga gb gc gd a b c d with hp
  have hfx' : panEval a b c d p x = 0 := by unfold panEval; rw [panPoly_eval]; exact hfx
  refine ⟨x, hx, ⟨hx0, hx1⟩, hfx', ?_⟩
  simp only [panEval] at hfx' ⊢
  -- the sign conditions at −ε and 1+ε for this direction
  have hlo : s * ((QuadRegion.panPoly a b c d p).1 - (QuadRegion.panPoly a b c d p).2.1 * bigE +
      (QuadRegion.panPoly a b c d p).2.2 * bigE ^ 2) ≤ 0 := by
    rw [panPoly_lo, hp, det3_comb4]
    have := mul_nonneg ha (neg_nonneg.mpr hax.loa)
    have := mul_nonneg hb (neg_nonneg.mpr hax.lob)
    have := mul_nonneg hc (neg_nonneg.mpr hax.loc)
    have := mul_nonneg hd (neg_nonneg.mpr hax.lod)
    nlinarith
  have hhi : 0 ≤ s * ((QuadRegion.panPoly a b c d p).1 * (bigE + 1) ^ 2 + (QuadRegion.panPoly a b c d p).2.1 * (bigE + 1) * bigE +
      (QuadRegion.panPoly a b c d p).2.2 * bigE ^ 2) := by
    rw [panPoly_hi, hp, det3_comb4]
    have := mul_nonneg ha hax.hia
    have := mul_nonneg hb hax.hib
    have := mul_nonneg hc hax.hic
    have := mul_nonneg hd hax.hid
    nlinarith
  -- not the zero polynomial: its values at 0 and 1 do not both vanish
  have hC : s * (QuadRegion.panPoly a b c d p).2.2 = -(gb * (s * det3 (a, b, d)) + gc * (s * det3 (a, c, d))) := by
    rw [panPoly_zero, hp, det3_comb4, det3_self13, det3_self23, det3_swap23 a b d, det3_swap23 a c d]; ring
  have h1 : s * ((QuadRegion.panPoly a b c d p).1 + (QuadRegion.panPoly a b c d p).2.1 + (QuadRegion.panPoly a b c d p).2.2) =
      ga * (s * det3 (a, b, c)) + gd * (s * det3 (b, c, d)) := by
    rw [panPoly_one, hp, det3_comb4, det3_self13, det3_self23, det3_rot a b c]; ring
  generalize (QuadRegion.panPoly a b c d p).1 = A at *
  generalize (QuadRegion.panPoly a b c d p).2.1 = B at *
  generalize (QuadRegion.panPoly a b c d p).2.2 = C at *
  have hne3 : ¬(A = 0 ∧ B = 0 ∧ C = 0) := by
    rintro ⟨rfl, rfl, rfl⟩
    simp only [mul_zero, add_zero] at hC h1
    have t1 := mul_nonneg hb hD2.le
    have t2 := mul_nonneg hc hD3.le
    have t3 := mul_nonneg ha hD1.le
    have t4 := mul_nonneg hd hD4.le
    have hb0 : gb = 0 := (mul_eq_zero.mp (by linarith : gb * (s * det3 (a, b, d)) = 0)).resolve_right hD2.ne'
    have hc0 : gc = 0 := (mul_eq_zero.mp (by linarith : gc * (s * det3 (a, c, d)) = 0)).resolve_right hD3.ne'
    have ha0 : ga = 0 := (mul_eq_zero.mp (by linarith : ga * (s * det3 (a, b, c)) = 0)).resolve_right hD1.ne'
    have hd0 : gd = 0 := (mul_eq_zero.mp (by linarith : gd * (s * det3 (b, c, d)) = 0)).resolve_right hD4.ne'
    exact hg ⟨ha0, hb0, hc0, hd0⟩
  have hE := bigE_pos
  have hE2 : 0 < bigE ^ 2 := by positivity
  have e1 : ∀ A B C : ℝ, A * eps ^ 2 - B * eps + C = (A - B * bigE + C * bigE ^ 2) / bigE ^ 2 := by
    intro A B C; rw [eps_bigE]; field_simp
  have e2 : ∀ A B C : ℝ, A * (1 + eps) ^ 2 + B * (1 + eps) + C =
      (A * (bigE + 1) ^ 2 + B * (bigE + 1) * bigE + C * bigE ^ 2) / bigE ^ 2 := by
    intro A B C; rw [eps_bigE]; field_simp
  have hsne : s ≠ 0 := by rcases hs with rfl | rfl <;> norm_num
  intro t ht hft
  rcases hs with rfl | rfl
  · simp only [one_mul] at hlo hhi
    exact unit_root_unique A B C (by rw [e1]; exact div_nonpos_of_nonpos_of_nonneg hlo hE2.le)
      (by rw [e2]; exact div_nonneg hhi hE2.le) hne3 t x ht.1 ht.2 hx0 hx1 hft hfx'
  · have hlo' : (-A) - (-B) * bigE + (-C) * bigE ^ 2 ≤ 0 := by linarith
    have hhi' : 0 ≤ (-A) * (bigE + 1) ^ 2 + (-B) * (bigE + 1) * bigE + (-C) * bigE ^ 2 := by linarith
    exact unit_root_unique (-A) (-B) (-C) (by rw [e1]; exact div_nonpos_of_nonpos_of_nonneg hlo' hE2.le)
      (by rw [e2]; exact div_nonneg hhi' hE2.le)
      (by rintro ⟨h1', h2', h3'⟩; exact hne3 ⟨by linarith, by linarith, by linarith⟩)
      t x ht.1 ht.2 hx0 hx1 (by linarith) (by linarith)

/-- the pan value of one axis (ordered corners `a b c d`) as a function of the direction; 0 if `quadRoot` finds none -/
noncomputable def panValue (a b c d p : Vec3 ℝ) : ℝ := (GainCalc.quadRoot (QuadRegion.panPoly a b c d p)).getD 0

/-- **One pan axis is continuous on the corner cone** under the sign certificate of that axis. -/
theorem panValue_continuousOn (a b c d : Vec3 ℝ) (s : ℝ) (hs : s = 1 ∨ s = -1)
    (hD1 : 0 < s * det3 (a, b, c)) (hD2 : 0 < s * det3 (a, b, d)) (hD3 : 0 < s * det3 (a, c, d))
    (hD4 : 0 < s * det3 (b, c, d)) (hax : AxisSigns s a b c d) :
    ContinuousOn (panValue a b c d) (cornerCone a b c d) ∧
      ∀ p ∈ cornerCone a b c d, GainCalc.quadRoot (QuadRegion.panPoly a b c d p) = some (panValue a b c d p) ∧
        panValue a b c d p ∈ Icc (0 : ℝ) 1 := by
  have key : ∀ p ∈ cornerCone a b c d, GainCalc.quadRoot (QuadRegion.panPoly a b c d p) = some (panValue a b c d p) ∧
      panValue a b c d p ∈ Icc (0 : ℝ) 1 ∧ panEval a b c d p (panValue a b c d p) = 0 ∧
      ∀ t ∈ Icc (0 : ℝ) 1, panEval a b c d p t = 0 → t = panValue a b c d p := by
    intro p hp
    obtain ⟨x, hx, hxI, hfx, hu⟩ := axis_unique_root a b c d s hs hD1 hD2 hD3 hD4 hax p hp
    have : panValue a b c d p = x := by simp [panValue, hx]
    rw [this]
    exact ⟨hx, hxI, hfx, hu⟩
  refine ⟨?_, fun p hp => ⟨(key p hp).1, (key p hp).2.1⟩⟩
  exact continuousOn_of_unique_zero _ (panEval a b c d) (continuous_panEval a b c d) _
    (fun p hp => ⟨(key p hp).2.1, (key p hp).2.2.1⟩) (fun p hp => (key p hp).2.2.2)

theorem cornerCone_rot (a b c d : Vec3 ℝ) : cornerCone b c d a = cornerCone a b c d := by
  ext p
  simp only [cornerCone, mem_ofPred_eq]
  constructor
  · rintro ⟨hp, gb, gc, gd, ga, hb, hc, hd, ha, rfl⟩
    exact ⟨hp, ga, gb, gc, gd, ha, hb, hc, hd, comb4_rot ga gb gc gd a b c d⟩
  · rintro ⟨hp, ga, gb, gc, gd, ha, hb, hc, hd, rfl⟩
    exact ⟨hp, gb, gc, gd, ga, hb, hc, hd, ha, (comb4_rot ga gb gc gd a b c d).symm⟩

/-- the normalised bilinear gain number `k` (in corner order) for pan values `x`, `y` -/
noncomputable def bilGain (k : Nat) (x y : ℝ) : ℝ :=
  (QuadRegion.weights x y).getD k 0 / Real.sqrt (sumsq (QuadRegion.weights x y))

theorem sumsq_weights_pos (x y : ℝ) (hx : x ∈ Icc (0 : ℝ) 1) (hy : y ∈ Icc (0 : ℝ) 1) :
    0 < sumsq (QuadRegion.weights x y) := by
  obtain ⟨hx0, hx1⟩ := hx
  obtain ⟨hy0, hy1⟩ := hy
  simp only [QuadRegion.weights, sumsq, one_real, zero_real, add_zero]
  -- the four weights are non-negative and add up to 1
  have h1 : 0 ≤ (1 - x) * (1 - y) := mul_nonneg (by linarith) (by linarith)
  have h2 : 0 ≤ x * (1 - y) := mul_nonneg hx0 (by linarith)
  have h3 : 0 ≤ x * y := mul_nonneg hx0 hy0
  have h4 : 0 ≤ (1 - x) * y := mul_nonneg (by linarith) hy0
  have hsum : (1 - x) * (1 - y) + x * (1 - y) + x * y + (1 - x) * y = 1 := by ring
  nlinarith [mul_self_nonneg ((1 - x) * (1 - y)), mul_self_nonneg (x * (1 - y)), mul_self_nonneg (x * y),
    mul_self_nonneg ((1 - x) * y), mul_self_nonneg ((1 - x) * (1 - y) + x * (1 - y) + x * y + (1 - x) * y)]

/-- **THE BILINEAR QUAD ON THE CONE OF ITS CORNERS** (ordered corners `a b c d` with the sign certificate `QuadSigns`,
    closed-form root selection `GainCalc.quadRoot`): both pan values are found, lie in `[0, 1]` and are continuous functions
    of the direction, hence so are the four normalised bilinear gains; and the handler's final sign test passes.
    PARTIAL: the quad's acceptance set under the code's tolerances (roots in `(−1e-10, 1+1e-10)`, strict sign test) is
    larger than the corner cone and not closed, so this is continuity on the cone only — enough to know that the quad has no
    jump INSIDE its own cell; the pasting with its neighbours is not proved. -/
theorem quad_cone_continuousOn_partial (a b c d : Vec3 ℝ) (hsig : QuadSigns a b c d) :
    ContinuousOn (panValue a b c d) (cornerCone a b c d) ∧ ContinuousOn (panValue b c d a) (cornerCone a b c d) ∧
    (∀ k, ContinuousOn (fun p => bilGain k (panValue a b c d p) (panValue b c d a p)) (cornerCone a b c d)) ∧
    (∀ p ∈ cornerCone a b c d,
      GainCalc.quadRoot (QuadRegion.panPoly a b c d p) = some (panValue a b c d p) ∧
      GainCalc.quadRoot (QuadRegion.panPoly b c d a p) = some (panValue b c d a p) ∧
      panValue a b c d p ∈ Icc (0 : ℝ) 1 ∧ panValue b c d a p ∈ Icc (0 : ℝ) 1) := by
  obtain ⟨s, s', hs, hD1, hD2, hD3, hD4, _, _, _, _, hax, hay⟩ := hsig
  obtain ⟨cx, kx⟩ := panValue_continuousOn a b c d s hs hD1 hD2 hD3 hD4 hax
  obtain ⟨cy, ky⟩ := panValue_continuousOn b c d a s hs hD4 (by rw [det3_rot a b c]; exact hD1)
    (by rw [det3_rot a b d]; exact hD2) (by rw [det3_rot a c d]; exact hD3) hay
  rw [cornerCone_rot] at cy ky
  refine ⟨cx, cy, ?_, fun p hp => ⟨(kx p hp).1, (ky p hp).1, (kx p hp).2, (ky p hp).2⟩⟩
  intro k
  unfold bilGain
  have hw : ∀ j, ContinuousOn (fun p => (QuadRegion.weights (panValue a b c d p) (panValue b c d a p)).getD j 0)
      (cornerCone a b c d) := by
    intro j
    simp only [QuadRegion.weights, one_real]
    have c1 : ContinuousOn (fun p => 1 - panValue a b c d p) (cornerCone a b c d) := continuousOn_const.sub cx
    have c2 : ContinuousOn (fun p => 1 - panValue b c d a p) (cornerCone a b c d) := continuousOn_const.sub cy
    match j with
    | 0 => simp only [List.getD_cons_zero]; exact c1.mul c2
    | 1 => simp only [List.getD_cons_succ, List.getD_cons_zero]; exact cx.mul c2
    | 2 => simp only [List.getD_cons_succ, List.getD_cons_zero]; exact cx.mul cy
    | 3 => simp only [List.getD_cons_succ, List.getD_cons_zero]; exact c1.mul cy
    | n + 4 => simp only [List.getD_cons_succ, List.getD_nil]; exact continuousOn_const
  have hss : ContinuousOn (fun p => sumsq (QuadRegion.weights (panValue a b c d p) (panValue b c d a p)))
      (cornerCone a b c d) :=
    continuousOn_sumsq _ 4 _ (fun p => by simp [QuadRegion.weights]) hw
  refine (hw k).div (Real.continuous_sqrt.comp_continuousOn hss) ?_
  intro p hp
  exact (Real.sqrt_pos.mpr (sumsq_weights_pos _ _ (kx p hp).2 (ky p hp).2)).ne'

theorem posCone_subset {o : List Nat} (ho : isPermOfRange o 4 = true) (q0 q1 q2 q3 : Vec3 ℝ) :
    cornerCone q0 q1 q2 q3 ⊆ cornerCone ([q0, q1, q2, q3].getD (o.getD 0 0) zero3) ([q0, q1, q2, q3].getD (o.getD 1 0) zero3)
      ([q0, q1, q2, q3].getD (o.getD 2 0) zero3) ([q0, q1, q2, q3].getD (o.getD 3 0) zero3) := by
  rintro p ⟨hp, g0, g1, g2, g3, h0, h1, h2, h3, rfl⟩
  exact ⟨hp, _, _, _, _, getD_nonneg g0 g1 g2 g3 h0 h1 h2 h3 _, getD_nonneg g0 g1 g2 g3 h0 h1 h2 h3 _,
    getD_nonneg g0 g1 g2 g3 h0 h1 h2 h3 _, getD_nonneg g0 g1 g2 g3 h0 h1 h2 h3 _, cone_reorder ho q0 q1 q2 q3 g0 g1 g2 g3⟩

/-- **`QuadRegion.handle` WITH `quadRoot` IS CONTINUOUS ON THE CONE OF ITS CORNERS** (PARTIAL, see
    `quad_cone_continuousOn_partial`): positions `q0 q1 q2 q3`, vertex order `o` a permutation, ordered corners with the
    sign certificate.  On the cone of non-negative combinations of the four positions (origin removed) the handler returns
    a result, and every output coordinate is a continuous function of the direction. -/
theorem quad_handle_continuousOn_cone_partial (q0 q1 q2 q3 : Vec3 ℝ) (o : List Nat) (ho : isPermOfRange o 4 = true)
    (hsig : QuadSigns ([q0, q1, q2, q3].getD (o.getD 0 0) zero3) ([q0, q1, q2, q3].getD (o.getD 1 0) zero3)
      ([q0, q1, q2, q3].getD (o.getD 2 0) zero3) ([q0, q1, q2, q3].getD (o.getD 3 0) zero3)) (j : Nat) :
    let q : QuadRegion ℝ := ⟨[q0, q1, q2, q3], o⟩
    (∀ p ∈ cornerCone q0 q1 q2 q3, q.handle (GainCalc.quadRoot (q.polys p).1) (GainCalc.quadRoot (q.polys p).2) p ≠ none) ∧
    ContinuousOn (fun p => ((q.handle (GainCalc.quadRoot (q.polys p).1) (GainCalc.quadRoot (q.polys p).2) p).map
      (·.getD j 0)).getD 0) (cornerCone q0 q1 q2 q3) := by
  intro q
  set a := [q0, q1, q2, q3].getD (o.getD 0 0) zero3 with ha
  set b := [q0, q1, q2, q3].getD (o.getD 1 0) zero3 with hb
  set c := [q0, q1, q2, q3].getD (o.getD 2 0) zero3 with hc
  set d := [q0, q1, q2, q3].getD (o.getD 3 0) zero3 with hd
  obtain ⟨cx, cy, cg, hroots⟩ := quad_cone_continuousOn_partial a b c d hsig
  have hsub := posCone_subset ho q0 q1 q2 q3
  have hacc : ∀ p ∈ cornerCone q0 q1 q2 q3,
      q.handle (GainCalc.quadRoot (q.polys p).1) (GainCalc.quadRoot (q.polys p).2) p ≠ none := by
    rintro p ⟨hp, g0, g1, g2, g3, h0, h1, h2, h3, hpe⟩
    exact quad_accepts q0 q1 q2 q3 o ho hsig g0 g1 g2 g3 p h0 h1 h2 h3 hp hpe
  refine ⟨hacc, ?_⟩
  have hnd : o.Nodup := by
    simp only [isPermOfRange, Bool.and_eq_true] at ho
    exact Faces.allDistinct_nodup ho.2
  have hlen : o.length = 4 := by
    simp only [isPermOfRange, Bool.and_eq_true, beq_iff_eq] at ho
    exact ho.1.1
  have hval : ∀ p ∈ cornerCone q0 q1 q2 q3,
      ((q.handle (GainCalc.quadRoot (q.polys p).1) (GainCalc.quadRoot (q.polys p).2) p).map (·.getD j 0)).getD 0 =
        if j ∈ o ∧ j < 4 then bilGain (o.idxOf j) (panValue a b c d p) (panValue b c d a p) else 0 := by
    intro p hp
    obtain ⟨rx, ry, _, _⟩ := hroots p (hsub hp)
    have hpx : (q.polys p).1 = QuadRegion.panPoly a b c d p := rfl
    have hpy : (q.polys p).2 = QuadRegion.panPoly b c d a p := rfl
    have hne := hacc p hp
    rw [hpx, hpy, rx, ry] at hne ⊢
    obtain ⟨out, hout⟩ := Option.ne_none_iff_exists'.mp hne
    rw [hout, quad_out_eq q p _ _ out ho hout]
    simp only [Option.map_some, Option.getD_some]
    rw [scatter_zeros_getD 4 o _ hnd (by simp [QuadRegion.weights, hlen]) j]
    by_cases hj : j ∈ o ∧ j < 4
    · simp only [hj, and_self, if_true, bilGain]
      simp only [List.getD_eq_getElem?_getD, List.getElem?_map]
      cases (QuadRegion.weights (panValue a b c d p) (panValue b c d a p))[o.idxOf j]? with
      | none => simp
      | some v => simp
    · simp only [hj, if_false]
  refine ContinuousOn.congr ?_ hval
  by_cases hj : j ∈ o ∧ j < 4
  · simp only [hj, and_self, if_true]
    exact (cg (o.idxOf j)).mono hsub
  · simp only [hj, if_false]
    exact continuousOn_const

/-- **EVERY QUADREGION OF THE TEN NOMINAL LAYOUTS, with the closed-form root selection, is continuous on the cone of its
    corners** (instance of `quad_handle_continuousOn_cone_partial`; the sign certificate is `quad_tables_ok`). -/
theorem tables_quad_continuousOn_cone_partial (l : RawLayout) (hl : l ∈ Earverif.Gen.C05.layouts) (r : RawRegion)
    (hr : r ∈ l.regions) (hk : r.kind = 2) (q0 q1 q2 q3 : P3) (hpos : r.pos = [q0, q1, q2, q3]) (j : Nat) :
    let q : QuadRegion ℝ := ⟨r.pos.map p3, r.order⟩
    ContinuousOn (fun p => ((q.handle (GainCalc.quadRoot (q.polys p).1) (GainCalc.quadRoot (q.polys p).2) p).map
      (·.getD j 0)).getD 0) (cornerCone (p3 q0) (p3 q1) (p3 q2) (p3 q3)) := by
  have h := quad_tables_ok
  unfold quadTablesOk at h
  rw [List.all_eq_true] at h
  have h2 := h l hl
  rw [List.all_eq_true] at h2
  obtain ⟨hperm, hsig⟩ := quadRegionOk_sound _ r hk (h2 r hr) q0 q1 q2 q3 hpos
  have := (quad_handle_continuousOn_cone_partial (p3 q0) (p3 q1) (p3 q2) (p3 q3) r.order hperm hsig j).2
  simpa [hpos] using this

/-- non-vacuity of `continuousOn_of_unique_zero`: `F p t = t − p` on `K = [0, 1]`, selected zero `x p = p` -/
example : (Continuous fun z : ℝ × ℝ => z.2 - z.1) ∧ (∀ p ∈ Icc (0 : ℝ) 1, p ∈ Icc (0 : ℝ) 1 ∧ p - p = 0) ∧
    (∀ p ∈ Icc (0 : ℝ) 1, ∀ t ∈ Icc (0 : ℝ) 1, t - p = 0 → t = p) :=
  ⟨by fun_prop, fun p hp => ⟨hp, sub_self p⟩, fun p _ t _ h => by linarith⟩

/-- non-vacuity of `unit_root_unique`: `f(t) = t − 1/2` -/
example : (0 : ℝ) * eps ^ 2 - 1 * eps + (-1 / 2) ≤ 0 ∧ (0 : ℝ) ≤ 0 * (1 + eps) ^ 2 + 1 * (1 + eps) + (-1 / 2) ∧
    ¬((0 : ℝ) = 0 ∧ (1 : ℝ) = 0 ∧ (-1 / 2 : ℝ) = 0) := by
  have := eps_pos
  refine ⟨by nlinarith, by nlinarith, by norm_num⟩

/-- the hypotheses of `quad_handle_continuousOn_cone_partial` are met by every QuadRegion of the ten regenerated tables
    (`quad_tables_ok`), and each of its four corners is a direction of the cone -/
example (l : RawLayout) (hl : l ∈ Earverif.Gen.C05.layouts) (r : RawRegion) (hr : r ∈ l.regions) (hk : r.kind = 2)
    (q0 q1 q2 q3 : P3) (hpos : r.pos = [q0, q1, q2, q3]) :
    isPermOfRange r.order 4 = true ∧
    QuadSigns ([(p3 q0 : Vec3 ℝ), p3 q1, p3 q2, p3 q3].getD (r.order.getD 0 0) zero3)
      ([(p3 q0 : Vec3 ℝ), p3 q1, p3 q2, p3 q3].getD (r.order.getD 1 0) zero3)
      ([(p3 q0 : Vec3 ℝ), p3 q1, p3 q2, p3 q3].getD (r.order.getD 2 0) zero3)
      ([(p3 q0 : Vec3 ℝ), p3 q1, p3 q2, p3 q3].getD (r.order.getD 3 0) zero3) ∧
    ((p3 q0 : Vec3 ℝ) ≠ (0, 0, 0) → (p3 q0 : Vec3 ℝ) ∈ cornerCone (p3 q0) (p3 q1) (p3 q2) (p3 q3)) := by
  have h := quad_tables_ok
  unfold quadTablesOk at h
  rw [List.all_eq_true] at h
  have h2 := h l hl
  rw [List.all_eq_true] at h2
  obtain ⟨hperm, hsig⟩ := quadRegionOk_sound _ r hk (h2 r hr) q0 q1 q2 q3 hpos
  refine ⟨hperm, hsig, fun hne => ⟨hne, 1, 0, 0, 0, by norm_num, le_refl _, le_refl _, le_refl _, ?_⟩⟩
  obtain ⟨x, y, z⟩ := (p3 q0 : Vec3 ℝ)
  simp [comb4, add3, smul3]

end QuadCone

/-! ### non-vacuity of the hypotheses of the new theorems -/

/-- for Triplet regions the outer-face relation is the shared-face relation -/
theorem outer_of_meet_triplets (X Y : TRegion) (h : MeetInSharedFace X Y) :
    MeetInOuterFace (Region.triplet X.1 X.2) X (Region.triplet Y.1 Y.2) Y := by
  intro p hp ha ha'
  obtain ⟨i, j, i', j', s, t, hij, hij', hs, ht, hpe, hri, hci, hj⟩ := h p hp ha ha'
  refine ⟨i, j, i', j', s, t, chanAt X.1 i, chanAt X.1 j, chanAt Y.1 j', hij, hij', hs, ht, hpe, hri, rfl, ?_, rfl, rfl, ?_⟩
  · simp only [Region.gchan, hci]
  · rcases hj with h0 | ⟨hrj, hcj⟩
    · exact Or.inl h0
    · exact Or.inr ⟨hrj, hcj⟩

/-- a two-region panner (the standard basis triplet and its mirror image, channels 0 1 2 / 0 1 3) satisfying every
    hypothesis of `panner_continuousOn_tri_ngon_partial`; for VirtualNgon regions the hypotheses are met by every n-gon of
    the ten regenerated tables (`Faces.ngon_table`, used by `tables_ngon_continuousOn`) -/
example : let regions : List (Region ℝ) := [Region.triplet [0, 1, 2] exP, Region.triplet [0, 1, 3] exQ]
    (∀ R ∈ regions, R.tnOk) ∧
      (∀ R ∈ regions, ∀ R' ∈ regions, R ≠ R' → ∀ X ∈ R.tcells, ∀ Y ∈ R'.tcells, MeetInOuterFace R X R' Y) := by
  intro regions
  refine ⟨?_, ?_⟩
  · intro R hR
    simp only [regions, List.mem_cons, List.mem_nil_iff, or_false] at hR
    rcases hR with rfl | rfl
    · exact ⟨by norm_num [det3, exP], 0, 1, 2, rfl, by decide, by decide, by decide⟩
    · exact ⟨by norm_num [det3, exQ], 0, 1, 3, rfl, by decide, by decide, by decide⟩
  · intro R hR R' hR' hne X hX Y hY
    simp only [regions, List.mem_cons, List.mem_nil_iff, or_false] at hR hR'
    rcases hR with rfl | rfl <;> rcases hR' with rfl | rfl
    · exact absurd rfl hne
    · simp only [Region.tcells, List.mem_singleton] at hX hY
      subst hX hY
      exact outer_of_meet_triplets _ _ ex_meet.1
    · simp only [Region.tcells, List.mem_singleton] at hX hY
      subst hX hY
      exact outer_of_meet_triplets _ _ ex_meet.2
    · exact absurd rfl hne

/-- the data of the quantitative bound for the standard basis triplet and its mirror image: plane `z = 0`, the third rows
    are `far`, `κ = 2`, `α = 1` (on the regenerated tables the data come from the certificate: `tables_triplet_pair`) -/
example : PairData ([0, 1, 2], exP) ([0, 1, 3], exQ) 1 2 := by
  refine ⟨by norm_num [det3, exP], by norm_num [det3, exQ], (0, 0, 1), id, fun j => j = 2, fun _ _ h => h, ?_, ?_, ?_, ?_, ?_, ?_⟩
  · intro j hj
    fin_cases j
    · exact ⟨rfl, rfl⟩
    · exact ⟨rfl, rfl⟩
    · exact absurd rfl hj
  · intro i; fin_cases i <;> norm_num [row, exP, dot3]
  · intro j; fin_cases j <;> norm_num [row, exQ, dot3]
  · intro j hj; subst hj; norm_num [row, exQ, dot3]
  · intro j hj; subst hj
    simp only [Fin.sum_univ_three]
    norm_num [row, exP, exQ, dot3]
  · intro j hj i; subst hj
    rw [pv_exP]
    fin_cases i <;> norm_num [row, exQ, coord]

/-- every n-gon of the nominal tables: the virtual centre is a direction of its acceptance set -/
example (l : RawLayout) (hl : l ∈ Earverif.Gen.C05.layouts) (r : RawRegion) (hr : r ∈ l.regions) (k1 : r.kind = 1)
    (X : TRegion) (hX : X ∈ (Faces.ngonOf r).regions) : X.2.2.2 ∈ TRegion.cone X := by
  obtain ⟨cert, _, hs⟩ := faces_spec_of_tables l hl
  obtain ⟨k, hk⟩ := List.mem_iff_getElem?.mp hr
  obtain ⟨_, h2, _, _, _, _, _⟩ := Faces.ngon_table hs hk k1
  have hd := h2 X hX
  have e0 := pv_row X.2 hd 2 0
  have e1 := pv_row X.2 hd 2 1
  have e2 := pv_row X.2 hd 2 2
  simp only [row, coord] at e0 e1 e2
  refine ⟨⟨by rw [e0]; simp, by rw [e1]; simp, by rw [e2]; simp⟩, ?_⟩
  intro h0
  apply hd
  obtain ⟨ch, a, b, c⟩ := X
  simp only at h0
  subst h0
  simp [det3]

/-! ### non-vacuity -/

example : cross3 ((1 : ℝ), 0, 0) (0, 1, 0) ≠ (0, 0, 0) := by norm_num [cross3]
example : ((1 : ℝ), 1, 0) ∈ {p | Triplet.pv (((1 : ℝ), 0, 0), (0, 1, 0), (0, 0, 1)) p ≠ (0, 0, 0)} := by
  simp [Triplet.pv, vecMat, inv3, det3]
example : ((1 : ℝ), 0, 0, 0, 0) ∈ stereoDomain := by simp [stereoDomain]

/-- PARTIAL (see the header): piecewise continuity + agreement on shared edges + pasting along the first-accept loop
    (all-triplet panner at slack 0) + the sliver bound for the code's slack. -/
theorem C12_partial :
    (type_of% @edge_unique) ∧ (type_of% @edge_exists) ∧ (type_of% @triplet_on_edge) ∧ (type_of% @edge_agreement) ∧
    (type_of% @triplet_continuousOn) ∧ (type_of% @triplet_handle_continuousOn) ∧ (type_of% @stereo_continuousOn) ∧
    (type_of% @downmix_continuousOn) ∧ (type_of% @quad_on_edge) ∧ (type_of% @quad_edge_agreement) ∧
    (type_of% @quad_edge_agreement') ∧ (type_of% @ngon_candidate_on_edge) ∧ (type_of% @ngon_on_edge) ∧
    (type_of% @firstAccept_eq_of_agree) ∧ (type_of% @firstAccept_continuousOn) ∧ (type_of% @firstAccept_jump_bound) ∧
    (type_of% @panner_continuousOn_of_regions) ∧ (type_of% @triplet_accept_isClosed) ∧
    (type_of% @triplet_accept_isClosed_code) ∧ (type_of% @ngon_accept_isClosed) ∧
    (type_of% @quad_accept_isOpen_of_roots) ∧ (type_of% @tripletPannerE_eps) ∧ (type_of% @shared_face_agreement) ∧
    (type_of% @panner_continuousOn_triplets_partial) ∧ (type_of% @triplet_sliver_bound_general) ∧
    (type_of% @triplet_sliver_bound) ∧ (type_of% @panner_jump_bound_of_regions) ∧
    (type_of% @two_triplet_panner_jump_bound) ∧ (type_of% @ngon_handleE_eps) ∧ (type_of% @ngon_handle_continuousOn) ∧
    (type_of% @pannerTNE_eps) ∧ (type_of% @panner_continuousOn_tri_ngon_partial) ∧ (type_of% @pair_gain_bound) ∧
    (type_of% @pair_out_bound) ∧ (type_of% @panner_jump_bound_triplets) ∧ (type_of% @faces_tables_ok) ∧
    (type_of% @tables_triplet_pairs_meet_in_faces) ∧ (type_of% @tables_triplet_panner_continuousOn) ∧
    (type_of% @tables_triplet_panner_jump_bound) ∧ (type_of% @tables_ngon_continuousOn) ∧
    (type_of% @tables_tri_ngon_continuousOn) ∧
    (type_of% @quad_cone_continuousOn_partial) ∧ (type_of% @quad_handle_continuousOn_cone_partial) ∧
    (type_of% @tables_quad_continuousOn_cone_partial) :=
  ⟨@edge_unique, @edge_exists, @triplet_on_edge, @edge_agreement, @triplet_continuousOn,
    @triplet_handle_continuousOn, @stereo_continuousOn, @downmix_continuousOn, @quad_on_edge, @quad_edge_agreement,
    @quad_edge_agreement', @ngon_candidate_on_edge, @ngon_on_edge, @firstAccept_eq_of_agree,
    @firstAccept_continuousOn, @firstAccept_jump_bound, @panner_continuousOn_of_regions, @triplet_accept_isClosed,
    @triplet_accept_isClosed_code, @ngon_accept_isClosed, @quad_accept_isOpen_of_roots, @tripletPannerE_eps,
    @shared_face_agreement, @panner_continuousOn_triplets_partial, @triplet_sliver_bound_general,
    @triplet_sliver_bound, @panner_jump_bound_of_regions, @two_triplet_panner_jump_bound, @ngon_handleE_eps,
    @ngon_handle_continuousOn, @pannerTNE_eps, @panner_continuousOn_tri_ngon_partial, @pair_gain_bound, @pair_out_bound,
    @panner_jump_bound_triplets, @faces_tables_ok, @tables_triplet_pairs_meet_in_faces,
    @tables_triplet_panner_continuousOn, @tables_triplet_panner_jump_bound, @tables_ngon_continuousOn,
    @tables_tri_ngon_continuousOn,
    @quad_cone_continuousOn_partial, @quad_handle_continuousOn_cone_partial, @tables_quad_continuousOn_cone_partial⟩

end Earverif.PointSource
