/- C14, part 3: the allocation problem handed to C07's allocator model (`Earverif.PackAlloc`), what its decision
   means for item selection, and the per-state selection lemmas. -/
import Earverif.Proofs.C14Matrix
import Earverif.Props.C07
import Earverif.Proofs.C14Empty
namespace Earverif.Validate
open Earverif.AdmV

theorem processState_tracksOk {d : Doc} (hw : d.wellScoped = true) (hs : StructOk d) (st : State)
    (hv : forE (selectedOf d st).2.1 (validateSelectedTrack d) = .ok ()) :
    ∀ t ∈ (selectedOf d st).2.1, TrackOk d t := fun t ht =>
  validateSelectedTrack_ok (forE_ok hv t ht) (trackRefsOk_of_valid hw hs (selectedOf_tracks_lt hw st t ht))

/-- every allocation pack of the problem is one of `_PackAllocator.packs`, identified by its position -/
theorem allocProblem_pack_mem {d : Doc} {pats : List Pattern} {packs : Option (List Nat)} {tracks : List Nat}
    {cfs : List (Option Nat)} {n : Nat} {p : PackAlloc.Pack}
    (h : p ∈ (allocProblem d pats packs tracks cfs n).packs) :
    pats.getD p.id default ∈ pats ∧ p.root = (pats.getD p.id default).root ∧
      p.channels = (pats.getD p.id default).allocChannels := by
  simp only [allocProblem, List.mem_map] at h
  obtain ⟨⟨pat, k⟩, hmem, rfl⟩ := h
  have hk := List.mem_zipIdx_iff_getElem?.mp hmem
  simp only at hk ⊢
  have hget : pats.getD k default = pat := by rw [List.getD_eq_getElem?_getD, hk]; rfl
  rw [hget]
  exact ⟨List.mem_iff_getElem?.mpr ⟨k, hk⟩, rfl, rfl⟩

/-- `select_pack_mapping` + `_get_rendering_items` for one state raise only `AdmError`; the allocator is C07's
model, of which only soundness is used (an accepted solution consists of packs of the problem) -/
theorem processState_noInt {d : Doc} {pats : List Pattern} (hw : d.wellScoped = true)
    (hs : StructOk d) (hpats : ∀ pat ∈ pats, PatOk d pat) (hu : uniquePaths d = true) (st : State)
    (hx : NoInt (avsSelected d st)) (hop : ∀ p, st.objects = some p → p ≠ []) : NoInt (processState d pats st) := by
  have hlt := selectedOf_tracks_lt hw st
  have hok := processState_tracksOk hw hs st
  unfold processState
  rcases hsel : selectedOf d st with ⟨packs, tracks, n⟩
  rw [hsel] at hlt hok
  simp only at hlt hok ⊢
  have hrefs : ∀ t ∈ tracks, TrackRefsOk d t := fun t ht => trackRefsOk_of_valid hw hs (hlt t ht)
  intro k hk
  split at hk
  · rename_i e he; injection hk with hk; subst hk
    exact forE_noInt (fun t ht => validateSelectedTrack_noInt (hrefs t ht)) k he
  · rename_i hv
    have hto := hok hv
    split at hk
    · rename_i e he; injection hk with hk; subst hk
      exact mapE_noInt (fun t ht => channelForTrack_noInt (hrefs t ht)) k he
    · rename_i cfs hcfs
      split at hk
      · exact raiseError_noInt hto k hk
      · exact raiseError_noInt hto k hk
      · rename_i sol hacc
        have hvalid := PackAlloc.select_accepted_valid _ sol hacc
        split at hk
        · rename_i e he; injection hk with hk; subst hk
          exact mapE_noInt (fun t ht => trackSpec_noInt (hto t ht)) k he
        · refine sumE_noInt (l := sol) ?_ 0 k hk
          intro _ a ha
          exact renderingItems_noInt hx hop hw hs hu (hpats _ (allocProblem_pack_mem (hvalid.packs_mem a ha)).1)

/-! ### the diagnostics return normally, so `raise_error` raises exactly the error asked for -/

/-- the computation ends normally or in a non-ADM exception (it contains no `raise AdmError`) -/
def OkOrInternal {α : Type} (x : R α) : Prop := ∀ e, x = .error e → ∃ k, e = .internal k

theorem ok_of_noInt_shape {α : Type} {x : R α} (h1 : NoInt x) (h2 : OkOrInternal x) : ∃ a, x = .ok a := by
  cases hx : x with
  | ok a => exact ⟨a, rfl⟩
  | error e => obtain ⟨k, rfl⟩ := h2 e hx; exact absurd hx (h1 k)

theorem mapE_shape {α β : Type} {l : List α} {f : α → R β} (h : ∀ x ∈ l, OkOrInternal (f x)) :
    OkOrInternal (mapE l f) := by
  induction l with
  | nil => intro e he; cases he
  | cons a t ih =>
    intro e he
    unfold mapE at he
    have ha := h a (by simp)
    have ih' := ih (fun x hx => h x (by simp [hx]))
    cases hfa : f a with
    | error e' => rw [hfa] at he; simp only at he; injection he with he; subst he; exact ha _ hfa
    | ok y =>
      rw [hfa] at he; simp only at he
      cases hm : mapE t f with
      | error e' => rw [hm] at he; simp only at he; injection he with he; subst he; exact ih' _ hm
      | ok ys => rw [hm] at he; cases he

theorem possibleTrackErrors_shape (d : Doc) (t : Nat) : OkOrInternal (possibleTrackErrors d t) := by
  intro e he
  unfold possibleTrackErrors at he
  dsimp only at he
  split at he
  · injection he with he; subst he; exact ⟨_, rfl⟩
  · split at he
    · rename_i e' hin
      injection he with he; subst he
      split at hin
      · split at hin
        · injection hin with hin; subst hin; exact ⟨_, rfl⟩
        · cases hin
      · cases hin
    · split at he
      · cases he
      · split at he
        · injection he with he; subst he; exact ⟨_, rfl⟩
        · cases he

theorem possibleTrackPackErrors_shape (d : Doc) (packs tracks : List Nat) :
    OkOrInternal (possibleTrackPackErrors d packs tracks) := by
  intro e he
  unfold possibleTrackPackErrors at he
  dsimp only at he
  split at he
  · cases he
  · rename_i e' he'
    injection he with he; subst he
    refine mapE_shape (l := tracks) ?_ _ he'
    intro t _ e'' he''
    split at he''
    · injection he'' with he''; subst he''; exact ⟨_, rfl⟩
    · split at he'' <;> cases he''

theorem possibleReferenceErrors_shape (d : Doc) (packs : Option (List Nat)) (tracks : List Nat) (n : Nat) :
    OkOrInternal (possibleReferenceErrors d packs tracks n) := by
  intro e he
  unfold possibleReferenceErrors at he
  dsimp only at he
  have hm : OkOrInternal (mapE tracks (possibleTrackErrors d)) :=
    mapE_shape (fun t _ => possibleTrackErrors_shape d t)
  cases packs with
  | none =>
    simp only at he
    split at he
    · cases he
    · rename_i e' he'; injection he with he; subst he; exact hm _ he'
  | some ps =>
    simp only at he
    cases hq : possibleTrackPackErrors d ps tracks with
    | error e' =>
      rw [hq] at he; simp only at he
      injection he with he; subst he; exact possibleTrackPackErrors_shape d ps tracks _ hq
    | ok l =>
      rw [hq] at he; simp only at he
      split at he
      · cases he
      · rename_i e' he'; injection he with he; subst he; exact hm _ he'

/-- `_PackAllocator.raise_error` on validated tracks raises exactly `AdmFormatRefError(<error_type> ...)`, with the
context and the reasons `possible_reference_errors` returned -/
theorem raiseError_eq {d : Doc} {ctx : Acc} {packs : Option (List Nat)} {tracks : List Nat} {n : Nat} (a : AdmKind)
    (h : ∀ t ∈ tracks, TrackOk d t) :
    ∃ reasons, possibleReferenceErrors d packs tracks n = .ok reasons ∧
      raiseError d ctx packs tracks n a = .error (.adm a (ctx :: reasons)) := by
  obtain ⟨l, hl⟩ := ok_of_noInt_shape (possibleReferenceErrors_noInt (packs := packs) (n := n) h)
    (possibleReferenceErrors_shape d packs tracks n)
  refine ⟨l, hl, ?_⟩
  unfold raiseError
  rw [hl]

/-! ### the allocation problem is well formed (C07's `WF`) -/

theorem nodup_of_map {α β : Type} (f : α → β) {l : List α} (h : (l.map f).Nodup) : l.Nodup := by
  unfold List.Nodup at h ⊢
  exact List.Pairwise.of_map f (fun a b hne hab => hne (by rw [hab])) h

theorem zipIdx_map_nodup {α β : Type} (l : List α) (g : α × Nat → β) (key : β → Nat)
    (hk : ∀ x, key (g x) = x.2) : (l.zipIdx.map g).Nodup := by
  refine nodup_of_map key ?_
  have : (l.zipIdx.map g).map key = l.zipIdx.map Prod.snd := by
    rw [List.map_map]
    exact List.map_congr_left (fun x _ => hk x)
  rw [this, List.zipIdx_map_snd]
  exact List.nodup_range' 1

theorem packChannels_nodup {d : Doc} (h : validateMultitree d = .ok ()) (p : Nat) : (packChannels d p).Nodup := by
  by_cases hp : p < d.packs.length
  · have hdfs := forE_ok h p (List.mem_range.mpr hp)
    cases hm : mtDfs d (d.packs.length + 2) (.pack p) [] [] with
    | error e => rw [hm] at hdfs; cases hdfs
    | ok s' =>
      obtain ⟨hnd, _, _⟩ := mtDfs_ok d _ _ _ _ _ hm
      rw [List.nodup_iff_count]
      intro c
      rw [packChannels_eq_chansFrom]
      exact Nat.le_trans (count_chansFrom_le d _ p c) (List.nodup_iff_count.mp hnd _)
  · have hdef : d.pack p = default := by
      unfold Doc.pack
      exact getD_default_of_ge default _ _ (by omega)
    have hns : (d.pack p).packs = [] := by rw [hdef]; rfl
    rw [packChannels_noSub hns, hdef]
    exact List.nodup_nil

theorem patOk_shape {d : Doc} {pat : Pattern} (h : PatOk d pat) :
    pat.pfs.length = pat.channels.length ∧ ∃ q, pat.channels = packChannels d q := by
  cases h with
  | regular pi _ _ => exact ⟨by simp [packPathsOf, packChannels], pi, rfl⟩
  | matrixInput pi ip t _ _ _ _ => exact ⟨by simp [constPfs], ip, rfl⟩
  | matrixPre pi t _ _ _ => exact ⟨by simp [packPathsOf, packChannels], pi, rfl⟩
  | matrixEncDec pi e ii _ _ _ _ => exact ⟨by simp [constPfs], ii, rfl⟩

theorem allocChannels_cf : ∀ (cs : List Nat) (ps : List (List Nat)), ps.length = cs.length →
    (List.zipWith (fun c p => (⟨c, p⟩ : PackAlloc.Channel)) cs ps).map (·.cf) = cs := by
  intro cs
  induction cs with
  | nil => intro ps _; simp
  | cons c t ih =>
    intro ps h
    cases ps with
    | nil => simp at h
    | cons p ps' =>
      simp only [List.zipWith_cons_cons, List.map_cons]
      rw [ih ps' (by simpa using h)]

/-- C07's `WF` for the problem built from a validated document: distinct allocation-pack and track objects by
construction, pairwise distinct channel formats per allocation pack from the multitree check (`mtDfs_ok`);
that no allocation pack is empty is the remaining hypothesis -/
theorem allocProblem_wf {d : Doc} {pats : List Pattern} (hs : StructOk d) (hpats : ∀ pat ∈ pats, PatOk d pat)
    (hne : ∀ pat ∈ pats, pat.channels ≠ []) (packs : Option (List Nat)) (tracks : List Nat)
    (cfs : List (Option Nat)) (n : Nat) : PackAlloc.WF (allocProblem d pats packs tracks cfs n) := by
  refine ⟨?_, ?_, ?_, ?_⟩
  · exact zipIdx_map_nodup _ _ (·.id) (fun _ => rfl)
  · exact zipIdx_map_nodup _ _ (·.id) (fun _ => rfl)
  · intro p hp
    obtain ⟨hmem, _, hch⟩ := allocProblem_pack_mem hp
    obtain ⟨hlen, _⟩ := patOk_shape (hpats _ hmem)
    intro hnil
    have := congrArg (List.map (·.cf)) (hch.symm.trans hnil)
    simp only [Pattern.allocChannels] at this
    rw [allocChannels_cf _ _ hlen] at this
    exact hne _ hmem (by simpa using this)
  · intro p hp
    obtain ⟨hmem, _, hch⟩ := allocProblem_pack_mem hp
    obtain ⟨hlen, q, hq⟩ := patOk_shape (hpats _ hmem)
    rw [hch]
    simp only [Pattern.allocChannels]
    rw [allocChannels_cf _ _ hlen, hq]
    exact packChannels_nodup hs.multitree q

/-- C07's `WF` for the problem the allocator effectively solves (allocation packs without channels removed): no
hypothesis left -/
theorem allocProblem_wf_dropEmpty {d : Doc} {pats : List Pattern} (hs : StructOk d) (hpats : ∀ pat ∈ pats, PatOk d pat)
    (packs : Option (List Nat)) (tracks : List Nat) (cfs : List (Option Nat)) (n : Nat) :
    PackAlloc.WF (PackAlloc.dropEmpty (allocProblem d pats packs tracks cfs n)) := by
  refine ⟨?_, ?_, ?_, ?_⟩
  · exact List.Nodup.sublist List.filter_sublist (zipIdx_map_nodup _ _ (·.id) (fun _ => rfl))
  · exact zipIdx_map_nodup _ _ (·.id) (fun _ => rfl)
  · intro p hp hnil
    have := (List.mem_filter.mp hp).2
    simp [PackAlloc.hasChannels, hnil] at this
  · intro p hp
    have hp' := (List.mem_filter.mp hp).1
    obtain ⟨hmem, _, hch⟩ := allocProblem_pack_mem hp'
    obtain ⟨hlen, q, hq⟩ := patOk_shape (hpats _ hmem)
    rw [hch]
    simp only [Pattern.allocChannels]
    rw [allocChannels_cf _ _ hlen, hq]
    exact packChannels_nodup hs.multitree q

/-- valid assignments of the reduced problem = valid assignments that use no allocation pack without channels -/
theorem valid_dropEmpty_iff (prob : PackAlloc.Problem) (sol : PackAlloc.Sol) :
    PackAlloc.Valid (PackAlloc.dropEmpty prob) sol ↔
      PackAlloc.Valid prob sol ∧ ∀ a ∈ sol, a.pack.channels ≠ [] := by
  constructor
  · intro h
    refine ⟨⟨fun a ha => (List.mem_filter.mp (h.packs_mem a ha)).1, h.channels, h.complete, h.tracks, h.silent,
      h.compat, h.refs⟩, ?_⟩
    intro a ha hnil
    have := (List.mem_filter.mp (h.packs_mem a ha)).2
    simp [PackAlloc.hasChannels, hnil] at this
  · rintro ⟨h, hne⟩
    refine ⟨fun a ha => List.mem_filter.mpr ⟨h.packs_mem a ha, ?_⟩, h.channels, h.complete, h.tracks, h.silent,
      h.compat, h.refs⟩
    have := hne a ha
    simpa [PackAlloc.hasChannels] using this

/-! ### what the allocator's decision means for one state -/

/-- the allocation problem of a state whose selected tracks passed `validate_selected_audioTrackUID`
(`cfs` = their channel formats) -/
def stateProblem (d : Doc) (pats : List Pattern) (st : State) (cfs : List (Option Nat)) : PackAlloc.Problem :=
  allocProblem d pats (selectedOf d st).1 (selectedOf d st).2.1 cfs (selectedOf d st).2.2

/-- what `select_pack_mapping` + `_get_rendering_items` do with an accepted solution -/
def renderSolution (d : Doc) (pats : List Pattern) (st : State) (sol : PackAlloc.Sol) : R Nat :=
  sumE sol 0 (fun _ a => renderingItems d (avsSelected d st) st.objects (pats.getD a.pack.id default))

theorem trackSpec_shape (d : Doc) (t : Nat) : OkOrInternal (trackSpec d t) := by
  intro e he
  unfold trackSpec at he
  split at he
  · cases he
  · injection he with he; subst he; exact ⟨_, rfl⟩

/-- for a state whose tracks passed validation, `processState` is decided by the allocator's outcome:
"Conflicting" / "Ambiguous" `AdmFormatRefError`, or the rendering of the one accepted solution -/
theorem processState_decided {d : Doc} {pats : List Pattern} {st : State} {cfs : List (Option Nat)}
    (hw : d.wellScoped = true) (hs : StructOk d)
    (hv : forE (selectedOf d st).2.1 (validateSelectedTrack d) = .ok ())
    (hcf : mapE (selectedOf d st).2.1 (channelForTrack d) = .ok cfs) :
    match PackAlloc.selectPackMapping (stateProblem d pats st cfs) with
    | .conflicting => ∃ m, processState d pats st = .error (.adm .conflicting m)
    | .ambiguous => ∃ m, processState d pats st = .error (.adm .ambiguous m)
    | .accepted sol => processState d pats st = renderSolution d pats st sol := by
  have hto := processState_tracksOk hw hs st hv
  unfold processState stateProblem
  rcases hsel : selectedOf d st with ⟨packs, tracks, n⟩
  rw [hsel] at hv hcf hto
  simp only at hv hcf hto ⊢
  rw [hv, hcf]
  simp only
  obtain ⟨l, hl⟩ := ok_of_noInt_shape (mapE_noInt (fun t ht => trackSpec_noInt (hto t ht)))
    (mapE_shape (fun t _ => trackSpec_shape d t))
  cases PackAlloc.selectPackMapping (allocProblem d pats packs tracks cfs n) with
  | conflicting => obtain ⟨r, _, hr⟩ := raiseError_eq (ctx := ctxOf st) (packs := packs) (n := n) .conflicting hto; exact ⟨_, hr⟩
  | ambiguous => obtain ⟨r, _, hr⟩ := raiseError_eq (ctx := ctxOf st) (packs := packs) (n := n) .ambiguous hto; exact ⟨_, hr⟩
  | accepted sol => simp only [hl, renderSolution]

end Earverif.Validate
