/-
C15 — helper definitions and lemmas about the timing-repair model (`Model/TimingFix.lean`).
Per-pass lemmas (duration pass, interpolationLength pass, clamping to one object, all objects),
the fixed-point lemma (`stable_fix`) and the acceptance lemma (`accept_timed`).
The property theorems themselves are in `Props/C15.lean`.
-/
import Earverif.Model.TimingFix

set_option linter.unusedVariables false
set_option linter.unusedSimpArgs false

namespace Earverif.TimingFix

/-! ### Vocabulary -/

/-- rtime / duration with `None` read as 0 (only used for blocks known to be `Timed`). -/
def Block.r (b : Block) : Rat := b.rtime.getD 0
def Block.d (b : Block) : Rat := b.duration.getD 0

/-- the block has both rtime and duration -/
def Timed (b : Block) : Prop := b.rtime.isSome = true ∧ b.duration.isSome = true
/-- the block has neither rtime nor duration -/
def Untimed (b : Block) : Prop := b.rtime = none ∧ b.duration = none

def AllTimed (bs : List Block) : Prop := ∀ b ∈ bs, Timed b

/-- every block ends where the next one starts -/
def Contig : List Block → Prop
  | a :: b :: rest => a.r + a.d = b.r ∧ Contig (b :: rest)
  | _ => True

/-- rtimes weakly increasing -/
def Mono : List Block → Prop
  | a :: b :: rest => a.r ≤ b.r ∧ Mono (b :: rest)
  | _ => True

/-- the last block starts strictly before `D` -/
def LastBelow (D : Rat) : List Block → Prop
  | [] => True
  | [b] => b.r < D
  | _ :: b :: rest => LastBelow D (b :: rest)

/-- the last block's duration is not negative -/
def LastNonneg : List Block → Prop
  | [] => True
  | [b] => 0 ≤ b.d
  | _ :: b :: rest => LastNonneg (b :: rest)

def AllBelow (D : Rat) (bs : List Block) : Prop := ∀ b ∈ bs, b.r < D

/-- a timed block's interpolationLength (when it has one in the sense of
`_has_interpolationLength`) does not exceed its duration -/
def ILokT (b : Block) : Prop := ∀ il, hasIL b = true → b.il = some il → il ≤ b.d

/-- timed blocks end at or before `D` (relative to the object's start) -/
def Within (D : Rat) (bs : List Block) : Prop := ∀ b ∈ bs, Timed b → b.r + b.d ≤ D

/-- what no pass changes: rtime, presence of duration, type, jumpPosition flag, presence of an
interpolationLength -/
def Same (a b : Block) : Prop :=
  b.rtime = a.rtime ∧ b.duration.isSome = a.duration.isSome ∧ b.isObjects = a.isObjects ∧ b.jp = a.jp ∧
    b.il.isSome = a.il.isSome

/-- pointwise relation between the blocks before and after a pass -/
def RelP (P : Block → Block → Prop) : List Block → List Block → Prop
  | [], [] => True
  | a :: as, b :: bs => P a b ∧ RelP P as bs
  | _, _ => False

/-- same + same duration -/
def SameD (a b : Block) : Prop := Same a b ∧ b.duration = a.duration
/-- same + duration not longer -/
def SameShrink (a b : Block) : Prop := Same a b ∧ b.d ≤ a.d

theorem Same.rfl' (a : Block) : Same a a := by simp [Same]

theorem Same.trans' {a b c : Block} (h1 : Same a b) (h2 : Same b c) : Same a c := by
  simp only [Same] at *; grind

theorem RelP.mono {P Q : Block → Block → Prop} (h : ∀ a b, P a b → Q a b) :
    ∀ {as bs}, RelP P as bs → RelP Q as bs
  | [], [], _ => trivial
  | _ :: _, [], h' => h'.elim
  | [], _ :: _, h' => h'.elim
  | a :: as, b :: bs, h' => ⟨h a b h'.1, RelP.mono h h'.2⟩

theorem RelP.refl {P : Block → Block → Prop} (h : ∀ a, P a a) : ∀ as, RelP P as as
  | [] => trivial
  | a :: as => ⟨h a, RelP.refl h as⟩

theorem RelP.trans {P : Block → Block → Prop} (h : ∀ a b c, P a b → P b c → P a c) :
    ∀ {as bs cs}, RelP P as bs → RelP P bs cs → RelP P as cs
  | [], [], [], _, _ => trivial
  | a :: as, b :: bs, c :: cs, h1, h2 => ⟨h a b c h1.1 h2.1, RelP.trans h h1.2 h2.2⟩
  | [], _ :: _, _, h1, _ => h1.elim
  | _ :: _, [], _, h1, _ => h1.elim
  | _ :: _, _ :: _, [], _, h2 => h2.elim
  | [], [], _ :: _, _, h2 => h2.elim

theorem SameShrink.trans' {a b c : Block} (h1 : SameShrink a b) (h2 : SameShrink b c) : SameShrink a c := by
  refine ⟨Same.trans' h1.1 h2.1, ?_⟩
  have := h1.2; have := h2.2; grind

theorem SameD.toShrink {a b : Block} (h : SameD a b) : SameShrink a b := by
  refine ⟨h.1, ?_⟩
  simp only [Block.d, h.2]; exact Rat.le_refl

theorem Same.r_eq {a b : Block} (h : Same a b) : b.r = a.r := by simp [Block.r, h.1]

theorem Same.timed {a b : Block} (h : Same a b) (ha : Timed a) : Timed b := by
  simp only [Same, Timed] at *; grind

theorem Same.hasIL {a b : Block} (h : Same a b) : hasIL b = hasIL a := by
  simp only [Same, TimingFix.hasIL] at *; grind

/-! ### What transfers along a `RelP Same` pass -/

theorem rel_rtimes : ∀ {as bs : List Block}, RelP Same as bs → bs.map (·.rtime) = as.map (·.rtime)
  | [], [], _ => rfl
  | _ :: _, [], h => h.elim
  | [], _ :: _, h => h.elim
  | a :: as, b :: bs, h => by simp [h.1.1, rel_rtimes h.2]

theorem rel_length : ∀ {as bs : List Block}, RelP Same as bs → bs.length = as.length
  | [], [], _ => rfl
  | _ :: _, [], h => h.elim
  | [], _ :: _, h => h.elim
  | a :: as, b :: bs, h => by simp [rel_length h.2]

theorem rel_allTimed : ∀ {as bs : List Block}, RelP Same as bs → AllTimed as → AllTimed bs
  | [], [], _, _ => by simp [AllTimed]
  | _ :: _, [], h, _ => h.elim
  | [], _ :: _, h, _ => h.elim
  | a :: as, b :: bs, h, ha => by
    have ih := rel_allTimed h.2 (fun x hx => ha x (by simp [hx]))
    intro x hx
    simp only [List.mem_cons] at hx
    rcases hx with rfl | hx
    · exact h.1.timed (ha a (by simp))
    · exact ih x hx

theorem rel_mono : ∀ {as bs : List Block}, RelP Same as bs → Mono as → Mono bs
  | [], [], _, _ => trivial
  | _ :: _, [], h, _ => h.elim
  | [], _ :: _, h, _ => h.elim
  | [_], [_], _, _ => trivial
  | [_], _ :: _ :: _, h, _ => h.2.elim
  | _ :: _ :: _, [_], h, _ => h.2.elim
  | a :: a' :: as, b :: b' :: bs, h, hm => by
    refine ⟨?_, rel_mono h.2 hm.2⟩
    rw [h.1.r_eq, h.2.1.r_eq]; exact hm.1

theorem rel_lastBelow (D : Rat) : ∀ {as bs : List Block}, RelP Same as bs → LastBelow D as → LastBelow D bs
  | [], [], _, _ => trivial
  | _ :: _, [], h, _ => h.elim
  | [], _ :: _, h, _ => h.elim
  | [a], [b], h, hl => by simp only [LastBelow] at *; rw [h.1.r_eq]; exact hl
  | [_], _ :: _ :: _, h, _ => h.2.elim
  | _ :: _ :: _, [_], h, _ => h.2.elim
  | _ :: a' :: as, _ :: b' :: bs, h, hl => rel_lastBelow D (as := a' :: as) (bs := b' :: bs) h.2 hl

theorem rel_allBelow (D : Rat) : ∀ {as bs : List Block}, RelP Same as bs → AllBelow D as → AllBelow D bs
  | [], [], _, _ => by simp [AllBelow]
  | _ :: _, [], h, _ => h.elim
  | [], _ :: _, h, _ => h.elim
  | a :: as, b :: bs, h, ha => by
    have ih := rel_allBelow D h.2 (fun x hx => ha x (by simp [hx]))
    intro x hx
    simp only [List.mem_cons] at hx
    rcases hx with rfl | hx
    · rw [h.1.r_eq]; exact ha a (by simp)
    · exact ih x hx

/-- rtimes weakly increasing and the last one below `D`: all below `D` -/
theorem allBelow_of_mono : ∀ {bs : List Block} {D : Rat}, Mono bs → LastBelow D bs → AllBelow D bs
  | [], _, _, _ => by simp [AllBelow]
  | [b], _, _, hl => by intro x hx; simp only [List.mem_singleton] at hx; subst hx; exact hl
  | a :: b :: rest, D, hm, hl => by
    have ih := allBelow_of_mono (bs := b :: rest) hm.2 hl
    intro x hx
    simp only [List.mem_cons] at hx
    rcases hx with rfl | hx
    · have hb := ih b (by simp)
      have := hm.1
      grind
    · exact ih x (by simp only [List.mem_cons]; exact hx)

/-- `SameD` passes keep contiguity, last-duration sign, `Within` -/
theorem relD_contig : ∀ {as bs : List Block}, RelP SameD as bs → Contig as → Contig bs
  | [], [], _, _ => trivial
  | _ :: _, [], h, _ => h.elim
  | [], _ :: _, h, _ => h.elim
  | [_], [_], _, _ => trivial
  | [_], _ :: _ :: _, h, _ => h.2.elim
  | _ :: _ :: _, [_], h, _ => h.2.elim
  | a :: a' :: as, b :: b' :: bs, h, hc => by
    refine ⟨?_, relD_contig h.2 hc.2⟩
    have e1 : b.r = a.r := h.1.1.r_eq
    have e2 : b.d = a.d := by simp [Block.d, h.1.2]
    have e3 : b'.r = a'.r := h.2.1.1.r_eq
    rw [e1, e2, e3]; exact hc.1

theorem relShrink_lastNonneg_of : ∀ {as bs : List Block}, RelP SameD as bs → LastNonneg as → LastNonneg bs
  | [], [], _, _ => trivial
  | _ :: _, [], h, _ => h.elim
  | [], _ :: _, h, _ => h.elim
  | [a], [b], h, hl => by
    have e2 : b.d = a.d := by simp [Block.d, h.1.2]
    simp only [LastNonneg] at *; rw [e2]; exact hl
  | [_], _ :: _ :: _, h, _ => h.2.elim
  | _ :: _ :: _, [_], h, _ => h.2.elim
  | _ :: a' :: as, _ :: b' :: bs, h, hl =>
    relShrink_lastNonneg_of (as := a' :: as) (bs := b' :: bs) h.2 hl

/-- shrinking passes keep `Within` -/
theorem relShrink_within (D : Rat) : ∀ {as bs : List Block}, RelP SameShrink as bs → Within D as → Within D bs
  | [], [], _, _ => by simp [Within]
  | _ :: _, [], h, _ => h.elim
  | [], _ :: _, h, _ => h.elim
  | a :: as, b :: bs, h, hw => by
    have ih := relShrink_within D h.2 (fun x hx => hw x (by simp [hx]))
    intro x hx ht
    simp only [List.mem_cons] at hx
    rcases hx with rfl | hx
    · have ta : Timed a := by
        have := h.1.1; simp only [Same, Timed] at *; grind
      have := hw a (by simp) ta
      have := h.1.2
      have := h.1.1.r_eq
      grind
    · exact ih x hx ht

/-! ### Pass 1: durations -/

theorem fixDuration_timed (i : Nat) (a b : Block) (ha : Timed a) (hb : Timed b) :
    Same a (fixDuration i a b).1 ∧ (fixDuration i a b).1.duration = some (b.r - a.r)
    ∧ (a.r + a.d = b.r → fixDuration i a b = (a, [])) := by
  rcases a with ⟨_|ra, _|da, o, j, il⟩ <;> rcases b with ⟨_|rb, _|db, o', j', il'⟩ <;>
    simp [Timed] at ha hb
  simp only [fixDuration, Same, Block.r, Block.d, Option.getD_some]
  refine ⟨?_, ?_, ?_⟩
  · split <;> simp
    cases il <;> simp
    split <;> simp
  · split <;> simp
    grind
  · intro h
    have : da = rb - ra := by grind
    simp [this]

/-- a pair that is not both timed is skipped by the duration pass -/
theorem fixDuration_skip (i : Nat) (a b : Block) (h : ¬ (Timed a ∧ Timed b)) :
    fixDuration i a b = (a, []) := by
  rcases a with ⟨_|ra, _|da, o, j, il⟩ <;> rcases b with ⟨_|rb, _|db, o', j', il'⟩ <;>
    simp [Timed] at h <;> simp [fixDuration]

theorem checkDurations_cons (i : Nat) (a b : Block) (rest : List Block) :
    checkDurations i (a :: b :: rest) =
      ((fixDuration i a b).1 :: (checkDurations (i + 1) (b :: rest)).1,
       (fixDuration i a b).2 ++ (checkDurations (i + 1) (b :: rest)).2) := rfl

/-- duration pass on an all-timed channel: keys kept, result contiguous, last duration kept -/
theorem checkDurations_spec : ∀ (bs : List Block) (i : Nat), AllTimed bs →
    RelP Same bs (checkDurations i bs).1 ∧ Contig (checkDurations i bs).1 ∧
    (LastNonneg bs → LastNonneg (checkDurations i bs).1)
  | [], _, _ => by simp [checkDurations, RelP, Contig]
  | [b], _, _ => by simp [checkDurations, RelP, Contig, Same.rfl']
  | a :: b :: rest, i, h => by
    have ha : Timed a := h a (by simp)
    have hb : Timed b := h b (by simp)
    have ih := checkDurations_spec (b :: rest) (i + 1) (fun x hx => h x (by simp [hx]))
    have hf := fixDuration_timed i a b ha hb
    rw [checkDurations_cons]
    simp only
    -- the recursive result starts with a block that has b's rtime
    cases hrec : (checkDurations (i + 1) (b :: rest)).1 with
    | nil => rw [hrec] at ih; exact ih.1.elim
    | cons b' rest' =>
      rw [hrec] at ih
      obtain ⟨ih1, ih2, ih3⟩ := ih
      refine ⟨⟨hf.1, ih1⟩, ⟨?_, ih2⟩, ?_⟩
      · have e1 : (fixDuration i a b).1.r = a.r := hf.1.r_eq
        have e2 : (fixDuration i a b).1.d = b.r - a.r := by simp [Block.d, hf.2.1]
        have e3 : b'.r = b.r := ih1.1.r_eq
        rw [e1, e2, e3]; grind
      · intro hl; exact ih3 hl

/-- duration pass on a channel that is already contiguous: nothing happens -/
theorem checkDurations_stable : ∀ (bs : List Block) (i : Nat),
    (∀ b ∈ bs, Timed b ∨ Untimed b) → Contig bs → checkDurations i bs = (bs, [])
  | [], _, _, _ => rfl
  | [b], _, _, _ => rfl
  | a :: b :: rest, i, h, hc => by
    have ih := checkDurations_stable (b :: rest) (i + 1) (fun x hx => h x (by simp [hx])) hc.2
    rw [checkDurations_cons, ih]
    by_cases hab : Timed a ∧ Timed b
    · rw [(fixDuration_timed i a b hab.1 hab.2).2.2 hc.1]; rfl
    · rw [fixDuration_skip i a b hab]; rfl

/-! ### Pass 2: interpolation lengths -/

theorem fixIL_spec (i : Nat) (b : Block) :
    SameD b (fixIL i b).1 ∧ (Timed b → ILokT (fixIL i b).1) ∧
    ((Timed b → ILokT b) → fixIL i b = (b, [])) := by
  rcases b with ⟨_|r, _|d, o, j, _|il⟩ <;>
    simp [fixIL, SameD, Same, Timed, ILokT, hasIL, Block.d]
  refine ⟨?_, ?_, ?_⟩
  · split <;> simp
  · split <;> simp <;> grind
  · intro h
    grind

theorem checkILs_spec : ∀ (bs : List Block) (i : Nat),
    RelP SameD bs (checkILs i bs).1 ∧ (AllTimed bs → ∀ b ∈ (checkILs i bs).1, ILokT b)
  | [], _ => by simp [checkILs, RelP]
  | b :: rest, i => by
    have ih := checkILs_spec rest (i + 1)
    have hb := fixIL_spec i b
    simp only [checkILs]
    refine ⟨⟨hb.1, ih.1⟩, ?_⟩
    intro ht x hx
    simp only [List.mem_cons] at hx
    rcases hx with rfl | hx
    · exact hb.2.1 (ht b (by simp))
    · exact ih.2 (fun y hy => ht y (by simp [hy])) x hx

theorem checkILs_stable : ∀ (bs : List Block) (i : Nat),
    (∀ b ∈ bs, Timed b → ILokT b) → checkILs i bs = (bs, [])
  | [], _, _ => rfl
  | b :: rest, i, h => by
    have ih := checkILs_stable rest (i + 1) (fun x hx => h x (by simp [hx]))
    simp only [checkILs, ih, (fixIL_spec i b).2.2 (h b (by simp))]
    simp

/-! ### Pass 3: clamping to the objects -/

/-- an untimed block's interpolationLength does not exceed the object duration `D` -/
def ILokU (D : Rat) (b : Block) : Prop := ∀ il, hasIL b = true → b.il = some il → il ≤ D

theorem clampBlock_timed (i : Nat) (D : Rat) (b : Block) (ht : Timed b) (hr : b.r < D) (hil : ILokT b) :
    ∃ b' ws, clampBlockFormatTimes i D b = .ok (b', ws) ∧ SameShrink b b' ∧ ILokT b' ∧ b'.r + b'.d ≤ D ∧
      (0 ≤ b.d → 0 ≤ b'.d) := by
  rcases b with ⟨_|r, _|d, o, j, _|il⟩ <;> simp [Timed] at ht <;>
    simp only [clampBlockFormatTimes, clampEnd, Block.r, Block.d, Option.getD_some] at *
  · by_cases h1 : r + d > D
    · have h2 : ¬ (r + d - D ≥ d) := by grind
      simp only [h1, h2, ↓reduceIte]
      refine ⟨_, _, rfl, ?_, ?_, ?_, ?_⟩ <;>
        simp [SameShrink, Same, ILokT, hasIL, Block.r, Block.d] <;> grind
    · simp only [h1, ↓reduceIte]
      refine ⟨_, _, rfl, ?_, hil, ?_, ?_⟩ <;>
        simp [SameShrink, Same, Block.r, Block.d] <;> grind
  · by_cases h1 : r + d > D
    · have h2 : ¬ (r + d - D ≥ d) := by grind
      simp only [h1, h2, ↓reduceIte]
      simp only [ILokT, hasIL, Block.d, Option.getD_some, Option.isSome_some, Bool.and_true,
        Option.some.injEq, forall_eq'] at hil
      split
      · refine ⟨_, _, rfl, ?_, ?_, ?_, ?_⟩ <;>
          simp [SameShrink, Same, ILokT, hasIL, Block.r, Block.d] <;> grind
      · rename_i hc
        refine ⟨_, _, rfl, ?_, ?_, ?_, ?_⟩ <;>
          simp [SameShrink, Same, ILokT, hasIL, Block.r, Block.d] at hc ⊢ <;> grind
    · simp only [h1, ↓reduceIte]
      refine ⟨_, _, rfl, ?_, hil, ?_, ?_⟩ <;>
        simp [SameShrink, Same, Block.r, Block.d] <;> grind

/-- a timed block that already ends inside the object is left alone -/
theorem clampBlock_timed_within (i : Nat) (D : Rat) (b : Block) (ht : Timed b) (hw : b.r + b.d ≤ D) :
    clampBlockFormatTimes i D b = .ok (b, []) := by
  rcases b with ⟨_|r, _|d, o, j, il⟩ <;> simp [Timed] at ht
  simp only [clampBlockFormatTimes, clampEnd, Block.r, Block.d, Option.getD_some] at *
  have h1 : ¬ (r + d > D) := by grind
  simp [h1]

/-- an untimed block whose interpolationLength fits the object is left alone -/
theorem clampBlock_untimed_ok (i : Nat) (D : Rat) (b : Block) (hu : Untimed b) (hil : ILokU D b) :
    clampBlockFormatTimes i D b = .ok (b, []) := by
  rcases b with ⟨_|r, _|d, o, j, _|il⟩ <;> simp [Untimed] at hu <;>
    simp [clampBlockFormatTimes, clampInterpolationLength, hasIL]
  simp only [ILokU, hasIL] at hil
  intro ho hj
  have := hil il (by simp [ho, hj]) rfl
  grind

theorem clampBlocks_cons_ok (i : Nat) (D : Rat) (b b' : Block) (ws : List Warn) (rest out : List Block)
    (ws' : List Warn) (h1 : clampBlockFormatTimes i D b = .ok (b', ws))
    (h2 : clampBlocks (i + 1) D rest = .ok (out, ws')) :
    clampBlocks i D (b :: rest) = .ok (b' :: out, ws ++ ws') := by
  simp only [clampBlocks, h1, h2]

/-- clamping an all-timed, contiguous channel whose blocks all start before `D` -/
theorem clampBlocks_spec (D : Rat) : ∀ (bs : List Block) (i : Nat),
    AllTimed bs → Contig bs → AllBelow D bs → (∀ b ∈ bs, ILokT b) →
    ∃ out ws, clampBlocks i D bs = .ok (out, ws) ∧ RelP SameShrink bs out ∧ Contig out ∧
      (∀ b ∈ out, ILokT b) ∧ Within D out ∧ (LastNonneg bs → LastNonneg out)
  | [], _, _, _, _, _ => ⟨[], [], rfl, trivial, trivial, by simp, by simp [Within], fun h => h⟩
  | [b], i, ht, _, hb, hil => by
    obtain ⟨b', ws, h1, h2, h3, h4, h5⟩ :=
      clampBlock_timed i D b (ht b (by simp)) (hb b (by simp)) (hil b (by simp))
    refine ⟨[b'], ws ++ [], clampBlocks_cons_ok i D b b' ws [] [] [] h1 rfl, ⟨h2, trivial⟩, trivial, ?_, ?_, ?_⟩
    · intro x hx; simp only [List.mem_singleton] at hx; subst hx; exact h3
    · intro x hx _; simp only [List.mem_singleton] at hx; subst hx; exact h4
    · exact h5
  | a :: b :: rest, i, ht, hc, hb, hil => by
    obtain ⟨out, ws, h1, h2, h3, h4, h5, h6⟩ := clampBlocks_spec D (b :: rest) (i + 1)
      (fun x hx => ht x (by simp [hx])) hc.2 (fun x hx => hb x (by simp [hx])) (fun x hx => hil x (by simp [hx]))
    have hbD := hb b (by simp)
    have ha : clampBlockFormatTimes i D a = .ok (a, []) :=
      clampBlock_timed_within i D a (ht a (by simp)) (by have := hc.1; grind)
    cases out with
    | nil => exact h2.elim
    | cons b' rest' =>
      refine ⟨a :: b' :: rest', [] ++ ws, clampBlocks_cons_ok i D a a [] _ _ ws ha h1,
        ⟨⟨Same.rfl' a, Rat.le_refl⟩, h2⟩, ⟨?_, h3⟩, ?_, ?_, h6⟩
      · rw [h2.1.1.r_eq]; exact hc.1
      · intro x hx
        simp only [List.mem_cons] at hx
        rcases hx with rfl | hx
        · exact hil x (by simp)
        · exact h4 x (by simp only [List.mem_cons]; exact hx)
      · intro x hx hxt
        simp only [List.mem_cons] at hx
        rcases hx with rfl | hx
        · have := hc.1; grind
        · exact h5 x (by simp only [List.mem_cons]; exact hx) hxt

theorem clampBlocks_stable (D : Rat) : ∀ (bs : List Block) (i : Nat),
    (∀ b ∈ bs, Timed b ∨ Untimed b) → Within D bs → (∀ b ∈ bs, Untimed b → ILokU D b) →
    clampBlocks i D bs = .ok (bs, [])
  | [], _, _, _, _ => rfl
  | b :: rest, i, h, hw, hu => by
    have ih := clampBlocks_stable D rest (i + 1) (fun x hx => h x (by simp [hx]))
      (fun x hx => hw x (by simp [hx])) (fun x hx => hu x (by simp [hx]))
    have hb : clampBlockFormatTimes i D b = .ok (b, []) := by
      rcases h b (by simp) with ht | hun
      · exact clampBlock_timed_within i D b ht (hw b (by simp) ht)
      · exact clampBlock_untimed_ok i D b hun (hu b (by simp) hun)
    exact clampBlocks_cons_ok i D b b [] rest rest [] hb ih

theorem checkTimesForObjects_spec : ∀ (objs : List Obj) (bs : List Block),
    AllTimed bs → Contig bs → (∀ b ∈ bs, ILokT b) →
    (∀ o ∈ objs, ∀ D, o.duration = some D → AllBelow D bs) →
    ∃ out ws, checkTimesForObjects objs bs = .ok (out, ws) ∧ RelP SameShrink bs out ∧ Contig out ∧
      (∀ b ∈ out, ILokT b) ∧ (∀ o ∈ objs, ∀ D, o.duration = some D → Within D out) ∧
      (LastNonneg bs → LastNonneg out)
  | [], bs, _, hc, hil, _ =>
    ⟨bs, [], rfl, RelP.refl (fun a => ⟨Same.rfl' a, Rat.le_refl⟩) bs, hc, hil, by simp, fun h => h⟩
  | o :: os, bs, ht, hc, hil, hb => by
    cases hd : o.duration with
    | none =>
      obtain ⟨out, ws, h1, h2, h3, h4, h5, h6⟩ := checkTimesForObjects_spec os bs ht hc hil
        (fun o' ho' => hb o' (by simp [ho']))
      refine ⟨out, ws, by simp only [checkTimesForObjects, hd, h1], h2, h3, h4, ?_, h6⟩
      intro o' ho' D hD
      simp only [List.mem_cons] at ho'
      rcases ho' with rfl | ho'
      · rw [hd] at hD; cases hD
      · exact h5 o' ho' D hD
    | some D =>
      obtain ⟨out1, ws1, a1, a2, a3, a4, a5, a6⟩ := clampBlocks_spec D bs 0 ht hc (hb o (by simp) D hd) hil
      have rs : RelP Same bs out1 := RelP.mono (fun _ _ h => h.1) a2
      obtain ⟨out, ws, h1, h2, h3, h4, h5, h6⟩ := checkTimesForObjects_spec os out1 (rel_allTimed rs ht) a3 a4
        (fun o' ho' D' hD' => rel_allBelow D' rs (hb o' (by simp [ho']) D' hD'))
      refine ⟨out, ws1 ++ ws, by simp only [checkTimesForObjects, hd, a1, h1],
        RelP.trans (P := SameShrink) (fun _ _ _ => SameShrink.trans') a2 h2, h3, h4, ?_, fun h => h6 (a6 h)⟩
      intro o' ho' D' hD'
      simp only [List.mem_cons] at ho'
      rcases ho' with rfl | ho'
      · rw [hd] at hD'; cases hD'
        exact relShrink_within D h2 a5
      · exact h5 o' ho' D' hD'

theorem checkTimesForObjects_stable : ∀ (objs : List Obj) (bs : List Block),
    (∀ b ∈ bs, Timed b ∨ Untimed b) →
    (∀ o ∈ objs, ∀ D, o.duration = some D → Within D bs ∧ ∀ b ∈ bs, Untimed b → ILokU D b) →
    checkTimesForObjects objs bs = .ok (bs, [])
  | [], _, _, _ => rfl
  | o :: os, bs, h, hw => by
    have ih := checkTimesForObjects_stable os bs h (fun o' ho' => hw o' (by simp [ho']))
    cases hd : o.duration with
    | none => simp only [checkTimesForObjects, hd, ih]
    | some D =>
      have := hw o (by simp) D hd
      simp only [checkTimesForObjects, hd, clampBlocks_stable D bs 0 h this.1 this.2, ih]
      simp

/-! ### The three passes composed -/

/-- Result of the repair on an all-timed channel with weakly increasing rtimes whose last block
starts before the end of every object that has a duration. -/
theorem fix_timed (objs : List Obj) (bs : List Block) (ht : AllTimed bs) (hm : Mono bs)
    (hl : ∀ o ∈ objs, ∀ D, o.duration = some D → LastBelow D bs) :
    ∃ out ws, fixTimings objs bs = .ok (out, ws) ∧ RelP Same bs out ∧ Contig out ∧
      (∀ b ∈ out, ILokT b) ∧ (∀ o ∈ objs, ∀ D, o.duration = some D → Within D out) ∧
      (LastNonneg bs → LastNonneg out) := by
  obtain ⟨r1, c1, n1⟩ := checkDurations_spec bs 0 ht
  have t1 := rel_allTimed r1 ht
  obtain ⟨r2, i2⟩ := checkILs_spec (checkDurations 0 bs).1 0
  have r2s : RelP Same _ _ := RelP.mono (fun _ _ h => h.1) r2
  have t2 := rel_allTimed r2s t1
  have c2 := relD_contig r2 c1
  have below : ∀ o ∈ objs, ∀ D, o.duration = some D → AllBelow D (checkILs 0 (checkDurations 0 bs).1).1 :=
    fun o ho D hD => allBelow_of_mono (rel_mono r2s (rel_mono r1 hm))
      (rel_lastBelow D r2s (rel_lastBelow D r1 (hl o ho D hD)))
  obtain ⟨out, ws, h1, h2, h3, h4, h5, h6⟩ :=
    checkTimesForObjects_spec objs _ t2 c2 (i2 t1) below
  refine ⟨out, (checkDurations 0 bs).2 ++ (checkILs 0 (checkDurations 0 bs).1).2 ++ ws,
    by simp only [fixTimings, h1], ?_, h3, h4, h5, ?_⟩
  · exact RelP.trans (P := Same) (fun _ _ _ => Same.trans') r1
      (RelP.trans (P := Same) (fun _ _ _ => Same.trans') r2s (RelP.mono (fun _ _ h => h.1) h2))
  · intro h; exact h6 (relShrink_lastNonneg_of r2 (n1 h))

theorem clampIL_spec (i : Nat) (D : Rat) (b : Block) :
    Same b (clampInterpolationLength i D b).1 ∧ (clampInterpolationLength i D b).1.duration = b.duration ∧
    ILokU D (clampInterpolationLength i D b).1 ∧
    ∀ D', ILokU D' b → ILokU D' (clampInterpolationLength i D b).1 := by
  rcases b with ⟨r, d, o, j, _|il⟩ <;> simp [clampInterpolationLength, Same, ILokU, hasIL]
  split <;> simp <;> grind

/-- pass 3 on a single untimed block -/
theorem checkTimesForObjects_untimed : ∀ (objs : List Obj) (b : Block), Untimed b →
    ∃ b' ws, checkTimesForObjects objs [b] = .ok ([b'], ws) ∧ Same b b' ∧ Untimed b' ∧
      (∀ o ∈ objs, ∀ D, o.duration = some D → ILokU D b') ∧ (∀ D', ILokU D' b → ILokU D' b')
  | [], b, hu => ⟨b, [], rfl, Same.rfl' b, hu, by simp, fun _ h => h⟩
  | o :: os, b, hu => by
    cases hd : o.duration with
    | none =>
      obtain ⟨b', ws, h1, h2, h3, h4, h5⟩ := checkTimesForObjects_untimed os b hu
      refine ⟨b', ws, by simp only [checkTimesForObjects, hd, h1], h2, h3, ?_, h5⟩
      intro o' ho' D hD
      simp only [List.mem_cons] at ho'
      rcases ho' with rfl | ho'
      · rw [hd] at hD; cases hD
      · exact h4 o' ho' D hD
    | some D =>
      have hc := clampIL_spec 0 D b
      have hu1 : Untimed (clampInterpolationLength 0 D b).1 := by
        refine ⟨?_, ?_⟩
        · rw [hc.1.1]; exact hu.1
        · rw [hc.2.1]; exact hu.2
      obtain ⟨b', ws, h1, h2, h3, h4, h5⟩ := checkTimesForObjects_untimed os _ hu1
      have e : clampBlocks 0 D [b] =
          .ok ([(clampInterpolationLength 0 D b).1], (clampInterpolationLength 0 D b).2 ++ []) := by
        have : clampBlockFormatTimes 0 D b = .ok (clampInterpolationLength 0 D b) := by
          simp only [clampBlockFormatTimes, hu.1, hu.2]
        simp only [clampBlocks, this]
      refine ⟨b', (clampInterpolationLength 0 D b).2 ++ [] ++ ws,
        by simp only [checkTimesForObjects, hd, e, h1], Same.trans' hc.1 h2, h3, ?_,
        fun D' h => h5 D' (hc.2.2.2 D' h)⟩
      intro o' ho' D' hD'
      simp only [List.mem_cons] at ho'
      rcases ho' with rfl | ho'
      · rw [hd] at hD'; cases hD'
        exact h5 D hc.2.2.1
      · exact h4 o' ho' D' hD'

/-- Result of the repair on a channel made of one block without rtime/duration. -/
theorem fix_untimed (objs : List Obj) (b : Block) (hu : Untimed b) :
    ∃ b' ws, fixTimings objs [b] = .ok ([b'], ws) ∧ Same b b' ∧ Untimed b' ∧
      (∀ o ∈ objs, ∀ D, o.duration = some D → ILokU D b') := by
  obtain ⟨b', ws, h1, h2, h3, h4, _⟩ := checkTimesForObjects_untimed objs b hu
  have e2 : fixIL 0 b = (b, []) := by simp only [fixIL, hu.1]
  refine ⟨b', [] ++ ([] ++ []) ++ ws, ?_, h2, h3, h4⟩
  simp only [fixTimings, checkDurations, checkILs, e2, h1]

/-- Fixed points of the repair: nothing to do for any of the three passes. -/
def Stable (objs : List Obj) (bs : List Block) : Prop :=
  (∀ b ∈ bs, Timed b ∨ Untimed b) ∧ Contig bs ∧ (∀ b ∈ bs, Timed b → ILokT b) ∧
  ∀ o ∈ objs, ∀ D, o.duration = some D → Within D bs ∧ ∀ b ∈ bs, Untimed b → ILokU D b

theorem stable_fix (objs : List Obj) (bs : List Block) (h : Stable objs bs) :
    fixTimings objs bs = .ok (bs, []) := by
  obtain ⟨h1, h2, h3, h4⟩ := h
  simp only [fixTimings, checkDurations_stable bs 0 h1 h2, checkILs_stable bs 0 h3,
    checkTimesForObjects_stable objs bs h1 h4]
  simp

/-! ### Acceptance by the metadata interpreters -/

theorem head_nonneg : ∀ (a : Block) (rest : List Block),
    Contig (a :: rest) → Mono (a :: rest) → LastNonneg (a :: rest) → 0 ≤ a.d
  | a, [], _, _, hl => hl
  | a, b :: rest, hc, hm, _ => by have := hc.1; have := hm.1; grind

/-- condition on the interpreter's remembered end of the previous block -/
def LastOK (os : Rat) : Option (Option Rat) → List Block → Prop
  | some none, _ :: _ => False
  | some (some le), b :: _ => le ≤ os + b.r
  | _, _ => True

theorem accept_timed (o : Obj) : ∀ (bs : List Block) (last : Option (Option Rat)),
    AllTimed bs → Contig bs → Mono bs → LastNonneg bs → (∀ b ∈ bs, ILokT b) →
    (∀ D, o.duration = some D → Within D bs) → LastOK (o.start.getD 0) last bs →
    acceptGo o last bs = .ok
  | [], _, _, _, _, _, _, _, _ => by simp [acceptGo]
  | a :: rest, last, ht, hc, hm, hn, hil, hw, hlast => by
    have hd0 := head_nonneg a rest hc hm hn
    have hta := ht a (by simp)
    have hila := hil a (by simp)
    have ih := accept_timed o rest (some (some (o.start.getD 0 + a.r + a.d)))
      (fun x hx => ht x (by simp [hx]))
      (by cases rest with | nil => trivial | cons b r => exact hc.2)
      (by cases rest with | nil => trivial | cons b r => exact hm.2)
      (by cases rest with | nil => trivial | cons b r => exact hn)
      (fun x hx => hil x (by simp [hx]))
      (fun D hD x hx => hw D hD x (by simp [hx]))
      (by cases rest with
          | nil => trivial
          | cons b r => simp only [LastOK]; have := hc.1; grind)
    have hwa : ∀ D, o.duration = some D → a.r + a.d ≤ D := fun D hD => hw D hD a (by simp) hta
    rcases a with ⟨_|ra, _|da, ob, j, il⟩ <;> simp [Timed] at hta
    simp only [Block.r, Block.d, Option.getD_some] at *
    -- start and end of the block
    have hbse : blockStartEnd o ⟨some ra, some da, ob, j, il⟩ =
        .ok (o.start.getD 0 + ra, some (o.start.getD 0 + ra + da)) := by
      simp only [blockStartEnd]
      cases hD : o.duration with
      | none => simp
      | some D =>
        have := hwa D hD
        have : ¬ (o.start.getD 0 + ra + da > o.start.getD 0 + D) := by grind
        simp [this]
    have hov : overlaps last (o.start.getD 0 + ra) = false := by
      rcases last with _ | _ | le <;> simp [overlaps, LastOK, Block.r] at hlast ⊢
      grind
    have hic : interpCheck ⟨some ra, some da, ob, j, il⟩ last (o.start.getD 0 + ra)
        (some (o.start.getD 0 + ra + da)) = none := by
      simp only [interpCheck]
      cases ob <;> simp
      intro hj
      cases il with
      | none => simp; grind
      | some x =>
        have := hila x (by simp [hasIL, hj]) rfl
        simp only [Block.d, Option.getD_some] at this
        simp; grind
    simp only [acceptGo, hbse, hov, hic]
    exact ih

theorem accept_untimed (o : Obj) (b : Block) (hu : Untimed b)
    (hil : ∀ D, o.duration = some D → ILokU D b ∧ 0 ≤ D) : accepted o [b] = .ok := by
  rcases b with ⟨_|r, _|d, ob, j, il⟩ <;> simp [Untimed] at hu
  simp only [accepted, acceptGo, blockStartEnd, overlaps]
  have hic : interpCheck ⟨none, none, ob, j, il⟩ none (o.start.getD 0)
      (o.duration.map (o.start.getD 0 + ·)) = none := by
    simp only [interpCheck]
    cases ob <;> simp
    cases hD : o.duration with
    | none => simp
    | some D =>
      have := hil D hD
      simp
      intro hj
      cases il with
      | none => simp; grind
      | some x =>
        have := this.1 x (by simp [hasIL, hj]) rfl
        simp; grind
  simp [hic, acceptGo]

end Earverif.TimingFix
