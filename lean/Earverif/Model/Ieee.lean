/-
Executable model of IEEE-754 binary64 rounding (round to nearest, ties to even)
over exact rationals.  Core Lean only (no Mathlib) so that the driver can run it.

`rn53 x` is the binary64 value nearest to the real number `x` *with an unbounded
exponent range*: it coincides with what the hardware (and therefore numpy's `/`
and `*` on float64) returns whenever the exact result is 0 or has magnitude in
[2^-1022, 2^1024); every value the PCM code computes on the way from a sample
code to a float and back lies in [2^-32, 2^32].  For a product `x * M` with `x` a
(sub)normal double and `M` an integer the result is also the same in the
subnormal range, because such a product is a multiple of 2^-1074 and hence exact.

What numpy does that this file mirrors:
  `a / b`, `a * b` on float64   ->  `rn53 (a / b)`, `rn53 (a * b)` on `Rat`
The sign of zero is not represented (`-0.0` and `0.0` are both `0`); nothing in
the PCM code observes it (`astype(int)` maps both to 0).
-/
namespace Earverif.Ieee

/-- Nearest integer, ties to the even integer. -/
def roundHalfEven (m : Rat) : Int :=
  let f := m.floor
  let r := m - (f : Rat)
  if r < 1/2 then f else if 1/2 < r then f + 1 else if f % 2 = 0 then f else f + 1

/-- `floor (log2 x)` for `x > 0`: estimate from the bit lengths of numerator and
denominator (off by at most one, downwards) and one correction. -/
def ilog2 (x : Rat) : Int :=
  let e0 : Int := (x.num.natAbs.log2 : Int) - (x.den.log2 : Int)
  if x < (2 : Rat) ^ e0 then e0 - 1 else e0

/-- Round `x` (positive, with `2^e ≤ x < 2^(e+1)`) to a multiple of `2^(e-52)`,
i.e. to 53 significant bits. -/
def rnAt (e : Int) (x : Rat) : Rat :=
  (roundHalfEven (x / (2 : Rat) ^ (e - 52)) : Rat) * (2 : Rat) ^ (e - 52)

/-- binary64 round-to-nearest-even of an exact rational (unbounded exponent). -/
def rn53 (x : Rat) : Rat :=
  if x = 0 then 0
  else if 0 < x then rnAt (ilog2 x) x
  else -(rnAt (ilog2 (-x)) (-x))

/-! ### Bit patterns (used by the driver to print/parse doubles exactly) -/

/-- The 64-bit pattern of a rational that is exactly a *normal* binary64 number
(or zero, printed as +0.0); `none` if `x` is not such a number. -/
def toBits (x : Rat) : Option Nat :=
  if x = 0 then some 0
  else
    let a := if 0 < x then x else -x
    let e := ilog2 a
    let m := a / (2 : Rat) ^ (e - 52)
    if m.den = 1 ∧ -1022 ≤ e ∧ e ≤ 1023 then
      some ((if 0 < x then 0 else 2 ^ 63) + (e + 1023).toNat * 2 ^ 52 + (m.num.toNat - 2 ^ 52))
    else none

/-- The exact value of a 64-bit pattern: normal and subnormal numbers exactly,
`±inf` as `±2^1024` (only ever fed to a clip), `none` for NaN. -/
def ofBits (w : Nat) : Option Rat :=
  let sign : Rat := if w / 2 ^ 63 % 2 = 1 then -1 else 1
  let ex : Nat := w / 2 ^ 52 % 2048
  let fr : Nat := w % 2 ^ 52
  if ex = 2047 then
    if fr = 0 then some (sign * (2 : Rat) ^ (1024 : Int)) else none
  else if ex = 0 then some (sign * (fr : Rat) * (2 : Rat) ^ (-1074 : Int))
  else some (sign * (((2 ^ 52 + fr : Nat) : Nat) : Rat) * (2 : Rat) ^ ((ex : Int) - 1075))

end Earverif.Ieee
