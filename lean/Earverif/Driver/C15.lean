/- Line protocol for the C15 timing-repair model.
   in : `<mode> | <obj> <obj> ... | <block> <block> ...`
        mode  = `fix` (fix_blockFormat_timings) or `dur` (fix_blockFormat_durations only)
        obj   = `<start>,<duration>`            each a rational `num/den` or `-` for None
        block = `<rtime>,<duration>,<isObjects 0|1>,<jp 0|1>,<il>`
   out (fix): `pre <verdict>... | ok | <blocks> | <warn>... | <verdict>... | <blocks2> | <warn2>...`
          or  `pre <verdict>... | error <valueError|assertion>`
        where verdicts are per object (for the single pseudo-object `-,-` when there are none),
        `pre` = renderer verdicts on the unrepaired blocks, blocks2/warn2 = result of repairing
        the repaired blocks again (`error <kind>` if that raises).
   out (dur): `<blocks> | <warn>...`
   warn = `<kind>:<block index>`; `bad-op` for a malformed line. -/
import Earverif.Model.TimingFix
import Earverif.Driver.Util
open Earverif.TimingFix Earverif.Driver

def parseRat? (s : String) : Option Rat :=
  match s.splitOn "/" with
  | [n, d] => do
    let n ← n.toInt?
    let d ← d.toNat?
    if d == 0 then none else some (mkRat n d)
  | _ => none

def parseORat? (s : String) : Option (Option Rat) :=
  if s == "-" then some none else (parseRat? s).map some

def parseBool? (s : String) : Option Bool :=
  if s == "0" then some false else if s == "1" then some true else none

def parseObj? (s : String) : Option Obj :=
  match s.splitOn "," with
  | [a, b] => do some ⟨← parseORat? a, ← parseORat? b⟩
  | _ => none

def parseBlock? (s : String) : Option Block :=
  match s.splitOn "," with
  | [r, d, o, j, il] => do
    some ⟨← parseORat? r, ← parseORat? d, ← parseBool? o, ← parseBool? j, ← parseORat? il⟩
  | _ => none

def showRat (q : Rat) : String := s!"{q.num}/{q.den}"

def showORat : Option Rat → String
  | none => "-"
  | some q => showRat q

def showBool (b : Bool) : String := if b then "1" else "0"

def showBlock (b : Block) : String :=
  s!"{showORat b.rtime},{showORat b.duration},{showBool b.isObjects},{showBool b.jp},{showORat b.il}"

def showKind : WKind → String
  | .expanded => "expanded"
  | .contracted => "contracted"
  | .ilContracted => "ilContracted"
  | .ilReducedToObject => "ilReducedToObject"
  | .endAdvanced => "endAdvanced"
  | .endAdvancedIl => "endAdvancedIl"

def showWarn (w : Warn) : String := s!"{showKind w.kind}:{w.block}"

def showErr : Err → String
  | .valueError => "valueError"
  | .assertion => "assertion"

def showVerdict : Verdict → String
  | .ok => "ok"
  | .endsAfterObject => "endsAfterObject"
  | .mixedTiming => "mixedTiming"
  | .overlap => "overlap"
  | .interpTooLong => "interpTooLong"
  | .assertInf => "assertInf"

def spaced (xs : List String) : String := String.intercalate " " xs

def verdicts (objs : List Obj) (bs : List Block) : String :=
  let os := if objs.isEmpty then [(⟨none, none⟩ : Obj)] else objs
  spaced (os.map fun o => showVerdict (accepted o bs))

def answer (line : String) : String :=
  match (line.splitOn "|").map words with
  | [[mode], os, bs] =>
    match os.mapM parseObj?, bs.mapM parseBlock? with
    | some objs, some blocks =>
      if mode == "fix" then
        let pre := "pre " ++ verdicts objs blocks
        match fixTimings objs blocks with
        | .error e => s!"{pre} | error {showErr e}"
        | .ok (out, ws) =>
          let second := match fixTimings objs out with
            | .error e => s!"error {showErr e} | "
            | .ok (out2, ws2) => s!"{spaced (out2.map showBlock)} | {spaced (ws2.map showWarn)}"
          s!"{pre} | ok | {spaced (out.map showBlock)} | {spaced (ws.map showWarn)} | {verdicts objs out} | {second}"
      else if mode == "dur" then
        let (out, ws) := fixDurationsOnly blocks
        s!"{spaced (out.map showBlock)} | {spaced (ws.map showWarn)}"
      else "bad-op"
    | _, _ => "bad-op"
  | _ => "bad-op"

def main : IO Unit := lineLoop answer
