/-
Model of `ear.fileio.adm.time_format` (`parse_time`, `parse_time_v1`, `unparse_time`,
`FractionalTime`).  Core Lean only.

Strings are `List Char`.  A time is either a plain `Fraction` (`Time.dec q`, `q : Rat`
normalised as Python's `Fraction` is) or a `FractionalTime`, identified by the pair
(`format_numerator`, `format_denominator`) = (`num`, `den`), *not* normalised
(`FractionalTime(2, 4)` is `Time.frac 2 4`; its value is `1/2`).

What is not modelled (stated, searched only):
* negative times (`_unparse_decimal` asserts `sign == 0`; result `Unparsed.negative`);
* the rounded string printed, with a warning, when a v1 document holds a time that is not
  exactly representable in `Decimal`'s 28 significant digits (`Unparsed.lossy`);
* Python's `\d` / `int()` accepting non-ASCII decimal digits (the model is ASCII only);
* `Decimal`'s exponent limit (`Emin = -999999`), i.e. more than ~10^6 decimal places.
-/
import Earverif.Model.C08Digits

namespace Earverif.TimeFormat
open Earverif.Digits

inductive Time where
  /-- a plain `fractions.Fraction` (seconds) -/
  | dec (q : Rat)
  /-- `FractionalTime` with `format_numerator = num`, `format_denominator = den` -/
  | frac (num den : Nat)
  deriving Repr, BEq, DecidableEq

/-- value in seconds (what the rest of the library computes with) -/
def Time.value : Time → Rat
  | .dec q => q
  | .frac n d => mkRat n d

/-! ### unparse -/

/-- `_unparse_whole_part`: `f"{hours:02d}:{minutes:02d}:{seconds:02d}"` after two `divmod`s.
Hours are *not* limited to two digits. -/
def wholePart (s : Nat) : List Char :=
  decPad 2 (s / 60 / 60) ++ ':' :: decPad 2 (s / 60 % 60) ++ ':' :: decPad 2 (s % 60)

/-- `_unparse_fractional` on (format numerator, format denominator):
`seconds, fraction = divmod(time, 1)`; `numerator = int(fraction * format_denominator)`. -/
def unparseFractional (n d : Nat) : List Char :=
  wholePart (n / d) ++ '.' :: decStr (n % d) ++ 'S' :: decStr d

/-- Exact decimal expansion of `n/d` (`n < d`) by long division, at most `fuel` places:
`some ds` iff the expansion terminates within `fuel` places; `ds` has no trailing zero and
is `[]` for `n = 0`.  This is the digit tuple of `Decimal(num)/Decimal(den) % 1` when the
division is exact (the quotient is then reduced to the shortest coefficient). -/
def fracDigits (d : Nat) : Nat → Nat → Option (List Nat)
  | 0, n => if n = 0 then some [] else none
  | fuel + 1, n =>
    if n = 0 then some []
    else (fracDigits d fuel (n * 10 % d)).map (fun ds => n * 10 / d :: ds)

/-- number of decimal places that can ever be needed for denominator `d`
(`d ∣ 10^k` implies `d ∣ 10^(log2 d + 1)`; proved in `Props/C08.lean`) -/
def placesBound (d : Nat) : Nat := Nat.log2 d + 1

/-- `Decimal` context precision: the coefficient of an exact quotient must be `< 10^28`. -/
def decimalPrec : Nat := 28

/-- The decimal branch of `unparse_time` for `q ≥ 0`:
`decimal = Decimal(num)/Decimal(den)`; `if decimal == time: _unparse_decimal(decimal)`.
`none` when the quotient is not exact in 28 significant digits. -/
def unparseDecimal? (q : Rat) : Option (List Char) :=
  let num := q.num.toNat
  let w := num / q.den
  match fracDigits q.den (placesBound q.den) (num % q.den) with
  | none => none
  | some ds =>
    if w * 10 ^ ds.length + ofDigits 10 ds < 10 ^ decimalPrec then
      some (wholePart w ++ '.' :: (if ds = [] then ['0'] else ds.map decChar))
    else none

inductive Unparsed where
  | ok (s : List Char)
  /-- v1 (`allow_fractional=False`) and not exactly representable: a warning is issued and a
  rounded decimal is printed (not modelled) -/
  | lossy
  /-- negative time: `AssertionError` / garbage, outside the model -/
  | negative
  deriving Repr, BEq, DecidableEq

/-- `unparse_time(time, allow_fractional)`. -/
def unparseTime (allowFractional : Bool) (t : Time) : Unparsed :=
  match allowFractional, t with
  | true, .frac n d => .ok (unparseFractional n d)
  | _, t =>
    let q := t.value
    if q < 0 then .negative
    else match unparseDecimal? q with
      | some s => .ok s
      | none =>
        if allowFractional then .ok (unparseFractional q.num.toNat q.den) else .lossy

/-! ### parse -/

/-- the maximal run of leading digits and the rest (the regexp is deterministic here: every digit
group is followed by a literal non-digit or the end) -/
def spanDec (cs : List Char) : List Char × List Char := (cs.takeWhile isDec, cs.dropWhile isDec)

/-- one `\d{1,2}` field followed by something that is not a digit -/
def field12 (cs : List Char) : Option (Nat × List Char) :=
  let p := spanDec cs
  if p.1.length = 0 ∨ 2 < p.1.length then none else some (decNat p.1, p.2)

/-- `\d+` -/
def digits1 (cs : List Char) : Option (List Char × List Char) :=
  let p := spanDec cs
  if p.1.length = 0 then none else some p

def expect (c : Char) : List Char → Option (List Char)
  | x :: xs => if x = c then some xs else none
  | [] => none

/-- the part of `parse_time` after `HH:MM:SS.`: the `num` group, the optional `S<den>` group and
the arithmetic; `whole` = `(hour * 60 + minute) * 60`, `ss` = `int(whole_s)` -/
def parseTail (whole ss : Nat) (r : List Char) : Option Time := do
  let (num, r) ← digits1 r
  match r with
  | [] =>
    -- decimal: `Fraction("SS.ddd")` is `(SS * 10^k + ddd) / 10^k`
    some (.dec ((whole : Int) + mkRat ((ss * 10 ^ num.length + decNat num : Nat) : Int) (10 ^ num.length)))
  | 'S' :: r =>
    let (den, r) ← digits1 r
    match r with
    | [] =>
      let n := decNat num
      let d := decNat den
      -- "numerator must be less than denominator" (also rejects a zero denominator)
      if n < d then some (.frac ((whole + ss) * d + n) d) else none
    | _ => none
  | _ => none

/-- `parse_time`: the regular expression `_TIME_RE` (anchored at both ends by `match` and
`\Z`) followed by the arithmetic.  `none` = `ValueError`. -/
def parseTime (cs : List Char) : Option Time := do
  let (hh, r) ← field12 cs
  let r ← expect ':' r
  let (mm, r) ← field12 r
  let r ← expect ':' r
  let (ss, r) ← field12 r
  let r ← expect '.' r
  parseTail ((hh * 60 + mm) * 60) ss r

/-- `parse_time_v1`: fractional times are rejected before BS.2076-2. -/
def parseTimeV1 (cs : List Char) : Option Time :=
  match parseTime cs with
  | some (.dec q) => some (.dec q)
  | _ => none

end Earverif.TimeFormat
