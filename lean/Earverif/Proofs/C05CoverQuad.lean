/- C05, Stage 3 for QuadRegion — `QuadAcceptsOnCone GainCalc.quadRoot` from a decidable sign certificate.

   For the ordered corners `a b c d` of a quad (`order` applied) the quadratic of `pan_axis` is
   `f(t) = det(a + t(b−a), d + t(c−d), p)` (`panPoly_eval`); it is LINEAR in `p`, so its sign on the cone of the corners
   is decided by its signs at the four corners.  Certificate (`QuadSigns`, checked by the kernel on the table):
     * the four corner triples `abc abd acd bcd` have determinants of one sign σ (strictly convex position);
     * `σ f(−ε) ≤ 0` and `σ f(1+ε) ≥ 0` at every corner (ε = 1e-10), for both pan axes;
     * `e · corner` has one strict sign for `e = (c−a) × (d−b)`.
   Consequences for `p ≠ 0` in the cone: `σ f(0) ≤ 0 ≤ σ f(1)`, not both zero, so `f` has a root in [0,1] and no root in
   (−ε,0) ∪ (1,1+ε) (`roots_in_unit_pos`); the closed-form selection `quadRoot` (larger-magnitude root first, the code's
   ±1e-10 acceptance window, clip) therefore returns an EXACT root in [0,1] (`quadRoot_of_unit_root`), for both axes;
   with exact roots `x y` the direction is orthogonal to `u × v` and `v' × u'` (the two pan lines), whose cross product
   is `M(x,y) · Q(x,y)` with `σ M > 0` (`cross_cross_bil`), so `p ∥ Q` and `Q · p > 0` (`bil_dot_pos`): the final test of
   `QuadRegion.handle` passes. -/
import Earverif.Proofs.C05CoverTotal
import Earverif.Model.GainCalcConcrete
import Earverif.Proofs.C01Real
import Mathlib.Topology.Algebra.Order.Field
import Mathlib.Tactic.FunProp

namespace Earverif.PointSource.Cover
open Earverif.PointSource
open Earverif.GainCalc (quadRoot acceptRoot firstSome eqS eqS_real)

/-! ### the quadratic: where its roots are -/

/-- `pan_axis`' tolerance -/
noncomputable def eps : ℝ := 1 / 10000000000

theorem eps_pos : 0 < eps := by unfold eps; norm_num

/-- sign conditions at `-ε, 0, 1, 1+ε` (case σ = +1): a root in [0,1], and every root in (−ε, 1+ε) is in [0,1] -/
theorem roots_in_unit_pos (A B C : ℝ) (hm : A * eps ^ 2 - B * eps + C ≤ 0) (h0 : C ≤ 0) (h1 : 0 ≤ A + B + C)
    (hp : 0 ≤ A * (1 + eps) ^ 2 + B * (1 + eps) + C) (hne : ¬(C = 0 ∧ A + B + C = 0)) :
    (∃ t, 0 ≤ t ∧ t ≤ 1 ∧ A * t ^ 2 + B * t + C = 0) ∧
      ∀ r, -eps < r → r < 1 + eps → A * r ^ 2 + B * r + C = 0 → 0 ≤ r ∧ r ≤ 1 := by
  have he := eps_pos
  constructor
  · -- intermediate value
    have hcont : ContinuousOn (fun t : ℝ => A * t ^ 2 + B * t + C) (Set.Icc 0 1) := by fun_prop
    have := intermediate_value_Icc (zero_le_one) hcont
    have hmem : (0 : ℝ) ∈ Set.Icc ((fun t : ℝ => A * t ^ 2 + B * t + C) 0) ((fun t : ℝ => A * t ^ 2 + B * t + C) 1) := by
      constructor <;> simp <;> linarith
    obtain ⟨t, ht, hft⟩ := this hmem
    exact ⟨t, ht.1, ht.2, hft⟩
  · intro r hr1 hr2 hr
    constructor
    · by_contra hneg
      have hr0 : r < 0 := not_le.mp hneg
      -- f(t) = A (t - r)(t - s) + linear remainder: use f(r) = 0 to eliminate C
      have hC : C = -(A * r ^ 2 + B * r) := by linarith
      -- f(0) = -r (A r + B) ≤ 0  ⇒ A r + B ≤ 0
      have e0 : A * r + B ≤ 0 := by
        have : -r * (A * r + B) ≤ 0 := by nlinarith
        by_contra hh
        have : 0 < -r * (A * r + B) := mul_pos (by linarith) (not_le.mp hh)
        linarith
      -- f(1) = (1 - r)(A (1 + r) + B) ≥ 0 ⇒ A (1 + r) + B ≥ 0
      have e1 : 0 ≤ A * (1 + r) + B := by
        have : 0 ≤ (1 - r) * (A * (1 + r) + B) := by nlinarith
        by_contra hh
        have : (1 - r) * (A * (1 + r) + B) < 0 := mul_neg_of_pos_of_neg (by linarith) (not_le.mp hh)
        linarith
      -- f(-ε) = (-ε - r)(A (r - ε) + B) ≤ 0 with -ε - r < 0 ⇒ A (r - ε) + B ≥ 0
      have e2 : 0 ≤ A * (r - eps) + B := by
        have : (-eps - r) * (A * (r - eps) + B) ≤ 0 := by nlinarith
        by_contra hh
        have : 0 < (-eps - r) * (A * (r - eps) + B) := mul_pos_of_neg_of_neg (by linarith) (not_le.mp hh)
        linarith
      -- e0, e2: A ε ≤ 0 hence A ≤ 0; e0, e1: A ≥ 0
      have hA1 : A ≤ 0 := by nlinarith
      have hA2 : 0 ≤ A := by nlinarith
      have hA : A = 0 := le_antisymm hA1 hA2
      subst hA
      have hB : B = 0 := by nlinarith
      subst hB
      apply hne
      constructor <;> nlinarith
    · by_contra hneg
      have hr0 : 1 < r := not_le.mp hneg
      have hC : C = -(A * r ^ 2 + B * r) := by linarith
      -- f(1) = (1 - r)(A (1 + r) + B) ≥ 0 with 1 - r < 0 ⇒ A (1 + r) + B ≤ 0
      have e1 : A * (1 + r) + B ≤ 0 := by
        have : 0 ≤ (1 - r) * (A * (1 + r) + B) := by nlinarith
        by_contra hh
        have : (1 - r) * (A * (1 + r) + B) < 0 := mul_neg_of_neg_of_pos (by linarith) (not_le.mp hh)
        linarith
      -- f(0) = -r (A r + B) ≤ 0 with r > 0 ⇒ A r + B ≥ 0
      have e0 : 0 ≤ A * r + B := by
        have : -r * (A * r + B) ≤ 0 := by nlinarith
        by_contra hh
        have : 0 < -r * (A * r + B) := mul_pos_of_neg_of_neg (by linarith) (not_le.mp hh)
        linarith
      -- f(1+ε) = (1 + ε - r)(A (1 + ε + r) + B) ≥ 0 with 1 + ε - r > 0 ⇒ A (1 + ε + r) + B ≥ 0
      have e2 : 0 ≤ A * (1 + eps + r) + B := by
        have : 0 ≤ (1 + eps - r) * (A * (1 + eps + r) + B) := by nlinarith
        by_contra hh
        have : (1 + eps - r) * (A * (1 + eps + r) + B) < 0 := mul_neg_of_pos_of_neg (by linarith) (not_le.mp hh)
        linarith
      have hA1 : A ≤ 0 := by nlinarith
      have hA2 : 0 ≤ A := by nlinarith
      have hA : A = 0 := le_antisymm hA1 hA2
      subst hA
      have hB : B = 0 := by nlinarith
      subst hB
      apply hne
      constructor <;> nlinarith

theorem acceptRoot_of_unit (r : ℝ) (h0 : 0 ≤ r) (h1 : r ≤ 1) : acceptRoot r = some r := by
  have he := eps_pos
  unfold eps at he
  simp only [acceptRoot, GainCalc.k_real, GainCalc.one_real, GainCalc.zero_real]
  have c1 : (((-1 / 10000000000 : ℚ)) : ℝ) = -(1 / 10000000000) := by push_cast; ring
  have c2 : (((1 / 10000000000 : ℚ)) : ℝ) = 1 / 10000000000 := by push_cast; ring
  rw [c1, c2, if_pos ⟨by linarith, by linarith⟩]
  simp only [GainCalc.clip, if_neg (not_lt.mpr h0), if_neg (not_lt.mpr h1)]

theorem acceptRoot_some (r x : ℝ) (h : acceptRoot r = some x) : -eps < r ∧ r < 1 + eps := by
  simp only [acceptRoot, GainCalc.k_real, GainCalc.one_real, GainCalc.zero_real] at h
  have c1 : (((-1 / 10000000000 : ℚ)) : ℝ) = -(1 / 10000000000) := by push_cast; ring
  have c2 : (((1 / 10000000000 : ℚ)) : ℝ) = 1 / 10000000000 := by push_cast; ring
  rw [c1, c2] at h
  split at h
  · rename_i hh; unfold eps; exact hh
  · exact absurd h (by simp)

/-- The closed-form root selection finds an exact root in [0,1] whenever the quadratic (not identically zero) has a
    root in [0,1] and no root in (−ε, 0) ∪ (1, 1+ε). -/
theorem quadRoot_of_unit_root (A B C : ℝ) (hex : ∃ t, 0 ≤ t ∧ t ≤ 1 ∧ A * t ^ 2 + B * t + C = 0)
    (hall : ∀ r, -eps < r → r < 1 + eps → A * r ^ 2 + B * r + C = 0 → 0 ≤ r ∧ r ≤ 1)
    (hne : ¬(A = 0 ∧ B = 0 ∧ C = 0)) :
    ∃ x, quadRoot (A, B, C) = some x ∧ 0 ≤ x ∧ x ≤ 1 ∧ A * x ^ 2 + B * x + C = 0 := by
  obtain ⟨t, ht0, ht1, hft⟩ := hex
  unfold quadRoot
  simp only [GainCalc.zero_real, GainCalc.k_real]
  by_cases hA : A = 0
  · have hA' : eqS A 0 = true := (eqS_real A 0).mpr hA
    rw [if_pos hA']
    subst hA
    by_cases hB : B = 0
    · subst hB
      exfalso; apply hne
      exact ⟨rfl, rfl, by linarith⟩
    · have hB' : ¬ eqS B 0 = true := fun h => hB ((eqS_real B 0).mp h)
      rw [if_neg hB']
      have ht : t = -C / B := by field_simp; linarith
      rw [← ht, acceptRoot_of_unit t ht0 ht1]
      exact ⟨t, rfl, ht0, ht1, hft⟩
  · have hA' : ¬ eqS A 0 = true := fun h => hA ((eqS_real A 0).mp h)
    rw [if_neg hA']
    have c4 : (((4 : ℚ)) : ℝ) = 4 := by push_cast; ring
    have c2 : (((2 : ℚ)) : ℝ) = 2 := by push_cast; ring
    simp only [c4, c2]
    have hD : 0 ≤ B * B - 4 * A * C := by
      have : B * B - 4 * A * C = (2 * A * t + B) ^ 2 := by linear_combination (-4 * A) * hft
      rw [this]; positivity
    rw [if_neg (not_lt.mpr hD)]
    simp only [GainCalc.sqrt_real]
    set s := Real.sqrt (B * B - 4 * A * C) with hs
    have hss : s * s = B * B - 4 * A * C := Real.mul_self_sqrt hD
    have hs0 : 0 ≤ s := Real.sqrt_nonneg _
    -- q
    set q : ℝ := if B < 0 then -(B - s) / 2 else -(B + s) / 2 with hq
    have hqq : q * q + B * q + A * C = 0 := by
      rw [hq]
      split <;> nlinarith
    have hr1 : A * (q / A) ^ 2 + B * (q / A) + C = 0 := by
      field_simp
      linear_combination hqq
    by_cases hq0 : q = 0
    · have hq0' : eqS q 0 = true := (eqS_real q 0).mpr hq0
      rw [if_pos hq0', hq0, zero_div]
      rw [hq0, zero_div] at hr1
      rw [acceptRoot_of_unit 0 (le_refl _) zero_le_one]
      exact ⟨0, rfl, le_refl _, zero_le_one, hr1⟩
    · have hq0' : ¬ eqS q 0 = true := fun h => hq0 ((eqS_real q 0).mp h)
      rw [if_neg hq0']
      have hr2 : A * (C / q) ^ 2 + B * (C / q) + C = 0 := by
        field_simp
        linear_combination C * hqq
      -- t is one of the two
      have ht12 : t = q / A ∨ t = C / q := by
        have hprod : (A * t - q) * (t * q - C) = 0 := by linear_combination q * hft - t * hqq
        rcases mul_eq_zero.mp hprod with h | h
        · left; field_simp; linarith
        · right; field_simp; linarith
      cases h1 : acceptRoot (q / A) with
      | some x =>
        simp only [firstSome]
        obtain ⟨ha, hb⟩ := acceptRoot_some _ _ h1
        obtain ⟨hx0, hx1⟩ := hall _ ha hb hr1
        rw [acceptRoot_of_unit _ hx0 hx1] at h1
        simp only [Option.some.injEq] at h1
        subst h1
        exact ⟨_, rfl, hx0, hx1, hr1⟩
      | none =>
        simp only [firstSome]
        rcases ht12 with h | h
        · rw [← h, acceptRoot_of_unit t ht0 ht1] at h1
          exact absurd h1 (by simp)
        · rw [← h, acceptRoot_of_unit t ht0 ht1]
          exact ⟨t, rfl, ht0, ht1, hft⟩

/-! ### geometry of the two pan lines -/

noncomputable def lerp (t : ℝ) (a b : Vec3 ℝ) : Vec3 ℝ := add3 a (smul3 t (sub3 b a))

/-- the quadratic of `pan_axis` is `t ↦ det(a + t(b−a), d + t(c−d), p)` -/
theorem panPoly_eval (a b c d p : Vec3 ℝ) (t : ℝ) :
    (QuadRegion.panPoly a b c d p).1 * t ^ 2 + (QuadRegion.panPoly a b c d p).2.1 * t + (QuadRegion.panPoly a b c d p).2.2
      = det3 (lerp t a b, lerp t d c, p) := by
  obtain ⟨a0, a1, a2⟩ := a
  obtain ⟨b0, b1, b2⟩ := b
  obtain ⟨c0, c1, c2⟩ := c
  obtain ⟨d0, d1, d2⟩ := d
  obtain ⟨p0, p1, p2⟩ := p
  simp only [QuadRegion.panPoly, lerp, det3, dot3, cross3, add3, sub3, smul3]; ring

/-- the bilinear point -/
noncomputable def bil (x y : ℝ) (a b c d : Vec3 ℝ) : Vec3 ℝ :=
  add3 (add3 (smul3 ((1 - x) * (1 - y)) a) (smul3 (x * (1 - y)) b)) (add3 (smul3 (x * y) c) (smul3 ((1 - x) * y) d))

/-- `M(x,y)`: the common factor -/
noncomputable def mfac (x y : ℝ) (a b c d : Vec3 ℝ) : ℝ :=
  (1 - y) * ((1 - x) * det3 (a, b, d) + x * det3 (a, b, c)) + y * ((1 - x) * det3 (a, c, d) + x * det3 (b, c, d))

/-- `(u × v) × (v' × u') = M · Q` -/
theorem cross_cross_bil (a b c d : Vec3 ℝ) (x y : ℝ) :
    cross3 (cross3 (lerp x a b) (lerp x d c)) (cross3 (lerp y b c) (lerp y a d)) = smul3 (mfac x y a b c d) (bil x y a b c d) := by
  obtain ⟨a0, a1, a2⟩ := a
  obtain ⟨b0, b1, b2⟩ := b
  obtain ⟨c0, c1, c2⟩ := c
  obtain ⟨d0, d1, d2⟩ := d
  simp only [mfac, bil, lerp, det3, cross3, add3, sub3, smul3]
  refine Prod.ext ?_ (Prod.ext ?_ ?_) <;> simp only <;> ring

theorem det3_eq_dot_cross (u v p : Vec3 ℝ) : det3 (u, v, p) = dot3 (cross3 u v) p := by
  obtain ⟨u0, u1, u2⟩ := u
  obtain ⟨v0, v1, v2⟩ := v
  obtain ⟨p0, p1, p2⟩ := p
  simp only [det3, dot3, cross3]; ring

/-- `p ⟂ N₁, N₂`  ⇒  `p ∥ N₁ × N₂` (scalar form) -/
theorem parallel_of_perp (N1 N2 p z e : Vec3 ℝ) (h1 : dot3 N1 p = 0) (h2 : dot3 N2 p = 0) :
    dot3 z p * dot3 e (cross3 N1 N2) = dot3 z (cross3 N1 N2) * dot3 e p := by
  obtain ⟨m0, m1, m2⟩ := N1
  obtain ⟨n0, n1, n2⟩ := N2
  obtain ⟨p0, p1, p2⟩ := p
  obtain ⟨z0, z1, z2⟩ := z
  obtain ⟨e0, e1, e2⟩ := e
  simp only [dot3, cross3] at *
  linear_combination
    (-((z1 * e2 - z2 * e1) * n0 + (z2 * e0 - z0 * e2) * n1 + (z0 * e1 - z1 * e0) * n2)) * h1 +
    ((z1 * e2 - z2 * e1) * m0 + (z2 * e0 - z0 * e2) * m1 + (z0 * e1 - z1 * e0) * m2) * h2

theorem bil_perp_x (a b c d : Vec3 ℝ) (x y : ℝ) :
    dot3 (cross3 (lerp x a b) (lerp x d c)) (bil x y a b c d) = 0 := by
  obtain ⟨a0, a1, a2⟩ := a
  obtain ⟨b0, b1, b2⟩ := b
  obtain ⟨c0, c1, c2⟩ := c
  obtain ⟨d0, d1, d2⟩ := d
  simp only [bil, lerp, dot3, cross3, add3, sub3, smul3]; ring

theorem bil_perp_y (a b c d : Vec3 ℝ) (x y : ℝ) :
    dot3 (cross3 (lerp y b c) (lerp y a d)) (bil x y a b c d) = 0 := by
  obtain ⟨a0, a1, a2⟩ := a
  obtain ⟨b0, b1, b2⟩ := b
  obtain ⟨c0, c1, c2⟩ := c
  obtain ⟨d0, d1, d2⟩ := d
  simp only [bil, lerp, dot3, cross3, add3, sub3, smul3]; ring

theorem convex_pos {t p q : ℝ} (h0 : 0 ≤ t) (h1 : t ≤ 1) (hp : 0 < p) (hq : 0 < q) : 0 < (1 - t) * p + t * q := by
  rcases eq_or_lt_of_le h1 with rfl | hlt
  · simpa using hq
  · have : 0 < (1 - t) * p := mul_pos (by linarith) hp
    have : 0 ≤ t * q := mul_nonneg h0 hq.le
    linarith

theorem dot3_bil (e a b c d : Vec3 ℝ) (x y : ℝ) :
    dot3 e (bil x y a b c d) = (1 - y) * ((1 - x) * dot3 e a + x * dot3 e b) + y * ((1 - x) * dot3 e d + x * dot3 e c) := by
  obtain ⟨a0, a1, a2⟩ := a
  obtain ⟨b0, b1, b2⟩ := b
  obtain ⟨c0, c1, c2⟩ := c
  obtain ⟨d0, d1, d2⟩ := d
  obtain ⟨e0, e1, e2⟩ := e
  simp only [bil, dot3, add3, smul3]; ring

theorem dot3_self_pos (q e : Vec3 ℝ) (h : dot3 e q ≠ 0) : 0 < dot3 q q := by
  obtain ⟨q0, q1, q2⟩ := q
  obtain ⟨e0, e1, e2⟩ := e
  simp only [dot3] at *
  by_contra hn
  have h0 : q0 * q0 + q1 * q1 + q2 * q2 = 0 := le_antisymm (not_lt.mp hn) (by nlinarith [mul_self_nonneg q0, mul_self_nonneg q1, mul_self_nonneg q2])
  have e0' : q0 = 0 := by nlinarith [mul_self_nonneg q0, mul_self_nonneg q1, mul_self_nonneg q2]
  have e1' : q1 = 0 := by nlinarith [mul_self_nonneg q0, mul_self_nonneg q1, mul_self_nonneg q2]
  have e2' : q2 = 0 := by nlinarith [mul_self_nonneg q0, mul_self_nonneg q1, mul_self_nonneg q2]
  apply h; rw [e0', e1', e2']; ring

/-- **the final sign test of `QuadRegion.handle` passes** when both pan values are exact roots in [0,1] -/
theorem bil_dot_pos (a b c d p e : Vec3 ℝ) (x y s s' : ℝ) (hx0 : 0 ≤ x) (hx1 : x ≤ 1) (hy0 : 0 ≤ y) (hy1 : y ≤ 1)
    (hD1 : 0 < s * det3 (a, b, c)) (hD2 : 0 < s * det3 (a, b, d)) (hD3 : 0 < s * det3 (a, c, d))
    (hD4 : 0 < s * det3 (b, c, d))
    (hea : 0 < s' * dot3 e a) (heb : 0 < s' * dot3 e b) (hec : 0 < s' * dot3 e c) (hed : 0 < s' * dot3 e d)
    (hep : 0 < s' * dot3 e p)
    (hfx : det3 (lerp x a b, lerp x d c, p) = 0) (hfy : det3 (lerp y b c, lerp y a d, p) = 0) :
    0 < dot3 (bil x y a b c d) p := by
  rw [det3_eq_dot_cross] at hfx hfy
  have hL := parallel_of_perp _ _ p (bil x y a b c d) e hfx hfy
  rw [cross_cross_bil] at hL
  have e1 : dot3 e (smul3 (mfac x y a b c d) (bil x y a b c d)) = mfac x y a b c d * dot3 e (bil x y a b c d) := dot3_smul _ _ _
  have e2 : dot3 (bil x y a b c d) (smul3 (mfac x y a b c d) (bil x y a b c d)) =
      mfac x y a b c d * dot3 (bil x y a b c d) (bil x y a b c d) := dot3_smul _ _ _
  rw [e1, e2] at hL
  have hM : 0 < s * mfac x y a b c d := by
    have := convex_pos hy0 hy1 (convex_pos hx0 hx1 hD2 hD1) (convex_pos hx0 hx1 hD3 hD4)
    unfold mfac
    linarith [this, show s * ((1 - y) * ((1 - x) * det3 (a, b, d) + x * det3 (a, b, c)) +
      y * ((1 - x) * det3 (a, c, d) + x * det3 (b, c, d))) = (1 - y) * ((1 - x) * (s * det3 (a, b, d)) + x * (s * det3 (a, b, c))) +
      y * ((1 - x) * (s * det3 (a, c, d)) + x * (s * det3 (b, c, d))) by ring]
  have hM0 : mfac x y a b c d ≠ 0 := by
    intro h; rw [h, mul_zero] at hM; exact lt_irrefl _ hM
  have hQe : 0 < s' * dot3 e (bil x y a b c d) := by
    have := convex_pos hy0 hy1 (convex_pos hx0 hx1 hea heb) (convex_pos hx0 hx1 hed hec)
    rw [dot3_bil]
    linarith [this, show s' * ((1 - y) * ((1 - x) * dot3 e a + x * dot3 e b) + y * ((1 - x) * dot3 e d + x * dot3 e c)) =
      (1 - y) * ((1 - x) * (s' * dot3 e a) + x * (s' * dot3 e b)) + y * ((1 - x) * (s' * dot3 e d) + x * (s' * dot3 e c)) by ring]
  have hQQ : 0 < dot3 (bil x y a b c d) (bil x y a b c d) :=
    dot3_self_pos _ e (by intro h; rw [h, mul_zero] at hQe; exact lt_irrefl _ hQe)
  have hcancel : dot3 (bil x y a b c d) p * (s' * dot3 e (bil x y a b c d)) =
      dot3 (bil x y a b c d) (bil x y a b c d) * (s' * dot3 e p) := by
    have := mul_left_cancel₀ hM0 (by linear_combination hL :
      mfac x y a b c d * (dot3 (bil x y a b c d) p * dot3 e (bil x y a b c d)) =
        mfac x y a b c d * (dot3 (bil x y a b c d) (bil x y a b c d) * dot3 e p))
    linear_combination s' * this
  have hpos : 0 < dot3 (bil x y a b c d) p * (s' * dot3 e (bil x y a b c d)) := by
    rw [hcancel]; exact mul_pos hQQ hep
  exact (pos_iff_pos_of_mul_pos hpos).mpr hQe

/-! ### one pan axis: the selected root is exact -/

/-- `10^10 = 1/ε` -/
noncomputable def bigE : ℝ := 10000000000

theorem bigE_pos : 0 < bigE := by unfold bigE; norm_num
theorem eps_bigE : eps = 1 / bigE := by unfold eps bigE; norm_num

/-- `p = ga·a + gb·b + gc·c + gd·d` -/
noncomputable def comb4 (ga gb gc gd : ℝ) (a b c d : Vec3 ℝ) : Vec3 ℝ :=
  add3 (add3 (smul3 ga a) (smul3 gb b)) (add3 (smul3 gc c) (smul3 gd d))

theorem det3_comb4 (u v a b c d : Vec3 ℝ) (ga gb gc gd : ℝ) :
    det3 (u, v, comb4 ga gb gc gd a b c d) = ga * det3 (u, v, a) + gb * det3 (u, v, b) + gc * det3 (u, v, c) + gd * det3 (u, v, d) := by
  obtain ⟨a0, a1, a2⟩ := a
  obtain ⟨b0, b1, b2⟩ := b
  obtain ⟨c0, c1, c2⟩ := c
  obtain ⟨d0, d1, d2⟩ := d
  obtain ⟨u0, u1, u2⟩ := u
  obtain ⟨v0, v1, v2⟩ := v
  simp only [comb4, det3, add3, smul3]; ring

theorem dot3_comb4 (e a b c d : Vec3 ℝ) (ga gb gc gd : ℝ) :
    dot3 e (comb4 ga gb gc gd a b c d) = ga * dot3 e a + gb * dot3 e b + gc * dot3 e c + gd * dot3 e d := by
  obtain ⟨a0, a1, a2⟩ := a
  obtain ⟨b0, b1, b2⟩ := b
  obtain ⟨c0, c1, c2⟩ := c
  obtain ⟨d0, d1, d2⟩ := d
  obtain ⟨e0, e1, e2⟩ := e
  simp only [comb4, dot3, add3, smul3]; ring

/-- the points of the two pan lines at `t = −ε` and `t = 1+ε`, times `10^10` -/
noncomputable def loPt (a b : Vec3 ℝ) : Vec3 ℝ := sub3 (smul3 bigE a) (sub3 b a)
noncomputable def hiPt (a b : Vec3 ℝ) : Vec3 ℝ := add3 (smul3 bigE b) (sub3 b a)

theorem panPoly_lo (a b c d p : Vec3 ℝ) :
    (QuadRegion.panPoly a b c d p).1 - (QuadRegion.panPoly a b c d p).2.1 * bigE + (QuadRegion.panPoly a b c d p).2.2 * bigE ^ 2
      = det3 (loPt a b, loPt d c, p) := by
  obtain ⟨a0, a1, a2⟩ := a
  obtain ⟨b0, b1, b2⟩ := b
  obtain ⟨c0, c1, c2⟩ := c
  obtain ⟨d0, d1, d2⟩ := d
  obtain ⟨p0, p1, p2⟩ := p
  simp only [QuadRegion.panPoly, loPt, det3, dot3, cross3, add3, sub3, smul3]; ring

theorem panPoly_hi (a b c d p : Vec3 ℝ) :
    (QuadRegion.panPoly a b c d p).1 * (bigE + 1) ^ 2 + (QuadRegion.panPoly a b c d p).2.1 * (bigE + 1) * bigE +
      (QuadRegion.panPoly a b c d p).2.2 * bigE ^ 2 = det3 (hiPt a b, hiPt d c, p) := by
  obtain ⟨a0, a1, a2⟩ := a
  obtain ⟨b0, b1, b2⟩ := b
  obtain ⟨c0, c1, c2⟩ := c
  obtain ⟨d0, d1, d2⟩ := d
  obtain ⟨p0, p1, p2⟩ := p
  simp only [QuadRegion.panPoly, hiPt, det3, dot3, cross3, add3, sub3, smul3]; ring

theorem panPoly_zero (a b c d p : Vec3 ℝ) : (QuadRegion.panPoly a b c d p).2.2 = det3 (a, d, p) := by
  obtain ⟨a0, a1, a2⟩ := a
  obtain ⟨d0, d1, d2⟩ := d
  obtain ⟨p0, p1, p2⟩ := p
  simp only [QuadRegion.panPoly, det3, dot3, cross3]; ring

theorem panPoly_one (a b c d p : Vec3 ℝ) :
    (QuadRegion.panPoly a b c d p).1 + (QuadRegion.panPoly a b c d p).2.1 + (QuadRegion.panPoly a b c d p).2.2 = det3 (b, c, p) := by
  obtain ⟨a0, a1, a2⟩ := a
  obtain ⟨b0, b1, b2⟩ := b
  obtain ⟨c0, c1, c2⟩ := c
  obtain ⟨d0, d1, d2⟩ := d
  obtain ⟨p0, p1, p2⟩ := p
  simp only [QuadRegion.panPoly, det3, dot3, cross3, add3, sub3]; ring

theorem det3_self13 (a b : Vec3 ℝ) : det3 (a, b, a) = 0 := by
  obtain ⟨a0, a1, a2⟩ := a
  obtain ⟨b0, b1, b2⟩ := b
  simp only [det3]; ring

theorem det3_self23 (a b : Vec3 ℝ) : det3 (a, b, b) = 0 := by
  obtain ⟨a0, a1, a2⟩ := a
  obtain ⟨b0, b1, b2⟩ := b
  simp only [det3]; ring

/-- the sign conditions of one pan axis with ordered corners `a b c d` -/
structure AxisSigns (s : ℝ) (a b c d : Vec3 ℝ) : Prop where
  loa : s * det3 (loPt a b, loPt d c, a) ≤ 0
  lob : s * det3 (loPt a b, loPt d c, b) ≤ 0
  loc : s * det3 (loPt a b, loPt d c, c) ≤ 0
  lod : s * det3 (loPt a b, loPt d c, d) ≤ 0
  hia : 0 ≤ s * det3 (hiPt a b, hiPt d c, a)
  hib : 0 ≤ s * det3 (hiPt a b, hiPt d c, b)
  hic : 0 ≤ s * det3 (hiPt a b, hiPt d c, c)
  hid : 0 ≤ s * det3 (hiPt a b, hiPt d c, d)

/-- the quadratic `A t² + B t + C` and its negative have the same roots; used to reduce σ = −1 to σ = +1 -/
theorem axis_root_poly (A B C s : ℝ) (hs : s = 1 ∨ s = -1)
    (hlo : s * (A - B * bigE + C * bigE ^ 2) ≤ 0) (h0 : s * C ≤ 0) (h1 : 0 ≤ s * (A + B + C))
    (hhi : 0 ≤ s * (A * (bigE + 1) ^ 2 + B * (bigE + 1) * bigE + C * bigE ^ 2)) (hne : ¬(C = 0 ∧ A + B + C = 0)) :
    ∃ x, quadRoot (A, B, C) = some x ∧ 0 ≤ x ∧ x ≤ 1 ∧ A * x ^ 2 + B * x + C = 0 := by
  have hE := bigE_pos
  have hE2 : 0 < bigE ^ 2 := by positivity
  have e1 : ∀ A B C : ℝ, A * eps ^ 2 - B * eps + C = (A - B * bigE + C * bigE ^ 2) / bigE ^ 2 := by
    intro A B C; rw [eps_bigE]; field_simp
  have e2 : ∀ A B C : ℝ, A * (1 + eps) ^ 2 + B * (1 + eps) + C =
      (A * (bigE + 1) ^ 2 + B * (bigE + 1) * bigE + C * bigE ^ 2) / bigE ^ 2 := by
    intro A B C; rw [eps_bigE]; field_simp
  have hne3 : ¬(A = 0 ∧ B = 0 ∧ C = 0) := by
    rintro ⟨rfl, rfl, rfl⟩; exact hne ⟨rfl, by ring⟩
  rcases hs with rfl | rfl
  · simp only [one_mul] at hlo h0 h1 hhi
    obtain ⟨hex, hall⟩ := roots_in_unit_pos A B C (by rw [e1]; exact div_nonpos_of_nonpos_of_nonneg hlo hE2.le) h0 h1
      (by rw [e2]; exact div_nonneg hhi hE2.le) hne
    exact quadRoot_of_unit_root A B C hex hall hne3
  · have hlo' : (-A) - (-B) * bigE + (-C) * bigE ^ 2 ≤ 0 := by linarith
    have hhi' : 0 ≤ (-A) * (bigE + 1) ^ 2 + (-B) * (bigE + 1) * bigE + (-C) * bigE ^ 2 := by linarith
    obtain ⟨hex, hall⟩ := roots_in_unit_pos (-A) (-B) (-C) (by rw [e1]; exact div_nonpos_of_nonpos_of_nonneg hlo' hE2.le)
      (by linarith) (by linarith) (by rw [e2]; exact div_nonneg hhi' hE2.le)
      (by rintro ⟨h1', h2'⟩; exact hne ⟨by linarith, by linarith⟩)
    refine quadRoot_of_unit_root A B C ?_ ?_ hne3
    · obtain ⟨t, ht0, ht1, hft⟩ := hex
      exact ⟨t, ht0, ht1, by linarith⟩
    · intro r hr1 hr2 hr
      exact hall r hr1 hr2 (by linarith)

/-- **One pan axis.**  For a non-zero direction in the cone of the corners the selected pan value is an exact root in
    [0,1] of `t ↦ det(a + t(b−a), d + t(c−d), p)`. -/
theorem axis_root (a b c d : Vec3 ℝ) (s : ℝ) (hs : s = 1 ∨ s = -1) (ga gb gc gd : ℝ) (ha : 0 ≤ ga) (hb : 0 ≤ gb)
    (hc : 0 ≤ gc) (hd : 0 ≤ gd) (hg : ¬(ga = 0 ∧ gb = 0 ∧ gc = 0 ∧ gd = 0))
    (hD1 : 0 < s * det3 (a, b, c)) (hD2 : 0 < s * det3 (a, b, d)) (hD3 : 0 < s * det3 (a, c, d))
    (hD4 : 0 < s * det3 (b, c, d)) (hax : AxisSigns s a b c d) :
    ∃ x, quadRoot (QuadRegion.panPoly a b c d (comb4 ga gb gc gd a b c d)) = some x ∧ 0 ≤ x ∧ x ≤ 1 ∧
      det3 (lerp x a b, lerp x d c, comb4 ga gb gc gd a b c d) = 0 := by
  set p := comb4 ga gb gc gd a b c d with hp
  have hC : s * (QuadRegion.panPoly a b c d p).2.2 = -(gb * (s * det3 (a, b, d)) + gc * (s * det3 (a, c, d))) := by
    rw [panPoly_zero, hp, det3_comb4, det3_self13, det3_self23, det3_swap23 a b d, det3_swap23 a c d]; ring
  have h1 : s * ((QuadRegion.panPoly a b c d p).1 + (QuadRegion.panPoly a b c d p).2.1 + (QuadRegion.panPoly a b c d p).2.2) =
      ga * (s * det3 (a, b, c)) + gd * (s * det3 (b, c, d)) := by
    rw [panPoly_one, hp, det3_comb4, det3_self13, det3_self23, det3_rot a b c]; ring
  have hlo : s * ((QuadRegion.panPoly a b c d p).1 - (QuadRegion.panPoly a b c d p).2.1 * bigE +
      (QuadRegion.panPoly a b c d p).2.2 * bigE ^ 2) ≤ 0 := by
    rw [panPoly_lo, hp, det3_comb4]
    have := mul_nonneg ha (neg_nonneg.mpr hax.loa)
    have := mul_nonneg hb (neg_nonneg.mpr hax.lob)
    have := mul_nonneg hc (neg_nonneg.mpr hax.loc)
    have := mul_nonneg hd (neg_nonneg.mpr hax.lod)
    nlinarith
  have hhi : 0 ≤ s * ((QuadRegion.panPoly a b c d p).1 * (bigE + 1) ^ 2 + (QuadRegion.panPoly a b c d p).2.1 * (bigE + 1) * bigE +
      (QuadRegion.panPoly a b c d p).2.2 * bigE ^ 2) := by
    rw [panPoly_hi, hp, det3_comb4]
    have := mul_nonneg ha hax.hia
    have := mul_nonneg hb hax.hib
    have := mul_nonneg hc hax.hic
    have := mul_nonneg hd hax.hid
    nlinarith
  have hsne : s ≠ 0 := by rcases hs with rfl | rfl <;> norm_num
  have hne : ¬((QuadRegion.panPoly a b c d p).2.2 = 0 ∧
      (QuadRegion.panPoly a b c d p).1 + (QuadRegion.panPoly a b c d p).2.1 + (QuadRegion.panPoly a b c d p).2.2 = 0) := by
    rintro ⟨z0, z1⟩
    rw [z0, mul_zero] at hC
    rw [z1, mul_zero] at h1
    have t1 := mul_nonneg hb hD2.le
    have t2 := mul_nonneg hc hD3.le
    have t3 := mul_nonneg ha hD1.le
    have t4 := mul_nonneg hd hD4.le
    have hb0 : gb = 0 := by
      have : gb * (s * det3 (a, b, d)) = 0 := by linarith
      exact (mul_eq_zero.mp this).resolve_right hD2.ne'
    have hc0 : gc = 0 := by
      have : gc * (s * det3 (a, c, d)) = 0 := by linarith
      exact (mul_eq_zero.mp this).resolve_right hD3.ne'
    have ha0 : ga = 0 := by
      have : ga * (s * det3 (a, b, c)) = 0 := by linarith
      exact (mul_eq_zero.mp this).resolve_right hD1.ne'
    have hd0 : gd = 0 := by
      have : gd * (s * det3 (b, c, d)) = 0 := by linarith
      exact (mul_eq_zero.mp this).resolve_right hD4.ne'
    exact hg ⟨ha0, hb0, hc0, hd0⟩
  obtain ⟨x, hx, hx0, hx1, hfx⟩ := axis_root_poly _ _ _ s hs hlo
    (by rw [hC]; linarith [mul_nonneg hb hD2.le, mul_nonneg hc hD3.le])
    (by rw [h1]; linarith [mul_nonneg ha hD1.le, mul_nonneg hd hD4.le]) hhi hne
  exact ⟨x, hx, hx0, hx1, by rw [← panPoly_eval]; exact hfx⟩

/-! ### both axes and the sign test, for ordered corners -/

/-- **The decidable sign certificate of a quad** with ordered corners `a b c d` (see the file header). -/
def QuadSigns (a b c d : Vec3 ℝ) : Prop :=
  ∃ s s' : ℝ, (s = 1 ∨ s = -1) ∧
    0 < s * det3 (a, b, c) ∧ 0 < s * det3 (a, b, d) ∧ 0 < s * det3 (a, c, d) ∧ 0 < s * det3 (b, c, d) ∧
    0 < s' * dot3 (cross3 (sub3 c a) (sub3 d b)) a ∧ 0 < s' * dot3 (cross3 (sub3 c a) (sub3 d b)) b ∧
    0 < s' * dot3 (cross3 (sub3 c a) (sub3 d b)) c ∧ 0 < s' * dot3 (cross3 (sub3 c a) (sub3 d b)) d ∧
    AxisSigns s a b c d ∧ AxisSigns s b c d a

theorem comb4_rot (ga gb gc gd : ℝ) (a b c d : Vec3 ℝ) : comb4 gb gc gd ga b c d a = comb4 ga gb gc gd a b c d := by
  obtain ⟨a0, a1, a2⟩ := a
  obtain ⟨b0, b1, b2⟩ := b
  obtain ⟨c0, c1, c2⟩ := c
  obtain ⟨d0, d1, d2⟩ := d
  simp only [comb4, add3, smul3]
  refine Prod.ext ?_ (Prod.ext ?_ ?_) <;> simp only <;> ring

theorem comb4_zero (a b c d : Vec3 ℝ) : comb4 0 0 0 0 a b c d = (0, 0, 0) := by
  obtain ⟨a0, a1, a2⟩ := a
  obtain ⟨b0, b1, b2⟩ := b
  obtain ⟨c0, c1, c2⟩ := c
  obtain ⟨d0, d1, d2⟩ := d
  simp [comb4, add3, smul3]

theorem bil_eq_comb4 (x y : ℝ) (a b c d : Vec3 ℝ) :
    bil x y a b c d = comb4 ((1 - x) * (1 - y)) (x * (1 - y)) (x * y) ((1 - x) * y) a b c d := rfl

/-- **A quad with the sign certificate accepts every non-zero direction of its corner cone**: both pan values are
    found by `quadRoot` and the bilinear point has a positive component along the direction. -/
theorem quad_corners_accept (a b c d : Vec3 ℝ) (hsig : QuadSigns a b c d) (ga gb gc gd : ℝ) (ha : 0 ≤ ga) (hb : 0 ≤ gb)
    (hc : 0 ≤ gc) (hd : 0 ≤ gd) (hp : comb4 ga gb gc gd a b c d ≠ (0, 0, 0)) :
    ∃ x y, quadRoot (QuadRegion.panPoly a b c d (comb4 ga gb gc gd a b c d)) = some x ∧
      quadRoot (QuadRegion.panPoly b c d a (comb4 ga gb gc gd a b c d)) = some y ∧
      0 < dot3 (bil x y a b c d) (comb4 ga gb gc gd a b c d) := by
  obtain ⟨s, s', hs, hD1, hD2, hD3, hD4, hea, heb, hec, hed, hax, hay⟩ := hsig
  have hg : ¬(ga = 0 ∧ gb = 0 ∧ gc = 0 ∧ gd = 0) := by
    rintro ⟨rfl, rfl, rfl, rfl⟩; exact hp (comb4_zero a b c d)
  obtain ⟨x, hx, hx0, hx1, hfx⟩ := axis_root a b c d s hs ga gb gc gd ha hb hc hd hg hD1 hD2 hD3 hD4 hax
  have hg' : ¬(gb = 0 ∧ gc = 0 ∧ gd = 0 ∧ ga = 0) := fun h => hg ⟨h.2.2.2, h.1, h.2.1, h.2.2.1⟩
  obtain ⟨y, hy, hy0, hy1, hfy⟩ := axis_root b c d a s hs gb gc gd ga hb hc hd ha hg' hD4
    (by rw [det3_rot a b c]; exact hD1) (by rw [det3_rot a b d]; exact hD2) (by rw [det3_rot a c d]; exact hD3) hay
  rw [comb4_rot] at hy hfy
  refine ⟨x, y, hx, hy, ?_⟩
  have hep : 0 < s' * dot3 (cross3 (sub3 c a) (sub3 d b)) (comb4 ga gb gc gd a b c d) := by
    rw [dot3_comb4]
    have t1 := mul_nonneg ha hea.le
    have t2 := mul_nonneg hb heb.le
    have t3 := mul_nonneg hc hec.le
    have t4 := mul_nonneg hd hed.le
    by_contra hn
    have hz : ga * (s' * dot3 (cross3 (sub3 c a) (sub3 d b)) a) + gb * (s' * dot3 (cross3 (sub3 c a) (sub3 d b)) b) +
        gc * (s' * dot3 (cross3 (sub3 c a) (sub3 d b)) c) + gd * (s' * dot3 (cross3 (sub3 c a) (sub3 d b)) d) ≤ 0 := by
      have := not_lt.mp hn
      linarith [this, show s' * (ga * dot3 (cross3 (sub3 c a) (sub3 d b)) a + gb * dot3 (cross3 (sub3 c a) (sub3 d b)) b +
        gc * dot3 (cross3 (sub3 c a) (sub3 d b)) c + gd * dot3 (cross3 (sub3 c a) (sub3 d b)) d) =
        ga * (s' * dot3 (cross3 (sub3 c a) (sub3 d b)) a) + gb * (s' * dot3 (cross3 (sub3 c a) (sub3 d b)) b) +
        gc * (s' * dot3 (cross3 (sub3 c a) (sub3 d b)) c) + gd * (s' * dot3 (cross3 (sub3 c a) (sub3 d b)) d) by ring]
    apply hg
    refine ⟨?_, ?_, ?_, ?_⟩
    · exact (mul_eq_zero.mp (by linarith : ga * (s' * dot3 (cross3 (sub3 c a) (sub3 d b)) a) = 0)).resolve_right hea.ne'
    · exact (mul_eq_zero.mp (by linarith : gb * (s' * dot3 (cross3 (sub3 c a) (sub3 d b)) b) = 0)).resolve_right heb.ne'
    · exact (mul_eq_zero.mp (by linarith : gc * (s' * dot3 (cross3 (sub3 c a) (sub3 d b)) c) = 0)).resolve_right hec.ne'
    · exact (mul_eq_zero.mp (by linarith : gd * (s' * dot3 (cross3 (sub3 c a) (sub3 d b)) d) = 0)).resolve_right hed.ne'
  exact bil_dot_pos a b c d _ _ x y s s' hx0 hx1 hy0 hy1 hD1 hD2 hD3 hD4 hea heb hec hed hep hfx hfy

/-! ### the modelled `QuadRegion.handle` -/

/-- the 24 orders (copy of `perm4_mem` of Props/C05.lean, which imports this file) -/
theorem perm4_fin' : ∀ a b c d : Fin 4, isPermOfRange [a.1, b.1, c.1, d.1] 4 = true →
    [a.1, b.1, c.1, d.1] ∈ [[0,1,2,3],[0,1,3,2],[0,2,1,3],[0,2,3,1],[0,3,1,2],[0,3,2,1],[1,0,2,3],[1,0,3,2],[1,2,0,3],
      [1,2,3,0],[1,3,0,2],[1,3,2,0],[2,0,1,3],[2,0,3,1],[2,1,0,3],[2,1,3,0],[2,3,0,1],[2,3,1,0],[3,0,1,2],
      [3,0,2,1],[3,1,0,2],[3,1,2,0],[3,2,0,1],[3,2,1,0]] := by decide

theorem perm4_mem' {o : List Nat} (h : isPermOfRange o 4 = true) :
    o ∈ [[0,1,2,3],[0,1,3,2],[0,2,1,3],[0,2,3,1],[0,3,1,2],[0,3,2,1],[1,0,2,3],[1,0,3,2],[1,2,0,3],
      [1,2,3,0],[1,3,0,2],[1,3,2,0],[2,0,1,3],[2,0,3,1],[2,1,0,3],[2,1,3,0],[2,3,0,1],[2,3,1,0],[3,0,1,2],
      [3,0,2,1],[3,1,0,2],[3,1,2,0],[3,2,0,1],[3,2,1,0]] := by
  have hlen : o.length = 4 := by
    simp only [isPermOfRange, Bool.and_eq_true, beq_iff_eq] at h
    exact h.1.1
  match o, hlen with
  | [a, b, c, d], _ =>
    have hall : a < 4 ∧ b < 4 ∧ c < 4 ∧ d < 4 := by
      simp only [isPermOfRange, Bool.and_eq_true, List.all_cons, List.all_nil, decide_eq_true_eq, Bool.and_true] at h
      exact ⟨h.1.2.1, h.1.2.2.1, h.1.2.2.2.1, h.1.2.2.2.2⟩
    exact perm4_fin' ⟨a, hall.1⟩ ⟨b, hall.2.1⟩ ⟨c, hall.2.2.1⟩ ⟨d, hall.2.2.2⟩ h

theorem cone_reorder {o : List Nat} (h : isPermOfRange o 4 = true) (q0 q1 q2 q3 : Vec3 ℝ) (g0 g1 g2 g3 : ℝ) :
    comb4 g0 g1 g2 g3 q0 q1 q2 q3 =
      comb4 ([g0, g1, g2, g3].getD (o.getD 0 0) 0) ([g0, g1, g2, g3].getD (o.getD 1 0) 0)
        ([g0, g1, g2, g3].getD (o.getD 2 0) 0) ([g0, g1, g2, g3].getD (o.getD 3 0) 0)
        ([q0, q1, q2, q3].getD (o.getD 0 0) zero3) ([q0, q1, q2, q3].getD (o.getD 1 0) zero3)
        ([q0, q1, q2, q3].getD (o.getD 2 0) zero3) ([q0, q1, q2, q3].getD (o.getD 3 0) zero3) := by
  have hm := perm4_mem' h
  obtain ⟨x0, x1, x2⟩ := q0
  obtain ⟨y0, y1, y2⟩ := q1
  obtain ⟨z0, z1, z2⟩ := q2
  obtain ⟨w0, w1, w2⟩ := q3
  simp only [List.mem_cons, List.mem_nil_iff, or_false] at hm
  rcases hm with rfl | rfl | rfl | rfl | rfl | rfl | rfl | rfl | rfl | rfl | rfl | rfl | rfl | rfl | rfl | rfl
      | rfl | rfl | rfl | rfl | rfl | rfl | rfl | rfl <;>
    (simp only [List.getD_cons_zero, List.getD_cons_succ, comb4, add3, smul3]
     try (refine Prod.ext ?_ (Prod.ext ?_ ?_) <;> simp only <;> ring))

theorem comb_scatter4 {o : List Nat} (h : isPermOfRange o 4 = true) (q0 q1 q2 q3 : Vec3 ℝ) (w0 w1 w2 w3 : ℝ) :
    comb (scatter (zeros 4) o [w0, w1, w2, w3]) [q0, q1, q2, q3] =
      comb4 w0 w1 w2 w3 ([q0, q1, q2, q3].getD (o.getD 0 0) zero3) ([q0, q1, q2, q3].getD (o.getD 1 0) zero3)
        ([q0, q1, q2, q3].getD (o.getD 2 0) zero3) ([q0, q1, q2, q3].getD (o.getD 3 0) zero3) := by
  have hm := perm4_mem' h
  obtain ⟨x0, x1, x2⟩ := q0
  obtain ⟨y0, y1, y2⟩ := q1
  obtain ⟨z0, z1, z2⟩ := q2
  obtain ⟨w0', w1', w2'⟩ := q3
  simp only [List.mem_cons, List.mem_nil_iff, or_false] at hm
  rcases hm with rfl | rfl | rfl | rfl | rfl | rfl | rfl | rfl | rfl | rfl | rfl | rfl | rfl | rfl | rfl | rfl
      | rfl | rfl | rfl | rfl | rfl | rfl | rfl | rfl <;>
    (simp only [List.getD_cons_zero, List.getD_cons_succ, comb4, comb, scatter, zeros, List.replicate, List.set, add3, smul3,
      zero3, zero_real]
     try (refine Prod.ext ?_ (Prod.ext ?_ ?_) <;> simp only <;> ring))


theorem getD_nonneg (g0 g1 g2 g3 : ℝ) (h0 : 0 ≤ g0) (h1 : 0 ≤ g1) (h2 : 0 ≤ g2) (h3 : 0 ≤ g3) (j : Nat) :
    0 ≤ [g0, g1, g2, g3].getD j 0 := by
  match j with
  | 0 => simpa using h0
  | 1 => simpa using h1
  | 2 => simpa using h2
  | 3 => simpa using h3
  | n + 4 => simp

/-- **`QuadRegion.handle` with `quadRoot`** accepts every non-zero non-negative combination of its four positions, if
    its ordered corners carry the sign certificate. -/
theorem quad_accepts (q0 q1 q2 q3 : Vec3 ℝ) (o : List Nat) (ho : isPermOfRange o 4 = true)
    (hsig : QuadSigns ([q0, q1, q2, q3].getD (o.getD 0 0) zero3) ([q0, q1, q2, q3].getD (o.getD 1 0) zero3)
      ([q0, q1, q2, q3].getD (o.getD 2 0) zero3) ([q0, q1, q2, q3].getD (o.getD 3 0) zero3))
    (g0 g1 g2 g3 : ℝ) (p : Vec3 ℝ) (h0 : 0 ≤ g0) (h1 : 0 ≤ g1) (h2 : 0 ≤ g2) (h3 : 0 ≤ g3) (hp : p ≠ (0, 0, 0))
    (hpe : p = comb4 g0 g1 g2 g3 q0 q1 q2 q3) :
    let q : QuadRegion ℝ := ⟨[q0, q1, q2, q3], o⟩
    q.handle (quadRoot (q.polys p).1) (quadRoot (q.polys p).2) p ≠ none := by
  intro q
  have hre := cone_reorder ho q0 q1 q2 q3 g0 g1 g2 g3
  rw [← hpe] at hre
  obtain ⟨x, y, hx, hy, hpos⟩ := quad_corners_accept _ _ _ _ hsig _ _ _ _ (getD_nonneg g0 g1 g2 g3 h0 h1 h2 h3 _)
    (getD_nonneg g0 g1 g2 g3 h0 h1 h2 h3 _) (getD_nonneg g0 g1 g2 g3 h0 h1 h2 h3 _)
    (getD_nonneg g0 g1 g2 g3 h0 h1 h2 h3 _) (by rw [← hre]; exact hp)
  rw [← hre] at hx hy hpos
  have hpx : (q.polys p).1 = QuadRegion.panPoly ([q0, q1, q2, q3].getD (o.getD 0 0) zero3)
      ([q0, q1, q2, q3].getD (o.getD 1 0) zero3) ([q0, q1, q2, q3].getD (o.getD 2 0) zero3)
      ([q0, q1, q2, q3].getD (o.getD 3 0) zero3) p := rfl
  have hpy : (q.polys p).2 = QuadRegion.panPoly ([q0, q1, q2, q3].getD (o.getD 1 0) zero3)
      ([q0, q1, q2, q3].getD (o.getD 2 0) zero3) ([q0, q1, q2, q3].getD (o.getD 3 0) zero3)
      ([q0, q1, q2, q3].getD (o.getD 0 0) zero3) p := rfl
  rw [hpx, hpy, hx, hy]
  simp only [QuadRegion.handle, QuadRegion.weights, one_real, zero_real, q]
  rw [comb_scatter4 ho, ← bil_eq_comb4, if_neg (not_le.mpr hpos)]
  simp

/-! ### non-vacuity of the hypotheses -/

/-- `f(t) = t − 1/2` satisfies the sign hypotheses of `roots_in_unit_pos` and the root hypotheses of
    `quadRoot_of_unit_root` -/
example : (0 : ℝ) * eps ^ 2 - 1 * eps + (-1 / 2) ≤ 0 ∧ (-1 / 2 : ℝ) ≤ 0 ∧ (0 : ℝ) ≤ 0 + 1 + (-1 / 2) ∧
    (0 : ℝ) ≤ 0 * (1 + eps) ^ 2 + 1 * (1 + eps) + (-1 / 2) ∧ ¬((-1 / 2 : ℝ) = 0 ∧ (0 : ℝ) + 1 + (-1 / 2) = 0) := by
  have := eps_pos
  refine ⟨by nlinarith, by norm_num, by norm_num, by nlinarith, by norm_num⟩

example : (∃ t : ℝ, 0 ≤ t ∧ t ≤ 1 ∧ (0 : ℝ) * t ^ 2 + 1 * t + (-1 / 2) = 0) ∧
    (∀ r : ℝ, -eps < r → r < 1 + eps → (0 : ℝ) * r ^ 2 + 1 * r + (-1 / 2) = 0 → 0 ≤ r ∧ r ≤ 1) ∧
    ¬((0 : ℝ) = 0 ∧ (1 : ℝ) = 0 ∧ (-1 / 2 : ℝ) = 0) := by
  refine ⟨⟨1 / 2, by norm_num, by norm_num, by norm_num⟩, ?_, by norm_num⟩
  intro r _ _ h
  have : r = 1 / 2 := by linarith
  rw [this]; norm_num

/-- the square with corners (±1, ±1, 1), the direction straight up and `x = y = 1/2` satisfy every hypothesis of
    `bil_dot_pos` (σ = σ' = 1, `e = (c−a) × (d−b) = (0, 0, 8)`) -/
example :
    let a : Vec3 ℝ := (-1, -1, 1); let b : Vec3 ℝ := (1, -1, 1); let c : Vec3 ℝ := (1, 1, 1); let d : Vec3 ℝ := (-1, 1, 1)
    let p : Vec3 ℝ := (0, 0, 1); let e : Vec3 ℝ := cross3 (sub3 c a) (sub3 d b)
    0 < 1 * det3 (a, b, c) ∧ 0 < 1 * det3 (a, b, d) ∧ 0 < 1 * det3 (a, c, d) ∧ 0 < 1 * det3 (b, c, d) ∧
    0 < 1 * dot3 e a ∧ 0 < 1 * dot3 e b ∧ 0 < 1 * dot3 e c ∧ 0 < 1 * dot3 e d ∧ 0 < 1 * dot3 e p ∧
    det3 (lerp (1 / 2) a b, lerp (1 / 2) d c, p) = 0 ∧ det3 (lerp (1 / 2) b c, lerp (1 / 2) a d, p) = 0 := by
  simp only [det3, dot3, cross3, sub3, add3, smul3, lerp]
  norm_num

end Earverif.PointSource.Cover
