/-
C03, last clause: "the output is the exact sum over items (linear in the input audio)".  The specified output
`RenderSpec.outAt` is additive and homogeneous in the input frames, for every frame type with the module laws.
-/
import Earverif.Model.RenderSpec
import Earverif.Proofs.C02Laws
namespace Earverif.RenderSpec
open Earverif.Stream Earverif.Timeline Earverif.Renderer
set_option linter.unusedSectionVars false

/-- Sum of two inputs of the same shape, frame by frame and channel by channel. -/
def addX (x y : List (List Rat)) : List (List Rat) := List.zipWith (List.zipWith (· + ·)) x y

/-- An input scaled by `a`. -/
def smulX (a : Rat) (x : List (List Rat)) : List (List Rat) := x.map (·.map (a * ·))

/-- Two inputs of the same shape `(T, n)`. -/
structure SameShape (n : Nat) (x y : List (List Rat)) : Prop where
  len : x.length = y.length
  wx : ∀ fr ∈ x, fr.length = n
  wy : ∀ fr ∈ y, fr.length = n

theorem xAt_addX (n : Nat) (x y : List (List Rat)) (h : SameShape n x y) (tr : Nat) (t : Int) :
    xAt (addX x y) tr t = xAt x tr t + xAt y tr t := by
  unfold xAt
  split
  · simp only [addX, List.getD_eq_getElem?_getD, List.getElem?_zipWith]
    by_cases ht : t.toNat < x.length
    · have ht' : t.toNat < y.length := by rw [← h.len]; exact ht
      have h1 : x[t.toNat]? = some x[t.toNat] := List.getElem?_eq_getElem ht
      have h2 : y[t.toNat]? = some y[t.toNat] := List.getElem?_eq_getElem ht'
      have w1 := h.wx _ (List.getElem_mem ht)
      have w2 := h.wy _ (List.getElem_mem ht')
      simp only [h1, h2, Option.getD_some, List.getElem?_zipWith]
      by_cases htr : tr < n
      · have g1 : (x[t.toNat])[tr]? = some (x[t.toNat])[tr] := List.getElem?_eq_getElem (by omega)
        have g2 : (y[t.toNat])[tr]? = some (y[t.toNat])[tr] := List.getElem?_eq_getElem (by omega)
        simp only [g1, g2, Option.getD_some]
      · have g1 : (x[t.toNat])[tr]? = none := List.getElem?_eq_none (by omega)
        have g2 : (y[t.toNat])[tr]? = none := List.getElem?_eq_none (by omega)
        simp only [g1, g2, Option.getD_none]; simp
    · have h1 : x[t.toNat]? = none := List.getElem?_eq_none (by omega)
      have h2 : y[t.toNat]? = none := List.getElem?_eq_none (by rw [← h.len]; omega)
      simp only [h1, h2, Option.getD_none, List.getElem?_nil]; simp
  · simp

theorem xAt_smulX (a : Rat) (x : List (List Rat)) (tr : Nat) (t : Int) :
    xAt (smulX a x) tr t = a * xAt x tr t := by
  unfold xAt
  split
  · simp only [smulX, List.getD_eq_getElem?_getD, List.getElem?_map]
    cases x[t.toNat]? with
    | none => simp
    | some fr =>
      simp only [Option.map_some, Option.getD_some, List.getElem?_map]
      cases fr[tr]? with
      | none => simp
      | some v => simp
  · simp

section
variable {V : Type} [RMod V] [LawfulRMod V]

theorem foldl_add_acc (l : List V) (a : V) : l.foldl (· + ·) a = a + l.foldl (· + ·) 0 := by
  induction l generalizing a with
  | nil => exact (LawfulRMod.add_zero a).symm
  | cons v l ih =>
    simp only [List.foldl_cons]
    rw [ih (a + v), ih (0 + v), LawfulRMod.zero_add, LawfulRMod.add_assoc]

theorem sumV_cons (v : V) (l : List V) : sumV (v :: l) = v + sumV l := by
  simp only [sumV, List.foldl_cons]
  rw [foldl_add_acc, LawfulRMod.zero_add]

theorem add4 (a b c d : V) : (a + b) + (c + d) = (a + c) + (b + d) := by
  rw [LawfulRMod.add_assoc, LawfulRMod.add_assoc]
  congr 1
  rw [← LawfulRMod.add_assoc, ← LawfulRMod.add_assoc, LawfulRMod.add_comm b c]

theorem add8 (a a' b b' c c' d d' : V) :
    (((a + a') + (b + b')) + (c + c')) + (d + d') = (((a + b) + c) + d) + (((a' + b') + c') + d') := by
  rw [add4 a a' b b', add4 (a + b) (a' + b') c c', add4 ((a + b) + c) ((a' + b') + c') d d']

theorem sumV_map_add {ι : Type} (l : List ι) (f g : ι → V) :
    sumV (l.map fun i => f i + g i) = sumV (l.map f) + sumV (l.map g) := by
  induction l with
  | nil => exact (LawfulRMod.zero_add (0 : V)).symm
  | cons i l ih => simp only [List.map_cons, sumV_cons, ih, add4]

theorem sumV_map_smul {ι : Type} (a : Rat) (l : List ι) (f : ι → V) :
    sumV (l.map fun i => RMod.smul a (f i)) = RMod.smul a (sumV (l.map f)) := by
  induction l with
  | nil => exact (LawfulRMod.smul_zero a).symm
  | cons i l ih => simp only [List.map_cons, sumV_cons, ih, LawfulRMod.smul_add]

theorem matApply_add (cols : List V) : ∀ (xs ys : List Rat), xs.length = ys.length →
    matApply cols (List.zipWith (· + ·) xs ys) = matApply cols xs + matApply cols ys := by
  induction cols with
  | nil => intro xs ys _; simp only [matApply, List.zipWith_nil_right, List.foldl_nil]; exact (LawfulRMod.zero_add (0 : V)).symm
  | cons c cols ih =>
    intro xs ys h
    cases xs with
    | nil =>
      cases ys with
      | nil => simp only [matApply, List.zipWith_nil_left, List.foldl_nil]; exact (LawfulRMod.zero_add (0 : V)).symm
      | cons y ys => simp at h
    | cons x xs =>
      cases ys with
      | nil => simp at h
      | cons y ys =>
        have := ih xs ys (by simpa using h)
        simp only [matApply] at this
        change sumV _ = sumV _ + sumV _
        simp only [List.zipWith_cons_cons, sumV_cons]
        simp only [sumV] at this ⊢
        rw [this, LawfulRMod.add_smul, add4]

theorem matApply_smul (a : Rat) (cols : List V) : ∀ (xs : List Rat),
    matApply cols (xs.map (a * ·)) = RMod.smul a (matApply cols xs) := by
  induction cols with
  | nil => intro xs; simp only [matApply, List.zipWith_nil_right, List.foldl_nil]; exact (LawfulRMod.smul_zero a).symm
  | cons c cols ih =>
    intro xs
    cases xs with
    | nil => simp only [matApply, List.map_nil, List.zipWith_nil_left, List.foldl_nil]; exact (LawfulRMod.smul_zero a).symm
    | cons x xs =>
      have := ih xs
      simp only [matApply] at this
      change sumV _ = RMod.smul a (sumV _)
      simp only [List.map_cons, List.zipWith_cons_cons, sumV_cons]
      simp only [sumV] at this ⊢
      rw [this, LawfulRMod.mul_smul, LawfulRMod.smul_add]

theorem mat_add (g : GainSpec (List V)) (xs ys : List Rat) (h : xs.length = ys.length) :
    g.mat (List.zipWith (· + ·) xs ys) = g.mat xs + g.mat ys := by
  cases g with
  | const cols => exact matApply_add cols xs ys h
  | silent => exact (LawfulRMod.zero_add (0 : V)).symm
  | ramp p g0 g1 => exact (LawfulRMod.zero_add (0 : V)).symm

theorem mat_smul (a : Rat) (g : GainSpec (List V)) (xs : List Rat) :
    g.mat (xs.map (a * ·)) = RMod.smul a (g.mat xs) := by
  cases g with
  | const cols => exact matApply_smul a cols xs
  | silent => exact (LawfulRMod.smul_zero a).symm
  | ramp p g0 g1 => exact (LawfulRMod.smul_zero a).symm

theorem objAt_add (sr n : Nat) (objs : List (ObjItem V)) (x y : List (List Rat)) (h : SameShape n x y) (t : Int) :
    objAt sr objs (addX x y) t = objAt sr objs x t + objAt sr objs y t := by
  unfold objAt
  rw [← sumV_map_add]
  congr 1
  apply List.map_congr_left
  intro it _
  rw [xAt_addX n x y h, LawfulRMod.add_smul]

theorem objAt_smul (sr : Nat) (a : Rat) (objs : List (ObjItem V)) (x : List (List Rat)) (t : Int) :
    objAt sr objs (smulX a x) t = RMod.smul a (objAt sr objs x t) := by
  unfold objAt
  rw [← sumV_map_smul]
  congr 1
  apply List.map_congr_left
  intro it _
  rw [xAt_smulX, LawfulRMod.mul_smul]

/-- **`outAt_add`** — the specified output sample is additive in the input audio: for two inputs of the same shape,
`out(x + y)[s] = out(x)[s] + out(y)[s]` (same items, same timelines). -/
theorem outAt_add (c : Cfg V) (objs : List (ObjItem V)) (dss : List (DsItem V)) (hoas : List (HoaItem V))
    (x y : List (List Rat)) (h : SameShape c.n_in x y) (s : Nat) :
    outAt c objs dss hoas (addX x y) s = outAt c objs dss hoas x s + outAt c objs dss hoas y s := by
  unfold outAt
  simp only
  have e1 : (objAt c.sr objs (addX x y) s).1 = (objAt c.sr objs x s).1 + (objAt c.sr objs y s).1 := by
    rw [objAt_add c.sr c.n_in objs x y h]; rfl
  have e2 : sumV ((List.range c.taps.length).map fun k =>
        RMod.pmul (c.taps.getD k 0) (objAt c.sr objs (addX x y) ((s : Int) + c.decorrelator_delay - k)).2) =
      sumV ((List.range c.taps.length).map fun k =>
        RMod.pmul (c.taps.getD k 0) (objAt c.sr objs x ((s : Int) + c.decorrelator_delay - k)).2) +
      sumV ((List.range c.taps.length).map fun k =>
        RMod.pmul (c.taps.getD k 0) (objAt c.sr objs y ((s : Int) + c.decorrelator_delay - k)).2) := by
    rw [← sumV_map_add]
    congr 1
    apply List.map_congr_left
    intro k _
    rw [objAt_add c.sr c.n_in objs x y h, ← LawfulRMod.pmul_add]; rfl
  have e3 : sumV (dss.map fun it => RMod.smul (xAt (addX x y) it.track s) (gainAt c.sr (fixedTimeline it.blocks) s).row) =
      sumV (dss.map fun it => RMod.smul (xAt x it.track s) (gainAt c.sr (fixedTimeline it.blocks) s).row) +
      sumV (dss.map fun it => RMod.smul (xAt y it.track s) (gainAt c.sr (fixedTimeline it.blocks) s).row) := by
    rw [← sumV_map_add]
    congr 1
    apply List.map_congr_left
    intro it _
    rw [xAt_addX c.n_in x y h, LawfulRMod.add_smul]
  have e4 : sumV (hoas.map fun it =>
        (gainAt c.sr (fixedTimeline it.blocks) s).mat (it.tracks.map fun tr => xAt (addX x y) tr s)) =
      sumV (hoas.map fun it => (gainAt c.sr (fixedTimeline it.blocks) s).mat (it.tracks.map fun tr => xAt x tr s)) +
      sumV (hoas.map fun it => (gainAt c.sr (fixedTimeline it.blocks) s).mat (it.tracks.map fun tr => xAt y tr s)) := by
    rw [← sumV_map_add]
    congr 1
    apply List.map_congr_left
    intro it _
    rw [← mat_add _ _ _ (by simp)]
    congr 1
    rw [List.zipWith_map_left, List.zipWith_map_right, List.zipWith_self]
    apply List.map_congr_left
    intro tr _
    exact xAt_addX c.n_in x y h tr s
  rw [e1, e2, e3, e4]
  exact add8 _ _ _ _ _ _ _ _

/-- **`outAt_smul`** — and homogeneous: `out(a·x)[s] = a·out(x)[s]`. -/
theorem outAt_smul (c : Cfg V) (objs : List (ObjItem V)) (dss : List (DsItem V)) (hoas : List (HoaItem V))
    (a : Rat) (x : List (List Rat)) (s : Nat) :
    outAt c objs dss hoas (smulX a x) s = RMod.smul a (outAt c objs dss hoas x s) := by
  unfold outAt
  simp only
  have e1 : (objAt c.sr objs (smulX a x) s).1 = RMod.smul a (objAt c.sr objs x s).1 := by
    rw [objAt_smul]; rfl
  have e2 : sumV ((List.range c.taps.length).map fun k =>
        RMod.pmul (c.taps.getD k 0) (objAt c.sr objs (smulX a x) ((s : Int) + c.decorrelator_delay - k)).2) =
      RMod.smul a (sumV ((List.range c.taps.length).map fun k =>
        RMod.pmul (c.taps.getD k 0) (objAt c.sr objs x ((s : Int) + c.decorrelator_delay - k)).2)) := by
    rw [← sumV_map_smul]
    congr 1
    apply List.map_congr_left
    intro k _
    rw [objAt_smul, ← LawfulRMod.pmul_smul]; rfl
  have e3 : sumV (dss.map fun it => RMod.smul (xAt (smulX a x) it.track s) (gainAt c.sr (fixedTimeline it.blocks) s).row) =
      RMod.smul a (sumV (dss.map fun it => RMod.smul (xAt x it.track s) (gainAt c.sr (fixedTimeline it.blocks) s).row)) := by
    rw [← sumV_map_smul]
    congr 1
    apply List.map_congr_left
    intro it _
    rw [xAt_smulX, LawfulRMod.mul_smul]
  have e4 : sumV (hoas.map fun it =>
        (gainAt c.sr (fixedTimeline it.blocks) s).mat (it.tracks.map fun tr => xAt (smulX a x) tr s)) =
      RMod.smul a (sumV (hoas.map fun it =>
        (gainAt c.sr (fixedTimeline it.blocks) s).mat (it.tracks.map fun tr => xAt x tr s))) := by
    rw [← sumV_map_smul]
    congr 1
    apply List.map_congr_left
    intro it _
    rw [← mat_smul]
    congr 1
    rw [List.map_map]
    apply List.map_congr_left
    intro tr _
    exact xAt_smulX a x tr s
  rw [e1, e2, e3, e4, ← LawfulRMod.smul_add, ← LawfulRMod.smul_add, ← LawfulRMod.smul_add]

end

end Earverif.RenderSpec
