/-
`ear/core/convolver.py::OverlapSaveConvolver` — the partitioned overlap-save FFT convolver the
`ObjectRenderer` uses for the decorrelation filters — transliterated (`__init__`, `filter_block`).

What is modelled literally: the split of the filter into partitions of `block_size` rows (the last
one shorter), the `2*block_size`-row `input_block` with the CURRENT block in its FIRST half and the
PREVIOUS block in its SECOND half, the queue `blocks_fd` into whose slot `k` the product with
partition `k` is accumulated, the inverse transform of slot 0 of which the first `block_size` rows are
returned, the zeroing of slot 0 and the rotation of the queue; the exceptions (`range()` step 0,
`IndexError` on `blocks_fd[0]` for an empty filter, the broadcasting `ValueError` of the slice
assignment).

The ONE abstraction (trusted, validated numerically by `harness/c02.py` on every run): the transform
pair.  A queue slot `blocks_fd[i]` (complex, `block_size+1` rows) is represented by its inverse
transform `irfft(blocks_fd[i])` (real, `2*block_size` rows) and a filter partition
`filter_blocks_fd[k] = rfft(f[start:end], 2*block_size)` by the rows `f[start:end]` themselves.  Because
`irfft` is linear (and `irfft(0) = 0`) and because of the convolution theorem for numpy's `rfft`/`irfft`
of even length `N = 2*block_size`,

    irfft(S + rfft(a, N) * rfft(b)) = irfft(S) + circConv N a b      (len a ≤ N, len b = N),

`block += filter_block * in_block_fd` becomes "add the circular convolution `circConv N a b`",
`circConv N a b [n] = Σ_{m < len a} a[m] · b[(n − m) mod N]` (`rfft(a, N)` zero-pads `a`: the padded
rows contribute no term).

The second part of the file (`ObjStateOS`, `RStateOS`, `renderAllOS`; `…TSOS` with track processors) is the renderer
of `Model/Renderer.lean` / `Model/RendererTS.lean` with this convolver in the place where `ObjectRenderer.__init__`
puts it (`VariableBlockSizeAdapter(block_size, n, OverlapSaveConvolver(block_size, n, filters).filter_block)`),
instead of the direct-form FIR stand-in; everything else is the same code.

Channels: all numpy operations involved act along axis 0 and element-wise across channels, so the
channels are processed independently; a row of the `(n, nchannels)` arrays is a frame `V` and
`RMod.pmul` is the channel-wise product (as in `Fir.at`).  Core Lean only.
-/
import Earverif.Model.Stream
import Earverif.Model.Renderer
import Earverif.Model.RendererTS
namespace Earverif.Stream

/-- Time-domain meaning of `irfft(rfft(a, N) * rfft(b))` (`b` of `N` rows): circular convolution of
length `N` of `a` (zero-padded / cropped to `N` rows, as `rfft(a, N)` does) with `b`, per channel. -/
def circConv {V : Type} [RMod V] (N : Nat) (a b : List V) : List V :=
  (List.range N).map fun n =>
    ((List.range (min a.length N)).map fun m =>
      RMod.pmul (a.getD m 0) (b.getD ((n + N - m) % N) 0)).foldl (· + ·) 0

inductive OSErr where
  | blockSizeZero   -- `range(0, len(f), 0)`: ValueError
  | emptyFilter     -- `self.blocks_fd[0]` with no partitions: IndexError
  | shape           -- `self.input_block[:B] = in_block_td` cannot broadcast: ValueError
  deriving Repr, DecidableEq

/-- State of an `OverlapSaveConvolver` (see the header for the representation of the spectra). -/
structure OS (V : Type) where
  block_size : Nat
  input_block : List V            -- `(2*block_size, nchannels)`
  filter_blocks : List (List V)   -- `filter_blocks_fd[k]`, represented by `f[start:end]`
  blocks : List (List V)          -- `blocks_fd[i]`, represented by `irfft(blocks_fd[i])` (`2*block_size` rows)

/-- `range(0, len(f), block_size)` for `block_size ≥ 1`. -/
def OS.starts (B L : Nat) : List Nat := (List.range ((L + B - 1) / B)).map (· * B)

/-- The body of `OverlapSaveConvolver.__init__` (for `block_size ≥ 1`). -/
def OS.init {V : Type} [RMod V] (B : Nat) (f : List V) : OS V :=
  { block_size := B
    -- self.input_block = np.zeros((block_size * 2, nchannels))
    input_block := List.replicate (2 * B) 0
    -- for start in range(0, len(f), B): end = min(len(f), start + B); rfft(f[start:end], 2B)
    filter_blocks := (OS.starts B f.length).map fun start => slice f start (min f.length (start + B))
    -- self.blocks_fd.append(np.zeros_like(block_fd))
    blocks := (OS.starts B f.length).map fun _ => List.replicate (2 * B) 0 }

/-- `OverlapSaveConvolver(block_size, nchannels, f)`. -/
def OS.new {V : Type} [RMod V] (B : Nat) (f : List V) : Except OSErr (OS V) :=
  if B = 0 then .error .blockSizeZero else .ok (OS.init B f)

/-- `OverlapSaveConvolver.filter_block`. -/
def OS.filterBlock {V : Type} [RMod V] (s : OS V) (blk : List V) : Except OSErr (OS V × List V) :=
  let B := s.block_size
  -- self.input_block[B:] = self.input_block[:B]
  let ib := setSlice s.input_block B (s.input_block.take B)
  -- self.input_block[:B] = in_block_td      (B rows, or one row broadcast to B rows; otherwise ValueError)
  if blk.length ≠ B ∧ blk.length ≠ 1 then .error .shape
  else
    let rows := if blk.length = B then blk else List.replicate B (blk.headD 0)
    let ib := setSlice ib 0 rows
    -- in_block_fd = rfft(self.input_block)
    -- for filter_block, block in zip(self.filter_blocks_fd, self.blocks_fd): block += filter_block * in_block_fd
    let blocks := List.zipWith (fun fb b => List.zipWith (· + ·) b (circConv (2 * B) fb ib)) s.filter_blocks s.blocks
    -- first_block_td = irfft(self.blocks_fd[0])
    match blocks with
    | [] => .error .emptyFilter
    | b0 :: rest =>
      -- self.blocks_fd[0][:] = 0.0 ; self.blocks_fd.append(self.blocks_fd.pop(0))
      -- return first_block_td[:B]
      .ok ({ s with input_block := ib, blocks := rest ++ [List.replicate (2 * B) 0] }, b0.take B)

/-- `filter_block` as the total block function the `VariableBlockSizeAdapter` model wraps.  For a
non-empty filter and blocks of `block_size` rows no exception is raised (`os_step_spec` in
`Proofs/C02OverlapSave.lean`), so nothing is hidden by the default. -/
def OS.step {V : Type} [RMod V] (s : OS V) (blk : List V) : OS V × List V :=
  match s.filterBlock blk with
  | .ok r => r
  | .error _ => (s, [])

/-- Successive `filter_block` calls. -/
def OS.run {V : Type} [RMod V] : OS V → List (List V) → Except OSErr (OS V × List (List V))
  | s, [] => .ok (s, [])
  | s, b :: bs =>
    match s.filterBlock b with
    | .error e => .error e
    | .ok (s', o) =>
      match OS.run s' bs with
      | .error e => .error e
      | .ok (s'', os) => .ok (s'', o :: os)

end Earverif.Stream

/-! ### `ObjectRenderer` / `Renderer` with the overlap-save convolver (cf. `Model/Renderer.lean`) -/
namespace Earverif.Renderer
open Earverif.Stream Earverif.Timeline

/-- State of `ObjectRenderer`; `decorrelators_vbs` wraps the overlap-save convolver. -/
structure ObjStateOS (V : Type) where
  chans : List (Nat × ObjBpc V)
  delaymem : List V
  vbs : Vbs (OS V) V

/-- `ObjectRenderer.__init__` + `set_rendering_items`:
`decorrelators = OverlapSaveConvolver(block_size, n, decorrelation_filters)`,
`decorrelators_vbs = VariableBlockSizeAdapter(block_size, n, decorrelators.filter_block)`.
(`block_size = 0` and an empty filter array make the real constructors raise: `OS.new`, `OSErr.emptyFilter`.) -/
def ObjStateOS.init {V : Type} [RMod V] (c : Cfg V) (items : List (ObjItem V)) : ObjStateOS V :=
  { chans := items.map fun it => (it.track, ⟨it.blocks, {}, []⟩)
    delaymem := Delay.init 0 c.overall_delay
    vbs := Vbs.init OS.step c.block_size 0 (OS.init c.block_size c.taps) }

/-- `ObjectRenderer.render`. -/
def ObjStateOS.render {V : Type} [RMod V] (c : Cfg V) (st : ObjStateOS V) (start_sample : Int)
    (inp : List (List Rat)) : Except Err (ObjStateOS V × List V) :=
  match procChans (interpObject c.sr) GainKern.upd start_sample (track inp) st.chans
      (List.replicate inp.length (0 : V × V)) with
  | .error e => .error e
  | .ok (chans, interpolated) =>
    let (direct_out, mem) := Delay.process 0 st.delaymem (interpolated.map Prod.fst)
    let (vbs, diffuse_out) := Vbs.process OS.step c.block_size 0 st.vbs (interpolated.map Prod.snd)
    .ok (⟨chans, mem, vbs⟩, List.zipWith (· + ·) direct_out diffuse_out)

/-- State of `Renderer`. -/
structure RStateOS (V : Type) where
  aligner : Aligner V
  obj : ObjStateOS V
  ds : List (Nat × DsBpc V)
  hoa : List (List Nat × HoaBpc V)
  start_sample : Int

def RStateOS.init {V : Type} [RMod V] (c : Cfg V) (objs : List (ObjItem V)) (dss : List (DsItem V))
    (hoas : List (HoaItem V)) : RStateOS V :=
  { aligner := Aligner.init
    obj := ObjStateOS.init c objs
    ds := dss.map fun it => (it.track, ⟨it.blocks, {}, []⟩)
    hoa := hoas.map fun it => (it.tracks, ⟨it.blocks, {}, []⟩)
    start_sample := 0 }

/-- `Renderer.render`. -/
def RStateOS.render {V : Type} [RMod V] (c : Cfg V) (st : RStateOS V) (samples : List (List Rat)) :
    Except Err (RStateOS V × List V) :=
  match st.obj.render c st.start_sample samples with
  | .error e => .error e
  | .ok (obj, o1) =>
    match liftA (st.aligner.add (st.start_sample - c.overall_delay) o1) with
    | .error e => .error e
    | .ok al =>
      match dsRender c st.ds st.start_sample samples with
      | .error e => .error e
      | .ok (ds, o2) =>
        match liftA (al.add st.start_sample o2) with
        | .error e => .error e
        | .ok al =>
          match hoaRender c st.hoa st.start_sample samples with
          | .error e => .error e
          | .ok (hoa, o3) =>
            match liftA (al.add st.start_sample o3) with
            | .error e => .error e
            | .ok al =>
              match liftA al.get with
              | .error e => .error e
              | .ok (ret, al) => .ok (⟨al, obj, ds, hoa, st.start_sample + samples.length⟩, ret)

/-- `Renderer.get_tail(sample_rate, n_channels)`. -/
def RStateOS.get_tail {V : Type} [RMod V] (c : Cfg V) (st : RStateOS V) : Except Err (RStateOS V × List V) :=
  st.render c (List.replicate c.overall_delay (List.replicate c.n_in 0))

def RStateOS.run {V : Type} [RMod V] (c : Cfg V) : RStateOS V → List (List (List Rat)) →
    Except Err (RStateOS V × List (List V))
  | st, [] => .ok (st, [])
  | st, b :: bs =>
    match st.render c b with
    | .error e => .error e
    | .ok (st, o) =>
      match RStateOS.run c st bs with
      | .error e => .error e
      | .ok (st, os) => .ok (st, o :: os)

/-- A whole session: all `render` calls, then `get_tail`; concatenated output. -/
def renderAllOS {V : Type} [RMod V] (c : Cfg V) (objs : List (ObjItem V)) (dss : List (DsItem V))
    (hoas : List (HoaItem V)) (parts : List (List (List Rat))) : Except Err (List V) :=
  match RStateOS.run c (RStateOS.init c objs dss hoas) parts with
  | .error e => .error e
  | .ok (st, os) =>
    match st.get_tail c with
    | .error e => .error e
    | .ok (_, tail) => .ok (os.flatten ++ tail)

/-- Same, keeping the per-call outputs (for the driver). -/
def renderTraceOS {V : Type} [RMod V] (c : Cfg V) : RStateOS V → List (List (List Rat)) →
    List (List V) × Option Err
  | st, [] =>
    match st.get_tail c with
    | .ok (_, tail) => ([tail], none)
    | .error e => ([], some e)
  | st, b :: bs =>
    match st.render c b with
    | .ok (st, o) => let (os, e) := renderTraceOS c st bs; (o :: os, e)
    | .error e => ([], some e)

end Earverif.Renderer

/-! ### the same with track processors (cf. `Model/RendererTS.lean`) -/
namespace Earverif.RendererTS
open Earverif.Stream Earverif.Timeline Earverif.Renderer
open Earverif.TrackSpec (Spec Proc)

structure ObjStateTSOS (V : Type) where
  chans : List (Proc Rat × ObjBpc V)
  delaymem : List V
  vbs : Vbs (OS V) V

def ObjStateTSOS.init {V : Type} [RMod V] (c : Cfg V) (items : List (ObjItemTS V)) :
    Except TrackSpec.Err (ObjStateTSOS V) :=
  match mkChans (fun it : ObjItemTS V => TrackSpec.trackProcessor it.spec) (·.blocks) ({} : IState (V × V)) items with
  | .error e => .error e
  | .ok chans =>
    .ok { chans := chans
          delaymem := Delay.init 0 c.overall_delay
          vbs := Vbs.init OS.step c.block_size 0 (OS.init c.block_size c.taps) }

def ObjStateTSOS.render {V : Type} [RMod V] (c : Cfg V) (st : ObjStateTSOS V) (start_sample : Int)
    (inp : List (List Rat)) : Except ErrTS (ObjStateTSOS V × List V) :=
  match procChansTS (interpObject c.sr) GainKern.upd start_sample (fun p => TrackSpec.step c.sr c.n_in p inp)
      st.chans (List.replicate inp.length (0 : V × V)) with
  | .error e => .error e
  | .ok (chans, interpolated) =>
    let (direct_out, mem) := Delay.process 0 st.delaymem (interpolated.map Prod.fst)
    let (vbs, diffuse_out) := Vbs.process OS.step c.block_size 0 st.vbs (interpolated.map Prod.snd)
    .ok (⟨chans, mem, vbs⟩, List.zipWith (· + ·) direct_out diffuse_out)

structure RStateTSOS (V : Type) where
  aligner : Aligner V
  obj : ObjStateTSOS V
  ds : List (Proc Rat × DsBpc V)
  hoa : List (List (Proc Rat) × HoaBpc V)
  start_sample : Int

def RStateTSOS.init {V : Type} [RMod V] (c : Cfg V) (objs : List (ObjItemTS V)) (dss : List (DsItemTS V))
    (hoas : List (HoaItemTS V)) : Except TrackSpec.Err (RStateTSOS V) :=
  match ObjStateTSOS.init c objs with
  | .error e => .error e
  | .ok obj =>
    match mkChans (fun it : DsItemTS V => TrackSpec.trackProcessor it.spec) (·.blocks) ({} : IState V) dss with
    | .error e => .error e
    | .ok ds =>
      match mkChans (fun it : HoaItemTS V => TrackSpec.buildMulti it.specs) (·.blocks) ({} : IState (List V)) hoas with
      | .error e => .error e
      | .ok hoa => .ok { aligner := Aligner.init, obj := obj, ds := ds, hoa := hoa, start_sample := 0 }

def RStateTSOS.render {V : Type} [RMod V] (c : Cfg V) (st : RStateTSOS V) (samples : List (List Rat)) :
    Except ErrTS (RStateTSOS V × List V) :=
  match st.obj.render c st.start_sample samples with
  | .error e => .error e
  | .ok (obj, o1) =>
    match liftR (liftA (st.aligner.add (st.start_sample - c.overall_delay) o1)) with
    | .error e => .error e
    | .ok al =>
      match dsRenderTS c st.ds st.start_sample samples with
      | .error e => .error e
      | .ok (ds, o2) =>
        match liftR (liftA (al.add st.start_sample o2)) with
        | .error e => .error e
        | .ok al =>
          match hoaRenderTS c st.hoa st.start_sample samples with
          | .error e => .error e
          | .ok (hoa, o3) =>
            match liftR (liftA (al.add st.start_sample o3)) with
            | .error e => .error e
            | .ok al =>
              match liftR (liftA al.get) with
              | .error e => .error e
              | .ok (ret, al) => .ok (⟨al, obj, ds, hoa, st.start_sample + samples.length⟩, ret)

def RStateTSOS.get_tail {V : Type} [RMod V] (c : Cfg V) (st : RStateTSOS V) : Except ErrTS (RStateTSOS V × List V) :=
  st.render c (tailFrames c)

def RStateTSOS.run {V : Type} [RMod V] (c : Cfg V) : RStateTSOS V → List (List (List Rat)) →
    Except ErrTS (RStateTSOS V × List (List V))
  | st, [] => .ok (st, [])
  | st, b :: bs =>
    match st.render c b with
    | .error e => .error e
    | .ok (st, o) =>
      match RStateTSOS.run c st bs with
      | .error e => .error e
      | .ok (st, os) => .ok (st, o :: os)

def renderAllTSOS {V : Type} [RMod V] (c : Cfg V) (objs : List (ObjItemTS V)) (dss : List (DsItemTS V))
    (hoas : List (HoaItemTS V)) (parts : List (List (List Rat))) : Except ErrTS (List V) :=
  match RStateTSOS.init c objs dss hoas with
  | .error e => .error (.track e)
  | .ok st0 =>
    match RStateTSOS.run c st0 parts with
    | .error e => .error e
    | .ok (st, os) =>
      match st.get_tail c with
      | .error e => .error e
      | .ok (_, tail) => .ok (os.flatten ++ tail)

def renderTraceTSOS {V : Type} [RMod V] (c : Cfg V) : RStateTSOS V → List (List (List Rat)) →
    List (List V) × Option ErrTS
  | st, [] =>
    match st.get_tail c with
    | .ok (_, tail) => ([tail], none)
    | .error e => ([], some e)
  | st, b :: bs =>
    match st.render c b with
    | .ok (st, o) => let (os, e) := renderTraceTSOS c st bs; (o :: os, e)
    | .error e => ([], some e)

end Earverif.RendererTS
