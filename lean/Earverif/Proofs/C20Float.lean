/-
C20 — the processors with the ms → samples conversion computed in binary64 (`stepG delaySamplesF`,
what the code does) coincide with the exact-arithmetic processors (`step`) on every spec whose
coefficient delays convert to the same number of samples either way (`Spec.floatExact`).
Core Lean only.
-/
import Earverif.Proofs.C20
set_option linter.unusedSimpArgs false
set_option linter.unusedVariables false
namespace Earverif.TrackSpec
variable {α : Type} [Sample α]

theorem initDelayG_eq (fs : Int) (ms : Rat) (st : Option (Int × List α))
    (h : delaySamplesF fs ms = delaySamples fs ms) :
    initDelayG delaySamplesF fs ms st = initDelay fs ms st := by
  cases st with
  | none => simp only [initDelayG, initDelay, h]
  | some v => rfl

mutual
/-- one `process` call: binary64 conversion = exact conversion on float-exact processors -/
theorem stepG_eq (fs : Int) (nch : Nat) : ∀ (p : Proc α) (b : List (List α)), p.floatExact fs = true →
    stepG delaySamplesF fs nch p b = step fs nch p b
  | .silent, b, _ => rfl
  | .direct i, b, _ => rfl
  | .mix ps, b, h => by
    simp only [Proc.floatExact] at h
    simp only [stepG, step, stepListG_eq fs nch ps b h]
  | .gain p g, b, h => by
    simp only [Proc.floatExact] at h
    simp only [stepG, step, stepG_eq fs nch p b h]
  | .matrix p g d st, b, h => by
    simp only [Proc.floatExact, Bool.and_eq_true] at h
    simp only [stepG, step, stepG_eq fs nch p b h.1]
    cases d with
    | none => rfl
    | some ms =>
      have := h.2; simp only [decide_eq_true_eq] at this
      simp only [initDelayG_eq fs ms st this]
theorem stepListG_eq (fs : Int) (nch : Nat) : ∀ (ps : List (Proc α)) (b : List (List α)),
    Proc.floatExactList fs ps = true → stepListG delaySamplesF fs nch ps b = stepList fs nch ps b
  | [], _, _ => rfl
  | p :: ps, b, h => by
    simp only [Proc.floatExactList, Bool.and_eq_true] at h
    simp only [stepListG, stepList, stepG_eq fs nch p b h.1, stepListG_eq fs nch ps b h.2]
end

mutual
/-- a `process` call does not change the coefficient delays of the tree -/
theorem step_floatExact (fs fs' : Int) (nch : Nat) : ∀ (p : Proc α) (b : List (List α)) (r : Proc α × List α),
    step fs nch p b = .ok r → p.floatExact fs' = true → r.1.floatExact fs' = true
  | .silent, b, r, h, _ => by simp only [step] at h; cases h; rfl
  | .direct i, b, r, h, _ => by
    simp only [step] at h
    split at h
    · cases h
    · cases h; rfl
  | .mix ps, b, r, h, hf => by
    simp only [Proc.floatExact] at hf
    simp only [step] at h
    cases h1 : stepList fs nch ps b with
    | error e => simp [h1] at h
    | ok r1 =>
      simp only [h1] at h; cases h
      simp only [Proc.floatExact]
      exact stepList_floatExact fs fs' nch ps b r1 h1 hf
  | .gain p g, b, r, h, hf => by
    simp only [Proc.floatExact] at hf
    simp only [step] at h
    cases h1 : step fs nch p b with
    | error e => simp [h1] at h
    | ok r1 =>
      simp only [h1] at h; cases h
      simp only [Proc.floatExact]
      exact step_floatExact fs fs' nch p b r1 h1 hf
  | .matrix p g d st, b, r, h, hf => by
    simp only [Proc.floatExact, Bool.and_eq_true] at hf
    simp only [step] at h
    cases h1 : step fs nch p b with
    | error e => simp [h1] at h
    | ok r1 =>
      have ih := step_floatExact fs fs' nch p b r1 h1 hf.1
      simp only [h1] at h
      cases d with
      | none => simp only at h; cases h; simp only [Proc.floatExact, ih, Bool.and_self]
      | some ms =>
        simp only at h
        cases h2 : initDelay fs ms st with
        | error e => simp [h2] at h
        | ok v =>
          simp only [h2] at h; cases h
          simp only [Proc.floatExact, ih, hf.2, Bool.and_self]
theorem stepList_floatExact (fs fs' : Int) (nch : Nat) : ∀ (ps : List (Proc α)) (b : List (List α))
    (r : List (Proc α) × List (List α)),
    stepList fs nch ps b = .ok r → Proc.floatExactList fs' ps = true → Proc.floatExactList fs' r.1 = true
  | [], _, r, h, _ => by simp only [stepList] at h; cases h; rfl
  | p :: ps, b, r, h, hf => by
    simp only [Proc.floatExactList, Bool.and_eq_true] at hf
    simp only [stepList] at h
    cases h1 : step fs nch p b with
    | error e => simp [h1] at h
    | ok r1 =>
      simp only [h1] at h
      cases h2 : stepList fs nch ps b with
      | error e => simp [h2] at h
      | ok r2 =>
        simp only [h2] at h; cases h
        simp only [Proc.floatExactList, step_floatExact fs fs' nch p b r1 h1 hf.1,
          stepList_floatExact fs fs' nch ps b r2 h2 hf.2, Bool.and_self]
end

theorem runG_eq (fs : Int) (nch : Nat) : ∀ (parts : List (List (List α))) (p : Proc α),
    p.floatExact fs = true → runG delaySamplesF fs nch p parts = run fs nch p parts
  | [], _, _ => rfl
  | b :: rest, p, h => by
    simp only [runG, run, stepG_eq fs nch p b h]
    cases h1 : step fs nch p b with
    | error e => rfl
    | ok r => simp only [runG_eq fs nch rest r.1 (step_floatExact fs fs nch p b r h1 h)]

theorem runMultiG_eq (fs : Int) (nch : Nat) : ∀ (parts : List (List (List α))) (ps : List (Proc α)),
    Proc.floatExactList fs ps = true → runMultiG delaySamplesF fs nch ps parts = runMulti fs nch ps parts
  | [], _, _ => rfl
  | b :: rest, ps, h => by
    simp only [runMultiG, runMulti, stepMultiG, stepMulti, stepListG_eq fs nch ps b h]
    cases h1 : stepList fs nch ps b with
    | error e => rfl
    | ok r =>
      have ih := runMultiG_eq fs nch rest r.1 (stepList_floatExact fs fs nch ps b r h1 h)
      obtain ⟨ps', cols⟩ := r
      cases hc : cols.isEmpty <;> simp [hc, ih]

omit [Sample α] in
mutual
theorem build_floatExact (fs : Int) : ∀ (s : Spec α) (p : Proc α), build s = .ok p → s.floatExact fs = true →
    p.floatExact fs = true
  | .silent, p, h, _ => by simp only [build] at h; cases h; rfl
  | .direct i, p, h, _ => by simp only [build] at h; cases h; rfl
  | .mix ts, p, h, hf => by
    simp only [Spec.floatExact] at hf
    simp only [build] at h
    split at h
    · cases h
    · cases h1 : buildList ts with
      | error e => simp [h1] at h
      | ok ps =>
        simp only [h1] at h; cases h
        simp only [Proc.floatExact]
        exact buildList_floatExact fs ts ps h1 hf
  | .gain t g, p, h, hf => by
    simp only [Spec.floatExact] at hf
    simp only [build] at h
    cases h1 : build t with
    | error e => simp [h1] at h
    | ok q =>
      simp only [h1] at h; cases h
      simp only [Proc.floatExact]
      exact build_floatExact fs t q h1 hf
  | .matrix t g d, p, h, hf => by
    simp only [Spec.floatExact, Bool.and_eq_true] at hf
    simp only [build] at h
    cases h1 : build t with
    | error e => simp [h1] at h
    | ok q =>
      simp only [h1] at h; cases h
      simp only [Proc.floatExact, build_floatExact fs t q h1 hf.1, hf.2, Bool.and_self]
theorem buildList_floatExact (fs : Int) : ∀ (ts : List (Spec α)) (ps : List (Proc α)), buildList ts = .ok ps →
    Spec.floatExactList fs ts = true → Proc.floatExactList fs ps = true
  | [], ps, h, _ => by simp only [buildList] at h; cases h; rfl
  | t :: ts, ps, h, hf => by
    simp only [Spec.floatExactList, Bool.and_eq_true] at hf
    simp only [buildList] at h
    cases h1 : build t with
    | error e => simp [h1] at h
    | ok q =>
      simp only [h1] at h
      cases h2 : buildList ts with
      | error e => simp [h2] at h
      | ok qs =>
        simp only [h2] at h; cases h
        simp only [Proc.floatExactList, build_floatExact fs t q h1 hf.1, buildList_floatExact fs ts qs h2 hf.2,
          Bool.and_self]
end

omit [Sample α] in
theorem floatExactList_filter (fs : Int) (p : Spec α → Bool) (ts : List (Spec α))
    (h : Spec.floatExactList fs ts = true) : Spec.floatExactList fs (ts.filter p) = true := by
  induction ts with
  | nil => simp [Spec.floatExactList]
  | cons t ts ih =>
    simp only [Spec.floatExactList, Bool.and_eq_true] at h
    by_cases hp : p t = true
    · simp [List.filter_cons_of_pos hp, Spec.floatExactList, h.1, ih h.2]
    · simp [List.filter_cons_of_neg hp, ih h.2]

variable [DecidableEq α]

mutual
/-- simplification only drops nodes: it keeps specs float-exact -/
theorem simplify_floatExact (fs : Int) : ∀ (s : Spec α), s.floatExact fs = true → (simplify s).floatExact fs = true
  | .direct i, _ => by simp [simplify, Spec.floatExact]
  | .silent, _ => by simp [simplify, Spec.floatExact]
  | .mix ts, h => by
    simp only [Spec.floatExact] at h
    have key := floatExactList_filter fs (fun t => !t.isSilent) _ (simplifyList_floatExact fs ts h)
    simp only [simplify]
    generalize (simplifyList ts).filter (fun t => !t.isSilent) = L at key
    match L with
    | [] => simp [Spec.floatExact]
    | [t] => simp only [Spec.floatExactList, Bool.and_true] at key; exact key
    | t :: u :: r => simpa [Spec.floatExact] using key
  | .gain t g, h => by
    simp only [Spec.floatExact] at h
    have ih := simplify_floatExact fs t h
    simp only [simplify]
    split
    · exact ih
    · simpa [Spec.floatExact] using ih
  | .matrix t g d, h => by
    simp only [Spec.floatExact, Bool.and_eq_true] at h
    have ih := simplify_floatExact fs t h.1
    simp only [simplify]
    split
    · simp [Spec.floatExact]
    · simp only [Spec.floatExact, Bool.and_eq_true]; exact ⟨ih, h.2⟩
theorem simplifyList_floatExact (fs : Int) : ∀ (ts : List (Spec α)),
    Spec.floatExactList fs ts = true → Spec.floatExactList fs (simplifyList ts) = true
  | [], _ => by simp [simplifyList, Spec.floatExactList]
  | t :: ts, h => by
    simp only [Spec.floatExactList, Bool.and_eq_true] at h
    simp only [simplifyList, Spec.floatExactList, Bool.and_eq_true]
    exact ⟨simplify_floatExact fs t h.1, simplifyList_floatExact fs ts h.2⟩
end

theorem buildMulti_floatExact (fs : Int) : ∀ (ss : List (Spec α)) (ps : List (Proc α)), buildMulti ss = .ok ps →
    Spec.floatExactList fs ss = true → Proc.floatExactList fs ps = true
  | [], ps, h, _ => by simp only [buildMulti] at h; cases h; rfl
  | t :: ts, ps, h, hf => by
    simp only [Spec.floatExactList, Bool.and_eq_true] at hf
    simp only [buildMulti, trackProcessor] at h
    cases h1 : build (simplify t) with
    | error e => simp [h1] at h
    | ok q =>
      simp only [h1] at h
      cases h2 : buildMulti ts with
      | error e => simp [h2] at h
      | ok qs =>
        simp only [h2] at h; cases h
        simp only [Proc.floatExactList, build_floatExact fs _ q h1 (simplify_floatExact fs t hf.1),
          buildMulti_floatExact fs ts qs h2 hf.2, Bool.and_self]

/-- `TrackProcessor(spec)` run with the binary64 conversion = run with the exact conversion, on
float-exact specs -/
theorem runSpecF_eq (fs : Int) (nch : Nat) (s : Spec α) (h : s.floatExact fs = true)
    (parts : List (List (List α))) : runSpecF fs nch s parts = runSpec fs nch s parts := by
  simp only [runSpecF, runSpec, runBuilt]
  cases h1 : build (simplify s) with
  | error e => rfl
  | ok p => exact runG_eq fs nch parts p (build_floatExact fs _ p h1 (simplify_floatExact fs s h))

theorem runMultiSpecF_eq (fs : Int) (nch : Nat) (ss : List (Spec α)) (h : Spec.floatExactList fs ss = true)
    (parts : List (List (List α))) : runMultiSpecF fs nch ss parts = runMultiSpec fs nch ss parts := by
  simp only [runMultiSpecF, runMultiSpec]
  cases h1 : buildMulti ss with
  | error e => rfl
  | ok ps => exact runMultiG_eq fs nch parts ps (buildMulti_floatExact fs ss ps h1 h)

end Earverif.TrackSpec
