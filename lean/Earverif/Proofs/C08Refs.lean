/-
C08 — lemmas about the id map and reference resolution model (`Model/AdmRefs.lean`): uniqueness of lookup, the
duplicate pass, and the resolution loop (invariants, totality on closed documents, rejection of dangling references,
the resolved value of every plain reference field).  The property-level statements are in `Props/C08.lean`.
-/
import Earverif.Model.AdmRefs
import Mathlib.Data.List.Nodup

set_option linter.unusedSimpArgs false
set_option linter.unusedVariables false
set_option linter.unusedSectionVars false

namespace Earverif.AdmRefs
variable {ι : Type} [DecidableEq ι] (up : ι → ι)

/-! ### lookup -/

/-- the upper-cased ids of the elements that have one -/
def keys (els : List (Elem ι)) : List ι := els.filterMap fun e => e.id.map up

theorem eq_of_nodup_filterMap {α β : Type} (f : α → Option β) :
    ∀ (l : List α), (l.filterMap f).Nodup → ∀ a b k, a ∈ l → b ∈ l → f a = some k → f b = some k → a = b := by
  intro l
  induction l with
  | nil => intro _ a b k ha; simp at ha
  | cons x xs ih =>
    intro hnd a b k ha hb hfa hfb
    cases hx : f x with
    | none =>
      rw [List.filterMap_cons_none hx] at hnd
      have ha' : a ∈ xs := by
        rcases List.mem_cons.mp ha with rfl | h
        · rw [hx] at hfa; cases hfa
        · exact h
      have hb' : b ∈ xs := by
        rcases List.mem_cons.mp hb with rfl | h
        · rw [hx] at hfb; cases hfb
        · exact h
      exact ih hnd a b k ha' hb' hfa hfb
    | some y =>
      rw [List.filterMap_cons_some hx, List.nodup_cons] at hnd
      rcases List.mem_cons.mp ha with rfl | ha' <;> rcases List.mem_cons.mp hb with rfl | hb'
      · rfl
      · exfalso
        rw [hx] at hfa; injection hfa with hfa; subst hfa
        exact hnd.1 (List.mem_filterMap.mpr ⟨b, hb', hfb⟩)
      · exfalso
        rw [hx] at hfb; injection hfb with hfb; subst hfb
        exact hnd.1 (List.mem_filterMap.mpr ⟨a, ha', hfa⟩)
      · exact ih hnd.2 a b k ha' hb' hfa hfb

/-- with pairwise distinct (upper-cased) ids, `lookup_element(key)` returns an element iff it is an element of the
document whose id matches — i.e. the unique such element -/
theorem lookup_eq_some_iff (els : List (Elem ι)) (h : (keys up els).Nodup) (key : ι) (e : Elem ι) :
    lookup up els key = some e ↔ e ∈ els ∧ e.id.map up = some (up key) := by
  unfold lookup
  constructor
  · intro hf
    have h1 := List.find?_some hf
    have h2 := List.mem_of_find?_eq_some hf
    exact ⟨h2, by simpa [matchesKey] using h1⟩
  · rintro ⟨hm, hk⟩
    cases hf : els.find? (matchesKey up key) with
    | none =>
      rw [List.find?_eq_none] at hf
      have := hf e hm
      simp [matchesKey, hk] at this
    | some e' =>
      have h1 := List.find?_some hf
      have h2 := List.mem_of_find?_eq_some hf
      have h1' : e'.id.map up = some (up key) := by simpa [matchesKey] using h1
      rw [eq_of_nodup_filterMap (fun e : Elem ι => e.id.map up) els h e e' (up key) hm h2 hk h1']

theorem lookup_eq_none_iff (els : List (Elem ι)) (key : ι) :
    lookup up els key = none ↔ ∀ e ∈ els, e.id.map up ≠ some (up key) := by
  unfold lookup
  rw [List.find?_eq_none]
  constructor
  · intro h e he; simpa [matchesKey] using h e he
  · intro h e he; simpa [matchesKey] using h e he

/-! ### the duplicate pass -/

theorem mem_dedupKeys (l : List ι) (k : ι) : k ∈ dedupKeys l ↔ k ∈ l := by
  induction l with
  | nil => simp [dedupKeys]
  | cons x xs ih =>
    simp only [dedupKeys, List.mem_cons, List.mem_filter, ih, decide_eq_true_eq]
    by_cases h : k = x <;> simp [h]

theorem nodup_dedupKeys (l : List ι) : (dedupKeys l).Nodup := by
  induction l with
  | nil => simp [dedupKeys]
  | cons x xs ih =>
    simp only [dedupKeys, List.nodup_cons, List.mem_filter, decide_eq_true_eq, ne_eq, not_true_eq_false, and_false,
      not_false_eq_true, true_and]
    exact ih.filter _

/-- no two common definitions of the list share an id -/
def CommonsDistinct (l : List (Elem ι)) : Prop :=
  ∀ k, ((l.filter fun e => decide (e.id.map up = some k)).filter (·.common)).length ≤ 1

theorem pickOne_cases (l : List (Elem ι)) (hc : CommonsDistinct up l) (k : ι) (hk : k ∈ keys up l) :
    (∃ e, pickOne up l k = .ok e ∧ e ∈ l ∧ e.id.map up = some k ∧
        ((l.filter fun e => decide (e.id.map up = some k)).filter (!·.common)).length ≤ 1) ∨
    (pickOne up l k = .error .admIDError ∧
        1 < ((l.filter fun e => decide (e.id.map up = some k)).filter (!·.common)).length) := by
  unfold pickOne
  simp only
  have h1 : ¬ 1 < ((l.filter fun e => decide (e.id.map up = some k)).filter (·.common)).length := by
    have := hc k; omega
  simp only [h1, if_false]
  by_cases h2 : 1 < ((l.filter fun e => decide (e.id.map up = some k)).filter (!·.common)).length
  · right; exact ⟨if_pos h2, h2⟩
  · left
    simp only [h2, if_false]
    obtain ⟨e0, he0, hke0⟩ : ∃ e ∈ l, e.id.map up = some k := by
      unfold keys at hk
      obtain ⟨e, he, hke⟩ := List.mem_filterMap.mp hk
      exact ⟨e, he, hke⟩
    have hmem0 : e0 ∈ l.filter fun e => decide (e.id.map up = some k) :=
      List.mem_filter.mpr ⟨he0, decide_eq_true hke0⟩
    cases hn : (l.filter fun e => decide (e.id.map up = some k)).filter (!·.common) with
    | cons n ns =>
      have hnm : n ∈ (l.filter fun e => decide (e.id.map up = some k)).filter (!·.common) := by rw [hn]; simp
      simp only [List.mem_filter, decide_eq_true_eq] at hnm
      refine ⟨n, rfl, hnm.1.1, hnm.1.2, ?_⟩
      rw [hn] at h2; omega
    | nil =>
      cases hcm : (l.filter fun e => decide (e.id.map up = some k)).filter (·.common) with
      | cons c cs =>
        have hcmm : c ∈ (l.filter fun e => decide (e.id.map up = some k)).filter (·.common) := by rw [hcm]; simp
        simp only [List.mem_filter, decide_eq_true_eq] at hcmm
        exact ⟨c, rfl, hcmm.1.1, hcmm.1.2, by simp⟩
      | nil =>
        exfalso
        by_cases hb : e0.common = true
        · have : e0 ∈ (l.filter fun e => decide (e.id.map up = some k)).filter (·.common) :=
            List.mem_filter.mpr ⟨hmem0, hb⟩
          rw [hcm] at this; simp at this
        · have : e0 ∈ (l.filter fun e => decide (e.id.map up = some k)).filter (!·.common) :=
            List.mem_filter.mpr ⟨hmem0, by simpa using hb⟩
          rw [hn] at this; simp at this

theorem mapM_ok_or_err {α β : Type} {E : Type} (f : α → Except E β) (x : E) :
    ∀ (ks : List α), (∀ k ∈ ks, (∃ b, f k = .ok b) ∨ f k = .error x) →
      ((∃ bs, ks.mapM f = .ok bs ∧ ∀ k ∈ ks, ∃ b, f k = .ok b) ∨
       (ks.mapM f = .error x ∧ ∃ k ∈ ks, f k = .error x)) := by
  intro ks
  induction ks with
  | nil => intro _; left; exact ⟨[], rfl, by simp⟩
  | cons k ks ih =>
    intro h
    rcases h k (by simp) with ⟨b, hb⟩ | he
    · rcases ih (fun k' hk' => h k' (by simp [hk'])) with ⟨bs, hbs, hall⟩ | ⟨herr, k', hk', hk'e⟩
      · left
        refine ⟨b :: bs, by simp [List.mapM_cons, hb, hbs, bind, Except.bind, pure, Except.pure], ?_⟩
        intro k' hk'
        rcases List.mem_cons.mp hk' with rfl | h'
        · exact ⟨b, hb⟩
        · exact hall k' h'
      · right
        exact ⟨by simp [List.mapM_cons, hb, herr, bind, Except.bind], k', by simp [hk'], hk'e⟩
    · right
      exact ⟨by simp [List.mapM_cons, he, bind, Except.bind], k, by simp, he⟩

/-- two different positions of the list hold non-common elements with the same (upper-cased) id -/
def HasDuplicate (l : List (Elem ι)) : Prop :=
  ∃ (i j : Nat) (a b : Elem ι) (k : ι), i < j ∧ l[i]? = some a ∧ l[j]? = some b ∧ a.common = false ∧ b.common = false ∧
    a.id.map up = some k ∧ b.id.map up = some k

theorem filter_length_two {α : Type} (p : α → Bool) (l : List α) (i j : Nat) (a b : α) (hij : i < j)
    (ha : l[i]? = some a) (hb : l[j]? = some b) (hpa : p a = true) (hpb : p b = true) :
    1 < (l.filter p).length := by
  induction l generalizing i j with
  | nil => simp at ha
  | cons x xs ih =>
    cases i with
    | zero =>
      simp only [List.getElem?_cons_zero, Option.some.injEq] at ha
      subst ha
      obtain ⟨j', rfl⟩ : ∃ j', j = j' + 1 := ⟨j - 1, by omega⟩
      simp only [List.getElem?_cons_succ] at hb
      have hbm : b ∈ xs.filter p := List.mem_filter.mpr ⟨List.mem_of_getElem? hb, hpb⟩
      have : 0 < (xs.filter p).length := List.length_pos_of_mem hbm
      simp only [List.filter_cons, hpa, if_true, List.length_cons]
      omega
    | succ i' =>
      obtain ⟨j', rfl⟩ : ∃ j', j = j' + 1 := ⟨j - 1, by omega⟩
      simp only [List.getElem?_cons_succ] at ha hb
      have := ih i' j' (by omega) ha hb
      simp only [List.filter_cons]
      split
      · simp only [List.length_cons]; omega
      · exact this

/-- `_without_duplicates` on a list without repeated common definitions: either it answers (then no id is shared by
two non-common elements), or it raises `AdmIDError` (then some id is) -/
theorem withoutDuplicates_cases (l : List (Elem ι)) (hc : CommonsDistinct up l) :
    ((∃ l', withoutDuplicates up l = .ok l') ∧ ¬ HasDuplicate up l) ∨
    (withoutDuplicates up l = .error .admIDError ∧
      ∃ k, 1 < ((l.filter fun e => decide (e.id.map up = some k)).filter (!·.common)).length) := by
  unfold withoutDuplicates
  have hkeys : ∀ k ∈ dedupKeys (l.filterMap fun e => e.id.map up),
      (∃ b, pickOne up l k = .ok b) ∨ pickOne up l k = .error .admIDError := by
    intro k hk
    rw [mem_dedupKeys] at hk
    rcases pickOne_cases up l hc k hk with ⟨e, he, _⟩ | ⟨he, _⟩
    · exact Or.inl ⟨e, he⟩
    · exact Or.inr he
  rcases mapM_ok_or_err (pickOne up l) .admIDError _ hkeys with ⟨bs, hbs, hall⟩ | ⟨herr, k, hk, hke⟩
  · left
    refine ⟨⟨l.filter (·.id.isNone) ++ bs, by simp [hbs, bind, Except.bind, pure, Except.pure]⟩, ?_⟩
    rintro ⟨i, j, a, b, k, hij, ha, hb, hac, hbc, hak, hbk⟩
    have hk : k ∈ keys up l := List.mem_filterMap.mpr ⟨a, List.mem_of_getElem? ha, hak⟩
    have hkd : k ∈ dedupKeys (l.filterMap fun e => e.id.map up) := (mem_dedupKeys _ _).mpr hk
    obtain ⟨e, he⟩ := hall k hkd
    rcases pickOne_cases up l hc k hk with ⟨_, _, _, _, hlen⟩ | ⟨herr, _⟩
    · have := filter_length_two (fun e : Elem ι => decide (e.id.map up = some k) && !e.common) l i j a b hij ha hb
        (by simp [hak, hac]) (by simp [hbk, hbc])
      rw [List.filter_filter] at hlen
      have h' : (fun e : Elem ι => decide (e.id.map up = some k) && !e.common)
          = (fun a : Elem ι => (!a.common) && decide (Option.map up a.id = some k)) := by
        funext e; exact Bool.and_comm _ _
      rw [h'] at this
      omega
    · rw [herr] at he; cases he
  · right
    refine ⟨by simp [herr, bind, Except.bind], k, ?_⟩
    rw [mem_dedupKeys] at hk
    rcases pickOne_cases up l hc k hk with ⟨e, he, _⟩ | ⟨_, hlen⟩
    · rw [he] at hke; cases hke
    · exact hlen

theorem withoutDuplicates_dup (l : List (Elem ι)) (hc : CommonsDistinct up l) (hd : HasDuplicate up l) :
    withoutDuplicates up l = .error .admIDError := by
  rcases withoutDuplicates_cases up l hc with ⟨_, hnd⟩ | ⟨h, _⟩
  · exact absurd hd hnd
  · exact h

theorem withoutDuplicates_ok_or (l : List (Elem ι)) (hc : CommonsDistinct up l) :
    (∃ l', withoutDuplicates up l = .ok l') ∨ withoutDuplicates up l = .error .admIDError := by
  rcases withoutDuplicates_cases up l hc with ⟨h, _⟩ | ⟨h, _⟩
  · exact Or.inl h
  · exact Or.inr h

/-- the eight lists of the document -/
def ADM.lists (a : ADM ι) : List (List (Elem ι)) :=
  [a.programmes, a.contents, a.objects, a.packFormats, a.channelFormats, a.streamFormats, a.trackFormats, a.trackUIDs]

/-- a repeated id within one class is an `AdmIDError` of the duplicate pass, whichever class it is in -/
theorem dedupAll_dup (a : ADM ι) (hc : ∀ l ∈ a.lists, CommonsDistinct up l) (hd : ∃ l ∈ a.lists, HasDuplicate up l) :
    dedupAll up a = .error .admIDError := by
  obtain ⟨l, hl, hdup⟩ := hd
  have herr := withoutDuplicates_dup up l (hc l hl) hdup
  have hok : ∀ l ∈ a.lists, (∃ l', withoutDuplicates up l = .ok l') ∨ withoutDuplicates up l = .error .admIDError :=
    fun l hl => withoutDuplicates_ok_or up l (hc l hl)
  simp only [ADM.lists, List.mem_cons, List.not_mem_nil, or_false] at hl
  unfold dedupAll
  rcases hok a.programmes (by simp [ADM.lists]) with ⟨l1, e1⟩ | e1
  swap; · simp [e1, bind, Except.bind]
  rcases hok a.contents (by simp [ADM.lists]) with ⟨l2, e2⟩ | e2
  swap; · simp [e1, e2, bind, Except.bind]
  rcases hok a.objects (by simp [ADM.lists]) with ⟨l3, e3⟩ | e3
  swap; · simp [e1, e2, e3, bind, Except.bind]
  rcases hok a.packFormats (by simp [ADM.lists]) with ⟨l4, e4⟩ | e4
  swap; · simp [e1, e2, e3, e4, bind, Except.bind]
  rcases hok a.channelFormats (by simp [ADM.lists]) with ⟨l5, e5⟩ | e5
  swap; · simp [e1, e2, e3, e4, e5, bind, Except.bind]
  rcases hok a.streamFormats (by simp [ADM.lists]) with ⟨l6, e6⟩ | e6
  swap; · simp [e1, e2, e3, e4, e5, e6, bind, Except.bind]
  rcases hok a.trackFormats (by simp [ADM.lists]) with ⟨l7, e7⟩ | e7
  swap; · simp [e1, e2, e3, e4, e5, e6, e7, bind, Except.bind]
  rcases hok a.trackUIDs (by simp [ADM.lists]) with ⟨l8, e8⟩ | e8
  swap; · simp [e1, e2, e3, e4, e5, e6, e7, e8, bind, Except.bind]
  exfalso
  rcases hl with rfl | rfl | rfl | rfl | rfl | rfl | rfl | rfl
  · rw [herr] at e1; cases e1
  · rw [herr] at e2; cases e2
  · rw [herr] at e3; cases e3
  · rw [herr] at e4; cases e4
  · rw [herr] at e5; cases e5
  · rw [herr] at e6; cases e6
  · rw [herr] at e7; cases e7
  · rw [herr] at e8; cases e8

/-! ### the duplicate pass on a list with distinct ids is the identity -/

theorem filter_key_of_nodup {α β : Type} [DecidableEq β] (key : α → β) :
    ∀ (l : List α), (l.map key).Nodup → ∀ e ∈ l, l.filter (fun x => decide (key x = key e)) = [e] := by
  intro l
  induction l with
  | nil => intro _ e he; simp at he
  | cons x xs ih =>
    intro hnd e he
    simp only [List.map_cons, List.nodup_cons] at hnd
    rcases List.mem_cons.mp he with rfl | he'
    · have : xs.filter (fun x => decide (key x = key e)) = [] := by
        rw [List.filter_eq_nil_iff]
        intro y hy
        simp only [decide_eq_true_eq]
        intro hk
        exact hnd.1 (by rw [← hk]; exact List.mem_map_of_mem hy)
      simp [List.filter_cons, this]
    · have hne : key x ≠ key e := by
        intro hk
        exact hnd.1 (by rw [hk]; exact List.mem_map_of_mem he')
      simp [List.filter_cons, hne, ih hnd.2 e he']

theorem dedupKeys_of_nodup (l : List ι) (h : l.Nodup) : dedupKeys l = l := by
  induction l with
  | nil => rfl
  | cons x xs ih =>
    simp only [List.nodup_cons] at h
    simp only [dedupKeys, ih h.2]
    congr 1
    rw [List.filter_eq_self]
    intro y hy
    simp only [ne_eq, decide_eq_true_eq]
    rintro rfl
    exact h.1 hy

/-- every element has an id and the (upper-cased) ids are pairwise distinct -/
def DistinctIds (l : List (Elem ι)) : Prop := (∀ e ∈ l, e.id.isSome) ∧ (l.map fun e => e.id.map up).Nodup

theorem withoutDuplicates_of_distinct (l : List (Elem ι)) (h : DistinctIds up l) : withoutDuplicates up l = .ok l := by
  obtain ⟨hsome, hnd⟩ := h
  unfold withoutDuplicates
  have hnone : l.filter (·.id.isNone) = [] := by
    rw [List.filter_eq_nil_iff]
    intro e he
    have := hsome e he
    cases hid : e.id <;> simp [hid] at this ⊢
  -- the keys are the ids, in order
  have hpick : ∀ e ∈ l, ∀ k, e.id.map up = some k → pickOne up l k = .ok e := by
    intro e he k hk
    have hf := filter_key_of_nodup (fun e : Elem ι => e.id.map up) l hnd e he
    unfold pickOne
    simp only
    have : (l.filter fun x => decide (x.id.map up = some k)) = [e] := by rw [← hk]; exact hf
    rw [this]
    cases hc : e.common <;> simp [List.filter_cons, hc]
  have hmap : ∀ l' : List (Elem ι), (∀ e ∈ l', e ∈ l) →
      (l'.filterMap fun e => e.id.map up).mapM (pickOne up l) = .ok l' := by
    intro l'
    induction l' with
    | nil => intro _; rfl
    | cons e es ih =>
      intro hl
      have he := hl e (by simp)
      have hs := hsome e he
      cases hid : e.id with
      | none => simp [hid] at hs
      | some i =>
        have hk : e.id.map up = some (up i) := by simp [hid]
        rw [List.filterMap_cons_some (f := fun e : Elem ι => e.id.map up) hk]
        simp [List.mapM_cons, hpick e he (up i) hk, ih (fun x hx => hl x (by simp [hx])), bind, Except.bind, pure,
          Except.pure]
  have hkn : (l.filterMap fun e => e.id.map up).Nodup := by
    have : (l.filterMap fun e => e.id.map up).map some = l.map fun e => e.id.map up := by
      clear hnone hpick hmap hnd
      induction l with
      | nil => rfl
      | cons e es ih =>
        have hs := hsome e (by simp)
        cases hid : e.id with
        | none => simp [hid] at hs
        | some i =>
          have hk : e.id.map up = some (up i) := by simp [hid]
          rw [List.filterMap_cons_some (f := fun e : Elem ι => e.id.map up) hk]
          simp [hid, ih (fun x hx => hsome x (by simp [hx]))]
    have h2 : ((l.filterMap fun e => e.id.map up).map some).Nodup := by rw [this]; exact hnd
    exact List.Nodup.of_map _ h2
  rw [dedupKeys_of_nodup _ hkn, hmap l (fun _ h => h), hnone]
  rfl

/-! ### the resolution loop: what no step changes -/

/-- the part of an element that no resolution step changes -/
def core (e : Elem ι) : Oid × Cls × Option ι × List (Oid × Option ι) := (e.oid, e.cls, e.id, e.avs)

def fieldAt (st : List (Elem ι)) (t : Nat × Nat) : Option (Field ι) := (st[t.1]?).bind fun e => e.fields[t.2]?

theorem lookupIdx_core (st st' : List (Elem ι)) (h : st.map core = st'.map core) (k : ι) :
    lookupIdx up st k = lookupIdx up st' k := by
  have : ∀ s : List (Elem ι), lookupIdx up s k =
      (s.map core).findIdx? (fun c => decide (c.2.2.1.map up = some (up k))) := by
    intro s
    unfold lookupIdx
    rw [List.findIdx?_map]
    rfl
  rw [this st, this st', h]

theorem getElem?_core (st st' : List (Elem ι)) (h : st.map core = st'.map core) (i : Nat) :
    (st[i]?).map core = (st'[i]?).map core := by
  have := congrArg (fun l => l[i]?) h
  simpa using this

theorem oidAt_core (st st' : List (Elem ι)) (h : st.map core = st'.map core) (i : Option Nat) :
    oidAt st i = oidAt st' i := by
  cases i with
  | none => rfl
  | some i =>
    have := getElem?_core st st' h i
    simp only [oidAt, Option.bind_some]
    cases h1 : st[i]? <;> cases h2 : st'[i]? <;> simp [h1, h2, core] at this ⊢
    exact this.1

theorem getElem?_modify' {α : Type} (st : List α) (i : Nat) (g : α → α) (j : Nat) :
    (st.modify i g)[j]? = if i = j then (st[j]?).map g else st[j]? := by
  rw [List.getElem?_modify]
  by_cases h : i = j <;> cases st[j]? <;> simp [h]

theorem core_modify (st : List (Elem ι)) (i : Nat) (g : Elem ι → Elem ι) (hg : ∀ e, core (g e) = core e) :
    (st.modify i g).map core = st.map core := by
  apply List.ext_getElem?
  intro j
  simp only [List.getElem?_map, getElem?_modify']
  split
  · cases st[j]? <;> simp [hg]
  · rfl

theorem fieldAt_modify_keep (st : List (Elem ι)) (i : Nat) (g : Elem ι → Elem ι) (hg : ∀ e, (g e).fields = e.fields)
    (t : Nat × Nat) : fieldAt (st.modify i g) t = fieldAt st t := by
  unfold fieldAt
  simp only [getElem?_modify']
  split
  · cases st[t.1]? <;> simp [hg]
  · rfl

theorem fieldAt_setField (st : List (Elem ι)) (i j : Nat) (f : Field ι) (t : Nat × Nat) :
    fieldAt (setField st i j f) t =
      if t = (i, j) then (fieldAt st t).map (fun _ => f) else fieldAt st t := by
  obtain ⟨a, b⟩ := t
  unfold fieldAt setField
  simp only [getElem?_modify', Prod.mk.injEq]
  by_cases hi : i = a
  · subst hi
    simp only [if_true, true_and]
    cases st[i]? with
    | none => simp
    | some e =>
      simp only [Option.map_some, Option.bind_some, List.getElem?_set]
      by_cases hj : j = b
      · subst hj
        simp only [if_true]
        by_cases hlt : j < e.fields.length
        · simp [hlt, List.getElem?_eq_getElem hlt]
        · simp [hlt, List.getElem?_eq_none (Nat.le_of_not_lt hlt)]
      · have : ¬ b = j := fun h => hj h.symm
        simp [hj, this]
  · have : ¬ a = i := fun h => hi h.symm
    simp [hi, this]

/-! ### generic folds in `Except` -/

theorem foldlM_inv {S α E : Type} (f : S → α → Except E S) (P : S → Prop) (R : S → S → Prop)
    (hrefl : ∀ s, R s s) (htrans : ∀ a b c, R a b → R b c → R a c) (l : List α)
    (hstep : ∀ s a, a ∈ l → P s → ∃ s', f s a = .ok s' ∧ P s' ∧ R s s') :
    ∀ s, P s → ∃ s', l.foldlM f s = .ok s' ∧ P s' ∧ R s s' := by
  induction l with
  | nil => intro s hs; exact ⟨s, rfl, hs, hrefl s⟩
  | cons a l ih =>
    intro s hs
    obtain ⟨s1, h1, hp1, hr1⟩ := hstep s a (by simp) hs
    obtain ⟨s2, h2, hp2, hr2⟩ := ih (fun s a ha hp => hstep s a (by simp [ha]) hp) s1 hp1
    exact ⟨s2, by simp [List.foldlM_cons, h1, h2, bind, Except.bind], hp2, htrans _ _ _ hr1 hr2⟩

theorem foldlM_err {S α E : Type} (f : S → α → Except E S) (P : S → Prop) (x : E) (l : List α)
    (hstep : ∀ s a, a ∈ l → P s → (∃ s', f s a = .ok s' ∧ P s') ∨ f s a = .error x)
    (hbad : ∃ a ∈ l, ∀ s, P s → f s a = .error x) :
    ∀ s, P s → l.foldlM f s = .error x := by
  induction l with
  | nil => obtain ⟨a, ha, _⟩ := hbad; simp at ha
  | cons a l ih =>
    intro s hs
    rcases hstep s a (by simp) hs with ⟨s1, h1, hp1⟩ | he
    · obtain ⟨b, hb, hbe⟩ := hbad
      rcases List.mem_cons.mp hb with rfl | hb'
      · rw [hbe s hs] at h1; cases h1
      · simp only [List.foldlM_cons, h1, bind, Except.bind]
        exact ih (fun s a ha hp => hstep s a (by simp [ha]) hp) ⟨b, hb', hbe⟩ s1 hp1
    · simp [List.foldlM_cons, he, bind, Except.bind]

/-! ### lookups of a reference list -/

theorem mapM_lookupRef_ok (st : List (Elem ι)) (silent : Bool) : ∀ (refs : List (Option ι)),
    (∀ r ∈ refs, (r = none → silent = true) ∧ (∀ k, r = some k → ∃ i, lookupIdx up st k = some i)) →
    refs.mapM (lookupRef up st silent) = .ok (refs.map fun r => r.bind (lookupIdx up st)) := by
  intro refs
  induction refs with
  | nil => intro _; rfl
  | cons r rs ih =>
    intro h
    obtain ⟨h1, h2⟩ := h r (by simp)
    have hr : lookupRef up st silent r = .ok (r.bind (lookupIdx up st)) := by
      cases r with
      | none => simp [lookupRef, h1 rfl]
      | some k => obtain ⟨i, hi⟩ := h2 k rfl; simp [lookupRef, hi]
    simp [List.mapM_cons, hr, ih (fun r' hr' => h r' (by simp [hr'])), bind, Except.bind, pure, Except.pure]

theorem mapM_lookupRef_err (st : List (Elem ι)) (silent : Bool) : ∀ (refs : List (Option ι)),
    (∀ r ∈ refs, r = none → silent = true) → (∃ r ∈ refs, ∃ k, r = some k ∧ lookupIdx up st k = none) →
    refs.mapM (lookupRef up st silent) = .error .keyError := by
  intro refs
  induction refs with
  | nil => intro _ h; obtain ⟨r, hr, _⟩ := h; simp at hr
  | cons r rs ih =>
    intro h1 h2
    cases r with
    | none =>
      have := h1 none (by simp) rfl
      subst this
      obtain ⟨r', hr', k, hk, hl⟩ := h2
      have hr'' : r' ∈ rs := by
        rcases List.mem_cons.mp hr' with rfl | h
        · cases hk
        · exact h
      simp [List.mapM_cons, lookupRef, ih (fun r hr => h1 r (by simp [hr])) ⟨r', hr'', k, hk, hl⟩, bind,
        Except.bind]
    | some k =>
      cases hl : lookupIdx up st k with
      | none => simp [List.mapM_cons, lookupRef, hl, bind, Except.bind]
      | some i =>
        obtain ⟨r', hr', k', hk', hl'⟩ := h2
        have hr'' : r' ∈ rs := by
          rcases List.mem_cons.mp hr' with rfl | h
          · injection hk' with hk'; subst hk'; rw [hl] at hl'; cases hl'
          · exact h
        simp [List.mapM_cons, lookupRef, hl, ih (fun r hr => h1 r (by simp [hr])) ⟨r', hr'', k', hk', hl'⟩, bind,
          Except.bind]

theorem getElem?_findIdx? {α : Type} (p : α → Bool) (l : List α) :
    (l.findIdx? p).bind (fun i => l[i]?) = l.find? p := by
  induction l with
  | nil => rfl
  | cons x xs ih =>
    simp only [List.findIdx?_cons, List.find?_cons]
    cases hp : p x
    · simp only [Bool.false_eq_true, if_false]
      rw [← ih]
      cases xs.findIdx? p <;> simp
    · simp

theorem oidAt_lookupIdx (st : List (Elem ι)) (k : ι) :
    oidAt st (lookupIdx up st k) = (lookup up st k).map (·.oid) := by
  unfold lookup lookupIdx
  rw [← getElem?_findIdx?]
  cases h : st.findIdx? (matchesKey up k) <;> simp [oidAt, h]

/-! ### the link attributes -/

/-- every audioTrackFormat that is linked to a stream is linked to the stream `σ` names for it -/
def LinkInv (σ : Oid → Oid) (st : List (Elem ι)) : Prop :=
  ∀ (i : Nat) (e : Elem ι), st[i]? = some e → ∀ s, e.streamLink = some s → s = σ e.oid

/-- the loop state is the initial chain up to field contents and link attributes, and the links agree with `σ` -/
def Good (σ : Oid → Oid) (st0 st : List (Elem ι)) : Prop := st.map core = st0.map core ∧ LinkInv σ st

def SameFields (st st' : List (Elem ι)) : Prop := ∀ t, fieldAt st' t = fieldAt st t

theorem linkInv_modify (σ : Oid → Oid) (st : List (Elem ι)) (i : Nat) (g : Elem ι → Elem ι)
    (hg : ∀ e, st[i]? = some e → (g e).oid = e.oid ∧ ∀ s, (g e).streamLink = some s → s = σ e.oid)
    (h : LinkInv σ st) : LinkInv σ (st.modify i g) := by
  unfold LinkInv
  intro j e he s hs
  rw [getElem?_modify'] at he
  split at he
  · rename_i hij; subst hij
    cases hst : st[i]? with
    | none => simp [hst] at he
    | some e0 =>
      simp only [hst, Option.map_some, Option.some.injEq] at he
      subst he
      obtain ⟨ho, hl⟩ := hg e0 hst
      rw [ho]; exact hl s hs
  · exact h j e he s hs

theorem addEncode_good (σ : Oid → Oid) (st0 st : List (Elem ι)) (d : Nat) (o : Oid) (hG : Good σ st0 st)
    (hd : ∀ e, st[d]? = some e → e.cls = .pack) :
    ∃ st', addEncode st d o = .ok st' ∧ Good σ st0 st' ∧ SameFields st st' := by
  unfold addEncode
  cases hst : st[d]? with
  | none => exact ⟨st, rfl, hG, fun _ => rfl⟩
  | some de =>
    simp only [hd de hst, ne_eq, not_true_eq_false, if_false]
    split
    · exact ⟨st, rfl, hG, fun _ => rfl⟩
    · refine ⟨_, rfl, ⟨?_, ?_⟩, ?_⟩
      · refine (core_modify st _ _ ?_).trans hG.1
        intro e; rfl
      · exact linkInv_modify σ st d _ (fun e he => ⟨rfl, fun s hs => hG.2 d e he s hs⟩) hG.2
      · intro t; apply fieldAt_modify_keep; intro e; rfl

theorem linkTrackStream_good (σ : Oid → Oid) (st0 st : List (Elem ι)) (ti : Nat) (so : Oid) (hG : Good σ st0 st)
    (ht : ∀ e, st[ti]? = some e → e.cls = .track ∧ σ e.oid = so) :
    ∃ st', linkTrackStream st ti so = .ok st' ∧ Good σ st0 st' ∧ SameFields st st' := by
  unfold linkTrackStream
  cases hst : st[ti]? with
  | none => exact ⟨st, rfl, hG, fun _ => rfl⟩
  | some te =>
    obtain ⟨hc, hs⟩ := ht te hst
    simp only [hc, ne_eq, not_true_eq_false, if_false]
    cases hl : te.streamLink with
    | some s =>
      have := hG.2 ti te hst s hl
      simp only [this, hs, ne_eq, not_true_eq_false, if_false]
      exact ⟨st, rfl, hG, fun _ => rfl⟩
    | none =>
      refine ⟨_, rfl, ⟨?_, ?_⟩, ?_⟩
      · refine (core_modify st _ _ ?_).trans hG.1
        intro e; rfl
      · exact linkInv_modify σ st ti _ (fun e he => ⟨rfl, fun s hs' => by
          simp only [Option.some.injEq] at hs'
          rw [hst] at he; injection he with he; subst he
          rw [← hs', hs]⟩) hG.2
      · intro t; apply fieldAt_modify_keep; intro e; rfl

/-! ### one step of the loop -/

/-- what the step for reference `r` of a field of `self` with mode `m` needs in order not to raise anything but
`KeyError`: `None` only where the silent track may stand; the pack found by a `decodePackFormatIDRef` is an
audioPackFormat, `encodePackFormatIDRef` sits on an audioPackFormat; the element found by a stream's
`audioTrackFormatIDRef` is an audioTrackFormat whose stream (`σ`) is this stream; an audioTrackFormat's
`audioStreamFormatIDRef` finds the stream `σ` names for it -/
def RefOK (σ : Oid → Oid) (st0 : List (Elem ι)) (self : Elem ι) (m : Mode) (r : Option ι) : Prop :=
  match r with
  | none => m = .silentOK
  | some k => ∀ (i : Nat) (tgt : Elem ι), lookupIdx up st0 k = some i → st0[i]? = some tgt →
      (m = .decode → tgt.cls = .pack) ∧ (m = .encode → self.cls = .pack) ∧
      (m = .linkTracks → tgt.cls = .track ∧ σ tgt.oid = self.oid) ∧
      (m = .linkStream → self.cls = .track ∧ σ self.oid = tgt.oid)

/-- the reference names no element of the document -/
def Dangling (st0 : List (Elem ι)) (r : Option ι) : Prop := ∃ k, r = some k ∧ lookupIdx up st0 k = none

structure Static (σ : Oid → Oid) (st0 : List (Elem ι)) : Prop where
  link : LinkInv σ st0
  refs : ∀ (i : Nat) (e : Elem ι), st0[i]? = some e → ∀ f ∈ e.fields, f.mode ≠ .avs → ∀ refs, f.pending = some refs →
    ∀ r ∈ refs, RefOK up σ st0 e f.mode r

structure Inv (σ : Oid → Oid) (st0 st : List (Elem ι)) : Prop where
  good : Good σ st0 st
  field : ∀ t f, fieldAt st t = some f → f.pending = none ∨ fieldAt st0 t = some f

theorem inv_refl (σ : Oid → Oid) (st0 : List (Elem ι)) (h : LinkInv σ st0) : Inv σ st0 st0 :=
  ⟨⟨rfl, h⟩, fun _ _ hf => Or.inr hf⟩

theorem good_getElem? (σ : Oid → Oid) (st0 s : List (Elem ι)) (hG : Good σ st0 s) (i : Nat) (x : Elem ι)
    (hx : s[i]? = some x) : ∃ x0, st0[i]? = some x0 ∧ core x = core x0 := by
  have := getElem?_core s st0 hG.1 i
  rw [hx] at this
  cases h0 : st0[i]? with
  | none => simp [h0] at this
  | some x0 => exact ⟨x0, rfl, by simpa [h0] using this⟩

theorem good_setField (σ : Oid → Oid) (st0 s : List (Elem ι)) (hG : Good σ st0 s) (i j : Nat) (f : Field ι) :
    Good σ st0 (setField s i j f) := by
  unfold setField
  refine ⟨?_, ?_⟩
  · refine (core_modify s _ _ ?_).trans hG.1
    intro e; rfl
  · exact linkInv_modify σ s i _ (fun e he => ⟨rfl, fun x hx => hG.2 i e he x hx⟩) hG.2

/-- what a successful step leaves: the invariant, every other field untouched, the field itself resolved
(`IDRef = None`) with the same name and mode -/
def StepOK (σ : Oid → Oid) (st0 st : List (Elem ι)) (t : Nat × Nat) (f : Field ι) (st' : List (Elem ι)) : Prop :=
  Inv σ st0 st' ∧ (∀ t', t' ≠ t → fieldAt st' t' = fieldAt st t') ∧
    ∃ f', fieldAt st' t = some f' ∧ f'.pending = none ∧ f'.name = f.name ∧ f'.mode = f.mode

theorem finish_setField (σ : Oid → Oid) (st0 st st2 : List (Elem ι)) (t : Nat × Nat) (f f' : Field ι)
    (hI : Inv σ st0 st) (hG : Good σ st0 st2) (hF : SameFields st st2) (hf : fieldAt st t = some f)
    (hp : f'.pending = none) (hn : f'.name = f.name) (hm : f'.mode = f.mode) :
    StepOK σ st0 st t f (setField st2 t.1 t.2 f') ∧ fieldAt (setField st2 t.1 t.2 f') t = some f' := by
  have hat : fieldAt (setField st2 t.1 t.2 f') t = some f' := by
    rw [fieldAt_setField, if_pos rfl, hF t, hf]; rfl
  have hother : ∀ t', t' ≠ t → fieldAt (setField st2 t.1 t.2 f') t' = fieldAt st t' := by
    intro t' hne
    rw [fieldAt_setField, if_neg hne, hF t']
  refine ⟨⟨⟨good_setField σ st0 st2 hG _ _ _, ?_⟩, hother, f', hat, hp, hn, hm⟩, hat⟩
  intro t' g hg
  by_cases hne : t' = t
  · subst hne
    rw [hat] at hg; injection hg with hg; subst hg
    exact Or.inl hp
  · rw [hother t' hne] at hg
    exact hI.field t' g hg

/-- the context of a step whose field has a pending reference list -/
structure Ctx (σ : Oid → Oid) (st0 st : List (Elem ι)) (t : Nat × Nat) (e : Elem ι) (f : Field ι)
    (refs : List (Option ι)) : Prop where
  he : st[t.1]? = some e
  hf : e.fields[t.2]? = some f
  hp : f.pending = some refs
  e0 : ∃ e0, st0[t.1]? = some e0 ∧ core e = core e0 ∧ ∀ r ∈ refs, f.mode ≠ .avs → RefOK up σ st0 e0 f.mode r

theorem ctx_of (σ : Oid → Oid) (st0 st : List (Elem ι)) (hS : Static up σ st0) (hI : Inv σ st0 st) (t : Nat × Nat)
    (e : Elem ι) (f : Field ι) (refs : List (Option ι)) (he : st[t.1]? = some e) (hf : e.fields[t.2]? = some f)
    (hp : f.pending = some refs) : Ctx up σ st0 st t e f refs := by
  refine ⟨he, hf, hp, ?_⟩
  have hat : fieldAt st t = some f := by simp [fieldAt, he, hf]
  rcases hI.field t f hat with h | h
  · rw [hp] at h; cases h
  · obtain ⟨e0, he0, hc⟩ := good_getElem? σ st0 st hI.good t.1 e he
    refine ⟨e0, he0, hc, ?_⟩
    intro r hr hm
    have hf0 : e0.fields[t.2]? = some f := by simpa [fieldAt, he0] using h
    exact hS.refs t.1 e0 he0 f (List.mem_of_getElem? hf0) hm refs hp r hr

theorem refs_resolvable (σ : Oid → Oid) (st0 st : List (Elem ι)) (hG : Good σ st0 st) (refs : List (Option ι))
    (hnd : ¬ ∃ r ∈ refs, Dangling up st0 r) : ∀ r ∈ refs, ∀ k, r = some k → ∃ i, lookupIdx up st k = some i := by
  intro r hr k hk
  rw [lookupIdx_core up st st0 hG.1]
  cases h : lookupIdx up st0 k with
  | some i => exact ⟨i, rfl⟩
  | none => exact absurd ⟨r, hr, k, hk, h⟩ hnd

theorem step_plain (σ : Oid → Oid) (st0 st : List (Elem ι)) (hI : Inv σ st0 st) (t : Nat × Nat) (e : Elem ι)
    (f : Field ι) (refs : List (Option ι)) (C : Ctx up σ st0 st t e f refs)
    (hm : f.mode = .plain ∨ f.mode = .silentOK) :
    ((¬ ∃ r ∈ refs, Dangling up st0 r) → ∃ st', step up st t = .ok st' ∧ StepOK σ st0 st t f st' ∧
      ∃ f', fieldAt st' t = some f' ∧
        f'.resolved = refs.map (fun r => r.bind fun k => (lookup up st0 k).map (·.oid))) ∧
    ((∃ r ∈ refs, Dangling up st0 r) → step up st t = .error .keyError) := by
  obtain ⟨he, hf, hp, e0, he0, hc, hok⟩ := C
  have hat : fieldAt st t = some f := by simp [fieldAt, he, hf]
  have hnone : ∀ r ∈ refs, r = none → f.mode = .silentOK := by
    intro r hr hn
    have := hok r hr (by rcases hm with h | h <;> simp [h])
    subst hn
    exact this
  constructor
  · intro hnd
    have hres := refs_resolvable up σ st0 st hI.good refs hnd
    have hval : (refs.map fun r => r.bind (lookupIdx up st)).map (oidAt st)
        = refs.map (fun r => r.bind fun k => (lookup up st0 k).map (·.oid)) := by
      rw [List.map_map]
      apply List.map_congr_left
      intro r _
      cases r with
      | none => rfl
      | some k =>
        simp only [Function.comp, Option.bind_some]
        rw [← oidAt_lookupIdx, lookupIdx_core up st st0 hI.good.1, oidAt_core st st0 hI.good.1]
    rcases hm with hmode | hmode
    · have hmap := mapM_lookupRef_ok up st false refs (fun r hr =>
        ⟨fun hn => (by have := hnone r hr hn; rw [hmode] at this; cases this), hres r hr⟩)
      obtain ⟨hstep, hat'⟩ := finish_setField σ st0 st st t f
        { f with pending := none, resolved := (refs.map fun r => r.bind (lookupIdx up st)).map (oidAt st) }
        hI hI.good (fun _ => rfl) hat rfl rfl rfl
      refine ⟨_, ?_, hstep, _, hat', hval⟩
      unfold step
      simp only [he, hf, hp, hmode, hmap, bind, Except.bind, pure, Except.pure]
    · have hmap := mapM_lookupRef_ok up st true refs (fun r hr => ⟨fun _ => rfl, hres r hr⟩)
      obtain ⟨hstep, hat'⟩ := finish_setField σ st0 st st t f
        { f with pending := none, resolved := (refs.map fun r => r.bind (lookupIdx up st)).map (oidAt st) }
        hI hI.good (fun _ => rfl) hat rfl rfl rfl
      refine ⟨_, ?_, hstep, _, hat', hval⟩
      unfold step
      simp only [he, hf, hp, hmode, hmap, bind, Except.bind, pure, Except.pure]
  · rintro ⟨r, hr, k, hk, hl⟩
    have hl' : lookupIdx up st k = none := by rw [lookupIdx_core up st st0 hI.good.1]; exact hl
    rcases hm with hmode | hmode
    · have := mapM_lookupRef_err up st false refs
        (fun r hr hn => by have := hnone r hr hn; rw [hmode] at this; cases this) ⟨r, hr, k, hk, hl'⟩
      unfold step
      simp only [he, hf, hp, hmode, this, bind, Except.bind]
    · have := mapM_lookupRef_err up st true refs (fun _ _ _ => rfl) ⟨r, hr, k, hk, hl'⟩
      unfold step
      simp only [he, hf, hp, hmode, this, bind, Except.bind]

theorem sameFields_refl (st : List (Elem ι)) : SameFields st st := fun _ => rfl
theorem sameFields_trans (a b c : List (Elem ι)) (h1 : SameFields a b) (h2 : SameFields b c) : SameFields a c :=
  fun t => (h2 t).trans (h1 t)

theorem mem_map_bind_lookup (st : List (Elem ι)) (refs : List (Option ι)) (r' : Option Nat) (d : Nat)
    (hr' : r' ∈ refs.map fun r => r.bind (lookupIdx up st)) (hd : r' = some d) :
    ∃ k, some k ∈ refs ∧ lookupIdx up st k = some d := by
  obtain ⟨r, hr, hrr⟩ := List.mem_map.mp hr'
  subst hd
  cases r with
  | none => simp at hrr
  | some k => exact ⟨k, hr, by simpa using hrr⟩

theorem step_decode (σ : Oid → Oid) (st0 st : List (Elem ι)) (hI : Inv σ st0 st) (t : Nat × Nat) (e : Elem ι)
    (f : Field ι) (refs : List (Option ι)) (C : Ctx up σ st0 st t e f refs) (hm : f.mode = .decode) :
    ((¬ ∃ r ∈ refs, Dangling up st0 r) → ∃ st', step up st t = .ok st' ∧ StepOK σ st0 st t f st') ∧
    ((∃ r ∈ refs, Dangling up st0 r) → step up st t = .error .keyError) := by
  obtain ⟨he, hf, hp, e0, he0, hc, hok⟩ := C
  have hat : fieldAt st t = some f := by simp [fieldAt, he, hf]
  have hnone : ∀ r ∈ refs, r = none → False := by
    intro r hr hn
    have := hok r hr (by simp [hm])
    subst hn
    simp [RefOK, hm] at this
  constructor
  · intro hnd
    have hres := refs_resolvable up σ st0 st hI.good refs hnd
    have hmap := mapM_lookupRef_ok up st false refs (fun r hr => ⟨fun hn => (hnone r hr hn).elim, hres r hr⟩)
    obtain ⟨st2, h2, hG2, hF2⟩ := foldlM_inv (decodeOne e.oid) (Good σ st0) SameFields sameFields_refl
      sameFields_trans (refs.map fun r => r.bind (lookupIdx up st)) (by
        intro s r' hr' hP
        cases r' with
        | none => exact ⟨s, rfl, hP, sameFields_refl s⟩
        | some d =>
          obtain ⟨k, hk, hl⟩ := mem_map_bind_lookup up st refs (some d) d hr' rfl
          rw [lookupIdx_core up st st0 hI.good.1] at hl
          exact addEncode_good σ st0 s d e.oid hP (by
            intro x hx
            obtain ⟨x0, hx0, hcx⟩ := good_getElem? σ st0 s hP d x hx
            have := (hok (some k) hk (by simp [hm]) d x0 hl hx0).1 hm
            simp only [core, Prod.mk.injEq] at hcx
            rw [hcx.2.1]; exact this)) st hI.good
    obtain ⟨hstep, _⟩ := finish_setField σ st0 st st2 t f { f with pending := none } hI hG2 hF2 hat rfl rfl rfl
    refine ⟨_, ?_, hstep⟩
    unfold step
    simp only [he, hf, hp, hm, hmap, h2, bind, Except.bind, pure, Except.pure]
  · rintro ⟨r, hr, k, hk, hl⟩
    have hl' : lookupIdx up st k = none := by rw [lookupIdx_core up st st0 hI.good.1]; exact hl
    have := mapM_lookupRef_err up st false refs (fun r hr hn => (hnone r hr hn).elim) ⟨r, hr, k, hk, hl'⟩
    unfold step
    simp only [he, hf, hp, hm, this, bind, Except.bind]

theorem step_encode (σ : Oid → Oid) (st0 st : List (Elem ι)) (hI : Inv σ st0 st) (t : Nat × Nat) (e : Elem ι)
    (f : Field ι) (refs : List (Option ι)) (C : Ctx up σ st0 st t e f refs) (hm : f.mode = .encode) :
    ((¬ ∃ r ∈ refs, Dangling up st0 r) → ∃ st', step up st t = .ok st' ∧ StepOK σ st0 st t f st') ∧
    ((∃ r ∈ refs, Dangling up st0 r) → step up st t = .error .keyError) := by
  obtain ⟨he, hf, hp, e0, he0, hc, hok⟩ := C
  have hat : fieldAt st t = some f := by simp [fieldAt, he, hf]
  have hnone : ∀ r ∈ refs, r = none → False := by
    intro r hr hn
    have := hok r hr (by simp [hm])
    subst hn
    simp [RefOK, hm] at this
  constructor
  · intro hnd
    have hres := refs_resolvable up σ st0 st hI.good refs hnd
    have hmap := mapM_lookupRef_ok up st false refs (fun r hr => ⟨fun hn => (hnone r hr hn).elim, hres r hr⟩)
    obtain ⟨st2, h2, hG2, hF2⟩ := foldlM_inv (encodeOne t.1) (Good σ st0) SameFields sameFields_refl
      sameFields_trans (refs.map fun r => r.bind (lookupIdx up st)) (by
        intro s r' hr' hP
        unfold encodeOne
        cases ho : oidAt s r' with
        | none => exact ⟨s, rfl, hP, sameFields_refl s⟩
        | some o =>
          cases r' with
          | none => simp [oidAt] at ho
          | some d =>
            obtain ⟨k, hk, hl⟩ := mem_map_bind_lookup up st refs (some d) d hr' rfl
            rw [lookupIdx_core up st st0 hI.good.1] at hl
            have hsd : ∃ y, s[d]? = some y := by
              cases h : s[d]? with
              | none => simp [oidAt, h] at ho
              | some y => exact ⟨y, rfl⟩
            obtain ⟨y, hy⟩ := hsd
            obtain ⟨y0, hy0, _⟩ := good_getElem? σ st0 s hP d y hy
            exact addEncode_good σ st0 s t.1 o hP (by
              intro x hx
              obtain ⟨x0, hx0, hcx⟩ := good_getElem? σ st0 s hP t.1 x hx
              rw [he0] at hx0; injection hx0 with hx0; subst hx0
              have := (hok (some k) hk (by simp [hm]) d y0 hl hy0).2.1 hm
              simp only [core, Prod.mk.injEq] at hcx
              rw [hcx.2.1]; exact this)) st hI.good
    obtain ⟨hstep, _⟩ := finish_setField σ st0 st st2 t f { f with pending := none } hI hG2 hF2 hat rfl rfl rfl
    refine ⟨_, ?_, hstep⟩
    unfold step
    simp only [he, hf, hp, hm, hmap, h2, bind, Except.bind, pure, Except.pure]
  · rintro ⟨r, hr, k, hk, hl⟩
    have hl' : lookupIdx up st k = none := by rw [lookupIdx_core up st st0 hI.good.1]; exact hl
    have := mapM_lookupRef_err up st false refs (fun r hr hn => (hnone r hr hn).elim) ⟨r, hr, k, hk, hl'⟩
    unfold step
    simp only [he, hf, hp, hm, this, bind, Except.bind]

theorem linkTracksOne_cases (σ : Oid → Oid) (st0 : List (Elem ι)) (e e0 : Elem ι) (hc : core e = core e0)
    (r : Option ι) (hok : RefOK up σ st0 e0 .linkTracks r) (s : List (Elem ι)) (hP : Good σ st0 s) :
    ((¬ Dangling up st0 r) → ∃ s', linkTracksOne up e.oid s r = .ok s' ∧ Good σ st0 s' ∧ SameFields s s') ∧
    (Dangling up st0 r → linkTracksOne up e.oid s r = .error .keyError) := by
  cases r with
  | none => simp [RefOK] at hok
  | some k =>
    constructor
    · intro hnd
      cases hl : lookupIdx up st0 k with
      | none => exact absurd ⟨k, rfl, hl⟩ hnd
      | some i =>
        have hl' : lookupIdx up s k = some i := by rw [lookupIdx_core up s st0 hP.1]; exact hl
        obtain ⟨s', h1, h2, h3⟩ := linkTrackStream_good σ st0 s i e.oid hP (by
          intro x hx
          obtain ⟨x0, hx0, hcx⟩ := good_getElem? σ st0 s hP i x hx
          have := (hok i x0 hl hx0).2.2.1 rfl
          simp only [core, Prod.mk.injEq] at hcx hc
          rw [hcx.1, hcx.2.1, hc.1]; exact this)
        refine ⟨s', ?_, h2, h3⟩
        simp only [linkTracksOne, lookupRef, hl', bind, Except.bind, h1]
    · rintro ⟨k', hk', hl⟩
      injection hk' with hk'; subst hk'
      have hl' : lookupIdx up s k = none := by rw [lookupIdx_core up s st0 hP.1]; exact hl
      simp only [linkTracksOne, lookupRef, hl', bind, Except.bind]

theorem linkStreamOne_cases (σ : Oid → Oid) (st0 : List (Elem ι)) (ti : Nat) (e0 : Elem ι) (he0 : st0[ti]? = some e0)
    (r : Option ι) (hok : RefOK up σ st0 e0 .linkStream r) (s : List (Elem ι)) (hP : Good σ st0 s) :
    ((¬ Dangling up st0 r) → ∃ s', linkStreamOne up ti s r = .ok s' ∧ Good σ st0 s' ∧ SameFields s s') ∧
    (Dangling up st0 r → linkStreamOne up ti s r = .error .keyError) := by
  cases r with
  | none => simp [RefOK] at hok
  | some k =>
    constructor
    · intro hnd
      cases hl : lookupIdx up st0 k with
      | none => exact absurd ⟨k, rfl, hl⟩ hnd
      | some i =>
        have hl' : lookupIdx up s k = some i := by rw [lookupIdx_core up s st0 hP.1]; exact hl
        cases ho : oidAt s (some i) with
        | none =>
          exact ⟨s, by simp only [linkStreamOne, lookupRef, hl', bind, Except.bind, ho]; rfl, hP, sameFields_refl s⟩
        | some so =>
          have hsi : ∃ y, s[i]? = some y ∧ y.oid = so := by
            cases h : s[i]? with
            | none => simp [oidAt, h] at ho
            | some y => exact ⟨y, rfl, by simpa [oidAt, h] using ho⟩
          obtain ⟨y, hy, hyo⟩ := hsi
          obtain ⟨y0, hy0, hcy⟩ := good_getElem? σ st0 s hP i y hy
          obtain ⟨s', h1, h2, h3⟩ := linkTrackStream_good σ st0 s ti so hP (by
            intro x hx
            obtain ⟨x0, hx0, hcx⟩ := good_getElem? σ st0 s hP ti x hx
            rw [he0] at hx0; injection hx0 with hx0; subst hx0
            have := (hok i y0 hl hy0).2.2.2 rfl
            simp only [core, Prod.mk.injEq] at hcx hcy
            rw [hcx.1, hcx.2.1, ← hyo, hcy.1]; exact this)
          refine ⟨s', ?_, h2, h3⟩
          simp only [linkStreamOne, lookupRef, hl', bind, Except.bind, ho, h1]
    · rintro ⟨k', hk', hl⟩
      injection hk' with hk'; subst hk'
      have hl' : lookupIdx up s k = none := by rw [lookupIdx_core up s st0 hP.1]; exact hl
      simp only [linkStreamOne, lookupRef, hl', bind, Except.bind]

/-- a fold whose steps either keep the invariant or raise `x` exactly at the marked elements -/
theorem foldlM_cases {S α E : Type} (f : S → α → Except E S) (P : S → Prop) (R : S → S → Prop) (B : α → Prop) (x : E)
    (hrefl : ∀ s, R s s) (htrans : ∀ a b c, R a b → R b c → R a c) (l : List α)
    (hstep : ∀ s a, a ∈ l → P s → ((¬ B a) → ∃ s', f s a = .ok s' ∧ P s' ∧ R s s') ∧ (B a → f s a = .error x)) :
    ∀ s, P s → ((¬ ∃ a ∈ l, B a) → ∃ s', l.foldlM f s = .ok s' ∧ P s' ∧ R s s') ∧
      ((∃ a ∈ l, B a) → l.foldlM f s = .error x) := by
  intro s hs
  constructor
  · intro hnb
    exact foldlM_inv f P R hrefl htrans l (fun s a ha hp => (hstep s a ha hp).1 (fun hb => hnb ⟨a, ha, hb⟩)) s hs
  · rintro ⟨a, ha, hb⟩
    refine foldlM_err f P x l (fun s b hb' hp => ?_) ⟨a, ha, fun s hp => (hstep s a ha hp).2 hb⟩ s hs
    by_cases hB : B b
    · exact Or.inr ((hstep s b hb' hp).2 hB)
    · obtain ⟨s', h1, h2, _⟩ := (hstep s b hb' hp).1 hB
      exact Or.inl ⟨s', h1, h2⟩

theorem step_linkTracks (σ : Oid → Oid) (st0 st : List (Elem ι)) (hI : Inv σ st0 st) (t : Nat × Nat) (e : Elem ι)
    (f : Field ι) (refs : List (Option ι)) (C : Ctx up σ st0 st t e f refs) (hm : f.mode = .linkTracks) :
    ((¬ ∃ r ∈ refs, Dangling up st0 r) → ∃ st', step up st t = .ok st' ∧ StepOK σ st0 st t f st') ∧
    ((∃ r ∈ refs, Dangling up st0 r) → step up st t = .error .keyError) := by
  obtain ⟨he, hf, hp, e0, he0, hc, hok⟩ := C
  have hat : fieldAt st t = some f := by simp [fieldAt, he, hf]
  have hfold := foldlM_cases (linkTracksOne up e.oid) (Good σ st0) SameFields (Dangling up st0) Err.keyError
    sameFields_refl sameFields_trans refs (fun s r hr hP =>
      linkTracksOne_cases up σ st0 e e0 hc r (by have := hok r hr (by simp [hm]); rwa [hm] at this) s hP) st hI.good
  constructor
  · intro hnd
    obtain ⟨st2, h2, hG2, hF2⟩ := hfold.1 hnd
    obtain ⟨hstep, _⟩ := finish_setField σ st0 st st2 t f { f with pending := none } hI hG2 hF2 hat rfl rfl rfl
    refine ⟨_, ?_, hstep⟩
    unfold step
    simp only [he, hf, hp, hm, h2, bind, Except.bind, pure, Except.pure]
  · intro hd
    unfold step
    simp only [he, hf, hp, hm, hfold.2 hd, bind, Except.bind]

theorem step_linkStream (σ : Oid → Oid) (st0 st : List (Elem ι)) (hI : Inv σ st0 st) (t : Nat × Nat) (e : Elem ι)
    (f : Field ι) (refs : List (Option ι)) (C : Ctx up σ st0 st t e f refs) (hm : f.mode = .linkStream) :
    ((¬ ∃ r ∈ refs, Dangling up st0 r) → ∃ st', step up st t = .ok st' ∧ StepOK σ st0 st t f st') ∧
    ((∃ r ∈ refs, Dangling up st0 r) → step up st t = .error .keyError) := by
  obtain ⟨he, hf, hp, e0, he0, hc, hok⟩ := C
  have hat : fieldAt st t = some f := by simp [fieldAt, he, hf]
  have hfold := foldlM_cases (linkStreamOne up t.1) (Good σ st0) SameFields (Dangling up st0) Err.keyError
    sameFields_refl sameFields_trans refs (fun s r hr hP =>
      linkStreamOne_cases up σ st0 t.1 e0 he0 r (by have := hok r hr (by simp [hm]); rwa [hm] at this) s hP) st hI.good
  constructor
  · intro hnd
    obtain ⟨st2, h2, hG2, hF2⟩ := hfold.1 hnd
    obtain ⟨hstep, _⟩ := finish_setField σ st0 st st2 t f { f with pending := none } hI hG2 hF2 hat rfl rfl rfl
    refine ⟨_, ?_, hstep⟩
    unfold step
    simp only [he, hf, hp, hm, h2, bind, Except.bind, pure, Except.pure]
  · intro hd
    unfold step
    simp only [he, hf, hp, hm, hfold.2 hd, bind, Except.bind]

/-! ### the whole loop -/

/-- the value `lazy_lookup_references` stores for a plain reference list: for each id the element `lookup_element`
finds in the document as it was before the loop (`None` stays `None`) -/
def resolvedValue (st0 : List (Elem ι)) (refs : List (Option ι)) : List (Option Oid) :=
  refs.map fun r => r.bind fun k => (lookup up st0 k).map (·.oid)

/-- the field at `t` still has its `IDRef` list and one of the ids names nothing -/
def DanglingAt (st0 st : List (Elem ι)) (t : Nat × Nat) : Prop :=
  ∃ f refs, fieldAt st t = some f ∧ f.mode ≠ .avs ∧ f.pending = some refs ∧ ∃ r ∈ refs, Dangling up st0 r

/-- the field at `t` after its step, in terms of the field before -/
def StepDone (st0 st st' : List (Elem ι)) (t : Nat × Nat) : Prop :=
  ∀ f, fieldAt st t = some f →
    ((f.pending = none ∨ f.mode = .avs) → fieldAt st' t = some f) ∧
    (∀ refs, f.pending = some refs → f.mode ≠ .avs → ∃ f', fieldAt st' t = some f' ∧ f'.pending = none ∧
      f'.name = f.name ∧ f'.mode = f.mode ∧
      ((f.mode = .plain ∨ f.mode = .silentOK) → f'.resolved = resolvedValue up st0 refs))

theorem step_cases (σ : Oid → Oid) (st0 st : List (Elem ι)) (hS : Static up σ st0) (hI : Inv σ st0 st) (t : Nat × Nat) :
    ((¬ DanglingAt up st0 st t) → ∃ st', step up st t = .ok st' ∧ Inv σ st0 st' ∧
      (∀ t', t' ≠ t → fieldAt st' t' = fieldAt st t') ∧ StepDone up st0 st st' t) ∧
    (DanglingAt up st0 st t → step up st t = .error .keyError) := by
  have trivialOK : step up st t = .ok st → (∀ f, fieldAt st t = some f → f.pending = none ∨ f.mode = .avs) →
      ∃ st', step up st t = .ok st' ∧ Inv σ st0 st' ∧
        (∀ t', t' ≠ t → fieldAt st' t' = fieldAt st t') ∧ StepDone up st0 st st' t := by
    intro h hf
    refine ⟨st, h, hI, fun _ _ => rfl, ?_⟩
    intro f hff
    refine ⟨fun _ => hff, ?_⟩
    intro refs hp hm
    rcases hf f hff with h' | h'
    · rw [hp] at h'; cases h'
    · exact absurd h' hm
  cases he : st[t.1]? with
  | none =>
    have hs : step up st t = .ok st := by unfold step; simp only [he]
    have hn : fieldAt st t = none := by simp [fieldAt, he]
    exact ⟨fun _ => trivialOK hs (fun f hf => by rw [hn] at hf; cases hf),
      fun ⟨f, refs, hf, _⟩ => by rw [hn] at hf; cases hf⟩
  | some e =>
    cases hf : e.fields[t.2]? with
    | none =>
      have hs : step up st t = .ok st := by unfold step; simp only [he, hf]
      have hn : fieldAt st t = none := by simp [fieldAt, he, hf]
      exact ⟨fun _ => trivialOK hs (fun f hf => by rw [hn] at hf; cases hf),
        fun ⟨f, refs, hf, _⟩ => by rw [hn] at hf; cases hf⟩
    | some f =>
      have hat : fieldAt st t = some f := by simp [fieldAt, he, hf]
      cases hp : f.pending with
      | none =>
        have hs : step up st t = .ok st := by unfold step; simp only [he, hf, hp]
        exact ⟨fun _ => trivialOK hs (fun g hg => by rw [hat] at hg; injection hg with hg; subst hg; exact Or.inl hp),
          fun ⟨g, refs, hg, _, hgp, _⟩ => by
            rw [hat] at hg; injection hg with hg; subst hg; rw [hp] at hgp; cases hgp⟩
      | some refs =>
        have C := ctx_of up σ st0 st hS hI t e f refs he hf hp
        have hdang : DanglingAt up st0 st t ↔ (f.mode ≠ .avs ∧ ∃ r ∈ refs, Dangling up st0 r) := by
          constructor
          · rintro ⟨g, refs', hg, hgm, hgp, hd⟩
            rw [hat] at hg; injection hg with hg; subst hg
            rw [hp] at hgp; injection hgp with hgp; subst hgp
            exact ⟨hgm, hd⟩
          · rintro ⟨hm, hd⟩
            exact ⟨f, refs, hat, hm, hp, hd⟩
        -- the generic wrap-up of the mode lemmas
        have wrap : f.mode ≠ .avs →
            (((¬ ∃ r ∈ refs, Dangling up st0 r) → ∃ st', step up st t = .ok st' ∧ StepOK σ st0 st t f st' ∧
              ((f.mode = .plain ∨ f.mode = .silentOK) → ∃ f', fieldAt st' t = some f' ∧
                f'.resolved = resolvedValue up st0 refs)) ∧
             ((∃ r ∈ refs, Dangling up st0 r) → step up st t = .error .keyError)) →
            ((¬ DanglingAt up st0 st t) → ∃ st', step up st t = .ok st' ∧ Inv σ st0 st' ∧
              (∀ t', t' ≠ t → fieldAt st' t' = fieldAt st t') ∧ StepDone up st0 st st' t) ∧
            (DanglingAt up st0 st t → step up st t = .error .keyError) := by
          intro hm ⟨h1, h2⟩
          constructor
          · intro hnd
            obtain ⟨st', hs, ⟨hI', hfr, f', hf', hp', hn', hm'⟩, hres⟩ :=
              h1 (fun hd => hnd (hdang.mpr ⟨hm, hd⟩))
            refine ⟨st', hs, hI', hfr, ?_⟩
            intro g hg
            rw [hat] at hg; injection hg with hg; subst hg
            refine ⟨fun h => ?_, ?_⟩
            · rcases h with h | h
              · rw [hp] at h; cases h
              · exact absurd h hm
            · intro refs' hp'' _
              rw [hp] at hp''; injection hp'' with hp''; subst hp''
              refine ⟨f', hf', hp', hn', hm', ?_⟩
              intro hpl
              obtain ⟨f'', hf'', hr''⟩ := hres hpl
              rw [hf'] at hf''; injection hf'' with hf''; subst hf''
              exact hr''
          · intro hd
            exact h2 (hdang.mp hd).2
        cases hm : f.mode with
        | avs =>
          have hs : step up st t = .ok st := by unfold step; simp only [he, hf, hp, hm]
          exact ⟨fun _ => trivialOK hs (fun g hg => by
              rw [hat] at hg; injection hg with hg; subst hg; exact Or.inr hm),
            fun hd => absurd hm (hdang.mp hd).1⟩
        | plain =>
          have := step_plain up σ st0 st hI t e f refs C (Or.inl hm)
          refine wrap (by simp [hm]) ⟨fun hnd => ?_, fun hd => ?_⟩
          · obtain ⟨st', h1, h2, f', h3, h4⟩ := this.1 hnd
            exact ⟨st', h1, h2, fun _ => ⟨f', h3, h4⟩⟩
          · exact this.2 hd
        | silentOK =>
          have := step_plain up σ st0 st hI t e f refs C (Or.inr hm)
          refine wrap (by simp [hm]) ⟨fun hnd => ?_, fun hd => ?_⟩
          · obtain ⟨st', h1, h2, f', h3, h4⟩ := this.1 hnd
            exact ⟨st', h1, h2, fun _ => ⟨f', h3, h4⟩⟩
          · exact this.2 hd
        | decode =>
          have := step_decode up σ st0 st hI t e f refs C hm
          refine wrap (by simp [hm]) ⟨fun hnd => ?_, this.2⟩
          obtain ⟨st', h1, h2⟩ := this.1 hnd
          exact ⟨st', h1, h2, fun h => by rcases h with h | h <;> rw [hm] at h <;> cases h⟩
        | encode =>
          have := step_encode up σ st0 st hI t e f refs C hm
          refine wrap (by simp [hm]) ⟨fun hnd => ?_, this.2⟩
          obtain ⟨st', h1, h2⟩ := this.1 hnd
          exact ⟨st', h1, h2, fun h => by rcases h with h | h <;> rw [hm] at h <;> cases h⟩
        | linkTracks =>
          have := step_linkTracks up σ st0 st hI t e f refs C hm
          refine wrap (by simp [hm]) ⟨fun hnd => ?_, this.2⟩
          obtain ⟨st', h1, h2⟩ := this.1 hnd
          exact ⟨st', h1, h2, fun h => by rcases h with h | h <;> rw [hm] at h <;> cases h⟩
        | linkStream =>
          have := step_linkStream up σ st0 st hI t e f refs C hm
          refine wrap (by simp [hm]) ⟨fun hnd => ?_, this.2⟩
          obtain ⟨st', h1, h2⟩ := this.1 hnd
          exact ⟨st', h1, h2, fun h => by rcases h with h | h <;> rw [hm] at h <;> cases h⟩

theorem danglingAt_congr (st0 st st' : List (Elem ι)) (t : Nat × Nat) (h : fieldAt st' t = fieldAt st t) :
    DanglingAt up st0 st' t ↔ DanglingAt up st0 st t := by
  unfold DanglingAt; rw [h]

theorem stepDone_congr (st0 st st1 st' st'' : List (Elem ι)) (t : Nat × Nat) (h1 : fieldAt st1 t = fieldAt st t)
    (h2 : fieldAt st'' t = fieldAt st' t) (h : StepDone up st0 st1 st' t) : StepDone up st0 st st'' t := by
  unfold StepDone at *
  rw [← h1, h2]; exact h

/-- the statements of the loop, each field at most once: no `KeyError` iff no live field has a dangling id -/
theorem run_tasks (σ : Oid → Oid) (st0 : List (Elem ι)) (hS : Static up σ st0) :
    ∀ (ts : List (Nat × Nat)), ts.Nodup → ∀ st, Inv σ st0 st →
      ((¬ ∃ t ∈ ts, DanglingAt up st0 st t) → ∃ st', ts.foldlM (step up) st = .ok st' ∧ Inv σ st0 st' ∧
        (∀ t, t ∉ ts → fieldAt st' t = fieldAt st t) ∧ (∀ t ∈ ts, StepDone up st0 st st' t)) ∧
      ((∃ t ∈ ts, DanglingAt up st0 st t) → ts.foldlM (step up) st = .error .keyError) := by
  intro ts
  induction ts with
  | nil =>
    intro _ st hI
    refine ⟨fun _ => ⟨st, rfl, hI, fun _ _ => rfl, fun t ht => by simp at ht⟩, ?_⟩
    rintro ⟨t, ht, _⟩; simp at ht
  | cons t ts ih =>
    intro hnd st hI
    rw [List.nodup_cons] at hnd
    obtain ⟨hc1, hc2⟩ := step_cases up σ st0 st hS hI t
    by_cases hdt : DanglingAt up st0 st t
    · have herr : (t :: ts).foldlM (step up) st = .error .keyError := by
        simp [List.foldlM_cons, hc2 hdt, bind, Except.bind]
      exact ⟨fun h => absurd ⟨t, by simp, hdt⟩ h, fun _ => herr⟩
    · obtain ⟨st1, hs1, hI1, hfr1, hdone1⟩ := hc1 hdt
      obtain ⟨ih1, ih2⟩ := ih hnd.2 st1 hI1
      have hne : ∀ t' ∈ ts, t' ≠ t := fun t' ht' h => hnd.1 (h ▸ ht')
      have hfold : (t :: ts).foldlM (step up) st = ts.foldlM (step up) st1 := by
        simp [List.foldlM_cons, hs1, bind, Except.bind]
      constructor
      · intro hno
        obtain ⟨st', hs', hI', hfr', hdone'⟩ := ih1 (by
          rintro ⟨t', ht', hd'⟩
          exact hno ⟨t', by simp [ht'], (danglingAt_congr up st0 st st1 t' (hfr1 t' (hne t' ht'))).mp hd'⟩)
        refine ⟨st', by rw [hfold]; exact hs', hI', ?_, ?_⟩
        · intro t' ht'
          simp only [List.mem_cons, not_or] at ht'
          rw [hfr' t' ht'.2, hfr1 t' ht'.1]
        · intro t' ht'
          rcases List.mem_cons.mp ht' with rfl | ht''
          · exact stepDone_congr up st0 st st st1 st' t' rfl (hfr' t' hnd.1) hdone1
          · exact stepDone_congr up st0 st st1 st' st' t' (hfr1 t' (hne t' ht'')) rfl (hdone' t' ht'')
      · rintro ⟨t', ht', hd'⟩
        rw [hfold]
        rcases List.mem_cons.mp ht' with rfl | ht''
        · exact absurd hd' hdt
        · exact ih2 ⟨t', ht'', (danglingAt_congr up st0 st st1 t' (hfr1 t' (hne t' ht''))).mpr hd'⟩

theorem nodup_tasks (st : List (Elem ι)) : (tasks st).Nodup := by
  unfold tasks
  rw [List.nodup_flatMap]
  refine ⟨?_, ?_⟩
  · intro i _
    exact (List.nodup_range).map (fun a b h => by simpa using h)
  · have hr : (List.range st.length).Pairwise (· ≠ ·) := List.nodup_range
    refine hr.imp ?_
    intro a b hab
    simp only [Function.onFun]
    intro x hx hy
    obtain ⟨j, _, rfl⟩ := List.mem_map.mp hx
    obtain ⟨j', _, hj'⟩ := List.mem_map.mp hy
    simp only [Prod.mk.injEq] at hj'
    exact hab hj'.1.symm

theorem mem_tasks_of_fieldAt (st : List (Elem ι)) (t : Nat × Nat) (f : Field ι) (h : fieldAt st t = some f) :
    t ∈ tasks st := by
  obtain ⟨i, j⟩ := t
  unfold fieldAt at h
  cases he : st[i]? with
  | none => simp [he] at h
  | some e =>
    simp only [he, Option.bind_some] at h
    have hi : i < st.length := by
      by_contra hh
      rw [List.getElem?_eq_none (Nat.le_of_not_lt hh)] at he; cases he
    have hj : j < e.fields.length := by
      by_contra hh
      rw [List.getElem?_eq_none (Nat.le_of_not_lt hh)] at h; cases h
    unfold tasks
    rw [List.mem_flatMap]
    refine ⟨i, List.mem_range.mpr hi, ?_⟩
    rw [List.mem_map]
    exact ⟨j, List.mem_range.mpr (by simp [he, hj]), rfl⟩

/-! ### the alternativeValueSet pass -/

theorem avsTable_core : ∀ (st st' : List (Elem ι)), st.map core = st'.map core →
    (st.filter (·.cls = .object)).flatMap (·.avs) = (st'.filter (·.cls = .object)).flatMap (·.avs) := by
  intro st
  induction st with
  | nil => intro st' h; cases st' <;> simp at h ⊢
  | cons e es ih =>
    intro st' h
    cases st' with
    | nil => simp at h
    | cons e' es' =>
      simp only [List.map_cons, List.cons.injEq] at h
      obtain ⟨hc, ht⟩ := h
      simp only [core, Prod.mk.injEq] at hc
      have := ih es' ht
      simp only [List.filter_cons, hc.2.1]
      split <;> simp [this, hc.2.2.2]

theorem mapM_pointwise {α β E : Type} (g : α → Except E β) : ∀ (l : List α),
    (∀ (i : Nat) (x : α), l[i]? = some x → ∃ y, g x = .ok y) →
    ∃ ys : List β, l.mapM g = .ok ys ∧ ys.length = l.length ∧
      ∀ (i : Nat) (x : α), l[i]? = some x → ∃ y, ys[i]? = some y ∧ g x = .ok y := by
  intro l
  induction l with
  | nil => intro _; exact ⟨[], rfl, rfl, fun i x h => by simp at h⟩
  | cons a l ih =>
    intro h
    obtain ⟨b, hb⟩ := h 0 a (by simp)
    obtain ⟨ys, hys, hlen, hpt⟩ := ih (fun i x hx => h (i + 1) x (by simpa using hx))
    refine ⟨b :: ys, by simp [List.mapM_cons, hb, hys, bind, Except.bind, pure, Except.pure], by simp [hlen], ?_⟩
    intro i x hx
    cases i with
    | zero => simp only [List.getElem?_cons_zero, Option.some.injEq] at hx; subst hx; exact ⟨b, by simp, hb⟩
    | succ i => simp only [List.getElem?_cons_succ] at hx ⊢; exact hpt i x hx

/-- the alternativeValueSets of the audioObjects have pairwise distinct ids, and every `alternativeValueSetIDRef` of an
audioProgramme / audioContent names one of them -/
structure AvsOK (st0 : List (Elem ι)) : Prop where
  table : ∃ tbl, avsTable up st0 = .ok tbl
  refs : ∀ tbl, avsTable up st0 = .ok tbl → ∀ (i : Nat) (e : Elem ι), st0[i]? = some e →
    ∀ f ∈ e.fields, f.mode = .avs → ∀ refs, f.pending = some refs → ∀ r ∈ refs, ∃ o, getAvs up tbl r = .ok o

theorem avsPass_spec (σ : Oid → Oid) (st0 st1 : List (Elem ι)) (hI : Inv σ st0 st1) (hA : AvsOK up st0) :
    ∃ st2, avsPass up st1 = .ok st2 ∧ st2.length = st1.length ∧
      (∀ t f, fieldAt st1 t = some f → f.mode ≠ .avs → fieldAt st2 t = some f) := by
  obtain ⟨tbl, htbl⟩ := hA.table
  have htbl1 : avsTable up st1 = .ok tbl := by
    unfold avsTable at htbl ⊢
    rw [avsTable_core st1 st0 hI.good.1]; exact htbl
  -- one field
  let h : Field ι → Except Err (Field ι) := fun f =>
    if f.mode ≠ .avs then pure f else
    match f.pending with
    | none => pure f
    | some refs => do
      let rs ← refs.mapM (getAvs up tbl)
      pure { f with pending := none, resolved := rs }
  have hfield : ∀ (i : Nat) (e : Elem ι), st1[i]? = some e → ∀ (j : Nat) (f : Field ι), e.fields[j]? = some f →
      ∃ f', h f = .ok f' ∧ (f.mode ≠ .avs → f' = f) := by
    intro i e he j f hf
    by_cases hm : f.mode ≠ .avs
    · exact ⟨f, by simp [h, hm, pure, Except.pure], fun _ => rfl⟩
    · have hm' : f.mode = .avs := by simpa using hm
      cases hp : f.pending with
      | none => exact ⟨f, by simp [h, hm', hp, pure, Except.pure], fun hh => absurd hm' hh⟩
      | some refs =>
        have hat : fieldAt st1 (i, j) = some f := by simp [fieldAt, he, hf]
        rcases hI.field (i, j) f hat with hh | hh
        · rw [hp] at hh; cases hh
        · obtain ⟨e0, he0, _⟩ := good_getElem? σ st0 st1 hI.good i e he
          have hf0 : e0.fields[j]? = some f := by simpa [fieldAt, he0] using hh
          have hall := hA.refs tbl htbl i e0 he0 f (List.mem_of_getElem? hf0) hm' refs hp
          obtain ⟨rs, hrs, _, _⟩ := mapM_pointwise (getAvs up tbl) refs (fun k r hr => hall r (List.mem_of_getElem? hr))
          exact ⟨{ f with pending := none, resolved := rs }, by
            simp [h, hm', hp, hrs, bind, Except.bind, pure, Except.pure], fun hh => absurd hm' hh⟩
  have helem : ∀ (i : Nat) (e : Elem ι), st1[i]? = some e →
      ∃ e', avsElem up tbl e = .ok e' ∧
        ∀ (j : Nat) (f : Field ι), e.fields[j]? = some f → f.mode ≠ .avs → e'.fields[j]? = some f := by
    intro i e he
    unfold avsElem
    by_cases hc : e.cls ≠ .programme ∧ e.cls ≠ .content
    · exact ⟨e, by simp [hc, pure, Except.pure], fun j f hf _ => hf⟩
    · obtain ⟨fs, hfs, hlen, hpt⟩ := mapM_pointwise h e.fields (fun j f hf => by
        obtain ⟨f', hf', _⟩ := hfield i e he j f hf; exact ⟨f', hf'⟩)
      refine ⟨{ e with fields := fs }, ?_, ?_⟩
      · simp only [hc, if_false]
        show (do let fs ← e.fields.mapM h; pure { e with fields := fs } : Except Err (Elem ι)) = _
        simp [hfs, bind, Except.bind, pure, Except.pure]
      · intro j f hf hm
        obtain ⟨y, hy, hhy⟩ := hpt j f hf
        obtain ⟨f', hf', hsame⟩ := hfield i e he j f hf
        rw [hhy] at hf'; injection hf' with hf'; subst hf'
        rw [hsame hm] at hy
        exact hy
  obtain ⟨st2, hst2, hlen2, hpt2⟩ := mapM_pointwise (avsElem up tbl) st1 (fun i e he => by
    obtain ⟨e', he', _⟩ := helem i e he; exact ⟨e', he'⟩)
  refine ⟨st2, by unfold avsPass; simp [htbl1, hst2, bind, Except.bind], hlen2, ?_⟩
  intro t f hf hm
  obtain ⟨i, j⟩ := t
  unfold fieldAt at hf ⊢
  cases he : st1[i]? with
  | none => simp [he] at hf
  | some e =>
    simp only [he, Option.bind_some] at hf
    obtain ⟨e2, he2, hav⟩ := hpt2 i e he
    obtain ⟨e', he', hfe'⟩ := helem i e he
    rw [hav] at he'; injection he' with he'; subst he'
    simp only [he2, Option.bind_some]
    exact hfe' j f hf hm

/-! ### the chain -/

/-- every id in every (non-alternativeValueSet) `IDRef` attribute of the chain names an element of the chain -/
def Closed (st0 : List (Elem ι)) : Prop := ¬ ∃ t, DanglingAt up st0 st0 t

theorem length_of_good (σ : Oid → Oid) (st0 st : List (Elem ι)) (h : Good σ st0 st) : st.length = st0.length := by
  have := congrArg List.length h.1
  simpa using this

/-- **Totality and value on a closed chain.**  No step raises; afterwards every plain reference field that had an
`IDRef` list holds, for each id, the element `lookup_element` finds for it (`None` for the silent track), and its
`IDRef` attribute is `None`; a field whose `IDRef` was `None` is as before. -/
theorem resolveChain_closed (σ : Oid → Oid) (st0 : List (Elem ι)) (hS : Static up σ st0) (hA : AvsOK up st0)
    (hC : Closed up st0) :
    ∃ st', resolveChain up st0 = .ok st' ∧ st'.length = st0.length ∧
      ∀ t f, fieldAt st0 t = some f → (f.mode = .plain ∨ f.mode = .silentOK) →
        ∃ f', fieldAt st' t = some f' ∧ f'.name = f.name ∧ f'.mode = f.mode ∧
          (∀ refs, f.pending = some refs → f'.pending = none ∧ f'.resolved = resolvedValue up st0 refs) ∧
          (f.pending = none → f' = f) := by
  obtain ⟨h1, _⟩ := run_tasks up σ st0 hS (tasks st0) (nodup_tasks st0) st0 (inv_refl σ st0 hS.link)
  obtain ⟨st1, hs1, hI1, _, hdone⟩ := h1 (fun ⟨t, _, hd⟩ => hC ⟨t, hd⟩)
  obtain ⟨st2, hs2, hlen2, hkeep⟩ := avsPass_spec up σ st0 st1 hI1 hA
  refine ⟨st2, by unfold resolveChain; simp [hs1, hs2, bind, Except.bind],
    by rw [hlen2, length_of_good σ st0 st1 hI1.good], ?_⟩
  intro t f hf hm
  have hnavs : f.mode ≠ .avs := by rcases hm with h | h <;> simp [h]
  obtain ⟨hd1, hd2⟩ := hdone t (mem_tasks_of_fieldAt st0 t f hf) f hf
  cases hp : f.pending with
  | none =>
    have h1 := hd1 (Or.inl hp)
    exact ⟨f, hkeep t f h1 hnavs, rfl, rfl, fun refs h => (by cases h), fun _ => rfl⟩
  | some refs =>
    obtain ⟨f', hf', hp', hn', hm', hres⟩ := hd2 refs hp hnavs
    refine ⟨f', hkeep t f' hf' (by rw [hm']; exact hnavs), hn', hm', ?_, fun h => (by cases h)⟩
    intro refs' h
    injection h with h; subst h
    exact ⟨hp', hres hm⟩

/-- **A dangling reference is a `KeyError`**, whatever else the document contains (the link conditions of `Static`
exclude the two other exceptions the loop can raise) -/
theorem resolveChain_dangling (σ : Oid → Oid) (st0 : List (Elem ι)) (hS : Static up σ st0)
    (hD : ∃ t, DanglingAt up st0 st0 t) : resolveChain up st0 = .error .keyError := by
  obtain ⟨_, h2⟩ := run_tasks up σ st0 hS (tasks st0) (nodup_tasks st0) st0 (inv_refl σ st0 hS.link)
  obtain ⟨t, hd⟩ := hD
  have ht : t ∈ tasks st0 := by
    obtain ⟨f, _, hf, _⟩ := hd
    exact mem_tasks_of_fieldAt st0 t f hf
  unfold resolveChain
  simp [h2 ⟨t, ht, hd⟩, bind, Except.bind]

/-! ### the document -/

theorem rebuild_elements (a : ADM ι) (st : List (Elem ι)) : (rebuild a st).elements = st := by
  unfold rebuild ADM.elements
  simp only [Nat.add_sub_cancel_left]
  rw [← List.take_add, ← List.take_add, ← List.take_add, ← List.take_add, ← List.take_add, ← List.take_add,
    List.take_append_drop]

theorem dedupAll_of_distinct (a : ADM ι) (h : ∀ l ∈ a.lists, DistinctIds up l) : dedupAll up a = .ok a := by
  unfold dedupAll
  simp only [withoutDuplicates_of_distinct up _ (h a.programmes (by simp [ADM.lists])),
    withoutDuplicates_of_distinct up _ (h a.contents (by simp [ADM.lists])),
    withoutDuplicates_of_distinct up _ (h a.objects (by simp [ADM.lists])),
    withoutDuplicates_of_distinct up _ (h a.packFormats (by simp [ADM.lists])),
    withoutDuplicates_of_distinct up _ (h a.channelFormats (by simp [ADM.lists])),
    withoutDuplicates_of_distinct up _ (h a.streamFormats (by simp [ADM.lists])),
    withoutDuplicates_of_distinct up _ (h a.trackFormats (by simp [ADM.lists])),
    withoutDuplicates_of_distinct up _ (h a.trackUIDs (by simp [ADM.lists])), bind, Except.bind, pure, Except.pure]

theorem getElem?_of_fieldAt (st : List (Elem ι)) (t : Nat × Nat) (f : Field ι) (h : fieldAt st t = some f) :
    ∃ e, st[t.1]? = some e ∧ e ∈ st ∧ f ∈ e.fields := by
  unfold fieldAt at h
  cases he : st[t.1]? with
  | none => simp [he] at h
  | some e =>
    simp only [he, Option.bind_some] at h
    exact ⟨e, rfl, List.mem_of_getElem? he, List.mem_of_getElem? h⟩

/-- `Closed` from the element-wise condition: every id in a (non-alternativeValueSet) `IDRef` list is found -/
theorem closed_of_forall (st0 : List (Elem ι))
    (h : ∀ e ∈ st0, ∀ f ∈ e.fields, f.mode ≠ .avs → ∀ refs, f.pending = some refs → ∀ k, some k ∈ refs →
      ∃ i, lookupIdx up st0 k = some i) : Closed up st0 := by
  rintro ⟨t, f, refs, hf, hm, hp, r, hr, k, hk, hl⟩
  obtain ⟨e, _, he, hfe⟩ := getElem?_of_fieldAt st0 t f hf
  subst hk
  obtain ⟨i, hi⟩ := h e he f hfe hm refs hp k hr
  rw [hl] at hi; cases hi

/-- `Static` from element-wise conditions -/
theorem static_of_forall (σ : Oid → Oid) (st0 : List (Elem ι))
    (hl : ∀ e ∈ st0, ∀ s, e.streamLink = some s → s = σ e.oid)
    (hr : ∀ e ∈ st0, ∀ f ∈ e.fields, f.mode ≠ .avs → ∀ refs, f.pending = some refs → ∀ r ∈ refs,
      RefOK up σ st0 e f.mode r) : Static up σ st0 :=
  ⟨fun i e he s hs => hl e (List.mem_of_getElem? he) s hs,
    fun i e he f hf hm refs hp r hr' => hr e (List.mem_of_getElem? he) f hf hm refs hp r hr'⟩

end Earverif.AdmRefs
