"""C11 — HOA decoding is invariant to channel order and normalisation convention.

extract    : norm_N3D / norm_SN3D / norm_FuMa squared (exact rationals recovered from the float64 values), the FuMa
             conversion factors and to_acn / from_acn on 0..35 -> lean/Earverif/Gen/C11_Tables.lean
correspond : (a) hoa.norm_* on every rotation + random permutations of channel lists (and lists with |degree| > order) vs the
                 model's element-wise norms, (a') hoa.sph_harm vs the model's closed-form `sphHarm`,
             (b) HOADecoderDesign.design vs the Lean `design` (Float) fed the REAL G_virt / Y_virt captured from the
                 call and vs the Lean `designPack` fed G_virt and the point directions only,
             (c) HOARenderer routing vs the Lean `route`, rendered frames vs `renderFrame` on ALL ten layouts
search     : the property evaluated on the real code alone (permutation, N3D/SN3D/FuMa plane-wave signals, finiteness,
             LFE rows, linearity in gains, unit mean power; rendered audio through the real HOARenderer on all ten
             layouts: LFE outputs zero, outputs = decoder @ input, channel-order and normalisation invariance)
"""
import copy
import os
import struct
import warnings
from fractions import Fraction

import numpy as np

from .common import GEN, Driver, Spec, write_if_changed

CONVS = ("N3D", "SN3D", "FuMa")
SCALES = ("none", "speakers", "components", "order")
TOL = 1e-9
LAYOUT_GROUPS = (("0+2+0", "0+5+0", "0+7+0"), ("2+5+0", "4+5+0", "4+5+1", "3+7+0"), ("4+9+0", "9+10+3", "4+7+0"))


# --------------------------------------------------------------------------------------
# helpers


def fl(a):
    return " ".join("%.17g" % x for x in np.asarray(a, dtype=float).ravel())


def bits_to_floats(tokens):
    return np.array([struct.unpack("<d", struct.pack("<Q", int(t)))[0] for t in tokens], dtype=float)


def maxdiff(a, b):
    with np.errstate(all="ignore"), warnings.catch_warnings():
        warnings.simplefilter("ignore")
        d = np.abs(np.asarray(a, float) - np.asarray(b, float))
        return float(np.nanmax(d)) if np.any(np.isfinite(d)) else float("nan")


def close(a, b, tol=TOL):
    a, b = np.asarray(a, float), np.asarray(b, float)
    if a.shape != b.shape or not (np.all(np.isfinite(a)) and np.all(np.isfinite(b))):
        return False
    return bool(np.all(np.abs(a - b) <= tol * np.maximum(1.0, np.abs(b))))


# The conventions as the ambisonics literature / BS.2076 define them, written independently of the code under test
# (used by the direct predicate: "the same sound field expressed in N3D, SN3D or FuMa").
STD_FUMA = {(0, 0): 2 ** -0.5, (1, 0): 1.0, (1, 1): 1.0, (2, 0): 1.0, (2, 1): 2 / 3 ** 0.5, (2, 2): 2 / 3 ** 0.5,
            (3, 0): 1.0, (3, 1): (45 / 32) ** 0.5, (3, 2): 3 / 5 ** 0.5, (3, 3): (8 / 5) ** 0.5}


def std_norm(conv, n, m):
    from math import factorial, sqrt

    s = factorial(n - m) / factorial(n + m)
    if conv == "N3D":
        return sqrt((2 * n + 1) * s)
    if conv == "SN3D":
        return sqrt(s)
    return sqrt(s) * STD_FUMA[(n, m)]


def std_norm_fn(conv):
    """norm callable for hoa.sph_harm (array arguments) from the standard definition"""
    tab = np.full((6, 6), np.nan)
    for n in range(max_order(conv) + 1):
        for m in range(n + 1):
            tab[n, m] = std_norm(conv, n, m)
    return lambda n, abs_m: tab[np.asarray(n), np.asarray(abs_m)]


def full_set(N):
    return [(n, m) for n in range(N + 1) for m in range(-n, n + 1)]


def horizontal_set(N):
    out = []
    for n in range(N + 1):
        out += [(n, 0)] if n == 0 else [(n, -n), (n, n)]
    return out


def partial_set(rng, N):
    """random subset of the full order-N set that still contains a channel of order N"""
    chans = full_set(N)
    top = [c for c in chans if c[0] == N]
    keep = {rng.choice(top)}
    for c in chans:
        if rng.random() < 0.5:
            keep.add(c)
    return [c for c in chans if c in keep]


def channel_sets(rng, N):
    sets = [("full", full_set(N))]
    if N >= 1:
        sets.append(("horizontal", horizontal_set(N)))
        sets.append(("partial", partial_set(rng, N)))
    return sets


def max_order(conv):
    return 3 if conv == "FuMa" else 5


def cls(c):
    return "first:n%d|m|%d" % (c[0], abs(c[1]))


def make_meta(chans, conv, gains=None, obj_gain=1.0, mute=False):
    from ear.core.metadata_input import ExtraData, HOATypeMetadata

    return HOATypeMetadata(
        orders=[int(c[0]) for c in chans],
        degrees=[int(c[1]) for c in chans],
        normalization=conv,
        gains=[float(g) for g in gains] if gains is not None else [1.0] * len(chans),
        extra_data=ExtraData(object_gain=float(obj_gain), object_mute=bool(mute)),
    )


def real_norm(conv, chans):
    """the real per-channel norm function on a whole channel list (as design/allrad_design call it)"""
    from ear.core import hoa

    n = np.array([c[0] for c in chans])
    m = np.array([c[1] for c in chans])
    return hoa.norm_functions[conv](n, np.abs(m))


class LayoutCtx:
    """One real HOARenderer per layout; its HOADecoderDesign(layout.without_lfe) is the object under test. G_virt is
    computed once by the real init_slow (about 1 s per layout)."""

    cache = {}

    def __init__(self, name):
        from ear.core import bs2051
        from ear.core.scenebased.renderer import HOARenderer

        self.name = name
        self.layout = bs2051.get_layout(name)
        self.renderer = HOARenderer(self.layout)
        self.dd = self.renderer._decoder_design
        self.dd.init_slow()
        self.L = self.dd.G_virt.shape[0]
        pts = self.dd.points
        self.az = -np.arctan2(pts[:, 0], pts[:, 1])
        self.el = np.arctan2(pts[:, 2], np.hypot(pts[:, 0], pts[:, 1]))

    @classmethod
    def get(cls_, name):
        if name not in cls_.cache:
            cls_.cache[name] = cls_(name)
        return cls_.cache[name]

    light_cache = {}

    @classmethod
    def get_light(cls_, name):
        """A real HOARenderer for the layout whose decoder design uses every 13th point of the t-design (400 virtual
        loudspeakers instead of 5200; the attributes init_slow would set are set here, everything else - design,
        InterpretHOAMetadata, FixedMatrix, render - is the real code). Used to render through ALL ten layouts on every run."""
        if name in cls_.cache:
            return cls_.cache[name]
        if name not in cls_.light_cache:
            from ear.core import bs2051, hoa
            from ear.core.scenebased.renderer import HOARenderer

            self = cls_.__new__(cls_)
            self.name = name
            self.layout = bs2051.get_layout(name)
            self.renderer = HOARenderer(self.layout)
            self.dd = self.renderer._decoder_design
            self.dd._initialised = True
            self.dd.points = hoa.load_points()[::13]
            self.dd.G_virt = hoa.allrad_calc_G_virt(self.dd.points, self.dd.psp.handle)
            self.L = self.dd.G_virt.shape[0]
            pts = self.dd.points
            self.az = -np.arctan2(pts[:, 0], pts[:, 1])
            self.el = np.arctan2(pts[:, 2], np.hypot(pts[:, 0], pts[:, 1]))
            cls_.light_cache[name] = self
        return cls_.light_cache[name]

    def fresh(self):
        """A fresh `HOADecoderDesign(layout.without_lfe)` built with NO option argument: its norm_mean_power / maxRE /
        maxRE_scale are the code's own defaults (design.py `Option(default=...)`), not values typed in this harness."""
        if getattr(self, "_fresh", None) is None:
            from ear.core.scenebased.design import HOADecoderDesign

            self._fresh = HOADecoderDesign(self.layout.without_lfe)
        return self._fresh

    def designer(self, opts=None, subset=None):
        """The real design object with other option values and/or a sub-sampled virtual-loudspeaker set (the real
        `design` method runs unchanged; only the attributes init_slow/`__init__` would have set are replaced).
        `opts=None` = DEFAULT options: the three option attributes are those of a fresh HOADecoderDesign(layout)
        (the code's own defaults); only points/G_virt are shared with the initialised design object."""
        d = copy.copy(self.dd)
        if opts is None:
            f = self.fresh()
            d.norm_mean_power, d.maxRE, d.maxRE_scale = f.norm_mean_power, f.maxRE, f.maxRE_scale
        else:
            d.norm_mean_power, d.maxRE, d.maxRE_scale = opts["nmp"], opts["maxRE"], opts["scale"]
        if subset is not None:
            d.points = self.dd.points[subset]
            d.G_virt = self.dd.G_virt[:, subset]
        return d

    def render(self, meta, samples):
        """HOARenderer.render of a block of input samples (rows = samples, columns = the pack's channels)"""
        from ear.core.metadata_input import DirectTrackSpec, HOARenderingItem, MetadataSourceIter

        C = len(meta.orders)
        self.renderer.set_rendering_items(
            [HOARenderingItem(track_specs=[DirectTrackSpec(i) for i in range(C)], metadata_source=MetadataSourceIter([meta]))]
        )
        try:
            return self.renderer.render(48000, 0, np.asarray(samples, dtype=float))
        finally:
            self.renderer.set_rendering_items([])

    def route(self, meta):
        """gain matrix (all output channels x pack channels) observed through HOARenderer.render on unit impulses"""
        return self.render(meta, np.eye(len(meta.orders))).T


def zero_patterns(rng, chans):
    """gain vectors with EXACT zeros next to non-zero gains: one channel, several channels, and every channel above
    some order (what mute_hoa_channels_by_importance produces)"""
    C = len(chans)
    g = lambda: rng.choice([1.0, rng.uniform(0.2, 2.0), -rng.uniform(0.2, 2.0)])
    pats = []
    if C >= 2:
        z = rng.randrange(C)
        pats.append(("one-zero", [0.0 if i == z else g() for i in range(C)]))
        zs = set(rng.sample(range(C), rng.randint(1, C - 1)))
        pats.append(("some-zero", [0.0 if i in zs else g() for i in range(C)]))
    N = max(c[0] for c in chans)
    lower = sorted({c[0] for c in chans if c[0] < N})
    if lower:
        k = rng.choice(lower)
        pats.append(("orders-above-%d-zero" % k, [0.0 if c[0] > k else g() for c in chans]))
    return pats


# label of the "default options" cases only: the real calls of those cases go through designer(None) (a fresh
# HOADecoderDesign's own defaults) and `_corr_defaults` compares the code's defaults with this label and with ({} : Opts)
DEFAULT_OPTS = dict(nmp=True, maxRE=False, scale="none")


def real_opts(opts):
    """what to hand to LayoutCtx.designer: None (= the code's own defaults) for the default-options cases"""
    return None if opts == DEFAULT_OPTS else opts


def opts_key(o):
    return "opts:nmp=%d,maxRE=%d,scale=%s" % (o["nmp"], o["maxRE"], o["scale"])


def random_opts(rng):
    k = rng.random()
    if k < 0.5:
        return dict(DEFAULT_OPTS)
    if k < 0.6:
        return dict(nmp=False, maxRE=False, scale="none")
    return dict(nmp=rng.random() < 0.5, maxRE=True, scale=rng.choice(SCALES))


def excluded(opts, chans):
    """maxRE_scale="order" multiplies the weights by sqrt(max(n)/...) = 0 for a pack of order 0: the decoder is 0 and
    the mean-power normalisation divides 0 by 0 (excluded point: zero denominator)."""
    return opts["maxRE"] and opts["scale"] == "order" and max(c[0] for c in chans) == 0


def guarded(ctx, what, inp, fn, *args):
    """call real code inside the property's quantifier; an exception is a failing input, not a harness error"""
    try:
        return True, fn(*args)
    except Exception as e:
        ctx.hit("%s raised" % what, inp, repr(e), ["raises"])
        return False, None


def real_design(d, meta):
    with warnings.catch_warnings(), np.errstate(all="ignore"):
        warnings.simplefilter("ignore")
        return d.design(meta)


def _worker(args):
    """thorough tier: one layout per process; returns what the sub-context recorded"""
    from . import common

    pid, tier, seed, name, what, deep = args
    sub = common.Ctx(pid, tier, seed)
    sub.rng = __import__("random").Random("%s/%s/%d/%s/%s" % (pid, tier, seed, name, what))
    ok, lc = guarded(sub, "HOARenderer(layout) / init_slow", {"layout": name}, LayoutCtx.get, name)
    if not ok:
        pass
    elif what == "correspond":
        SPEC._corr_design(sub, Driver("c11driver", "Earverif.Driver.C11"), lc)
    else:
        SPEC._search_layout(sub, lc, deep)
    return dict(hits=sub.hits, broken=sub.broken, dist=sub.cov["distribution"], distinct=list(sub._distinct),
                evaluations=sub.cov["evaluations"], validated=sub.cov["traces_validated_against_impl"],
                samples=sub.cov["samples"], notes=sub.notes)


def run_parallel(ctx, names, what, deep):
    import multiprocessing

    jobs = [(ctx.pid, ctx.tier, ctx.seed, n, what, deep) for n in names]
    with multiprocessing.get_context("fork").Pool(min(10, len(jobs))) as pool:
        results = pool.map(_worker, jobs, chunksize=1)
    for r in results:
        ctx.hits.extend(r["hits"])
        ctx.broken.extend(r["broken"])
        ctx.notes.extend(r["notes"])
        for k, v in r["dist"].items():
            ctx.count(k, v)
        ctx._distinct.update(r["distinct"])
        ctx.cov["evaluations"] += r["evaluations"]
        ctx.cov["traces_validated_against_impl"] += r["validated"]
        for smp in r["samples"]:
            if len(ctx.cov["samples"]) < 6:
                ctx.cov["samples"].append(smp)


# --------------------------------------------------------------------------------------


class C11(Spec):
    pid = "C11"
    lean_targets = ("Earverif.Props.C11", "c11driver")
    props_module = "Earverif.Props.C11"
    theorems = tuple(
        "Earverif.Hoa." + t
        for t in (
            # abstract layer (G, Y, norm vectors arbitrary; NonDegenerate = no division by zero)
            "design_perm",
            "design_norm_invariant",
            "design_same_signals",
            "design_linear_in_gains",
            "design_mute_zero",
            "design_unit_mean_power",
            "design_unit_mean_power_nmp",
            "nonDegenerate_of_indep",
            "froSq_ne_zero_of_indep",
            "meanPow_ne_zero_of_indep",
            "NonDegenerate.perm",
            "NonDegenerate.change_norm",
            # concrete layer (norm_*, sph_harm inside the model)
            "designPack_perm",
            "designPack_same_signals",
            "nonDegenerate_pack",
            "fo_nonDegenerate",  # instance: NonDegenerate on the first-order pack / octahedron / 2x6 G (non-vacuity beyond the toys)
            "degree_gt_order_degenerate",
            "normBy_pos",
            "normDefined_iff",
            "sphHarm_rescale",
            "sphHarm_fuma",
            "alegendre_closed",
            "sphHarm_pair",
            "unsold_sn3d",
            "unsold_n3d",
            "normN3D_eq",
            "sphHarm_first_order",
            # renderer
            "no_lfe_feed",
            "render_lfe_zero",
            "design_render_lfe_zero",
            "renderFrame_eq_route",
            "route_nonlfe_rows",
            "route_shape",
            # norm factors and tables
            "norms_sq",
            "norms_pos",
            "norms_zero_of_gt",
            "tables_norms_positive",
            "tables_match_model",
            "tables_normBy_sq",
            "table_fuma_is_sn3d_times_factor",
            "table_acn_inverse",
        )
    )
    trusted_base = (
        "model Earverif/Model/Hoa.lean is a hand transliteration of hoa.norm_N3D/SN3D/FuMa, hoa.sph_harm/Alegendre, "
        "hoa.allrad_design, HOADecoderDesign.design and the HOARenderer output routing / FixedMatrix.process; G_virt (panner on "
        "the t-design), the t-design directions and the per-order maxRE table are parameters of the model",
        "scipy.special.lpmv and scipy.special.factorial are black boxes modelled in closed form (upward Legendre recurrence "
        "without Condon-Shortley phase; factorial of a negative integer = 0); tied on every run by `sph`/`norm` correspondence "
        "(1e-12 / 1e-14) and by designPack (model computes Y_virt and the norm vectors itself) vs the real design (1e-9)",
        "K_v = diag(nrm/nN3D)·Y_virt inside designW (sph_harm is linear in norm: theorem sphHarm_rescale for the model, checked "
        "to 1e-12 on every correspondence case against the K_v the real design call computed)",
        "rational recovery of the squared norm factors from float64 (Fraction.limit_denominator(10^7), re-checked by "
        "sqrt to 1e-15)",
        "sub-sampled virtual-loudspeaker sets in the correspondence replace the attributes points/G_virt of a copy of "
        "the real HOADecoderDesign; its design method runs unchanged",
    )
    assumptions = (
        "channel orders are naturals and |degree| <= order in every theorem about the concrete conventions (norms_pos, "
        "designPack_*): for |degree| > order the code's norm_N3D/norm_SN3D are 0 (norms_zero_of_gt, corresponded) and the decoder "
        "is NaN - no validator of the real code rejects such a pack (recorded finding degree-exceeds-order, see notes); FuMa only "
        "for orders <= 3 (the real code raises ValueError above)",
        "theorems are over the reals. The hypothesis NonDegenerate lists every denominator of the computation (number of points, "
        "Frobenius norm, both norm factors, sum of squared maxRE weights when rescaled, mean power when norm_mean_power is on) "
        "as non-zero; nonDegenerate_of_indep / nonDegenerate_pack derive it from: at least one sample point, linearly "
        "independent rows of Y_virt, |degree| <= order, and a non-zero entry of G·Yᵀ in a column with non-zero maxRE weight. "
        "Finiteness in binary64 (overflow, NaN inputs) is searched, not proved",
        "unit mean power is the mean over the code's P sample directions (the t-design points), not an integral over the sphere",
        "tables are decided for orders 0..5 (N3D, SN3D), 0..3 (FuMa) and ACN 0..35; the closed-form Legendre / Unsoeld theorems "
        "cover orders 0..3 (orders 4, 5 of sph_harm are tied by correspondence only)",
        "excluded point: maxRE=True with maxRE_scale='order' on a pack whose maximum order is 0 gives an all-zero "
        "decoder (0/0 = NaN with norm_mean_power) - NonDegenerate.meanPow fails there",
    )
    rule = (
        "a case is one (layout, design options, normalisation, channel list in a given order, gains, object gain/mute, "
        "virtual point set) - compared twice: Lean `design` fed the captured Y_virt/norm vectors, and Lean `designPack` fed "
        "only G_virt and the point directions; channel lists: full / horizontal-only / random partial sets of orders 0..5 "
        "(FuMa 0..3), rotated/shuffled so that every (order,|degree|) class comes first; plus hoa.norm_* on every rotation "
        "of every list (and on lists with |degree| > order), hoa.sph_harm per (n, m, direction), to_acn/from_acn, the default "
        "options of a fresh HOADecoderDesign vs ({} : Opts), routing "
        "and one rendered frame per routed case, and two packs x 4-6 plane-wave frames rendered through the real HOARenderer "
        "on each of the ten layouts (400-point virtual loudspeaker set); non-trivial = at least 2 channels and not muted; distinct by all of the above"
    )

    # ---------------------------------------------------------------- extract

    def extract(self, ctx):
        from ear.core import hoa

        def sq(x):
            fr = Fraction(float(x) * float(x)).limit_denominator(10 ** 7)
            if not (fr > 0 and abs(np.sqrt(fr.numerator / fr.denominator) - x) <= 1e-15 * abs(x)):
                raise ValueError("cannot recover an exact rational for the square of %r (got %s)" % (x, fr))
            return fr

        rows = {c: [] for c in CONVS}
        fac = []
        not_rational = []
        for conv in CONVS:
            for n in range(max_order(conv) + 1):
                for m in range(n + 1):
                    x = hoa.norm_functions[conv](np.array([n]), np.array([m]))[0]
                    try:
                        fr = sq(x)
                    except ValueError:
                        # keep the table total so that the positivity obligation reports the entry
                        fr = Fraction(float(x) * float(x)).limit_denominator(10 ** 7)
                        not_rational.append("norm_%s(%d,%d) = %r" % (conv, n, m, x))
                        ctx.notes.append("extract: norm_%s(%d,%d) = %r is not the square root of a small rational" % (conv, n, m, x))
                    rows[conv].append((n, m, fr.numerator, fr.denominator))
                    if conv == "FuMa":
                        s = hoa.norm_SN3D(np.array([n]), np.array([m]))[0]
                        f = Fraction(float(x / s) ** 2).limit_denominator(10 ** 4)
                        fac.append((n, m, f.numerator, f.denominator))
        acn = np.arange(36)
        nn, mm = hoa.from_acn(acn)
        from_rows = [(int(k), int(a), int(b)) for k, a, b in zip(acn, nn, mm)]
        to_rows = [(n, m, int(hoa.to_acn(n, m))) for n in range(6) for m in range(-n, n + 1)]

        def chunks(name, typ, items, fmt):
            out, names = [], []
            for i in range(0, len(items), 18):
                nm = "%s_%d" % (name, i // 18)
                names.append(nm)
                out.append("def %s : List (%s) := [%s]" % (nm, typ, ", ".join(fmt(x) for x in items[i:i + 18])))
            out.append("def %s : List (%s) := %s" % (name, typ, " ++ ".join(names) if names else "[]"))
            return "\n".join(out)

        q = lambda x: "(%d, %d, %d, %d)" % x
        t3 = lambda x: "(%d, %d, %d)" % x
        text = "\n".join(
            [
                "/- GENERATED by harness/c11.py extract() from ear.core.hoa — do not edit.",
                "   (n, |m|, num, den): norm_X(n,|m|)^2 = num/den recovered from the float64 value;",
                "   fumaFactorTable: (norm_FuMa/norm_SN3D)^2; fromAcnTable: (acn, n, m); toAcnTable: (n, m, acn). -/",
                "namespace Earverif.Hoa.Gen",
                chunks("n3dTable", "Nat × Nat × Nat × Nat", rows["N3D"], q),
                chunks("sn3dTable", "Nat × Nat × Nat × Nat", rows["SN3D"], q),
                chunks("fumaTable", "Nat × Nat × Nat × Nat", rows["FuMa"], q),
                chunks("fumaFactorTable", "Nat × Nat × Nat × Nat", fac, q),
                chunks("fromAcnTable", "Nat × Nat × Int", from_rows, t3),
                chunks("toAcnTable", "Int × Int × Int", to_rows, t3),
                "end Earverif.Hoa.Gen",
                "",
            ]
        )
        write_if_changed(os.path.join(GEN, "C11_Tables.lean"), text)
        # no silent fallback: an entry whose square is not recovered exactly makes the tables approximate
        ctx.obligation("extract:norm-squares-exact-rationals", not not_rational,
                       "every norm_* value squared is a rational with denominator <= 10^7 (re-checked by sqrt to 1e-15)" if not not_rational
                       else "not the square root of a small rational (table entry is an approximation): " + "; ".join(not_rational[:6]))
        ctx.count("extract:norm entries", sum(len(v) for v in rows.values()))
        ctx.count("extract:acn entries", len(from_rows) + len(to_rows))

    # ---------------------------------------------------------------- correspondence

    def _layouts(self, ctx):
        from ear.core import bs2051

        names = list(bs2051.layout_names)
        if not ctx.quick:
            return names
        picked = []
        for grp in LAYOUT_GROUPS:
            grp = [g for g in grp if g in names]
            picked.append(grp[(ctx.seed + len(picked)) % len(grp)])
        return picked

    def _perms(self, ctx, chans, k):
        """k orders of the channel list: rotations bringing a cycling class first, then shuffled tails"""
        out = []
        C = len(chans)
        for _ in range(k):
            self._cyc = getattr(self, "_cyc", 0) + 1
            first = self._cyc % C
            rest = [i for i in range(C) if i != first]
            if ctx.rng.random() < 0.5:
                ctx.rng.shuffle(rest)
            else:
                rest = [(first + 1 + i) % C for i in range(C - 1)]
            out.append([first] + rest)
        return out

    def correspond(self, ctx):
        driver = Driver("c11driver", "Earverif.Driver.C11")
        vals = self._corr_norms(ctx, driver)
        self._corr_norms_beyond(ctx, driver, vals)
        self._corr_sph(ctx, driver)
        self._corr_acn(ctx, driver)
        self._corr_defaults(ctx, driver)
        self._corr_render_all(ctx, driver)
        if ctx.quick:
            for name in self._layouts(ctx):
                ok, lc = guarded(ctx, "HOARenderer(layout) / init_slow", {"layout": name}, LayoutCtx.get, name)
                if ok:
                    self._corr_design(ctx, driver, lc)
        else:
            run_parallel(ctx, self._layouts(ctx), "correspond", True)

    def _model_norms(self, driver):
        # |m| <= n (inside the property) and |m| = n+1, n+2 (what the code computes there: 0.0 / KeyError)
        keys = [(c, n, m) for c in CONVS for n in range(max_order(c) + 1) for m in range(n + 3)]
        outs = driver.run(["norm %s %d %d" % k for k in keys])
        sqs = driver.run(["normsq %s %d %d" % k for k in keys])
        vals = {}
        for k, o, s in zip(keys, outs, sqs):
            vals[k] = None if o == "raise" else (bits_to_floats([o])[0], Fraction(s))
        return vals

    def _corr_norms(self, ctx, driver):
        vals = self._model_norms(driver)
        self._norm_vals = vals
        for conv in CONVS:
            for N in range(max_order(conv) + 1):
                sets = channel_sets(ctx.rng, N)
                if not ctx.quick:
                    sets += [("partial", partial_set(ctx.rng, N)) for _ in range(4)] if N else []
                for kind, chans in sets:
                    C = len(chans)
                    orders = [[(r + i) % C for i in range(C)] for r in range(C)]
                    for _ in range(3 if ctx.quick else 10):
                        p = list(range(C))
                        ctx.rng.shuffle(p)
                        orders.append(p)
                    base = None
                    for p in orders:
                        lst = [chans[i] for i in p]
                        inp = {"norm": conv, "channels": lst}
                        try:
                            got = np.asarray(real_norm(conv, lst), dtype=float)
                        except Exception as e:  # inside the quantifier nothing may raise
                            ctx.hit("hoa.norm_%s raised on a valid channel list" % conv, inp, repr(e), ["norm-raises"])
                            continue
                        want = np.array([vals[(conv, c[0], abs(c[1]))][0] for c in lst])
                        exact = np.array([float(vals[(conv, c[0], abs(c[1]))][1]) for c in lst])
                        ctx.case(("norm", conv, tuple(lst)), C >= 2, sample={"norm": conv, "channels": lst, "values": got.tolist()} if (C >= 2 and p is orders[-1]) else None)
                        ctx.count("norms:%s" % conv)
                        ctx.count("norms:" + cls(lst[0]))
                        ok = got.shape == want.shape and close(got, want, 1e-14) and close(got * got, exact, 1e-14)
                        if ok:
                            ctx.validated()
                        else:
                            ctx.disagree("hoa.norm_%s vs model element-wise norm" % conv, inp, want.tolist(), got.tolist())
                        # direct predicates: the factor is the convention's standard value ...
                        std = np.array([std_norm(conv, c[0], abs(c[1])) for c in lst])
                        if got.shape != std.shape or not close(got, std, 1e-12):
                            bad = [i for i in range(min(len(got), C)) if not abs(got[i] - std[i]) <= 1e-12] if got.shape == std.shape else []
                            ctx.hit("hoa.norm_%s is not the %s normalisation factor" % (conv, conv),
                                    dict(inp, first_wrong_channel=list(lst[bad[0]]) if bad else None),
                                    {"got": got.tolist(), "standard": std.tolist()}, ["norm-value", "norm-" + conv])
                        # ... and does not depend on where the channel stands in the list
                        if base is None:
                            base = (p, got)
                        else:
                            ref = np.empty(C)
                            ref[base[0]] = base[1]
                            if got.shape != (C,) or not np.array_equal(got, ref[p]):
                                ctx.hit(
                                    "per-channel normalisation factor depends on the order of the channel list",
                                    inp,
                                    {"got": got.tolist(), "same channels in ACN-rotation order give": ref[p].tolist()},
                                    ["norm-order-dependent", "norm-" + conv],
                                )
        return vals

    def _corr_norms_beyond(self, ctx, driver, vals):
        """|degree| > order: model vs code only (what hoa.norm_* computes there; no predicate is evaluated — the
        standard has no such channel). scipy's factorial of a negative number is 0, so N3D/SN3D return 0.0; FuMa's
        table lookup raises KeyError."""
        from ear.core import hoa

        lists = []
        for n in range(6):
            lists += [[(n, n + 1)], [(n, -(n + 2))], [(0, 0), (n, n + 1)], [(n, n + 1), (0, 0), (n, -n)]]
        lists.append([(0, 0), (1, 1), (1, 2)])
        for conv in CONVS:
            for lst in lists:
                if max(c[0] for c in lst) > max_order(conv):
                    continue
                inp = {"norm": conv, "channels": lst}
                want = [vals.get((conv, c[0], abs(c[1]))) for c in lst]
                try:
                    with warnings.catch_warnings(), np.errstate(all="ignore"):
                        warnings.simplefilter("ignore")
                        got = np.asarray(real_norm(conv, lst), dtype=float)
                    err = None
                except Exception as e:
                    got, err = None, type(e).__name__
                ctx.case(("norm-beyond", conv, tuple(lst)), True)
                ctx.count("norms:|m|>n:%s:%s" % (conv, "raises" if err else "returns"))
                if any(w is None for w in want):
                    ok = err == "KeyError"
                else:
                    ok = err is None and got.shape == (len(lst),) and close(got, [w[0] for w in want], 1e-14) \
                        and all(float(w[1]) == 0.0 for c, w in zip(lst, want) if abs(c[1]) > c[0])
                if ok:
                    ctx.validated()
                else:
                    ctx.disagree("hoa.norm_%s for |degree| > order vs model" % conv, inp,
                                 ["raise" if w is None else w[0] for w in want], err or got.tolist())

    def _corr_sph(self, ctx, driver):
        """hoa.sph_harm (scipy lpmv inside) vs the model's closed-form recurrence `sphHarm`, every (n, m) of orders 0..5
        (FuMa 0..3) in every convention at random and axis/pole directions, called on whole channel arrays in a
        shuffled order (element-wise evaluation); plus a few |m| > n channels (value 0)."""
        from ear.core import hoa

        rng = ctx.rng
        dirs = [(0.0, 0.0), (np.pi / 2, 0.0), (np.pi, 0.0), (-np.pi / 2, 0.0), (0.3, np.pi / 2), (0.3, -np.pi / 2),
                (np.pi / 4, np.pi / 4), (-2.0, -1.0)]
        dirs += [(rng.uniform(-np.pi, np.pi), float(np.arcsin(rng.uniform(-1, 1)))) for _ in range(8 if ctx.quick else 60)]
        lines, metas = [], []
        for conv in CONVS:
            chans = full_set(max_order(conv))
            if conv != "FuMa":
                chans = chans + [(1, 2), (0, -1), (2, 3)]
            chans = list(chans)
            rng.shuffle(chans)
            n = np.array([c[0] for c in chans])
            m = np.array([c[1] for c in chans])
            az = np.array([d[0] for d in dirs])
            el = np.array([d[1] for d in dirs])
            with warnings.catch_warnings(), np.errstate(all="ignore"):
                warnings.simplefilter("ignore")
                ok, Y = guarded(ctx, "hoa.sph_harm", {"norm": conv, "channels": chans},
                                lambda: hoa.sph_harm(n[:, None], m[:, None], az[None], el[None], norm=hoa.norm_functions[conv]))
            if not ok:
                continue
            for i, c in enumerate(chans):
                for j, d in enumerate(dirs):
                    lines.append("sph %s %d %d %.17g %.17g" % (conv, c[0], c[1], d[0], d[1]))
                    metas.append((conv, c, d, float(Y[i, j])))
        for (conv, c, d, want), o in zip(metas, driver.run(lines)):
            ctx.case(("sph", conv, c, d), True, sample={"sph_harm": conv, "n,m": list(c), "az,el": list(d), "value": want} if abs(c[1]) == 2 else None)
            ctx.count("sph:%s" % conv)
            ctx.count("sph:order:%d%s" % (c[0], " |m|>n" if abs(c[1]) > c[0] else ""))
            got = None if o == "raise" else bits_to_floats([o])[0]
            if got is not None and close([got], [want], 1e-12):
                ctx.validated()
            else:
                ctx.disagree("hoa.sph_harm vs Earverif.Hoa.sphHarm", {"norm": conv, "n": c[0], "m": c[1], "az": d[0], "el": d[1]}, got if got is not None else o, want)

    def _corr_defaults(self, ctx, driver):
        """'with default options': the option attributes of a FRESH HOADecoderDesign(layout) (and of the design object a
        default HOARenderer builds) vs the model's `({} : Opts)` printed by the driver, and vs the label DEFAULT_OPTS the
        harness uses to decide which cases get the unit-mean-power predicate."""
        from ear.core import bs2051
        from ear.core.scenebased.design import HOADecoderDesign
        from ear.core.scenebased.renderer import HOARenderer

        model = driver.run(["defaults"])[0]
        layout = bs2051.get_layout("0+5+0")

        def show(d):
            return "%s %s %s" % ({True: "1", False: "0"}.get(d.norm_mean_power, repr(d.norm_mean_power)),
                                 {True: "1", False: "0"}.get(d.maxRE, repr(d.maxRE)), d.maxRE_scale)

        for what, mk in (("HOADecoderDesign(layout)", lambda: HOADecoderDesign(layout.without_lfe)),
                         ("HOARenderer(layout)._decoder_design", lambda: HOARenderer(layout)._decoder_design)):
            ok, d = guarded(ctx, what, {"layout": "0+5+0"}, mk)
            if not ok:
                continue
            impl = show(d)
            ctx.case(("defaults", what), True, sample={"default options of": what, "norm_mean_power maxRE maxRE_scale": impl})
            ctx.count("defaults:compared")
            label = "%d %d %s" % (DEFAULT_OPTS["nmp"], DEFAULT_OPTS["maxRE"], DEFAULT_OPTS["scale"])
            if impl == model and impl == label:
                ctx.validated()
            else:
                ctx.disagree("default options of %s vs the model's ({} : Opts) / the harness label DEFAULT_OPTS" % what,
                             {"layout": "0+5+0"}, {"({} : Opts)": model, "DEFAULT_OPTS": label}, impl)

    def _corr_acn(self, ctx, driver):
        from ear.core import hoa

        ks = list(range(36 if ctx.quick else 144))
        outs = driver.run(["fromacn %d" % k for k in ks])
        nn, mm = hoa.from_acn(np.array(ks))
        for k, o, n, m in zip(ks, outs, nn, mm):
            ctx.count("acn:from")
            if o != "%d %d" % (n, m):
                ctx.disagree("hoa.from_acn", k, o, (int(n), int(m)))
            else:
                ctx.validated()
            back = int(hoa.to_acn(n, m))
            o2 = driver.run(["acn %d %d" % (n, m)])[0] if k < 36 else str(back)
            if o2 != str(back):
                ctx.disagree("hoa.to_acn", (int(n), int(m)), o2, back)
            if back != k:
                ctx.hit("to_acn(from_acn(k)) != k", {"acn": k}, {"n": int(n), "m": int(m), "back": back}, ["acn-roundtrip"])

    def _case_stream(self, ctx, lc, n_cases):
        """(conv, kind, channel list in order, opts, gains, obj gain, mute)"""
        out = []
        for i in range(n_cases):
            conv = CONVS[i % 3]
            N = ctx.rng.randint(0, max_order(conv))
            kind, chans = ctx.rng.choice(channel_sets(ctx.rng, N))
            p = self._perms(ctx, chans, 1)[0]
            lst = [chans[j] for j in p]
            opts = random_opts(ctx.rng)
            if excluded(opts, lst):
                ctx.count("excluded:maxRE scale=order on an order-0 pack")
                continue
            gains = [ctx.rng.choice([1.0, 0.0, -1.0, ctx.rng.uniform(-2, 2)]) for _ in lst]
            pats = zero_patterns(ctx.rng, lst)
            if pats and ctx.rng.random() < 0.3:
                gains = ctx.rng.choice(pats)[1]
            ctx.count("design:gains:" + ("with exact zeros" if any(x == 0.0 for x in gains) and any(x != 0.0 for x in gains) else "all zero" if not any(gains) else "non-zero"))
            og = ctx.rng.choice([1.0, ctx.rng.uniform(0.0, 2.0)])
            mute = ctx.rng.random() < 0.1
            out.append((conv, N, kind, lst, opts, gains, og, mute))
        return out

    def _corr_design(self, ctx, driver, lc):
        from ear.core import hoa

        P_all = lc.dd.points.shape[0]
        cases = self._case_stream(ctx, lc, 36 if ctx.quick else 120)
        n_full = 2 if ctx.quick else 4
        lines, pack_lines, metas = [], [], []
        for idx, (conv, N, kind, lst, opts, gains, og, mute) in enumerate(cases):
            if idx < n_full:
                subset = None
            else:
                P = ctx.rng.randint(max(2, len(lst)), 160)
                subset = np.array(sorted(ctx.rng.sample(range(P_all), P)))
            d = lc.designer(real_opts(opts), subset)  # default-options cases: the code's OWN defaults (fresh HOADecoderDesign)
            if real_opts(opts) is None:
                ctx.count("design:default options taken from a fresh HOADecoderDesign")
            meta = make_meta(lst, conv, gains, og, mute)
            # capture the matrices the real call computes
            calls = []
            orig = hoa.sph_harm

            def rec(n, m, az, el, norm=hoa.norm_SN3D, _calls=calls, _orig=orig):
                r = _orig(n, m, az, el, norm=norm)
                _calls.append((norm, np.array(r, dtype=float)))
                return r

            hoa.sph_harm = rec
            try:
                D = real_design(d, meta)
            except Exception as e:
                ctx.hit("HOADecoderDesign.design raised", self._inp(lc, conv, lst, opts, gains, og, mute), repr(e), ["design-raises"])
                continue
            finally:
                hoa.sph_harm = orig
            n = np.array([c[0] for c in lst])
            m = np.array([c[1] for c in lst])
            if not calls or calls[0][0] is not hoa.norm_N3D:
                ctx.disagree("design no longer builds Y_virt with sph_harm(norm=norm_N3D)", self._inp(lc, conv, lst, opts, gains, og, mute), "Y_virt", [c[0].__name__ for c in calls])
                continue
            Y = calls[0][1]
            inp_c = self._inp(lc, conv, lst, opts, gains, og, mute)
            if Y.shape != (len(lst), d.G_virt.shape[1]):
                ctx.disagree("Y_virt built by design does not have one row per channel of the pack", inp_c,
                             "shape %s" % ((len(lst), d.G_virt.shape[1]),), "shape %s" % (Y.shape,))
                continue
            if np.shape(D) != (d.G_virt.shape[0], len(lst)):
                ctx.disagree("decoder shape", inp_c, "shape %s" % ((d.G_virt.shape[0], len(lst)),), "shape %s" % (np.shape(D),))
                continue
            ok, nn = guarded(ctx, "hoa.norm_N3D / hoa.norm_%s" % conv, self._inp(lc, conv, lst, opts, gains, og, mute),
                             lambda: (hoa.norm_N3D(n, np.abs(m)), np.asarray(real_norm(conv, lst), dtype=float)))
            if not ok:
                continue
            nN3D, nrm = nn
            if np.shape(nN3D) != (len(lst),) or np.shape(nrm) != (len(lst),):
                ctx.disagree("norm vector shape", inp_c, "(%d,)" % len(lst), "%s %s" % (np.shape(nN3D), np.shape(nrm)))
                continue
            if opts["nmp"] and len(calls) >= 2:
                K = calls[1][1]
                with np.errstate(all="ignore"):
                    Kmodel = (nrm / nN3D)[:, None] * Y
                if K.shape != Kmodel.shape:
                    ctx.disagree("K_v shape", inp_c, "shape %s" % (Kmodel.shape,), "shape %s" % (K.shape,))
                    continue
                if not close(K, Kmodel, 1e-12):
                    ctx.disagree("K_v = diag(nrm/nN3D)·Y_virt", self._inp(lc, conv, lst, opts, gains, og, mute), "diag(nrm/nN3D)·Y", "differs by %g" % maxdiff(K, Kmodel))
            coef = hoa.ApproxMaxRECoefficients(int(max(n))) if opts["maxRE"] else np.array([1.0])
            G = d.G_virt
            lines.append(
                "design %d %d %d %d %d %s %d %.17g | %s | %s | %s | %s | %s | %s | %s"
                % (G.shape[0], len(lst), G.shape[1], opts["nmp"], opts["maxRE"], opts["scale"], mute, og,
                   fl(G), fl(Y), fl(nN3D), fl(nrm), fl(gains), " ".join(str(int(x)) for x in n), fl(coef))
            )
            # the same call with everything between the metadata and the decoder inside the model (norm_*, sph_harm):
            # only G_virt and the point directions (computed as design/allrad_design compute them) come from the code
            paz = -np.arctan2(d.points[:, 0], d.points[:, 1])
            pel = np.arctan2(d.points[:, 2], np.hypot(d.points[:, 0], d.points[:, 1]))
            pack_lines.append(
                "designpack %d %d %d %d %d %s %d %.17g %s | %s | %s | %s | %s | %s | %s | %s"
                % (G.shape[0], len(lst), G.shape[1], opts["nmp"], opts["maxRE"], opts["scale"], mute, og, conv,
                   fl(G), fl(paz), fl(pel), fl(gains), " ".join(str(int(x)) for x in n), " ".join(str(int(x)) for x in m), fl(coef))
            )
            metas.append((conv, N, kind, lst, opts, gains, og, mute, subset, D))
        outs = driver.run(lines)
        pack_outs = driver.run(pack_lines)
        for (conv, N, kind, lst, opts, gains, og, mute, subset, D), o in zip(metas, pack_outs):
            inp = self._inp(lc, conv, lst, opts, gains, og, mute)
            inp["points"] = "all %d" % P_all if subset is None else "subset %s" % subset.tolist()
            ctx.case(("designpack", lc.name, conv, tuple(lst), opts_key(opts), tuple(gains), og, mute, inp["points"]), len(lst) >= 2 and not mute)
            ctx.count("designpack:norm:" + conv)
            ctx.count("designpack:order:%d" % N)
            tok = o.split()
            if tok[0] != "ok":
                ctx.disagree("driver rejected a designpack request", inp, o[:80], "decoder of shape %s" % (np.shape(D),))
                continue
            M = bits_to_floats(tok[1:]).reshape(np.shape(D))
            if close(M, D):
                ctx.validated()
            else:
                ctx.disagree("HOADecoderDesign.design vs Earverif.Hoa.designPack (norm_*, sph_harm inside the model)", inp,
                             M[0].tolist(), np.asarray(D)[0].tolist() + ["max abs diff %g" % maxdiff(M, D)])
        for (conv, N, kind, lst, opts, gains, og, mute, subset, D), o in zip(metas, outs):
            inp = self._inp(lc, conv, lst, opts, gains, og, mute)
            inp["points"] = "all %d" % P_all if subset is None else "subset %s" % subset.tolist()
            nontriv = len(lst) >= 2 and not mute
            ctx.case(("design", lc.name, conv, tuple(lst), opts_key(opts), tuple(gains), og, mute, inp["points"]), nontriv,
                     sample=dict(inp, decoder_row0=np.asarray(D)[0].tolist()) if nontriv else None)
            for key in ("layout:" + lc.name, "order:%d" % N, "norm:" + conv, "set:" + kind, cls(lst[0]), opts_key(opts),
                        "points:" + ("all" if subset is None else "subsampled")):
                ctx.count("design:" + key)
            tok = o.split()
            if tok[0] != "ok":
                ctx.disagree("driver rejected a design request", inp, o[:80], "decoder of shape %s" % (np.shape(D),))
                continue
            M = bits_to_floats(tok[1:]).reshape(np.shape(D))
            if close(M, D):
                ctx.validated()
            else:
                err = maxdiff(M, D)
                ctx.disagree("HOADecoderDesign.design vs Earverif.Hoa.design", inp, M[0].tolist(), np.asarray(D)[0].tolist() + ["max abs diff %g" % err])
        # routing through the real HOARenderer vs the model's `route`
        rl, rm, fl_lines, fm = [], [], [], []
        for (conv, N, kind, lst, opts, gains, og, mute) in cases[: 4 if ctx.quick else 12]:
            meta = make_meta(lst, conv, gains, og, mute)
            ok, DR = guarded(ctx, "HOADecoderDesign.design / HOARenderer.render", self._inp(lc, conv, lst, DEFAULT_OPTS, gains, og, mute),
                             lambda: (real_design(lc.dd, meta), lc.route(meta)))
            if not ok or not np.all(np.isfinite(DR[0])):
                continue
            D, R = DR
            bits = "".join("1" if b else "0" for b in lc.layout.is_lfe)
            rl.append("route %d %s | %s" % (len(lst), bits, fl(D)))
            rm.append((conv, lst, gains, og, mute, R))
            # one rendered frame of arbitrary samples through the real HOARenderer vs the model's renderFrame
            x = [ctx.rng.choice([0.0, 1.0, -1.0, ctx.rng.uniform(-1, 1)]) for _ in lst]
            ok, out = guarded(ctx, "HOARenderer.render", self._inp(lc, conv, lst, DEFAULT_OPTS, gains, og, mute), lc.render, meta, np.array([x]))
            if ok:
                fl_lines.append("frame %d %s | %s | %s" % (len(lst), bits, fl(D), fl(x)))
                fm.append((conv, lst, gains, og, mute, x, np.asarray(out)[0]))
        for (conv, lst, gains, og, mute, x, out), o in zip(fm, driver.run(fl_lines)):
            inp = dict(self._inp(lc, conv, lst, DEFAULT_OPTS, gains, og, mute), frame=x)
            ctx.case(("frame", lc.name, conv, tuple(lst), tuple(gains), og, mute, tuple(x)), True)
            ctx.count("frame:layout:" + lc.name)
            tok = o.split()
            is_lfe = np.asarray(lc.layout.is_lfe)
            if tok[0] == "ok" and len(tok) - 1 == len(out) and close(bits_to_floats(tok[1:]), out, 1e-12) \
                    and all(t == "0" for t, b in zip(tok[1:], is_lfe) if b):
                ctx.validated()
            else:
                ctx.disagree("HOARenderer.render of one frame vs Earverif.Hoa.renderFrame", inp, o[:160], out.tolist())
        for (conv, lst, gains, og, mute, R), o in zip(rm, driver.run(rl)):
            inp = self._inp(lc, conv, lst, DEFAULT_OPTS, gains, og, mute)
            ctx.case(("route", lc.name, conv, tuple(lst), tuple(gains), og, mute), True)
            ctx.count("route:layout:" + lc.name)
            tok = o.split()
            if tok[0] == "ok" and close(bits_to_floats(tok[1:]).reshape(R.shape), R, 1e-12):
                ctx.validated()
            else:
                ctx.disagree("HOARenderer output routing vs Earverif.Hoa.route", inp, o[:120], R[:, 0].tolist())

    def _render_cases(self, ctx):
        """deterministic per layout: (conv, channel list in pack order, gains, object gain) for the rendered-audio checks -
        every one of the ten layouts (the two with two LFE channels included) on every run"""
        from ear.core import bs2051

        out = []
        for li, name in enumerate(bs2051.layout_names):
            for k in range(2):
                conv = CONVS[(li + k + ctx.seed) % 3]
                N = 1 + (li + 2 * k + ctx.seed) % max_order(conv)
                kind, chans = channel_sets(ctx.rng, N)[(li + k) % 3]
                p = self._perms(ctx, chans, 1)[0]
                lst = [chans[j] for j in p]
                gains = [1.0] * len(lst) if k == 0 else [ctx.rng.choice([1.0, 0.5, -1.0, ctx.rng.uniform(0.1, 2.0)]) for _ in lst]
                out.append((name, conv, N, kind, lst, gains, 1.0 if k == 0 else ctx.rng.uniform(0.2, 1.5)))
        return out

    def _plane_waves(self, ctx, conv, lst, Q):
        """Q plane waves from random directions encoded in the convention's standard factors: samples x channels"""
        from ear.core import hoa

        az = np.array([ctx.rng.uniform(-np.pi, np.pi) for _ in range(Q)])
        el = np.arcsin(np.array([ctx.rng.uniform(-1, 1) for _ in range(Q)]))
        n = np.array([c[0] for c in lst])
        m = np.array([c[1] for c in lst])
        return az, el, hoa.sph_harm(n[:, None], m[:, None], az[None], el[None], norm=std_norm_fn(conv)).T

    def _corr_render_all(self, ctx, driver):
        """The REAL HOARenderer (set_rendering_items + render, as ear.core.renderer.Renderer drives it) on all ten
        layouts vs the model: every rendered sample frame = `renderFrame lfe (rows of the designed decoder) x`
        (`route` + matrix-vector product, theorems no_lfe_feed / render_lfe_zero / renderFrame_eq_route)."""
        lines, metas = [], []
        for name, conv, N, kind, lst, gains, og in self._render_cases(ctx):
            inp = {"layout": name, "normalization": conv, "orders": [c[0] for c in lst], "degrees": [c[1] for c in lst],
                   "gains": gains, "object_gain": og}
            ok, lc = guarded(ctx, "HOARenderer(layout)", {"layout": name}, LayoutCtx.get_light, name)
            if not ok:
                continue
            meta = make_meta(lst, conv, gains, og)
            _, _, X = self._plane_waves(ctx, conv, lst, 4)
            try:
                D = real_design(lc.dd, meta)
                out = np.asarray(lc.render(meta, X))
            except Exception as e:
                # the model renders every layout: an exception here is a disagreement, and a failing input for the search
                ctx.disagree("HOARenderer.render raised; Earverif.Hoa.renderFrame returns a frame", inp, "ok", repr(e))
                continue
            bits = "".join("1" if b else "0" for b in lc.layout.is_lfe)
            for t in range(X.shape[0]):
                lines.append("frame %d %s | %s | %s" % (len(lst), bits, fl(D), fl(X[t])))
                metas.append((dict(inp, sample=X[t].tolist()), name, out[t] if out.ndim == 2 and t < out.shape[0] else np.array([]), np.asarray(lc.layout.is_lfe)))
        for (inp, name, out, is_lfe), o in zip(metas, driver.run(lines)):
            ctx.case(("render-frame", name, inp["normalization"], tuple(inp["orders"]), tuple(inp["degrees"]), tuple(inp["sample"])), True)
            ctx.count("render:frames:layout:%s (%d LFE)" % (name, int(np.sum(is_lfe))))
            tok = o.split()
            if tok[0] == "ok" and len(tok) - 1 == len(out) and close(bits_to_floats(tok[1:]), out, 1e-12) \
                    and all((t == "0") == (v == 0.0) for t, v, b in zip(tok[1:], out, is_lfe) if b):
                ctx.validated()
            else:
                ctx.disagree("HOARenderer.render (one frame) vs Earverif.Hoa.renderFrame", inp,
                             bits_to_floats(tok[1:]).tolist() if tok[0] == "ok" else o[:80], np.asarray(out).tolist())

    def _search_render_all(self, ctx):
        """Direct predicate on RENDERED AUDIO through the real HOARenderer on all ten layouts: LFE outputs identically
        zero; non-LFE outputs = designed decoder applied to the input; the same plane waves give the same loudspeaker
        signals when the pack lists its channels in another order and when it uses another normalisation."""
        for name, conv, N, kind, lst, gains, og in self._render_cases(ctx):
            inp = {"layout": name, "normalization": conv, "orders": [c[0] for c in lst], "degrees": [c[1] for c in lst],
                   "gains": gains, "object_gain": og}
            ok, lc = guarded(ctx, "HOARenderer(layout)", {"layout": name}, LayoutCtx.get_light, name)
            if not ok:
                continue
            is_lfe = np.asarray(lc.layout.is_lfe)
            az, el, X = self._plane_waves(ctx, conv, lst, 6)
            inp["plane_wave_az_el_rad"] = [float(az[0]), float(el[0])]
            meta = make_meta(lst, conv, gains, og)
            ctx.case(("search-render", name, conv, tuple(lst), tuple(gains), og), True)
            ctx.count("search:render:layout:%s (%d LFE)" % (name, int(np.sum(is_lfe))))
            ok, out = guarded(ctx, "HOARenderer.render", inp, lc.render, meta, X)
            if not ok:
                continue
            out = np.asarray(out)
            if out.shape != (X.shape[0], len(is_lfe)):
                ctx.hit("rendered block has the wrong shape", inp, {"shape": list(out.shape), "expected": [X.shape[0], len(is_lfe)]}, ["render", "shape"])
                continue
            if not np.all(np.isfinite(out)):
                ctx.hit("rendered HOA signal is not finite", inp, {"frame0": out[0].tolist()}, ["render", "not-finite"])
                continue
            if not np.all(out[:, is_lfe] == 0.0):
                j = int(np.flatnonzero(is_lfe)[np.argmax(np.max(np.abs(out[:, is_lfe]), axis=0))])
                ctx.hit("HOARenderer feeds an LFE output (rendered signal not zero on %s)" % lc.layout.channel_names[j], inp,
                        {"peak on LFE outputs": float(np.max(np.abs(out[:, is_lfe]))), "channel": lc.layout.channel_names[j],
                         "frame0": out[0].tolist()}, ["render", "lfe"])
            ok, D = guarded(ctx, "HOADecoderDesign.design", inp, real_design, lc.dd, meta)
            if ok and not close(out[:, ~is_lfe], np.dot(X, np.asarray(D).T), 1e-12):
                diff = np.max(np.abs(out[:, ~is_lfe] - np.dot(X, np.asarray(D).T)), axis=0)
                names = [c for c, b in zip(lc.layout.channel_names, is_lfe) if not b]
                ctx.hit("rendered loudspeaker signals are not the designed decoder applied to the input", inp,
                        {"max abs diff": float(np.max(diff)), "worst loudspeaker": names[int(np.argmax(diff))]}, ["render", "routing"])
            # channel order: another listing of the same pack, input columns moved with it -> same signals
            p = list(range(len(lst)))
            ctx.rng.shuffle(p)
            meta_p = make_meta([lst[i] for i in p], conv, [gains[i] for i in p], og)
            ok, out_p = guarded(ctx, "HOARenderer.render", dict(inp, permutation=p), lc.render, meta_p, X[:, p])
            if ok and not close(out_p, out):
                ctx.hit("rendered signals change when the pack lists its channels in another order", dict(inp, permutation=p),
                        {"max abs diff": maxdiff(out_p, out)}, ["render", "perm"])
            # normalisation: the same plane waves in another convention -> same signals
            for conv2 in CONVS:
                if conv2 == conv or N > max_order(conv2):
                    continue
                n = np.array([c[0] for c in lst])
                m = np.array([c[1] for c in lst])
                from ear.core import hoa

                X2 = hoa.sph_harm(n[:, None], m[:, None], az[None], el[None], norm=std_norm_fn(conv2)).T
                ok, out2 = guarded(ctx, "HOARenderer.render", dict(inp, normalization=conv2), lc.render, make_meta(lst, conv2, gains, og), X2)
                ctx.count("search:render:signals %s=%s" % (conv, conv2))
                if ok and not close(out2, out):
                    ctx.hit("same plane waves in %s and %s give different rendered signals" % (conv, conv2), dict(inp, other=conv2),
                            {"max abs diff": maxdiff(out2, out)}, ["render", "norm-convention"])

    def _inp(self, lc, conv, lst, opts, gains, og, mute):
        return {"layout": lc.name, "normalization": conv, "orders": [c[0] for c in lst], "degrees": [c[1] for c in lst],
                "options": dict(norm_mean_power=bool(opts["nmp"]), maxRE=bool(opts["maxRE"]), maxRE_scale=opts["scale"]),
                "options_source": "the code's own defaults (fresh HOADecoderDesign(layout)); 'options' is the expected label"
                if opts == DEFAULT_OPTS else "set by the harness",
                "gains": list(gains), "object_gain": og, "object_mute": bool(mute)}

    # ---------------------------------------------------------------- direct predicate

    def _probe_degree_gt_order(self, ctx):
        """Recorded finding (outside every theorem: NonDegenerate fails, see Earverif.Hoa.degree_gt_order_degenerate):
        an ADM document whose HOA pack has a channel with |degree| > order passes the XML parser, adm.validate() and
        select_rendering_items (no validator compares degree with order) and the designed decoder is NaN in EVERY entry.
        Reported as a failing input only when known_findings.json lists the classifier `degree-exceeds-order` (a check
        must not alarm on the unchanged tree); otherwise recorded in the evidence notes."""
        import lxml.etree
        from ear.core.select_items import select_rendering_items
        from ear.fileio.adm.builder import ADMBuilder
        from ear.fileio.adm.elements import AudioBlockFormatHoa, FormatDefinition, TypeDefinition
        from ear.fileio.adm.exceptions import AdmError
        from ear.fileio.adm.generate_ids import generate_ids
        from ear.fileio.adm.xml import adm_to_xml, parse_string
        from .common import load_known

        chans = [(0, 0), (1, 1), (1, 2)]
        layout = self._layouts(ctx)[0]  # a layout this run initialises anyway
        inp = {"adm": "one HOA audioPackFormat, SN3D, three audioChannelFormats", "orders": [c[0] for c in chans],
               "degrees": [c[1] for c in chans], "layout": layout}
        try:
            b = ADMBuilder()
            pack = b.create_pack(audioPackFormatName="p", type=TypeDefinition.HOA)
            tracks = []
            for n, m in chans:
                ch = b.create_channel(audioChannelFormatName="c_%d_%d" % (n, m), type=TypeDefinition.HOA,
                                      audioBlockFormats=[AudioBlockFormatHoa(order=n, degree=m)])
                b.create_stream(audioStreamFormatName="s", format=FormatDefinition.PCM, audioChannelFormat=ch)
                tracks.append(b.create_track(audioTrackFormatName="t", format=FormatDefinition.PCM))
            for i, t in enumerate(tracks, 1):
                b.create_track_uid(audioPackFormat=pack, audioTrackFormat=t, trackIndex=i)
            generate_ids(b.adm)
            adm = parse_string(lxml.etree.tostring(adm_to_xml(b.adm)))
            for i, atu in enumerate(adm.audioTrackUIDs):
                atu.trackIndex = i + 1  # carried by the CHNA chunk in a file
            adm.validate()
            [item] = select_rendering_items(adm)
            meta = item.metadata_source.get_next_block()
        except (AdmError, ValueError) as e:
            ctx.count("finding:degree-exceeds-order:rejected by the reader/validators (%s)" % type(e).__name__)
            return
        ok, lc = guarded(ctx, "HOARenderer(layout) / init_slow", {"layout": layout}, LayoutCtx.get, layout)
        if not ok:
            return
        try:
            D = real_design(lc.dd, meta)
        except Exception as e:
            ctx.count("finding:degree-exceeds-order:design raises %s" % type(e).__name__)
            return
        if np.all(np.isfinite(D)):
            ctx.count("finding:degree-exceeds-order:decoder finite (not reproduced)")
            return
        ctx.count("finding:degree-exceeds-order:reproduced (decoder not finite)")
        detail = {"decoder row0": np.asarray(D)[0].tolist(), "entries not finite": int(np.sum(~np.isfinite(D))), "entries": int(np.size(D))}
        listed = any(k.get("property") == "C11" and k.get("status") == "known" and k.get("classifier") == "degree-exceeds-order"
                     for k in load_known())
        if listed:
            ctx.hit("decoder is not finite for a pack with |degree| > order that every validator accepts", inp, detail,
                    ["not-finite", "degree-exceeds-order"])
        else:
            ctx.notes.append("FINDING degree-exceeds-order (not listed in known_findings.json, hence not reported as a hit): "
                             "ADM with HOA channel order=1 degree=2 is accepted by parse/validate/select_rendering_items; "
                             "HOADecoderDesign.design returns %d/%d non-finite entries" % (detail["entries not finite"], detail["entries"]))

    def search(self, ctx, deep):
        self._probe_degree_gt_order(ctx)
        self._search_render_all(ctx)
        if ctx.quick:
            for name in self._layouts(ctx):
                ok, lc = guarded(ctx, "HOARenderer(layout) / init_slow", {"layout": name}, LayoutCtx.get, name)
                if ok:
                    self._search_layout(ctx, lc, deep)
        else:
            run_parallel(ctx, self._layouts(ctx), "search", deep)

    def _search_layout(self, ctx, lc, deep):
        from ear.core import hoa

        rng = ctx.rng
        # plane waves from random directions, to be encoded in each convention
        Q = 24
        az = np.array([rng.uniform(-np.pi, np.pi) for _ in range(Q)])
        el = np.arcsin(np.array([rng.uniform(-1, 1) for _ in range(Q)]))
        for N in range(6):
            sets = channel_sets(rng, N)
            if not deep and len(sets) == 3:
                # quick: the full set plus, alternating, the horizontal-only or a random partial set
                self._alt = getattr(self, "_alt", ctx.seed) + 1
                sets = [sets[0], sets[1 + self._alt % 2]]
            for kind, chans in sets:
                n = np.array([c[0] for c in chans])
                m = np.array([c[1] for c in chans])
                C = len(chans)
                # design options: the defaults always; maxRE (per-order weights) with a random scaling / mean-power
                # setting on a share of the channel sets (all of them and every scaling when deep)
                opt_list = [dict(DEFAULT_OPTS)]
                if deep:
                    opt_list += [dict(nmp=True, maxRE=True, scale="none")]
                    opt_list += rng.sample([dict(nmp=False, maxRE=False, scale="none")] + [dict(nmp=False, maxRE=True, scale=s) for s in SCALES], 2)
                elif rng.random() < 0.4:
                    opt_list.append(dict(nmp=rng.random() < 0.5, maxRE=True, scale=rng.choice(SCALES)))
                for opts in opt_list:
                    if excluded(opts, chans):
                        ctx.count("excluded:maxRE scale=order on an order-0 pack")
                        continue
                    d = lc.designer(real_opts(opts))  # defaults: those of a fresh HOADecoderDesign(layout), not hand-typed
                    default = opts == DEFAULT_OPTS
                    signals = {}
                    for conv in CONVS:
                        if N > max_order(conv):
                            continue
                        inp0 = self._inp(lc, conv, chans, opts, [1.0] * C, 1.0, False)
                        try:
                            base = real_design(d, make_meta(chans, conv))
                        except Exception as e:
                            ctx.hit("HOADecoderDesign.design raised", inp0, repr(e), ["design-raises"])
                            continue
                        ctx.case(("search", lc.name, conv, tuple(chans), opts_key(opts)), C >= 2)
                        for key in ("layout:" + lc.name, "order:%d" % N, "norm:" + conv, "set:" + kind, opts_key(opts)):
                            ctx.count("search:" + key)
                        if base.shape != (lc.L, C) or not np.all(np.isfinite(base)):
                            ctx.hit("decoder is not finite", inp0, {"row0": base[0].tolist()}, ["not-finite"])
                            continue
                        # same sound field, different conventions -> same loudspeaker signals
                        # (plane waves encoded with the convention's standard factors, not the code's own norm_*)
                        ok, enc = guarded(ctx, "hoa.sph_harm", inp0, lambda: hoa.sph_harm(n[:, None], m[:, None], az[None], el[None], norm=std_norm_fn(conv)))
                        if ok:
                            signals[conv] = np.dot(base, enc)
                        # channel order: permuting the pack's channels permutes the columns
                        for p in self._perms(ctx, chans, (3 if conv != "FuMa" else 4) if deep else (2 if default else 1)):
                            lst = [chans[i] for i in p]
                            gains = [rng.choice([1.0, rng.uniform(0.1, 2.0)]) for _ in lst]
                            inp = self._inp(lc, conv, lst, opts, gains, 1.0, False)
                            ctx.count("search:" + cls(lst[0]))
                            try:
                                Dp = real_design(d, make_meta(lst, conv, gains))
                            except Exception as e:
                                ctx.hit("HOADecoderDesign.design raised for a permuted channel list", inp, repr(e), ["design-raises", "perm"])
                                continue
                            ctx.case(("search-perm", lc.name, conv, tuple(lst), opts_key(opts), tuple(gains)), C >= 2)
                            if not np.all(np.isfinite(Dp)):
                                ctx.hit("decoder is not finite for a permuted channel list", inp, {"row0": Dp[0].tolist()}, ["not-finite", "perm"])
                            elif not close(Dp, base[:, p] * np.array(gains)):
                                ctx.hit("decoder for a permuted channel list is not the column-permuted decoder", inp,
                                        {"max abs diff": maxdiff(Dp, base[:, p] * np.array(gains)),
                                         "row0": Dp[0].tolist(), "expected row0": (base[:, p] * np.array(gains))[0].tolist()}, ["perm"])
                        if default:
                            # unit mean power over the t-design for unit plane waves encoded in the pack's convention
                            ok, K = guarded(ctx, "hoa.sph_harm", inp0, lambda: hoa.sph_harm(n[:, None], m[:, None], lc.az[None], lc.el[None], norm=std_norm_fn(conv)))
                            mp = float(np.mean(np.sum(np.dot(base, K) ** 2, axis=0))) if ok else 1.0
                            ctx.count("search:mean-power")
                            if not abs(mp - 1.0) <= TOL:
                                ctx.hit("mean power over the sphere is not 1 with default options", inp0, {"mean power": mp}, ["mean-power"])
                        if default and (deep or kind == "full"):
                            # LFE outputs through the real renderer
                            ok, R = guarded(ctx, "HOARenderer.render", inp0, lc.route, make_meta(chans, conv))
                            is_lfe = np.asarray(lc.layout.is_lfe)
                            ctx.count("search:lfe-routing")
                            if not ok:
                                pass
                            elif R.shape != (len(is_lfe), C) or not np.all(R[is_lfe] == 0.0):
                                ctx.hit("HOARenderer feeds an LFE output", inp0, {"lfe rows": R[is_lfe].tolist() if R.shape[0] == len(is_lfe) else "shape %s" % (R.shape,)}, ["lfe"])
                            elif not close(R[~is_lfe], base, 1e-12):
                                ctx.hit("HOARenderer output differs from the designed decoder on non-LFE channels", inp0,
                                        {"max abs diff": maxdiff(R[~is_lfe], base)}, ["routing"])
                        if default or deep:
                            # linearity in per-channel gains and object gain, mute
                            gains = [rng.uniform(-2, 2) for _ in chans]
                            og = rng.uniform(0.0, 2.0)
                            ctx.count("search:linearity")
                            ok, Dg = guarded(ctx, "HOADecoderDesign.design", self._inp(lc, conv, chans, opts, gains, og, False),
                                             real_design, d, make_meta(chans, conv, gains, og))
                            if not ok:
                                continue
                            if not close(Dg, base * np.array(gains) * og):
                                ctx.hit("decoder is not linear in gains / object gain", self._inp(lc, conv, chans, opts, gains, og, False),
                                        {"max abs diff": maxdiff(Dg, base * np.array(gains) * og)}, ["linearity"])
                            # exact zeros among non-zero gains (a channel muted by gain / importance): still D(1)·g
                            pats = zero_patterns(rng, chans)
                            if pats and not deep:
                                self._zp = getattr(self, "_zp", 0) + 1
                                pats = [pats[self._zp % len(pats)]]
                            for pname, gz in pats:
                                inpz = self._inp(lc, conv, chans, opts, gz, 1.0, False)
                                ctx.count("search:zero-gains:" + pname.split("-")[0])
                                ok, Dz = guarded(ctx, "HOADecoderDesign.design", inpz, real_design, d, make_meta(chans, conv, gz))
                                if not ok:
                                    continue
                                ctx.case(("search-zero", lc.name, conv, tuple(chans), opts_key(opts), tuple(gz)), True)
                                if Dz.shape != base.shape or not close(Dz, base * np.array(gz)):
                                    ctx.hit("decoder for gains containing exact zeros is not the unit-gain decoder times the gains", inpz,
                                            {"max abs diff": maxdiff(Dz, base * np.array(gz)) if Dz.shape == base.shape else "shape %s" % (Dz.shape,),
                                             "row0": Dz[0].tolist(), "expected row0": (base * np.array(gz))[0].tolist()}, ["linearity", "zero-gain"])
                                if default and (deep or (kind == "full" and conv == "SN3D")):
                                    # rendering with a zero-gain channel == rendering with that channel's samples zeroed
                                    X = np.array([[rng.uniform(-1, 1) for _ in chans] for _ in range(4)])
                                    gnz = [x if x != 0.0 else 1.0 for x in gz]
                                    Xz = X * (np.array(gz) != 0.0)
                                    ctx.count("search:zero-gain-render")
                                    ok, outs = guarded(ctx, "HOARenderer.render", inpz,
                                                       lambda: (lc.render(make_meta(chans, conv, gz), X), lc.render(make_meta(chans, conv, gnz), Xz)))
                                    if ok and not close(outs[0], outs[1]):
                                        ctx.hit("rendering with zero-gain channels differs from rendering with those channels' samples zeroed",
                                                dict(inpz, input_samples=X.tolist()), {"max abs diff": maxdiff(outs[0], outs[1])}, ["linearity", "zero-gain", "render"])
                            if deep or kind == "full":
                                ok, Dm = guarded(ctx, "HOADecoderDesign.design", self._inp(lc, conv, chans, opts, gains, og, True),
                                                 real_design, d, make_meta(chans, conv, gains, og, True))
                                ctx.count("search:mute")
                                if ok and not (np.all(np.isfinite(Dm)) and np.all(Dm == 0.0)):
                                    ctx.hit("muted object gives a non-zero decoder", self._inp(lc, conv, chans, opts, gains, og, True), {"row0": Dm[0].tolist()}, ["mute"])
                    names = list(signals)
                    for a in names[1:]:
                        ctx.count("search:signals %s=%s" % (names[0], a))
                        if not close(signals[a], signals[names[0]]):
                            ctx.hit("same plane waves in %s and %s give different loudspeaker signals" % (names[0], a),
                                    dict(self._inp(lc, a, chans, opts, [1.0] * C, 1.0, False), plane_wave_az_el=[float(az[0]), float(el[0])]),
                                    {"max abs diff": maxdiff(signals[a], signals[names[0]])}, ["norm-convention"])


SPEC = C11()

REGISTRY = dict(
    text="PARTIAL: full on the abstract model, concrete conventions and sph_harm inside for |degree| <= order, finiteness "
    "searched. Lean theorems over the reals about a transliteration of hoa.norm_*/sph_harm/allrad_design, "
    "HOADecoderDesign.design and the HOARenderer routing. Abstract layer (panner matrix G, harmonics Y, norm vectors arbitrary; "
    "hypothesis NonDegenerate = every denominator non-zero, derived by nonDegenerate_of_indep from independent rows of Y, "
    "non-zero norm factors and a non-zero entry of G·Yᵀ): design_perm (permuting channels permutes decoder columns, incl. "
    "per-order maxRE weights), design_norm_invariant / design_same_signals (decoder·diag(nrm) is the same for any two non-zero "
    "conventions), design_linear_in_gains, design_mute_zero, design_unit_mean_power(_nmp) (mean over the code's P sample "
    "points = 1; 'default options' = the model's ({} : Opts), which the driver op `defaults` prints and the correspondence "
    "compares with the attributes of a fresh HOADecoderDesign(layout) and of HOARenderer(layout)._decoder_design on every "
    "run; every default-options case of correspondence and search calls the real design with the code's OWN defaults - "
    "designer(None) - so a changed Option(default=...) in design.py breaks the tie and the unit-mean-power predicate). Concrete layer (designPack: norm_N3D/SN3D/FuMa, sph_harm -> Y_virt/K_v, allrad, maxRE, mean power, gains "
    "all inside; only G_virt, the point directions and the maxRE table are parameters): designPack_perm, "
    "designPack_same_signals (N3D, SN3D, FuMa give identical loudspeaker signals) for packs with |degree| <= order - both "
    "under the explicit hypothesis `hnd` (for the norm vector of the pack's convention, NonDegenerate o G (yVirt ord deg az el) "
    "(n3dVec ord deg) nrm ord coef: no denominator of the computation is zero); nonDegenerate_pack derives hnd from P != 0, "
    "independent rows of Y_virt and a non-zero weighted entry of G·Yᵀ, and is instantiated in Lean on small packs only "
    "(2x2x2 toys and fo_nonDegenerate: the first-order pack (0,0),(1,-1),(1,0),(1,1) on the six octahedron directions with a "
    "2x6 G, conventions N3D/SN3D/FuMa, default options and maxRE + norm_mean_power) - that NonDegenerate holds on the REAL data "
    "(t-design, real G_virt, every pack of the quantifier) is evidenced by the finiteness search on every run, not proved. "
    "normVec / n3dVec / yVirt are Vector.ofFn / Mat.ofFn of a per-channel function, so order-independence of the ELEMENT-WISE "
    "evaluation of norm_* and sph_harm is a property of the MODEL (true by construction); the real norm_* on rotated/shuffled "
    "arrays is tied to it by _corr_norms (every rotation + random permutations of every channel list, exact equality across "
    "orders) and sph_harm by _corr_sph on shuffled channel arrays. "
    "norms_pos, norms_sq, tables_match_model / tables_normBy_sq (the code's norm values, orders 0..5, FuMa 0..3, squared = "
    "normBy squared), table_acn_inverse (ACN 0..35); spherical harmonics: alegendre_closed (orders 0..3), sphHarm_pair, "
    "unsold_sn3d / unsold_n3d (sum over m of Y_nm^2 = 1 resp. 2n+1 at every direction, orders 0..3), sphHarm_first_order "
    "(direction cosines), sphHarm_rescale, sphHarm_fuma. Renderer: no_lfe_feed (gain matrix) and render_lfe_zero / "
    "design_render_lfe_zero (every LFE output of the rendered frame is exactly 0 for every decoder and every input, any "
    "scalar type), renderFrame_eq_route. Tie: real design vs Lean design on captured G_virt/Y_virt and vs Lean designPack on "
    "G_virt + directions only (1e-9); hoa.norm_* on every rotation of every channel list; hoa.sph_harm per (n,m,direction) "
    "for orders 0..5 (1e-12); on every run blocks of encoded plane waves are rendered through the real HOARenderer "
    "(set_rendering_items + render) on ALL ten layouts incl. the two with two LFE channels (3+7+0, 9+10+3): every rendered "
    "frame vs renderFrame (route + matrix-vector product), and on the rendered audio LFE outputs identically 0, non-LFE "
    "outputs = designed decoder applied to the input, invariance under channel order and N3D/SN3D/FuMa. Outside: finiteness in binary64 (searched); orders 4, 5 of "
    "sph_harm and the Unsoeld identity there (correspondence only); the panner G_virt (C05), the t-design as a quadrature of the "
    "sphere and the maxRE table (parameters). |degree| > order is NOT rejected by any validator (parser, adm.validate, "
    "select_rendering_items) and reaches the decoder: norm_N3D = norm_SN3D = 0 there (norms_zero_of_gt, corresponded) and the "
    "decoder is all-NaN (degree_gt_order_degenerate: NonDegenerate fails) - recorded finding `degree-exceeds-order`, "
    "reproduced on every run (evidence note), reported as KNOWN-FINDING once listed.",
    note="to_acn/from_acn (table_acn_inverse, acn correspondence, the translated kernels of C11) are used by "
    "cmdline/ambix_to_bwf.py only: they cover no mechanism of this property (the decoder works on (order, degree) pairs). "
    "Trusted: Lean kernel, hand transliteration + correspondence harness (1e-9 design, 1e-12 sph_harm, 1e-14 norms), "
    "scipy lpmv/factorial modelled in closed form, panner / t-design / Legendre maxRE table as parameters. Excluded: "
    "maxRE_scale='order' on an order-0 pack (all-zero decoder, 0/0); packs with |degree| > order (recorded finding).",
    technique="Lean 4 algebraic proofs over ℝ on a scalar-polymorphic model (run on Float) + closed-form spherical harmonics "
    "+ regenerated tables + differential correspondence on captured intermediates and on the metadata-to-decoder path + "
    "direct-predicate search on the real decoder",
    design_ref="DESIGN.md section 4, C11",
)
