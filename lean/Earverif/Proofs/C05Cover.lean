/- C05, Stage 1 — a certificate-based covering theorem (pure geometry over ℝ).

   Cells `k` with an outward normal `n_k`, an offset `c_k > 0` and three vertices (or four coplanar ones, in cyclic
   order) on the plane `n_k · x = c_k`; for every edge of a cell some cell `j` of the list whose plane contains
   the two vertices of the edge and has the remaining vertex STRICTLY inside (`n_j · v < c_j`).  If the normals sum
   to zero and three of them are linearly independent, then every `p ≠ 0` lies in the vertex cone of some cell
   (`cover_of_cells`).

   Proof: some `n_k · p > 0` (else all are 0 and `p = 0`); take `k` maximising `(n_k · p) / c_k =: λ > 0`; then
   `x = p / λ` is on the plane of `k` and inside every plane `j`; in affine coordinates of the triangle,
   `D (n_j·x − c_j) = γ (n_j·v₃ − c_j)` for the neighbour across the edge opposite `v₃`, so `γ / D ≥ 0`; likewise for
   the other two.  A coplanar quad is cut along the diagonal `v₁v₃`; the sign of the coordinate across the diagonal
   decides which of the two triangles contains `x`. -/
import Earverif.Proofs.PointSourceReal

namespace Earverif.PointSource.Cover
open Earverif.PointSource

/-- `p` is a non-negative combination of `a b c` -/
def InCone3 (a b c p : Vec3 ℝ) : Prop :=
  ∃ s t u : ℝ, 0 ≤ s ∧ 0 ≤ t ∧ 0 ≤ u ∧ p = comb3 s t u (a, b, c)

theorem InCone3.smul {a b c p : Vec3 ℝ} (h : InCone3 a b c p) {l : ℝ} (hl : 0 ≤ l) : InCone3 a b c (smul3 l p) := by
  obtain ⟨s, t, u, hs, ht, hu, rfl⟩ := h
  refine ⟨l * s, l * t, l * u, mul_nonneg hl hs, mul_nonneg hl ht, mul_nonneg hl hu, ?_⟩
  obtain ⟨a0, a1, a2⟩ := a
  obtain ⟨b0, b1, b2⟩ := b
  obtain ⟨c0, c1, c2⟩ := c
  simp only [comb3, add3, smul3]
  refine Prod.ext ?_ (Prod.ext ?_ ?_) <;> simp only <;> ring

/-! ### Cramer -/

/-- `D · (m · x) = det(x,w₂,w₃) (m · w₁) + det(w₁,x,w₃) (m · w₂) + det(w₁,w₂,x) (m · w₃)` -/
theorem cramer_dot (w1 w2 w3 x m : Vec3 ℝ) :
    det3 (w1, w2, w3) * dot3 m x =
      det3 (x, w2, w3) * dot3 m w1 + det3 (w1, x, w3) * dot3 m w2 + det3 (w1, w2, x) * dot3 m w3 := by
  obtain ⟨a0, a1, a2⟩ := w1
  obtain ⟨b0, b1, b2⟩ := w2
  obtain ⟨c0, c1, c2⟩ := w3
  obtain ⟨x0, x1, x2⟩ := x
  obtain ⟨m0, m1, m2⟩ := m
  simp only [det3, dot3]; ring

/-- `x = (det(x,w₂,w₃) w₁ + det(w₁,x,w₃) w₂ + det(w₁,w₂,x) w₃) / D` -/
theorem cramer_vec (w1 w2 w3 x : Vec3 ℝ) (hD : det3 (w1, w2, w3) ≠ 0) :
    x = comb3 (det3 (x, w2, w3) / det3 (w1, w2, w3)) (det3 (w1, x, w3) / det3 (w1, w2, w3))
      (det3 (w1, w2, x) / det3 (w1, w2, w3)) (w1, w2, w3) := by
  obtain ⟨a0, a1, a2⟩ := w1
  obtain ⟨b0, b1, b2⟩ := w2
  obtain ⟨c0, c1, c2⟩ := w3
  obtain ⟨x0, x1, x2⟩ := x
  simp only [det3] at hD
  simp only [comb3, add3, smul3, det3]
  generalize hdef : (a0 * (b1 * c2 - b2 * c1) - a1 * (b0 * c2 - b2 * c0) + a2 * (b0 * c1 - b1 * c0)) = d at hD ⊢
  refine Prod.ext ?_ (Prod.ext ?_ ?_) <;> simp only <;> field_simp <;> rw [← hdef] <;> ring

/-- three independent functionals vanish on `p` only if `p = 0` -/
theorem eq_zero_of_dots (a b c p : Vec3 ℝ) (hD : det3 (a, b, c) ≠ 0) (ha : dot3 a p = 0) (hb : dot3 b p = 0)
    (hc : dot3 c p = 0) : p = (0, 0, 0) := by
  obtain ⟨a0, a1, a2⟩ := a
  obtain ⟨b0, b1, b2⟩ := b
  obtain ⟨c0, c1, c2⟩ := c
  obtain ⟨p0, p1, p2⟩ := p
  simp only [det3, dot3] at *
  have e0 : (a0 * (b1 * c2 - b2 * c1) - a1 * (b0 * c2 - b2 * c0) + a2 * (b0 * c1 - b1 * c0)) * p0 = 0 := by
    linear_combination (b1 * c2 - b2 * c1) * ha + (c1 * a2 - c2 * a1) * hb + (a1 * b2 - a2 * b1) * hc
  have e1 : (a0 * (b1 * c2 - b2 * c1) - a1 * (b0 * c2 - b2 * c0) + a2 * (b0 * c1 - b1 * c0)) * p1 = 0 := by
    linear_combination (b2 * c0 - b0 * c2) * ha + (c2 * a0 - c0 * a2) * hb + (a2 * b0 - a0 * b2) * hc
  have e2 : (a0 * (b1 * c2 - b2 * c1) - a1 * (b0 * c2 - b2 * c0) + a2 * (b0 * c1 - b1 * c0)) * p2 = 0 := by
    linear_combination (b0 * c1 - b1 * c0) * ha + (c0 * a1 - c1 * a0) * hb + (a0 * b1 - a1 * b0) * hc
  rw [(mul_eq_zero.mp e0).resolve_left hD, (mul_eq_zero.mp e1).resolve_left hD, (mul_eq_zero.mp e2).resolve_left hD]

theorem det3_rot (a b c : Vec3 ℝ) : det3 (b, c, a) = det3 (a, b, c) := by
  obtain ⟨a0, a1, a2⟩ := a
  obtain ⟨b0, b1, b2⟩ := b
  obtain ⟨c0, c1, c2⟩ := c
  simp only [det3]; ring

theorem det3_rot2 (a b c : Vec3 ℝ) : det3 (c, a, b) = det3 (a, b, c) := by
  obtain ⟨a0, a1, a2⟩ := a
  obtain ⟨b0, b1, b2⟩ := b
  obtain ⟨c0, c1, c2⟩ := c
  simp only [det3]; ring

theorem det3_swap23 (a b c : Vec3 ℝ) : det3 (a, c, b) = -det3 (a, b, c) := by
  obtain ⟨a0, a1, a2⟩ := a
  obtain ⟨b0, b1, b2⟩ := b
  obtain ⟨c0, c1, c2⟩ := c
  simp only [det3]; ring

/-! ### the edge argument -/

/-- `x` on the plane `(n, c)` of the triangle `w₁w₂w₃`, inside the plane `(nj, cj)` which contains `w₁`, `w₂` and has
    `w₃` strictly inside: the affine coordinate of `x` at `w₃` is non-negative. -/
theorem edge_coord_nonneg (w1 w2 w3 x n nj : Vec3 ℝ) (c cj : ℝ) (hc : c ≠ 0) (h1 : dot3 n w1 = c) (h2 : dot3 n w2 = c)
    (h3 : dot3 n w3 = c) (hx : dot3 n x = c) (j1 : dot3 nj w1 = cj) (j2 : dot3 nj w2 = cj) (j3 : dot3 nj w3 < cj)
    (jx : dot3 nj x ≤ cj) (hD : det3 (w1, w2, w3) ≠ 0) : 0 ≤ det3 (w1, w2, x) / det3 (w1, w2, w3) := by
  have k1 := cramer_dot w1 w2 w3 x n
  have k2 := cramer_dot w1 w2 w3 x nj
  rw [h1, h2, h3, hx] at k1
  rw [j1, j2] at k2
  set D := det3 (w1, w2, w3) with hDdef
  set a := det3 (x, w2, w3)
  set b := det3 (w1, x, w3)
  set g := det3 (w1, w2, x)
  have hsum : a + b + g = D := by
    have : (a + b + g - D) * c = 0 := by linear_combination -k1
    have := (mul_eq_zero.mp this).resolve_right hc
    linarith
  have hmu : dot3 nj w3 - cj < 0 := by linarith
  have key : g * (dot3 nj w3 - cj) = D * (dot3 nj x - cj) := by
    have : a + b = D - g := by linarith
    linear_combination -k2 - cj * this
  have : g / D = (dot3 nj x - cj) / (dot3 nj w3 - cj) := by
    rw [div_eq_div_iff hD hmu.ne]
    linear_combination key
  rw [this]
  exact div_nonneg_of_nonpos (by linarith) hmu.le

/-! ### cells -/

structure GCell where
  n : Vec3 ℝ
  c : ℝ
  /-- three vertices, or four coplanar ones in cyclic order -/
  vs : List (Vec3 ℝ)

/-- `p` is in the vertex cone of the cell (of one of the two triangles of a quad) -/
def GCell.Covers (k : GCell) (p : Vec3 ℝ) : Prop :=
  match k.vs with
  | [a, b, c] => InCone3 a b c p
  | [a, b, c, d] => InCone3 a b c p ∨ InCone3 a c d p
  | _ => False

/-- some cell's plane contains `w₁`, `w₂` and has `w₃` strictly inside -/
def EdgeOk (cells : List GCell) (w1 w2 w3 : Vec3 ℝ) : Prop :=
  ∃ j ∈ cells, dot3 j.n w1 = j.c ∧ dot3 j.n w2 = j.c ∧ dot3 j.n w3 < j.c

/-- the local side conditions of one cell -/
def GCell.LocalOk (cells : List GCell) (k : GCell) : Prop :=
  match k.vs with
  | [a, b, c] =>
    dot3 k.n a = k.c ∧ dot3 k.n b = k.c ∧ dot3 k.n c = k.c ∧ det3 (a, b, c) ≠ 0 ∧
    EdgeOk cells a b c ∧ EdgeOk cells b c a ∧ EdgeOk cells c a b
  | [a, b, c, d] =>
    dot3 k.n a = k.c ∧ dot3 k.n b = k.c ∧ dot3 k.n c = k.c ∧ dot3 k.n d = k.c ∧
    0 < det3 (a, b, c) * det3 (a, c, d) ∧
    EdgeOk cells a b c ∧ EdgeOk cells b c a ∧ EdgeOk cells c d a ∧ EdgeOk cells d a c
  | _ => False

theorem GCell.Covers.smul {k : GCell} {p : Vec3 ℝ} (h : k.Covers p) {l : ℝ} (hl : 0 ≤ l) : k.Covers (smul3 l p) := by
  unfold GCell.Covers at *
  split
  · rename_i a b c hv; rw [hv] at h; exact InCone3.smul h hl
  · rename_i a b c d hv; rw [hv] at h
    exact h.imp (fun h => InCone3.smul h hl) (fun h => InCone3.smul h hl)
  · rename_i h3 h4
    split at h
    · rename_i hv; exact (h3 _ _ _ hv).elim
    · rename_i hv; exact (h4 _ _ _ _ hv).elim
    · exact h

/-- a triangle: on its plane and inside all planes ⇒ in its vertex cone -/
theorem tri_local (cells : List GCell) (n : Vec3 ℝ) (c : ℝ) (hc : 0 < c) (a b d x : Vec3 ℝ)
    (ha : dot3 n a = c) (hb : dot3 n b = c) (hd : dot3 n d = c) (hD : det3 (a, b, d) ≠ 0)
    (e1 : EdgeOk cells a b d) (e2 : EdgeOk cells b d a) (e3 : EdgeOk cells d a b)
    (hx : dot3 n x = c) (hin : ∀ j ∈ cells, dot3 j.n x ≤ j.c) : InCone3 a b d x := by
  obtain ⟨j1, hj1, p1, p2, p3⟩ := e1
  obtain ⟨j2, hj2, q1, q2, q3⟩ := e2
  obtain ⟨j3, hj3, r1, r2, r3⟩ := e3
  have g1 := edge_coord_nonneg a b d x n j1.n c j1.c hc.ne' ha hb hd hx p1 p2 p3 (hin j1 hj1) hD
  have g2 := edge_coord_nonneg b d a x n j2.n c j2.c hc.ne' hb hd ha hx q1 q2 q3 (hin j2 hj2)
    (by rw [det3_rot]; exact hD)
  have g3 := edge_coord_nonneg d a b x n j3.n c j3.c hc.ne' hd ha hb hx r1 r2 r3 (hin j3 hj3)
    (by rw [det3_rot2]; exact hD)
  rw [det3_rot a b d, det3_rot x b d] at g2
  rw [det3_rot2 a b d, det3_rot2 a x d] at g3
  exact ⟨_, _, _, g2, g3, g1, cramer_vec a b d x hD⟩

/-- the local argument for both kinds of cell -/
theorem local_covers (cells : List GCell) (k : GCell) (hc : 0 < k.c) (hl : k.LocalOk cells) (x : Vec3 ℝ)
    (hx : dot3 k.n x = k.c) (hin : ∀ j ∈ cells, dot3 j.n x ≤ j.c) : k.Covers x := by
  unfold GCell.LocalOk at hl
  unfold GCell.Covers
  split at hl
  · rename_i a b d hv
    obtain ⟨ha, hb, hd, hD, e1, e2, e3⟩ := hl
    exact tri_local cells k.n k.c hc a b d x ha hb hd hD e1 e2 e3 hx hin
  · rename_i a b d e hv
    obtain ⟨ha, hb, hd, he, hDD, e1, e2, e3, e4⟩ := hl
    have hD : det3 (a, b, d) ≠ 0 := fun h => by rw [h, zero_mul] at hDD; exact lt_irrefl _ hDD
    have hD' : det3 (a, d, e) ≠ 0 := fun h => by rw [h, mul_zero] at hDD; exact lt_irrefl _ hDD
    obtain ⟨j1, hj1, p1, p2, p3⟩ := e1
    obtain ⟨j2, hj2, q1, q2, q3⟩ := e2
    obtain ⟨j3, hj3, r1, r2, r3⟩ := e3
    obtain ⟨j4, hj4, s1, s2, s3⟩ := e4
    -- triangle (a, b, d): coordinates at d (edge ab) and at a (edge bd)
    have g1 := edge_coord_nonneg a b d x k.n j1.n k.c j1.c hc.ne' ha hb hd hx p1 p2 p3 (hin j1 hj1) hD
    have g2 := edge_coord_nonneg b d a x k.n j2.n k.c j2.c hc.ne' hb hd ha hx q1 q2 q3 (hin j2 hj2)
      (by rw [det3_rot]; exact hD)
    rw [det3_rot a b d, det3_rot x b d] at g2
    -- triangle (a, d, e): coordinates at a (edge de) and at d (edge ea)
    have g3 := edge_coord_nonneg d e a x k.n j3.n k.c j3.c hc.ne' hd he ha hx r1 r2 r3 (hin j3 hj3)
      (by rw [det3_rot]; exact hD')
    rw [det3_rot a d e, det3_rot x d e] at g3
    have g4 := edge_coord_nonneg e a d x k.n j4.n k.c j4.c hc.ne' he ha hd hx s1 s2 s3 (hin j4 hj4)
      (by rw [det3_rot2]; exact hD')
    rw [det3_rot2 a d e, det3_rot2 a x e] at g4
    by_cases hb0 : 0 ≤ det3 (a, x, d) / det3 (a, b, d)
    · exact Or.inl ⟨_, _, _, g2, hb0, g1, cramer_vec a b d x hD⟩
    · refine Or.inr ⟨_, _, _, g3, g4, ?_, cramer_vec a d e x hD'⟩
      -- the coordinate at e in (a, d, e) is −(coordinate at b in (a, b, d)) · D / D'
      have hneg : det3 (a, x, d) / det3 (a, b, d) < 0 := not_le.mp hb0
      have hsw : det3 (a, d, x) = -det3 (a, x, d) := det3_swap23 a x d
      rw [hsw]
      have hq : 0 < det3 (a, b, d) / det3 (a, d, e) := by
        rcases (mul_pos_iff.mp hDD) with ⟨h1, h2⟩ | ⟨h1, h2⟩
        · exact div_pos h1 h2
        · exact div_pos_of_neg_of_neg h1 h2
      have : -det3 (a, x, d) / det3 (a, d, e) = -(det3 (a, x, d) / det3 (a, b, d)) * (det3 (a, b, d) / det3 (a, d, e)) := by
        field_simp
      rw [this]
      exact (mul_pos (by linarith) hq).le
  · exact hl

/-! ### the global argument -/

noncomputable def sumN : List GCell → Vec3 ℝ
  | [] => (0, 0, 0)
  | k :: ks => add3 k.n (sumN ks)

theorem dot3_sumN (p : Vec3 ℝ) : ∀ cells : List GCell, dot3 (sumN cells) p = (cells.map fun k => dot3 k.n p).sum
  | [] => by simp [sumN, dot3]
  | k :: ks => by
    have ih := dot3_sumN p ks
    obtain ⟨p0, p1, p2⟩ := p
    simp only [sumN, List.map_cons, List.sum_cons, ← ih]
    generalize sumN ks = s
    obtain ⟨s0, s1, s2⟩ := s
    obtain ⟨n0, n1, n2⟩ := k.n
    simp only [dot3, add3]; ring

theorem list_sum_nonpos : ∀ l : List ℝ, (∀ x ∈ l, x ≤ 0) → l.sum ≤ 0
  | [], _ => by simp
  | y :: ys, h => by
    have := list_sum_nonpos ys fun z hz => h z (by simp [hz])
    have := h y (by simp)
    simp only [List.sum_cons]; linarith

theorem all_zero_of_nonpos_sum : ∀ l : List ℝ, (∀ x ∈ l, x ≤ 0) → l.sum = 0 → ∀ x ∈ l, x = 0
  | [], _, _, x, hx => by simp at hx
  | y :: ys, h, hs, x, hx => by
    have hy : y ≤ 0 := h y (by simp)
    have hys : ys.sum ≤ 0 := list_sum_nonpos ys fun z hz => h z (by simp [hz])
    simp only [List.sum_cons] at hs
    rcases List.mem_cons.mp hx with rfl | hx
    · linarith
    · exact all_zero_of_nonpos_sum ys (fun z hz => h z (by simp [hz])) (by linarith) x hx

theorem exists_max {γ : Type} (f : γ → ℝ) : ∀ l : List γ, l ≠ [] → ∃ k ∈ l, ∀ j ∈ l, f j ≤ f k
  | [], h => absurd rfl h
  | [a], _ => ⟨a, by simp, by simp⟩
  | a :: b :: rest, _ => by
    obtain ⟨k, hk, hmax⟩ := exists_max f (b :: rest) (by simp)
    by_cases h : f k ≤ f a
    · refine ⟨a, by simp, ?_⟩
      intro j hj
      rcases List.mem_cons.mp hj with rfl | hj
      · exact le_refl _
      · exact le_trans (hmax j hj) h
    · refine ⟨k, List.mem_cons_of_mem _ hk, ?_⟩
      intro j hj
      rcases List.mem_cons.mp hj with rfl | hj
      · exact (not_le.mp h).le
      · exact hmax j hj

/-- some outward normal has a positive component along `p ≠ 0` -/
theorem exists_pos_normal (cells : List GCell) (hsum : sumN cells = (0, 0, 0))
    (hspan : ∃ a ∈ cells, ∃ b ∈ cells, ∃ c ∈ cells, det3 (a.n, b.n, c.n) ≠ 0) (p : Vec3 ℝ) (hp : p ≠ (0, 0, 0)) :
    ∃ k ∈ cells, 0 < dot3 k.n p := by
  by_contra hcon
  simp only [not_exists, not_and, not_lt] at hcon
  have hs := dot3_sumN p cells
  rw [hsum] at hs
  have h0 : dot3 ((0 : ℝ), (0 : ℝ), (0 : ℝ)) p = 0 := by simp [dot3]
  rw [h0] at hs
  have hall := all_zero_of_nonpos_sum _ (by
    intro x hx
    obtain ⟨k, hk, rfl⟩ := List.mem_map.mp hx
    exact hcon k hk) hs.symm
  obtain ⟨a, ha, b, hb, c, hc, hD⟩ := hspan
  exact hp (eq_zero_of_dots a.n b.n c.n p hD (hall _ (List.mem_map.mpr ⟨a, ha, rfl⟩))
    (hall _ (List.mem_map.mpr ⟨b, hb, rfl⟩)) (hall _ (List.mem_map.mpr ⟨c, hc, rfl⟩)))

theorem dot3_smul (n p : Vec3 ℝ) (l : ℝ) : dot3 n (smul3 l p) = l * dot3 n p := by
  obtain ⟨n0, n1, n2⟩ := n
  obtain ⟨p0, p1, p2⟩ := p
  simp only [dot3, smul3]; ring

theorem smul3_smul3 (p : Vec3 ℝ) (l m : ℝ) (h : l * m = 1) : smul3 l (smul3 m p) = p := by
  obtain ⟨p0, p1, p2⟩ := p
  simp only [smul3]
  refine Prod.ext ?_ (Prod.ext ?_ ?_) <;> simp only <;> rw [← mul_assoc, h, one_mul]

/-- **Stage 1: the covering theorem.**  Cells with positive offsets, satisfying the local (edge) conditions, whose
    normals sum to zero and span the space: every non-zero vector lies in the vertex cone of some cell. -/
theorem cover_of_cells (cells : List GCell) (hpos : ∀ k ∈ cells, 0 < k.c) (hlocal : ∀ k ∈ cells, k.LocalOk cells)
    (hsum : sumN cells = (0, 0, 0))
    (hspan : ∃ a ∈ cells, ∃ b ∈ cells, ∃ c ∈ cells, det3 (a.n, b.n, c.n) ≠ 0) (p : Vec3 ℝ) (hp : p ≠ (0, 0, 0)) :
    ∃ k ∈ cells, k.Covers p := by
  obtain ⟨k0, hk0, hk0pos⟩ := exists_pos_normal cells hsum hspan p hp
  have hne : cells ≠ [] := List.ne_nil_of_mem hk0
  obtain ⟨k, hk, hmax⟩ := exists_max (fun j : GCell => dot3 j.n p / j.c) cells hne
  set lam := dot3 k.n p / k.c with hlam
  have hlpos : 0 < lam := lt_of_lt_of_le (div_pos hk0pos (hpos k0 hk0)) (hmax k0 hk0)
  refine ⟨k, hk, ?_⟩
  have hx : dot3 k.n (smul3 (1 / lam) p) = k.c := by
    rw [dot3_smul, hlam]
    have := (hpos k hk).ne'
    have hne' : dot3 k.n p ≠ 0 := by
      intro h0; rw [hlam, h0, zero_div] at hlpos; exact lt_irrefl _ hlpos
    field_simp
  have hin : ∀ j ∈ cells, dot3 j.n (smul3 (1 / lam) p) ≤ j.c := by
    intro j hj
    rw [dot3_smul]
    have h1 := hmax j hj
    have hjc := hpos j hj
    have : dot3 j.n p ≤ lam * j.c := by
      have := (div_le_iff₀ hjc).mp h1
      exact this
    rw [one_div, inv_mul_le_iff₀ hlpos]
    exact this
  have hcov := local_covers cells k (hpos k hk) (hlocal k hk) _ hx hin
  have := hcov.smul hlpos.le
  rwa [smul3_smul3 p lam (1 / lam) (by field_simp)] at this

/-! ### non-vacuity: the octahedron with vertices ±e₁, ±e₂, ±e₃ satisfies every hypothesis -/

section example_octahedron

private def oct (s1 s2 s3 : ℝ) : GCell := ⟨(s1, s2, s3), 1, [(s1, 0, 0), (0, s2, 0), (0, 0, s3)]⟩

private def octCells : List GCell :=
  [oct 1 1 1, oct 1 1 (-1), oct 1 (-1) 1, oct 1 (-1) (-1), oct (-1) 1 1, oct (-1) 1 (-1), oct (-1) (-1) 1, oct (-1) (-1) (-1)]

example : (∀ k ∈ octCells, 0 < k.c) ∧ (∀ k ∈ octCells, k.LocalOk octCells) ∧ sumN octCells = (0, 0, 0) ∧
    ∃ a ∈ octCells, ∃ b ∈ octCells, ∃ c ∈ octCells, det3 (a.n, b.n, c.n) ≠ 0 := by
  refine ⟨?_, ?_, ?_, ?_⟩
  · intro k hk
    simp only [octCells, oct, List.mem_cons, List.mem_nil_iff, or_false] at hk
    rcases hk with rfl | rfl | rfl | rfl | rfl | rfl | rfl | rfl <;> norm_num
  · intro k hk
    simp only [octCells, List.mem_cons, List.mem_nil_iff, or_false] at hk
    -- the neighbour across an edge flips the sign of the coordinate of the opposite vertex
    rcases hk with rfl | rfl | rfl | rfl | rfl | rfl | rfl | rfl <;>
      (simp only [GCell.LocalOk, oct, EdgeOk, octCells, List.mem_cons, List.mem_nil_iff, or_false, exists_eq_or_imp,
        exists_eq_left, dot3, det3]
       norm_num)
  · simp only [octCells, oct, sumN, add3]; norm_num
  · refine ⟨oct 1 1 1, by simp [octCells], oct 1 1 (-1), by simp [octCells], oct 1 (-1) 1, by simp [octCells], ?_⟩
    simp only [oct, det3]; norm_num

end example_octahedron

end Earverif.PointSource.Cover
