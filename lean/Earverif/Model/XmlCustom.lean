/-
Exact models of three of the hand-written handler pairs of `ear.fileio.adm.xml` (the ones that are
parameters in `Model/XmlCodec.lean`), over the same abstract XML tree.  Core Lean only.

* `handle_frequency` / `frequency_to_xml`                     (audioChannelFormat `frequency`)
* `handle_jump_position` / `jump_position_to_xml`             (Objects `jumpPosition`)
* `parse_speaker_position` / `speaker_position_to_xml`        (DirectSpeakers `position`, incl. bounds and
                                                               screenEdgeLock)

Floats are on the printable grid: an `Int` `k` stands for `k / 100000`, printed by `dumpsNum`
(`"{:.5f}".format`) and read by `loadsNum` (`float()` on exactly that spelling; other spellings that
Python's `float()` / `Fraction()` accept are outside the model).  `interpolationLength` is a `Fraction`
printed by `"{:07.5f}".format(float(t))` — for `t ≥ 0` on the grid the same text as `dumpsNum`.

`parse_speaker_position` visits the `position` children namespace by namespace (`xpath` helper); the model
takes the `position` elements in the order they are visited (document order when they share a namespace,
as in everything `to_xml` writes).
-/
import Earverif.Model.XmlLeaf

namespace Earverif.XmlCustom
open Earverif.XmlCodec

def attr? (e : Xml) (k : String) : Option String := (e.attrs.find? (·.1 == k)).map (·.2)

def elem (name : String) (attrs : List (String × String)) (text : String) : Xml :=
  .node (outName name) attrs [] text

/-! ### frequency -/

structure Frequency where
  lowPass : Option Int
  highPass : Option Int
  deriving DecidableEq, Repr

/-- `handle_frequency(kwargs, el)` on `kwargs.setdefault("frequency", Frequency())` -/
def handleFrequency (f : Frequency) (e : Xml) : Option Frequency :=
  match attr? e "typeDefinition" with
  | none => none                                   -- KeyError
  | some ty =>
    match loadsNum e.text with
    | none => none                                 -- float() raises
    | some v =>
      if ty = "lowPass" then (if f.lowPass.isSome then none else some { f with lowPass := some v })
      else if ty = "highPass" then (if f.highPass.isSome then none else some { f with highPass := some v })
      else none

/-- all `frequency` children, starting from `Frequency()` -/
def parseFrequency (es : List Xml) : Option Frequency :=
  es.foldlM handleFrequency ⟨none, none⟩

/-- `frequency_to_xml` -/
def frequencyToXml (f : Frequency) : List Xml :=
  (match f.lowPass with
    | some v => [elem "frequency" [("typeDefinition", "lowPass")] (dumpsNum v)]
    | none => []) ++
  (match f.highPass with
    | some v => [elem "frequency" [("typeDefinition", "highPass")] (dumpsNum v)]
    | none => [])

/-! ### jumpPosition -/

structure JumpPosition where
  flag : Bool
  /-- `interpolationLength` in units of 1e-5 s -/
  interpolationLength : Option Int
  deriving DecidableEq, Repr

/-- `handle_jump_position`: the value stored in `kwargs["jumpPosition"]` (a later element replaces an
earlier one) -/
def handleJumpPosition (e : Xml) : Option JumpPosition :=
  match boolCodec.loads e.text with
  | some (.bool b) =>
    match attr? e "interpolationLength" with
    | none => some ⟨b, none⟩
    | some s => (loadsNum s).map fun k => ⟨b, some k⟩
  | _ => none

/-- all `jumpPosition` children; absent: the constructor default `JumpPosition()` -/
def parseJumpPosition (es : List Xml) : Option JumpPosition :=
  es.foldlM (fun _ e => handleJumpPosition e) ⟨false, none⟩

/-- `jump_position_to_xml`: nothing at all unless the flag is set -/
def jumpPositionToXml (j : JumpPosition) : List Xml :=
  if j.flag then
    [elem "jumpPosition"
      (match j.interpolationLength with | some k => [("interpolationLength", dumpsNum k)] | none => []) "1"]
  else []

/-! ### DirectSpeakers position -/

structure Bound where
  value : Int
  min : Option Int
  max : Option Int
  deriving DecidableEq, Repr

structure ScreenEdgeLock where
  horizontal : Option String
  vertical : Option String
  deriving DecidableEq, Repr

inductive SpeakerPosition where
  | polar (azimuth elevation distance : Bound) (sel : ScreenEdgeLock)
  | cartesian (x y z : Bound) (sel : ScreenEdgeLock)
  deriving DecidableEq, Repr

/-- a small insertion-ordered dictionary -/
abbrev Dict (α : Type) := List (String × α)

def Dict.get? {α} (d : Dict α) (k : String) : Option α := (d.find? (·.1 == k)).map (·.2)

def Dict.set {α} (d : Dict α) (k : String) (v : α) : Dict α :=
  if d.any (·.1 == k) then d.map fun e => if e.1 == k then (k, v) else e else d ++ [(k, v)]

structure PosState where
  /-- `position[coordinate][bound]` -/
  position : Dict (Dict Int)
  sel : ScreenEdgeLock

/-- one iteration of the loop in `parse_speaker_position` -/
def speakerStep (st : PosState) (e : Xml) : Option PosState :=
  match attr? e "coordinate" with
  | none => none                                                -- KeyError
  | some coordinate =>
    let bound := (attr? e "bound").getD "value"
    match loadsNum e.text with
    | none => none
    | some v =>
      let inner := (st.position.get? coordinate).getD []
      let position := st.position.set coordinate (inner.set bound v)
      match attr? e "screenEdgeLock" with
      | none => some ⟨position, st.sel⟩
      | some s =>
        if bound ≠ "value" then none
        else if (coordinate = "azimuth" ∨ coordinate = "X") ∧ (s = "left" ∨ s = "right") then
          some ⟨position, { st.sel with horizontal := some s }⟩
        else if (coordinate = "elevation" ∨ coordinate = "Z") ∧ (s = "top" ∨ s = "bottom") then
          some ⟨position, { st.sel with vertical := some s }⟩
        else none

/-- `BoundCoordinate(**d)`: `value` is required, `min` / `max` optional, any other key is a `TypeError` -/
def boundOf (d : Dict Int) : Option Bound :=
  if d.all (fun e => e.1 == "value" || e.1 == "min" || e.1 == "max") then
    (d.get? "value").map fun v => ⟨v, d.get? "min", d.get? "max"⟩
  else none

def sameKeys {α} (d : Dict α) (ks : List String) : Bool :=
  d.all (fun e => ks.contains e.1) && ks.all (fun k => d.any (·.1 == k))

/-- the end of `parse_speaker_position` -/
def speakerFinish (st : PosState) : Option SpeakerPosition :=
  let p := st.position
  if sameKeys p ["azimuth", "elevation"] || sameKeys p ["azimuth", "elevation", "distance"] then do
    let az ← boundOf ((p.get? "azimuth").getD [])
    let el ← boundOf ((p.get? "elevation").getD [])
    let di ← match p.get? "distance" with
      | some d => boundOf d
      | none => some ⟨100000, none, none⟩
    some (.polar az el di st.sel)
  else if sameKeys p ["X", "Y"] || sameKeys p ["X", "Y", "Z"] then do
    let x ← boundOf ((p.get? "X").getD [])
    let y ← boundOf ((p.get? "Y").getD [])
    let z ← match p.get? "Z" with
      | some d => boundOf d
      | none => some ⟨0, none, none⟩
    some (.cartesian x y z st.sel)
  else none

/-- `parse_speaker_position` on the `position` elements in visiting order -/
def parseSpeakerPosition (es : List Xml) : Option SpeakerPosition :=
  (es.foldlM speakerStep ⟨[], ⟨none, none⟩⟩).bind speakerFinish

def lockAttrs : Option String → List (String × String)
  | some s => [("screenEdgeLock", s)]
  | none => []

/-- `dump_bound` in `speaker_position_to_xml` -/
def dumpBound (coordinate : String) (b : Bound) (sel : Option String) : List Xml :=
  [elem "position" (("coordinate", coordinate) :: lockAttrs sel) (dumpsNum b.value)] ++
  (match b.max with
    | some v => [elem "position" [("coordinate", coordinate), ("bound", "max")] (dumpsNum v)]
    | none => []) ++
  (match b.min with
    | some v => [elem "position" [("coordinate", coordinate), ("bound", "min")] (dumpsNum v)]
    | none => [])

/-- `speaker_position_to_xml` -/
def speakerPositionToXml : SpeakerPosition → List Xml
  | .polar az el di sel =>
    dumpBound "azimuth" az sel.horizontal ++ dumpBound "elevation" el sel.vertical ++
    (if di ≠ ⟨100000, none, none⟩ then dumpBound "distance" di none else [])
  | .cartesian x y z sel =>
    dumpBound "X" x sel.horizontal ++ dumpBound "Y" y none ++ dumpBound "Z" z sel.vertical

end Earverif.XmlCustom
