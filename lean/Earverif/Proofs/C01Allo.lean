/- C01: the allocentric point-source panner (`AllocentricPanner.handle`) has unit power on every
   well-formed speaker grid and every position (cos² + sin² = 1 per axis). -/
import Earverif.Proofs.C01Sub

namespace Earverif.GainCalc

/-! ### assignments into a vector: value semantics -/

/-- value of slot `j` after the writes `ws`, starting from `d` -/
noncomputable def val : List (Nat × ℝ) → Nat → ℝ → ℝ
  | [], _, d => d
  | w :: ws, j, d => val ws j (if w.1 = j then w.2 else d)

/-- the written indices -/
def idxs (ws : List (Nat × ℝ)) : List Nat := ws.map (·.1)

theorem val_append : ∀ (A B : List (Nat × ℝ)) (j : Nat) (d : ℝ), val (A ++ B) j d = val B j (val A j d)
  | [], _, _, _ => rfl
  | w :: A, B, j, d => by simp only [List.cons_append, val]; exact val_append A B j _

theorem val_not_mem : ∀ (B : List (Nat × ℝ)) (j : Nat) (d : ℝ), j ∉ idxs B → val B j d = d
  | [], _, _, _ => rfl
  | w :: B, j, d, h => by
    simp only [idxs, List.map_cons, List.mem_cons, not_or] at h
    have hne : ¬ w.1 = j := fun e => h.1 e.symm
    simp only [val, hne, if_false]
    exact val_not_mem B j d h.2

theorem val_mem_indep : ∀ (B : List (Nat × ℝ)) (j : Nat) (d d' : ℝ), j ∈ idxs B → val B j d = val B j d'
  | [], _, _, _, h => by simp [idxs] at h
  | w :: B, j, d, d', h => by
    simp only [val]
    by_cases hw : w.1 = j
    · simp [hw]
    · simp only [hw, if_false]
      simp only [idxs, List.map_cons, List.mem_cons] at h
      rcases h with h | h
      · exact absurd h.symm hw
      · exact val_mem_indep B j d d' h

theorem val_nonneg : ∀ (B : List (Nat × ℝ)) (j : Nat) (d : ℝ), 0 ≤ d → (∀ w ∈ B, 0 ≤ w.2) → 0 ≤ val B j d
  | [], _, _, hd, _ => hd
  | w :: B, j, d, hd, h => by
    simp only [val]
    refine val_nonneg B j _ ?_ (fun w' hw' => h w' (by simp [hw']))
    split
    · exact h w (by simp)
    · exact hd

theorem length_foldl_set : ∀ (ws : List (Nat × ℝ)) (v : List ℝ),
    (ws.foldl (fun ret (w : Nat × ℝ) => ret.set w.1 w.2) v).length = v.length
  | [], _ => rfl
  | w :: ws, v => by simp only [List.foldl_cons]; rw [length_foldl_set ws]; simp

theorem getElem_foldl_set : ∀ (ws : List (Nat × ℝ)) (v : List ℝ) (j : Nat) (hj : j < v.length),
    (ws.foldl (fun ret (w : Nat × ℝ) => ret.set w.1 w.2) v)[j]? = some (val ws j v[j])
  | [], v, j, hj => by simp [val]
  | w :: ws, v, j, hj => by
    simp only [List.foldl_cons, val]
    rw [getElem_foldl_set ws (v.set w.1 w.2) j (by simpa using hj)]
    simp only [List.getElem_set]

theorem applyWrites_eq (n : Nat) (ws : List (Nat × ℝ)) :
    applyWrites n ws = (List.range n).map fun j => val ws j 0 := by
  apply List.ext_getElem?
  intro j
  by_cases hj : j < n
  · have hz : (zeros n : List ℝ)[j]'(by simpa using hj) = 0 := by simp [zeros]
    simp only [applyWrites]
    rw [getElem_foldl_set ws (zeros n) j (by simpa using hj), hz]
    simp [hj]
  · have h1 : (applyWrites n ws).length ≤ j := by
      simp only [applyWrites, length_foldl_set, length_zeros]; omega
    rw [List.getElem?_eq_none h1, List.getElem?_eq_none (by simp; omega)]

/-- power of the vector the writes produce -/
noncomputable def energy (n : Nat) (ws : List (Nat × ℝ)) : ℝ := ∑ j ∈ Finset.range n, val ws j 0 * val ws j 0

theorem sumSq_applyWrites (n : Nat) (ws : List (Nat × ℝ)) : sumSq (applyWrites n ws) = energy n ws := by
  rw [applyWrites_eq, sumSq_eq_sum_sq, sq, List.map_map, sum_eq_listSum, listSum_range_map]
  rfl

theorem applyWrites_nonneg (n : Nat) (ws : List (Nat × ℝ)) (h : ∀ w ∈ ws, 0 ≤ w.2) : Nonneg (applyWrites n ws) := by
  rw [applyWrites_eq]
  intro x hx
  simp only [List.mem_map] at hx
  obtain ⟨j, _, rfl⟩ := hx
  exact val_nonneg ws j 0 le_rfl h

theorem energy_single (n i : Nat) (x : ℝ) (hi : i < n) : energy n [(i, x)] = x * x := by
  simp only [energy, val]
  rw [Finset.sum_eq_single i]
  · simp
  · intro j _ hne
    have : ¬ i = j := fun e => hne e.symm
    simp [this]
  · intro h; exact absurd (Finset.mem_range.mpr hi) h

theorem energy_double (n : Nat) (B : List (Nat × ℝ)) : energy n (B ++ B) = energy n B := by
  simp only [energy]
  refine Finset.sum_congr rfl ?_
  intro j _
  rw [val_append]
  by_cases h : j ∈ idxs B
  · rw [val_mem_indep B j _ 0 h]
  · rw [val_not_mem B j _ h]

theorem energy_disjoint (n : Nat) (A B : List (Nat × ℝ)) (h : ∀ j, j ∈ idxs A → j ∉ idxs B) :
    energy n (A ++ B) = energy n A + energy n B := by
  simp only [energy, ← Finset.sum_add_distrib]
  refine Finset.sum_congr rfl ?_
  intro j _
  rw [val_append]
  by_cases hB : j ∈ idxs B
  · have hA : j ∉ idxs A := fun hA => h j hA hB
    rw [val_mem_indep B j _ 0 hB, val_not_mem A j 0 hA]; ring
  · rw [val_not_mem B j _ hB, val_not_mem B j 0 hB]; ring

/-- one axis of the balance pan: the two sub-blocks are either the same block written twice with gains (1, 1),
    or write disjoint slots with gains whose squares sum to one -/
theorem axis_energy (n : Nat) (A0 A1 : List (Nat × ℝ)) (c g0 g1 : ℝ)
    (h : (A0 = A1 ∧ g0 = 1 ∧ g1 = 1) ∨ ((∀ j, j ∈ idxs A0 → j ∉ idxs A1) ∧ g0 ^ 2 + g1 ^ 2 = 1))
    (e0 : energy n A0 = (c * g0) * (c * g0)) (e1 : energy n A1 = (c * g1) * (c * g1)) :
    energy n (A0 ++ A1) = c * c := by
  rcases h with ⟨rfl, rfl, rfl⟩ | ⟨hd, hg⟩
  · rw [energy_double, e0]; ring
  · rw [energy_disjoint n A0 A1 hd, e0, e1]
    have : c * g0 * (c * g0) + c * g1 * (c * g1) = c * c * (g0 ^ 2 + g1 ^ 2) := by ring
    rw [this, hg, mul_one]

/-! ### well-formed speaker grids -/

/-- channel indices of the leaves of a row / plane -/
def rowIdx (row : List (Leaf ℝ)) : List Nat := row.map (·.idx)
def planeIdx (pl : List (List (Leaf ℝ))) : List Nat := pl.flatten.map (·.idx)

/-- a row of `_speaker_tree`: distinct x, distinct channel indices below `n` -/
structure RowWF (n : Nat) (row : List (Leaf ℝ)) : Prop where
  xs : (row.map (·.x)).Nodup
  ids : (rowIdx row).Nodup
  lt : ∀ l ∈ row, l.idx < n

/-- a plane: its rows are well-formed, have distinct y keys and share no channel -/
structure PlaneWF (n : Nat) (pl : List (List (Leaf ℝ))) : Prop where
  rows : ∀ row ∈ pl, RowWF n row
  ys : ∀ yc, pl.mapM rowY = some yc → yc.Nodup
  disj : ∀ (i j : Nat) (r0 r1 : List (Leaf ℝ)), i ≠ j → pl[i]? = some r0 → pl[j]? = some r1 →
    ∀ a ∈ rowIdx r0, a ∉ rowIdx r1

/-- the tree: planes well-formed, distinct z keys, no channel in two planes -/
structure TreeWF (n : Nat) (st : Tree ℝ) : Prop where
  planes : ∀ pl ∈ st, PlaneWF n pl
  zs : ∀ zc, st.mapM planeZ = some zc → zc.Nodup
  disj : ∀ (i j : Nat) (p0 p1 : List (List (Leaf ℝ))), i ≠ j → st[i]? = some p0 → st[j]? = some p1 →
    ∀ a ∈ planeIdx p0, a ∉ planeIdx p1

theorem nodup_getElem?_ne {β : Type} {l : List β} (h : l.Nodup) {i j : Nat} {a b : β}
    (hi : l[i]? = some a) (hj : l[j]? = some b) (hij : i ≠ j) : a ≠ b := by
  intro e
  subst e
  have hlt : i < l.length := by
    by_contra hn
    rw [List.getElem?_eq_none (Nat.le_of_not_lt hn)] at hi
    exact absurd hi (by simp)
  exact hij ((List.getElem?_inj hlt h).mp (hi.trans hj.symm))

theorem mem_of_getElem? {β : Type} {l : List β} {i : Nat} {a : β} (h : l[i]? = some a) : a ∈ l :=
  List.mem_of_getElem? h

/-! ### the three loop levels -/

theorem rowWrites_spec (n : Nat) (row : List (Leaf ℝ)) (hw : RowWF n row) (px c : ℝ) (hc : 0 ≤ c)
    (ws : List (Nat × ℝ)) (h : rowWrites row px c = some ws) :
    energy n ws = c * c ∧ (∀ j ∈ idxs ws, j ∈ rowIdx row) ∧ (∀ w ∈ ws, 0 ≤ w.2) := by
  simp only [rowWrites] at h
  split at h
  · rename_i a b l0 l1 ha hb hl0 hl1
    simp only [Option.some.injEq] at h
    subst h
    have hbp := balancePan_unit a b px
    simp only at hbp
    obtain ⟨hg0, hg1, hne, heq⟩ := hbp
    have hm0 := mem_of_getElem? hl0
    have hm1 := mem_of_getElem? hl1
    refine ⟨?_, ?_, ?_⟩
    · have := axis_energy n [(l0.idx, c * (singleBalancePan a b px).1)] [(l1.idx, c * (singleBalancePan a b px).2)] c
        (singleBalancePan a b px).1 (singleBalancePan a b px).2 ?_
        (energy_single n _ _ (hw.lt l0 hm0)) (energy_single n _ _ (hw.lt l1 hm1))
      · simpa using this
      · by_cases hij : (findPair (row.map (·.x)) px).1 = (findPair (row.map (·.x)) px).2
        · left
          rw [hij] at ha hl0
          have hab : a = b := by rw [ha] at hb; exact Option.some.inj hb
          have hll : l0 = l1 := by rw [hl0] at hl1; exact Option.some.inj hl1
          have := heq hab
          rw [this, hll]
          simp
        · right
          have hab : a ≠ b := nodup_getElem?_ne hw.xs ha hb hij
          have hi0 : (rowIdx row)[(findPair (row.map (·.x)) px).1]? = some l0.idx := by simp [rowIdx, hl0]
          have hi1 : (rowIdx row)[(findPair (row.map (·.x)) px).2]? = some l1.idx := by simp [rowIdx, hl1]
          have hidx : l0.idx ≠ l1.idx := nodup_getElem?_ne hw.ids hi0 hi1 hij
          refine ⟨?_, hne hab⟩
          intro j hj
          simp only [idxs, List.map_cons, List.map_nil, List.mem_singleton] at hj ⊢
          rw [hj]; exact hidx
    · intro j hj
      simp only [idxs, List.map_cons, List.map_nil, List.mem_cons, List.not_mem_nil, or_false] at hj
      rcases hj with rfl | rfl
      · exact List.mem_map.mpr ⟨l0, hm0, rfl⟩
      · exact List.mem_map.mpr ⟨l1, hm1, rfl⟩
    · intro w hw'
      simp only [List.mem_cons, List.not_mem_nil, or_false] at hw'
      rcases hw' with rfl | rfl
      · exact mul_nonneg hc hg0
      · exact mul_nonneg hc hg1
  · exact absurd h (by simp)

theorem rowIdx_sub_planeIdx {pl : List (List (Leaf ℝ))} {row : List (Leaf ℝ)} (h : row ∈ pl) :
    ∀ j ∈ rowIdx row, j ∈ planeIdx pl := by
  intro j hj
  simp only [rowIdx, List.mem_map] at hj
  obtain ⟨l, hl, rfl⟩ := hj
  exact List.mem_map.mpr ⟨l, List.mem_flatten.mpr ⟨row, h, hl⟩, rfl⟩

theorem planeWrites_spec (n : Nat) (pl : List (List (Leaf ℝ))) (hw : PlaneWF n pl) (px py c : ℝ) (hc : 0 ≤ c)
    (ws : List (Nat × ℝ)) (h : planeWrites pl px py c = some ws) :
    energy n ws = c * c ∧ (∀ j ∈ idxs ws, j ∈ planeIdx pl) ∧ (∀ w ∈ ws, 0 ≤ w.2) := by
  simp only [planeWrites] at h
  split at h
  · exact absurd h (by simp)
  · rename_i yc hyc
    split at h
    · rename_i a b r0 r1 ha hb hr0 hr1
      split at h
      · rename_i w0 w1 hw0 hw1
        simp only [Option.some.injEq] at h
        subst h
        have hbp := balancePan_unit a b py
        simp only at hbp
        obtain ⟨hg0, hg1, hne, heq⟩ := hbp
        have hm0 := mem_of_getElem? hr0
        have hm1 := mem_of_getElem? hr1
        obtain ⟨e0, s0, n0⟩ := rowWrites_spec n r0 (hw.rows r0 hm0) px _ (mul_nonneg hc hg0) w0 hw0
        obtain ⟨e1, s1, n1⟩ := rowWrites_spec n r1 (hw.rows r1 hm1) px _ (mul_nonneg hc hg1) w1 hw1
        refine ⟨?_, ?_, ?_⟩
        · refine axis_energy n w0 w1 c _ _ ?_ e0 e1
          by_cases hij : (findPair yc py).1 = (findPair yc py).2
          · left
            rw [hij] at ha hr0
            have hab : a = b := by rw [ha] at hb; exact Option.some.inj hb
            have hrr : r0 = r1 := by rw [hr0] at hr1; exact Option.some.inj hr1
            have hg := heq hab
            rw [hg, hrr] at hw0
            rw [hg] at hw1
            simp only at hw0 hw1
            refine ⟨?_, by rw [hg], by rw [hg]⟩
            rw [hw0] at hw1; exact Option.some.inj hw1
          · right
            have hab : a ≠ b := nodup_getElem?_ne (hw.ys yc hyc) ha hb hij
            refine ⟨?_, hne hab⟩
            intro j hj hj'
            exact hw.disj _ _ r0 r1 hij hr0 hr1 j (s0 j hj) (s1 j hj')
        · intro j hj
          simp only [idxs, List.map_append, List.mem_append] at hj
          rcases hj with hj | hj
          · exact rowIdx_sub_planeIdx hm0 j (s0 j hj)
          · exact rowIdx_sub_planeIdx hm1 j (s1 j hj)
        · intro w hw'
          simp only [List.mem_append] at hw'
          rcases hw' with hw' | hw'
          · exact n0 w hw'
          · exact n1 w hw'
      · exact absurd h (by simp)
    · exact absurd h (by simp)

theorem alloWrites_spec (n : Nat) (st : Tree ℝ) (hw : TreeWF n st) (px py pz : ℝ)
    (ws : List (Nat × ℝ)) (h : alloWrites st px py pz = some ws) :
    energy n ws = 1 ∧ (∀ w ∈ ws, 0 ≤ w.2) := by
  simp only [alloWrites] at h
  split at h
  · exact absurd h (by simp)
  · rename_i zc hzc
    split at h
    · rename_i a b p0 p1 ha hb hp0 hp1
      split at h
      · rename_i w0 w1 hw0 hw1
        simp only [Option.some.injEq] at h
        subst h
        have hbp := balancePan_unit a b pz
        simp only at hbp
        obtain ⟨hg0, hg1, hne, heq⟩ := hbp
        have hm0 := mem_of_getElem? hp0
        have hm1 := mem_of_getElem? hp1
        obtain ⟨e0, s0, n0⟩ := planeWrites_spec n p0 (hw.planes p0 hm0) px py _ hg0 w0 hw0
        obtain ⟨e1, s1, n1⟩ := planeWrites_spec n p1 (hw.planes p1 hm1) px py _ hg1 w1 hw1
        refine ⟨?_, ?_⟩
        · have := axis_energy n w0 w1 1 _ _ ?_ (by rw [e0]; ring) (by rw [e1]; ring)
          · simpa using this
          by_cases hij : (findPair zc pz).1 = (findPair zc pz).2
          · left
            rw [hij] at ha hp0
            have hab : a = b := by rw [ha] at hb; exact Option.some.inj hb
            have hpp : p0 = p1 := by rw [hp0] at hp1; exact Option.some.inj hp1
            have hg := heq hab
            rw [hg, hpp] at hw0
            rw [hg] at hw1
            simp only at hw0 hw1
            refine ⟨?_, by rw [hg], by rw [hg]⟩
            rw [hw0] at hw1; exact Option.some.inj hw1
          · right
            have hab : a ≠ b := nodup_getElem?_ne (hw.zs zc hzc) ha hb hij
            refine ⟨?_, hne hab⟩
            intro j hj hj'
            exact hw.disj _ _ p0 p1 hij hp0 hp1 j (s0 j hj) (s1 j hj')
        · intro w hw'
          simp only [List.mem_append] at hw'
          rcases hw' with hw' | hw'
          · exact n0 w hw'
          · exact n1 w hw'
      · exact absurd h (by simp)
    · exact absurd h (by simp)

/-- **The allocentric point-source panner has unit power** for every well-formed grid and every position:
    whenever `handle` returns (no IndexError, i.e. no empty plane/row), the gains are ≥ 0 and Σ² = 1. -/
theorem allo_unit_power (n : Nat) (st : Tree ℝ) (hw : TreeWF n st) (px py pz : ℝ) (r : List ℝ)
    (h : alloHandle n st px py pz = some r) : Nonneg r ∧ sumSq r = 1 := by
  simp only [alloHandle, Option.map_eq_some_iff] at h
  obtain ⟨ws, hws, rfl⟩ := h
  obtain ⟨he, hn⟩ := alloWrites_spec n st hw px py pz ws hws
  exact ⟨applyWrites_nonneg n ws hn, by rw [sumSq_applyWrites, he]⟩

end Earverif.GainCalc
