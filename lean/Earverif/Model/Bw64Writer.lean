/-
Model of `ear.fileio.bw64.writer.Bw64Writer` on a `BytesIO` (C09 / C17).

The writer is a literal sequence of "append at the end" and "patch at offset" operations
on the buffer, in the order the Python methods perform them.  The byte-level `WOp.write` takes the
already encoded, interleaved sample bytes; the sample-level `SOp.write` (at the end of this file)
takes the float samples and runs `interleave` and `encode_pcm_samples` of `Model/Pcm.lean` on them,
as `Bw64Writer.write` does.
Core Lean only.
-/
import Earverif.Model.Bw64Bytes
import Earverif.Model.Pcm

namespace Earverif.Bw64

/-- `FormatInfoChunk(formatTag=1, channelCount, sampleRate, bitsPerSample)` (PCM, no extra data). -/
structure Fmt where
  channels : Nat
  rate : Nat
  bits : Nat
  deriving DecidableEq, Repr

/-- `FormatInfoChunk.blockAlignment` = `int(channelCount * bitsPerSample / 8)`. -/
def Fmt.blockAlign (f : Fmt) : Nat := f.channels * f.bits / 8

/-- `FormatInfoChunk.bytesPerSecond`. -/
def Fmt.bytesPerSecond (f : Fmt) : Nat := f.rate * f.blockAlign

/-- `FormatInfoChunk.asByteArray()` for PCM without extra data (`cbSize == 0`):
`b'fmt ' + pack('<I', 16) + pack('<HHIIHH', 1, channels, rate, bytesPerSecond, blockAlignment, bits)`. -/
def fmtChunk (f : Fmt) : Bytes :=
  idFmt ++ le 4 16 ++
    (le 2 1 ++ le 2 f.channels ++ le 4 f.rate ++ le 4 f.bytesPerSecond ++ le 2 f.blockAlign ++ le 2 f.bits)

/-- One `AudioID` as `AudioID.asByteArray()` lays it out (`'<H12s14s11sx'`): the track index and
the remaining 38 bytes (UID, track/channel format reference, pack format reference, pad byte),
which the model treats as opaque. -/
structure ChnaEntry where
  trackIndex : Nat
  rest : Bytes
  deriving DecidableEq, Repr

def ChnaEntry.enc (e : ChnaEntry) : Bytes := le 2 e.trackIndex ++ e.rest

/-- `ChnaChunk.numTracks` = `len(set(x.trackIndex for x in audioIDs))`. -/
def countDistinct : List Nat → Nat
  | [] => 0
  | x :: xs => if x ∈ xs then countDistinct xs else countDistinct xs + 1

def numTracks (es : List ChnaEntry) : Nat := countDistinct (es.map (·.trackIndex))

/-- chunk data of `ChnaChunk.asByteArray()` -/
def chnaPayload (es : List ChnaEntry) : Bytes :=
  le 2 (numTracks es) ++ le 2 es.length ++ (es.map ChnaEntry.enc).flatten

/-- `ChnaChunk.asByteArray()`: header + data, no pad byte (the data is always even-sized). -/
def chnaChunk (es : List ChnaEntry) : Bytes :=
  idChna ++ le 4 (chnaPayload es).length ++ chnaPayload es

/-- what `_write_axml_chunk` / `_write_bext_chunk` append: id, size, data, pad byte if odd. -/
def metaChunk (id v : Bytes) : Bytes := id ++ le 4 v.length ++ v ++ pad v.length

/-- `_write_junk_chunk`: `b'JUNK' + pack('<I', 28) + pack('<3QI', 0, 0, 0, 0)`. -/
def junkChunk : Bytes := idJUNK ++ le 4 28 ++ (le 8 0 ++ le 8 0 ++ le 8 0 ++ le 4 0)

/-- `DataSize64Chunk(riffSize, dataSize).asByteArray()` with an empty table. -/
def ds64Chunk (riffSize dataSize : Nat) : Bytes :=
  idDs64 ++ le 4 28 ++ (le 8 riffSize ++ le 8 dataSize ++ le 8 0 ++ le 4 0)

/-- Python truthiness of a `bytes`-or-`None` value (`if(axml)`): `None` and `b''` are falsy. -/
def truthy : Option Bytes → Bool
  | some (_ :: _) => true
  | _ => false

/-- State of a `Bw64Writer`: the buffer (the position is always its end between method
calls), and the attributes the methods consult. -/
structure WState where
  buf : Bytes
  fmt : Fmt
  force : Bool
  dataBytes : Nat          -- `_dataBytesWritten`
  dataPos : Nat            -- `_chunks[b'data'].position.chunkId`
  chna : Option (List ChnaEntry)
  axml : Option Bytes
  bext : Option Bytes
  chnaW : Bool             -- `_chnaChunkWritten`
  axmlW : Bool
  bextW : Bool
  deriving Repr

/-- `_write_chna_chunk` (only called when `_chna` is truthy, i.e. not `None`). -/
def WState.writeChna (s : WState) : WState :=
  match s.chna with
  | some es => { s with buf := s.buf ++ chnaChunk es, chnaW := true }
  | none => s

/-- `_write_axml_chunk` -/
def WState.writeAxml (s : WState) : WState :=
  match s.axml with
  | some v => { s with buf := s.buf ++ metaChunk idAxml v, axmlW := true }
  | none => s

/-- `_write_bext_chunk` -/
def WState.writeBext (s : WState) : WState :=
  match s.bext with
  | some v => { s with buf := s.buf ++ metaChunk idBext v, bextW := true }
  | none => s

/-- `Bw64Writer.__init__`. -/
def openW (fmt : Fmt) (chna : Option (List ChnaEntry)) (axml bext : Option Bytes) (force : Bool) : WState :=
  -- _write_riff_chunk, _write_junk_chunk, _write_fmt_chunk
  let s0 : WState :=
    { buf := idRIFF ++ ffff ++ idWAVE ++ junkChunk ++ fmtChunk fmt,
      fmt := fmt, force := force, dataBytes := 0, dataPos := 0,
      chna := chna, axml := axml, bext := bext, chnaW := false, axmlW := false, bextW := false }
  let s1 := if chna.isSome then s0.writeChna else s0          -- if(chna)
  let s2 := if truthy axml then s1.writeAxml else s1          -- if(axml)
  let s3 := if truthy bext then s2.writeBext else s2          -- if(bext)
  -- _write_data_chunk_header
  { s3 with dataPos := s3.buf.length, buf := s3.buf ++ idData ++ ffff }

/-- What a client does between construction and `close`. -/
inductive WOp where
  | write (encoded : Bytes)                  -- `write(samples)`, after interleave + encode_pcm_samples
  | setChna (v : Option (List ChnaEntry))    -- `writer.chna = v`
  | setAxml (v : Option Bytes)               -- `writer.axml = v`
  | setBext (v : Option Bytes)               -- `writer.bext = v`
  deriving Repr

def stepW (s : WState) : WOp → WState
  | .write b => { s with buf := s.buf ++ b, dataBytes := s.dataBytes + b.length }
  | .setChna v => { s with chna := v }
  | .setAxml v => { s with axml := v }
  | .setBext v => { s with bext := v }

def runW (s : WState) (ops : List WOp) : WState := ops.foldl stepW s

/-- `if self._dataBytesWritten & 1: self._buffer.write(b'\\0')` -/
def WState.padData (s : WState) : WState :=
  if s.dataBytes % 2 = 1 then { s with buf := s.buf ++ [0] } else s

/-- `if not self._chnaChunkWritten and self._chna: self._write_chna_chunk()` -/
def WState.lateChna (s : WState) : WState := if !s.chnaW && s.chna.isSome then s.writeChna else s

/-- `if not self._axmlChunkWritten and self._axml: self._write_axml_chunk()` -/
def WState.lateAxml (s : WState) : WState := if !s.axmlW && truthy s.axml then s.writeAxml else s

/-- `if not self._bextChunkWritten and self._bext: self._write_bext_chunk()` -/
def WState.lateBext (s : WState) : WState := if !s.bextW && truthy s.bext then s.writeBext else s

/-- first half of `Bw64Writer.close`: data chunk padding and the chunks not yet written. -/
def lateW (s : WState) : WState := s.padData.lateChna.lateAxml.lateBext

/-- second half of `Bw64Writer.close`: RIFF vs BW64 decision and size back-patching; the final
buffer content. -/
def finalizeW (s : WState) : Bytes :=
  let riffSize := s.buf.length - 8                 -- _calc_riff_chunk_size
  if riffSize ≥ 2 ^ 32 || s.force then
    -- _update_bw64_chunk, _overwrite_junk_with_ds64_chunk (the JUNK chunk id is at offset 12)
    patchAt (patchAt s.buf 0 idBW64) 12 (ds64Chunk riffSize s.dataBytes)
  else
    -- _update_riff_chunk_size, _update_data_chunk_size
    patchAt (patchAt s.buf 4 (le 4 riffSize)) (s.dataPos + 4) (le 4 s.dataBytes)

/-- `Bw64Writer.close`: the final buffer content. -/
def closeW (s : WState) : Bytes := finalizeW (lateW s)

/-- The bytes in the buffer if the writer is abandoned without `close`. -/
def unclosedFile (fmt : Fmt) (chna : Option (List ChnaEntry)) (axml bext : Option Bytes) (force : Bool)
    (ops : List WOp) : Bytes :=
  (runW (openW fmt chna axml bext force) ops).buf

/-- The bytes in the buffer after `close`. -/
def closedFile (fmt : Fmt) (chna : Option (List ChnaEntry)) (axml bext : Option Bytes) (force : Bool)
    (ops : List WOp) : Bytes :=
  closeW (runW (openW fmt chna axml bext force) ops)

/-! ### values for which `struct.pack` does not raise -/

def chnaPackable : Option (List ChnaEntry) → Bool
  | none => true
  | some es => es.length < 2 ^ 16 && es.all (fun e => e.trackIndex < 2 ^ 16 && e.rest.length == 38)

def bytesPackable : Option Bytes → Bool
  | none => true
  | some v => v.length < 2 ^ 32

/-- the format fields fit their `struct` field widths -/
def Fmt.packable (f : Fmt) : Bool :=
  f.channels < 2 ^ 16 && f.rate < 2 ^ 32 && f.bytesPerSecond < 2 ^ 32 && f.blockAlign < 2 ^ 16 && f.bits < 2 ^ 16

def WOp.packable : WOp → Bool
  | .write _ => true
  | .setChna v => chnaPackable v
  | .setAxml v => bytesPackable v
  | .setBext v => bytesPackable v

/-! ### the hypotheses of the C09/C17 theorems as executable tests (the driver reports them) -/

/-- `FmtOK` (Proofs/C09Read.lean) as a Boolean: PCM 16/24/32 bit, at least one channel, positive rate,
fields within their `struct` widths. -/
def Fmt.okB (f : Fmt) : Bool :=
  (f.bits == 16 || f.bits == 24 || f.bits == 32) && decide (1 ≤ f.channels) && decide (1 ≤ f.rate) &&
    decide (f.channels < 2 ^ 16) && decide (f.rate < 2 ^ 32) && decide (f.bytesPerSecond < 2 ^ 32) &&
    decide (f.blockAlign < 2 ^ 16)

/-- the reader would warn about this entry: an `AC_` reference without the `_00` suffix -/
def ChnaEntry.warns (e : ChnaEntry) : Bool :=
  decide (((e.enc.drop 14).take 14).take 3 = [65, 67, 95]) && !decide (((e.enc.drop 14).take 14).drop 11 = [95, 48, 48])

/-- `ChnaOK` as a Boolean: packable and no entry the reader would warn about -/
def chnaOkB : Option (List ChnaEntry) → Bool
  | none => true
  | some es => decide (es.length < 2 ^ 16) &&
      es.all (fun e => decide (e.trackIndex < 2 ^ 16) && e.rest.length == 38 && !e.warns)

/-! ### sample-level `write` (C09 + C16) -/

/-- The bytes `Bw64Writer.write(samples)` appends for a frames × channels block given as a list of
rows: `assert np.array(samples).shape[1] == self.channels` (a block whose rows do not all have
`channels` entries never reaches the encoder: `none`), then
`encode_pcm_samples(interleave(samples), self.bitdepth)` (`none` for an unsupported bit depth). -/
def encodeBlock (fmt : Fmt) (frames : List (List Rat)) : Option Bytes :=
  if frames.all (fun fr => fr.length == fmt.channels) then
    Pcm.encodeBytes fmt.bits (Pcm.interleave fmt.channels frames)
  else none

/-- What a client does between construction and `close`, with `write` taking float samples
(exact rationals of the float64 values, see `Model/Ieee.lean`). -/
inductive SOp where
  | write (frames : List (List Rat))         -- `write(samples)`
  | setChna (v : Option (List ChnaEntry))
  | setAxml (v : Option Bytes)
  | setBext (v : Option Bytes)

/-- one client call on the writer state; `none` = the call raises -/
def stepS (s : WState) : SOp → Option WState
  | .write frames =>
    match encodeBlock s.fmt frames with
    | some b => some { s with buf := s.buf ++ b, dataBytes := s.dataBytes + b.length }
    | none => none
  | .setChna v => some { s with chna := v }
  | .setAxml v => some { s with axml := v }
  | .setBext v => some { s with bext := v }

def runS (s : WState) : List SOp → Option WState
  | [] => some s
  | op :: ops =>
    match stepS s op with
    | some s' => runS s' ops
    | none => none

/-- The bytes in the buffer after `close`, for a history of sample-level calls. -/
def closedFileS (fmt : Fmt) (chna : Option (List ChnaEntry)) (axml bext : Option Bytes) (force : Bool)
    (ops : List SOp) : Option Bytes :=
  (runS (openW fmt chna axml bext force) ops).map closeW

/-- The bytes in the buffer if the writer is abandoned without `close`. -/
def unclosedFileS (fmt : Fmt) (chna : Option (List ChnaEntry)) (axml bext : Option Bytes) (force : Bool)
    (ops : List SOp) : Option Bytes :=
  (runS (openW fmt chna axml bext force) ops).map (·.buf)

/-- the byte-level call a sample-level call amounts to -/
def SOp.enc (fmt : Fmt) : SOp → Option WOp
  | .write frames => (encodeBlock fmt frames).map .write
  | .setChna v => some (.setChna v)
  | .setAxml v => some (.setAxml v)
  | .setBext v => some (.setBext v)

def encOps (fmt : Fmt) : List SOp → Option (List WOp)
  | [] => some []
  | op :: ops =>
    match SOp.enc fmt op, encOps fmt ops with
    | some w, some ws => some (w :: ws)
    | _, _ => none

def SOp.packable : SOp → Bool
  | .write _ => true
  | .setChna v => chnaPackable v
  | .setAxml v => bytesPackable v
  | .setBext v => bytesPackable v

end Earverif.Bw64
