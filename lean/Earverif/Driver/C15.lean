/- Line protocol for the C15 timing-repair model.
   in : `<mode> | <obj> <obj> ... | <block> <block> ...`
        mode  = `fix` (fix_blockFormat_timings) or `dur` (fix_blockFormat_durations only)
        obj   = `<start>,<duration>`            each a rational `num/den` or `-` for None
        block = `<rtime>,<duration>,<isObjects 0|1>,<jp 0|1>,<il>`
   out (fix): `pre <verdict>... | ok | <blocks> | <warn>... | <verdict>... | <blocks2> | <warn2>...`
          or  `pre <verdict>... | error <valueError|assertion>`
        where verdicts are per object (for the single pseudo-object `-,-` when there are none),
        `pre` = renderer verdicts on the unrepaired blocks, blocks2/warn2 = result of repairing
        the repaired blocks again (`error <kind>` if that raises).
   out (dur): `<blocks> | <warn>...`
   warn = `<kind>:<block index>`; `bad-op` for a malformed line.
   in : `round | <n|f|c> <k> <x>`      x written with k decimals: Python round (half-even) / floor / ceil
   out: `<num/den>`
   in : `doc | <dobj> ... | <dpack> ... | <duid> ... | <block> ... ; <block> ... ; ...`
        the whole-document repair (Model/TimingFixDoc.lean) on a small document:
        dobj  = `<start>,<duration>,<packs>,<tracks>`   lists `+`-separated, `_` = empty, track `s` = silent
        dpack = `<type>,<channels>,<subPacks>`          duid = `<channel>,<pack>`
        channels' block lists are separated by `;` (in audioChannelFormat order)
   out: `pairs <p> ... | ok | <blocks> ; <blocks> ... | <dwarn> ... | <second>`  or  `pairs <p> ... | error <kind>`
        p = channel list of the object (`+`-separated, `_` empty, `x` = allocator raises),
        dwarn = `<channel>:<kind>:<block index>`, second = `same` if repairing the result again returns it
        unchanged without warnings, else `differs`; kind = valueError | assertion | formatRef. -/
import Earverif.Model.TimingFix
import Earverif.Model.TimingFixDoc
import Earverif.Driver.Util
open Earverif.TimingFix Earverif.Driver

def parseRat? (s : String) : Option Rat :=
  match s.splitOn "/" with
  | [n, d] => do
    let n ← n.toInt?
    let d ← d.toNat?
    if d == 0 then none else some (mkRat n d)
  | _ => none

def parseORat? (s : String) : Option (Option Rat) :=
  if s == "-" then some none else (parseRat? s).map some

def parseBool? (s : String) : Option Bool :=
  if s == "0" then some false else if s == "1" then some true else none

def parseObj? (s : String) : Option Obj :=
  match s.splitOn "," with
  | [a, b] => do some ⟨← parseORat? a, ← parseORat? b⟩
  | _ => none

def parseBlock? (s : String) : Option Block :=
  match s.splitOn "," with
  | [r, d, o, j, il] => do
    some ⟨← parseORat? r, ← parseORat? d, ← parseBool? o, ← parseBool? j, ← parseORat? il⟩
  | _ => none

def showRat (q : Rat) : String := s!"{q.num}/{q.den}"

def showORat : Option Rat → String
  | none => "-"
  | some q => showRat q

def showBool (b : Bool) : String := if b then "1" else "0"

def showBlock (b : Block) : String :=
  s!"{showORat b.rtime},{showORat b.duration},{showBool b.isObjects},{showBool b.jp},{showORat b.il}"

def showKind : WKind → String
  | .expanded => "expanded"
  | .contracted => "contracted"
  | .ilContracted => "ilContracted"
  | .ilReducedToObject => "ilReducedToObject"
  | .endAdvanced => "endAdvanced"
  | .endAdvancedIl => "endAdvancedIl"

def showWarn (w : Warn) : String := s!"{showKind w.kind}:{w.block}"

def showErr : Err → String
  | .valueError => "valueError"
  | .assertion => "assertion"

def showVerdict : Verdict → String
  | .ok => "ok"
  | .endsAfterObject => "endsAfterObject"
  | .mixedTiming => "mixedTiming"
  | .overlap => "overlap"
  | .interpTooLong => "interpTooLong"
  | .assertInf => "assertInf"

def spaced (xs : List String) : String := String.intercalate " " xs

def verdicts (objs : List Obj) (bs : List Block) : String :=
  let os := if objs.isEmpty then [(⟨none, none⟩ : Obj)] else objs
  spaced (os.map fun o => showVerdict (accepted o bs))

def parseList? {α : Type} (p : String → Option α) (s : String) : Option (List α) :=
  if s == "_" then some [] else (s.splitOn "+").mapM p

def parseTrack? (s : String) : Option (Option Nat) := if s == "s" then some none else s.toNat?.map some

def parseDObj? (s : String) : Option DObj :=
  match s.splitOn "," with
  | [a, b, p, t] => do some ⟨← parseORat? a, ← parseORat? b, ← parseList? String.toNat? p, ← parseList? parseTrack? t⟩
  | _ => none

def parseDPack? (s : String) : Option DPack :=
  match s.splitOn "," with
  | [ty, c, sp] => do some ⟨← ty.toNat?, ← parseList? String.toNat? c, ← parseList? String.toNat? sp⟩
  | _ => none

def parseDUid? (s : String) : Option DUid :=
  match s.splitOn "," with
  | [c, p] => do some ⟨← c.toNat?, ← p.toNat?⟩
  | _ => none

def showTable (t : Table) : String := String.intercalate " ; " (t.map fun bs => spaced (bs.map showBlock))

def showPair (p : Obj × Option (List Nat)) : String :=
  match p.2 with
  | none => "x"
  | some [] => "_"
  | some cs => String.intercalate "+" (cs.map toString)

def showDocErr : DocErr → String
  | .block e => showErr e
  | .formatRef => "formatRef"

/-- every index a small document mentions is in range (the model's accessors default otherwise) -/
def docInRange (d : Doc) : Bool :=
  d.objects.all (fun o => o.packs.all (· < d.packs.length) &&
    o.tracks.all (fun t => match t with | none => true | some u => u < d.uids.length)) &&
  d.packs.all (fun p => p.channels.all (· < d.channels.length) && p.subPacks.all (· < d.packs.length)) &&
  d.uids.all (fun u => u.channel < d.channels.length && u.pack < d.packs.length)

def answerDoc (os ps us : List String) (chans : String) : String :=
  let cs := (chans.splitOn ";").map words
  let cs := if cs == [[]] then [] else cs
  match os.mapM parseDObj?, ps.mapM parseDPack?, us.mapM parseDUid?, cs.mapM (·.mapM parseBlock?) with
  | some objs, some packs, some uids, some table =>
    let d : Doc := ⟨objs, packs, uids, table⟩
    if !docInRange d then "bad-op" else
    let pre := "pairs " ++ spaced (d.pairs.map showPair)
    match d.fix with
    | .error e => s!"{pre} | error {showDocErr e}"
    | .ok (t, ws) =>
      let second := match docFix d.pairs t with
        | .ok (t2, ws2) => if t2 == t && ws2.isEmpty then "same" else "differs"
        | .error _ => "differs"
      let wss := spaced (ws.map fun w => s!"{w.chan}:{showWarn w.warn}")
      s!"{pre} | ok | {showTable t} | {wss} | {second}"
  | _, _, _, _ => "bad-op"

def answerRound (mode k x : String) : String :=
  match k.toNat?, parseRat? x with
  | some k, some x =>
    if mode == "n" then showRat (roundHalfEven k x)
    else if mode == "f" then showRat (floorDec k x)
    else if mode == "c" then showRat (ceilDec k x)
    else "bad-op"
  | _, _ => "bad-op"

def answer (line : String) : String :=
  match line.splitOn "|" with
  | [m, os, ps, us, cs] =>
    if words m == ["doc"] then answerDoc (words os) (words ps) (words us) cs else "bad-op"
  | [m, r] =>
    match words m, words r with
    | ["round"], [mode, k, x] => answerRound mode k x
    | _, _ => "bad-op"
  | _ =>
  match (line.splitOn "|").map words with
  | [[mode], os, bs] =>
    match os.mapM parseObj?, bs.mapM parseBlock? with
    | some objs, some blocks =>
      if mode == "fix" then
        let pre := "pre " ++ verdicts objs blocks
        match fixTimings objs blocks with
        | .error e => s!"{pre} | error {showErr e}"
        | .ok (out, ws) =>
          let second := match fixTimings objs out with
            | .error e => s!"error {showErr e} | "
            | .ok (out2, ws2) => s!"{spaced (out2.map showBlock)} | {spaced (ws2.map showWarn)}"
          s!"{pre} | ok | {spaced (out.map showBlock)} | {spaced (ws.map showWarn)} | {verdicts objs out} | {second}"
      else if mode == "dur" then
        let (out, ws) := fixDurationsOnly blocks
        s!"{spaced (out.map showBlock)} | {spaced (ws.map showWarn)}"
      else "bad-op"
    | _, _ => "bad-op"
  | _ => "bad-op"

def main : IO Unit := lineLoop answer
