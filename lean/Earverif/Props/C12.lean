/- C12 — loudspeaker gains vary continuously with source direction.

   Over ℝ, for every loudspeaker position matrix:
   * piecewise continuity: a triplet's gains are a continuous function of the direction on its acceptance set
     (`triplet_continuousOn`, `triplet_handle_continuousOn`); the stereo wrapper's two outputs are continuous
     functions of the inner gains (`stereo_continuousOn`); the downmix wrapper is continuous in the inner gains
     (`downmix_continuousOn`);
   * agreement on shared edges: on the open arc between two loudspeakers the pair of gains is uniquely determined
     (`edge_unique`, `edge_exists`), a triplet having the two loudspeakers as vertices returns exactly that pair and 0
     for its third loudspeaker (`triplet_on_edge`), hence two triplets sharing an edge agree on it (`edge_agreement`);
   * THE TOPOLOGICAL HALF (pasting; proofs in Proofs/C12Paste.lean):
     - `firstAccept_eq_of_agree`, `firstAccept_continuousOn`: finitely many regions whose acceptance sets are closed
       in `S`, handlers continuous on them, pairwise agreement on the overlaps ⟹ the first-accept function (the loop
       of `PointSourcePanner.handle`, `firstAccept` in the model) is continuous on the union and equals ANY accepting
       region's value; `panner_continuousOn_of_regions` is the same statement on the model's
       `PointSourcePanner.handle` itself (any region types, the code's thresholds, hypotheses per region);
     - closedness: `triplet_accept_isClosed` (every threshold, every matrix), `triplet_accept_isClosed_code`,
       `ngon_accept_isClosed`; for the quad only `quad_accept_isOpen_of_roots` (given the roots the test on the
       direction is a strict inequality; closedness depends on np.roots' root selection — not proved);
     - `panner_continuousOn_triplets_partial`: an all-triplet panner in the IDEALISATION "acceptance slack 0"
       (`tripletPannerE 0`; `tripletPannerE_eps`: with the code's −1e-11 it is `PointSourcePanner.handle`) is
       continuous on the union of its cones, the agreement hypothesis being discharged (`shared_face_agreement`, from
       `triplet_on_edge`) under the explicit combinatorial hypothesis `MeetInSharedFace` on every pair of regions
       (checked on the real configured panners, exact rational arithmetic, by harness/c12.py);
     - the quantitative statement the real code satisfies: `triplet_sliver_bound` (and `_general`): on the sliver
       where two neighbouring triplets both accept (slack 1e-11) their answers differ by at most `C·1e-11`,
       `C = 15/2 · max(|α|, |β|, γ+1) · max(1, 1/γ)` for `w' = α u + β v − γ w`;
     - quantitative pasting: `firstAccept_jump_bound`, `panner_jump_bound_of_regions` (handlers agreeing only up to `η`
       on the overlaps ⟹ the first-accept function / the model's panner varies by at most `η + δ` near every point:
       jumps bounded by `η`), and END TO END for the code's threshold `two_triplet_panner_jump_bound`: the model's
       `PointSourcePanner.handle` on two edge-sharing triplets is continuous up to jumps of `C·1e-11` on every channel.

   PARTIAL: `C12_partial` is the conjunction.  Still NOT proved: (a) that the regions cover the sphere (Qhull's facets:
   extracted, not re-derived); (b) the GLOBAL "continuous up to jumps of C·1e-11" statement for a whole layout's
   panner with the code's slack: `panner_jump_bound_of_regions` reduces it to pairwise `η`-agreement on the overlaps,
   which is proved (`triplet_sliver_bound`) only for edge-sharing triplets in the arrangement (u, v, w)/(u, v, w') (row
   permutations, and the slivers around a vertex shared by non-adjacent triplets, are not formalised); (c) quads and n-gons inside the pasted
   panner: closedness of the quad's acceptance set and the quad/n-gon agreement without their extra hypotheses (root
   selection of np.roots, order of the inner triplets), continuity of the n-gon handler.  These are searched by
   harness/c12.py (bisection to 1e-9 rad on the real panner), not proved. -/
import Earverif.Props.C05
import Earverif.Proofs.C12Paste
import Mathlib.Analysis.SpecialFunctions.Pow.Continuity
import Mathlib.Topology.Algebra.Order.Field
import Mathlib.Tactic.FinCases
import Mathlib.Tactic.FunProp
import Mathlib.Tactic.IntervalCases

namespace Earverif.PointSource

open Set Filter

/-! ### uniqueness of the gains on an edge -/

/-- the point `s·a + t·b` on the arc between loudspeakers `a` and `b` -/
noncomputable def edgePoint (s t : ℝ) (a b : Vec3 ℝ) : Vec3 ℝ := add3 (smul3 s a) (smul3 t b)

theorem cross_edge (α β s t : ℝ) (a b : Vec3 ℝ) :
    cross3 (edgePoint α β a b) (edgePoint s t a b) = smul3 (α * t - β * s) (cross3 a b) := by
  obtain ⟨a0, a1, a2⟩ := a
  obtain ⟨b0, b1, b2⟩ := b
  simp only [edgePoint, cross3, add3, smul3]
  refine Prod.ext ?_ (Prod.ext ?_ ?_) <;> simp only <;> ring

theorem smul3_eq_zero {k : ℝ} {v : Vec3 ℝ} (h : smul3 k v = (0, 0, 0)) (hv : v ≠ (0, 0, 0)) : k = 0 := by
  obtain ⟨v0, v1, v2⟩ := v
  simp only [smul3, Prod.mk.injEq] at h
  by_contra hk
  apply hv
  rcases h with ⟨h0, h1, h2⟩
  rw [(mul_eq_zero.mp h0).resolve_left hk, (mul_eq_zero.mp h1).resolve_left hk, (mul_eq_zero.mp h2).resolve_left hk]

/-- For independent `a`, `b` and a direction in their open cone there is at most one pair of non-negative gains
    of unit power whose velocity vector `α·a + β·b` is parallel to the direction. -/
theorem edge_unique (a b : Vec3 ℝ) (hab : cross3 a b ≠ (0, 0, 0)) (s t : ℝ) (hs : 0 < s) (ht : 0 < t)
    (α β α' β' : ℝ) (hα : 0 ≤ α) (hβ : 0 ≤ β) (hα' : 0 ≤ α') (hβ' : 0 ≤ β')
    (h1 : α * α + β * β = 1) (h1' : α' * α' + β' * β' = 1)
    (hp : cross3 (edgePoint α β a b) (edgePoint s t a b) = (0, 0, 0))
    (hp' : cross3 (edgePoint α' β' a b) (edgePoint s t a b) = (0, 0, 0)) :
    α = α' ∧ β = β' := by
  rw [cross_edge] at hp hp'
  have e := smul3_eq_zero hp hab
  have e' := smul3_eq_zero hp' hab
  have hst : 0 < s * t := mul_pos hs ht
  have hpar : α * β' = α' * β := by
    have : s * t * (α * β' - α' * β) = 0 := by
      have h3 : α * t = β * s := by linarith
      have h4 : α' * t = β' * s := by linarith
      calc s * t * (α * β' - α' * β) = (α * t) * (β' * s) - (α' * t) * (β * s) := by ring
        _ = (β * s) * (α' * t) - (α' * t) * (β * s) := by rw [h3, ← h4]
        _ = 0 := by ring
    rcases mul_eq_zero.mp this with h | h
    · exact absurd h hst.ne'
    · linarith
  have hαα : α * α = α' * α' := by
    calc α * α = α * α * (α' * α' + β' * β') := by rw [h1', mul_one]
      _ = α * α * (α' * α') + (α * β') * (α * β') := by ring
      _ = α * α * (α' * α') + (α' * β) * (α' * β) := by rw [hpar]
      _ = α' * α' * (α * α + β * β) := by ring
      _ = α' * α' := by rw [h1, mul_one]
  have hββ : β * β = β' * β' := by linarith
  exact ⟨(mul_self_inj hα hα').mp hαα, (mul_self_inj hβ hβ').mp hββ⟩

/-- ... and `(s, t)/‖(s, t)‖` is such a pair. -/
theorem edge_exists (a b : Vec3 ℝ) (s t : ℝ) (hs : 0 < s) (ht : 0 < t) :
    let r := Real.sqrt (s * s + t * t)
    0 ≤ s / r ∧ 0 ≤ t / r ∧ s / r * (s / r) + t / r * (t / r) = 1 ∧
      cross3 (edgePoint (s / r) (t / r) a b) (edgePoint s t a b) = (0, 0, 0) := by
  intro r
  have hpos : 0 < s * s + t * t := by positivity
  have hr : 0 < r := Real.sqrt_pos.mpr hpos
  have hrr : r * r = s * s + t * t := Real.mul_self_sqrt hpos.le
  refine ⟨by positivity, by positivity, ?_, ?_⟩
  · field_simp
    have : r ^ 2 = s ^ 2 + t ^ 2 := by rw [pow_two, hrr]; ring
    linarith
  · rw [cross_edge]
    have : s / r * t - t / r * s = 0 := by field_simp; ring
    rw [this]; simp [smul3]

/-! ### a triplet on one of its edges -/

def row (P : Mat3 ℝ) : Fin 3 → Vec3 ℝ
  | 0 => P.1
  | 1 => P.2.1
  | 2 => P.2.2

def coord (v : Vec3 ℝ) : Fin 3 → ℝ
  | 0 => v.1
  | 1 => v.2.1
  | 2 => v.2.2

theorem comb3_edge (P : Mat3 ℝ) (s t : ℝ) :
    edgePoint s t (row P 0) (row P 1) = comb3 s t 0 P ∧ edgePoint s t (row P 1) (row P 0) = comb3 t s 0 P ∧
    edgePoint s t (row P 0) (row P 2) = comb3 s 0 t P ∧ edgePoint s t (row P 2) (row P 0) = comb3 t 0 s P ∧
    edgePoint s t (row P 1) (row P 2) = comb3 0 s t P ∧ edgePoint s t (row P 2) (row P 1) = comb3 0 t s P := by
  obtain ⟨⟨a0, a1, a2⟩, ⟨b0, b1, b2⟩, ⟨c0, c1, c2⟩⟩ := P
  simp only [edgePoint, comb3, add3, smul3, row]
  refine ⟨?_, ?_, ?_, ?_, ?_, ?_⟩ <;> refine Prod.ext ?_ (Prod.ext ?_ ?_) <;> simp only <;> ring

/-- An invertible triplet with loudspeakers `i ≠ j`: every direction `s·P_i + t·P_j` (s, t ≥ 0, not both 0) is
    accepted and gets the gains `s/√(s²+t²)` on `i`, `t/√(s²+t²)` on `j` and exactly 0 on the third loudspeaker. -/
theorem triplet_on_edge (P : Mat3 ℝ) (hd : det3 P ≠ 0) (i j : Fin 3) (hij : i ≠ j) (s t : ℝ) (hs : 0 ≤ s)
    (ht : 0 ≤ t) (hne : s * s + t * t ≠ 0) :
    ∃ g, Triplet.handle P (edgePoint s t (row P i) (row P j)) = some g ∧
      coord g i = s / Real.sqrt (s * s + t * t) ∧ coord g j = t / Real.sqrt (s * s + t * t) ∧
      ∀ k, k ≠ i → k ≠ j → coord g k = 0 := by
  obtain ⟨e01, e10, e02, e20, e12, e21⟩ := comb3_edge P s t
  have z : (0 : ℝ) ≤ 0 := le_refl _
  fin_cases i <;> fin_cases j <;> simp only [ne_eq, not_true_eq_false, Fin.zero_eta, Fin.mk_one, Fin.reduceFinMk] at hij ⊢
  · have h := triplet_of_comb P hd s t 0 hs ht z (by simpa using hne)
    rw [e01, h]
    refine ⟨_, rfl, by simp [coord], by simp [coord], ?_⟩
    intro k hk0 hk1; fin_cases k <;> simp_all [coord]
  · have h := triplet_of_comb P hd s 0 t hs z ht (by simpa using hne)
    rw [e02, h]
    refine ⟨_, rfl, by simp [coord], by simp [coord], ?_⟩
    intro k hk0 hk1; fin_cases k <;> simp_all [coord]
  · have h := triplet_of_comb P hd t s 0 ht hs z (by simpa [add_comm] using hne)
    rw [e10, h]
    refine ⟨_, rfl, by simp [coord, add_comm], by simp [coord, add_comm], ?_⟩
    intro k hk0 hk1; fin_cases k <;> simp_all [coord]
  · have h := triplet_of_comb P hd 0 s t z hs ht (by simpa using hne)
    rw [e12, h]
    refine ⟨_, rfl, by simp [coord], by simp [coord], ?_⟩
    intro k hk0 hk1; fin_cases k <;> simp_all [coord]
  · have h := triplet_of_comb P hd t 0 s ht z hs (by simpa [add_comm] using hne)
    rw [e20, h]
    refine ⟨_, rfl, by simp [coord, add_comm], by simp [coord, add_comm], ?_⟩
    intro k hk0 hk1; fin_cases k <;> simp_all [coord]
  · have h := triplet_of_comb P hd 0 t s z ht hs (by simpa [add_comm] using hne)
    rw [e21, h]
    refine ⟨_, rfl, by simp [coord, add_comm], by simp [coord, add_comm], ?_⟩
    intro k hk0 hk1; fin_cases k <;> simp_all [coord]

/-- Two invertible triplets sharing the edge `a b` (at any row positions) both accept every direction of that
    edge and return the same gain for `a`, the same gain for `b`, and 0 for their respective third loudspeaker:
    crossing from one triplet into the other never changes the gains. -/
theorem edge_agreement (P Q : Mat3 ℝ) (hP : det3 P ≠ 0) (hQ : det3 Q ≠ 0) (i j i' j' : Fin 3) (hij : i ≠ j)
    (hij' : i' ≠ j') (ha : row P i = row Q i') (hb : row P j = row Q j') (s t : ℝ) (hs : 0 ≤ s) (ht : 0 ≤ t)
    (hne : s * s + t * t ≠ 0) :
    ∃ g g', Triplet.handle P (edgePoint s t (row P i) (row P j)) = some g ∧
      Triplet.handle Q (edgePoint s t (row P i) (row P j)) = some g' ∧
      coord g i = coord g' i' ∧ coord g j = coord g' j' ∧
      (∀ k, k ≠ i → k ≠ j → coord g k = 0) ∧ (∀ k, k ≠ i' → k ≠ j' → coord g' k = 0) := by
  obtain ⟨g, hg, gi, gj, gk⟩ := triplet_on_edge P hP i j hij s t hs ht hne
  obtain ⟨g', hg', gi', gj', gk'⟩ := triplet_on_edge Q hQ i' j' hij' s t hs ht hne
  rw [← ha, ← hb] at hg'
  exact ⟨g, g', hg, hg', by rw [gi, gi'], by rw [gj, gj'], gk, gk'⟩

/-! ### the bilinear quad on its edges (given the roots) -/

/-- `QuadRegion.handle` in closed form: the bilinear weights divided by their norm, scattered by `order`. -/
theorem quad_out_eq (q : QuadRegion ℝ) (p : Vec3 ℝ) (x y : ℝ) (out : List ℝ) (ho : isPermOfRange q.order 4 = true)
    (h : q.handle (some x) (some y) p = some out) :
    out = scatter (zeros 4) q.order ((QuadRegion.weights x y).map (· / Real.sqrt (sumsq (QuadRegion.weights x y)))) := by
  simp only [QuadRegion.handle] at h
  split at h
  · simp at h
  · simp only [Option.some.injEq] at h
    subst h
    unfold normalise norm
    have hs : sumsq (scatter (zeros 4) q.order (QuadRegion.weights x y)) = sumsq (QuadRegion.weights x y) := by
      simp only [QuadRegion.weights]
      rw [scatter4_sumsq ho]; simp [sumsq]; ring
    rw [hs, sqrt_real]
    generalize Real.sqrt (sumsq (QuadRegion.weights x y)) = m
    have hm := perm4_mem ho
    generalize q.order = o at hm ⊢
    simp only [List.mem_cons, List.mem_nil_iff, or_false] at hm
    rcases hm with rfl | rfl | rfl | rfl | rfl | rfl | rfl | rfl | rfl | rfl | rfl | rfl | rfl | rfl | rfl | rfl
        | rfl | rfl | rfl | rfl | rfl | rfl | rfl | rfl <;>
      simp [scatter, zeros, QuadRegion.weights, List.replicate]

/-- corner number `k` of the ordered quad (the `a, b, c, d` of `pan_axis`) -/
noncomputable def QuadRegion.corner (q : QuadRegion ℝ) (k : Nat) : Vec3 ℝ :=
  q.positions.getD (q.order.getD k 0) zero3

/-- On each of its four edges (one pan value 0 or 1) a quad gives `(1-w, w)/‖(1-w, w)‖` to the edge's two corners
    and exactly 0 to the other two. Corner order: 0-1 (y=0), 1-2 (x=1), 3-2 (y=1), 0-3 (x=0). -/
theorem quad_on_edge (q : QuadRegion ℝ) (p : Vec3 ℝ) (w : ℝ) (out : List ℝ) (ho : isPermOfRange q.order 4 = true) :
    let n := Real.sqrt ((1 - w) * (1 - w) + w * w)
    (q.handle (some w) (some 0) p = some out → out = scatter (zeros 4) q.order [(1 - w) / n, w / n, 0, 0]) ∧
    (q.handle (some 1) (some w) p = some out → out = scatter (zeros 4) q.order [0, (1 - w) / n, w / n, 0]) ∧
    (q.handle (some w) (some 1) p = some out → out = scatter (zeros 4) q.order [0, 0, w / n, (1 - w) / n]) ∧
    (q.handle (some 0) (some w) p = some out → out = scatter (zeros 4) q.order [(1 - w) / n, 0, 0, w / n]) := by
  intro n
  refine ⟨fun h => ?_, fun h => ?_, fun h => ?_, fun h => ?_⟩
  · rw [quad_out_eq q p w 0 out ho h]
    have : sumsq (QuadRegion.weights w (0 : ℝ)) = (1 - w) * (1 - w) + w * w := by simp [QuadRegion.weights, sumsq]
    rw [this]; simp [QuadRegion.weights, n]
  · rw [quad_out_eq q p 1 w out ho h]
    have : sumsq (QuadRegion.weights (1 : ℝ) w) = (1 - w) * (1 - w) + w * w := by simp [QuadRegion.weights, sumsq]
    rw [this]; simp [QuadRegion.weights, n]
  · rw [quad_out_eq q p w 1 out ho h]
    have : sumsq (QuadRegion.weights w (1 : ℝ)) = (1 - w) * (1 - w) + w * w := by
      simp [QuadRegion.weights, sumsq]; ring
    rw [this]; simp [QuadRegion.weights, n]
  · rw [quad_out_eq q p 0 w out ho h]
    have : sumsq (QuadRegion.weights (0 : ℝ) w) = (1 - w) * (1 - w) + w * w := by simp [QuadRegion.weights, sumsq]
    rw [this]; simp [QuadRegion.weights, n]

/-- A non-negative pair whose velocity vector is parallel to a direction of the open cone of `a`, `b` is, after
    normalisation, the VBAP pair of that direction. -/
theorem pair_agree (a b : Vec3 ℝ) (hab : cross3 a b ≠ (0, 0, 0)) (s t u v : ℝ) (hs : 0 < s) (ht : 0 < t)
    (hu : 0 ≤ u) (hv : 0 ≤ v) (huv : 0 < u * u + v * v)
    (hcol : cross3 (edgePoint u v a b) (edgePoint s t a b) = (0, 0, 0)) :
    u / Real.sqrt (u * u + v * v) = s / Real.sqrt (s * s + t * t) ∧
      v / Real.sqrt (u * u + v * v) = t / Real.sqrt (s * s + t * t) := by
  set m := Real.sqrt (u * u + v * v) with hm
  have hmpos : 0 < m := Real.sqrt_pos.mpr huv
  have hmm : m * m = u * u + v * v := Real.mul_self_sqrt huv.le
  rw [cross_edge] at hcol
  have hk := smul3_eq_zero hcol hab
  obtain ⟨e1, e2, e3, e4⟩ := edge_exists a b s t hs ht
  exact edge_unique a b hab s t hs ht (u / m) (v / m) _ _
    (div_nonneg hu hmpos.le) (div_nonneg hv hmpos.le) e1 e2 (by field_simp; nlinarith [hmm]) e3
    (by
      rw [cross_edge]
      have : u / m * t - v / m * s = (u * t - v * s) / m := by field_simp
      rw [this, hk]; simp [smul3])
    e4

/-- Agreement of the bilinear quad with VBAP on a shared edge (stated for the edge between corners 0 and 1,
    `y = 0`): if the direction lies in the open cone of the two corners and the quad's velocity vector
    `(1-x)·a + x·b` is parallel to the direction (which is what the selected root `x` stands for — the root selection
    of np.roots is a parameter of the model), then the quad returns exactly the pair `(s, t)/‖(s, t)‖` on those two
    corners — the pair every invertible triplet with the same edge returns (`triplet_on_edge`) — and 0 elsewhere. -/
theorem quad_edge_agreement (q : QuadRegion ℝ) (x s t : ℝ) (out : List ℝ) (ho : isPermOfRange q.order 4 = true)
    (hx0 : 0 ≤ x) (hx1 : x ≤ 1) (hs : 0 < s) (ht : 0 < t) (hab : cross3 (q.corner 0) (q.corner 1) ≠ (0, 0, 0))
    (hcol : cross3 (edgePoint (1 - x) x (q.corner 0) (q.corner 1)) (edgePoint s t (q.corner 0) (q.corner 1)) = (0, 0, 0))
    (h : q.handle (some x) (some 0) (edgePoint s t (q.corner 0) (q.corner 1)) = some out) :
    out = scatter (zeros 4) q.order [s / Real.sqrt (s * s + t * t), t / Real.sqrt (s * s + t * t), 0, 0] := by
  rw [(quad_on_edge q _ x out ho).1 h]
  have hpos : 0 < (1 - x) * (1 - x) + x * x := by nlinarith [mul_self_nonneg (1 - x), mul_self_nonneg x]
  obtain ⟨h1, h2⟩ := pair_agree _ _ hab s t (1 - x) x hs ht (by linarith) hx0 hpos hcol
  simp only [h1, h2]

/-- The same on the other three edges: corners 1-2 (`x = 1`), 3-2 (`y = 1`), 0-3 (`x = 0`). -/
theorem quad_edge_agreement' (q : QuadRegion ℝ) (w s t : ℝ) (out : List ℝ) (ho : isPermOfRange q.order 4 = true)
    (hw0 : 0 ≤ w) (hw1 : w ≤ 1) (hs : 0 < s) (ht : 0 < t) :
    (cross3 (q.corner 1) (q.corner 2) ≠ (0, 0, 0) →
      cross3 (edgePoint (1 - w) w (q.corner 1) (q.corner 2)) (edgePoint s t (q.corner 1) (q.corner 2)) = (0, 0, 0) →
      q.handle (some 1) (some w) (edgePoint s t (q.corner 1) (q.corner 2)) = some out →
      out = scatter (zeros 4) q.order [0, s / Real.sqrt (s * s + t * t), t / Real.sqrt (s * s + t * t), 0]) ∧
    (cross3 (q.corner 3) (q.corner 2) ≠ (0, 0, 0) →
      cross3 (edgePoint (1 - w) w (q.corner 3) (q.corner 2)) (edgePoint s t (q.corner 3) (q.corner 2)) = (0, 0, 0) →
      q.handle (some w) (some 1) (edgePoint s t (q.corner 3) (q.corner 2)) = some out →
      out = scatter (zeros 4) q.order [0, 0, t / Real.sqrt (s * s + t * t), s / Real.sqrt (s * s + t * t)]) ∧
    (cross3 (q.corner 0) (q.corner 3) ≠ (0, 0, 0) →
      cross3 (edgePoint (1 - w) w (q.corner 0) (q.corner 3)) (edgePoint s t (q.corner 0) (q.corner 3)) = (0, 0, 0) →
      q.handle (some 0) (some w) (edgePoint s t (q.corner 0) (q.corner 3)) = some out →
      out = scatter (zeros 4) q.order [s / Real.sqrt (s * s + t * t), 0, 0, t / Real.sqrt (s * s + t * t)]) := by
  have hpos : 0 < (1 - w) * (1 - w) + w * w := by nlinarith [mul_self_nonneg (1 - w), mul_self_nonneg w]
  refine ⟨fun hab hcol h => ?_, fun hab hcol h => ?_, fun hab hcol h => ?_⟩
  · rw [(quad_on_edge q _ w out ho).2.1 h]
    obtain ⟨h1, h2⟩ := pair_agree _ _ hab s t (1 - w) w hs ht (by linarith) hw0 hpos hcol
    simp only [h1, h2]
  · rw [(quad_on_edge q _ w out ho).2.2.1 h]
    obtain ⟨h1, h2⟩ := pair_agree _ _ hab s t (1 - w) w hs ht (by linarith) hw0 hpos hcol
    simp only [h1, h2]
  · rw [(quad_on_edge q _ w out ho).2.2.2 h]
    obtain ⟨h1, h2⟩ := pair_agree _ _ hab s t (1 - w) w hs ht (by linarith) hw0 hpos hcol
    simp only [h1, h2]

/-! ### the virtual n-gon on its outer edges -/

theorem sumsq_replicate_zero (n : Nat) : sumsq (List.replicate n (0 : ℝ)) = 0 := by
  induction n with
  | zero => simp [sumsq]
  | succ k ih => simp [List.replicate_succ, sumsq, ih]

theorem sumsq_set : ∀ (l : List ℝ) (i : Nat) (x : ℝ), i < l.length →
    sumsq (l.set i x) = sumsq l - l.getD i 0 * l.getD i 0 + x * x
  | [], i, x, h => by simp at h
  | y :: ys, 0, x, _ => by simp [sumsq]; ring
  | y :: ys, i + 1, x, h => by
    have := sumsq_set ys i x (by simpa using h)
    simp only [List.set_cons_succ, sumsq, this, List.getD_cons_succ]
    ring

theorem zipWith_add_zero : ∀ (v cd : List ℝ), v.length ≤ cd.length →
    List.zipWith (fun x d => x + 0 * d) v cd = v
  | [], _, _ => by simp
  | x :: xs, [], h => by simp at h
  | x :: xs, d :: ds, h => by
    simp only [List.zipWith_cons_cons, zero_mul, add_zero, List.cons.injEq, true_and]
    have := zipWith_add_zero xs ds (by simpa using h)
    simpa using this

/-- the candidate answer of one inner triplet `r` of a virtual n-gon -/
noncomputable def VirtualNgon.candidate (g : VirtualNgon ℝ) (r : List Nat × Mat3 ℝ) (p : Vec3 ℝ) : Option (List ℝ) :=
  (remap r.1 (g.centreDownmix.length + 1) ((Triplet.handle r.2 p).map vecList)).map (VirtualNgon.mix g.centreDownmix)

theorem ngon_handle_eq (g : VirtualNgon ℝ) (p : Vec3 ℝ) :
    g.handle p = firstAccept (g.regions.map fun r => g.candidate r p) := rfl

/-- On the outer edge between two consecutive vertices `oi`, `oj` of a virtual n-gon, the inner triplet
    `(oi, oj, centre)` answers with exactly the VBAP pair `(s, t)/‖(s, t)‖` on `oi`, `oj` and 0 on every other
    loudspeaker: nothing is sent to the virtual centre, so the centre downmix and the renormalisation change
    nothing. -/
theorem ngon_candidate_on_edge (g : VirtualNgon ℝ) (oi oj : Nat) (P : Mat3 ℝ) (hd : det3 P ≠ 0)
    (hij : oi ≠ oj) (hi : oi < g.centreDownmix.length) (hj : oj < g.centreDownmix.length)
    (s t : ℝ) (hs : 0 ≤ s) (ht : 0 ≤ t) (hne : s * s + t * t ≠ 0) :
    g.candidate ([oi, oj, g.centreDownmix.length], P) (edgePoint s t P.1 P.2.1) =
      some (((zeros g.centreDownmix.length).set oi (s / Real.sqrt (s * s + t * t))).set oj
        (t / Real.sqrt (s * s + t * t))) := by
  set n := g.centreDownmix.length with hn
  set r := Real.sqrt (s * s + t * t) with hr
  have hpos : 0 < s * s + t * t := lt_of_le_of_ne (by nlinarith [mul_self_nonneg s, mul_self_nonneg t]) (Ne.symm hne)
  have hrpos : 0 < r := Real.sqrt_pos.mpr hpos
  have hrr : r * r = s * s + t * t := Real.mul_self_sqrt hpos.le
  have hp : edgePoint s t P.1 P.2.1 = comb3 s t 0 P := (comb3_edge P s t).1
  have hh := triplet_of_comb P hd s t 0 hs ht (le_refl _) (by simpa using hne)
  simp only [mul_zero, add_zero] at hh
  unfold VirtualNgon.candidate
  simp only [hp, hh, Option.map_some, remap, vecList, scatter, zero_div]
  congr 1
  unfold VirtualNgon.mix
  simp only [← hn]
  have hlen : ∀ (l : List ℝ) a b c, (((l.set oi a).set oj b).set n c).length = l.length := by simp
  have hlast : ((((zeros (n + 1) : List ℝ).set oi (s / r)).set oj (t / r)).set n 0).getD n zero = 0 := by
    simp [zeros, List.getD_eq_getElem?_getD]
  rw [hlast]
  have htake : ((((zeros (n + 1) : List ℝ).set oi (s / r)).set oj (t / r)).set n 0).take n
      = ((zeros n : List ℝ).set oi (s / r)).set oj (t / r) := by
    simp only [List.take_set, zeros, List.take_replicate]
    have : min n (n + 1) = n := by omega
    rw [this]
    apply List.set_eq_of_length_le; simp
  rw [htake, zipWith_add_zero _ _ (by simp [zeros, hn])]
  have hss : sumsq (((zeros n : List ℝ).set oi (s / r)).set oj (t / r)) = 1 := by
    rw [sumsq_set _ _ _ (by simp [zeros]; exact hj), sumsq_set _ _ _ (by simp [zeros]; exact hi)]
    have h0 : ((zeros n : List ℝ).set oi (s / r)).getD oj 0 = 0 := by
      simp [zeros, List.getD_eq_getElem?_getD, hij, hj]
    have h1 : (zeros n : List ℝ).getD oi 0 = 0 := by simp [zeros, List.getD_eq_getElem?_getD, hi]
    rw [h0, h1]
    simp only [zeros, zero_real, sumsq_replicate_zero]
    field_simp
    nlinarith [hrr]
  unfold normalise norm
  rw [hss, sqrt_real, Real.sqrt_one]
  simp

theorem firstAccept_skip {γ : Type} : ∀ (pre : List (Option γ)) (rest : List (Option γ)),
    (∀ r ∈ pre, r = none) → firstAccept (pre ++ rest) = firstAccept rest
  | [], _, _ => rfl
  | x :: xs, rest, h => by
    have hx : x = none := h x (by simp)
    subst hx
    simp only [List.cons_append, firstAccept]
    exact firstAccept_skip xs rest (fun r hr => h r (by simp [hr]))

/-- n-gon version of edge agreement: if the inner triplets tried before `(oi, oj, centre)` reject the direction,
    the virtual n-gon returns on its outer edge `oi`-`oj` exactly the pair `(s, t)/‖(s, t)‖` that every invertible
    triplet with the same edge returns (`triplet_on_edge`), and 0 on its other loudspeakers.  (Without the hypothesis
    on the earlier triplets the statement is false in exact arithmetic: within 1e-11 of a vertex a neighbouring inner
    triplet may accept first and differ by O(1e-11) — the acceptance slack; that is searched, not proved.) -/
theorem ngon_on_edge (g : VirtualNgon ℝ) (oi oj : Nat) (P : Mat3 ℝ) (pre post : List (List Nat × Mat3 ℝ))
    (hreg : g.regions = pre ++ ([oi, oj, g.centreDownmix.length], P) :: post) (hd : det3 P ≠ 0)
    (hij : oi ≠ oj) (hi : oi < g.centreDownmix.length) (hj : oj < g.centreDownmix.length)
    (s t : ℝ) (hs : 0 ≤ s) (ht : 0 ≤ t) (hne : s * s + t * t ≠ 0)
    (hpre : ∀ r ∈ pre, g.candidate r (edgePoint s t P.1 P.2.1) = none) :
    g.handle (edgePoint s t P.1 P.2.1) =
      some (((zeros g.centreDownmix.length).set oi (s / Real.sqrt (s * s + t * t))).set oj
        (t / Real.sqrt (s * s + t * t))) := by
  rw [ngon_handle_eq, hreg, List.map_append, firstAccept_skip _ _ (by
    intro r hr
    obtain ⟨r', hr', rfl⟩ := List.mem_map.mp hr
    exact hpre r' hr')]
  simp only [List.map_cons, ngon_candidate_on_edge g oi oj P hd hij hi hj s t hs ht hne, firstAccept]

/-! ### why edge agreement cannot extend to global continuity: a non-planar quad is two-valued

    Kernel-checked counter-example inside the model.  For a non-planar quad the ray of a direction can meet the bilinear
    surface twice inside the patch: both quadratics of `pan_axis` then have two roots in [0, 1], both root pairs pass the
    acceptance test of `QuadRegion.handle`, and the two answers differ.  The real code takes "the first root in range"
    in the order np.roots returns them, so which answer is given can change between neighbouring directions
    (known finding `quad-two-in-range-roots`, reproduced on the real code by harness/c12.py). -/

/-- a non-planar ("twisted") quad with rational corners: z alternates 1, -1/2, 1, -1/2 around the square -/
noncomputable def twistedQuad : QuadRegion ℝ :=
  ⟨[(-1/2, -1/2, 1), (1/2, -1/2, -1/2), (1/2, 1/2, 1), (-1/2, 1/2, -1/2)], [0, 1, 2, 3]⟩

/-- ... and a direction whose ray meets the quad's bilinear surface twice -/
noncomputable def twistedDir : Vec3 ℝ := (1, 1, 7/4)

theorem quad_two_valued_witness :
    -- both pan_axis quadratics at this direction are genuine quadratics with the two roots 3/4 and 5/6, both inside [0, 1]
    (let P := (twistedQuad.polys twistedDir).1
     P.1 ≠ 0 ∧ P.1 * (3/4) ^ 2 + P.2.1 * (3/4) + P.2.2 = 0 ∧ P.1 * (5/6) ^ 2 + P.2.1 * (5/6) + P.2.2 = 0) ∧
    (let P := (twistedQuad.polys twistedDir).2
     P.1 ≠ 0 ∧ P.1 * (3/4) ^ 2 + P.2.1 * (3/4) + P.2.2 = 0 ∧ P.1 * (5/6) ^ 2 + P.2.1 * (5/6) + P.2.2 = 0) ∧
    -- both root pairs give bilinear weights whose velocity vector is a POSITIVE multiple of the direction
    comb (QuadRegion.weights (3/4 : ℝ) (3/4)) twistedQuad.positions = smul3 (1/4) twistedDir ∧
    comb (QuadRegion.weights (5/6 : ℝ) (5/6)) twistedQuad.positions = smul3 (1/3) twistedDir ∧
    -- so `QuadRegion.handle` accepts the direction with either pair, and the two answers differ
    ∃ g1 g2, twistedQuad.handle (some (3/4)) (some (3/4)) twistedDir = some g1 ∧
      twistedQuad.handle (some (5/6)) (some (5/6)) twistedDir = some g2 ∧
      g1.getD 2 0 = 9 * g1.getD 0 0 ∧ g2.getD 2 0 = 25 * g2.getD 0 0 ∧ 0 < g1.getD 0 0 ∧ 0 < g2.getD 0 0 ∧ g1 ≠ g2 := by
  refine ⟨?_, ?_, ?_, ?_, ?_⟩
  · simp only [QuadRegion.polys, QuadRegion.panPoly, twistedQuad, twistedDir, List.getD_cons_zero, List.getD_cons_succ,
      dot3, cross3, sub3, add3]
    norm_num
  · simp only [QuadRegion.polys, QuadRegion.panPoly, twistedQuad, twistedDir, List.getD_cons_zero, List.getD_cons_succ,
      dot3, cross3, sub3, add3]
    norm_num
  · simp only [comb, QuadRegion.weights, twistedQuad, twistedDir, add3, smul3, zero3, one_real, zero_real]
    norm_num
  · simp only [comb, QuadRegion.weights, twistedQuad, twistedDir, add3, smul3, zero3, one_real, zero_real]
    norm_num
  · have hs1 : scatter (zeros 4) twistedQuad.order (QuadRegion.weights (3/4 : ℝ) (3/4)) = [1/16, 3/16, 9/16, 3/16] := by
      simp only [twistedQuad, scatter, zeros, QuadRegion.weights, one_real, zero_real, List.replicate, List.set]
      norm_num
    have hs2 : scatter (zeros 4) twistedQuad.order (QuadRegion.weights (5/6 : ℝ) (5/6)) = [1/36, 5/36, 25/36, 5/36] := by
      simp only [twistedQuad, scatter, zeros, QuadRegion.weights, one_real, zero_real, List.replicate, List.set]
      norm_num
    have ha1 : ¬ dot3 (comb ([1/16, 3/16, 9/16, 3/16] : List ℝ) twistedQuad.positions) twistedDir ≤ zero := by
      simp only [comb, twistedQuad, twistedDir, add3, smul3, zero3, dot3, zero_real]
      norm_num
    have ha2 : ¬ dot3 (comb ([1/36, 5/36, 25/36, 5/36] : List ℝ) twistedQuad.positions) twistedDir ≤ zero := by
      simp only [comb, twistedQuad, twistedDir, add3, smul3, zero3, dot3, zero_real]
      norm_num
    have hn1 : 0 < norm ([1/16, 3/16, 9/16, 3/16] : List ℝ) := by
      simp only [norm, sqrt_real, sumsq, zero_real]; apply Real.sqrt_pos.mpr; norm_num
    have hn2 : 0 < norm ([1/36, 5/36, 25/36, 5/36] : List ℝ) := by
      simp only [norm, sqrt_real, sumsq, zero_real]; apply Real.sqrt_pos.mpr; norm_num
    refine ⟨normalise [1/16, 3/16, 9/16, 3/16], normalise [1/36, 5/36, 25/36, 5/36], ?_, ?_, ?_, ?_, ?_, ?_, ?_⟩
    · simp only [QuadRegion.handle, hs1, if_neg ha1]
    · simp only [QuadRegion.handle, hs2, if_neg ha2]
    · simp only [normalise, List.map_cons, List.map_nil, List.getD_cons_zero, List.getD_cons_succ]; ring
    · simp only [normalise, List.map_cons, List.map_nil, List.getD_cons_zero, List.getD_cons_succ]; ring
    · simp only [normalise, List.map_cons, List.getD_cons_zero]; positivity
    · simp only [normalise, List.map_cons, List.getD_cons_zero]; positivity
    · intro h
      have h0 : (normalise ([1/16, 3/16, 9/16, 3/16] : List ℝ)).getD 0 0 = (normalise ([1/36, 5/36, 25/36, 5/36] : List ℝ)).getD 0 0 := by rw [h]
      have h2 : (normalise ([1/16, 3/16, 9/16, 3/16] : List ℝ)).getD 2 0 = (normalise ([1/36, 5/36, 25/36, 5/36] : List ℝ)).getD 2 0 := by rw [h]
      simp only [normalise, List.map_cons, List.map_nil, List.getD_cons_zero, List.getD_cons_succ] at h0 h2
      have p1 : (0 : ℝ) < 1 / 16 / norm ([1/16, 3/16, 9/16, 3/16] : List ℝ) := by positivity
      have e1 : (9 / 16 : ℝ) / norm ([1/16, 3/16, 9/16, 3/16] : List ℝ) = 9 * (1 / 16 / norm ([1/16, 3/16, 9/16, 3/16] : List ℝ)) := by ring
      have e2 : (25 / 36 : ℝ) / norm ([1/36, 5/36, 25/36, 5/36] : List ℝ) = 25 * (1 / 36 / norm ([1/36, 5/36, 25/36, 5/36] : List ℝ)) := by ring
      rw [e1, e2, ← h0] at h2
      linarith

/-! ### piecewise continuity -/

theorem continuous_clip01 : Continuous (clip01 : ℝ → ℝ) := by
  have : (clip01 : ℝ → ℝ) = fun x => min (max x 0) 1 := by
    funext x; simp [clip01]
  rw [this]
  exact (continuous_id.max continuous_const).min continuous_const

theorem continuous_pv (P : Mat3 ℝ) : Continuous (fun p : Vec3 ℝ => Triplet.pv P p) := by
  obtain ⟨⟨a0, a1, a2⟩, ⟨b0, b1, b2⟩, ⟨c0, c1, c2⟩⟩ := P
  simp only [Triplet.pv, vecMat, inv3]
  fun_prop

/-- normalise-and-clip as a function of the un-normalised gains -/
noncomputable def normClip (v : Vec3 ℝ) : Vec3 ℝ :=
  (clip01 (v.1 / Real.sqrt (v.1 * v.1 + v.2.1 * v.2.1 + v.2.2 * v.2.2)),
   clip01 (v.2.1 / Real.sqrt (v.1 * v.1 + v.2.1 * v.2.1 + v.2.2 * v.2.2)),
   clip01 (v.2.2 / Real.sqrt (v.1 * v.1 + v.2.1 * v.2.1 + v.2.2 * v.2.2)))

theorem gains_eq_normClip (P : Mat3 ℝ) (p : Vec3 ℝ) : Triplet.gains P p = normClip (Triplet.pv P p) := rfl

theorem sqrt_ne_zero_of_ne {v : Vec3 ℝ} (hv : v ≠ (0, 0, 0)) :
    Real.sqrt (v.1 * v.1 + v.2.1 * v.2.1 + v.2.2 * v.2.2) ≠ 0 := by
  obtain ⟨x, y, z⟩ := v
  simp only
  have h0 : 0 ≤ x * x + y * y + z * z := by nlinarith [mul_self_nonneg x, mul_self_nonneg y, mul_self_nonneg z]
  intro h
  have hz := (Real.sqrt_eq_zero h0).mp h
  apply hv
  have hx : x * x = 0 := by nlinarith [mul_self_nonneg x, mul_self_nonneg y, mul_self_nonneg z]
  have hy : y * y = 0 := by nlinarith [mul_self_nonneg x, mul_self_nonneg y, mul_self_nonneg z]
  have hz' : z * z = 0 := by nlinarith [mul_self_nonneg x, mul_self_nonneg y, mul_self_nonneg z]
  rw [mul_self_eq_zero.mp hx, mul_self_eq_zero.mp hy, mul_self_eq_zero.mp hz']

theorem continuousOn_normClip : ContinuousOn normClip {v : Vec3 ℝ | v ≠ (0, 0, 0)} := by
  have hn : ContinuousOn (fun v : Vec3 ℝ => Real.sqrt (v.1 * v.1 + v.2.1 * v.2.1 + v.2.2 * v.2.2))
      {v : Vec3 ℝ | v ≠ (0, 0, 0)} := by
    apply Continuous.continuousOn; fun_prop
  have hne : ∀ v ∈ {v : Vec3 ℝ | v ≠ (0, 0, 0)},
      Real.sqrt (v.1 * v.1 + v.2.1 * v.2.1 + v.2.2 * v.2.2) ≠ 0 := fun v hv => sqrt_ne_zero_of_ne hv
  unfold normClip
  refine ContinuousOn.prodMk ?_ (ContinuousOn.prodMk ?_ ?_)
  · exact continuous_clip01.comp_continuousOn ((continuous_fst.continuousOn).div hn hne)
  · exact continuous_clip01.comp_continuousOn (((continuous_fst.comp continuous_snd).continuousOn).div hn hne)
  · exact continuous_clip01.comp_continuousOn (((continuous_snd.comp continuous_snd).continuousOn).div hn hne)

/-- The gains of a triplet are a continuous function of the direction wherever the un-normalised gains are not
    the zero vector (for an invertible `P`: for every `p ≠ 0`). -/
theorem triplet_continuousOn (P : Mat3 ℝ) :
    ContinuousOn (fun p : Vec3 ℝ => Triplet.gains P p) {p | Triplet.pv P p ≠ (0, 0, 0)} := by
  have h : (fun p : Vec3 ℝ => Triplet.gains P p) = normClip ∘ (fun p => Triplet.pv P p) := by
    funext p; exact gains_eq_normClip P p
  rw [h]
  exact continuousOn_normClip.comp (continuous_pv P).continuousOn (fun p hp => hp)

/-- On its acceptance set the triplet's answer IS that continuous function (and outside it is "no result"). -/
theorem triplet_handle_continuousOn (P : Mat3 ℝ) :
    ∃ G : Vec3 ℝ → Vec3 ℝ, ContinuousOn G {p | Triplet.pv P p ≠ (0, 0, 0)} ∧
      (∀ p, Triplet.accepts P p → Triplet.handle P p = some (G p)) ∧
      (∀ p, ¬ Triplet.accepts P p → Triplet.handle P p = none) :=
  ⟨fun p => Triplet.gains P p, triplet_continuousOn P,
    fun p hp => by simp [Triplet.handle, hp], fun p hp => by simp [Triplet.handle, hp]⟩

/-! ### stereo wrapper -/

/-- the two outputs of `StereoPanDownmix.handle` as explicit real functions of the five inner gains -/
noncomputable def stereoL (g : ℝ × ℝ × ℝ × ℝ × ℝ) : ℝ :=
  let A := g.1 + Real.sqrt 3 / 3 * g.2.2.1 + Real.sqrt (1 / 2) * g.2.2.2.1
  let B := g.2.1 + Real.sqrt 3 / 3 * g.2.2.1 + Real.sqrt (1 / 2) * g.2.2.2.2
  A / Real.sqrt (A * A + (B * B + 0)) *
    (1 / 2 : ℝ) ^ (1 / 2 * max g.2.2.2.1 g.2.2.2.2 / (max (max g.1 g.2.1) g.2.2.1 + max g.2.2.2.1 g.2.2.2.2))

noncomputable def stereoR (g : ℝ × ℝ × ℝ × ℝ × ℝ) : ℝ :=
  let A := g.1 + Real.sqrt 3 / 3 * g.2.2.1 + Real.sqrt (1 / 2) * g.2.2.2.1
  let B := g.2.1 + Real.sqrt 3 / 3 * g.2.2.1 + Real.sqrt (1 / 2) * g.2.2.2.2
  B / Real.sqrt (A * A + (B * B + 0)) *
    (1 / 2 : ℝ) ^ (1 / 2 * max g.2.2.2.1 g.2.2.2.2 / (max (max g.1 g.2.1) g.2.2.1 + max g.2.2.2.1 g.2.2.2.2))

theorem stereo_handle_eq (g0 g1 g2 g3 g4 : ℝ) :
    StereoPanDownmix.handle (some [g0, g1, g2, g3, g4]) =
      some [stereoL (g0, g1, g2, g3, g4), stereoR (g0, g1, g2, g3, g4)] := by
  have hcast : (((1 / 2 : Rat)) : ℝ) = 1 / 2 := by push_cast; rfl
  simp only [StereoPanDownmix.handle, stereo_matVec, normalise, norm, sumsq, List.map_cons, List.map_nil,
    sqrt_real, zero_real, powHalf_real, max_real, ofRat_real, hcast, stereoL, stereoR]

/-- the set of non-negative, not all zero inner gain vectors -/
def stereoDomain : Set (ℝ × ℝ × ℝ × ℝ × ℝ) :=
  {g | 0 ≤ g.1 ∧ 0 ≤ g.2.1 ∧ 0 ≤ g.2.2.1 ∧ 0 ≤ g.2.2.2.1 ∧ 0 ≤ g.2.2.2.2 ∧ g ≠ (0, 0, 0, 0, 0)}

theorem stereo_aux {g : ℝ × ℝ × ℝ × ℝ × ℝ} (hg : g ∈ stereoDomain) :
    let A := g.1 + Real.sqrt 3 / 3 * g.2.2.1 + Real.sqrt (1 / 2) * g.2.2.2.1
    let B := g.2.1 + Real.sqrt 3 / 3 * g.2.2.1 + Real.sqrt (1 / 2) * g.2.2.2.2
    Real.sqrt (A * A + (B * B + 0)) ≠ 0 ∧ max (max g.1 g.2.1) g.2.2.1 + max g.2.2.2.1 g.2.2.2.2 ≠ 0 := by
  obtain ⟨g0, g1, g2, g3, g4⟩ := g
  obtain ⟨h0, h1, h2, h3, h4, hne⟩ := hg
  simp only at h0 h1 h2 h3 h4 ⊢
  have hcpos : (0 : ℝ) < Real.sqrt 3 / 3 := div_pos (Real.sqrt_pos.mpr (by norm_num)) (by norm_num)
  have hspos : (0 : ℝ) < Real.sqrt (1 / 2) := Real.sqrt_pos.mpr (by norm_num)
  -- some gain is positive
  have hsum : 0 < g0 + g1 + g2 + g3 + g4 := by
    rcases (lt_or_eq_of_le (by linarith : 0 ≤ g0 + g1 + g2 + g3 + g4)) with h | h
    · exact h
    · exfalso; apply hne
      have e0 : g0 = 0 := by linarith
      have e1 : g1 = 0 := by linarith
      have e2 : g2 = 0 := by linarith
      have e3 : g3 = 0 := by linarith
      have e4 : g4 = 0 := by linarith
      rw [e0, e1, e2, e3, e4]
  constructor
  · set c := Real.sqrt 3 / 3
    set s := Real.sqrt (1 / 2)
    have hA : 0 ≤ g0 + c * g2 + s * g3 := by have := mul_nonneg hcpos.le h2; have := mul_nonneg hspos.le h3; linarith
    have hB : 0 ≤ g1 + c * g2 + s * g4 := by have := mul_nonneg hcpos.le h2; have := mul_nonneg hspos.le h4; linarith
    have hAB : 0 < (g0 + c * g2 + s * g3) + (g1 + c * g2 + s * g4) := by
      by_contra hle
      have hz : (g0 + c * g2 + s * g3) + (g1 + c * g2 + s * g4) = 0 := by linarith
      have := mul_nonneg hcpos.le h2; have := mul_nonneg hspos.le h3; have := mul_nonneg hspos.le h4
      have e0 : g0 = 0 := by linarith
      have e1 : g1 = 0 := by linarith
      have e2 : c * g2 = 0 := by linarith
      have e3 : s * g3 = 0 := by linarith
      have e4 : s * g4 = 0 := by linarith
      have e2' : g2 = 0 := (mul_eq_zero.mp e2).resolve_left hcpos.ne'
      have e3' : g3 = 0 := (mul_eq_zero.mp e3).resolve_left hspos.ne'
      have e4' : g4 = 0 := (mul_eq_zero.mp e4).resolve_left hspos.ne'
      rw [e0, e1, e2', e3', e4'] at hsum
      norm_num at hsum
    apply (Real.sqrt_pos.mpr _).ne'
    have key : ∀ X Y : ℝ, 0 ≤ X → 0 ≤ Y → 0 < X + Y → 0 < X * X + (Y * Y + 0) := by
      intro X Y hX hY hXY
      rcases lt_or_eq_of_le hX with h | h
      · have := mul_pos h h; nlinarith [mul_self_nonneg Y]
      · have hY' : 0 < Y := by linarith
        have := mul_pos hY' hY'; nlinarith [mul_self_nonneg X]
    exact key _ _ hA hB hAB
  · have hf : 0 ≤ max (max g0 g1) g2 := le_trans h2 (le_max_right _ _)
    have hb : 0 ≤ max g3 g4 := le_trans h4 (le_max_right _ _)
    intro hz
    have hf0 : max (max g0 g1) g2 = 0 := by linarith
    have hb0 : max g3 g4 = 0 := by linarith
    have : g0 ≤ 0 := le_trans (le_trans (le_max_left _ _) (le_max_left _ _)) hf0.le
    have : g1 ≤ 0 := le_trans (le_trans (le_max_right _ _) (le_max_left _ _)) hf0.le
    have : g2 ≤ 0 := le_trans (le_max_right _ _) hf0.le
    have : g3 ≤ 0 := le_trans (le_max_left _ _) hb0.le
    have : g4 ≤ 0 := le_trans (le_max_right _ _) hb0.le
    linarith

/-- The stereo wrapper's two outputs are continuous functions of the (non-negative, non-zero) inner gains: the
    level law `0.5^(0.5·back/(front+back))` depends continuously on the front/back balance. -/
theorem stereo_continuousOn :
    (∀ g0 g1 g2 g3 g4 : ℝ, StereoPanDownmix.handle (some [g0, g1, g2, g3, g4]) =
      some [stereoL (g0, g1, g2, g3, g4), stereoR (g0, g1, g2, g3, g4)]) ∧
    ContinuousOn stereoL stereoDomain ∧ ContinuousOn stereoR stereoDomain := by
  refine ⟨stereo_handle_eq, ?_, ?_⟩
  · unfold stereoL
    refine ContinuousOn.mul (ContinuousOn.div (by fun_prop) (by fun_prop) (fun g hg => (stereo_aux hg).1)) ?_
    refine (Real.continuous_const_rpow (by norm_num)).comp_continuousOn ?_
    exact ContinuousOn.div (by fun_prop) (by fun_prop) (fun g hg => (stereo_aux hg).2)
  · unfold stereoR
    refine ContinuousOn.mul (ContinuousOn.div (by fun_prop) (by fun_prop) (fun g hg => (stereo_aux hg).1)) ?_
    refine (Real.continuous_const_rpow (by norm_num)).comp_continuousOn ?_
    exact ContinuousOn.div (by fun_prop) (by fun_prop) (fun g hg => (stereo_aux hg).2)

/-! ### downmix wrapper -/

theorem continuous_dot_ofFn {m : Nat} : ∀ (row : List ℝ), Continuous (fun v : Fin m → ℝ => dot row (List.ofFn v)) := by
  induction m with
  | zero => intro row; cases row <;> simp [dot] <;> exact continuous_const
  | succ k ih =>
    intro row
    cases row with
    | nil => simp only [dot]; exact continuous_const
    | cons x xs =>
      simp only [List.ofFn_succ, dot]
      refine (continuous_const.mul (continuous_apply 0)).add ?_
      exact (ih xs).comp (continuous_pi fun i => continuous_apply (Fin.succ i))

theorem continuous_sumsq_matVec {m : Nat} : ∀ (D : List (List ℝ)),
    Continuous (fun v : Fin m → ℝ => sumsq (matVec D (List.ofFn v)))
  | [] => by simp only [matVec, List.map_nil, sumsq]; exact continuous_const
  | row :: rest => by
    have ih := continuous_sumsq_matVec (m := m) rest
    simp only [matVec, List.map_cons, sumsq] at ih ⊢
    exact ((continuous_dot_ofFn row).mul (continuous_dot_ofFn row)).add ih

/-- PointSourcePannerDownmix: every output coordinate is a continuous function of the inner gain vector wherever
    the downmixed vector is not zero. (Lists carry no topology: the inner vector is `List.ofFn v`, `v : Fin m → ℝ`.) -/
theorem downmix_continuousOn {m : Nat} (D : List (List ℝ)) (i : Nat) :
    (∀ v : Fin m → ℝ, PointSourcePannerDownmix.handle D (some (List.ofFn v)) =
      some ((matVec D (List.ofFn v)).map (· / Real.sqrt (sumsq (matVec D (List.ofFn v)))))) ∧
    ContinuousOn (fun v : Fin m → ℝ => dot (D.getD i []) (List.ofFn v) / Real.sqrt (sumsq (matVec D (List.ofFn v))))
      {v | sumsq (matVec D (List.ofFn v)) ≠ 0} := by
  refine ⟨fun v => by simp [PointSourcePannerDownmix.handle, normalise, norm], ?_⟩
  refine ContinuousOn.div (continuous_dot_ofFn _).continuousOn (continuous_sumsq_matVec D).sqrt.continuousOn ?_
  intro v hv
  have h0 := sumsq_nonneg (matVec D (List.ofFn v))
  exact (Real.sqrt_pos.mpr (lt_of_le_of_ne h0 (Ne.symm hv))).ne'

/-! ### closedness of the acceptance sets -/

/-- The acceptance set of a triplet, `{p | ε ≤ every component of p·P⁻¹}`, is closed — for every threshold `ε` (the
    code's −1e-11, the idealised 0) and every matrix (for a singular `P` the model's `inv3` divides by 0 = 0 over ℝ and
    `pv` is still linear).  A fortiori it is closed in the set of directions ≠ 0. -/
theorem triplet_accept_isClosed (ε : ℝ) (P : Mat3 ℝ) : IsClosed {p : Vec3 ℝ | Triplet.acceptsE ε P p} := by
  have hc := continuous_pv P
  have h1 : IsClosed {p : Vec3 ℝ | ε ≤ (Triplet.pv P p).1} := isClosed_le continuous_const (continuous_fst.comp hc)
  have h2 : IsClosed {p : Vec3 ℝ | ε ≤ (Triplet.pv P p).2.1} :=
    isClosed_le continuous_const ((continuous_fst.comp continuous_snd).comp hc)
  have h3 : IsClosed {p : Vec3 ℝ | ε ≤ (Triplet.pv P p).2.2} :=
    isClosed_le continuous_const ((continuous_snd.comp continuous_snd).comp hc)
  exact h1.inter (h2.inter h3)

/-- ... in particular the set of directions for which the model's `Triplet.handle` returns a result -/
theorem triplet_accept_isClosed_code (P : Mat3 ℝ) : IsClosed {p : Vec3 ℝ | Triplet.handle P p ≠ none} := by
  have : {p : Vec3 ℝ | Triplet.handle P p ≠ none} = {p | Triplet.acceptsE tripletEps P p} := by
    ext p
    simp only [mem_ofPred_eq, Triplet.handle, acceptsE_eps]
    by_cases h : Triplet.accepts P p <;> simp [h]
  rw [this]; exact triplet_accept_isClosed _ P

theorem isClosed_exists_mem {ι : Type} (A : ι → Set (Vec3 ℝ)) : ∀ l : List ι, (∀ r ∈ l, IsClosed (A r)) →
    IsClosed {p | ∃ r ∈ l, p ∈ A r}
  | [], _ => by simp
  | a :: rest, h => by
    have : {p | ∃ r ∈ a :: rest, p ∈ A r} = A a ∪ {p | ∃ r ∈ rest, p ∈ A r} := by
      ext p; simp
    rw [this]
    exact (h a (by simp)).union (isClosed_exists_mem A rest (fun r hr => h r (List.mem_cons_of_mem _ hr)))

/-- the acceptance set of a virtual n-gon (union of its inner triplets' acceptance sets) is closed -/
theorem ngon_accept_isClosed (g : VirtualNgon ℝ) : IsClosed {p : Vec3 ℝ | g.handle p ≠ none} := by
  have : {p : Vec3 ℝ | g.handle p ≠ none} = {p | ∃ r ∈ g.regions, p ∈ {p | Triplet.acceptsE tripletEps r.2 p}} := by
    ext p
    simp only [mem_ofPred_eq, ne_eq, ngon_handle_eq, firstAccept_eq_none, not_forall, List.mem_map]
    constructor
    · rintro ⟨x, ⟨r, hr, rfl⟩, hx⟩
      refine ⟨r, hr, ?_⟩
      by_contra hacc
      apply hx
      have : Triplet.handle r.2 p = none := by
        rw [← handleE_eps]; simp [Triplet.handleE, hacc]
      simp [VirtualNgon.candidate, this, remap]
    · rintro ⟨r, hr, hacc⟩
      refine ⟨_, ⟨r, hr, rfl⟩, ?_⟩
      have : Triplet.handle r.2 p = some (Triplet.gains r.2 p) := by
        rw [← handleE_eps]; simp [Triplet.handleE, hacc]
      simp [VirtualNgon.candidate, this, remap]
  rw [this]
  exact isClosed_exists_mem _ _ (fun r _ => triplet_accept_isClosed _ r.2)


/-! ### an all-triplet panner at acceptance slack 0 -/

/-- output channel of row `a` of a triplet -/
def chanAt (ch : List Nat) (a : Fin 3) : Nat := ch.getD a.1 0

/-- a three-channel remap of gains supported on rows `i`, `j`, read at channel `c` -/
theorem remap3_supported (n c c0 c1 c2 : Nat) (h01 : c0 ≠ c1) (h02 : c0 ≠ c2) (h12 : c1 ≠ c2) (g : Vec3 ℝ)
    (i j : Fin 3) (hij : i ≠ j) (hk : ∀ k, k ≠ i → k ≠ j → coord g k = 0) :
    (scatter (zeros n) [c0, c1, c2] (vecList g)).getD c 0 =
      (if c = chanAt [c0, c1, c2] i ∧ c < n then coord g i else 0) +
        (if c = chanAt [c0, c1, c2] j ∧ c < n then coord g j else 0) := by
  obtain ⟨g0, g1, g2⟩ := g
  simp only [vecList]
  rw [scatter3_getD]
  fin_cases i <;> fin_cases j <;> simp only [ne_eq, not_true_eq_false, Fin.zero_eta, Fin.mk_one, Fin.reduceFinMk] at hij
  all_goals simp only [chanAt, coord, List.getD_cons_zero, List.getD_cons_succ]
  · have h2 := hk 2 (by decide) (by decide); simp only [coord] at h2; subst h2
    split_ifs <;> first | rfl | (simp; done) | omega
  · have h2 := hk 1 (by decide) (by decide); simp only [coord] at h2; subst h2
    split_ifs <;> first | rfl | (simp; done) | omega
  · have h2 := hk 2 (by decide) (by decide); simp only [coord] at h2; subst h2
    split_ifs <;> first | rfl | (simp; done) | omega
  · have h2 := hk 0 (by decide) (by decide); simp only [coord] at h2; subst h2
    split_ifs <;> first | rfl | (simp; done) | omega
  · have h2 := hk 1 (by decide) (by decide); simp only [coord] at h2; subst h2
    split_ifs <;> first | rfl | (simp; done) | omega
  · have h2 := hk 0 (by decide) (by decide); simp only [coord] at h2; subst h2
    split_ifs <;> first | rfl | (simp; done) | omega

/-- a region of an all-triplet panner: (output channels, positions) -/
abbrev TRegion := List Nat × Mat3 ℝ

/-- three distinct output channels -/
def TRegion.chOk (r : TRegion) : Prop := ∃ c0 c1 c2, r.1 = [c0, c1, c2] ∧ c0 ≠ c1 ∧ c0 ≠ c2 ∧ c1 ≠ c2

/-- THE COMBINATORIAL HYPOTHESIS on a pair of triplets: their exact (slack 0) acceptance cones meet only in a shared
    face.  Every common direction `p ≠ 0` lies on the arc `s·a + t·b` (`s, t ≥ 0`) between two loudspeakers `a`, `b`
    of the first triplet such that `a` is also a loudspeaker of the second triplet, on the same output channel, and
    either `t = 0` (the direction IS the shared loudspeaker `a`: shared vertex) or the same holds for `b` (shared
    edge). -/
def MeetInSharedFace (r r' : TRegion) : Prop :=
  ∀ p : Vec3 ℝ, p ≠ (0, 0, 0) → Triplet.acceptsE 0 r.2 p → Triplet.acceptsE 0 r'.2 p →
    ∃ (i j i' j' : Fin 3) (s t : ℝ), i ≠ j ∧ i' ≠ j' ∧ 0 ≤ s ∧ 0 ≤ t ∧
      p = edgePoint s t (row r.2 i) (row r.2 j) ∧
      row r.2 i = row r'.2 i' ∧ chanAt r.1 i = chanAt r'.1 i' ∧
      (t = 0 ∨ (row r.2 j = row r'.2 j' ∧ chanAt r.1 j = chanAt r'.1 j'))

theorem edgePoint_zero_right (s : ℝ) (a b b' : Vec3 ℝ) : edgePoint s 0 a b = edgePoint s 0 a b' := by
  simp [edgePoint, add3, smul3]

theorem handle_some_eq_gains {P : Mat3 ℝ} {p g : Vec3 ℝ} (h : Triplet.handle P p = some g) : g = Triplet.gains P p := by
  unfold Triplet.handle at h
  split at h
  · exact (Option.some.inj h).symm
  · simp at h

/-- the remapped output of one triplet, read at channel `c` -/
noncomputable def tripletOut (n : Nat) (r : TRegion) (p : Vec3 ℝ) : List ℝ :=
  scatter (zeros n) r.1 (vecList (Triplet.gains r.2 p))

/-- AGREEMENT, discharged from the combinatorial hypothesis by `triplet_on_edge`: two invertible triplets whose exact
    cones meet only in a shared face give every output channel the same gain at every common direction. -/
theorem shared_face_agreement (r r' : TRegion) (hd : det3 r.2 ≠ 0) (hd' : det3 r'.2 ≠ 0) (hch : r.chOk)
    (hch' : r'.chOk) (h : MeetInSharedFace r r') (n c : Nat) (p : Vec3 ℝ) (hp : p ≠ (0, 0, 0))
    (ha : Triplet.acceptsE 0 r.2 p) (ha' : Triplet.acceptsE 0 r'.2 p) :
    (tripletOut n r p).getD c 0 = (tripletOut n r' p).getD c 0 := by
  obtain ⟨i, j, i', j', s, t, hij, hij', hs, ht, hpe, hri, hci, hj⟩ := h p hp ha ha'
  have hne : s * s + t * t ≠ 0 := by
    intro h0
    have hs0 : s = 0 := by nlinarith [mul_self_nonneg s, mul_self_nonneg t]
    have ht0 : t = 0 := by nlinarith [mul_self_nonneg s, mul_self_nonneg t]
    apply hp; rw [hpe, hs0, ht0]; simp [edgePoint, add3, smul3]
  obtain ⟨g, hg, gi, gj, gk⟩ := triplet_on_edge r.2 hd i j hij s t hs ht hne
  have hpe' : p = edgePoint s t (row r'.2 i') (row r'.2 j') := by
    rcases hj with rfl | ⟨hrj, _⟩
    · rw [hpe, hri]; exact edgePoint_zero_right _ _ _ _
    · rw [hpe, hri, hrj]
  obtain ⟨g', hg', gi', gj', gk'⟩ := triplet_on_edge r'.2 hd' i' j' hij' s t hs ht hne
  rw [← hpe] at hg
  rw [← hpe'] at hg'
  obtain ⟨c0, c1, c2, hc, h01, h02, h12⟩ := hch
  obtain ⟨d0, d1, d2, hc', k01, k02, k12⟩ := hch'
  unfold tripletOut
  rw [← handle_some_eq_gains hg, ← handle_some_eq_gains hg', hc, hc',
    remap3_supported n c c0 c1 c2 h01 h02 h12 g i j hij gk, remap3_supported n c d0 d1 d2 k01 k02 k12 g' i' j' hij' gk',
    gi, gj, gi', gj', ← hc, ← hc', hci]
  congr 1
  rcases hj with rfl | ⟨_, hcj⟩
  · simp
  · rw [hcj]

theorem tripletOut_length (n : Nat) (r : TRegion) (p : Vec3 ℝ) : (tripletOut n r p).length = n := by
  simp [tripletOut, scatter_length, zeros]

/-- the acceptance set of a triplet region at slack 0, without the origin -/
def TRegion.cone (r : TRegion) : Set (Vec3 ℝ) := {p | Triplet.acceptsE 0 r.2 p} ∩ {p | p ≠ (0, 0, 0)}

/-- every output channel of an invertible triplet is continuous in the direction away from the origin -/
theorem tripletOut_continuousOn_ne (n c : Nat) (r : TRegion) (hd : det3 r.2 ≠ 0) :
    ContinuousOn (fun p => (tripletOut n r p).getD c 0) {p | p ≠ (0, 0, 0)} := by
  have h1 : ContinuousOn (fun p : Vec3 ℝ => Triplet.gains r.2 p) {p | p ≠ (0, 0, 0)} :=
    (triplet_continuousOn r.2).mono (fun p hp => pv_ne_zero r.2 hd p hp)
  exact (continuous_remap3 r.1 n c).comp_continuousOn h1

theorem tripletOut_continuousOn (n c : Nat) (r : TRegion) (hd : det3 r.2 ≠ 0) :
    ContinuousOn (fun p => (tripletOut n r p).getD c 0) r.cone :=
  (tripletOut_continuousOn_ne n c r hd).mono (fun _ hp => hp.2)

/-- IDEALISED (acceptance slack 0 instead of the code's −1e-11) and for triplet regions only.
    A panner whose regions are invertible triplets with three distinct output channels each, any two of which meet
    only in a shared face: every output channel's gain is a continuous function of the direction on the union of the
    cones (origin removed), and there the panner's answer is the answer of ANY triplet containing the direction.
    Missing for the property: (1) the code's slack −1e-11 makes neighbouring acceptance sets overlap in slivers on
    which the answers differ by O(1e-11) (`triplet_sliver_bound`), so the code's function is continuous only up to
    jumps of that size; (2) quad and n-gon regions; (3) that the cones cover the sphere (C05). -/
theorem panner_continuousOn_triplets_partial (regions : List TRegion) (n : Nat)
    (hdet : ∀ r ∈ regions, det3 r.2 ≠ 0) (hch : ∀ r ∈ regions, r.chOk)
    (hface : ∀ r ∈ regions, ∀ r' ∈ regions, r ≠ r' → MeetInSharedFace r r') :
    (∀ c, ContinuousOn (fun p => ((tripletPannerE 0 regions n p).map (·.getD c 0)).getD 0)
      {p | ∃ r ∈ regions, p ∈ r.cone}) ∧
    (∀ r ∈ regions, ∀ p ∈ r.cone, tripletPannerE 0 regions n p = some (tripletOut n r p)) ∧
    (∀ p, p ≠ (0, 0, 0) → (¬ ∃ r ∈ regions, p ∈ r.cone) → tripletPannerE 0 regions n p = none) := by
  -- the candidate list of the panner at p ≠ 0, per output coordinate, is the abstract candidate list
  have hagree : ∀ r ∈ regions, ∀ r' ∈ regions, ∀ p, p ∈ r.cone → p ∈ r'.cone → ∀ c,
      (tripletOut n r p).getD c 0 = (tripletOut n r' p).getD c 0 := by
    intro r hr r' hr' p hp hp' c
    by_cases e : r = r'
    · rw [e]
    · exact shared_face_agreement r r' (hdet r hr) (hdet r' hr') (hch r hr) (hch r' hr') (hface r hr r' hr' e) n c p
        hp.2 hp.1 hp'.1
  have hcand : ∀ p, p ≠ (0, 0, 0) → ∀ (f : List ℝ → ℝ) (l : List TRegion),
      (l.map fun r => remap r.1 n ((Triplet.handleE 0 r.2 p).map vecList)).map (Option.map f) =
        candidates (l.map fun r => (r.cone, fun q => f (tripletOut n r q))) p := by
    intro p hp f l
    simp only [candidates, List.map_map]
    apply List.map_congr_left
    intro r _
    by_cases hacc : Triplet.acceptsE 0 r.2 p
    · have : p ∈ r.cone := ⟨hacc, hp⟩
      simp [Triplet.handleE, hacc, remap, this, tripletOut]
    · have : p ∉ r.cone := fun h => hacc h.1
      simp [Triplet.handleE, hacc, remap, this]
  have hU : ∀ f : List ℝ → ℝ, accUnion (regions.map fun r => (r.cone, fun q => f (tripletOut n r q))) =
      {p | ∃ r ∈ regions, p ∈ r.cone} := by
    intro f; ext p; simp [accUnion]
  refine ⟨fun c => ?_, ?_, ?_⟩
  · set rs : List (Set (Vec3 ℝ) × (Vec3 ℝ → ℝ)) := regions.map fun r => (r.cone, fun q => (tripletOut n r q).getD c 0)
      with hrs
    have main := firstAccept_continuousOn_aux {p : Vec3 ℝ | p ≠ (0, 0, 0)} rs 0
      (by
        intro x hx
        obtain ⟨r, _, rfl⟩ := List.mem_map.mp hx
        exact ⟨_, triplet_accept_isClosed 0 r.2, rfl⟩)
      (by
        intro x hx
        obtain ⟨r, hr, rfl⟩ := List.mem_map.mp hx
        exact tripletOut_continuousOn n c r (hdet r hr))
      (by
        intro x hx x' hx' p hp hp'
        obtain ⟨r, hr, rfl⟩ := List.mem_map.mp hx
        obtain ⟨r', hr', rfl⟩ := List.mem_map.mp hx'
        exact hagree r hr r' hr' p hp hp' c)
    rw [hrs, hU (fun l => l.getD c 0)] at main
    refine main.1.congr ?_
    intro p hp
    obtain ⟨r, _, hpr⟩ := hp
    simp only [tripletPannerE, firstAccept_map, hcand p hpr.2 (fun l => l.getD c 0) regions]
  · intro r hr p hp
    have hsome : ∀ c, (tripletPannerE 0 regions n p).map (·.getD c 0) = some ((tripletOut n r p).getD c 0) := by
      intro c
      simp only [tripletPannerE, firstAccept_map, hcand p hp.2 (fun l => l.getD c 0) regions]
      exact firstAccept_eq_of_agree _ p _ ⟨_, List.mem_map.mpr ⟨r, hr, rfl⟩, hp⟩ (by
        intro x hx hpx
        obtain ⟨r', hr', rfl⟩ := List.mem_map.mp hx
        exact hagree r' hr' r hr p hpx hp c)
    cases hres : tripletPannerE 0 regions n p with
    | none => have := hsome 0; rw [hres] at this; simp at this
    | some out =>
      congr 1
      have hmem := firstAccept_mem hres
      obtain ⟨r', hr', he⟩ := List.mem_map.mp hmem
      have hlen : out.length = n := by
        cases hh : Triplet.handleE 0 r'.2 p with
        | none => rw [hh] at he; simp [remap] at he
        | some g =>
          rw [hh] at he
          simp only [remap, Option.map_some, Option.some.injEq] at he
          rw [← he]; simp [scatter_length, zeros]
      apply list_ext_getD (by rw [hlen, tripletOut_length])
      intro c
      have := hsome c
      rw [hres] at this
      simpa using this
  · intro p hp hnone
    unfold tripletPannerE
    rw [firstAccept_eq_none]
    intro x hx
    obtain ⟨r, hr, rfl⟩ := List.mem_map.mp hx
    have : ¬ Triplet.acceptsE 0 r.2 p := fun h => hnone ⟨r, hr, h, hp⟩
    simp [Triplet.handleE, this, remap]


/-! ### the pasting theorem (headline; proof in Proofs/C12Paste.lean) -/

/-- PASTING along `PointSourcePanner.handle`'s loop (`firstAccept`).  Finitely many regions `(A_i, g_i)`; every
    acceptance set `A_i` is closed in `S` (`A_i = C_i ∩ S`, `C_i` closed; for the panner `S` = directions ≠ 0);
    `g_i` is continuous on `A_i`; `g_i = g_j` on `A_i ∩ A_j`.  Then "the value of the first region whose acceptance
    set contains `p`" is continuous on `⋃ A_i`; on each `A_i` it is `g_i` (with pairwise agreement the first accepting
    region's value is ANY accepting region's value), and outside `⋃ A_i` the loop returns `None`. -/
theorem firstAccept_continuousOn {X Y : Type} [TopologicalSpace X] [TopologicalSpace Y] (S : Set X)
    (rs : List (Set X × (X → Y))) (d : Y)
    (hcl : ∀ r ∈ rs, ∃ C, IsClosed C ∧ r.1 = C ∩ S)
    (hc : ∀ r ∈ rs, ContinuousOn r.2 r.1)
    (hag : ∀ r ∈ rs, ∀ r' ∈ rs, ∀ p, p ∈ r.1 → p ∈ r'.1 → r.2 p = r'.2 p) :
    ContinuousOn (fun p => (firstAccept (candidates rs p)).getD d) (accUnion rs) ∧
      (∀ r ∈ rs, ∀ p ∈ r.1, firstAccept (candidates rs p) = some (r.2 p)) ∧
      (∀ p, p ∉ accUnion rs → firstAccept (candidates rs p) = none) :=
  firstAccept_continuousOn_aux S rs d hcl hc hag

/-- QUANTITATIVE PASTING (headline; proof in Proofs/C12Paste.lean).  As `firstAccept_continuousOn`, but the handlers only
    agree up to `η` on the overlaps (`dist (g_i p) (g_j p) ≤ η` on `A_i ∩ A_j`) — the situation of the real code, whose
    acceptance slack −1e-11 makes neighbouring regions overlap in slivers.  Then around every point `x` of the union the
    first-accept function varies by at most `η + δ`, for every `δ > 0`: its jumps are bounded by `η`. -/
theorem firstAccept_jump_bound {X Y : Type} [TopologicalSpace X] [PseudoMetricSpace Y] (S : Set X)
    (rs : List (Set X × (X → Y))) (d : Y) (η : ℝ)
    (hcl : ∀ r ∈ rs, ∃ C, IsClosed C ∧ r.1 = C ∩ S)
    (hc : ∀ r ∈ rs, ContinuousOn r.2 r.1)
    (hη : ∀ r ∈ rs, ∀ r' ∈ rs, ∀ p, p ∈ r.1 → p ∈ r'.1 → dist (r.2 p) (r'.2 p) ≤ η) :
    ∀ x ∈ accUnion rs, ∀ δ > 0, ∀ᶠ y in nhdsWithin x (accUnion rs),
      dist ((firstAccept (candidates rs y)).getD d) ((firstAccept (candidates rs x)).getD d) ≤ η + δ :=
  firstAccept_jump_bound_aux S rs d η hcl hc hη

/-- non-vacuity of the pasting hypotheses: `x ↦ max x 0` pasted from `0` on `(-∞, 0]` and `x` on `[0, ∞)` -/
example : let rs : List (Set ℝ × (ℝ → ℝ)) := [(Iic 0, fun _ => 0), (Ici 0, fun x => x)]
    (∀ r ∈ rs, ∃ C, IsClosed C ∧ r.1 = C ∩ univ) ∧ (∀ r ∈ rs, ContinuousOn r.2 r.1) ∧
      (∀ r ∈ rs, ∀ r' ∈ rs, ∀ p, p ∈ r.1 → p ∈ r'.1 → r.2 p = r'.2 p) ∧
      firstAccept (candidates rs 2) = some 2 := by
  intro rs
  refine ⟨?_, ?_, ?_, ?_⟩
  · intro r hr
    simp only [rs, List.mem_cons, List.mem_nil_iff, or_false] at hr
    rcases hr with rfl | rfl
    · exact ⟨Iic 0, isClosed_Iic, by simp⟩
    · exact ⟨Ici 0, isClosed_Ici, by simp⟩
  · intro r hr
    simp only [rs, List.mem_cons, List.mem_nil_iff, or_false] at hr
    rcases hr with rfl | rfl
    · exact continuousOn_const
    · exact continuousOn_id
  · intro r hr r' hr' p hp hp'
    simp only [rs, List.mem_cons, List.mem_nil_iff, or_false] at hr hr'
    rcases hr with rfl | rfl <;> rcases hr' with rfl | rfl <;> simp only [mem_Iic, mem_Ici] at hp hp' ⊢ <;> linarith
  · have h : ¬ ((2 : ℝ) ≤ 0) := by norm_num
    simp [rs, candidates, firstAccept, h]

/-! ### the quad: what can and what cannot be said about its acceptance set -/

/-- For GIVEN pan values `x`, `y` the only test `QuadRegion.handle` makes on the direction is the strict inequality
    `pvs·positions·p > 0`: an OPEN half-space.  Whether the quad's true acceptance set (directions for which
    `pan_axis` finds a root in `[−1e-10, 1+1e-10]` on both axes, with the roots `np.roots` happens to select, and the
    sign test passes) is closed in the directions ≠ 0 depends on that root selection, which is a parameter of the model:
    NOT proved (and for non-planar quads the selected root is not even a continuous function of the direction:
    `quad_two_valued_witness`). -/
theorem quad_accept_isOpen_of_roots (q : QuadRegion ℝ) (x y : ℝ) :
    IsOpen {p : Vec3 ℝ | q.handle (some x) (some y) p ≠ none} := by
  set v := comb (scatter (zeros 4) q.order (QuadRegion.weights x y)) q.positions with hv
  have : {p : Vec3 ℝ | q.handle (some x) (some y) p ≠ none} = {p | 0 < dot3 v p} := by
    ext p
    simp only [mem_ofPred_eq, QuadRegion.handle, ← hv, zero_real]
    by_cases h : dot3 v p ≤ 0
    · simp [h, not_lt.mpr h]
    · simp [h, not_le.mp h]
  rw [this]
  obtain ⟨v0, v1, v2⟩ := v
  simp only [dot3]
  exact isOpen_lt continuous_const (by fun_prop)


/-! ### the pasting theorems on the model's `PointSourcePanner.handle` (any region types, the code's threshold) -/

/-- answer of region number `k` of a panner at `p` (`None` if it rejects); `ρ p` = the quad roots at `p` -/
noncomputable def regionAnswer (regions : List (Region ℝ)) (n : Nat) (ρ : Vec3 ℝ → Nat → Option ℝ × Option ℝ) (k : Nat)
    (p : Vec3 ℝ) : Option (List ℝ) :=
  (PointSourcePanner.results regions n (ρ p) p).getD k none

theorem results_eq_range (regions : List (Region ℝ)) (n : Nat) (ρ : Vec3 ℝ → Nat → Option ℝ × Option ℝ) (p : Vec3 ℝ) :
    PointSourcePanner.results regions n (ρ p) p = (List.range regions.length).map fun k => regionAnswer regions n ρ k p := by
  have hlen : (PointSourcePanner.results regions n (ρ p) p).length = regions.length := by
    simp [PointSourcePanner.results]
  apply List.ext_getElem (by simp [hlen])
  intro i h1 h2
  simp [regionAnswer, List.getD_eq_getElem?_getD, List.getElem?_eq_getElem h1]

/-- the regions of a panner as (acceptance set inside `S`, gain of output channel `c`) -/
noncomputable def pannerRegions (regions : List (Region ℝ)) (n : Nat) (ρ : Vec3 ℝ → Nat → Option ℝ × Option ℝ)
    (S : Set (Vec3 ℝ)) (c : Nat) : List (Set (Vec3 ℝ) × (Vec3 ℝ → ℝ)) :=
  (List.range regions.length).map fun k =>
    ({p | regionAnswer regions n ρ k p ≠ none} ∩ S, fun p => ((regionAnswer regions n ρ k p).map (·.getD c 0)).getD 0)

theorem pannerRegions_union (regions : List (Region ℝ)) (n : Nat) (ρ : Vec3 ℝ → Nat → Option ℝ × Option ℝ)
    (S : Set (Vec3 ℝ)) (c : Nat) :
    accUnion (pannerRegions regions n ρ S c) = {p | p ∈ S ∧ ∃ k < regions.length, regionAnswer regions n ρ k p ≠ none} := by
  ext p
  simp only [accUnion, pannerRegions, List.mem_map, List.mem_range, mem_ofPred_eq]
  constructor
  · rintro ⟨r, ⟨k, hk, rfl⟩, hp⟩; exact ⟨hp.2, k, hk, hp.1⟩
  · rintro ⟨hS, k, hk, hp⟩; exact ⟨_, ⟨k, hk, rfl⟩, hp, hS⟩

/-- on `S`, channel `c` of the model's `PointSourcePanner.handle` IS the abstract first-accept loop over `pannerRegions` -/
theorem panner_eq_candidates (regions : List (Region ℝ)) (n : Nat) (ρ : Vec3 ℝ → Nat → Option ℝ × Option ℝ)
    (S : Set (Vec3 ℝ)) (c : Nat) (p : Vec3 ℝ) (hS : p ∈ S) :
    (PointSourcePanner.handle regions n (ρ p) p).map (·.getD c 0) =
      firstAccept (candidates (pannerRegions regions n ρ S c) p) := by
  simp only [PointSourcePanner.handle, firstAccept_map, results_eq_range, List.map_map]
  congr 1
  simp only [pannerRegions, candidates, List.map_map]
  apply List.map_congr_left
  intro k _
  simp only [Function.comp]
  by_cases hk : regionAnswer regions n ρ k p = none
  · have : p ∉ ({p | regionAnswer regions n ρ k p ≠ none} ∩ S) := fun hm => hm.1 hk
    rw [if_neg this, hk]; rfl
  · have : p ∈ ({p | regionAnswer regions n ρ k p ≠ none} ∩ S) := ⟨hk, hS⟩
    rw [if_pos this]
    obtain ⟨v, hv⟩ := Option.ne_none_iff_exists'.mp hk
    rw [hv]; rfl

/-- `firstAccept_continuousOn` transported to the model of `PointSourcePanner.handle`, for ANY list of regions
    (triplets, n-gons, quads with root selection `ρ`) and the code's own thresholds.  Hypotheses, per output channel `c`
    and on the set `S` of admissible directions: every region's acceptance set is closed in `S`, its answer is
    continuous on it, and any two regions that both accept give channel `c` the same gain.  Conclusion: the panner's
    gain for channel `c` is continuous on the union of the acceptance sets.
    (For triplets the first two hypotheses are `triplet_accept_isClosed` / `triplet_continuousOn`; the third holds
    exactly only for slack 0 — `shared_face_agreement` — and up to `C·1e-11` for the code — `triplet_sliver_bound`,
    for which see `panner_jump_bound_of_regions`.) -/
theorem panner_continuousOn_of_regions (regions : List (Region ℝ)) (n : Nat)
    (ρ : Vec3 ℝ → Nat → Option ℝ × Option ℝ) (S : Set (Vec3 ℝ)) (c : Nat)
    (hcl : ∀ k < regions.length, ∃ C, IsClosed C ∧ {p | regionAnswer regions n ρ k p ≠ none} ∩ S = C ∩ S)
    (hc : ∀ k < regions.length, ContinuousOn (fun p => ((regionAnswer regions n ρ k p).map (·.getD c 0)).getD 0)
      ({p | regionAnswer regions n ρ k p ≠ none} ∩ S))
    (hag : ∀ k < regions.length, ∀ j < regions.length, ∀ p ∈ S, regionAnswer regions n ρ k p ≠ none →
      regionAnswer regions n ρ j p ≠ none →
      (regionAnswer regions n ρ k p).map (·.getD c 0) = (regionAnswer regions n ρ j p).map (·.getD c 0)) :
    ContinuousOn (fun p => ((PointSourcePanner.handle regions n (ρ p) p).map (·.getD c 0)).getD 0)
      {p | p ∈ S ∧ ∃ k < regions.length, regionAnswer regions n ρ k p ≠ none} := by
  have main := firstAccept_continuousOn_aux S (pannerRegions regions n ρ S c) 0
    (by
      intro x hx
      obtain ⟨k, hk, rfl⟩ := List.mem_map.mp hx
      exact hcl k (List.mem_range.mp hk))
    (by
      intro x hx
      obtain ⟨k, hk, rfl⟩ := List.mem_map.mp hx
      exact hc k (List.mem_range.mp hk))
    (by
      intro x hx x' hx' p hp hp'
      obtain ⟨k, hk, rfl⟩ := List.mem_map.mp hx
      obtain ⟨j, hj, rfl⟩ := List.mem_map.mp hx'
      have := hag k (List.mem_range.mp hk) j (List.mem_range.mp hj) p hp.2 hp.1 hp'.1
      simp only [this])
  rw [pannerRegions_union] at main
  refine main.1.congr ?_
  intro p hp
  simp only [panner_eq_candidates regions n ρ S c p hp.1]

/-- QUANTITATIVE version ("continuous up to jumps of η"): as `panner_continuousOn_of_regions`, but two regions that both
    accept may differ by up to `η` on channel `c` (for the code's slack: `η = C·1e-11` on the slivers between edge-sharing
    triplets, `triplet_sliver_bound`).  Then around every direction `x` of the union, channel `c` of the panner's answer
    varies by at most `η + δ`, for every `δ > 0`: the jumps of the composed panner are bounded by `η`. -/
theorem panner_jump_bound_of_regions (regions : List (Region ℝ)) (n : Nat)
    (ρ : Vec3 ℝ → Nat → Option ℝ × Option ℝ) (S : Set (Vec3 ℝ)) (c : Nat) (η : ℝ)
    (hcl : ∀ k < regions.length, ∃ C, IsClosed C ∧ {p | regionAnswer regions n ρ k p ≠ none} ∩ S = C ∩ S)
    (hc : ∀ k < regions.length, ContinuousOn (fun p => ((regionAnswer regions n ρ k p).map (·.getD c 0)).getD 0)
      ({p | regionAnswer regions n ρ k p ≠ none} ∩ S))
    (hη : ∀ k < regions.length, ∀ j < regions.length, ∀ p ∈ S, regionAnswer regions n ρ k p ≠ none →
      regionAnswer regions n ρ j p ≠ none →
      |((regionAnswer regions n ρ k p).map (·.getD c 0)).getD 0 - ((regionAnswer regions n ρ j p).map (·.getD c 0)).getD 0| ≤ η) :
    let U := {p | p ∈ S ∧ ∃ k < regions.length, regionAnswer regions n ρ k p ≠ none}
    let G := fun p => ((PointSourcePanner.handle regions n (ρ p) p).map (·.getD c 0)).getD 0
    ∀ x ∈ U, ∀ δ > 0, ∀ᶠ y in nhdsWithin x U, |G y - G x| ≤ η + δ := by
  intro U G x hx δ hδ
  have main := firstAccept_jump_bound_aux S (pannerRegions regions n ρ S c) 0 η
    (by
      intro x hx
      obtain ⟨k, hk, rfl⟩ := List.mem_map.mp hx
      exact hcl k (List.mem_range.mp hk))
    (by
      intro x hx
      obtain ⟨k, hk, rfl⟩ := List.mem_map.mp hx
      exact hc k (List.mem_range.mp hk))
    (by
      intro r hr r' hr' p hp hp'
      obtain ⟨k, hk, rfl⟩ := List.mem_map.mp hr
      obtain ⟨j, hj, rfl⟩ := List.mem_map.mp hr'
      rw [Real.dist_eq]
      exact hη k (List.mem_range.mp hk) j (List.mem_range.mp hj) p hp.2 hp.1 hp'.1)
  rw [pannerRegions_union] at main
  have hx' := main x hx δ hδ
  filter_upwards [hx', self_mem_nhdsWithin] with y hy hyU
  rw [Real.dist_eq] at hy
  simp only [G, panner_eq_candidates regions n ρ S c y hyU.1, panner_eq_candidates regions n ρ S c x hx.1]
  exact hy


/-! ### non-vacuity of the hypotheses of the all-triplet panner theorem and of the sliver bound -/

/-- the standard basis triplet ... -/
def exP : Mat3 ℝ := ((1, 0, 0), (0, 1, 0), (0, 0, 1))
/-- ... and its neighbour across the edge e₁ e₂ (third loudspeaker mirrored: α = β = 0, γ = 1) -/
def exQ : Mat3 ℝ := ((1, 0, 0), (0, 1, 0), (0, 0, -1))

theorem pv_exP (p : Vec3 ℝ) : Triplet.pv exP p = p := by
  obtain ⟨x, y, z⟩ := p
  simp [Triplet.pv, vecMat, inv3, det3, exP]

theorem pv_exQ (p : Vec3 ℝ) : Triplet.pv exQ p = (p.1, p.2.1, -p.2.2) := by
  obtain ⟨x, y, z⟩ := p
  simp [Triplet.pv, vecMat, inv3, det3, exQ]

theorem ex_meet : MeetInSharedFace ([0, 1, 2], exP) ([0, 1, 3], exQ) ∧
    MeetInSharedFace ([0, 1, 3], exQ) ([0, 1, 2], exP) := by
  constructor
  · intro p hp ha ha'
    simp only [Triplet.acceptsE, pv_exP, pv_exQ] at ha ha'
    obtain ⟨x, y, z⟩ := p
    simp only at ha ha'
    have hz : z = 0 := by linarith [ha.2.2, ha'.2.2]
    subst hz
    exact ⟨0, 1, 0, 1, x, y, by decide, by decide, ha.1, ha.2.1, by simp [edgePoint, row, exP, add3, smul3],
      by simp [row, exP, exQ], by simp [chanAt], Or.inr ⟨by simp [row, exP, exQ], by simp [chanAt]⟩⟩
  · intro p hp ha ha'
    simp only [Triplet.acceptsE, pv_exP, pv_exQ] at ha ha'
    obtain ⟨x, y, z⟩ := p
    simp only at ha ha'
    have hz : z = 0 := by linarith [ha.2.2, ha'.2.2]
    subst hz
    exact ⟨0, 1, 0, 1, x, y, by decide, by decide, ha.1, ha.2.1, by simp [edgePoint, row, exQ, add3, smul3],
      by simp [row, exP, exQ], by simp [chanAt], Or.inr ⟨by simp [row, exP, exQ], by simp [chanAt]⟩⟩

/-- a two-triplet panner satisfying every hypothesis of `panner_continuousOn_triplets_partial`; the direction
    `(1, 1, 0)` lies on the shared edge, in both cones -/
example : let regions : List TRegion := [([0, 1, 2], exP), ([0, 1, 3], exQ)]
    (∀ r ∈ regions, det3 r.2 ≠ 0) ∧ (∀ r ∈ regions, r.chOk) ∧
      (∀ r ∈ regions, ∀ r' ∈ regions, r ≠ r' → MeetInSharedFace r r') ∧
      ((1 : ℝ), (1 : ℝ), (0 : ℝ)) ∈ TRegion.cone ([0, 1, 2], exP) ∧ ((1 : ℝ), (1 : ℝ), (0 : ℝ)) ∈ TRegion.cone ([0, 1, 3], exQ) := by
  intro regions
  refine ⟨?_, ?_, ?_, ?_, ?_⟩
  · intro r hr
    simp only [regions, List.mem_cons, List.mem_nil_iff, or_false] at hr
    rcases hr with rfl | rfl <;> norm_num [det3, exP, exQ]
  · intro r hr
    simp only [regions, List.mem_cons, List.mem_nil_iff, or_false] at hr
    rcases hr with rfl | rfl
    · exact ⟨0, 1, 2, rfl, by decide, by decide, by decide⟩
    · exact ⟨0, 1, 3, rfl, by decide, by decide, by decide⟩
  · intro r hr r' hr' hne
    simp only [regions, List.mem_cons, List.mem_nil_iff, or_false] at hr hr'
    rcases hr with rfl | rfl <;> rcases hr' with rfl | rfl
    · exact absurd rfl hne
    · exact ex_meet.1
    · exact ex_meet.2
    · exact absurd rfl hne
  · refine ⟨?_, by simp⟩
    simp only [mem_ofPred_eq, Triplet.acceptsE, pv_exP]; norm_num
  · refine ⟨?_, by simp⟩
    simp only [mem_ofPred_eq, Triplet.acceptsE, pv_exQ]; norm_num

theorem exQ_opposite : oppositeTriplet exP 0 0 1 = exQ := by
  simp [oppositeTriplet, exP, exQ, comb3, add3, smul3]

/-- a direction INSIDE the sliver (5e-12 below the shared edge: outside the exact cone of `exP`, inside the slack)
    satisfies every hypothesis of `triplet_sliver_bound`: both triplets answer -/
example : let p : Vec3 ℝ := (1, 0, -(5 / 1000000000000))
    det3 exP ≠ 0 ∧ nsq exP.1 + nsq exP.2.1 + nsq exP.2.2 ≤ 4 ∧
      nsq exP.1 + nsq exP.2.1 + nsq (comb3 0 0 (-1) exP) ≤ 4 ∧ 3 / 4 ≤ nsq p ∧
      (∃ g, Triplet.handle exP p = some g) ∧ (∃ g', Triplet.handle (oppositeTriplet exP 0 0 1) p = some g') ∧
      ¬ Triplet.acceptsE 0 exP p := by
  intro p
  have hP : Triplet.accepts exP p := by
    rw [← acceptsE_eps]; simp only [Triplet.acceptsE, pv_exP, tripletEps_real, p]; norm_num
  have hQ : Triplet.accepts exQ p := by
    rw [← acceptsE_eps]; simp only [Triplet.acceptsE, pv_exQ, tripletEps_real, p]; norm_num
  refine ⟨by norm_num [det3, exP], by norm_num [nsq, exP], by norm_num [nsq, exP, comb3, add3, smul3],
    by norm_num [nsq, p], ⟨Triplet.gains exP p, by simp [Triplet.handle, hP]⟩,
    ⟨Triplet.gains exQ p, by rw [exQ_opposite]; simp [Triplet.handle, hQ]⟩, ?_⟩
  simp only [Triplet.acceptsE, pv_exP, p]; norm_num


/-! ### end to end for the code's threshold: the model's panner on two edge-sharing triplets -/

theorem nsq_ne_zero {p : Vec3 ℝ} (h : 3 / 4 ≤ nsq p) : p ≠ (0, 0, 0) := by
  rintro rfl
  simp [nsq] at h
  linarith

theorem isClosed_nsq_ge : IsClosed {p : Vec3 ℝ | 3 / 4 ≤ nsq p} := by
  simp only [nsq]
  exact isClosed_le continuous_const (by fun_prop)

theorem regionAnswer_two (r0 r1 : Region ℝ) (n : Nat) (ρ : Vec3 ℝ → Nat → Option ℝ × Option ℝ) (p : Vec3 ℝ) :
    regionAnswer [r0, r1] n ρ 0 p = remap r0.channels n (r0.handle (ρ p 0) p) ∧
      regionAnswer [r0, r1] n ρ 1 p = remap r1.channels n (r1.handle (ρ p 1) p) := by
  simp [regionAnswer, PointSourcePanner.results, List.range_succ]

/-- answer of a triplet region inside a panner: `None` iff `Triplet.handle` is, else the remapped gains -/
theorem triplet_answer (ch : List Nat) (P : Mat3 ℝ) (n : Nat) (roots : Option ℝ × Option ℝ) (p : Vec3 ℝ) :
    (remap (Region.triplet ch P).channels n ((Region.triplet ch P).handle roots p) ≠ none ↔ Triplet.handle P p ≠ none) ∧
      (Triplet.handle P p ≠ none → remap (Region.triplet ch P).channels n ((Region.triplet ch P).handle roots p) =
        some (tripletOut n (ch, P) p)) := by
  simp only [Region.channels, Region.handle, remap, tripletOut]
  cases h : Triplet.handle P p with
  | none => simp
  | some g => simp [handle_some_eq_gains h]

/-- END TO END, for the code's own threshold −1e-11, on the model's `PointSourcePanner.handle`: a panner made of two
    invertible triplets sharing the edge `u v` (`P = (u, v, w)` on channels `cu cv cw`, `Q = (u, v, w')` on `cu cv cw'`,
    `w' = α·u + β·v − γ·w`, `γ > 0`; four distinct channels; loudspeaker positions of norm about 1).  On directions of
    norm about 1 (`‖p‖² ≥ 3/4`) every output channel's gain varies, near every direction accepted by one of the
    triplets, by at most `η + δ` for every `δ > 0`, where `η = 15/2 · max(|α|, |β|, γ+1) · max(1, 1/γ) · 1e-11`:
    the composed function is continuous up to jumps of `η`. -/
theorem two_triplet_panner_jump_bound (P : Mat3 ℝ) (hd : det3 P ≠ 0) (α β γ : ℝ) (hγ : 0 < γ)
    (hrows : nsq P.1 + nsq P.2.1 + nsq P.2.2 ≤ 4)
    (hrows' : nsq P.1 + nsq P.2.1 + nsq (comb3 α β (-γ) P) ≤ 4)
    (cu cv cw cw' n c : Nat) (huw : cu ≠ cw) (huw' : cu ≠ cw') (hvw : cv ≠ cw) (hvw' : cv ≠ cw')
    (hww' : cw ≠ cw') (ρ : Vec3 ℝ → Nat → Option ℝ × Option ℝ) :
    let regions := [Region.triplet [cu, cv, cw] P, Region.triplet [cu, cv, cw'] (oppositeTriplet P α β γ)]
    let S := {p : Vec3 ℝ | 3 / 4 ≤ nsq p}
    let η := 15 / 2 * (max (max |α| |β|) (γ + 1) * max 1 (1 / γ)) * (1 / 100000000000)
    let U := {p | p ∈ S ∧ ∃ k < regions.length, regionAnswer regions n ρ k p ≠ none}
    let G := fun p => ((PointSourcePanner.handle regions n (ρ p) p).map (·.getD c 0)).getD 0
    ∀ x ∈ U, ∀ δ > 0, ∀ᶠ y in nhdsWithin x U, |G y - G x| ≤ η + δ := by
  intro regions S η
  set Q := oppositeTriplet P α β γ with hQ
  have hdQ : det3 Q ≠ 0 := by
    rw [hQ, det3_opposite]; exact mul_ne_zero (neg_ne_zero.mpr hγ.ne') hd
  have hη0 : 0 ≤ η := by
    have h1 : (1 : ℝ) ≤ max (max |α| |β|) (γ + 1) := le_trans (by linarith) (le_max_right _ _)
    have h2 : (1 : ℝ) ≤ max 1 (1 / γ) := le_max_left _ _
    have : 0 ≤ max (max |α| |β|) (γ + 1) * max 1 (1 / γ) := mul_nonneg (by linarith) (by linarith)
    simp only [η]; positivity
  -- the two answers
  have hans : ∀ p, regionAnswer regions n ρ 0 p = remap (Region.triplet [cu, cv, cw] P).channels n
        ((Region.triplet [cu, cv, cw] P).handle (ρ p 0) p) ∧
      regionAnswer regions n ρ 1 p = remap (Region.triplet [cu, cv, cw'] Q).channels n
        ((Region.triplet [cu, cv, cw'] Q).handle (ρ p 1) p) := fun p => regionAnswer_two _ _ n ρ p
  have hlen : regions.length = 2 := rfl
  -- per region: data (channels, matrix)
  have key : ∀ k < regions.length, ∃ ch R, det3 R ≠ 0 ∧
      (∀ p, (regionAnswer regions n ρ k p ≠ none ↔ Triplet.handle R p ≠ none) ∧
        (Triplet.handle R p ≠ none → regionAnswer regions n ρ k p = some (tripletOut n (ch, R) p))) := by
    intro k hk
    rw [hlen] at hk
    interval_cases k
    · refine ⟨[cu, cv, cw], P, hd, fun p => ?_⟩
      rw [(hans p).1]; exact triplet_answer _ _ _ _ _
    · refine ⟨[cu, cv, cw'], Q, hdQ, fun p => ?_⟩
      rw [(hans p).2]; exact triplet_answer _ _ _ _ _
  apply panner_jump_bound_of_regions regions n ρ S c η
  · intro k hk
    obtain ⟨ch, R, _, hR⟩ := key k hk
    refine ⟨{p | Triplet.handle R p ≠ none}, triplet_accept_isClosed_code R, ?_⟩
    ext p
    simp only [mem_inter_iff, mem_ofPred_eq, (hR p).1]
  · intro k hk
    obtain ⟨ch, R, hdR, hR⟩ := key k hk
    refine ((tripletOut_continuousOn_ne n c (ch, R) hdR).mono ?_).congr ?_
    · intro p hp; exact nsq_ne_zero hp.2
    · intro p hp
      have := (hR p).2 ((hR p).1.mp hp.1)
      simp only [this, Option.map_some, Option.getD_some]
  · intro k hk j hj p hpS hk' hj'
    rw [hlen] at hk hj
    -- both triplets accept p
    have hP : ∀ p, regionAnswer regions n ρ 0 p ≠ none → Triplet.handle P p ≠ none := fun p h => by
      rw [(hans p).1] at h; exact (triplet_answer _ _ _ _ _).1.mp h
    have hQ' : ∀ p, regionAnswer regions n ρ 1 p ≠ none → Triplet.handle Q p ≠ none := fun p h => by
      rw [(hans p).2] at h; exact (triplet_answer _ _ _ _ _).1.mp h
    have cross : ∀ p ∈ S, regionAnswer regions n ρ 0 p ≠ none → regionAnswer regions n ρ 1 p ≠ none →
        |((regionAnswer regions n ρ 0 p).map (·.getD c 0)).getD 0 - ((regionAnswer regions n ρ 1 p).map (·.getD c 0)).getD 0| ≤ η := by
      intro p hpS h0 h1
      have a0 := hP p h0
      have a1 := hQ' p h1
      obtain ⟨g, hg⟩ := Option.ne_none_iff_exists'.mp a0
      obtain ⟨g', hg'⟩ := Option.ne_none_iff_exists'.mp a1
      obtain ⟨m0, m1, m2, m3⟩ := triplet_sliver_bound P hd α β γ hγ p g g' hrows hrows' hpS hg hg'
      rw [(hans p).1, (hans p).2, (triplet_answer _ _ n (ρ p 0) p).2 a0, (triplet_answer _ _ n (ρ p 1) p).2 a1]
      simp only [Option.map_some, Option.getD_some, tripletOut, ← handle_some_eq_gains hg, ← handle_some_eq_gains hg',
        vecList, scatter3_getD]
      have z : |(0 : ℝ) - 0| ≤ η := by simpa using hη0
      split_ifs <;> first | exact m0 | exact m1 | exact m2 | exact m3 | exact z | (exfalso; omega)
    interval_cases k <;> interval_cases j
    · simpa using hη0
    · exact cross p hpS hk' hj'
    · rw [abs_sub_comm]; exact cross p hpS hj' hk'
    · simpa using hη0

/-- the hypotheses of `two_triplet_panner_jump_bound` are satisfiable: the standard basis triplet and its mirror image
    across the edge e₁ e₂, on channels 0 1 2 / 0 1 3 (a direction inside the sliver, accepted by both, is exhibited in
    the example above) -/
example (ρ : Vec3 ℝ → Nat → Option ℝ × Option ℝ) (c : Nat) :=
  two_triplet_panner_jump_bound exP (by norm_num [det3, exP]) 0 0 1 (by norm_num) (by norm_num [nsq, exP])
    (by norm_num [nsq, exP, comb3, add3, smul3]) 0 1 2 3 4 c (by decide) (by decide) (by decide) (by decide) (by decide) ρ

/-! ### non-vacuity -/

example : cross3 ((1 : ℝ), 0, 0) (0, 1, 0) ≠ (0, 0, 0) := by norm_num [cross3]
example : ((1 : ℝ), 1, 0) ∈ {p | Triplet.pv (((1 : ℝ), 0, 0), (0, 1, 0), (0, 0, 1)) p ≠ (0, 0, 0)} := by
  simp [Triplet.pv, vecMat, inv3, det3]
example : ((1 : ℝ), 0, 0, 0, 0) ∈ stereoDomain := by simp [stereoDomain]

/-- PARTIAL (see the header): piecewise continuity + agreement on shared edges + pasting along the first-accept loop
    (all-triplet panner at slack 0) + the sliver bound for the code's slack. -/
theorem C12_partial :
    (type_of% @edge_unique) ∧ (type_of% @edge_exists) ∧ (type_of% @triplet_on_edge) ∧ (type_of% @edge_agreement) ∧
    (type_of% @triplet_continuousOn) ∧ (type_of% @triplet_handle_continuousOn) ∧ (type_of% @stereo_continuousOn) ∧
    (type_of% @downmix_continuousOn) ∧ (type_of% @quad_on_edge) ∧ (type_of% @quad_edge_agreement) ∧
    (type_of% @quad_edge_agreement') ∧ (type_of% @ngon_candidate_on_edge) ∧ (type_of% @ngon_on_edge) ∧
    (type_of% @firstAccept_eq_of_agree) ∧ (type_of% @firstAccept_continuousOn) ∧ (type_of% @firstAccept_jump_bound) ∧
    (type_of% @panner_continuousOn_of_regions) ∧ (type_of% @triplet_accept_isClosed) ∧
    (type_of% @triplet_accept_isClosed_code) ∧ (type_of% @ngon_accept_isClosed) ∧
    (type_of% @quad_accept_isOpen_of_roots) ∧ (type_of% @tripletPannerE_eps) ∧ (type_of% @shared_face_agreement) ∧
    (type_of% @panner_continuousOn_triplets_partial) ∧ (type_of% @triplet_sliver_bound_general) ∧
    (type_of% @triplet_sliver_bound) ∧ (type_of% @panner_jump_bound_of_regions) ∧
    (type_of% @two_triplet_panner_jump_bound) :=
  ⟨@edge_unique, @edge_exists, @triplet_on_edge, @edge_agreement, @triplet_continuousOn,
    @triplet_handle_continuousOn, @stereo_continuousOn, @downmix_continuousOn, @quad_on_edge, @quad_edge_agreement,
    @quad_edge_agreement', @ngon_candidate_on_edge, @ngon_on_edge, @firstAccept_eq_of_agree,
    @firstAccept_continuousOn, @firstAccept_jump_bound, @panner_continuousOn_of_regions, @triplet_accept_isClosed,
    @triplet_accept_isClosed_code, @ngon_accept_isClosed, @quad_accept_isOpen_of_roots, @tripletPannerE_eps,
    @shared_face_agreement, @panner_continuousOn_triplets_partial, @triplet_sliver_bound_general,
    @triplet_sliver_bound, @panner_jump_bound_of_regions, @two_triplet_panner_jump_bound⟩

end Earverif.PointSource
